From ZV Require Import Ser.SerdeModel Ser.SerdeProofs.
Local Open Scope N_scope.
Example C03_nonvacuous :
  zser (SStruct [83] 2 [([97], SStr [104;10;34]); ([98], SSeq None [SInt I8 (-3)%Z; SNone])]) 64
  = Ok [123;34;97;34;58;34;104;92;110;92;34;34;44;34;98;34;58;91;45;51;44;110;117;108;108;93;125].
Proof. vm_compute. reflexivity. Qed.
