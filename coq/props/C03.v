(* C03 — the built-in JSON serializer is byte-identical to serde_json's compact output.
   Only pinned statements; proofs are in Ser/SerdeProofs.v, Ser/Decimal.v and gen/Escape.v.

   zser v n    model of zlink-core/src/json_ser.rs::to_slice on the tree of serde Serializer
               calls v, writing into a slice of n bytes (Ser/SerdeModel.v)
   ref_enc v   the reference: serde_json's compact encoding of the same calls, written from the
               JSON value grammar (Ser/SerdeModel.v), None where serde_json refuses a map key *)
From ZV Require Import Ser.SerdeModel Ser.SerdeProofs.
Local Open Scope N_scope.

(* Whenever serialization succeeds — for every tree of serializer calls (every data-model shape,
   every string content, every integer, every finite or non-finite float, every length hint) and
   every buffer size — the bytes are exactly the reference encoding. *)
Theorem C03_equal :
  forall (v : sval) (n : N) (bs : list byte), zser v n = Ok bs -> ref_enc v = Some bs.
Proof. exact equal. Qed.
Print Assumptions C03_equal.

(* The result does not depend on how much space was free: success at one size means the output
   fits that size, the same bytes are produced at every size that can hold them, and
   BufferTooSmall is reported at every smaller size (so growing and retrying terminates with the
   same bytes). *)
Theorem C03_buffer_independent :
  forall (v : sval) (n : N) (bs : list byte), zser v n = Ok bs ->
  N.of_nat (length bs) <= n /\
  forall m, (N.of_nat (length bs) <= m -> zser v m = Ok bs) /\
            (m < N.of_nat (length bs) -> zser v m = Err BufferTooSmall).
Proof. exact buffer_independent. Qed.
Print Assumptions C03_buffer_independent.

(* No raw control character and no NUL in a successful output, whatever bytes the strings, keys,
   field and variant names of the value contain; the only assumption is that the text ryu produced
   for a finite float contains no control byte. *)
Theorem C03_clean_bytes :
  forall (v : sval) (n : N) (bs : list byte), floats_clean v -> zser v n = Ok bs ->
  Forall (fun b => 32 <= b /\ b <> 0) bs.
Proof.
  intros v n bs Hf H. eapply Forall_impl; [|exact (clean_bytes v n bs Hf H)].
  cbv beta. intros b Hb. lia.
Qed.
Print Assumptions C03_clean_bytes.

(* A value with an unacceptable map key anywhere (a key that is not a string, char, integer, unit
   variant or a newtype struct around one of these) is never encoded: the result is
   KeyMustBeAString as soon as the buffer can hold what precedes the key, BufferTooSmall below. *)
Theorem C03_bad_keys_refused :
  forall v : sval, keys_ok v = false ->
  (forall n bs, zser v n <> Ok bs) /\
  exists n0, forall n, (n0 <= n -> zser v n = Err KeyMustBeAString) /\
                       (n < n0 -> zser v n = Err BufferTooSmall).
Proof. exact bad_keys_refused. Qed.
Print Assumptions C03_bad_keys_refused.

(* ... and only such values are refused: with acceptable keys the value serializes, to the
   reference bytes, in every buffer that can hold them. *)
Theorem C03_good_keys_accepted :
  forall v : sval, keys_ok v = true ->
  exists bs, ref_enc v = Some bs /\ forall n, N.of_nat (length bs) <= n -> zser v n = Ok bs.
Proof. exact good_keys_accepted. Qed.
Print Assumptions C03_good_keys_accepted.

(* If every string handed to the serializer is UTF-8 and every char a Unicode scalar value (true of
   every Rust &str / char), a successful output is well-formed UTF-8 (RFC 3629). *)
Theorem C03_utf8 :
  forall (v : sval) (n : N) (bs : list byte), text_utf8 v -> zser v n = Ok bs -> utf8 bs.
Proof. exact output_utf8. Qed.
Print Assumptions C03_utf8.

(* A successful output is a JSON text (RFC 8259 grammar, Ser/Json.v), provided the length hints
   the value passes to serialize_seq/map/tuple/struct are truthful where it matters (a hint of
   zero only on an empty compound) and ryu's float texts are JSON numbers. *)
Theorem C03_is_json :
  forall (v : sval) (n : N) (bs : list byte), hints_ok v = true -> floats_ok v ->
  zser v n = Ok bs -> jvalue bs.
Proof. exact is_json. Qed.
Print Assumptions C03_is_json.

(* The `unsafe { unreachable_unchecked() }` arm of the escape match is never reached. *)
Theorem C03_no_undefined_behaviour :
  forall (v : sval) (n : N), zser v n <> Err Unreachable.
Proof. exact never_unreachable. Qed.
Print Assumptions C03_no_undefined_behaviour.

(* The escape table, as translated from the current source on this run: exactly the control
   characters, the quotation mark and the reverse solidus are escaped, each in the RFC 8259
   spelling serde_json uses (two-character escapes, else \u00xx with lower-case hex). *)
Theorem C03_escape_table_rfc8259 :
  forall b, b < 256 ->
  (escape_of b <> 0 <-> (b < 32 \/ b = 34 \/ b = 92)) /\
  (escape_of b <> 0 -> exists ce, classify (escape_of b) b = Some ce /\
                                  concat (escape_writes ce) = rfc_escape b).
Proof. exact C03_escape_table. Qed.
Print Assumptions C03_escape_table_rfc8259.

(* The decimal formatter standing for itoa is correct: reading the text back gives the integer. *)
Theorem C03_decimal_correct : forall z : Z, int_val (fmt_int z) = z.
Proof. exact fmt_int_correct. Qed.
Print Assumptions C03_decimal_correct.

(* Non-vacuity: a struct with an escaped non-ASCII string, a map with a quoted integer key and a
   char key, a float, a tuple variant and an empty sequence satisfies every hypothesis used above
   and serializes as stated, in a buffer of exactly the output size and not in a smaller one. *)
Definition ex_v : sval :=
  SStruct [83] 3
    [([97], SStr [195; 169; 10; 34]);
     ([109], SMap (Some 2) [(SInt I8 (-3)%Z, SF64 (FFinite [49; 46; 53])); (SChar 8364, SNone)]);
     ([101], STupleVariant [69] 1 [86] 2 [SBool true; SSeq None []])].
Definition ex_bytes : list byte :=
  [123;34;97;34;58;34;195;169;92;110;92;34;34;44;34;109;34;58;123;34;45;51;34;58;49;46;53;44;34;226;
   130;172;34;58;110;117;108;108;125;44;34;101;34;58;123;34;86;34;58;91;116;114;117;101;44;91;93;93;
   125;125].
Example C03_nonvacuous :
  keys_ok ex_v = true /\ hints_ok ex_v = true /\ floats_ok ex_v /\ floats_clean ex_v /\ text_utf8 ex_v /\
  zser ex_v 60 = Ok ex_bytes /\ zser ex_v 4096 = Ok ex_bytes /\ zser ex_v 59 = Err BufferTooSmall /\
  ref_enc ex_v = Some ex_bytes.
Proof.
  split; [reflexivity|]. split; [reflexivity|].
  split; [cbn; tauto|]. split; [cbn; repeat split; repeat constructor; lia|].
  split.
  - cbn. repeat split; try (apply utf8_ascii; repeat constructor; lia).
    + apply u_2; [lia|unfold cont; lia|]. apply utf8_ascii; repeat constructor; lia.
    + unfold is_scalar. lia.
  - repeat split; vm_compute; reflexivity.
Qed.

(* Non-vacuity of the refusal: a bool key after some output was already produced. *)
Definition ex_bad : sval := SMap None [(SStr [97], SInt U8 1%Z); (SBool true, SUnit)].
Example C03_bad_key_nonvacuous :
  keys_ok ex_bad = false /\ zser ex_bad 7 = Err KeyMustBeAString /\
  zser ex_bad 6 = Err BufferTooSmall /\ ref_enc ex_bad = Some [123;34;97;34;58;49;44;34;116;114;117;101;34;58;110;117;108;108;125].
Proof. repeat split; vm_compute; reflexivity. Qed.

(* Non-vacuity for the two call shapes that depend on serde's defaults: a Display value written in
   three fragments through collect_str as a map key (joined, then escaped as one string), and a
   value whose Serialize impl consults is_human_readable() (the human-readable branch is taken). *)
Definition ex_hr : sval :=
  SMap (Some 1) [(SCollectStr [[50; 48]; [45]; [195; 169; 10]],
                  SHumanReadable (SStr [49; 46; 50]) (STuple 2 [SInt U8 1%Z; SInt U8 2%Z]))].
Example C03_defaults_nonvacuous :
  human_readable = true /\ keys_ok ex_hr = true /\
  zser ex_hr 17 = Ok [123;34;50;48;45;195;169;92;110;34;58;34;49;46;50;34;125] /\
  zser ex_hr 16 = Err BufferTooSmall /\
  ref_enc ex_hr = Some [123;34;50;48;45;195;169;92;110;34;58;34;49;46;50;34;125].
Proof. repeat split; vm_compute; reflexivity. Qed.
