(* C06 — a chain's reply stream yields exactly the replies its calls are owed.
   Only pinned statements; proofs in Framing/ChainProofs.v (and WriteConnProofs.v for the write). *)
From ZV Require Import Framing.ReadConn Framing.ReadConnProofs Framing.Chain Framing.ChainProofs
                       Framing.WriteConn Framing.WriteConnProofs.

(* For every list of reply frames on the wire (the chain's own replies followed by any trailing
   frames of later exchanges), every chunking with not-ready polls, every expected-reply count:
   if the frames are conforming (no undecodable frame) and complete the chain, the stream yields
   exactly the first `owed` frames in order - for each expected reply every continuing reply up to
   and including the first non-continuing one or the call's error - then ends; and the frames
   behind them are what later receives on the connection see, in order, none consumed. *)
Theorem C06_exact :
  forall (step limit : N) (D : Type) (decode : list byte -> D) (kind : D -> ikind), (0 < step)%N ->
  forall fs tr tl' polls fuel n m count,
  Forall frame_ok fs -> Forall ok_ev tr -> payload tr = wire fs ->
  (N.of_nat (length (wire fs)) < limit)%N ->
  length tr < polls -> length (wire fs) + length tr < fuel ->
  conforming (map (fun f => kind (decode f)) fs) ->
  completes count (map (fun f => kind (decode f)) fs) -> length fs < n ->
  let k := owed count (map (fun f => kind (decode f)) fs) in
  exists items c' s' tr',
    collect step limit D decode kind n polls fuel (cs_init count) (init step) (tr ++ Eof :: tl')
      = (items, c', s', tr', true)
    /\ map fst items = map (fun f => Msg (decode f)) (firstn k fs)
    /\ map fst (run step limit D decode m polls fuel s' tr')
       = firstn m (map (fun f => Msg (decode f)) (skipn k fs) ++ repeatn REof m).
Proof. exact chain_exact. Qed.
Print Assumptions C06_exact.

(* A chain made only of oneway calls owes nothing: the stream ends at the first poll and neither
   the connection state nor the transport is touched. *)
Theorem C06_zero_owed :
  forall (step limit : N) (D : Type) (decode : list byte -> D) (kind : D -> ikind),
  forall flags n polls fuel s tr, Forall (fun b => b = true) flags ->
  collect step limit D decode kind (S n) polls fuel (cs_init (reply_count flags)) s tr
  = ([], cs_init (reply_count flags), s, tr, true).
Proof. exact chain_zero_owed. Qed.
Print Assumptions C06_zero_owed.

(* One write, chain order: a chain is enqueue* followed by one flush; by C02_framing the transport
   sees exactly what the abstract queue prescribes, which for this history is a single write
   holding every call followed by its terminator, in order. *)
Theorem C06_one_write :
  forall (step limit : N), (0 < step)%N -> forall K : N, limit = (K * step)%N -> (1 <= K)%N ->
  forall ms script, all_accept script ->
  let ops := map (fun bs => Enqueue (Good bs)) ms ++ [Flush] in
  let r := wrun step limit (N.to_nat K + 1) (winit step) script ops in
  map fst (fst r) = map (fun _ => WOk) ms ++ [WOk] ->
  snd r = match wire ms with [] => [] | w => [w] end.
Proof.
  intros step limit Hs K Hl HK ms script Ha ops r Hres.
  subst r. pose proof (wrun_refines step limit Hs K Hl HK ops (winit step) script) as H.
  rewrite H; [|apply (WInv_init step limit); assumption|exact Ha].
  rewrite Hres. subst ops. cbn [winit wbuf]. apply (spec_writes_chain ms []).
Qed.
Print Assumptions C06_one_write.

Example C06_nonvacuous :
  (* kinds by first byte: 67 'C' continuing, 70 'F' final, 69 'E' error; chain expecting 2 replies
     (e.g. flags more, oneway, plain), replies C C F E then a trailing frame F of a later exchange *)
  let kind := fun f : list byte => match f with 67%N :: _ => Cont | 69%N :: _ => MErr | _ => Final end in
  let fs := [[67;1]; [67;2]; [70;3]; [69;4]; [70;5]]%N in
  let tr := [Data [67;1;0;67]; Pend; Data [2;0;70;3;0;69;4]; Data [0;70;5;0]]%N in
  reply_count [false; true; false] = 2 /\ owed 2 (map kind fs) = 4 /\
  conforming (map kind fs) /\ completes 2 (map kind fs) /\
  let '(items, _, s', tr', ended) :=
    collect 4 64 (list byte) (fun f => f) kind 9 10 100 (cs_init 2) (init 4) (tr ++ [Eof]) in
  map fst items = [Msg [67;1]; Msg [67;2]; Msg [70;3]; Msg [69;4]]%N /\ ended = true /\
  map fst (run 4 64 (list byte) (fun f => f) 2 10 100 s' tr') = [Msg [70;5]; REof]%N.
Proof.
  cbv zeta. split; [reflexivity|]. split; [reflexivity|]. split.
  - repeat constructor; discriminate.
  - split; [unfold completes; cbn; lia|]. vm_compute. auto.
Qed.
