(* C19 — end to end over real Unix sockets nothing is lost or corrupted.
   PARTIAL with an OPEN FINDING.  The logic core (write buffer + the transport's write-all loop
   over a kernel that accepts arbitrary prefixes + dropped flush futures, composed with the
   receive side) is modelled and proved; kernel buffering, wake-ups and real timing are exercised by
   the socket harness (testing).  The property's last sentence is false of the code: a send
   abandoned after a partial write is re-sent from the start (C19_cancel_refuted; finding
   C19.flush_cancelled_after_partial_write). *)
From ZV Require Import Framing.WriteConn Framing.WriteConnProofs Framing.Pipe Framing.PipeProofs
                       Framing.ReadConn Framing.ReadConnProofs Framing.Ids.

(* For every history of enqueue/send/flush, every schedule of partial kernel writes and dropped
   flush futures: unless a flush was dropped after the kernel had taken part of it, the bytes the
   peer has are the wire form of a prefix of the accepted messages - whole frames, each exactly
   once, in order - and the remaining accepted messages are still buffered, in order. *)
Theorem C19_intact_unless_partial_cancel :
  forall (step limit : N), (0 < step)%N -> forall K : N, limit = (K * step)%N -> (1 <= K)%N ->
  forall ops sched,
  let s := snd (krun step limit (N.to_nat K + 1) (kinit step) sched ops) in
  k_dirty s = false ->
  exists done pend, k_acc s = done ++ pend /\ k_out s = wire done /\ wbuf (k_conn s) = wire pend.
Proof.
  intros step limit Hs K Hl HK ops sched s Hd.
  pose proof (krun_intact step limit Hs K Hl HK ops (kinit step) sched []
                (KInv_init step limit Hs K Hl HK) Hd) as [_ H].
  exact H.
Qed.
Print Assumptions C19_intact_unless_partial_cancel.

(* without dropped futures the premise holds: any sizes, any partial writes *)
Theorem C19_no_cancel_never_dirty :
  forall (step limit : N) ops fuel sched, no_cancel sched ->
  k_dirty (snd (krun step limit fuel (kinit step) sched ops)) = false.
Proof. intros. now apply krun_no_cancel. Qed.
Print Assumptions C19_no_cancel_never_dirty.

(* end to end: what the peer's zlink connection then returns, for any chunking of those bytes *)
Theorem C19_end_to_end :
  forall (step limit : N), (0 < step)%N -> forall K : N, limit = (K * step)%N -> (1 <= K)%N ->
  forall (D : Type) (decode : list byte -> D) ops sched,
  let s := snd (krun step limit (N.to_nat K + 1) (kinit step) sched ops) in
  k_dirty s = false -> Forall frame_ok (k_acc s) ->
  exists done pend, k_acc s = done ++ pend /\
  forall n tr tl' polls fuel,
    Forall ok_ev tr -> payload tr = k_out s -> (N.of_nat (length (k_out s)) < limit)%N ->
    length tr < polls -> length (k_out s) + length tr < fuel ->
    map fst (run step limit D decode n polls fuel (init step) (tr ++ Eof :: tl'))
    = firstn n (map (fun f => Msg (decode f)) done ++ repeatn REof n).
Proof.
  intros step limit Hs K Hl HK D decode ops sched s Hd Hfr.
  destruct (C19_intact_unless_partial_cancel step limit Hs K Hl HK ops sched Hd)
    as (done & pend & Hacc & Hout & Hbuf).
  exists done, pend. split; [exact Hacc|].
  intros n tr tl' polls fuel Hok Hpay Hlim Hp Hf.
  fold s in Hout. rewrite Hout in *.
  apply (framing_fresh step limit D decode Hs); auto.
  fold s in Hacc. rewrite Hacc in Hfr. apply Forall_app in Hfr. tauto.
Qed.
Print Assumptions C19_end_to_end.

(* the refutation: a send dropped after the kernel took 2 of its 4 bytes, then another send: the
   peer receives the first two bytes twice, i.e. a frame nobody sent *)
Theorem C19_cancel_refuted :
  exists ops sched,
  let s := snd (krun 4 16 5 (kinit 4) sched ops) in
  k_dirty s = true /\ k_acc s = [[1;2;3]; [4]]%N /\
  k_out s = [1;2; 1;2;3;0; 4;0]%N /\
  map fst (run 4 64 (list byte) (fun f => f) 3 5 50 (init 4) [Data (k_out s); Eof])
  = [Msg [1;2;1;2;3]; Msg [4]; REof]%N.
Proof.
  exists [Send (Good [1;2;3]); Send (Good [4])]%N, [Acc 2; Cancel].
  vm_compute. auto.
Qed.
Print Assumptions C19_cancel_refuted.

(* connection identifiers are pairwise distinct under every interleaving of concurrent creations
   (the counter is advanced by one atomic read-modify-write); with a separate load and store they
   are not (witness) *)
Theorem C19_ids_distinct : forall c sched, NoDup (map snd (run_ids c sched)).
Proof. exact ids_distinct. Qed.
Print Assumptions C19_ids_distinct.

Theorem C19_ids_need_atomic_rmw : exists sched, ~ NoDup (map snd (run_nonatomic 0 [] sched)).
Proof. exact ids_nonatomic_refuted. Qed.
Print Assumptions C19_ids_need_atomic_rmw.

Example C19_nonvacuous :
  (* partial writes of 1, 2, 1 bytes, a flush dropped before anything was written, then completion *)
  let s := snd (krun 4 16 5 (kinit 4) [Acc 1; Acc 2; Acc 1; Cancel]
                     [Send (Good [1;2;3]); Send (Good [4]); Flush]%N) in
  k_dirty s = false /\ k_out s = [1;2;3;0;4;0]%N /\ k_acc s = [[1;2;3]; [4]]%N.
Proof. vm_compute. auto. Qed.
