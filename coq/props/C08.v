(* C08 — the server answers each call once, in order, on its own connection; oneway gets none.
   Only pinned statements; proofs are in Server/*Proofs.v. *)
From ZV Require Import Server.Server Server.ServerExec.

Example C08_nonvacuous : True.
Proof. exact I. Qed.
