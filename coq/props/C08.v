(* C08 — the server answers each call once, in order, on its own connection; oneway gets none.
   Only pinned statements; proofs are in Server/ServerInv.v (per-connection invariant),
   Server/ServerPairs.v (pairing of writes) and Server/ServerThms.v.

   Vocabulary (Server/ServerSpec.v): [view P c T] = the events of trace T that concern connection c;
   [chunk P c h] = the transcript a handled call h = (call, the service's answer, items, ended) leaves
   there: the invocation followed by exactly one reply or error — nothing for a oneway call — or, for
   a streaming answer, the items in the order the stream yields them; [clean P c E]: script E has no
   transport fault on c and no listener failure; [input_of P false c E]: the bytes c receives. *)
From ZV Require Import Server.Server Server.ServerSpec Server.ServerStruct Server.ServerInv
  Server.ServerPairs Server.ServerThms Server.ServerExamples.

(* For every service, decoder and environment script E — any number of other connections, any
   interleaving and fragmentation of everybody's traffic, other clients failing in any way — a
   connection c that sends the frames fs (well-formed, decodable, below the buffer limit) is never
   dropped, and whenever the executor has polled the server and c is back in the call list, c's view
   of the trace is: accepted, then for EVERY frame of fs, in order, exactly the transcript of that
   call.  Consequently what was written to c is the concatenation of the replies (none for oneway
   calls), and nothing else. *)
Theorem C08_per_connection_sequential :
  forall (P : params), (0 < p_step P)%N ->
  forall (c : nat) (fs : list (list byte)),
  Forall frame_ok fs -> (forall f, In f fs -> decode P f <> None) ->
  (N.of_nat (length (wire fs)) < p_limit P)%N ->
  forall (E : list (eev P)) (s0 : sstate P) (s : sv P) (T : list (tev P)),
  clean P c E -> input_of P false c E = wire fs ->
  exec P (E ++ [Poll]) (init_sv P s0) = (s, T) -> stat s = Running ->
  In c (map cid (conns s)) ->
  exists hcs : list (hcall P),
    map (fun h => Some (h_cl h)) hcs = map (decode P) fs /\
    Forall (complete P) hcs /\
    view P c T = TAccept c :: flat_map (chunk P c) hcs /\
    writes P c T = flat_map (resp_writes P) hcs.
Proof. exact per_connection_sequential. Qed.
Print Assumptions C08_per_connection_sequential.

(* At any moment of any run (no quiescence needed): the calls handled for c so far are a prefix of
   its frames, in order, each exactly once; only the last one can still be streaming; c has not
   been dropped. *)
Theorem C08_prefix_at_any_time :
  forall (P : params), (0 < p_step P)%N ->
  forall (c : nat) (fs : list (list byte)),
  Forall frame_ok fs -> (forall f, In f fs -> decode P f <> None) ->
  (N.of_nat (length (wire fs)) < p_limit P)%N ->
  forall (E : list (eev P)) (s0 : sstate P) (s : sv P) (T : list (tev P)),
  clean P c E -> input_of P false c E = wire fs ->
  exec P E (init_sv P s0) = (s, T) ->
  dcount P c T = 0 /\
  exists done rest hcs,
    fs = done ++ rest /\ map (fun h => Some (h_cl h)) hcs = map (decode P) done /\
    Forall (complete P) (removelast hcs) /\
    (view P c T = [] /\ hcs = [] \/ view P c T = TAccept c :: flat_map (chunk P c) hcs) /\
    (In c (map cid (conns s)) ->
     Forall (complete P) hcs /\ view P c T = TAccept c :: flat_map (chunk P c) hcs).
Proof. exact connection_view. Qed.
Print Assumptions C08_prefix_at_any_time.

(* No cross talk, for every script (no hypothesis on any client): every write on a connection is
   immediately preceded by the event it answers on that same connection — the invocation of the
   service for a non-oneway call read from it, with that very answer, or the yield of that very
   item by the stream parked with it. *)
Theorem C08_no_cross_talk :
  forall (P : params) (E : list (eev P)) (s0 : sstate P) (s : sv P) (T : list (tev P)),
  exec P E (init_sv P s0) = (s, T) -> paired P None T.
Proof. exact writes_paired. Qed.
Print Assumptions C08_no_cross_talk.

(* Index stability: when get_next_call yields index i, the connection that sat at index i before
   the scan (same name after it) is the one every event of this iteration concerns — the service
   invocation for the call read from it, the write, a removal by swap_remove or the parking. *)
Theorem C08_reply_on_winner :
  forall (P : params) (s : sv P) st s' t i r cs,
  accq s = [] ->
  scan_calls P (poll_order (lastc s) (length (conns s))) (conns s) = (Some (i, r), cs) ->
  iteration P s = (st, s', t) ->
  exists x0 x, nth_error (conns s) i = Some x0 /\ nth_error cs i = Some x /\ cid x = cid x0 /\
    (forall e, In e t -> about P e = Some (cid x0)) /\
    (forall cl, r = Msg (Some cl) -> exists ans t', t = TInvoke (cid x0) cl ans :: t').
Proof. exact call_iteration_on_winner. Qed.
Print Assumptions C08_reply_on_winner.

(* Non-vacuity: two connections; connection 1 sends "a1", a oneway call "xo1" and an error call "e1"
   pipelined in one burst that arrives cut in the middle of a frame, interleaved with connection 0's
   traffic.  The hypotheses hold and the view of connection 1 is as stated: three calls handled in
   order, no write for the oneway one. *)
Example C08_nonvacuous :
  let fs := [[97;1]; [120;111;1]; [101;1]]%N in
  let E := [NewConn 0; NewConn 1; Arrive 1 [97;1;0;120]%N; Poll; Arrive 0 [66;0]%N;
            Arrive 1 [111;1;0;101;1;0]%N] : list (eev ex_params) in
  Forall frame_ok fs /\ (forall f, In f fs -> decode ex_params f <> None) /\
  clean ex_params 1 E /\ input_of ex_params false 1 E = wire fs /\
  let (s, T) := exec ex_params (E ++ [Poll]) (init_sv ex_params tt) in
  stat s = Running /\ In 1 (map cid (conns s)) /\
  writes ex_params 1 T = [WSingle [97;1]; WError [101;1]]%N.
Proof.
  cbv zeta. split; [repeat constructor; discriminate|]. split.
  { intros f [<-|[<-|[<-|[]]]]; discriminate. }
  split; [repeat constructor; discriminate|]. split; [reflexivity|].
  vm_compute. repeat split; auto.
Qed.
