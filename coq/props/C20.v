(* C20 — notified state: subscribers converge on the latest value, in order; one-shot
   notification; zlink-tokio and zlink-smol behave identically.
   Only pinned statements; proofs are in Notified/Notified{Base,Tokio,Smol,Spec,Proofs}.v.

   Vocabulary (Notified/Notified.v): a scenario is a list of operations
     Set_ v | Subscribe | Poll s | DropSub s | DropState | Notify v | DropNotifier | PollOnce
   performed one after the other on one State, its subscriber streams and one Once pair;
   `run I ops` is the list of their results in the model I (tokio_impl: broadcast::channel(1) +
   BroadcastStream + oneshot under zlink-tokio's adapters; smol_impl: async-broadcast with
   overflow / no await_active / inactive keeper + async-channel under zlink-smol's adapters);
   `trace I ops` pairs every operation with its result; `next I ops o` is the result of o when
   performed after ops; `received s tr` are the values handed to subscriber s, `sets_after s tr`
   the values set since s subscribed. *)
From ZV Require Import Notified.Notified Notified.NotifiedProofs.

(* `next` is what the name says, so a statement about `next I ops o` for all ops speaks about
   every operation of every scenario, whatever preceded and whatever follows it. *)
Theorem C20_next :
  forall (I : impl) (ops : list op) (o : op),
  run I (ops ++ [o]) = run I ops ++ [next I ops o] /\
  trace I (ops ++ [o]) = trace I ops ++ [(o, next I ops o)].
Proof. exact next_is_run. Qed.
Print Assumptions C20_next.

Theorem C20_event_is_next :
  forall (I : impl) (ops : list op) (o : op) (r : out), In (o, r) (trace I ops) ->
  exists ops1 ops2, ops = ops1 ++ o :: ops2 /\ r = next I ops1 o.
Proof. exact event_is_next. Qed.
Print Assumptions C20_event_is_next.

(* For EVERY list of operations (any interleaving, any number of sets, subscribers, drops,
   one-shot operations in between) and every subscriber s, in both models:
   1. what s has received is, in order, a subsequence of the values set after it subscribed;
   2. every item it is handed carries continues = Some true;
   3. it is told end-of-stream only after the State was dropped;
   4. whenever a poll has nothing to hand out (Pending, or end after the drop) the last value s
      received is the last value set since it subscribed (none received iff none set) ...
   5. ... and that point is reached at the latest by the second of two consecutive polls, so
      polling until Pending ends with the latest value;
   6. a poll finds the stream gone only if it was never created or was dropped;
   7. set returns (with get() = the value) as long as the State exists;
   8. no operation panics and no loop of the models runs out of fuel. *)
Theorem C20_subsequence_latest :
  forall I : impl, I = tokio_impl \/ I = smol_impl ->
  forall (ops : list op) (s : nat),
  let tr := trace I ops in
  sublist (received s tr) (sets_after s tr) /\
  (forall v c, next I ops (Poll s) = OItem v c -> c = CTrue) /\
  (next I ops (Poll s) = OEnd -> In (DropState, ODone) tr) /\
  (next I ops (Poll s) = OPending \/ next I ops (Poll s) = OEnd ->
   last_opt (received s tr) = last_opt (sets_after s tr)) /\
  match next I (ops ++ [Poll s]) (Poll s) with OItem _ _ => False | _ => True end /\
  (next I ops (Poll s) = OGone -> ~ In (Subscribe, OSub s) tr \/ In (DropSub s, ODone) tr) /\
  (forall v, next I ops (Set_ v) = OSet v \/
             (next I ops (Set_ v) = OGone /\ In (DropState, ODone) tr)) /\
  (forall o, next I ops o <> OPanic /\ next I ops o <> OFuel).
Proof. exact subsequence_latest_models. Qed.
Print Assumptions C20_subsequence_latest.

(* The convergence, spelled out: after ANY history, a subscriber that exists (created, not
   dropped) reaches "nothing more to hand out" with at most two polls — Pending while the State
   exists, end only after it was dropped — and at that point the last value it has received is
   the last value set since it subscribed (nothing received iff nothing was set). *)
Theorem C20_converges :
  forall I : impl, I = tokio_impl \/ I = smol_impl ->
  forall (ops : list op) (s : nat),
  In (Subscribe, OSub s) (trace I ops) -> ~ In (DropSub s, ODone) (trace I ops) ->
  exists o1 o2,
    run I (ops ++ [Poll s; Poll s]) = run I ops ++ [o1; o2] /\
    (o2 = OPending \/ (o2 = OEnd /\ In (DropState, ODone) (trace I ops))) /\
    last_opt (received s (trace I (ops ++ [Poll s; Poll s]))) =
    last_opt (sets_after s (trace I ops)).
Proof. exact converges_models. Qed.
Print Assumptions C20_converges.

(* One-shot: for every operation list split at the first use of the notifier (pre contains no
   Notify / DropNotifier; anything else may be interleaved anywhere): the one-shot stream is
   Pending before; after notify(v) its next poll yields exactly one item v with
   continues = Some false and every later poll yields end; after the notifier was dropped
   without notifying every poll yields end, no item. *)
Theorem C20_once :
  forall I : impl, I = tokio_impl \/ I = smol_impl ->
  forall (pre post : list op) (v : N), unresolved pre ->
  once_outs (trace I pre) = repeat OPending (npolls pre) /\
  once_outs (trace I (pre ++ Notify v :: post)) =
    repeat OPending (npolls pre) ++
    match npolls post with O => [] | S k => OItem v CFalse :: repeat OEnd k end /\
  once_outs (trace I (pre ++ DropNotifier :: post)) =
    repeat OPending (npolls pre) ++ repeat OEnd (npolls post).
Proof. exact once_models. Qed.
Print Assumptions C20_once.

(* The two models are observationally equal: on every operation list every operation has the
   same result (so every subscriber sees the same items, pendings and ends at the same polls). *)
Theorem C20_same :
  forall ops : list op, run tokio_impl ops = run smol_impl ops.
Proof. exact same_outputs. Qed.
Print Assumptions C20_same.

(* Both are, observably, a latest-value cell (abs_impl: a counter of published values, the
   latest value, and per subscriber the count it has seen). *)
Theorem C20_latest_value_cell :
  forall ops : list op,
  run tokio_impl ops = run abs_impl ops /\ run smol_impl ops = run abs_impl ops.
Proof. exact latest_value_cell. Qed.
Print Assumptions C20_latest_value_cell.

(* Non-vacuity: a scenario with two subscribers created at different points, a lagging one
   (two sets between polls: Lagged / Overflowed is skipped), a dropped one, the State dropped
   with a value still unread, and the one-shot used in between. *)
Example C20_nonvacuous :
  let ops := [Set_ 1; Subscribe; Poll 0; Set_ 2; Subscribe; Set_ 3; Set_ 4; PollOnce; Poll 0;
              Poll 0; Notify 9; Poll 1; DropSub 1; Set_ 5; PollOnce; DropState; Poll 0; Poll 0;
              PollOnce; Poll 1]%N in
  run tokio_impl ops =
    [OSet 1; OSub 0; OPending; OSet 2; OSub 1; OSet 3; OSet 4; OPending; OItem 4 CTrue;
     OPending; ODone; OItem 4 CTrue; ODone; OSet 5; OItem 9 CFalse; ODone; OItem 5 CTrue; OEnd;
     OEnd; OGone]%N /\
  run smol_impl ops = run tokio_impl ops /\
  received 0 (trace tokio_impl ops) = [4; 5]%N /\
  sets_after 0 (trace tokio_impl ops) = [2; 3; 4; 5]%N /\
  sets_after 1 (trace tokio_impl ops) = [3; 4; 5]%N /\
  unresolved (firstn 10 ops).
Proof.
  cbv zeta. repeat split; try (vm_compute; reflexivity).
  intros o H. cbn in H. repeat (destruct H as [<-|H]; [exact I|]). destruct H.
Qed.

(* the notifier dropped without notifying: end, no item *)
Example C20_once_dropped_nonvacuous :
  run smol_impl [PollOnce; DropNotifier; PollOnce; PollOnce; Notify 3%N] =
    [OPending; ODone; OEnd; OEnd; OGone] /\
  run tokio_impl [PollOnce; DropNotifier; PollOnce; PollOnce; Notify 3%N] =
    [OPending; ODone; OEnd; OEnd; OGone].
Proof. split; vm_compute; reflexivity. Qed.
