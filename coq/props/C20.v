(* C20 — notified state: subscribers converge on the latest value, in order; one-shot
   notification; zlink-tokio and zlink-smol behave identically.
   Only pinned statements; proofs are in Notified/Notified{Base,Tokio,Smol,Spec,Proofs}.v.

   Vocabulary (Notified/Notified.v): a scenario is a list of operations
     Set_ h v | Get h | Subscribe h | Poll s | DropSub s | CloneH h | DropH h
     | Notify v | DropNotifier | PollOnce
   performed one after the other on one State reached through any number of handles (State is
   Clone in both crates: a clone is another handle to the same channel with its own copy of the
   value; handle 0 is State::new, CloneH h pushes handles[h].clone(), DropH h drops one handle),
   its subscriber streams and one Once pair;
   `run I ops` is the list of their results in the model I (tokio_impl: broadcast::channel(1) +
   BroadcastStream + oneshot under zlink-tokio's adapters; smol_impl: async-broadcast with
   overflow / no await_active / inactive keeper + async-channel under zlink-smol's adapters);
   `trace I ops` pairs every operation with its result; `next I ops o` is the result of o when
   performed after ops; `received s tr` are the values handed to subscriber s, `sets_after s tr`
   the values set — through whichever handle — since s subscribed; `handle_live h tr` says that
   handle h exists at the end of the history (it is handle 0 or came out of a clone, and was not
   dropped).  The State "exists" while some handle is live. *)
From ZV Require Import Notified.Notified Notified.NotifiedProofs Notified.NotifiedHandles.

(* `next` is what the name says, so a statement about `next I ops o` for all ops speaks about
   every operation of every scenario, whatever preceded and whatever follows it. *)
Theorem C20_next :
  forall (I : impl) (ops : list op) (o : op),
  run I (ops ++ [o]) = run I ops ++ [next I ops o] /\
  trace I (ops ++ [o]) = trace I ops ++ [(o, next I ops o)].
Proof. exact next_is_run. Qed.
Print Assumptions C20_next.

Theorem C20_event_is_next :
  forall (I : impl) (ops : list op) (o : op) (r : out), In (o, r) (trace I ops) ->
  exists ops1 ops2, ops = ops1 ++ o :: ops2 /\ r = next I ops1 o.
Proof. exact event_is_next. Qed.
Print Assumptions C20_event_is_next.

(* For EVERY list of operations (any interleaving, any number of sets through any handles,
   subscribers, clones, drops, one-shot operations in between) and every subscriber s, in both
   models:
   1. what s has received is, in order, a subsequence of the values set after it subscribed;
   2. every item it is handed carries continues = Some true;
   3. it is told end-of-stream only when ALL handles of the State are gone (dropping one of
      several handles never ends a subscription) ...
   4. ... and as long as a handle exists a poll with nothing to hand out says Pending;
   5. whenever a poll has nothing to hand out (Pending, or end after the last drop) the last
      value s received is the last value set since it subscribed (none received iff none set):
      nothing buffered is lost when the State goes away ...
   6. ... and that point is reached at the latest by the second of two consecutive polls, so
      polling until Pending ends with the latest value;
   7. a poll finds the stream gone only if it was never created or was dropped;
   8. no operation panics and no loop of the models runs out of fuel. *)
Theorem C20_subsequence_latest :
  forall I : impl, I = tokio_impl \/ I = smol_impl ->
  forall (ops : list op) (s : nat),
  let tr := trace I ops in
  sublist (received s tr) (sets_after s tr) /\
  (forall v c, next I ops (Poll s) = OItem v c -> c = CTrue) /\
  (next I ops (Poll s) = OEnd -> forall h, handle_live h tr = false) /\
  (next I ops (Poll s) = OPending -> exists h, handle_live h tr = true) /\
  (next I ops (Poll s) = OPending \/ next I ops (Poll s) = OEnd ->
   last_opt (received s tr) = last_opt (sets_after s tr)) /\
  match next I (ops ++ [Poll s]) (Poll s) with OItem _ _ => False | _ => True end /\
  (next I ops (Poll s) = OGone ->
   ~ (exists h, In (Subscribe h, OSub s) tr) \/ In (DropSub s, ODone) tr) /\
  (forall o, next I ops o <> OPanic /\ next I ops o <> OFuel).
Proof. exact subsequence_latest_models. Qed.
Print Assumptions C20_subsequence_latest.

(* The convergence, spelled out: after ANY history, a subscriber that exists (created, not
   dropped) reaches "nothing more to hand out" with at most two polls — Pending while a handle
   of the State exists, end only when all are gone — and at that point the last value it has
   received is the last value set since it subscribed (nothing received iff nothing was set). *)
Theorem C20_converges :
  forall I : impl, I = tokio_impl \/ I = smol_impl ->
  forall (ops : list op) (s : nat),
  (exists h, In (Subscribe h, OSub s) (trace I ops)) -> ~ In (DropSub s, ODone) (trace I ops) ->
  exists o1 o2,
    run I (ops ++ [Poll s; Poll s]) = run I ops ++ [o1; o2] /\
    ((o2 = OPending /\ exists h, handle_live h (trace I ops) = true) \/
     (o2 = OEnd /\ forall h, handle_live h (trace I ops) = false)) /\
    last_opt (received s (trace I (ops ++ [Poll s; Poll s]))) =
    last_opt (sets_after s (trace I ops)).
Proof. exact converges_models. Qed.
Print Assumptions C20_converges.

(* Handles.  An operation through handle h (set, get, stream, clone, drop) finds it gone exactly
   when h does not exist; through a live handle set returns (get() = the value afterwards) and
   get returns this handle's own copy of the value (hvals: the last value set through it, or
   what its original held when it was cloned). *)
Theorem C20_handles :
  forall I : impl, I = tokio_impl \/ I = smol_impl ->
  forall (ops : list op) (h : nat),
  let tr := trace I ops in
  (forall o, handle_of o = Some h -> (next I ops o = OGone <-> handle_live h tr = false)) /\
  (handle_live h tr = true ->
   (forall v, next I ops (Set_ h v) = OSet v) /\
   (exists g, nth_error (hvals tr) h = Some g /\ next I ops (Get h) = OGet g)).
Proof. exact handles_models. Qed.
Print Assumptions C20_handles.

(* Operations through any live handle are indistinguishable (for EVERY channel implementation
   under the scenario machine, so in particular for both models): after any history, setting v
   through h or through h' gives the same results of all later operations except what get()
   returns (`view`), whatever follows; subscribing through h or h' gives the same results of
   everything. *)
Theorem C20_any_handle :
  forall (I : impl) (ops : list op) (h h' : nat) (v : N) (rest : list op),
  next I ops (Get h) <> OGone -> next I ops (Get h') <> OGone ->
  view (trace I (ops ++ Set_ h v :: rest)) = view (trace I (ops ++ Set_ h' v :: rest)) /\
  run I (ops ++ Subscribe h :: rest) = run I (ops ++ Subscribe h' :: rest).
Proof. exact any_handle. Qed.
Print Assumptions C20_any_handle.

(* Dropping a handle while another one exists is a no-op for everybody else: whatever follows
   (operations that neither use the dropped handle nor drop further handles) has exactly the
   results it would have had without the drop — subscribers stay subscribed, later sets are
   delivered, later stream() calls work. *)
Theorem C20_drop_nonlast :
  forall I : impl, I = tokio_impl \/ I = smol_impl ->
  forall (ops : list op) (h h' : nat) (rest : list op), h <> h' ->
  handle_live h (trace I ops) = true -> handle_live h' (trace I ops) = true ->
  (forall o, In o rest -> spares h o) ->
  exists outs, run I (ops ++ rest) = run I ops ++ outs /\
               run I (ops ++ DropH h :: rest) = run I ops ++ ODone :: outs.
Proof. exact drop_nonlast. Qed.
Print Assumptions C20_drop_nonlast.

(* One-shot: for every operation list split at the first use of the notifier (pre contains no
   Notify / DropNotifier; anything else may be interleaved anywhere): the one-shot stream is
   Pending before; after notify(v) its next poll yields exactly one item v with
   continues = Some false and every later poll yields end; after the notifier was dropped
   without notifying every poll yields end, no item. *)
Theorem C20_once :
  forall I : impl, I = tokio_impl \/ I = smol_impl ->
  forall (pre post : list op) (v : N), unresolved pre ->
  once_outs (trace I pre) = repeat OPending (npolls pre) /\
  once_outs (trace I (pre ++ Notify v :: post)) =
    repeat OPending (npolls pre) ++
    match npolls post with O => [] | S k => OItem v CFalse :: repeat OEnd k end /\
  once_outs (trace I (pre ++ DropNotifier :: post)) =
    repeat OPending (npolls pre) ++ repeat OEnd (npolls post).
Proof. exact once_models. Qed.
Print Assumptions C20_once.

(* The two models are observationally equal: on every operation list every operation has the
   same result (so every subscriber sees the same items, pendings and ends at the same polls). *)
Theorem C20_same :
  forall ops : list op, run tokio_impl ops = run smol_impl ops.
Proof. exact same_outputs. Qed.
Print Assumptions C20_same.

(* Both are, observably, a latest-value cell (absZ_impl: a counter of published values, the
   latest value, the number of handles, and per subscriber the count it has seen; abs_impl: the
   same with, per subscriber, whether it is registered for a wake-up). *)
Theorem C20_latest_value_cell :
  forall ops : list op,
  run tokio_impl ops = run abs_impl ops /\ run smol_impl ops = run abs_impl ops /\
  run abs_impl ops = run absZ_impl ops.
Proof. exact latest_value_cell. Qed.
Print Assumptions C20_latest_value_cell.

(* The wake-up obligation (a stream that is awaited — not hand-polled — only runs again when its
   waker is woken).  `parked I ops s`: after ops, subscriber s's last poll returned Pending and
   its waker is still registered with the channel (tokio: the Recv future kept by
   BroadcastStream has its waiter queued in the channel's wait list; smol: the stream's
   EventListener has not been notified); `woken I ops o`: the subscribers whose registered waker
   operation o, performed after ops, wakes.  In both models, for every history:
   1. Pending => registered: a poll that returns Pending leaves the subscriber parked;
   2. a parked subscriber has nothing to receive (its next poll would be Pending again);
   3. a parked subscriber stays parked over any operation unless that operation wakes it (or
      drops it);
   4. hence every Pending -> Ready transition is preceded by a wake: if s was polled Pending and,
      after any further operations (none of them a poll or the drop of s), its next poll would
      no longer be Pending, then one of those operations has woken s. *)
Theorem C20_wakeup :
  forall I : impl, I = tokio_impl \/ I = smol_impl ->
  (forall ops s, next I ops (Poll s) = OPending -> parked I (ops ++ [Poll s]) s = true) /\
  (forall ops s, parked I ops s = true -> next I ops (Poll s) = OPending) /\
  (forall ops s o, parked I ops s = true ->
     parked I (ops ++ [o]) s = true \/ In s (woken I ops o) \/ o = DropSub s) /\
  (forall ops s rest,
     next I ops (Poll s) = OPending ->
     (forall o, In o rest -> o <> Poll s /\ o <> DropSub s) ->
     next I (ops ++ Poll s :: rest) (Poll s) <> OPending ->
     exists pre o post, rest = pre ++ o :: post /\ In s (woken I (ops ++ Poll s :: pre) o)).
Proof. exact wakeup_models. Qed.
Print Assumptions C20_wakeup.

(* ... and the two models wake the same subscribers at the same operations.  (Of the real
   crates, event-listener under async-broadcast additionally forwards a notification when a
   stream that was notified but not polled since is dropped: one further registered stream is
   then woken EARLY.  The smol model leaves that out — its `parked` is a superset of the really
   registered streams, which keeps 1.-4. valid for them — and the correspondence check allows
   exactly these early wake-ups, at DropSub operations only.) *)
Theorem C20_same_wakes :
  forall ops : list op, wakes tokio_impl ops = wakes smol_impl ops.
Proof. exact same_wakes. Qed.
Print Assumptions C20_same_wakes.

(* Non-vacuity: a scenario with two handles and two subscribers created at different points and
   through different handles, a lagging subscriber (two sets between polls: Lagged / Overflowed
   is skipped), a clone dropped while the original lives (nothing ends), a dropped subscriber,
   the last handle dropped with a value still unread (delivered, then end), and the one-shot
   used in between. *)
Example C20_nonvacuous :
  let ops := [Set_ 0 1; Subscribe 0; Poll 0; CloneH 0; Set_ 1 2; Subscribe 1; Set_ 0 3; Set_ 1 4;
              PollOnce; Poll 0; Poll 0; Get 0; Get 1; DropH 1; Poll 0; Notify 9; Poll 1; DropSub 1;
              Set_ 0 5; Set_ 1 6; PollOnce; DropH 0; Poll 0; Poll 0; PollOnce; Poll 1; Subscribe 0]%N in
  run tokio_impl ops =
    [OSet 1; OSub 0; OPending; OHandle 1; OSet 2; OSub 1; OSet 3; OSet 4; OPending; OItem 4 CTrue;
     OPending; OGet 3; OGet 4; ODone; OPending; ODone; OItem 4 CTrue; ODone; OSet 5; OGone;
     OItem 9 CFalse; ODone; OItem 5 CTrue; OEnd; OEnd; OGone; OGone]%N /\
  run smol_impl ops = run tokio_impl ops /\
  received 0 (trace tokio_impl ops) = [4; 5]%N /\
  sets_after 0 (trace tokio_impl ops) = [2; 3; 4; 5]%N /\
  sets_after 1 (trace tokio_impl ops) = [3; 4; 5]%N /\
  handle_live 0 (trace tokio_impl (firstn 14 ops)) = true /\
  handle_live 1 (trace tokio_impl (firstn 14 ops)) = false /\
  unresolved (firstn 15 ops).
Proof.
  cbv zeta. repeat split; try (vm_compute; reflexivity).
  intros o H. cbn in H. repeat (destruct H as [<-|H]; [exact I|]). destruct H.
Qed.

(* wake-ups: two parked subscribers; a set wakes both once (a second set wakes nobody, they
   are no longer registered); after re-polling, the drop of the last handle wakes the one that
   is parked again *)
Example C20_wakeup_nonvacuous :
  let ops := [Subscribe 0; Subscribe 0; Poll 0; Poll 1; Set_ 0 5; Set_ 0 6; Poll 0; Poll 0;
              CloneH 0; DropH 0; DropH 1]%N in
  wakes tokio_impl ops = [[]; []; []; []; [0; 1]; []; []; []; []; []; [0]]%nat /\
  wakes smol_impl ops = wakes tokio_impl ops /\
  parked tokio_impl (firstn 4 ops) 1 = true /\ parked tokio_impl (firstn 5 ops) 1 = false.
Proof. cbv zeta. repeat split; vm_compute; reflexivity. Qed.

(* the notifier dropped without notifying: end, no item *)
Example C20_once_dropped_nonvacuous :
  run smol_impl [PollOnce; DropNotifier; PollOnce; PollOnce; Notify 3%N] =
    [OPending; ODone; OEnd; OEnd; OGone] /\
  run tokio_impl [PollOnce; DropNotifier; PollOnce; PollOnce; Notify 3%N] =
    [OPending; ODone; OEnd; OEnd; OGone].
Proof. split; vm_compute; reflexivity. Qed.
