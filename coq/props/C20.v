(* C20 — notified state. Only pinned statements; proofs are in Notified/NotifiedProofs.v. *)
From ZV Require Import Notified.Notified Notified.NotifiedProofs.

Example C20_nonvacuous :
  run tokio_impl [Subscribe; Set_ 1; Set_ 2; Poll 0; Poll 0]
  = [OSub 0; OSet 1; OSet 2; OItem 2 CTrue; OPending]%N.
Proof. vm_compute. reflexivity. Qed.
