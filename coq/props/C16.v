(* C16 — derived introspection describes the Rust type it was derived from.
   Only pinned statements; proofs are in Codegen/DeriveProofs.v. The table (rust_leaf, rust_ctor,
   leaf_row, ctor_row, type_of) is REGENERATED from zlink-core/src/introspect/type/ on every run;
   spec_type is the property's own mapping stated over Rust type names (Codegen/Derive.v). *)
From ZV Require Import Codegen.IdlTy gen.TypeTable Codegen.Derive Codegen.DeriveProofs Codegen.DeriveIdl.
From ZV Require Import gen.FieldStatics Codegen.DeriveStatics.
Open Scope string_scope.

(* Every Rust type built from the `impl Type` rows (leaves, Option/Vec/sets/maps/wrappers in any
   nesting, user-defined types as leaves) is described by exactly the Varlink type the property
   names: integers -> int, floats -> float, strings and chars -> string, bool -> bool, Option -> ?,
   sequences and sets -> [], string-keyed maps -> [string], unit -> (), custom types by name. *)
Theorem C16_table_is_spec :
  forall ty : rust_ty, supported ty -> type_of ty = Some (spec_type ty).
Proof. exact table_is_spec. Qed.
Print Assumptions C16_table_is_spec.

(* The derives list exactly the fields, in declaration order, under their Rust names, each with
   the spec type of its Rust type, with the doc comments as comments — for structs under
   #[derive(Type)] and #[derive(CustomType)] (the latter also carries the type's name and docs and
   is referenced as Custom(name)). Identifiers include raw ones: r#type is listed as "type". *)
Theorem C16_fields_in_order :
  forall (d : decl) (fs : list fdecl),
  d_body d = DStruct fs -> fields_supported fs ->
  derive_type d = Some (TObject (map (fun f => (text (fd_name f), spec_type (fd_ty f), fd_docs f)) fs))
  /\ derive_custom d = Some (CObject (text (d_name d))
                                (map (fun f => (text (fd_name f), spec_type (fd_ty f), fd_docs f)) fs)
                                (d_docs d),
                            TCustom (text (d_name d))).
Proof.
  intros d fs Hb Hs. split.
  - exact (derive_type_struct d fs Hb Hs).
  - exact (derive_custom_struct d fs Hb Hs).
Qed.
Print Assumptions C16_fields_in_order.

(* Enums: exactly the variants, in declaration order, under their names, with their doc comments. *)
Theorem C16_variants_in_order :
  forall (d : decl) (vs : list vdecl),
  d_body d = DEnum vs -> all_unit vs ->
  derive_type d = Some (TEnum (map (fun v => (text (vd_name v), vd_docs v)) vs))
  /\ derive_custom d = Some (CEnum (text (d_name d)) (map (fun v => (text (vd_name v), vd_docs v)) vs)
                                (d_docs d),
                            TCustom (text (d_name d))).
Proof.
  intros d vs Hb Hu. split.
  - exact (derive_type_enum d vs Hb Hu).
  - exact (derive_custom_enum d vs Hb Hu).
Qed.
Print Assumptions C16_variants_in_order.

(* Error enums (#[derive(introspect::ReplyError)]): one error per variant in declaration order under
   the variant's name with its doc comments; unit variants have no fields, struct variants list
   their fields as above, a single-field tuple variant takes the fields of its field type's
   object description. *)
Theorem C16_error_variants_in_order :
  forall (d : decl) (vs : list vdecl),
  d_body d = DEnum vs -> Forall variant_ok vs ->
  derive_reply_error d = spec_error_variants vs /\
  forall out, spec_error_variants vs = Some out ->
    map e_name out = map (fun v => text (vd_name v)) vs /\ map e_comments out = map vd_docs vs.
Proof.
  intros d vs Hb Hok. split.
  - exact (error_variants_in_order d vs Hb Hok).
  - exact (error_names_in_order vs).
Qed.
Print Assumptions C16_error_variants_in_order.

(* Types without a Type impl are rejected (the derive's output does not compile), never described
   by something else. *)
Theorem C16_unsupported_rejected :
  forall ty : rust_ty, ~ supported ty -> type_of ty = None.
Proof. exact unsupported_rejected. Qed.
Print Assumptions C16_unsupported_rejected.

(* Every description is a well-formed Varlink type, except for the Known class of the open finding
   C16.nested_option_roundtrip: an Option applied (possibly through Box/Rc/Arc/Cell/RefCell/Cow) to a
   type that is itself described as optional gives ??T, which the IDL grammar does not have. *)
Theorem C16_descriptions_wellformed :
  forall ty : rust_ty, supported ty -> nested_option ty = false -> users_wf ty = true ->
  exists d, type_of ty = Some d /\ varlink_wf d = true.
Proof. exact descriptions_wellformed. Qed.
Print Assumptions C16_descriptions_wellformed.

Theorem C16_nested_option_refuted :
  exists ty : rust_ty, supported ty /\ nested_option ty = true /\
  type_of ty = Some (TOptional (TOptional TString)) /\ varlink_wf (TOptional (TOptional TString)) = false.
Proof.
  exists (RApp C_Option (RApp C_Box (RApp C_Option (RLeaf L_String)))). vm_compute. repeat split.
Qed.
Print Assumptions C16_nested_option_refuted.

(* ---- interface round trip ----
   assemble: an interface built from derived descriptions the way varlink_service/mod.rs builds
   DESCRIPTION (custom types from CUSTOM_TYPE, methods from the object descriptions of parameter structs,
   errors from VARIANTS). to_idl: the same tree over bytes (the IDL family's Idl/Idl.v), render / parse_interface
   / normalise: the IDL family's transcriptions of Display, the parser, and "strip the blanks after #".
   assembly_ok (executable, Codegen/DeriveIdl.v) asks of the DECLARATIONS: names legal in the IDL grammar,
   doc comments valid UTF-8 without line break, field types supported, and the three Known classes
   excluded: nested Option (C16.nested_option_roundtrip), documented variants of custom enums
   (C16.enum_variant_comment_roundtrip), doc comments INSIDE an inline (Type-derived) type used as a
   field type (zlink's parser drops those; its equality ignores them).

   Then the description satisfies the IDL family's hypotheses and the rendered text parses back to the
   description itself up to the blanks that `/// text` puts in front of every comment text. *)
Theorem C16_assembled_wellformed :
  forall (a : assembly) (i : iface), assemble a = Some i -> assembly_ok a = true ->
  IN.interface_wf_nl (to_idl i) = true /\ IE.known_commented_enum (to_idl i) = false.
Proof. exact assembled_wf. Qed.
Print Assumptions C16_assembled_wellformed.

Theorem C16_interface_roundtrips :
  forall (a : assembly) (i : iface), assemble a = Some i -> assembly_ok a = true ->
  IP.parse_interface (I.render (to_idl i)) = IP.Accept (IN.normalise (to_idl i)).
Proof. exact assembled_roundtrips. Qed.
Print Assumptions C16_interface_roundtrips.

(* Non-vacuity, and why the IDENTITY form (C14_parse_render) cannot be used: the example assembly (///
   comments everywhere, raw identifier, nested std/user types, custom struct and enum, unit and tuple
   error variants) is inside the hypotheses; C14's strict interface_wf is FALSE for it (comment texts
   start with a blank); the parsed tree is the normalised one, differs from the original, and equals it
   under zlink's PartialEq (interface_leq). *)
Example C16_roundtrip_nonvacuous :
  assembly_ok ex_assembly = true /\
  match assemble ex_assembly with
  | Some i =>
      IE.interface_wf (to_idl i) = false /\
      match IP.parse_interface (I.render (to_idl i)) with
      | IP.Accept t => I.interface_beq t (IN.normalise (to_idl i)) = true /\
                       I.interface_beq t (to_idl i) = false /\ I.interface_leq t (to_idl i) = true
      | _ => False
      end
  | None => False
  end.
Proof. vm_compute. repeat split; reflexivity. Qed.

(* The two Known classes that concern comments are real: with a documented field inside an inline type
   the parser returns a tree that is NOT the normalised one (the comment is gone; still equal under
   zlink's PartialEq); with a documented variant of a two-variant custom enum the text is rejected. *)
Example C16_roundtrip_known_classes :
  assembly_ok ex_inline_doc_assembly = false /\
  match assemble ex_inline_doc_assembly with
  | Some i => match IP.parse_interface (I.render (to_idl i)) with
              | IP.Accept t => I.interface_beq t (IN.normalise (to_idl i)) = false /\
                               I.interface_leq t (to_idl i) = true
              | _ => False
              end
  | None => False
  end /\
  assembly_ok ex_doc_variant_assembly = false /\
  match assemble ex_doc_variant_assembly with
  | Some i => IP.parse_interface (I.render (to_idl i)) = IP.Reject
  | None => False
  end.
Proof. vm_compute. repeat split; reflexivity. Qed.
Print Assumptions C16_roundtrip_known_classes.

(* Non-vacuity: a struct with nested std types, a nested custom type, a raw identifier and doc comments
   satisfies the hypotheses and evaluates to the stated description. *)
Example C16_nonvacuous :
  let inner := {| d_name := id_ "Inner"; d_docs := [" inner"]; d_body :=
      DStruct [ {| fd_name := id_ "x"; fd_ty := RLeaf L_f32; fd_docs := [] |} ] |} in
  let fs := [ {| fd_name := id_ "id"; fd_ty := RLeaf L_u8; fd_docs := [" the id"] |};
              {| fd_name := id_ "tags"; fd_ty := RApp C_Option (RApp C_Vec (RApp C_Box (RLeaf L_char)));
                 fd_docs := [] |};
              {| fd_name := id_ "by_name"; fd_ty := RApp C_HashMap_String (user_custom inner);
                 fd_docs := [" a"; " b"] |};
              {| fd_name := rid "type"; fd_ty := RLeaf L_unit; fd_docs := [] |} ] in
  let d := {| d_name := id_ "Outer"; d_docs := []; d_body := DStruct fs |} in
  fields_supported fs /\
  derive_type d = Some (TObject [ ("id", TInt, [" the id"]);
                                  ("tags", TOptional (TArray TString), []);
                                  ("by_name", TMap (TCustom "Inner"), [" a"; " b"]);
                                  ("type", TObject [], []) ]).
Proof. cbv zeta. repeat split; repeat constructor. Qed.

Example C16_error_nonvacuous :
  let payload := {| d_name := id_ "Payload"; d_docs := []; d_body :=
      DStruct [ {| fd_name := id_ "code"; fd_ty := RLeaf L_i32; fd_docs := [] |} ] |} in
  let vs := [ {| vd_name := id_ "NotFound"; vd_docs := [" nothing there"]; vd_body := VUnit |};
              {| vd_name := id_ "Invalid"; vd_docs := []; vd_body :=
                   VNamed [ {| fd_name := id_ "field"; fd_ty := RLeaf L_ref_str; fd_docs := [] |} ] |};
              {| vd_name := id_ "Failed"; vd_docs := []; vd_body := VTuple [RApp C_Box (user_type payload)] |} ] in
  Forall variant_ok vs /\
  derive_reply_error {| d_name := id_ "E"; d_docs := []; d_body := DEnum vs |} =
  Some [ {| e_name := "NotFound"; e_fields := []; e_comments := [" nothing there"] |};
         {| e_name := "Invalid"; e_fields := [("field", TString, [])]; e_comments := [] |};
         {| e_name := "Failed"; e_fields := [("code", TInt, [])]; e_comments := [] |} ].
Proof. cbv zeta. split; [repeat constructor|reflexivity]. Qed.

(* The derive can describe EVERY struct and every error variant with named fields: the items it emits
   into one block — the slice of field references (its name translated from custom_type.rs, type.rs,
   reply_error.rs) and one static per field (name format translated from shared.rs) — have pairwise
   distinct names whatever the fields and the variant are called and however many fields there are, so
   the block is never rejected for a name defined twice (E0428).  `ups` are the field names in upper
   case, which the names no longer depend on.  gen/FieldStatics.v is regenerated on every run; naming
   the statics after the fields again makes `plain_by_position` false and this proof fail. *)
Theorem C16_field_statics_distinct :
  forall slice, List.In slice slice_names ->
  forall ups, List.NoDup (plain_block slice ups) /\
              forall variant_up, List.NoDup (variant_block slice variant_up ups).
Proof. exact field_statics_distinct. Qed.
Print Assumptions C16_field_statics_distinct.

(* Before /repo 77f15db (finding C16.field_static_name_collision) the statics were named after the
   field in upper case: a field called `refs` met the slice FIELD_REFS, fields `id` and `ID` each other. *)
Theorem C16_field_statics_refuted_before_77f15db :
  ~ List.NoDup (block_names false FIELD_ FIELD_REFS [[82; 69; 70; 83]%N]) /\
  ~ List.NoDup (block_names false FIELD_ FIELD_REFS [[73; 68]%N; [73; 68]%N]).
Proof. split; [exact by_name_refuted_refs | exact by_name_refuted_case]. Qed.
Print Assumptions C16_field_statics_refuted_before_77f15db.

(* the translated slice is the one of the witness, and the same fields are fine by position *)
Example C16_field_statics_nonvacuous :
  List.In FIELD_REFS slice_names /\
  plain_block FIELD_REFS [[82; 69; 70; 83]%N; [73; 68]%N; [73; 68]%N] =
    [FIELD_REFS; (FIELD_ ++ [48])%N%list; (FIELD_ ++ [49])%N%list; (FIELD_ ++ [50])%N%list].
Proof. split; [left; reflexivity | reflexivity]. Qed.
