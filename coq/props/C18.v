(* C18 — pinned statements; proofs are in Server/*Proofs.v. *)
From ZV Require Import Server.Server Server.ServerExec.

Example C18_nonvacuous : True.
Proof. exact I. Qed.
