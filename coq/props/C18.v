(* C18 — round-robin service: a flooding client cannot starve the others.
   Only pinned statements; proofs are in Server/RoundRobin.v and Server/ServerRR.v. *)
From ZV Require Import Server.Server Server.RoundRobin Server.ServerRR Server.ServerExamples.

(* [segment P L b s ws s']: a run of the loop from s to s' — iterations (Server.iteration) interleaved
   with arbitrary environment events — in every state of which the call list holds exactly the
   connections L (in order: nothing accepted, removed, parked or resumed) and the connection at
   index b has a complete call available by the code's own delivery rule ([ready]: a poll of its
   receive_call is Ready).  ws = the indices get_next_call yielded, in order.
   No connection a <> b is chosen twice without b being chosen in between; for every service,
   every decoder, any number of connections and iterations. *)
Theorem C18_no_double_service :
  forall (P : params) (L : list nat) (b : nat) (s : sv P) (ws : list nat) (s' : sv P)
         (a : nat) (l1 l2 l3 : list nat),
  segment P L b s ws s' -> b < length L -> a <> b ->
  ws = l1 ++ a :: l2 ++ a :: l3 -> In b l2.
Proof. exact no_double_service. Qed.
Print Assumptions C18_no_double_service.

(* The core, independent of the server: successive polls of SelectAll over n futures, each
   starting after the previous winner, with arbitrary readiness rs_k at the k-th poll. *)
Theorem C18_select_all_round_robin :
  forall (rs : list (nat -> bool)) (last : option nat) (n a b : nat) (l1 l2 l3 : list nat),
  b < n -> a <> b -> (forall r, In r rs -> r b = true) ->
  winners last n rs = l1 ++ a :: l2 ++ a :: l3 -> In b l2.
Proof. exact rr_no_double_service. Qed.
Print Assumptions C18_select_all_round_robin.

(* [starving P beta n s W k s']: a run from s to s' during which connection beta is in the call list
   with a complete call available in every state and is never chosen, the call list never holds
   more than n connections, W calls of other connections are served, and k iterations change the
   call list (closures, accepts, stream transitions).  Then W < n * (k + 1): beta's call is served
   after fewer than n * (k + 1) other calls. *)
Theorem C18_bounded_across_transitions :
  forall (P : params) (beta n : nat) (s : sv P) (W k : nat) (s' : sv P),
  starving P beta n s W k s' -> W < n * (k + 1).
Proof. exact bounded_across_transitions. Qed.
Print Assumptions C18_bounded_across_transitions.

(* Non-vacuity: a flooder (connection 0, four calls buffered) and connection 1 (two calls): from the
   state in which both are accepted, four iterations form a segment with b = 1 and choose 0,1,0,1. *)
Example C18_nonvacuous :
  let s := iterate 2 (after [NewConn 0; NewConn 1; Arrive 0 [65;0;66;0;67;0;68;0]%N;
                              Arrive 1 [97;0;98;0;99;0]%N]) in
  exists s', segment ex_params [0; 1] 1 s [0; 1; 0; 1] s'.
Proof.
  cbv zeta. eexists.
  refine (seg_iter ex_params _ _ _ _ _ _ _ [1; 0; 1] _ _ _).
  1: split; vm_compute; reflexivity.
  1: vm_compute; reflexivity.
  refine (seg_iter ex_params _ _ _ _ _ _ _ [0; 1] _ _ _).
  1: split; vm_compute; reflexivity.
  1: vm_compute; reflexivity.
  refine (seg_iter ex_params _ _ _ _ _ _ _ [1] _ _ _).
  1: split; vm_compute; reflexivity.
  1: vm_compute; reflexivity.
  refine (seg_iter ex_params _ _ _ _ _ _ _ [] _ _ _).
  1: split; vm_compute; reflexivity.
  1: vm_compute; reflexivity.
  apply seg_end. split; vm_compute; reflexivity.
Qed.

(* a run in which connection 1 starves for one iteration: W = 1 < 2 * (0 + 1) *)
Example C18_bounded_nonvacuous :
  let s := iterate 2 (after [NewConn 0; NewConn 1; Arrive 0 [65;0;66;0;67;0;68;0]%N;
                              Arrive 1 [97;0;98;0;99;0]%N]) in
  exists s', starving ex_params 1 2 s 1 0 s'.
Proof.
  cbv zeta. eexists.
  refine (sv_iter ex_params 1 2 _ 1 _ _ _ _ 0 0 _ _ _ _ _).
  - repeat split; vm_compute; auto.
  - vm_compute; reflexivity.
  - vm_compute. discriminate.
  - vm_compute. reflexivity.
  - apply (sv_end ex_params 1 2 _ 1). repeat split; vm_compute; auto.
Qed.
