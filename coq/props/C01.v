(* C01 — inbound framing is independent of how the transport fragments the stream.
   Only pinned statements; proofs are in Framing/ReadConnProofs.v. *)
From ZV Require Import Framing.ReadConn Framing.ReadConnProofs.

(* For every buffer step > 0, limit, decoder, list of non-empty NUL-free frames, every transport
   script of non-empty Data chunks and Pending events whose concatenated payload is the wire form
   of the frames (i.e. EVERY partition of the byte stream, with any interleaving of not-ready
   polls), followed by end-of-stream: n successive receive operations return exactly
   decode(frame_1) .. decode(frame_k), then end-of-stream forever. *)
Theorem C01_framing :
  forall (step limit : N) (D : Type) (decode : list byte -> D), (0 < step)%N ->
  forall n fs tr tl' polls fuel,
  Forall frame_ok fs -> Forall ok_ev tr -> payload tr = wire fs ->
  (N.of_nat (length (wire fs)) < limit)%N ->
  length tr < polls -> length (wire fs) + length tr < fuel ->
  map fst (run step limit D decode n polls fuel (init step) (tr ++ Eof :: tl'))
  = firstn n (map (fun f => Msg (decode f)) fs ++ repeatn REof n).
Proof. exact framing_fresh. Qed.
Print Assumptions C01_framing.

(* The same from any state between two receives: frames already buffered (fsb) are served
   before the transport is touched, then the frames still on the wire (fsr). *)
Theorem C01_framing_any_state :
  forall (step limit : N) (D : Type) (decode : list byte -> D), (0 < step)%N ->
  forall n fsb fsr s tr tl' polls fuel,
  buffered s fsb -> cap_ok s -> Forall ok_ev tr -> payload tr = wire fsr ->
  Forall frame_ok (fsb ++ fsr) -> lim_ok limit s tr ->
  length tr < polls -> length (payload tr) + length tr < fuel ->
  map fst (run step limit D decode n polls fuel s (tr ++ Eof :: tl'))
  = firstn n (map (fun f => Msg (decode f)) (fsb ++ fsr) ++ repeatn REof n).
Proof. exact run_frames. Qed.
Print Assumptions C01_framing_any_state.

(* A frame that fails to decode, or is padded with blanks, affects its own result only: replacing
   frame number |fs1| by ANY other frame leaves every other result of the run unchanged
   (stated on the right-hand side of C01_framing). *)
Theorem C01_bad_frame_local :
  forall (D : Type) (decode : list byte -> D) n fs1 f g fs2 i, i <> length fs1 ->
  nth_error (firstn n (map (fun x => Msg (decode x)) (fs1 ++ f :: fs2) ++ repeatn REof n)) i
  = nth_error (firstn n (map (fun x => Msg (decode x)) (fs1 ++ g :: fs2) ++ repeatn REof n)) i.
Proof. exact spec_local. Qed.
Print Assumptions C01_bad_frame_local.

(* No message is fabricated, dropped or delivered twice: the results are exactly the decoded
   frames in order (the first n of them), then end-of-stream and nothing else. *)
Theorem C01_no_fabrication :
  forall (D : Type) (decode : list byte -> D) n fs,
  firstn n (map (fun f => Msg (decode f)) fs ++ repeatn REof n)
  = map (fun f => Msg (decode f)) (firstn n fs) ++ repeatn REof (n - length fs).
Proof. exact spec_exact. Qed.
Print Assumptions C01_no_fabrication.

(* Non-vacuity: a three-frame stream cut inside frames, with Pending events, and a 4-byte growth
   step so that the buffer grows repeatedly, satisfies the hypotheses and evaluates as stated. *)
Example C01_nonvacuous :
  let fs := [[65;66]; [67]; [68;69;70]]%N in
  let tr := [Data [65]; Pend; Data [66;0;67]; Pend; Pend; Data [0;68;69]; Data [70;0]]%N in
  Forall frame_ok fs /\ Forall ok_ev tr /\ payload tr = wire fs /\
  map fst (run 4 64 (list byte) (fun f => f) 5 10 100 (init 4) (tr ++ [Eof]))
  = [Msg [65;66]; Msg [67]; Msg [68;69;70]; REof; REof]%N.
Proof.
  cbv zeta. repeat split.
  - repeat constructor; discriminate.
  - repeat constructor.
Qed.
