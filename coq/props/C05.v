(* C05 — call, reply and error envelopes follow the Varlink schema and round-trip.
   Only pinned statements; proofs are in Shapes/EnvelopeProofs.v. *)
From ZV Require Import Shapes.Envelope Shapes.Corpus.

Example C05_nonvacuous :
  dec_call M_meth (JObj [("more", JBool true); ("parameters", JObj [("id", JNum 4)]);
                         ("method", JStr "org.example.M.Get")])
  = Some (mk_call (RVar 1 [RInt 4]) false true false).
Proof. vm_compute. reflexivity. Qed.
