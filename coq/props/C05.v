(* C05 — call, reply and error envelopes follow the Varlink schema and round-trip.
   Only pinned statements; proofs are in Shapes/EnvelopeProofs.v and Shapes/RoundTrip.v.
   Models: Shapes/Envelope.v (call/ser.rs, call/de.rs, the ReplyError derive, reply.rs),
   Shapes/Shapes.v (serde's derived visitors and serializers). *)
From Coq Require Import Permutation.
From ZV Require Import Shapes.Shapes Shapes.ShapesProofs Shapes.Reply Shapes.ReplyProofs
  Shapes.Envelope Shapes.EnvelopeProofs Shapes.RoundTrip Shapes.Corpus.

Local Open Scope list_scope.

(* decode (encode c) = c: every method value that fits an adjacently tagged enum shape (unit and
   struct variants, nested structs, options, sequences, borrowed and owned strings, Values), all 8
   combinations of the three flags. *)
Theorem C05_call_roundtrip :
  forall tag content (vs : variants) meth (ow mo up : bool),
  Fits (SAdj tag content vs) meth ->
  is_flag tag = false -> is_flag content = false ->
  exists v, enc_call (SAdj tag content vs) (mk_call meth ow mo up) = Some v /\
            dec_call (SAdj tag content vs) v = Some (mk_call meth ow mo up).
Proof. exact call_roundtrip. Qed.
Print Assumptions C05_call_roundtrip.

(* One object: the method type's own members, then `oneway`, `more`, `upgrade`, each only when set. *)
Theorem C05_call_encoding_shape :
  forall M meth (ow mo up : bool) ms0,
  encoder M meth = Some (JObj ms0) ->
  enc_call M (mk_call meth ow mo up) =
  Some (JObj (ms0 ++ (if ow then [("oneway", JBool true)] else [])
                  ++ (if mo then [("more", JBool true)] else [])
                  ++ (if up then [("upgrade", JBool true)] else []))).
Proof. exact call_encoding_shape. Qed.
Print Assumptions C05_call_encoding_shape.

(* Every permutation of the members of an envelope without duplicate member names decodes to the
   same result (method types: tagged enums whose variant fields contain no `()` / nested tagged
   enum; derived structs). *)
Theorem C05_call_order_irrelevant :
  forall tag content (vs : variants) ms ms',
  tag <> content -> variants_stable vs = true ->
  NoDup (keys ms) -> Permutation ms ms' ->
  dec_call (SAdj tag content vs) (JObj ms') = dec_call (SAdj tag content vs) (JObj ms).
Proof. exact call_order_irrelevant. Qed.
Print Assumptions C05_call_order_irrelevant.

Theorem C05_call_order_irrelevant_struct :
  forall (fs : fields) ms ms',
  NoDup (map (fun f => fst (fst f)) fs) ->
  NoDup (keys ms) -> Permutation ms ms' ->
  dec_call (SStruct fs) (JObj ms') = dec_call (SStruct fs) (JObj ms).
Proof. exact call_order_irrelevant_struct. Qed.
Print Assumptions C05_call_order_irrelevant_struct.

(* Whatever the envelope (any order, duplicates included) and whatever the method type: if the
   call decodes, the method type was given exactly the members that are not flags, in wire order -
   it never sees a flag, and every other member is passed through. *)
Theorem C05_flags_hidden :
  forall M ms r,
  dec_call M (JObj ms) = Some r ->
  exists meth ow mo up,
    r = mk_call meth ow mo up /\ decoder M Direct (JObj (filter nonflag ms)) = Some meth /\
    Forall (fun kv => is_flag (fst kv) = false) (filter nonflag ms).
Proof. exact flags_hidden. Qed.
Print Assumptions C05_flags_hidden.

(* For an envelope without duplicate member names: the flags are found in any position, an absent
   flag is false, and the result is the method type's decoding of the other members
   (spec_call is written with lookups only). *)
Theorem C05_flags_anywhere_absent_false :
  forall M ms, NoDup (keys ms) -> dec_call M (JObj ms) = spec_call M ms.
Proof. exact dec_call_spec. Qed.
Print Assumptions C05_flags_anywhere_absent_false.

(* An error enum using the ReplyError derive encodes as {"error": "<interface>.<Variant>"} plus,
   exactly when the variant has fields, `parameters` holding the fields under their wire names in
   declaration order. *)
Theorem C05_error_shape :
  forall iface (vs : variants) i vn k (fs : fields) rs,
  nth_error vs i = Some (vn, k, fs) ->
  enc_error (err_shape iface vs) (RVar i rs) =
  match k with
  | KStruct => match enc_fields (etable fs) rs with
               | Some ms => Some (JObj [("error", JStr (iface ++ "." ++ vn)%string); ("parameters", JObj ms)])
               | None => None
               end
  | _ => match rs with
         | [] => Some (JObj [("error", JStr (iface ++ "." ++ vn)%string)])
         | _ => None
         end
  end.
Proof. exact error_shape. Qed.
Print Assumptions C05_error_shape.

Theorem C05_error_shape_wire_names :
  forall (fs : fields) rs ms,
  all_plain fs = true -> enc_fields (etable fs) rs = Some ms ->
  keys ms = map (fun f => fst (fst f)) fs.
Proof. exact enc_fields_keys. Qed.
Print Assumptions C05_error_shape_wire_names.

Theorem C05_error_roundtrip :
  forall iface (vs : variants) e,
  Fits (err_shape iface vs) e ->
  exists v, enc_error (err_shape iface vs) e = Some v /\
            dec_error (err_shape iface vs) v = Some e /\
            forall P, decoder vs_error_shape Ref v = None ->
                      classify (err_shape iface vs) P v = MethodError e.
Proof. exact error_roundtrip. Qed.
Print Assumptions C05_error_roundtrip.

(* Success replies (`parameters` and `continues` are written only when present: that is
   reply_shape's FSkipNone + encoder): decode (encode r) = r, also through receive_reply. *)
Theorem C05_reply_roundtrip :
  forall P r,
  Fits (reply_shape P) r ->
  exists v, enc_reply P r = Some v /\ dec_reply P v = Some r /\
            forall (vs : variants), classify (SAdj "error" "parameters" vs) P v = Success (reply_view r).
Proof. exact reply_roundtrip. Qed.
Print Assumptions C05_reply_roundtrip.

(* The general statement behind the round trips: for EVERY shape of the language and every value
   that fits it, under every deserializer mode. *)
Theorem C05_roundtrip_all_shapes :
  forall s r, Fits s r -> exists v, encoder s r = Some v /\ forall m, decoder s m v = Some r.
Proof. exact roundtrip. Qed.
Print Assumptions C05_roundtrip_all_shapes.

(* "No parameters" is recognised whether `parameters` is absent, null or an object: a variant
   without fields that is read leniently (what the ReplyError derive and varlink_service::Method
   generate since d12b38a / ab57644), in any member order, next to any other members, under any
   deserializer mode. *)
Theorem C05_no_parameters_three_spellings :
  forall m tag content (vs : variants) ms n i (fs : fields),
  tag <> content -> NoDup (keys ms) ->
  lookup tag ms = Some (JStr n) ->
  index_of n (map (fun v => fst (fst v)) vs) = Some i ->
  nth_error vs i = Some (n, KLenient, fs) ->
  (lookup content ms = None \/ lookup content ms = Some JNull \/
   exists x, lookup content ms = Some (JObj x)) ->
  decoder (SAdj tag content vs) m (JObj ms) = Some (RVar i []).
Proof. exact no_parameters_spellings. Qed.
Print Assumptions C05_no_parameters_three_spellings.

(* ... the standard org.varlink.service errors, through receive_reply with any caller types *)
Theorem C05_no_parameters_standard_errors :
  forall E P ms,
  NoDup (keys ms) -> no_params (lookup "parameters" ms) ->
  (lookup "error" ms = Some (JStr "org.varlink.service.PermissionDenied") ->
   classify E P (JObj ms) = VarlinkError (RVar 4 [])) /\
  (lookup "error" ms = Some (JStr "org.varlink.service.ExpectedMore") ->
   classify E P (JObj ms) = VarlinkError (RVar 5 [])).
Proof. exact standard_error_spellings. Qed.
Print Assumptions C05_no_parameters_standard_errors.

(* ... field-less variants of derived error enums, decoded directly and through receive_reply *)
Theorem C05_no_parameters_derived_errors :
  forall iface (vs : variants) P ms vn i (fs : fields),
  NoDup (keys ms) -> no_params (lookup "parameters" ms) ->
  nth_error vs i = Some (vn, KLenient, fs) ->
  index_of (iface ++ "." ++ vn)%string (map (fun v => fst (fst v)) (qualify iface vs)) = Some i ->
  lookup "error" ms = Some (JStr (iface ++ "." ++ vn)%string) ->
  dec_error (err_shape iface vs) (JObj ms) = Some (RVar i []) /\
  (decoder vs_error_shape Ref (JObj ms) = None ->
   classify (err_shape iface vs) P (JObj ms) = MethodError (RVar i [])).
Proof. exact derived_error_spellings. Qed.
Print Assumptions C05_no_parameters_derived_errors.

(* ... the standard method org.varlink.service.GetInfo in a call envelope *)
Theorem C05_no_parameters_getinfo :
  forall ms (ow mo up : bool),
  NoDup (keys ms) ->
  lookup "method" ms = Some (JStr "org.varlink.service.GetInfo") ->
  no_params (lookup "parameters" ms) ->
  spec_flag "oneway" ms = Some ow -> spec_flag "more" ms = Some mo -> spec_flag "upgrade" ms = Some up ->
  dec_call vs_method_shape (JObj ms) = Some (mk_call (RVar 0 []) ow mo up).
Proof. exact getinfo_spellings. Qed.
Print Assumptions C05_no_parameters_getinfo.

(* ... proxy methods without output parameters (since 4f5ea1b) *)
Theorem C05_no_parameters_proxy :
  forall (vs : variants) P ms,
  NoDup (keys ms) -> ~ In "error" (keys ms) ->
  no_params (lookup "parameters" ms) ->
  (lookup "continues" ms = None \/ lookup "continues" ms = Some JNull \/
   exists b, lookup "continues" ms = Some (JBool b)) ->
  proxy_out true (SAdj "error" "parameters" vs) P (JObj ms) = POk RUnit.
Proof. exact proxy_unit_spellings. Qed.
Print Assumptions C05_no_parameters_proxy.

(* Building values with the public API (call/mod.rs: Call::new / From, set_oneway, set_more,
   set_upgrade; reply.rs: Reply::new / From, set_continues).  Each setter changes its own field
   only; setters of different flags commute; so whatever the order of the setter calls, the value -
   and therefore its wire image - is determined by the method / parameters it was made of and, per
   flag, the LAST setter of that flag (false / None when there is none). *)
Theorem C05_call_setters_own_field :
  forall c f b,
  cv_meth (call_set c (f, b)) = cv_meth c /\
  (cv_oneway (call_set c (f, b)) = if flag_eqb Oneway f then b else cv_oneway c) /\
  (cv_more (call_set c (f, b)) = if flag_eqb More f then b else cv_more c) /\
  (cv_upgrade (call_set c (f, b)) = if flag_eqb Upgrade f then b else cv_upgrade c).
Proof. exact call_set_own_field. Qed.
Print Assumptions C05_call_setters_own_field.

Theorem C05_call_setters_commute :
  forall c f g a b,
  f <> g -> call_set (call_set c (f, a)) (g, b) = call_set (call_set c (g, b)) (f, a).
Proof. exact call_set_commute. Qed.
Print Assumptions C05_call_setters_commute.

Theorem C05_built_call_logical_value :
  forall meth ops,
  build_call meth ops =
  mk_callv meth (last_set Oneway ops false) (last_set More ops false) (last_set Upgrade ops false).
Proof. exact build_call_logical. Qed.
Print Assumptions C05_built_call_logical_value.

Theorem C05_built_call_order_irrelevant :
  forall meth ops ops',
  NoDup (map fst ops) -> Permutation ops ops' -> build_call meth ops' = build_call meth ops.
Proof. exact build_call_order_irrelevant. Qed.
Print Assumptions C05_built_call_order_irrelevant.

Theorem C05_built_call_encoding :
  forall M meth ops ms0,
  encoder M meth = Some (JObj ms0) ->
  enc_call M (call_rval (build_call meth ops)) =
  Some (JObj (ms0 ++ flag_members (last_set Oneway ops false) (last_set More ops false)
                                  (last_set Upgrade ops false))).
Proof. exact built_call_encoding. Qed.
Print Assumptions C05_built_call_encoding.

Theorem C05_built_reply_logical_value :
  forall params ops, build_reply params ops = mk_replyv params (last ops None).
Proof. exact build_reply_logical. Qed.
Print Assumptions C05_built_reply_logical_value.

Example C05_builder_nonvacuous :
  let ops := [(More, true); (Oneway, true); (More, false); (Upgrade, true)] in
  NoDup (map fst [(More, true); (Oneway, true); (Upgrade, false)]) /\
  build_call (RVar 0 []) ops = mk_callv (RVar 0 []) true false true /\
  enc_call M_meth (call_rval (build_call (RVar 0 []) ops))
  = Some (JObj [("method", JStr "org.example.M.Ping"); ("oneway", JBool true); ("upgrade", JBool true)]) /\
  enc_reply P_strict (reply_rval (build_reply (RSome (RStruct [RInt 1; RStr "n"])) []))
  = Some (JObj [("parameters", JObj [("id", JNum 1); ("name", JStr "n")])]).
Proof.
  cbv zeta. repeat split; try (vm_compute; reflexivity).
  repeat constructor; cbn [In]; intros H; repeat destruct H as [H | H]; try discriminate; exact H.
Qed.

(* Of the tree as pinned the three-spellings statements were false (plain serde unit variants,
   `()` for methods without output): witnesses. *)
Theorem C05_refuted_before_repairs :
  decoder (SAdj "error" "parameters" [("x.Y", KUnit, [])]) Direct
          (JObj [("error", JStr "x.Y"); ("parameters", JObj [])]) = None /\
  dec_call (SAdj "method" "parameters" [("org.varlink.service.GetInfo", KUnit, [])])
           (JObj [("method", JStr "org.varlink.service.GetInfo"); ("parameters", JObj [])]) = None /\
  decoder (reply_shape SUnit) Ref (JObj [("parameters", JObj [])]) = None.
Proof. repeat split; vm_compute; reflexivity. Qed.
Print Assumptions C05_refuted_before_repairs.

(* ---------------------------------------------------------------- non-vacuity *)
Ltac nodup_tac :=
  repeat constructor; cbn [In]; intros H; repeat destruct H as [H | H]; try discriminate; exact H.
Ltac fit_str x := exists x; split; [reflexivity | try discriminate; try reflexivity].
Ltac fit_int z := exists z; split; [reflexivity | split; discriminate].

Example C05_fits_nonvacuous :
  Fits M_meth (RVar 2 [RStr "n"; RInt (-5); RSome (RStr "q""x")]) /\
  Fits M_vsmethod (RVar 1 [RStr "org.example"]) /\
  Fits E_renamed (RVar 1 [RStr "a"; RInt 3; RNone]) /\
  Fits (reply_shape P_strict) (RStruct [RSome (RStruct [RInt 1; RStr "n"]); RSome (RBool true); RDefault]) /\
  variants_stable [("org.example.M.Get", KStruct, [("id", u32, FPlain)])] = true.
Proof.
  split; [| split; [| split; [| split; [| reflexivity]]]].
  - apply Fits_adj. exists 2, [RStr "n"; RInt (-5); RSome (RStr "q""x")].
    split; [reflexivity |]. split; [apply str_neq; reflexivity |]. split; [nodup_tac |].
    split; [nodup_tac |].
    constructor; [fit_str "n" |]. constructor; [fit_int (-5)%Z |].
    constructor; [| constructor].
    right. exists (RStr "q""x"). split; [reflexivity |]. split; [fit_str "q""x" | discriminate].
  - apply Fits_adj. exists 1, [RStr "org.example"].
    split; [reflexivity |]. split; [apply str_neq; reflexivity |]. split; [nodup_tac |].
    split; [nodup_tac |]. constructor; [fit_str "org.example" | constructor].
  - apply Fits_adj. exists 1, [RStr "a"; RInt 3; RNone].
    split; [reflexivity |]. split; [apply str_neq; reflexivity |]. split; [nodup_tac |].
    split; [nodup_tac |].
    constructor; [fit_str "a" |]. constructor; [fit_int 3%Z |]. constructor; [now left | constructor].
  - apply Fits_struct. eexists. split; [reflexivity |]. split; [nodup_tac |].
    constructor; [| constructor; [| constructor; [reflexivity | constructor]]].
    + split; [reflexivity |]. right. eexists. split; [reflexivity |]. split; [| discriminate].
      apply Fits_struct. eexists. split; [reflexivity |]. split; [nodup_tac |].
      constructor; [fit_int 1%Z |]. constructor; [fit_str "n" | constructor].
    + split; [reflexivity |]. right. eexists. split; [reflexivity |].
      split; [eexists; reflexivity | discriminate].
Qed.

Example C05_nonvacuous :
  let c := mk_call (RVar 2 [RStr "n"; RInt (-5); RSome (RStr "q""x")]) true false true in
  enc_call M_meth c
  = Some (JObj [("method", JStr "org.example.M.Put");
                ("parameters", JObj [("name", JStr "n"); ("value", JNum (-5)); ("note", JStr "q""x")]);
                ("oneway", JBool true); ("upgrade", JBool true)]) /\
  dec_call M_meth (JObj [("upgrade", JBool true);
                         ("parameters", JObj [("note", JStr "q""x"); ("value", JNum (-5)); ("name", JStr "n")]);
                         ("x-unknown", JArr []); ("oneway", JBool true);
                         ("method", JStr "org.example.M.Put")]) = Some c /\
  dec_call M_vsmethod (JObj [("parameters", JObj []); ("more", JBool true);
                             ("method", JStr "org.varlink.service.GetInfo")])
  = Some (mk_call (RVar 0 []) false true false) /\
  proxy_out true E_simple P_unit (JObj [("parameters", JObj [])]) = POk RUnit /\
  classify E_simple P_unit (JObj [("parameters", JObj []); ("error", JStr "org.example.E.Busy")])
  = MethodError (RVar 1 []).
Proof. cbv zeta. repeat split; vm_compute; reflexivity. Qed.

(* ---------------------------------------------------------------- tie to the declarations in the source
   The shapes the theorems above quantify over for the three declarative envelope types are what
   serde's derive (and zlink's ReplyError derive) makes of the declarations in /repo's current
   reply.rs and varlink_service/api.rs (coq/gen/Decls.v, regenerated by translate/decls.py on every
   run; interpretation in Shapes/DeclTie.v): member names after rename, member types, tag/content,
   skip_serializing_if / default / skip_serializing / deserialize_with. *)
From ZV Require gen.Decls Shapes.DeclTie.

Theorem C05_reply_declaration_tie : forall P : shape,
  DeclTie.interp_struct P Decls.reply_derives Decls.reply_container_attrs Decls.reply_fields
  = Some (reply_shape P).
Proof. exact DeclTie.reply_decl_tie. Qed.
Print Assumptions C05_reply_declaration_tie.

Theorem C05_standard_method_declaration_tie :
  DeclTie.interp_method_enum Decls.method_container_attrs Decls.method_variants = Some vs_method_shape.
Proof. exact DeclTie.method_decl_tie. Qed.
Print Assumptions C05_standard_method_declaration_tie.

Theorem C05_standard_error_declaration_tie :
  DeclTie.interp_reply_error_enum Decls.error_derives Decls.error_interface Decls.error_variants
  = Some vs_error_shape.
Proof. exact DeclTie.error_decl_tie. Qed.
Print Assumptions C05_standard_error_declaration_tie.

Example C05_declaration_tie_nonvacuous :
  DeclTie.interp_struct SUnit ["Serialize"; "Deserialize"]%string []
    [("parameters", "Option<Params>", [("skip_serializing_if", "Option::is_none")]);
     ("continues", "Option<bool>", [])]%string <> Some (reply_shape SUnit)
  /\ DeclTie.interp_struct SUnit ["Serialize"; "Deserialize"]%string
       [("deny_unknown_fields", "")]%string Decls.reply_fields = None
  /\ DeclTie.interp_fields SUnit [("x", "u8", [])]%string = None.
Proof. exact DeclTie.interp_rejects_unknown_attribute. Qed.
