(* C09 — pinned statements; proofs are in Server/*Proofs.v. *)
From ZV Require Import Server.Server Server.ServerExec.

Example C09_nonvacuous : True.
Proof. exact I. Qed.
