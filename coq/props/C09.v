(* C09 — a faulty client ends only its own connection; the server and the others carry on.
   Only pinned statements; proofs are in Server/ServerSurvive.v, ServerFuel.v (the loop only ends on a
   listener error; the model never panics or runs out of fuel), ServerStruct.v (conservation of
   connections), ServerInv.v (a well-behaved connection is never dropped) and ServerNonint.v. *)
From ZV Require Import Server.Server Server.ServerSpec Server.ServerStruct Server.ServerInv
  Server.ServerSurvive Server.ServerFuel Server.ServerLocal Server.ServerNonint Server.ServerThms
  Server.ServerExamples.

(* For every service and every script — garbage, truncated frames, oversized messages, read and
   write errors, end of stream at any moment, on any number of connections — the only way the loop
   ends is a listener error: without a ListenerFail event the server is Running after every poll;
   the model's explicit Panic (index out of range in `connections[idx]` / `swap_remove`) and
   out-of-fuel outcomes never occur. *)
Theorem C09_server_survives :
  forall (P : params) (E : list (eev P)) (s0 : sstate P) (s : sv P) (T : list (tev P)),
  exec P E (init_sv P s0) = (s, T) ->
  (~ In ListenerFail E -> stat s = Running) /\
  (stat s = Exited -> has_lfail P E = true) /\
  stat s <> Panicked /\ stat s <> OutOfFuel.
Proof. exact server_survives. Qed.
Print Assumptions C09_server_survives.

(* Conservation, for every script: a connection is dropped at most once, and once dropped it is in
   none of the server's lists. *)
Theorem C09_removed_exactly :
  forall (P : params) (E : list (eev P)) (s0 : sstate P) (s : sv P) (T : list (tev P)),
  exec P E (init_sv P s0) = (s, T) ->
  (forall c, dcount P c T <= 1) /\ (forall c, 0 < dcount P c T -> occ P c s = 0) /\ stat s <> Panicked.
Proof. exact dropped_at_most_once. Qed.
Print Assumptions C09_removed_exactly.

(* ... and nothing else is dropped: a connection without a fault of its own (well-formed decodable
   frames below the limit, no transport fault, listener alive) is never dropped, whatever faults
   the other connections have. *)
Theorem C09_healthy_never_dropped :
  forall (P : params), (0 < p_step P)%N ->
  forall (c : nat) (fs : list (list byte)),
  Forall frame_ok fs -> (forall f, In f fs -> decode P f <> None) ->
  (N.of_nat (length (wire fs)) < p_limit P)%N ->
  forall (E : list (eev P)) (s0 : sstate P) (s : sv P) (T : list (tev P)),
  clean P c E -> input_of P false c E = wire fs ->
  exec P E (init_sv P s0) = (s, T) -> dcount P c T = 0.
Proof. exact healthy_never_dropped. Qed.
Print Assumptions C09_healthy_never_dropped.

(* Non-interference, for services with per-connection state ([local]: the answer depends on the call
   and on the state named [skey call], only that state changes) and runs in which the name c is used
   by connection c only ([keys_ok]): run a script E with and without everything that concerns a
   connection f — its connect, all its bytes and faults, its streams' events.  Every other
   well-behaved connection c has the same view of both runs; in particular exactly the same replies
   are written to it.  An undecodable call of f never reaches the service: the view of c lists every
   invocation made for c, and they are the same. *)
Theorem C09_noninterference :
  forall (P : params) (L : local P), (0 < p_step P)%N ->
  forall (f c : nat) (fs : list (list byte)), c <> f ->
  Forall frame_ok fs -> (forall fr, In fr fs -> decode P fr <> None) ->
  (N.of_nat (length (wire fs)) < p_limit P)%N ->
  forall (E : list (eev P)) (s0 : sstate P) (s : sv P) (T : list (tev P)) (s' : sv P) (T' : list (tev P)),
  clean P c E -> input_of P false c E = wire fs ->
  exec P (E ++ [Poll]) (init_sv P s0) = (s, T) -> stat s = Running -> keys_ok P c T ->
  exec P (without P f (E ++ [Poll])) (init_sv P s0) = (s', T') -> stat s' = Running -> keys_ok P c T' ->
  view P c T' = view P c T /\ writes P c T' = writes P c T.
Proof. exact noninterference. Qed.
Print Assumptions C09_noninterference.

(* The service is invoked only with decoded calls: every invocation in any trace carries a call
   that [decode] produced — by construction of the model ([on_call] invokes [handle] only in the
   branch [Msg (Some cl)]); a frame that does not decode removes its connection instead.
   One-step form: an undecodable frame at the selected connection yields no service invocation. *)
Theorem C09_undecodable_never_reaches_service :
  forall (P : params) (s : sv P) cs idx st s' t,
  on_call P s cs idx (Msg None) = (st, s', t) -> sst s' = sst s /\ invokes P t = [].
Proof. exact undecodable_never_reaches_service. Qed.
Print Assumptions C09_undecodable_never_reaches_service.

(* Non-vacuity: connection 0 sends garbage ('!' does not decode) and is dropped; connection 1 sends
   two calls.  All hypotheses of C09_noninterference hold for f = 0, c = 1, and the two traces
   differ (the faulty client is really there) while connection 1 gets the same two replies. *)
Example C09_nonvacuous :
  let fs := [[97;1]; [98;1]]%N in
  let E := [NewConn 0; NewConn 1; Arrive 0 [33;0]%N; Arrive 1 [97;1;0]%N; Poll;
            Arrive 1 [98;1;0]%N] : list (eev ex_params) in
  clean ex_params 1 E /\ input_of ex_params false 1 E = wire fs /\
  let (s, T) := exec ex_params (E ++ [Poll]) (init_sv ex_params tt) in
  let (s', T') := exec ex_params (without ex_params 0 (E ++ [Poll])) (init_sv ex_params tt) in
  stat s = Running /\ stat s' = Running /\ keys_ok ex_params 1 T /\ keys_ok ex_params 1 T' /\
  dcount ex_params 0 T = 1 /\ dcount ex_params 1 T = 0 /\
  writes ex_params 1 T = [WSingle [97;1]; WSingle [98;1]]%N /\
  writes ex_params 1 T' = [WSingle [97;1]; WSingle [98;1]]%N.
Proof.
  cbv zeta. split; [repeat constructor; discriminate|]. split; [reflexivity|].
  destruct (exec ex_params _ (init_sv ex_params tt)) as [s T] eqn:E1.
  destruct (exec ex_params (without _ _ _) (init_sv ex_params tt)) as [s' T'] eqn:E2.
  vm_compute in E1. vm_compute in E2. inversion E1; subst s T. inversion E2; subst s' T'.
  split; [reflexivity|]. split; [reflexivity|].
  split; [apply keys_okb_ok; reflexivity|]. split; [apply keys_okb_ok; reflexivity|].
  repeat split; reflexivity.
Qed.
