(* C10 — streaming replies are delivered in order and the connection resumes afterwards.
   Only pinned statements; proofs are in Server/ServerQueue.v (queue discipline), ServerInv.v and
   ServerThms.v (per-connection invariant incl. parked connections), ServerNonint.v (reference) and
   ServerPairs.v (a failed item write is local). *)
From ZV Require Import Server.Server Server.ServerSpec Server.ServerStruct Server.ServerQueue
  Server.ServerInv Server.ServerPairs Server.ServerThms Server.ServerLocal Server.ServerNonint
  Server.RoundRobin Server.ServerRR Server.ServerExamples.

(* Items are delivered in order, for every script and every stream name: what the streams named
   [key] have yielded so far, followed by what is still queued for that name, is exactly what the
   environment (the service's stream) pushed for it, in that order.  Each yielded item is written at
   once, to the connection the stream is parked with, with the service's own continues flag (the
   flag is part of the item): that is [C08_no_cross_talk] (pairing) and the shape of [chunk]. *)
Theorem C10_items_in_order :
  forall (P : params) (key : nat) (E : list (eev P)) (s0 : sstate P) (s : sv P) (T : list (tev P)),
  exec P E (init_sv P s0) = (s, T) ->
  yields P key T ++ pending P key (squeue s) = pushes P key E.
Proof. exact queue_discipline. Qed.
Print Assumptions C10_items_in_order.

(* Resumption: the statement of C08 covers streaming calls.  Whenever the executor has polled and
   the connection is back in the call list (all its streams have ended), EVERY frame has been
   handled, in order, each once — the calls the client pipelined behind a streaming call included,
   none lost: the frames buffered while the connection was parked survive the move between the
   stream list and the call list. *)
Theorem C10_resume :
  forall (P : params), (0 < p_step P)%N ->
  forall (c : nat) (fs : list (list byte)),
  Forall frame_ok fs -> (forall f, In f fs -> decode P f <> None) ->
  (N.of_nat (length (wire fs)) < p_limit P)%N ->
  forall (E : list (eev P)) (s0 : sstate P) (s : sv P) (T : list (tev P)),
  clean P c E -> input_of P false c E = wire fs ->
  exec P (E ++ [Poll]) (init_sv P s0) = (s, T) -> stat s = Running ->
  In c (map cid (conns s)) ->
  exists hcs : list (hcall P),
    map (fun h => Some (h_cl h)) hcs = map (decode P) fs /\
    Forall (complete P) hcs /\
    view P c T = TAccept c :: flat_map (chunk P c) hcs /\
    writes P c T = flat_map (resp_writes P) hcs.
Proof. exact per_connection_sequential. Qed.
Print Assumptions C10_resume.

(* While the stream is open: the connection is parked, every frame up to the streaming call has
   been handled, every event queued for its stream has been delivered, and nothing behind the
   streaming call has been touched. *)
Theorem C10_parked :
  forall (P : params), (0 < p_step P)%N ->
  forall (c : nat) (fs : list (list byte)),
  Forall frame_ok fs -> (forall f, In f fs -> decode P f <> None) ->
  (N.of_nat (length (wire fs)) < p_limit P)%N ->
  forall (E : list (eev P)) (s0 : sstate P) (s : sv P) (T : list (tev P)),
  clean P c E -> input_of P false c E = wire fs ->
  exec P (E ++ [Poll]) (init_sv P s0) = (s, T) -> stat s = Running ->
  In c (map skx (streams s)) ->
  exists done rest hcs h,
    fs = done ++ rest /\ map (fun h => Some (h_cl h)) (hcs ++ [h]) = map (decode P) done /\
    Forall (complete P) hcs /\
    h_ans h = AMulti /\ oneway P (h_cl h) = false /\ h_ended h = false /\
    pop_key P (skey P (h_cl h)) (squeue s) = None /\
    view P c T = TAccept c :: flat_map (chunk P c) (hcs ++ [h]).
Proof. exact connection_view_parked. Qed.
Print Assumptions C10_parked.

(* The sequential reference, for services with per-connection state and honest names: the view of a
   well-behaved connection after a poll is the accept followed by the transcripts of [ref_hcs] — its
   calls handled one after the other by the local handler, each streaming call taking the events
   pushed for its stream, in order, up to the end of that stream, and the calls behind it answered
   afterwards — independently of all other connections and of all interleavings. *)
Theorem C10_stream_reference :
  forall (P : params) (L : local P), (0 < p_step P)%N ->
  forall (c : nat) (fs : list (list byte)),
  Forall frame_ok fs -> (forall f, In f fs -> decode P f <> None) ->
  (N.of_nat (length (wire fs)) < p_limit P)%N ->
  forall (E : list (eev P)) (s0 : sstate P) (s : sv P) (T : list (tev P)),
  clean P c E -> input_of P false c E = wire fs ->
  exec P (E ++ [Poll]) (init_sv P s0) = (s, T) -> stat s = Running -> keys_ok P c T ->
  view P c T = if existsb (fun e => match e with NewConn c' => Nat.eqb c' c | _ => false end) E
               then ref_view P L c fs (pushes P c E) (proj P L c s0) else [].
Proof. exact view_determined. Qed.
Print Assumptions C10_stream_reference.

(* While streams are open the other clients are still served: whatever is parked in the stream list and
   whatever is queued for the streams, when nothing waits at the listener and some connection b in
   the call list has a complete call available ([ready], the code's own delivery rule), this very
   iteration is a get_next_call iteration: it yields an index i, handles that connection's call,
   records i as the last winner, and polls no stream (no yield, stream queue and stream winner
   untouched).  Which connection: the round-robin order — by C18_bounded_across_transitions b itself
   is chosen after fewer than n * (k + 1) other calls. *)
Theorem C10_others_served_meanwhile :
  forall (P : params) (s : sv P) (b : nat),
  accq s = [] -> b < length (conns s) -> ready P (conns s) b = true ->
  exists i, call_winner P s = Some i /\ i < length (conns s) /\
    forall st s' t, iteration P s = (st, s', t) ->
      st = Progress /\ lastc s' = Some i /\ lasts s' = lasts s /\ squeue s' = squeue s /\
      forall e, In e t -> match e with TSYield _ _ _ => False | _ => True end.
Proof. exact others_served_meanwhile. Qed.
Print Assumptions C10_others_served_meanwhile.

(* A client that becomes unwritable mid-stream loses that subscription only: the failed write of
   an item removes that stream entry (stream and connection are dropped), leaves the call list, the
   listener queue, the service and every other parked stream alone, and every event of the
   iteration concerns the failing connection.  (That the other connections' outputs are unchanged by
   whatever happens to this one is C09_noninterference.) *)
Theorem C10_write_failure_local :
  forall (P : params) (s : sv P) (idx key : nat) (x : conn) (r : item P),
  nth_error (streams s) idx = Some (key, x) ->
  existsb (Nat.eqb (wcnt x)) (wfail x) = true ->
  exists s', on_stream P s idx (SItem r)
             = (Progress, s', [TSYield (cid x) key (SItem r); TWriteFail (cid x) (WItem r);
                               TSDrop (cid x) key; TDrop (cid x)]) /\
    conns s' = conns s /\ accq s' = accq s /\ sst s' = sst s /\
    streams s' = swap_remove idx (streams s) /\
    (forall j y, j <> idx -> nth_error (streams s) j = Some y -> In y (streams s')).
Proof. exact stream_write_failure_local. Qed.
Print Assumptions C10_write_failure_local.

(* Non-vacuity: connection 1 pipelines a plain call, a streaming call "s1" and two calls behind it
   in one burst; two items and the end of the stream arrive later, interleaved with connection 0.
   The hypotheses of C10_resume / C10_stream_reference hold; the items are written in order and the
   two pipelined calls are answered after the stream ended. *)
Example C10_nonvacuous :
  let fs := [[97;1]; [115;1]; [98;1]; [99;1]]%N in
  let E := [NewConn 0; NewConn 1; Arrive 1 [97;1;0;115;1;0;98;1;0;99;1;0]%N; Poll;
            @StreamItem ex_params 1 [7]%N; Arrive 0 [66;0]%N; Poll; @StreamItem ex_params 1 [8]%N;
            StreamEnd 1] : list (eev ex_params) in
  Forall frame_ok fs /\ (forall f, In f fs -> decode ex_params f <> None) /\
  clean ex_params 1 E /\ input_of ex_params false 1 E = wire fs /\
  let (s, T) := exec ex_params (E ++ [Poll]) (init_sv ex_params tt) in
  stat s = Running /\ In 1 (map cid (conns s)) /\ keys_ok ex_params 1 T /\
  writes ex_params 1 T = [WSingle [97;1]; WItem [7]; WItem [8]; WSingle [98;1]; WSingle [99;1]]%N.
Proof.
  cbv zeta. split; [repeat constructor; discriminate|]. split.
  { intros f [<-|[<-|[<-|[<-|[]]]]]; discriminate. }
  split; [repeat constructor; discriminate|]. split; [reflexivity|].
  destruct (exec ex_params _ (init_sv ex_params tt)) as [s T] eqn:E1.
  vm_compute in E1. inversion E1; subst s T.
  split; [reflexivity|]. split; [cbn; auto|]. split; [apply keys_okb_ok; reflexivity|]. reflexivity.
Qed.
