(* C10 — pinned statements; proofs are in Server/*Proofs.v. *)
From ZV Require Import Server.Server Server.ServerExec.

Example C10_nonvacuous : True.
Proof. exact I. Qed.
