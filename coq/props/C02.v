(* C02 — outbound framing. Only pinned statements; proofs in Framing/WriteConnProofs.v. *)
From ZV Require Import Framing.WriteConn Framing.WriteConnProofs.

(* For every history of enqueue / send / flush operations, every message size, every buffer step
   and every limit that is a multiple of it, with a transport that accepts its writes: the sequence
   of transport writes is exactly what the abstract queue of frames prescribes — one write per
   non-empty flush holding, in submission order, document ++ NUL of every accepted message since the
   previous flush; nothing for an empty flush; nothing for a refused message. *)
Theorem C02_framing :
  forall (step limit : N), (0 < step)%N -> forall K : N, limit = (K * step)%N -> (1 <= K)%N ->
  forall ops s script, WInv step K s -> all_accept script ->
  snd (wrun step limit (N.to_nat K + 1) s script ops)
  = spec_writes (wbuf s) ops (map fst (fst (wrun step limit (N.to_nat K + 1) s script ops))).
Proof. exact wrun_refines. Qed.
Print Assumptions C02_framing.

(* which messages are accepted, and what a refusal leaves behind (for every position/capacity) *)
Theorem C02_enqueue_characterised :
  forall (step limit : N), (0 < step)%N -> forall K : N, limit = (K * step)%N -> (1 <= K)%N ->
  forall s m, WInv step K s ->
  enqueue_post step limit K s m (fst (enqueue step limit (N.to_nat K + 1) s m))
                                (snd (enqueue step limit (N.to_nat K + 1) s m)).
Proof. exact enqueue_post_K. Qed.
Print Assumptions C02_enqueue_characterised.

Theorem C02_refusal_is_noop :
  forall (step limit : N), (0 < step)%N -> forall K : N, limit = (K * step)%N -> (1 <= K)%N ->
  forall s m, WInv step K s ->
  fst (enqueue step limit (N.to_nat K + 1) s m) <> WOk ->
  wbuf (snd (enqueue step limit (N.to_nat K + 1) s m)) = wbuf s.
Proof. exact refusal_is_noop. Qed.
Print Assumptions C02_refusal_is_noop.

(* the grow-and-retry loop terminates within K + 1 rounds *)
Theorem C02_retry_terminates :
  forall (step limit : N), (0 < step)%N -> forall K : N, limit = (K * step)%N -> (1 <= K)%N ->
  forall s m, WInv step K s -> fst (enqueue step limit (N.to_nat K + 1) s m) <> WOutOfFuel.
Proof. exact enqueue_terminates. Qed.
Print Assumptions C02_retry_terminates.

(* non-vacuity: a message that ends exactly at the buffer end (step 8: 7 bytes + NUL would need
   position 8 = capacity), a refused message in between, two flushes *)
Example C02_nonvacuous :
  WInv 8 4 (winit 8) /\
  wrun 8 32 5 (winit 8) [] [Enqueue (Good [1;2;3;4;5;6;7;8]); Enqueue (BadKey 3); Send (Good [9]); Flush;
                            Enqueue (Good [10]); Flush]%N
  = ([(WOk, wmk 16 [1;2;3;4;5;6;7;8;0]); (WKeyErr, wmk 16 [1;2;3;4;5;6;7;8;0]); (WOk, wmk 16 []);
      (WOk, wmk 16 []); (WOk, wmk 16 [10;0]); (WOk, wmk 16 [])],
     [[1;2;3;4;5;6;7;8;0;9;0]; [10;0]])%N.
Proof.
  split; [|reflexivity]. split; [exists 1%N; cbn; repeat split; lia|cbn; lia].
Qed.
