(* C13 — the IDL parser accepts exactly the Varlink grammar and builds the denoted tree.
   Only pinned statements; the model is Idl/IdlParse.v (a transcription of
   zlink-core/src/idl/parse/mod.rs incl. winnow's combinators), the proofs are in Idl/IdlSafe.v. *)
From ZV Require Import Common.Base Idl.Idl Idl.IdlParse Idl.IdlParseOld Idl.IdlSafe Idl.IdlExec
  Idl.IdlExamples Idl.IdlComplete Idl.IdlCompleteEx Idl.IdlSound.

(* The parser never panics: for EVERY valid UTF-8 byte string (the argument of
   Interface::try_from is a &str) no slice is out of range, no from_utf8(..).unwrap() fails and
   the `separated` infinite-loop assertion is never hit. *)
Theorem C13_no_panic : forall s, utf8_valid s = true -> parse_interface s <> OPanic.
Proof. intros s H. exact (proj1 (parse_interface_safe s H)). Qed.
Print Assumptions C13_no_panic.

(* The UTF-8 hypothesis is needed (bytes_to_str unwraps): not reachable through the &str API. *)
Theorem C13_no_panic_needs_utf8 : exists s, parse_interface s = OPanic.
Proof. exists [35; 255]%N. vm_compute. reflexivity. Qed.
Print Assumptions C13_no_panic_needs_utf8.

(* Before the repair b458739 the statement was false of the code: the struct-vs-enum look-ahead
   sliced input[1..0] at the type position of `method M(a:) -> ()` (replayed: corpus/c13.jsonl). *)
Theorem C13_no_panic_refuted_before_fix :
  exists i, forall vt, fst (inline_type_old vt i) = Panic.
Proof. exists [41; 32; 45; 62; 32; 40; 41]%N. exact inline_type_old_panics. Qed.
Print Assumptions C13_no_panic_refuted_before_fix.

(* The parser never loops: every loop and every recursion of the model runs with fuel
   |remaining input| + 1 and never exhausts it. *)
Theorem C13_terminates : forall s, utf8_valid s = true -> parse_interface s <> OFuel.
Proof. intros s H. exact (proj2 (parse_interface_safe s H)). Qed.
Print Assumptions C13_terminates.

(* Completeness: EVERY legal layout of a description parses to exactly that description, with the
   members of each kind in source order (the tree keeps one list per kind: interface_of).
   `Linterface n cs ms s` (Idl/IdlComplete.v) says that the text s lays out the interface named n
   with comments cs and members ms (in source order):
     - names follow the grammar's regular expressions; types are any nesting of optional (not of an
       optional), array, map, custom, inline struct (possibly empty) and inline enum (non-empty);
     - ANY string of ASCII blanks (space, tab, CR, LF) may stand wherever the grammar has `_`: around
       the text, between `(` `)` `,` `:` `->` and their neighbours, at least one after the keywords
       interface / method / type / error and in front of every member;
     - comment lines (`#`, optional blanks, text, LF or CR or CRLF, then any blanks, so also
       indented) stand before the interface, before a member and before a direct field / parameter /
       variant of a member and are attached to it, with their text (valid UTF-8, no line break);
     - inside inline types the gaps after `(` and after `,` (i.e. before every field / variant) may
       additionally contain comment lines, which are layout only.
   Outside this relation (not demanded by the property): comments in other `_` positions, the
   Unicode blanks of the published grammar. *)
Theorem C13_complete : forall (n : name) (cs : list comment) (ms : list member) (s : list byte),
  Linterface n cs ms s -> parse_interface s = Accept (interface_of n cs ms).
Proof. exact parse_layout. Qed.
Print Assumptions C13_complete.

(* "the description it denotes" is well defined: a text is a legal layout of at most one tree *)
Theorem C13_layout_unambiguous : forall n1 cs1 ms1 n2 cs2 ms2 s,
  Linterface n1 cs1 ms1 s -> Linterface n2 cs2 ms2 s ->
  interface_of n1 cs1 ms1 = interface_of n2 cs2 ms2.
Proof. exact layout_unambiguous. Qed.
Print Assumptions C13_layout_unambiguous.

(* the type-level core: the type parser consumes exactly a laid-out type in front of `,` / `)` *)
Theorem C13_complete_types : forall (t : ty) (s x : list byte),
  Lty t s -> closes x -> varlink_type (s ++ x) = (Ok t, x).
Proof. exact varlink_type_gap. Qed.
Print Assumptions C13_complete_types.

(* Non-vacuity of C13_complete: a text in a decidedly non-canonical layout (leading blank, doubled
   blanks, blanks around ':' and inside the parentheses, a comment line inside an inline enum,
   `)->(` without blanks, trailing newline) satisfies the relation. *)
Example C13_complete_nonvacuous :
  Linterface ex_name ex_comments ex_members ex_text
  /\ parse_interface ex_text = Accept (interface_of ex_name ex_comments ex_members).
Proof. split; [exact ex_layout | vm_compute; reflexivity]. Qed.

(* Soundness: whatever the parser accepts is in the grammar and nothing of it is ignored or
   fabricated. For EVERY byte string s: if the parser accepts s with tree t, then (the text is first
   trimmed as str::trim does)
     - the token sequence of s under the Varlink lexer (Idl.lex: words by maximal munch, the
       punctuation ( ) , : -> ? [] [string], blanks and #-comments skipped; a byte outside these
       makes lex fail) is exactly `interface` NAME followed by the tokens of the members ms in their
       source order, and t is those members sorted into the tree's three lists (interface_of);
     - every name of t follows the grammar's regular expression for its kind (names_ok);
     - t has no enum without variants and no optional of an optional (enums_ok).
   In particular no text with a trailing or embedded part that is not a member is accepted, no
   member is dropped, `()` is the empty struct. *)
Theorem C13_sound : forall (s : list byte) (t : interface),
  parse_interface s = Accept t ->
  exists ms : list member,
    t = interface_of (iname t) (icomments t) ms
    /\ lex (trim s) = Some (tokens_of_members (iname t) ms)
    /\ names_ok t = true /\ enums_ok t = true.
Proof. exact parse_sound. Qed.
Print Assumptions C13_sound.

(* the same in the executable form the correspondence check evaluates on every accepted text *)
Theorem C13_sound_exec : forall (s : list byte) (t : interface),
  parse_interface s = Accept t -> sound_accept s t = true.
Proof. exact parse_sound_exec. Qed.
Print Assumptions C13_sound_exec.

(* Non-vacuity: the official org.varlink.service description is parsed by the model to the
   expected tree, its text denotes that tree in the token language, and all names are legal. *)
Example C13_nonvacuous :
  utf8_valid org_varlink_service_text = true
  /\ parse_interface org_varlink_service_text = Accept org_varlink_service
  /\ sound_accept org_varlink_service_text org_varlink_service = true.
Proof. repeat split; vm_compute; reflexivity. Qed.
