(* C13 — the IDL parser accepts exactly the Varlink grammar and builds the denoted tree.
   Only pinned statements; the model is Idl/IdlParse.v (a transcription of
   zlink-core/src/idl/parse/mod.rs incl. winnow's combinators), the proofs are in Idl/IdlSafe.v. *)
From ZV Require Import Common.Base Idl.Idl Idl.IdlParse Idl.IdlParseOld Idl.IdlSafe Idl.IdlExec
  Idl.IdlExamples.

(* The parser never panics: for EVERY valid UTF-8 byte string (the argument of
   Interface::try_from is a &str) no slice is out of range, no from_utf8(..).unwrap() fails and
   the `separated` infinite-loop assertion is never hit. *)
Theorem C13_no_panic : forall s, utf8_valid s = true -> parse_interface s <> OPanic.
Proof. intros s H. exact (proj1 (parse_interface_safe s H)). Qed.
Print Assumptions C13_no_panic.

(* The UTF-8 hypothesis is needed (bytes_to_str unwraps): not reachable through the &str API. *)
Theorem C13_no_panic_needs_utf8 : exists s, parse_interface s = OPanic.
Proof. exists [35; 255]%N. vm_compute. reflexivity. Qed.
Print Assumptions C13_no_panic_needs_utf8.

(* Before the repair b458739 the statement was false of the code: the struct-vs-enum look-ahead
   sliced input[1..0] at the type position of `method M(a:) -> ()` (replayed: corpus/c13.jsonl). *)
Theorem C13_no_panic_refuted_before_fix :
  exists i, forall vt, fst (inline_type_old vt i) = Panic.
Proof. exists [41; 32; 45; 62; 32; 40; 41]%N. exact inline_type_old_panics. Qed.
Print Assumptions C13_no_panic_refuted_before_fix.

(* The parser never loops: every loop and every recursion of the model runs with fuel
   |remaining input| + 1 and never exhausts it. *)
Theorem C13_terminates : forall s, utf8_valid s = true -> parse_interface s <> OFuel.
Proof. intros s H. exact (proj2 (parse_interface_safe s H)). Qed.
Print Assumptions C13_terminates.

(* Non-vacuity: the official org.varlink.service description is parsed by the model to the
   expected tree, its text denotes that tree in the token language, and all names are legal. *)
Example C13_nonvacuous :
  utf8_valid org_varlink_service_text = true
  /\ parse_interface org_varlink_service_text = Accept org_varlink_service
  /\ sound_accept org_varlink_service_text org_varlink_service = true.
Proof. repeat split; vm_compute; reflexivity. Qed.
