(* C13 — the IDL parser accepts exactly the Varlink grammar and builds the denoted tree.
   Only pinned statements; the model is Idl/IdlParse.v, the proofs are in Idl/*Proofs.v. *)
From ZV Require Import Common.Base Idl.Idl Idl.IdlParse Idl.IdlExec Idl.IdlExamples.

(* Non-vacuity: the official org.varlink.service description is parsed by the model to the
   expected tree, its text denotes that tree in the token language, and all names are legal. *)
Example C13_nonvacuous :
  parse_interface org_varlink_service_text = Accept org_varlink_service
  /\ sound_accept org_varlink_service_text org_varlink_service = true.
Proof. split; vm_compute; reflexivity. Qed.
