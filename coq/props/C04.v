(* C04 — a reply carrying an `error` member is never reported to the caller as success.
   Only pinned statements; proofs are in Shapes/ReplyProofs.v. *)
From ZV Require Import Shapes.Reply Shapes.Corpus.

(* Of the tree as pinned (Reply<P> had no guard against an `error` member): the property is false. *)
Theorem C04_refuted_before_b42f3c8 :
  exists E P ms, has_member "error" ms /\
                 decoder (SUntagged [vs_error_shape; E; reply_shape_unguarded P]) Direct (JObj ms)
                 = Some (RAlt 2 (RStruct [RNone; RNone])).
Proof.
  exists E_simple, P_unit, [("error", JStr "io.systemd.System")].
  split; [left; reflexivity | vm_compute; reflexivity].
Qed.
Print Assumptions C04_refuted_before_b42f3c8.
