(* C04 — a reply carrying an `error` member is never reported to the caller as success.
   Only pinned statements; proofs are in Shapes/ReplyProofs.v. *)
From ZV Require Import Shapes.Reply Shapes.Corpus.

(* Of the tree as pinned (Reply<P> has no guard against an `error` member): the property is false. *)
Theorem C04_refuted :
  exists E P ms, has_member "error" ms /\ exists r, classify E P (JObj ms) = Success r.
Proof.
  exists E_simple, P_unit, [("error", JStr "io.systemd.System")].
  split; [left; reflexivity | eexists; vm_compute; reflexivity].
Qed.
Print Assumptions C04_refuted.
