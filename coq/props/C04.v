(* C04 — a reply carrying an `error` member is never reported to the caller as success.
   Only pinned statements; proofs are in Shapes/ReplyProofs.v.  Model: Shapes/Reply.v (classify
   mirrors read_connection.rs receive_reply; decoder mirrors serde's derived visitors). *)
From ZV Require Import Shapes.Shapes Shapes.ShapesProofs Shapes.Reply Shapes.ReplyProofs Shapes.Corpus.

(* For every JSON object (members in any order, duplicates allowed), every error shape and every
   parameter shape of the shape language (unit, Value, all-optional structs, untagged enums, ...):
   an object with an `error` member is never classified as a successful reply. *)
Theorem C04_error_never_success :
  forall (E P : shape) (ms : members),
  has_member "error" ms -> forall r, classify E P (JObj ms) <> Success r.
Proof. exact error_never_success. Qed.
Print Assumptions C04_error_never_success.

(* The same at the level of generated proxy methods (with or without output parameters): neither
   Ok(Ok(_)) nor Err(MissingParameters) - the latter is how a success reply without parameters
   surfaces. *)
Theorem C04_proxy_error_never_ok :
  forall (unit_out : bool) (E P : shape) (ms : members),
  has_member "error" ms ->
  match proxy_out unit_out E P (JObj ms) with POk _ | PMissing => False | _ => True end.
Proof. exact proxy_error_never_ok. Qed.
Print Assumptions C04_proxy_error_never_ok.

(* Classification of objects without duplicate member names, for every error type as the
   ReplyError derive generates it and every parameter shape, independent of member order
   (spec_error / spec_opt_member only look members up by name):
   - a standard service error exactly when the object names one with acceptable parameters;
   - the method's error exactly when it is not that and the caller's error type recognises the
     `error` member with acceptable parameters;
   - a success exactly when there is no `error` member and `parameters` / `continues` are acceptable. *)
Theorem C04_classification :
  forall (E P : shape) (ms : members),
  derived_error_shape E -> NoDup (keys ms) ->
  (forall e, classify E P (JObj ms) = VarlinkError e <-> spec_error vs_error_shape ms = Some e) /\
  (forall e, classify E P (JObj ms) = MethodError e <->
             spec_error vs_error_shape ms = None /\ spec_error E ms = Some e) /\
  (forall r, classify E P (JObj ms) = Success r <->
             ~ has_member "error" ms /\
             spec_error vs_error_shape ms = None /\ spec_error E ms = None /\
             exists p c, spec_opt_member P "parameters" ms = Some p /\
                         spec_opt_member SBool "continues" ms = Some c /\ r = RStruct [p; c]).
Proof. exact classification. Qed.
Print Assumptions C04_classification.

(* ... as one equation: the model of receive_reply IS the order-free specification. *)
Theorem C04_classify_is_spec :
  forall (E P : shape) (ms : members),
  derived_error_shape E -> NoDup (keys ms) ->
  classify E P (JObj ms) = spec_classify E P ms.
Proof. exact classify_spec. Qed.
Print Assumptions C04_classify_is_spec.

(* Of the tree as pinned (Reply<P> without the guard against an `error` member) the property was
   false; witness = the property's own example, unit parameters. *)
Theorem C04_refuted_before_b42f3c8 :
  exists E P ms, has_member "error" ms /\
                 decoder (SUntagged [vs_error_shape; E; reply_shape_unguarded P]) Direct (JObj ms)
                 = Some (RAlt 2 (RStruct [RNone; RNone])).
Proof.
  exists E_simple, P_unit, [("error", JStr "io.systemd.System")].
  split; [left; reflexivity | vm_compute; reflexivity].
Qed.
Print Assumptions C04_refuted_before_b42f3c8.

(* A catch-all error alternative would not have been a repair: a duplicated `error` member makes
   every struct/enum decoder fail with `duplicate field`, a catch-all included, and the frame
   would still fall through to an unguarded success branch. *)
Theorem C04_catch_all_insufficient :
  let catch_all := SStruct [("error", SAny, FPlain)] in
  decoder (SUntagged [vs_error_shape; E_simple; catch_all; reply_shape_unguarded P_unit]) Direct
          (JObj [("error", JStr "a"); ("error", JStr "b")])
  = Some (RAlt 3 (RStruct [RNone; RNone])).
Proof. vm_compute. reflexivity. Qed.
Print Assumptions C04_catch_all_insufficient.

(* Frames that are NOT JSON objects.  serde's derived visitors also accept sequence forms, so the
   untagged decode of receive_reply as of 4eaac7f classifies some arrays: the property's "exactly
   when it carries an `error` member" fails in the only-if direction (open finding
   C04.non_object_frame; witnesses below).  receive_reply_model true is the code with
   work/c04-array-fix.diff applied; which of the two models the tree under test follows is read
   off read_connection.rs by the check on every run. *)
Theorem C04_non_object_frame_refuted :
  receive_reply_model false E_simple P_strict (JArr [JStr "org.example.E.Busy"; JNull])
    = MethodError (RVar 1 []) /\
  receive_reply_model false E_simple P_strict (JArr [JNum 1; JNull]) = MethodError (RVar 1 []) /\
  receive_reply_model false E_simple P_strict
    (JArr [JStr "org.varlink.service.PermissionDenied"; JNull]) = VarlinkError (RVar 4 []) /\
  receive_reply_model false E_simple P_strict (JArr [JObj [("id", JNum 1); ("name", JStr "n")]; JBool true])
    = Success (RStruct [RSome (RStruct [RInt 1; RStr "n"]); RSome (RBool true)]) /\
  receive_reply_model false E_simple P_strict (JArr [JObj [("id", JNum 1); ("name", JStr "n")]])
    = DecodeError /\
  proxy_model false true E_simple P_unit (JArr [JNull; JBool true]) = POk RUnit.
Proof. repeat split; vm_compute; reflexivity. Qed.
Print Assumptions C04_non_object_frame_refuted.

(* With the repair: every frame that is not an object is a decode error (receive_reply and proxy
   methods), object frames are classified exactly as before ... *)
Theorem C04_non_object_decode_error :
  forall E P v, is_object v = false ->
  receive_reply_model true E P v = DecodeError /\
  forall unit_out, proxy_model true unit_out E P v = PDecode.
Proof. exact non_object_decode_error. Qed.
Print Assumptions C04_non_object_decode_error.

Theorem C04_object_frames_unchanged :
  forall b E P ms,
  receive_reply_model b E P (JObj ms) = classify E P (JObj ms) /\
  forall unit_out, proxy_model b unit_out E P (JObj ms) = proxy_out unit_out E P (JObj ms).
Proof. exact object_frames_unchanged. Qed.
Print Assumptions C04_object_frames_unchanged.

(* ... so for ARBITRARY frames: an error (the method's or a service error) is reported only if the
   frame is an object carrying an `error` member. *)
Theorem C04_error_only_if_error_member :
  forall E P v, derived_error_shape E ->
  (exists e, receive_reply_model true E P v = MethodError e \/
             receive_reply_model true E P v = VarlinkError e) ->
  exists ms, v = JObj ms /\ has_member "error" ms.
Proof. exact error_only_if_error_member. Qed.
Print Assumptions C04_error_only_if_error_member.

(* Non-vacuity: the corpus error types satisfy derived_error_shape; the hypotheses of the theorems
   hold on concrete frames and the outcomes are the four different ones. *)
Example C04_shapes_nonvacuous :
  derived_error_shape E_simple /\ derived_error_shape E_renamed /\ derived_error_shape E_opts /\
  derived_error_shape E_empty /\ derived_error_shape vs_error_shape.
Proof. repeat split; eexists; split; reflexivity. Qed.

Example C04_nonvacuous :
  let f1 := [("parameters", JObj [("errno", JNum 5)]); ("error", JStr "io.systemd.System")] in
  let f2 := [("parameters", JObj [("code", JNum 7); ("field", JStr "f")]); ("x", JNull);
             ("error", JStr "org.example.E.Invalid")] in
  let f3 := [("error", JStr "org.varlink.service.PermissionDenied"); ("parameters", JObj [])] in
  let f4 := [("continues", JBool true); ("parameters", JObj [("errno", JNum 5)])] in
  (has_member "error" f1 /\ NoDup (keys f1) /\ classify E_simple P_value (JObj f1) = DecodeError) /\
  (NoDup (keys f2) /\ classify E_simple P_value (JObj f2) = MethodError (RVar 2 [RStr "f"; RInt 7])) /\
  (NoDup (keys f3) /\ classify E_simple P_value (JObj f3) = VarlinkError (RVar 4 [])) /\
  (NoDup (keys f4) /\ classify E_simple P_value (JObj f4)
                      = Success (RStruct [RSome (RAny (JObj [("errno", JNum 5)])); RSome (RBool true)])).
Proof.
  cbv zeta. repeat split; try (vm_compute; reflexivity); try (right; left; reflexivity).
  all: repeat constructor; cbn [In]; intros H; repeat destruct H as [H | H]; try discriminate; exact H.
Qed.

(* The guard the theorems above rest on is in /repo's current declaration of `Reply` (coq/gen/Decls.v,
   regenerated by translate/decls.py on every run): a member named `error`, of a type whose
   Deserialize refuses every value, defaulted when absent and never written; and the declaration as
   a whole reads as the guarded reply shape (Shapes/DeclTie.v). *)
From ZV Require gen.Decls Shapes.DeclTie.

Theorem C04_reply_declaration_has_error_guard :
  (forall P : shape,
     DeclTie.interp_struct P Decls.reply_derives Decls.reply_container_attrs Decls.reply_fields
     = Some (reply_shape_guarded P))
  /\ In ("error", "NoError", [("default", ""); ("skip_serializing", "")])%string Decls.reply_fields
  /\ Decls.no_error_refuses_everything = true.
Proof.
  split; [exact DeclTie.reply_decl_tie | exact DeclTie.reply_decl_has_error_guard].
Qed.
Print Assumptions C04_reply_declaration_has_error_guard.
