(* C15 — generated code speaks exactly the IDL's interface. Pinned statements only. *)
From ZV Require Import Codegen.IdlTy Codegen.Names gen.Keywords Codegen.Codegen Codegen.CodegenProofs.
Open Scope string_scope.

Theorem C15_keywords_refuted :
  exists k, In k reference_keywords /\ field_name_ok k = true /\ mem k generator_keywords = false.
Proof. exists "try". vm_compute. repeat split; auto 60. Qed.
Print Assumptions C15_keywords_refuted.

Theorem C15_wire_names_refuted :
  exists i, iface_legal i = true /\ wire_names_ok i (codegen i) = false.
Proof. exists w_iface. vm_compute. split; reflexivity. Qed.
Print Assumptions C15_wire_names_refuted.
