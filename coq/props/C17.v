(* C17 — buffers are bounded. Only pinned statements; proofs in Framing/BoundProofs.v,
   Framing/WriteConnProofs.v and Framing/ReadConnProofs.v; instantiated with the constants
   translated from zlink-core/src/connection/mod.rs (gen/Consts.v). *)
From ZV Require Import Framing.ReadConn Framing.ReadConnProofs Framing.BoundProofs
                       Framing.WriteConn Framing.WriteConnProofs gen.Consts.

(* Inbound: whatever the peer sends and however it is chunked (including errors and EOF), every
   state the connection goes through has buffer.len() <= limit. *)
Theorem C17_inbound_bound :
  forall (step limit : N) (D : Type) (decode : list byte -> D), (0 < step)%N ->
  forall K : N, limit = (K * step)%N -> (1 <= K)%N ->
  forall n polls fuel s tr, Inv step K s ->
  Forall (fun x => (cap (snd x) <= limit)%N /\ (N.of_nat (length (data (snd x))) <= cap (snd x))%N)
         (run step limit D decode n polls fuel s tr).
Proof. exact inbound_bound. Qed.
Print Assumptions C17_inbound_bound.

(* Inbound: `limit` bytes without a terminator (an oversized or unterminated frame), in ANY
   chunking, make the receive fail with BufferOverflow, with the buffer exactly at the limit. *)
Theorem C17_inbound_overflow :
  forall (step limit : N) (D : Type) (decode : list byte -> D), (0 < step)%N ->
  forall K : N, limit = (K * step)%N -> (1 <= K)%N ->
  forall polls fuel s tr p rest,
  mpos s = 0 -> Inv_lt step K s -> Forall ok_ev tr -> payload tr = p ++ rest -> nul_free p ->
  (N.of_nat (length (data s) + length p) = limit)%N ->
  length tr < polls -> length p + length tr < fuel ->
  exists s' tr', receive step limit D decode polls fuel s tr = Some (ROver, s', tr')
                 /\ cap s' = limit /\ N.of_nat (length (data s')) = limit.
Proof. exact inbound_overflow. Qed.
Print Assumptions C17_inbound_overflow.

(* Inbound: every stream of frames whose total wire size is below the limit is delivered, whatever
   the sizes are relative to the growth step (this is C01's theorem; the sizes k*step-1, k*step,
   k*step+1 are instances). *)
Theorem C17_inbound_accepts :
  forall (step limit : N) (D : Type) (decode : list byte -> D), (0 < step)%N ->
  forall n fs tr tl' polls fuel,
  Forall frame_ok fs -> Forall ok_ev tr -> payload tr = wire fs ->
  (N.of_nat (length (wire fs)) < limit)%N ->
  length tr < polls -> length (wire fs) + length tr < fuel ->
  map fst (run step limit D decode n polls fuel (init step) (tr ++ Eof :: tl'))
  = firstn n (map (fun f => Msg (decode f)) fs ++ repeatn REof n).
Proof. exact framing_fresh. Qed.
Print Assumptions C17_inbound_accepts.

(* Outbound: a message is accepted exactly when document + terminator fit under the limit from
   the current position; otherwise it is refused with BufferOverflow and nothing changes below
   the position (enqueue_post spells this out); the buffer never exceeds the limit. *)
Theorem C17_outbound_accept_or_refuse :
  forall (step limit : N), (0 < step)%N -> forall K : N, limit = (K * step)%N -> (1 <= K)%N ->
  forall s bs, WInv step K s ->
  let r := enqueue step limit (N.to_nat K + 1) s (Good bs) in
  if (wpos s + N.of_nat (length bs) + 1 <=? limit)%N
  then fst r = WOk /\ wbuf (snd r) = wbuf s ++ bs ++ [0%N]
  else fst r = WOverflow /\ wbuf (snd r) = wbuf s.
Proof.
  intros step limit Hs K Hl HK s bs HI.
  exact (proj2 (proj2 (enqueue_post_K step limit Hs K Hl HK s (Good bs) HI))).
Qed.
Print Assumptions C17_outbound_accept_or_refuse.

Theorem C17_outbound_bound :
  forall (step limit : N), (0 < step)%N -> forall K : N, limit = (K * step)%N -> (1 <= K)%N ->
  forall ops s script, WInv step K s ->
  Forall (fun x => (wcap (snd x) <= limit)%N) (fst (wrun step limit (N.to_nat K + 1) s script ops)).
Proof. exact wrun_bounded. Qed.
Print Assumptions C17_outbound_bound.

(* The side conditions hold for the constants in the source, production and hook values. *)
Theorem C17_constants_production :
  (0 < BUFFER_SIZE)%N /\ MAX_BUFFER_SIZE = ((MAX_BUFFER_SIZE / BUFFER_SIZE) * BUFFER_SIZE)%N
  /\ (1 <= MAX_BUFFER_SIZE / BUFFER_SIZE)%N.
Proof.
  split; [exact step_pos|]. split.
  - pose proof step_divides_max as H. apply N.div_exact in H; [|discriminate]. rewrite N.mul_comm. exact H.
  - apply N.div_le_lower_bound; [discriminate|]. rewrite N.mul_1_r. exact step_le_max.
Qed.
Print Assumptions C17_constants_production.

Theorem C17_constants_hook :
  (0 < BUFFER_SIZE)%N /\ HOOK_MAX_BUFFER_SIZE = ((HOOK_MAX_BUFFER_SIZE / BUFFER_SIZE) * BUFFER_SIZE)%N
  /\ (1 <= HOOK_MAX_BUFFER_SIZE / BUFFER_SIZE)%N.
Proof.
  split; [exact step_pos|]. split.
  - pose proof step_divides_hook_max as H. apply N.div_exact in H; [|discriminate]. rewrite N.mul_comm. exact H.
  - apply N.div_le_lower_bound; [discriminate|]. rewrite N.mul_1_r. exact step_le_hook_max.
Qed.
Print Assumptions C17_constants_hook.

(* non-vacuity: limit 8, step 4: 8 bytes without terminator in two chunks overflow *)
Example C17_nonvacuous :
  Inv_lt 4 2 (init 4) /\
  map fst (run 4 8 (list byte) (fun f => f) 2 10 100 (init 4) [Data [1;2;3;4;5]; Pend; Data [6;7;8;9]; Eof])%N
  = [ROver; REof].
Proof.
  split; [|reflexivity].
  split; [split; [exists 1%N; cbn; repeat split; lia|cbn; lia]|cbn; lia].
Qed.
