(* C07 — receiving is cancel-safe. Only pinned statements; proofs in Framing/CancelProofs.v.
   PARTIAL by nature: the model represents a pending receive future as a value without state of
   its own (see ReadConn.drive_c); that the implementation has this shape is established by the
   correspondence run (real futures dropped at every suspension point), not by this theorem. *)
From ZV Require Import Framing.ReadConn Framing.ReadConnProofs Framing.CancelProofs.

(* For every stream of frames, every partition into chunks with any not-ready polls, and EVERY
   schedule of abandonments (after any pending poll the future may be dropped and a fresh receive
   started), the completed receives return exactly one result per frame, in order, then
   end-of-stream. *)
Theorem C07_cancel_invariance :
  forall (step limit : N) (D : Type) (decode : list byte -> D), (0 < step)%N ->
  forall n fs tr tl' fuel P sched o,
  Forall frame_ok fs -> Forall ok_ev tr -> payload tr = wire fs ->
  (N.of_nat (length (wire fs)) < limit)%N ->
  length (wire fs) + length tr < fuel -> n * (length tr + 1) <= P ->
  map fst (firstn n (drive_c step limit D decode P fuel sched o (init step) (tr ++ Eof :: tl')))
  = firstn n (map (fun f => Msg (decode f)) fs ++ repeatn REof n).
Proof. exact cancel_invariance. Qed.
Print Assumptions C07_cancel_invariance.

(* the poll-level machine with any cancellation schedule is the poll-level machine without *)
Theorem C07_schedule_irrelevant :
  forall (step limit : N) (D : Type) (decode : list byte -> D) p fuel sched o s tr,
  drive_c step limit D decode p fuel sched o s tr = drive step limit D decode p fuel s tr.
Proof. exact drive_c_drive. Qed.
Print Assumptions C07_schedule_irrelevant.

Example C07_nonvacuous :
  let fs := [[65;66]; [67]]%N in
  let tr := [Data [65]; Pend; Data [66;0]; Pend; Pend; Data [67]; Pend; Data [0]]%N in
  Forall frame_ok fs /\ Forall ok_ev tr /\ payload tr = wire fs /\
  map fst (firstn 3 (drive_c 4 64 (list byte) (fun f => f) 40 100 [true; false; true; true] Fresh
                             (init 4) (tr ++ [Eof])))
  = [Msg [65;66]; Msg [67]; REof]%N.
Proof.
  cbv zeta. repeat split.
  - repeat constructor; discriminate.
  - repeat constructor.
Qed.
