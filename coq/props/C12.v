(* C12 - pinned statements (work in progress). *)
From ZV Require Import Common.Base Proxy.Proxy Proxy.ProxyProofs.
Open Scope N_scope.

Theorem C12_stub : ser_struct [] = [].
Proof. exact ser_struct_nil. Qed.
Print Assumptions C12_stub.
