(* C14 — rendering an interface description and parsing it back is the identity.
   Only pinned statements. `render` (Idl/Idl.v) transcribes the Display impls of
   zlink-core/src/idl byte for byte, `parse_interface` (Idl/IdlParse.v) transcribes
   zlink-core/src/idl/parse/mod.rs; proofs are in Idl/IdlRoundTrip.v.

   Hypotheses (Idl/IdlExec.v, executable): `interface_wf t` — every name follows the grammar's
   regular expression for its kind; every comment on the interface, on a member and on a direct
   field / parameter / variant of a member is valid UTF-8 without line break (LF, CR) and without a
   leading blank; enums have at least one variant; no `??`; no comments INSIDE inline types (those
   are layout, not part of the property). `known_commented_enum t` is the open finding
   C14.commented_enum_variant: a custom enum with two or more variants one of which is commented. *)
From ZV Require Import Common.Base Idl.Idl Idl.IdlParse Idl.IdlExec Idl.IdlRoundTrip Idl.IdlExamples.

(* parse (render t) = t, including every comment and the order of members of each kind *)
Theorem C14_parse_render : forall t : interface,
  interface_wf t = true -> known_commented_enum t = false ->
  parse_interface (render t) = Accept t.
Proof. exact parse_render_wf. Qed.
Print Assumptions C14_parse_render.

(* render (parse (render t)) = render t *)
Theorem C14_render_parse_render : forall t t' : interface,
  interface_wf t = true -> known_commented_enum t = false ->
  parse_interface (render t) = Accept t' -> t' = t /\ render t' = render t.
Proof. exact render_parse_render. Qed.
Print Assumptions C14_render_parse_render.

(* The type-level core, for every nesting of optional / array / map / inline struct / inline enum:
   the type parser consumes exactly the rendering of a well-formed type in front of any ',' or ')'. *)
Theorem C14_type_round_trip : forall t : ty,
  ty_names_ok t && ty_wf t = true ->
  forall x, delim x -> varlink_type (render_ty t ++ x) = (Ok t, x).
Proof. intros t H x Hx. now apply varlink_type_render. Qed.
Print Assumptions C14_type_round_trip.

(* The open finding: inside the hypotheses but in the known class the statement is false — the
   rendering of custom_enum.rs's own test value is rejected by the parser (replayed on every run
   against the implementation: corpus/c14.jsonl). *)
Theorem C14_commented_enum_refuted : exists t : interface,
  interface_wf t = true /\ known_commented_enum t = true /\ parse_interface (render t) = Reject.
Proof. exists commented_enum_tree. repeat split; vm_compute; reflexivity. Qed.
Print Assumptions C14_commented_enum_refuted.

(* Non-vacuity: a description with every type constructor and every comment placement (incl. a
   single commented enum variant, an empty struct, an empty comment) satisfies the hypotheses, is
   outside the known class, and round-trips by evaluation. *)
Example C14_nonvacuous :
  interface_wf sample_tree = true /\ known_commented_enum sample_tree = false
  /\ parse_interface (render sample_tree) = Accept sample_tree.
Proof. repeat split; vm_compute; reflexivity. Qed.
