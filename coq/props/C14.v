(* C14 — rendering an interface description and parsing it back is the identity.
   Only pinned statements; proofs are in Idl/*Proofs.v. *)
From ZV Require Import Common.Base Idl.Idl Idl.IdlParse Idl.IdlExec Idl.IdlExamples.

(* Non-vacuity: a description with every type constructor and every comment placement satisfies
   the hypotheses, is outside the known class, and round-trips in the model. *)
Example C14_nonvacuous :
  interface_wf sample_tree = true /\ known_commented_enum sample_tree = false
  /\ parse_interface (render sample_tree) = Accept sample_tree.
Proof. repeat split; vm_compute; reflexivity. Qed.
