(* C14 — rendering an interface description and parsing it back is the identity.
   Only pinned statements. `render` (Idl/Idl.v) transcribes the Display impls of
   zlink-core/src/idl byte for byte, `parse_interface` (Idl/IdlParse.v) transcribes
   zlink-core/src/idl/parse/mod.rs; proofs are in Idl/IdlRoundTrip.v.

   Hypotheses (Idl/IdlExec.v, executable): `interface_wf t` — every name follows the grammar's
   regular expression for its kind; every comment on the interface, on a member and on a direct
   field / parameter / variant of a member is valid UTF-8 without line break (LF, CR) and without a
   leading blank; enums have at least one variant; no `??`; no comments INSIDE inline types (those
   are layout, not part of the property). `known_commented_enum t` is the open finding
   C14.commented_enum_variant: a custom enum with two or more variants one of which is commented. *)
From ZV Require Import Common.Base Idl.Idl Idl.IdlParse Idl.IdlExec Idl.IdlRoundTrip Idl.IdlExamples
  Idl.IdlNormal Idl.IdlDesc.

(* parse (render t) = t, including every comment and the order of members of each kind *)
Theorem C14_parse_render : forall t : interface,
  interface_wf t = true -> known_commented_enum t = false ->
  parse_interface (render t) = Accept t.
Proof. exact parse_render_wf. Qed.
Print Assumptions C14_parse_render.

(* render (parse (render t)) = render t *)
Theorem C14_render_parse_render : forall t t' : interface,
  interface_wf t = true -> known_commented_enum t = false ->
  parse_interface (render t) = Accept t' -> t' = t /\ render t' = render t.
Proof. exact render_parse_render. Qed.
Print Assumptions C14_render_parse_render.

(* The type-level core, for every nesting of optional / array / map / inline struct / inline enum:
   the type parser consumes exactly the rendering of a well-formed type in front of any ',' or ')'. *)
Theorem C14_type_round_trip : forall t : ty,
  ty_names_ok t && ty_wf t = true ->
  forall x, delim x -> varlink_type (render_ty t ++ x) = (Ok t, x).
Proof. intros t H x Hx. now apply varlink_type_render. Qed.
Print Assumptions C14_type_round_trip.

(* The same for ALL comment texts without line breaks (`interface_wf_nl`: as interface_wf, but a
   comment only has to be valid UTF-8 without LF / CR — in particular the texts the derive macros
   make from doc comments: `/// text` gives " text", a blank `///` gives ""): the parser skips the
   blanks and tabs that follow `#`, so what comes back is the NORMALISED tree (`normalise`: every
   comment of the interface, of a member and of a direct field / parameter / variant without its
   leading blanks and tabs; nothing else changes). C14_parse_render is the special case in which
   no comment starts with a blank (`C14_normalise_identity`). *)
Theorem C14_parse_render_normalised : forall t : interface,
  interface_wf_nl t = true -> known_commented_enum t = false ->
  parse_interface (render t) = Accept (normalise t).
Proof. exact parse_render_normalise_wf. Qed.
Print Assumptions C14_parse_render_normalised.

Theorem C14_normalise_identity : forall t : interface,
  interface_wf t = true -> interface_wf_nl t = true /\ normalise t = t.
Proof. exact wf_strict. Qed.
Print Assumptions C14_normalise_identity.

(* The canonical rendering is one of the legal layouts of C13_complete (of the normalised tree). *)
Theorem C14_render_is_layout : forall t : interface,
  interface_wf_nl t = true -> known_commented_enum t = false ->
  IdlComplete.Linterface (iname t) (ncs (icomments t)) (List.map nmember (members_of t)) (render t).
Proof. intros t Hw Hk. apply Linterface_render. now apply wf_nl_iface. Qed.
Print Assumptions C14_render_is_layout.

(* JSON strings: the reader (serde_json's parse_str / parse_escape: raw bytes >= 0x20 are copied, a
   backslash introduces one of the escapes quote, backslash, slash, b, f, n, r, t or uXXXX with
   surrogate pairs, the result is checked as UTF-8) inverts the printer (the reference encoding
   that json_ser.rs is proved to emit, C03) on EVERY valid UTF-8 string. *)
Theorem C14_json_string_roundtrip : forall s : list byte,
  utf8_valid s = true -> read_string (print_string s) = Some s.
Proof. exact read_print. Qed.
Print Assumptions C14_json_string_roundtrip.

(* The GetInterfaceDescription exchange: the service writes the Display string as a JSON string,
   the client reads that JSON string and parses it lazily. What the client parses is the
   (normalised) description the service had; the string in between is exactly the rendering. *)
Theorem C14_description_roundtrip : forall t : interface,
  interface_wf_nl t = true -> known_commented_enum t = false ->
  read_string (print_string (render t)) = Some (render t)
  /\ description_roundtrip t = Accept (normalise t).
Proof. exact description_roundtrip_normalise. Qed.
Print Assumptions C14_description_roundtrip.

Theorem C14_description_roundtrip_identity : forall t : interface,
  interface_wf t = true -> known_commented_enum t = false -> description_roundtrip t = Accept t.
Proof. exact description_roundtrip_id. Qed.
Print Assumptions C14_description_roundtrip_identity.

(* The open finding: inside the hypotheses but in the known class the statement is false — the
   rendering of custom_enum.rs's own test value is rejected by the parser (replayed on every run
   against the implementation: corpus/c14.jsonl). *)
Theorem C14_commented_enum_refuted : exists t : interface,
  interface_wf t = true /\ known_commented_enum t = true /\ parse_interface (render t) = Reject.
Proof. exists commented_enum_tree. repeat split; vm_compute; reflexivity. Qed.
Print Assumptions C14_commented_enum_refuted.

(* Non-vacuity: a description with every type constructor and every comment placement (incl. a
   single commented enum variant, an empty struct, an empty comment) satisfies the hypotheses, is
   outside the known class, and round-trips by evaluation. *)
Example C14_nonvacuous :
  interface_wf sample_tree = true /\ known_commented_enum sample_tree = false
  /\ parse_interface (render sample_tree) = Accept sample_tree.
Proof. repeat split; vm_compute; reflexivity. Qed.

(* Non-vacuity of the normalised form: derive-shaped comments (leading blank, empty, blank-only)
   satisfy the weaker hypotheses, are changed by normalise, and round-trip to the normal form,
   also through the JSON string. *)
Example C14_normalised_nonvacuous :
  interface_wf_nl derive_tree = true /\ interface_wf derive_tree = false
  /\ known_commented_enum derive_tree = false
  /\ interface_beq (normalise derive_tree) derive_tree = false
  /\ parse_interface (render derive_tree) = Accept (normalise derive_tree)
  /\ description_roundtrip derive_tree = Accept (normalise derive_tree).
Proof. repeat split; vm_compute; reflexivity. Qed.
