(* C11 — data borrowed from a received reply is never overwritten while still usable.
   PARTIAL and with an OPEN FINDING: the property is false of the code (reply_stream.rs:73-78
   hands out a fresh &mut borrow of the connection per item while earlier items still borrow the
   buffer).  What holds, and is proved: items stay intact across every later receive that does
   not read from the transport.  The refutation witnesses are replayed against the implementation
   on every run (evidence: known finding C11.later_item_needs_transport_read).
   Gallina can express "these bytes were rewritten / this allocation was replaced", not undefined
   behaviour itself. *)
From ZV Require Import Framing.ReadConn Framing.Borrow Framing.BorrowProofs.

(* forall histories: a step that did not read from the transport leaves every held item as it was
   (stable_chain: for each step, read = false -> the views of the items held before are unchanged) *)
Theorem C11_stable_when_no_read :
  forall (step limit : N) (D : Type) (decode : list byte -> D) n polls fuel held p tr,
  stable_chain D (map (fun b => view b p) held)
               (run_hold step limit D decode n polls fuel held p tr).
Proof. exact run_hold_stable. Qed.
Print Assumptions C11_stable_when_no_read.

(* the full property is refuted: a later reply arriving in a separate read overwrites the first *)
Theorem C11_overwritten_refuted :
  exists step limit tr,
  let out := run_hold step limit (list byte) (fun f => f) 2 5 50 [] (pinit step) tr in
  match map (fun x => snd x) out with
  | [[v1]; [v1'; _]] => v1 <> v1'
  | _ => False
  end.
Proof.
  exists 8%N, 64%N, [Data [65;66;67;0]; Data [88;89;0]; Eof]%N.
  vm_compute. discriminate.
Qed.
Print Assumptions C11_overwritten_refuted.

(* ... or frees it (the buffer grows, the Vec reallocates) *)
Theorem C11_freed_refuted :
  exists step limit tr,
  let out := run_hold step limit (list byte) (fun f => f) 2 5 50 [] (pinit step) tr in
  match map (fun x => snd x) out with
  | [[v1]; [v1'; _]] => v1 <> v1' /\ v1' = [221%N]
  | _ => False
  end.
Proof.
  exists 4%N, 64%N, [Data [65;0]; Data [66;67;68;69;0]; Eof]%N.
  vm_compute. split; [discriminate|reflexivity].
Qed.
Print Assumptions C11_freed_refuted.

Example C11_nonvacuous :
  (* three replies in ONE read: all later items come from the buffer, every view stays *)
  let out := run_hold 8 64 (list byte) (fun f => f) 3 5 50 [] (pinit 8)
               [Data [65;0;66;67;0;68;0]; Eof]%N in
  map (fun x => (snd (fst x), snd x)) out
  = [(true, [[65]]); (false, [[65]; [66;67]]); (false, [[65]; [66;67]; [68]])]%N.
Proof. vm_compute. reflexivity. Qed.
