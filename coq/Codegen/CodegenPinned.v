(* The name-relevant part of zlink-codegen/src/codegen.rs as it was at the pinned commit (before the
   repairs c08e5f3, b1b9580, e57df19, 137fbce), kept only to state what that generator did on the
   witness interface. Same abstract module and wire functions as Codegen.v. *)
From ZV Require Import Codegen.IdlTy Codegen.Names Codegen.Codegen.
Open Scope string_scope.

(* is_rust_keyword at the pinned commit: strict keywords only *)
Definition pinned_keywords : list string :=
  ["as"; "async"; "await"; "break"; "const"; "continue"; "crate"; "dyn"; "else"; "enum"; "extern";
   "false"; "fn"; "for"; "if"; "impl"; "in"; "let"; "loop"; "match"; "mod"; "move"; "mut"; "pub"; "ref";
   "return"; "self"; "Self"; "static"; "struct"; "super"; "trait"; "true"; "type"; "unsafe"; "use";
   "where"; "while"].
Definition p_kw (s : string) : bool := mem s pinned_keywords.
Definition p_safe (s : string) : string := if p_kw s then "r#" ++ s else s.

Definition p_field (f : ifield) : gfield :=
  let n := f_name f in let sn := to_snake_case n in
  {| gf_ident := p_safe sn; gf_rename := some_if (p_kw sn || negb (String.eqb sn n)) n;
     gf_ty := type_to_rust (f_ty f); gf_borrow := false |}.
Definition p_output_field (f : ifield) : gfield :=
  let n := f_name f in let sn := to_snake_case n in
  {| gf_ident := p_safe sn; gf_rename := some_if (negb (String.eqb sn n)) n;
     gf_ty := type_to_rust (f_ty f); gf_borrow := false |}.
Definition p_param (f : ifield) : gfield :=
  let n := f_name f in let id := p_safe (to_snake_case n) in
  {| gf_ident := id; gf_rename := some_if (negb (String.eqb id n)) n;
     gf_ty := type_to_rust_param (f_ty f); gf_borrow := false |}.
Definition p_method (m : imethod) : gmethod :=
  {| gm_ident := p_safe (to_snake_case (m_name m)); gm_rename := None;
     gm_params := map p_param (m_inputs m); gm_ret := "" |}.
Definition p_output_struct (m : imethod) : list gstruct :=
  match m_outputs m with
  | [] => []
  | outs => [ {| gs_name := to_pascal_case (m_name m) ++ "Output"; gs_lifetime := false;
                 gs_fields := map p_output_field outs |} ]
  end.
Fixpoint p_custom_structs (cs : list custom_ty) : list gstruct :=
  match cs with
  | [] => []
  | CObject n fs _ :: r => {| gs_name := to_pascal_case n; gs_lifetime := false; gs_fields := map p_field fs |}
                           :: p_custom_structs r
  | _ :: r => p_custom_structs r
  end.
Fixpoint p_custom_enums (cs : list custom_ty) : list genum :=
  match cs with
  | [] => []
  | CEnum n vs _ :: r =>
      {| ge_name := to_pascal_case n; ge_rename_all := Some "snake_case";
         ge_variants := map (fun v => {| gv_ident := to_pascal_case (fst v); gv_rename := None |}) vs |}
      :: p_custom_enums r
  | _ :: r => p_custom_enums r
  end.
Definition codegen_pinned (i : iface) : gmodule :=
  let tn := interface_name_to_rust (i_name i) in
  {| g_iface := i_name i; g_trait := tn; g_error_ty := tn ++ "Error";
     g_methods := map p_method (i_methods i);
     g_structs := flat_map p_output_struct (i_methods i) ++ p_custom_structs (i_types i);
     g_enums := p_custom_enums (i_types i);
     g_errors := match i_errors i with
                 | [] => None
                 | es => Some {| gerr_name := tn ++ "Error"; gerr_iface := i_name i;
                                 gerr_variants := map (fun e => {| gev_ident := to_pascal_case (e_name e);
                                                                   gev_fields := map p_field (e_fields e) |}) es |}
                 end |}.
