(* Proofs about the derive model: the regenerated table agrees with the property's mapping, and
   the derives list fields/variants in declaration order under their Rust names with doc comments. *)
From ZV Require Import Codegen.IdlTy gen.TypeTable Codegen.Derive.
Open Scope string_scope.

Lemma leaf_is_spec : forall l, leaf_row l = spec_leaf_name (leaf_name l).
Proof. intros l; destruct l; vm_compute; reflexivity. Qed.

Lemma ctor_is_spec : forall c t, apply_shape (ctor_row c) t = spec_ctor_name (ctor_name c) t.
Proof. intros c t; destruct c; vm_compute; reflexivity. Qed.

Theorem table_is_spec : forall ty, supported ty -> type_of ty = Some (spec_type ty).
Proof.
  induction ty as [l|c a IH|d|]; cbn [type_of spec_type supported]; intros Hs.
  - now rewrite leaf_is_spec.
  - rewrite (IH Hs). cbn [option_map]. now rewrite ctor_is_spec.
  - reflexivity.
  - contradiction.
Qed.

Lemma supportedb_iff t : supportedb t = true <-> supported t.
Proof.
  induction t as [l|c a IH|d|]; cbn; try tauto. split; [discriminate|contradiction].
Qed.

Theorem unsupported_rejected : forall ty, ~ supported ty -> type_of ty = None.
Proof.
  induction ty as [l|c a IH|d|]; cbn [type_of supported]; intros Hn;
    try (exfalso; apply Hn; exact I).
  - now rewrite (IH Hn).
  - reflexivity.
Qed.

Theorem fields_in_order : forall fs,
  fields_supported fs -> derive_fields fs = Some (spec_fields fs).
Proof.
  induction fs as [|f r IH]; intros Hs; [reflexivity|].
  inversion Hs as [|? ? Hf Hrs]; subst.
  cbn [derive_fields spec_fields map].
  rewrite (table_is_spec _ Hf), (IH Hrs). reflexivity.
Qed.

Theorem variants_in_order : forall vs,
  all_unit vs -> derive_variants vs = Some (map spec_variant vs).
Proof.
  induction vs as [|v r IH]; intros Hu; [reflexivity|].
  inversion Hu as [|? ? Hv Hus]; subst.
  cbn [derive_variants map]. rewrite Hv, (IH Hus). reflexivity.
Qed.

(* the number and order of entries never depends on the field types *)
Theorem fields_names_in_order : forall fs out,
  derive_fields fs = Some out -> map f_name out = map (fun f => ident_str (fd_name f)) fs
  /\ map f_comments out = map fd_docs fs.
Proof.
  induction fs as [|f r IH]; intros out H; cbn [derive_fields] in H.
  - inversion H; subst; split; reflexivity.
  - destruct (type_of (fd_ty f)) as [t|]; [|discriminate].
    destruct (derive_fields r) as [r'|]; [|discriminate].
    inversion H; subst. destruct (IH r' eq_refl) as [A B]. cbn [map]. split; f_equal; assumption.
Qed.

Theorem derive_type_struct : forall d fs,
  d_body d = DStruct fs -> fields_supported fs ->
  derive_type d = Some (TObject (spec_fields fs)).
Proof. intros d fs Hb Hs. unfold derive_type. rewrite Hb, (fields_in_order _ Hs). reflexivity. Qed.

Theorem derive_type_enum : forall d vs,
  d_body d = DEnum vs -> all_unit vs ->
  derive_type d = Some (TEnum (map spec_variant vs)).
Proof. intros d vs Hb Hu. unfold derive_type. rewrite Hb, (variants_in_order _ Hu). reflexivity. Qed.

Theorem derive_custom_struct : forall d fs,
  d_body d = DStruct fs -> fields_supported fs ->
  derive_custom d = Some (CObject (text (d_name d)) (spec_fields fs) (d_docs d), TCustom (text (d_name d))).
Proof.
  intros d fs Hb Hs. unfold derive_custom. rewrite Hb, (fields_in_order _ Hs). reflexivity.
Qed.

Theorem derive_custom_enum : forall d vs,
  d_body d = DEnum vs -> all_unit vs ->
  derive_custom d = Some (CEnum (text (d_name d)) (map spec_variant vs) (d_docs d), TCustom (text (d_name d))).
Proof.
  intros d vs Hb Hu. unfold derive_custom. rewrite Hb, (variants_in_order _ Hu). reflexivity.
Qed.

Lemma error_variant_is_spec v : variant_ok v -> derive_error_variant v = spec_error_variant v.
Proof.
  intros Hb. unfold derive_error_variant, spec_error_variant, variant_ok, ident_str in *.
  destruct (vd_body v) as [|fs|ts].
  - reflexivity.
  - now rewrite (fields_in_order _ Hb).
  - destruct ts as [|t [|t2 ts]]; try reflexivity. now rewrite (table_is_spec _ Hb).
Qed.

Theorem error_variants_in_order : forall d vs,
  d_body d = DEnum vs -> Forall variant_ok vs ->
  derive_reply_error d = spec_error_variants vs.
Proof.
  intros d vs Hb Hok. unfold derive_reply_error. rewrite Hb. clear Hb.
  induction Hok as [|v r Hv _ IH]; [reflexivity|].
  cbn [derive_error_variants spec_error_variants]. now rewrite (error_variant_is_spec _ Hv), IH.
Qed.

(* one entry per variant, in declaration order, under the variant's name *)
Theorem error_names_in_order : forall vs out,
  spec_error_variants vs = Some out -> map e_name out = map (fun v => text (vd_name v)) vs
  /\ map e_comments out = map vd_docs vs.
Proof.
  induction vs as [|v r IH]; intros out H; cbn [spec_error_variants] in H.
  - inversion H; split; reflexivity.
  - destruct (spec_error_variant v) as [e|] eqn:E; [|discriminate].
    destruct (spec_error_variants r) as [r'|]; [|discriminate]. inversion H; subst.
    destruct (IH r' eq_refl) as [A B]. cbn [map].
    assert (e_name e = text (vd_name v) /\ e_comments e = vd_docs v) as [N C].
    { unfold spec_error_variant in E. destruct (vd_body v) as [|fs|[|t [|t2 ts]]];
        try discriminate; try (inversion E; split; reflexivity).
      destruct (spec_type t); try discriminate. inversion E; split; reflexivity. }
    split; f_equal; assumption.
Qed.

(* ------------------------------------------------------------------ well-formedness *)
Lemma leaf_rows_wf : forall l, varlink_wf (leaf_row l) = true.
Proof. intros l; destruct l; vm_compute; reflexivity. Qed.

Lemma wf_optional d : varlink_wf d = true -> (forall x, d <> TOptional x) -> varlink_wf (TOptional d) = true.
Proof. intros W N. destruct d; cbn [varlink_wf] in *; try exact W; try reflexivity. exfalso. now apply (N d). Qed.

Theorem descriptions_wellformed : forall ty,
  supported ty -> nested_option ty = false -> users_wf ty = true ->
  exists d, type_of ty = Some d /\ varlink_wf d = true.
Proof.
  induction ty as [l|c a IH|d|]; cbn [supported nested_option users_wf type_of]; intros S N U.
  - exists (leaf_row l). split; [reflexivity|apply leaf_rows_wf].
  - apply orb_false_elim in N as [N1 N2]. destruct (IH S N2 U) as [d [T W]].
    rewrite T. cbn [option_map]. exists (apply_shape (ctor_row c) d). split; [reflexivity|].
    destruct (ctor_row c); cbn [apply_shape]; try exact W.
    apply wf_optional; [exact W|]. intros x E. subst d.
    unfold describes_optional in N1. rewrite T in N1. discriminate.
  - exists d. split; [reflexivity|exact U].
  - contradiction.
Qed.
