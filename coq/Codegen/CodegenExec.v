(* Correspondence drivers for the code generator model.
   sweep_check: heck model vs the identifiers the real generator derived from a name.
   gen_check:   abstract module parsed from the generated text vs the model's module (bit 0), and
                the wire names that module leads to vs the IDL's names (bit 1).
   run_check:   names observed at run time (frames sent by the compiled proxies, replies/errors/
                enum values decoded by the compiled types) vs the names predicted from the parsed
                module by the macro/serde model (bit 0) and vs the IDL's names (bit 1). *)
From ZV Require Import Common.Exec Codegen.IdlTy Codegen.Names gen.Keywords Codegen.Codegen.
Open Scope string_scope.

(* ---- heck sweep ---- *)
Record sweep_case := { sw_name : string; sw_snake : string; sw_pascal : string }.
Definition sweep_check (c : sweep_case) : N :=
  ((if String.eqb (to_snake_case (sw_name c)) (sw_snake c) then 0 else 1) +
   (if String.eqb (to_pascal_case (sw_name c)) (sw_pascal c) then 0 else 2))%N.

(* ---- equality of abstract modules ---- *)
Definition ostr_eqb := option_eqb String.eqb.
Definition gfield_eqb (a b : gfield) : bool :=
  String.eqb (gf_ident a) (gf_ident b) && ostr_eqb (gf_rename a) (gf_rename b) &&
  String.eqb (gf_ty a) (gf_ty b) && Bool.eqb (gf_borrow a) (gf_borrow b).
Definition gmethod_eqb (a b : gmethod) : bool :=
  String.eqb (gm_ident a) (gm_ident b) && ostr_eqb (gm_rename a) (gm_rename b) &&
  list_eqb gfield_eqb (gm_params a) (gm_params b) && String.eqb (gm_ret a) (gm_ret b).
Definition gstruct_eqb (a b : gstruct) : bool :=
  String.eqb (gs_name a) (gs_name b) && Bool.eqb (gs_lifetime a) (gs_lifetime b) &&
  list_eqb gfield_eqb (gs_fields a) (gs_fields b).
Definition gvariant_eqb (a b : gvariant) : bool :=
  String.eqb (gv_ident a) (gv_ident b) && ostr_eqb (gv_rename a) (gv_rename b).
Definition genum_eqb (a b : genum) : bool :=
  String.eqb (ge_name a) (ge_name b) && ostr_eqb (ge_rename_all a) (ge_rename_all b) &&
  list_eqb gvariant_eqb (ge_variants a) (ge_variants b).
Definition gevariant_eqb (a b : gevariant) : bool :=
  String.eqb (gev_ident a) (gev_ident b) && list_eqb gfield_eqb (gev_fields a) (gev_fields b).
Definition gerrors_eqb (a b : gerrors) : bool :=
  String.eqb (gerr_name a) (gerr_name b) && String.eqb (gerr_iface a) (gerr_iface b) &&
  list_eqb gevariant_eqb (gerr_variants a) (gerr_variants b).
Definition gmodule_eqb (a b : gmodule) : bool :=
  String.eqb (g_iface a) (g_iface b) && String.eqb (g_trait a) (g_trait b) &&
  String.eqb (g_error_ty a) (g_error_ty b) &&
  list_eqb gmethod_eqb (g_methods a) (g_methods b) &&
  list_eqb gstruct_eqb (g_structs a) (g_structs b) &&
  list_eqb genum_eqb (g_enums a) (g_enums b) &&
  option_eqb gerrors_eqb (g_errors a) (g_errors b).

(* ---- generated text vs model ---- *)
Record gen_case := { gc_iface : iface; gc_module : gmodule (* parsed from the generated text *) }.
Definition gen_check (c : gen_case) : N :=
  ((if gmodule_eqb (gc_module c) (codegen (gc_iface c)) then 0 else 1) +
   (if wire_names_ok (gc_iface c) (gc_module c) then 0 else 2))%N.

(* ---- run time vs model ---- *)
(* observed at run time, per interface:
     ro_calls:   per method (declaration order): the "method" string of the frame and the member
                 names of its "parameters" object in the order written
     ro_structs: per output struct / custom object (module order): the member names serialised by
                 the compiled type for a value decoded from a JSON object spelled as in the IDL
                 (None: that JSON object was not accepted)
     ro_enums:   per custom enum: for every IDL value, the string the compiled type serialises after
                 decoding that value (None: not accepted)
     ro_errors:  per error: the "error" string and parameter names the compiled error type
                 serialises after decoding an error reply spelled as in the IDL (None: not matched) *)
Record run_obs := {
  ro_calls : list (string * list string);
  ro_structs : list (option (list string));
  ro_enums : list (list (option string));
  ro_errors : list (option (string * list string))
}.
Record run_case := { rc_iface : iface; rc_module : gmodule; rc_obs : run_obs }.

Definition pair_eqb {A B} (ea : A -> A -> bool) (eb : B -> B -> bool) (x y : A * B) : bool :=
  ea (fst x) (fst y) && eb (snd x) (snd y).

(* what the macro/serde model predicts for the parsed module *)
Definition predict_calls (g : gmodule) : list (string * list string) :=
  map (fun m => (wire_method g m, map wire_param (gm_params m))) (g_methods g).
(* a decode of IDL-spelled JSON succeeds iff every member the type requires is present under the
   name serde expects; the model predicts the serialised names, and acceptance when they are the
   IDL's names *)
Definition predict_struct (fs : list ifield) (s : gstruct) : option (list string) :=
  let w := map wire_serde_field (gs_fields s) in
  if strs_eqb w (map f_name fs) then Some w else None.
Fixpoint predict_structs (fss : list (list ifield)) (ss : list gstruct) : list (option (list string)) :=
  match fss, ss with
  | fs :: r, s :: r' => predict_struct fs s :: predict_structs r r'
  | _, _ => []
  end.
Definition predict_enum (vs : list ivariant) (e : genum) : list (option string) :=
  let ws := map (wire_variant e) (ge_variants e) in
  map (fun v => if mem (fst v) ws then Some (fst v) else None) vs.
Fixpoint predict_enums (vss : list (list ivariant)) (es : list genum) : list (list (option string)) :=
  match vss, es with
  | vs :: r, e :: r' => predict_enum vs e :: predict_enums r r'
  | _, _ => []
  end.
Definition find_variant (ge : gerrors) (wire : string) : option gevariant :=
  find (fun v => String.eqb (wire_error ge v) wire) (gerr_variants ge).
Definition predict_error (iname : string) (g : gmodule) (e : ierror) : option (string * list string) :=
  match g_errors g with
  | None => None
  | Some ge =>
      match find_variant ge (iname ++ "." ++ e_name e) with
      | None => None
      | Some v => let w := map wire_error_field (gev_fields v) in
                  if strs_eqb w (map f_name (e_fields e)) then Some (iname ++ "." ++ e_name e, w) else None
      end
  end.

Definition predict (i : iface) (g : gmodule) : run_obs :=
  {| ro_calls := predict_calls g;
     ro_structs := predict_structs (idl_struct_fields i) (g_structs g);
     ro_enums := predict_enums (map snd (custom_enums (i_types i))) (g_enums g);
     ro_errors := map (predict_error (i_name i) g) (i_errors i) |}.

(* what the property asks for: the IDL's own names everywhere, everything accepted *)
Definition spec_obs (i : iface) : run_obs :=
  {| ro_calls := map (fun m => (i_name i ++ "." ++ m_name m, map f_name (m_inputs m))) (i_methods i);
     ro_structs := map (fun fs => Some (map f_name fs)) (idl_struct_fields i);
     ro_enums := map (fun vs => map (fun v => Some (fst v)) vs) (map snd (custom_enums (i_types i)));
     ro_errors := map (fun e => Some (i_name i ++ "." ++ e_name e, map f_name (e_fields e))) (i_errors i) |}.

Definition run_obs_eqb (a b : run_obs) : bool :=
  list_eqb (pair_eqb String.eqb strs_eqb) (ro_calls a) (ro_calls b) &&
  list_eqb (option_eqb strs_eqb) (ro_structs a) (ro_structs b) &&
  list_eqb (list_eqb (option_eqb String.eqb)) (ro_enums a) (ro_enums b) &&
  list_eqb (option_eqb (pair_eqb String.eqb strs_eqb)) (ro_errors a) (ro_errors b).

Definition run_check (c : run_case) : N :=
  ((if run_obs_eqb (rc_obs c) (predict (rc_iface c) (rc_module c)) then 0 else 1) +
   (if run_obs_eqb (rc_obs c) (spec_obs (rc_iface c)) then 0 else 2))%N.
