(* The IDL description tree of zlink-core/src/idl (type/mod.rs:11-35, field.rs:9-17,
   enum_variant.rs:8-14, custom_object.rs:11-18, custom_enum.rs:11-18, error.rs:11-18,
   method.rs:11-20, interface.rs:14-25) as plain Coq data, with boolean equalities used by the
   correspondence drivers. Names and comments are Coq strings (bytes). *)
From Coq Require Export String List Bool Ascii NArith.
Export ListNotations.
Open Scope string_scope.

Definition comments := list string.
Definition ivariant := (string * comments)%type.          (* EnumVariant: name, comments *)

(* idl::Type. A field is (name, type, comments). *)
Inductive idl_ty :=
| TBool | TInt | TFloat | TString | TForeign
| TOptional (t : idl_ty)
| TArray (t : idl_ty)
| TMap (t : idl_ty)
| TCustom (name : string)
| TEnum (vs : list ivariant)
| TObject (fs : list (string * idl_ty * comments)).

Definition ifield := (string * idl_ty * comments)%type.
Definition f_name (f : ifield) : string := fst (fst f).
Definition f_ty (f : ifield) : idl_ty := snd (fst f).
Definition f_comments (f : ifield) : comments := snd f.

(* idl::CustomType *)
Inductive custom_ty :=
| CObject (name : string) (fs : list ifield) (cs : comments)
| CEnum (name : string) (vs : list ivariant) (cs : comments).

(* idl::Error and idl::Method *)
Record ierror := { e_name : string; e_fields : list ifield; e_comments : comments }.
Record imethod := { m_name : string; m_inputs : list ifield; m_outputs : list ifield;
                    m_comments : comments }.
Record iface := { i_name : string; i_methods : list imethod; i_types : list custom_ty;
                  i_errors : list ierror; i_comments : comments }.

(* how an `impl Type for F<T>` row builds its TYPE from T::TYPE *)
Inductive shape := ShOptional | ShArray | ShMap | ShTransparent.
Definition apply_shape (s : shape) (t : idl_ty) : idl_ty :=
  match s with
  | ShOptional => TOptional t
  | ShArray => TArray t
  | ShMap => TMap t
  | ShTransparent => t
  end.

(* ---- boolean equalities ---- *)
Fixpoint list_eqb {A} (eqb : A -> A -> bool) (a b : list A) : bool :=
  match a, b with
  | [], [] => true
  | x :: a', y :: b' => eqb x y && list_eqb eqb a' b'
  | _, _ => false
  end.

Definition comments_eqb := list_eqb String.eqb.
Definition ivariant_eqb (a b : ivariant) : bool :=
  String.eqb (fst a) (fst b) && comments_eqb (snd a) (snd b).

Fixpoint idl_eqb (a b : idl_ty) : bool :=
  match a, b with
  | TBool, TBool | TInt, TInt | TFloat, TFloat | TString, TString | TForeign, TForeign => true
  | TOptional x, TOptional y | TArray x, TArray y | TMap x, TMap y => idl_eqb x y
  | TCustom n, TCustom m => String.eqb n m
  | TEnum va, TEnum vb => list_eqb ivariant_eqb va vb
  | TObject fa, TObject fb =>
      (fix go (fa fb : list (string * idl_ty * comments)) : bool :=
         match fa, fb with
         | [], [] => true
         | x :: ra, y :: rb =>
             let '(n, t, c) := x in
             let '(n', t', c') := y in
             String.eqb n n' && idl_eqb t t' && comments_eqb c c' && go ra rb
         | _, _ => false
         end) fa fb
  | _, _ => false
  end.

Definition ifield_eqb (a b : ifield) : bool :=
  String.eqb (f_name a) (f_name b) && idl_eqb (f_ty a) (f_ty b) &&
  comments_eqb (f_comments a) (f_comments b).

Definition custom_eqb (a b : custom_ty) : bool :=
  match a, b with
  | CObject n f c, CObject n' f' c' =>
      String.eqb n n' && list_eqb ifield_eqb f f' && comments_eqb c c'
  | CEnum n v c, CEnum n' v' c' =>
      String.eqb n n' && list_eqb ivariant_eqb v v' && comments_eqb c c'
  | _, _ => false
  end.

Definition ierror_eqb (a b : ierror) : bool :=
  String.eqb (e_name a) (e_name b) && list_eqb ifield_eqb (e_fields a) (e_fields b) &&
  comments_eqb (e_comments a) (e_comments b).

Definition option_eqb {A} (eqb : A -> A -> bool) (a b : option A) : bool :=
  match a, b with
  | Some x, Some y => eqb x y
  | None, None => true
  | _, _ => false
  end.

(* soundness of the equalities (so that a 0 from a driver really means "equal") *)
Lemma list_eqb_sound {A} (eqb : A -> A -> bool) :
  (forall x y, eqb x y = true -> x = y) ->
  forall a b, list_eqb eqb a b = true -> a = b.
Proof.
  intros H a; induction a as [|x a IH]; intros [|y b] E; cbn in E; try discriminate; auto.
  apply andb_prop in E as [E1 E2]. f_equal; auto.
Qed.

Lemma comments_eqb_sound a b : comments_eqb a b = true -> a = b.
Proof. apply list_eqb_sound. intros x y; apply String.eqb_eq. Qed.

Lemma ivariant_eqb_sound a b : ivariant_eqb a b = true -> a = b.
Proof.
  destruct a as [n c], b as [n' c']; unfold ivariant_eqb; cbn; intros E.
  apply andb_prop in E as [E1 E2]. apply String.eqb_eq in E1. apply comments_eqb_sound in E2.
  congruence.
Qed.
