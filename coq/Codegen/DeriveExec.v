(* Correspondence driver for the derive model: a case carries a declaration (as a term) and what
   the compiled derive produced for it; check compares implementation, model and spec. *)
From ZV Require Import Common.Exec Codegen.IdlTy gen.TypeTable Codegen.Derive.
Open Scope string_scope.

Inductive derive_kind := KType | KCustom | KError.

Record dcase := {
  dc_decl : decl;
  dc_kind : derive_kind;
  dc_type : option idl_ty;            (* impl: <T as Type>::TYPE, when the kind provides it *)
  dc_custom : option custom_ty;       (* impl: <T as CustomType>::CUSTOM_TYPE *)
  dc_variants : option (list ierror)  (* impl: <T as ReplyError>::VARIANTS *)
}.

(* the description the property asks for (None: the declaration has no description) *)
Definition all_unitb (vs : list vdecl) : bool :=
  forallb (fun v => match vd_body v with VUnit => true | _ => false end) vs.

Definition fields_supportedb (fs : list fdecl) : bool := forallb (fun f => supportedb (fd_ty f)) fs.
Definition variant_supportedb (v : vdecl) : bool :=
  match vd_body v with
  | VUnit => true
  | VNamed fs => fields_supportedb fs
  | VTuple ts => forallb supportedb ts
  end.

(* a declaration mentioning a type without a Type impl has no description (it does not compile) *)
Definition spec_decl_type (d : decl) : option idl_ty :=
  match d_body d with
  | DStruct fs => if fields_supportedb fs then Some (TObject (spec_fields fs)) else None
  | DUnitStruct => Some (TObject [])
  | DEnum vs => if all_unitb vs then Some (TEnum (map spec_variant vs)) else None
  | _ => None
  end.

Definition spec_decl_custom (d : decl) : option custom_ty :=
  match d_body d with
  | DStruct fs => if fields_supportedb fs then Some (CObject (text (d_name d)) (spec_fields fs) (d_docs d))
                  else None
  | DUnitStruct => Some (CObject (text (d_name d)) [] (d_docs d))
  | DEnum vs => if all_unitb vs then Some (CEnum (text (d_name d)) (map spec_variant vs) (d_docs d))
                else None
  | _ => None
  end.

Definition spec_decl_errors (d : decl) : option (list ierror) :=
  match d_body d with
  | DEnum vs => if forallb variant_supportedb vs then spec_error_variants vs else None
  | _ => None
  end.

Record outcome := { o_type : option idl_ty; o_custom : option custom_ty;
                    o_variants : option (list ierror) }.

Definition model_outcome (c : dcase) : outcome :=
  match dc_kind c with
  | KType => {| o_type := derive_type (dc_decl c); o_custom := None; o_variants := None |}
  | KCustom => {| o_type := option_map snd (derive_custom (dc_decl c));
                  o_custom := option_map fst (derive_custom (dc_decl c)); o_variants := None |}
  | KError => {| o_type := None; o_custom := None; o_variants := derive_reply_error (dc_decl c) |}
  end.

Definition spec_outcome (c : dcase) : outcome :=
  match dc_kind c with
  | KType => {| o_type := spec_decl_type (dc_decl c); o_custom := None; o_variants := None |}
  | KCustom => {| o_type := option_map (fun _ => TCustom (text (d_name (dc_decl c))))
                                       (spec_decl_custom (dc_decl c));
                  o_custom := spec_decl_custom (dc_decl c); o_variants := None |}
  | KError => {| o_type := None; o_custom := None; o_variants := spec_decl_errors (dc_decl c) |}
  end.

Definition impl_outcome (c : dcase) : outcome :=
  {| o_type := dc_type c; o_custom := dc_custom c; o_variants := dc_variants c |}.

Definition outcome_eqb (a b : outcome) : bool :=
  option_eqb idl_eqb (o_type a) (o_type b) &&
  option_eqb custom_eqb (o_custom a) (o_custom b) &&
  option_eqb (list_eqb ierror_eqb) (o_variants a) (o_variants b).

(* 0 = implementation, model and spec agree; bit 0 = implementation differs from the model;
   bit 1 = implementation differs from the spec *)
Definition check (c : dcase) : N :=
  ((if outcome_eqb (impl_outcome c) (model_outcome c) then 0 else 1) +
   (if outcome_eqb (impl_outcome c) (spec_outcome c) then 0 else 2))%N.
