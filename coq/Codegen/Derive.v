(* Model of the introspection derives of zlink-macros (src/introspect/{shared,type,custom_type,
   reply_error}.rs) over an abstract Rust declaration, and the property's own mapping (spec).
   The std rows come from the GENERATED table gen/TypeTable.v. No proofs here. *)
From ZV Require Import Codegen.IdlTy gen.TypeTable.
Open Scope string_scope.

(* ------------------------------------------------------------------ declarations *)
(* A Rust identifier as the derive sees it: `r#type` is {raw := true; text := "type"}. *)
Record ident := { raw : bool; text : string }.
Definition id_ (s : string) : ident := {| raw := false; text := s |}.
Definition rid (s : string) : ident := {| raw := true; text := s |}.

(* What the macros put into the description for an identifier: shared.rs:37 (fields), shared.rs:88
   (enum variants), custom_type.rs:22 (type name), reply_error.rs:63 (error variants) all use
   `ident.unraw().to_string()`: the name the identifier stands for, without the r# escape. *)
Definition ident_str (i : ident) : string := text i.

Record fdecl := { fd_name : ident; fd_ty : rust_ty; fd_docs : list string }.
Inductive vbody := VUnit | VNamed (fs : list fdecl) | VTuple (ts : list rust_ty).
Record vdecl := { vd_name : ident; vd_docs : list string; vd_body : vbody }.
Inductive dbody :=
| DStruct (fs : list fdecl)          (* struct S { a: A, ... } *)
| DUnitStruct                         (* struct S; *)
| DTupleStruct (ts : list rust_ty)    (* struct S(A, B); *)
| DEnum (vs : list vdecl)
| DUnion.
Record decl := { d_name : ident; d_docs : list string; d_body : dbody }.

(* ------------------------------------------------------------------ the derives *)
(* None = the derive returns a compile error (or the emitted constant fails to evaluate). *)

(* shared.rs:20-83 generate_field_definitions, Fields::Named branch: one Field per field, in
   declaration order, name = ident string, type = <T as Type>::TYPE, comments = doc attributes
   (utils.rs:52-75: one comment per #[doc = "..."]). A field type without Type impl does not
   compile. *)
Fixpoint derive_fields (fs : list fdecl) : option (list ifield) :=
  match fs with
  | [] => Some []
  | f :: r =>
      match type_of (fd_ty f), derive_fields r with
      | Some t, Some r' => Some ((ident_str (fd_name f), t, fd_docs f) :: r')
      | _, _ => None
      end
  end.

(* shared.rs:86-122 generate_enum_variant_definitions: unit variants only *)
Fixpoint derive_variants (vs : list vdecl) : option (list ivariant) :=
  match vs with
  | [] => Some []
  | v :: r =>
      match vd_body v, derive_variants r with
      | VUnit, Some r' => Some ((ident_str (vd_name v), vd_docs v) :: r')
      | _, _ => None
      end
  end.

(* type.rs:19-69 *)
Definition derive_type (d : decl) : option idl_ty :=
  match d_body d with
  | DStruct fs => option_map TObject (derive_fields fs)
  | DUnitStruct => Some (TObject [])                       (* shared.rs:78-81 Fields::Unit *)
  | DTupleStruct _ => None                                 (* shared.rs:73-76 *)
  | DEnum vs => option_map TEnum (derive_variants vs)
  | DUnion => None
  end.

(* custom_type.rs:19-86: CUSTOM_TYPE, and TYPE = Custom(name) *)
Definition derive_custom (d : decl) : option (custom_ty * idl_ty) :=
  let n := ident_str (d_name d) in
  match d_body d with
  | DStruct fs => option_map (fun f => (CObject n f (d_docs d), TCustom n)) (derive_fields fs)
  | DUnitStruct => Some (CObject n [] (d_docs d), TCustom n)
  | DTupleStruct _ => None
  | DEnum vs => option_map (fun v => (CEnum n v (d_docs d), TCustom n)) (derive_variants vs)
  | DUnion => None
  end.

(* introspect/reply_error.rs:52-126 generate_error_definitions *)
Definition derive_error_variant (v : vdecl) : option ierror :=
  let n := ident_str (vd_name v) in
  match vd_body v with
  | VUnit => Some {| e_name := n; e_fields := []; e_comments := vd_docs v |}
  | VNamed fs =>
      option_map (fun f => {| e_name := n; e_fields := f; e_comments := vd_docs v |})
                 (derive_fields fs)
  | VTuple [t] =>
      (* :91-117 the single field's TYPE must be an Object; its fields become the error's (the
         comments are hoisted into a constant of their own, so documented variants compile) *)
      match type_of t with
      | Some (TObject f) => Some {| e_name := n; e_fields := f; e_comments := vd_docs v |}
      | _ => None
      end
  | VTuple _ => None                                        (* :84-89 *)
  end.

Fixpoint derive_error_variants (vs : list vdecl) : option (list ierror) :=
  match vs with
  | [] => Some []
  | v :: r =>
      match derive_error_variant v, derive_error_variants r with
      | Some e, Some r' => Some (e :: r')
      | _, _ => None
      end
  end.

Definition derive_reply_error (d : decl) : option (list ierror) :=
  match d_body d with
  | DEnum vs => derive_error_variants vs
  | _ => None                                               (* :40-51 *)
  end.

(* a field whose type is another user-defined type: its TYPE is whatever that type's own derive
   produced (Type derive: the inline description; CustomType derive: Custom(name)) *)
Definition user_type (d : decl) : rust_ty :=
  match derive_type d with Some t => RUser t | None => RUnsupported end.
Definition user_custom (d : decl) : rust_ty :=
  match derive_custom d with Some (_, t) => RUser t | None => RUnsupported end.

(* ------------------------------------------------------------------ the property (spec) *)
(* C16: "integers to int, floats to float, strings and chars to string, Option to ?, sequences and
   sets to [], string-keyed maps to [string], unit to the empty object, custom types by name".
   The classes are stated over RUST TYPE NAMES, independently of the table. *)
Definition mem (s : string) (l : list string) : bool := existsb (String.eqb s) l.

Definition integers := ["i8"; "i16"; "i32"; "i64"; "i128"; "u8"; "u16"; "u32"; "u64"; "u128";
                        "isize"; "usize"].
Definition floats := ["f32"; "f64"].
Definition strings_and_chars := ["String"; "&str"; "str"; "char"].
(* Beyond the statement (pinned as the documented intent of type/special.rs and external.rs):
   text-like std/external values are strings, durations and time points are floats (seconds),
   chrono's Duration is an integer, serde_json::Value is the foreign object. *)
Definition text_like := ["std::path::PathBuf"; "std::path::Path"; "std::ffi::OsString";
  "std::ffi::OsStr"; "core::net::IpAddr"; "core::net::Ipv4Addr"; "core::net::Ipv6Addr";
  "core::net::SocketAddr"; "core::net::SocketAddrV4"; "core::net::SocketAddrV6"; "uuid::Uuid";
  "url::Url"; "bytes::Bytes"; "bytes::BytesMut"; "chrono::NaiveDate"; "chrono::NaiveTime";
  "chrono::NaiveDateTime"; "chrono::DateTime<Tz>"; "time::Date"; "time::Time";
  "time::PrimitiveDateTime"; "time::OffsetDateTime"].
Definition seconds_like := ["core::time::Duration"; "std::time::Instant"; "std::time::SystemTime";
  "time::Duration"].

Definition spec_leaf_name (n : string) : idl_ty :=
  if String.eqb n "bool" then TBool
  else if mem n integers then TInt
  else if mem n floats then TFloat
  else if mem n strings_and_chars then TString
  else if String.eqb n "()" then TObject []
  else if String.eqb n "serde_json::Value" then TForeign
  else if mem n text_like then TString
  else if mem n seconds_like then TFloat
  else if String.eqb n "chrono::Duration" then TInt
  else TCustom "?unclassified leaf".

Definition sequences_and_sets := ["Vec<_>"; "&[_]"; "[_;N]"; "VecDeque<_>"; "HashSet<_>";
  "BTreeSet<_>"; "indexmap::IndexSet<_>"].
Definition string_keyed_maps := ["HashMap<String,_>"; "HashMap<&str,_>"; "BTreeMap<String,_>";
  "BTreeMap<&str,_>"; "indexmap::IndexMap<String,_>"; "indexmap::IndexMap<&str,_>"].
Definition transparent_wrappers := ["Box<_>"; "std::rc::Rc<_>"; "std::sync::Arc<_>";
  "std::cell::Cell<_>"; "std::cell::RefCell<_>"; "std::borrow::Cow<'_,_>"].

Definition spec_ctor_name (n : string) (inner : idl_ty) : idl_ty :=
  if String.eqb n "Option<_>" then TOptional inner
  else if mem n sequences_and_sets then TArray inner
  else if mem n string_keyed_maps then TMap inner
  else if mem n transparent_wrappers then inner
  else TCustom "?unclassified constructor".

Fixpoint spec_type (t : rust_ty) : idl_ty :=
  match t with
  | RLeaf l => spec_leaf_name (leaf_name l)
  | RApp c a => spec_ctor_name (ctor_name c) (spec_type a)
  | RUser d => d                       (* custom types by name / by their own description *)
  | RUnsupported => TCustom "?unsupported"
  end.

Fixpoint supported (t : rust_ty) : Prop :=
  match t with
  | RLeaf _ | RUser _ => True
  | RApp _ a => supported a
  | RUnsupported => False
  end.

Fixpoint supportedb (t : rust_ty) : bool :=
  match t with
  | RLeaf _ | RUser _ => true
  | RApp _ a => supportedb a
  | RUnsupported => false
  end.

(* the description the property asks for: exactly the fields, in declaration order, under their
   Rust names (the name proper, without the r# escape), with the spec type and the doc comments *)
Definition spec_field (f : fdecl) : ifield := (text (fd_name f), spec_type (fd_ty f), fd_docs f).
Definition spec_fields (fs : list fdecl) : list ifield := map spec_field fs.
Definition spec_variant (v : vdecl) : ivariant := (text (vd_name v), vd_docs v).

Definition all_unit (vs : list vdecl) : Prop :=
  Forall (fun v => vd_body v = VUnit) vs.
Definition fields_supported (fs : list fdecl) : Prop :=
  Forall (fun f => supported (fd_ty f)) fs.

Definition spec_error_variant (v : vdecl) : option ierror :=
  match vd_body v with
  | VUnit => Some {| e_name := text (vd_name v); e_fields := []; e_comments := vd_docs v |}
  | VNamed fs => Some {| e_name := text (vd_name v); e_fields := spec_fields fs;
                         e_comments := vd_docs v |}
  | VTuple [t] => match spec_type t with
                  | TObject f => Some {| e_name := text (vd_name v); e_fields := f;
                                         e_comments := vd_docs v |}
                  | _ => None
                  end
  | VTuple _ => None
  end.

Fixpoint spec_error_variants (vs : list vdecl) : option (list ierror) :=
  match vs with
  | [] => Some []
  | v :: r => match spec_error_variant v, spec_error_variants r with
              | Some e, Some r' => Some (e :: r')
              | _, _ => None
              end
  end.

Definition variant_ok (v : vdecl) : Prop :=
  match vd_body v with
  | VUnit => True
  | VNamed fs => fields_supported fs
  | VTuple [t] => supported t
  | VTuple _ => True
  end.

(* ------------------------------------------------------------------ well-formed Varlink types *)
(* The IDL grammar has no nested optional: ??T is not a Varlink type. *)
Fixpoint varlink_wf (t : idl_ty) : bool :=
  match t with
  | TOptional x => match x with TOptional _ => false | _ => varlink_wf x end
  | TArray x | TMap x => varlink_wf x
  | TObject fs =>
      (fix go (fs : list (string * idl_ty * comments)) : bool :=
         match fs with
         | [] => true
         | x :: r => let '(_, t, _) := x in varlink_wf t && go r
         end) fs
  | _ => true
  end.

(* Known class (open finding C16.nested_option_roundtrip): an Option row applied, possibly through
   transparent wrappers, to a type that is itself described as optional *)
Definition describes_optional (t : rust_ty) : bool :=
  match type_of t with Some (TOptional _) => true | _ => false end.
Fixpoint nested_option (t : rust_ty) : bool :=
  match t with
  | RApp c a => (match ctor_row c with ShOptional => describes_optional a | _ => false end) || nested_option a
  | _ => false
  end.
Fixpoint users_wf (t : rust_ty) : bool :=
  match t with
  | RUser d => varlink_wf d
  | RApp _ a => users_wf a
  | _ => true
  end.
