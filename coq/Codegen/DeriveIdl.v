(* C16, round trip: an interface ASSEMBLED from derived descriptions (the way
   zlink-core/src/varlink_service/mod.rs:26-60 assembles DESCRIPTION: methods from the object
   descriptions of parameter structs, custom types from CUSTOM_TYPE, errors from VARIANTS) satisfies the
   hypotheses of the IDL family's round-trip theorem (Idl/IdlNormal.v parse_render_normalise_wf, the
   generalisation of C14_parse_render to comment texts with leading blanks, which is what `/// text`
   produces), outside the Known classes of C16. Bridge: IdlTy (strings) -> Idl (bytes). *)
From ZV Require Import Codegen.IdlTy gen.TypeTable Codegen.Derive Codegen.DeriveProofs.
From ZV Require Idl.Idl Idl.IdlParse Idl.IdlExec Idl.IdlRoundTrip Idl.IdlNormal.
Module I := ZV.Idl.Idl.
Module IP := ZV.Idl.IdlParse.
Module IE := ZV.Idl.IdlExec.
Module IN := ZV.Idl.IdlNormal.
Open Scope string_scope.

(* ------------------------------------------------------------------ bridge *)
Definition cms (c : comments) : list I.comment := map I.bs c.
Definition conv_variant (v : ivariant) : I.variant := I.mkVariant (I.bs (fst v)) (cms (snd v)).

Fixpoint conv_ty (t : idl_ty) : I.ty :=
  match t with
  | TBool => I.TPrim I.PBool | TInt => I.TPrim I.PInt | TFloat => I.TPrim I.PFloat
  | TString => I.TPrim I.PString | TForeign => I.TPrim I.PObject
  | TOptional x => I.TOpt (conv_ty x)
  | TArray x => I.TArr (conv_ty x)
  | TMap x => I.TMap (conv_ty x)
  | TCustom n => I.TCustom (I.bs n)
  | TEnum vs => I.TEnum (map conv_variant vs)
  | TObject fs =>
      I.TStruct ((fix go (fs : list (string * idl_ty * comments)) : list I.field :=
                    match fs with
                    | [] => []
                    | x :: r => let '(n, t, c) := x in I.mkField (I.bs n) (conv_ty t) (cms c) :: go r
                    end) fs)
  end.

Definition conv_field (f : ifield) : I.field :=
  I.mkField (I.bs (f_name f)) (conv_ty (f_ty f)) (cms (f_comments f)).
Definition conv_custom (c : custom_ty) : I.custom :=
  match c with
  | CObject n fs c' => I.CObject (I.bs n) (map conv_field fs) (cms c')
  | CEnum n vs c' => I.CEnum (I.bs n) (map conv_variant vs) (cms c')
  end.
Definition conv_error (e : ierror) : I.error :=
  I.mkError (I.bs (e_name e)) (map conv_field (e_fields e)) (cms (e_comments e)).
Definition conv_method (m : imethod) : I.method :=
  I.mkMethod (I.bs (m_name m)) (map conv_field (m_inputs m)) (map conv_field (m_outputs m)) (cms (m_comments m)).
Definition to_idl (i : iface) : I.interface :=
  I.mkInterface (I.bs (i_name i)) (map conv_method (i_methods i)) (map conv_custom (i_types i))
                (map conv_error (i_errors i)) (cms (i_comments i)).

(* ------------------------------------------------------------------ assembling an interface *)
Record massembly := { ma_name : string; ma_in : decl; ma_out : decl; ma_docs : list string }.
Record assembly := { a_name : string; a_docs : list string; a_customs : list decl;
                     a_methods : list massembly; a_errors : option decl }.

Fixpoint omap {A B} (f : A -> option B) (l : list A) : option (list B) :=
  match l with
  | [] => Some []
  | x :: r => match f x, omap f r with Some y, Some r' => Some (y :: r') | _, _ => None end
  end.

(* `Info::TYPE.as_object().unwrap()`: the description must be an object *)
Definition params_of (d : decl) : option (list ifield) :=
  match derive_type d with Some (TObject fs) => Some fs | _ => None end.
Definition assemble_method (m : massembly) : option imethod :=
  match params_of (ma_in m), params_of (ma_out m) with
  | Some i, Some o => Some {| m_name := ma_name m; m_inputs := i; m_outputs := o; m_comments := ma_docs m |}
  | _, _ => None
  end.
Definition assemble (a : assembly) : option iface :=
  match omap (fun d => option_map fst (derive_custom d)) (a_customs a),
        omap assemble_method (a_methods a),
        match a_errors a with None => Some [] | Some d => derive_reply_error d end with
  | Some cs, Some ms, Some es =>
      Some {| i_name := a_name a; i_methods := ms; i_types := cs; i_errors := es; i_comments := a_docs a |}
  | _, _, _ => None
  end.

(* ------------------------------------------------------------------ what the declarations must satisfy *)
Definition tyok (t : I.ty) : bool := I.ty_names_ok t && IE.ty_wf t.
(* user-defined field types bring their own description: it must be a well-formed inline type *)
Fixpoint users_ok (t : rust_ty) : bool :=
  match t with
  | RUser d => tyok (conv_ty d)
  | RApp _ a => users_ok a
  | _ => true
  end.
(* supported, outside the Known class nested_option (C16.nested_option_roundtrip) *)
Definition type_ok (t : rust_ty) : bool := supportedb t && negb (nested_option t) && users_ok t.
(* doc comments: valid UTF-8 without line break (a `///` line never has one) *)
Definition docs_ok (ds : list string) : bool := IN.comments_nl (cms ds).
Definition fdecl_ok (f : fdecl) : bool :=
  I.field_name_ok (I.bs (text (fd_name f))) && docs_ok (fd_docs f) && type_ok (fd_ty f).
Definition no_docs (ds : list string) : bool := match ds with [] => true | _ => false end.
(* custom types; an enum has at least one variant and — Known class C16.enum_variant_comment_roundtrip —
   no documented variant *)
Definition custom_decl_ok (d : decl) : bool :=
  I.type_name_ok (I.bs (text (d_name d))) && docs_ok (d_docs d) &&
  match d_body d with
  | DStruct fs => forallb fdecl_ok fs
  | DUnitStruct => true
  | DEnum vs =>
      match vs with [] => false | _ => true end &&
      forallb (fun v => I.field_name_ok (I.bs (text (vd_name v))) && no_docs (vd_docs v)) vs
  | _ => false
  end.
Definition params_decl_ok (d : decl) : bool :=
  match d_body d with DStruct fs => forallb fdecl_ok fs | DUnitStruct => true | _ => false end.
Definition method_ok (m : massembly) : bool :=
  I.type_name_ok (I.bs (ma_name m)) && docs_ok (ma_docs m) && params_decl_ok (ma_in m) && params_decl_ok (ma_out m).
Definition evariant_ok (v : vdecl) : bool :=
  I.type_name_ok (I.bs (text (vd_name v))) && docs_ok (vd_docs v) &&
  match vd_body v with
  | VUnit => true
  | VNamed fs => forallb fdecl_ok fs
  | VTuple [t] => type_ok t
  | VTuple _ => false
  end.
Definition errors_decl_ok (d : decl) : bool :=
  match d_body d with DEnum vs => forallb evariant_ok vs | _ => false end.
Definition assembly_ok (a : assembly) : bool :=
  I.interface_name_ok (I.bs (a_name a)) && docs_ok (a_docs a) &&
  forallb custom_decl_ok (a_customs a) && forallb method_ok (a_methods a) &&
  match a_errors a with None => true | Some d => errors_decl_ok d end.

(* ------------------------------------------------------------------ proofs *)
Lemma conv_obj fs : conv_ty (TObject fs) = I.TStruct (map conv_field fs).
Proof.
  cbn [conv_ty]. f_equal. induction fs as [|[[n t] c] r IH]; [reflexivity|].
  cbn [map]. rewrite IH. reflexivity.
Qed.

Lemma leaf_rows_tyok : forall l, tyok (conv_ty (leaf_row l)) = true.
Proof. intros l; destruct l; vm_compute; reflexivity. Qed.

Lemma conv_not_opt d : (forall x, d <> TOptional x) -> forall y, conv_ty d <> I.TOpt y.
Proof. intros H y. destruct d; cbn [conv_ty]; try discriminate. exfalso. now apply (H d). Qed.

Lemma tyok_opt t : tyok t = true -> (forall y, t <> I.TOpt y) -> tyok (I.TOpt t) = true.
Proof.
  unfold tyok. cbn [I.ty_names_ok IE.ty_wf]. intros H N.
  destruct t; try exact H. exfalso. now apply (N t).
Qed.

Lemma type_desc_ok : forall ty, type_ok ty = true ->
  exists d, type_of ty = Some d /\ tyok (conv_ty d) = true.
Proof.
  unfold type_ok.
  induction ty as [l|c a IH|d|]; cbn [supportedb nested_option users_ok type_of]; intros H.
  - exists (leaf_row l). split; [reflexivity|apply leaf_rows_tyok].
  - apply andb_prop in H as [H U]. apply andb_prop in H as [S N].
    apply negb_true_iff in N. apply orb_false_elim in N as [N1 N2].
    destruct IH as [d [T W]]; [now rewrite S, N2, U|].
    rewrite T. cbn [option_map]. exists (apply_shape (ctor_row c) d). split; [reflexivity|].
    destruct (ctor_row c); cbn [apply_shape conv_ty]; try exact W.
    apply tyok_opt; [exact W|]. apply conv_not_opt. intros x E. subst d.
    unfold describes_optional in N1. rewrite T in N1. discriminate.
  - apply andb_prop in H as [_ U]. exists d. split; [reflexivity|exact U].
  - discriminate.
Qed.

Definition fields_good (fs : list ifield) : Prop :=
  forallb I.field_names_ok (map conv_field fs) = true /\ forallb IN.field_wf_nl (map conv_field fs) = true.

Lemma fields_ok : forall fs out,
  derive_fields fs = Some out -> forallb fdecl_ok fs = true -> fields_good out.
Proof.
  induction fs as [|f r IH]; intros out D H; cbn [derive_fields] in D.
  - inversion D; subst. split; reflexivity.
  - cbn [forallb] in H. apply andb_prop in H as [Hf Hr].
    unfold fdecl_ok in Hf. apply andb_prop in Hf as [Hf Ht]. apply andb_prop in Hf as [Hn Hd].
    destruct (type_desc_ok _ Ht) as [d [T W]]. rewrite T in D.
    destruct (derive_fields r) as [r'|] eqn:R; [|discriminate]. inversion D; subst.
    destruct (IH r' eq_refl Hr) as [A B]. unfold tyok in W. apply andb_prop in W as [W1 W2].
    split; cbn [map forallb].
    + rewrite A, andb_true_r. unfold I.field_names_ok, conv_field, ident_str.
      cbn [I.fname I.fty f_name f_ty fst snd]. now rewrite Hn, W1.
    + rewrite B, andb_true_r. unfold IN.field_wf_nl, conv_field. cbn [I.fcomments I.fty f_ty f_comments fst snd].
      unfold docs_ok in Hd. now rewrite Hd, W2.
Qed.

(* the fields of a well-formed inline object description, used as members of an error *)
Lemma obj_fields_good f : tyok (conv_ty (TObject f)) = true -> fields_good f.
Proof.
  rewrite conv_obj. unfold tyok. cbn [I.ty_names_ok IE.ty_wf]. intros H. apply andb_prop in H as [N W].
  split; [exact N|].
  apply forallb_forall. intros x Hx. pose proof (proj1 (forallb_forall _ _) W x Hx) as Wx. cbn beta in Wx.
  unfold IN.field_wf_nl. destruct (I.fcomments x); [exact Wx|discriminate].
Qed.

Lemma params_ok d fs : params_of d = Some fs -> params_decl_ok d = true -> fields_good fs.
Proof.
  unfold params_of, derive_type, params_decl_ok. destruct (d_body d) as [ds| |ts|vs|]; try discriminate.
  - destruct (derive_fields ds) as [out|] eqn:D; cbn [option_map]; [|discriminate].
    intros E H. inversion E; subst. exact (fields_ok ds fs D H).
  - cbn. intros E _. inversion E; subst. split; reflexivity.
Qed.

Lemma omap_forall {A B} (f : A -> option B) (P : A -> bool) (Q : B -> Prop) :
  (forall x y, f x = Some y -> P x = true -> Q y) ->
  forall l out, omap f l = Some out -> forallb P l = true -> Forall Q out.
Proof.
  intros H. induction l as [|x r IH]; intros out E F; cbn [omap] in E.
  - inversion E. constructor.
  - destruct (f x) as [y|] eqn:Fx; [|discriminate]. destruct (omap f r) as [r'|]; [|discriminate].
    inversion E; subst. cbn [forallb] in F. apply andb_prop in F as [F1 F2].
    constructor; [exact (H x y Fx F1)|exact (IH r' eq_refl F2)].
Qed.

Lemma Forall_forallb {A B} (g : A -> B) (p : B -> bool) l :
  Forall (fun x => p (g x) = true) l -> forallb p (map g l) = true.
Proof. induction 1 as [|x r Hx _ IH]; [reflexivity|]. cbn [map forallb]. now rewrite Hx, IH. Qed.

Definition not_known (c : I.custom) : bool :=
  match c with I.CEnum _ ((_ :: _ :: _) as vs) _ => existsb I.has_comments vs | _ => false end.

Lemma variants_plain vs out :
  derive_variants vs = Some out ->
  forallb (fun v => I.field_name_ok (I.bs (text (vd_name v))) && no_docs (vd_docs v)) vs = true ->
  I.variant_names_ok (map conv_variant out) = true /\
  forallb (fun v => IN.comments_nl (I.vcomments v)) (map conv_variant out) = true /\
  existsb I.has_comments (map conv_variant out) = false /\ length out = length vs.
Proof.
  revert out. induction vs as [|v r IH]; intros out D H; cbn [derive_variants] in D.
  - inversion D. repeat split; reflexivity.
  - destruct (vd_body v); try discriminate. destruct (derive_variants r) as [r'|]; [|discriminate].
    inversion D; subst. cbn [forallb] in H. apply andb_prop in H as [Hv Hr].
    apply andb_prop in Hv as [Hn Hd]. destruct (IH r' eq_refl Hr) as (A & B & C & L).
    destruct (vd_docs v); [|discriminate].
    unfold I.variant_names_ok in *. cbn [map forallb existsb conv_variant fst snd ident_str I.vname I.vcomments cms length].
    unfold ident_str. unfold I.has_comments at 1. cbn [I.vcomments conv_variant snd cms map]. rewrite Hn, A, B, C, L. repeat split; reflexivity.
Qed.

Lemma custom_ok d c :
  option_map fst (derive_custom d) = Some c -> custom_decl_ok d = true ->
  I.custom_names_ok (conv_custom c) = true /\ IN.custom_wf_nl (conv_custom c) = true /\
  not_known (conv_custom c) = false.
Proof.
  unfold derive_custom, custom_decl_ok, ident_str. intros E H.
  apply andb_prop in H as [H Hb]. apply andb_prop in H as [Hn Hd]. unfold docs_ok in Hd.
  destruct (d_body d) as [fs| |ts|vs|]; try discriminate.
  - destruct (derive_fields fs) as [out|] eqn:D; cbn [option_map fst] in E; [|discriminate].
    inversion E; subst. destruct (fields_ok fs out D Hb) as [A B].
    cbn [conv_custom I.custom_names_ok IN.custom_wf_nl not_known ident_str]. now rewrite Hn, Hd, A, B.
  - cbn [option_map fst] in E. inversion E; subst.
    cbn [conv_custom I.custom_names_ok IN.custom_wf_nl not_known ident_str map forallb]. now rewrite Hn, Hd.
  - destruct (derive_variants vs) as [out|] eqn:D; cbn [option_map fst] in E; [|discriminate].
    inversion E; subst. apply andb_prop in Hb as [Hne Hv].
    destruct (variants_plain vs out D Hv) as (A & B & C & L).
    cbn [conv_custom I.custom_names_ok IN.custom_wf_nl not_known ident_str]. rewrite Hn, Hd, A, B. cbn [andb].
    repeat split.
    + destruct out as [|o out']; [destruct vs; [discriminate|discriminate L]|reflexivity].
    + destruct (map conv_variant out) as [|v1 [|v2 vr]]; try reflexivity. exact C.
Qed.

Lemma method_good m im :
  assemble_method m = Some im -> method_ok m = true ->
  I.method_names_ok (conv_method im) = true /\
  (IN.comments_nl (I.mcomments (conv_method im)) && forallb IN.field_wf_nl (I.minputs (conv_method im))
   && forallb IN.field_wf_nl (I.moutputs (conv_method im))) = true.
Proof.
  unfold assemble_method, method_ok. intros E H.
  apply andb_prop in H as [H Ho]. apply andb_prop in H as [H Hi]. apply andb_prop in H as [Hn Hd].
  destruct (params_of (ma_in m)) as [i|] eqn:Pi; [|discriminate].
  destruct (params_of (ma_out m)) as [o|] eqn:Po; [|discriminate]. inversion E; subst.
  destruct (params_ok _ _ Pi Hi) as [A B]. destruct (params_ok _ _ Po Ho) as [C D].
  unfold I.method_names_ok, conv_method. cbn [I.mname I.minputs I.moutputs I.mcomments m_name m_inputs m_outputs m_comments].
  unfold docs_ok in Hd. now rewrite Hn, A, B, C, D, Hd.
Qed.

Lemma evariant_good v e :
  derive_error_variant v = Some e -> evariant_ok v = true ->
  I.error_names_ok (conv_error e) = true /\
  (IN.comments_nl (I.ecomments (conv_error e)) && forallb IN.field_wf_nl (I.efields (conv_error e))) = true.
Proof.
  unfold derive_error_variant, evariant_ok, ident_str. intros E H.
  apply andb_prop in H as [H Hb]. apply andb_prop in H as [Hn Hd]. unfold docs_ok in Hd.
  assert (G : forall f, fields_good f ->
              I.error_names_ok (conv_error {| e_name := text (vd_name v); e_fields := f; e_comments := vd_docs v |}) = true /\
              (IN.comments_nl (I.ecomments (conv_error {| e_name := text (vd_name v); e_fields := f; e_comments := vd_docs v |}))
               && forallb IN.field_wf_nl (I.efields (conv_error {| e_name := text (vd_name v); e_fields := f; e_comments := vd_docs v |}))) = true).
  { intros f [A B]. unfold I.error_names_ok, conv_error. cbn [I.ename I.efields I.ecomments e_name e_fields e_comments].
    now rewrite Hn, A, B, Hd. }
  destruct (vd_body v) as [|fs|ts].
  - inversion E; subst. apply G. split; reflexivity.
  - destruct (derive_fields fs) as [out|] eqn:D; cbn [option_map] in E; [|discriminate].
    inversion E; subst. apply G. exact (fields_ok fs out D Hb).
  - destruct ts as [|t [|t2 ts]]; try discriminate.
    destruct (type_desc_ok _ Hb) as [d [T W]]. rewrite T in E.
    destruct d; try discriminate. inversion E; subst. apply G. now apply obj_fields_good.
Qed.

Lemma error_variants_omap vs : derive_error_variants vs = omap derive_error_variant vs.
Proof. induction vs as [|v r IH]; [reflexivity|]. cbn [derive_error_variants omap]. now rewrite IH. Qed.

Theorem assembled_wf : forall a i,
  assemble a = Some i -> assembly_ok a = true ->
  IN.interface_wf_nl (to_idl i) = true /\ IE.known_commented_enum (to_idl i) = false.
Proof.
  intros a i E H. unfold assemble in E. unfold assembly_ok in H.
  apply andb_prop in H as [H He]. apply andb_prop in H as [H Hm]. apply andb_prop in H as [H Hc].
  apply andb_prop in H as [Hn Hd]. unfold docs_ok in Hd.
  destruct (omap (fun d => option_map fst (derive_custom d)) (a_customs a)) as [cs|] eqn:Ec; [|discriminate].
  destruct (omap assemble_method (a_methods a)) as [ms|] eqn:Em; [|discriminate].
  destruct (match a_errors a with None => Some [] | Some d => derive_reply_error d end) as [es|] eqn:Ee; [|discriminate].
  inversion E; subst i. clear E.
  pose proof (omap_forall _ _ _ custom_ok _ _ Ec Hc) as Fc.
  pose proof (omap_forall _ _ _ method_good _ _ Em Hm) as Fm.
  assert (Fe : Forall (fun e => I.error_names_ok (conv_error e) = true /\
                 (IN.comments_nl (I.ecomments (conv_error e)) && forallb IN.field_wf_nl (I.efields (conv_error e))) = true) es).
  { destruct (a_errors a) as [d|]; [|inversion Ee; constructor].
    unfold derive_reply_error in Ee. unfold errors_decl_ok in He.
    destruct (d_body d) as [| | |vs|]; try discriminate. rewrite error_variants_omap in Ee.
    exact (omap_forall _ _ _ evariant_good _ _ Ee He). }
  split.
  - unfold IN.interface_wf_nl, I.names_ok, to_idl.
    cbn [I.iname I.imethods I.itypes I.ierrors I.icomments i_name i_methods i_types i_errors i_comments].
    rewrite Hn, Hd. cbn [andb].
    rewrite (Forall_forallb conv_custom I.custom_names_ok cs) by (eapply Forall_impl; [|exact Fc]; cbn; intuition).
    rewrite (Forall_forallb conv_method I.method_names_ok ms) by (eapply Forall_impl; [|exact Fm]; cbn; intuition).
    rewrite (Forall_forallb conv_error I.error_names_ok es) by (eapply Forall_impl; [|exact Fe]; cbn; intuition).
    rewrite (Forall_forallb conv_custom IN.custom_wf_nl cs) by (eapply Forall_impl; [|exact Fc]; cbn; intuition).
    rewrite (Forall_forallb conv_method _ ms) by (eapply Forall_impl; [|exact Fm]; cbn; intuition).
    rewrite (Forall_forallb conv_error _ es) by (eapply Forall_impl; [|exact Fe]; cbn; intuition).
    reflexivity.
  - unfold IE.known_commented_enum, to_idl. cbn [I.itypes i_types].
    clear - Fc. induction Fc as [|c r [_ [_ K]] _ IH]; [reflexivity|].
    cbn [map existsb]. fold (not_known (conv_custom c)). now rewrite K, IH.
Qed.

(* the round trip, through the IDL family's theorem *)
Theorem assembled_roundtrips : forall a i,
  assemble a = Some i -> assembly_ok a = true ->
  IP.parse_interface (I.render (to_idl i)) = IP.Accept (IN.normalise (to_idl i)).
Proof.
  intros a i E H. destruct (assembled_wf a i E H) as [W K]. now apply IN.parse_render_normalise_wf.
Qed.

(* ------------------------------------------------------------------ examples (used by props/C16.v) *)
Definition ex_inner := {| d_name := id_ "Inner"; d_docs := [" inner type"]; d_body :=
   DStruct [ {| fd_name := id_ "x"; fd_ty := RLeaf L_f32; fd_docs := [" the x"] |} ] |}.
Definition ex_plain := {| d_name := id_ "Plain"; d_docs := []; d_body :=
   DStruct [ {| fd_name := id_ "n"; fd_ty := RLeaf L_u8; fd_docs := [] |} ] |}.
Definition ex_args := {| d_name := id_ "Args"; d_docs := []; d_body :=
   DStruct [ {| fd_name := rid "type"; fd_ty := RApp C_Option (RApp C_Vec (user_custom ex_inner));
                fd_docs := [" doc one"; "two"] |};
             {| fd_name := id_ "p"; fd_ty := RApp C_HashMap_String (user_type ex_plain); fd_docs := [] |} ] |}.
Definition ex_kind := {| d_name := id_ "Kind"; d_docs := [" kinds"]; d_body :=
   DEnum [ {| vd_name := id_ "a"; vd_docs := []; vd_body := VUnit |};
           {| vd_name := id_ "IPv6"; vd_docs := []; vd_body := VUnit |} ] |}.
Definition ex_errs := {| d_name := id_ "E"; d_docs := []; d_body :=
   DEnum [ {| vd_name := id_ "NotFound"; vd_docs := [" nothing"]; vd_body := VUnit |};
           {| vd_name := id_ "Bad"; vd_docs := []; vd_body := VTuple [RApp C_Box (user_type ex_plain)] |} ] |}.
(* /// comments everywhere a member may carry one, a raw identifier, nested std and user types,
   a custom struct and a custom enum, unit and tuple error variants *)
Definition ex_assembly := {| a_name := "org.example.t"; a_docs := [" an interface"];
   a_customs := [ex_inner; ex_kind];
   a_methods := [ {| ma_name := "Get"; ma_in := ex_args; ma_out := ex_plain; ma_docs := [" gets"] |} ];
   a_errors := Some ex_errs |}.
(* a documented field INSIDE an inline (Type-derived) struct used as a field type *)
Definition ex_doc_plain := {| d_name := id_ "Plain"; d_docs := []; d_body :=
   DStruct [ {| fd_name := id_ "n"; fd_ty := RLeaf L_u8; fd_docs := [" inline doc"] |} ] |}.
Definition ex_inline_doc_assembly := {| a_name := "org.example.t"; a_docs := []; a_customs := [];
   a_methods := [ {| ma_name := "Get"; ma_out := ex_plain; ma_docs := [];
                     ma_in := {| d_name := id_ "Args"; d_docs := []; d_body :=
                        DStruct [ {| fd_name := id_ "p"; fd_ty := user_type ex_doc_plain; fd_docs := [] |} ] |} |} ];
   a_errors := None |}.
(* a documented variant of a custom enum with two variants (C16.enum_variant_comment_roundtrip) *)
Definition ex_doc_variant_assembly := {| a_name := "org.example.t"; a_docs := [];
   a_customs := [ {| d_name := id_ "Kind"; d_docs := []; d_body :=
      DEnum [ {| vd_name := id_ "a"; vd_docs := [" doc"]; vd_body := VUnit |};
              {| vd_name := id_ "b"; vd_docs := []; vd_body := VUnit |} ] |} ];
   a_methods := []; a_errors := None |}.
