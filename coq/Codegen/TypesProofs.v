(* Proofs for Codegen/Types.v: the abstract type tables render to the text tables of Codegen.v; the
   abstract custom-type definitions are those of the generated module; and, by induction over the IDL
   type (and over the unfolding depth of custom types), the Rust type emitted for a field, a parameter
   or an output carries the JSON shape the IDL type denotes. *)
From ZV Require Import Codegen.IdlTy Codegen.Names gen.Keywords Codegen.Codegen Codegen.CodegenProofs
  Codegen.Types.
Open Scope string_scope.

(* ------------------------------------------------------------------ tables: abstract = text *)
Lemma render_ty_rust t : render_rty (ty_rust t) = type_to_rust t.
Proof. induction t; cbn [ty_rust render_rty type_to_rust]; try reflexivity; now rewrite IHt. Qed.

Lemma render_ty_param_elem t : render_rty (ty_param_elem t) = type_to_rust_param_elem t.
Proof.
  induction t; cbn [ty_param_elem render_rty type_to_rust_param_elem]; try reflexivity; now rewrite IHt.
Qed.

Lemma render_ty_param t : render_rty (ty_param t) = type_to_rust_param t.
Proof.
  induction t; cbn [ty_param render_rty type_to_rust_param]; try reflexivity;
    try (now rewrite render_ty_param_elem); now rewrite IHt.
Qed.

Lemma render_ty_out_elem t : render_rty (ty_out_elem t) = out_elem t.
Proof. destruct t; cbn [ty_out_elem out_elem render_rty]; try reflexivity; apply render_ty_rust. Qed.

Lemma render_ty_output t : render_rty (ty_output t) = type_to_rust_output t.
Proof.
  induction t; cbn [ty_output render_rty type_to_rust_output]; try reflexivity;
    try (now rewrite render_ty_out_elem); now rewrite IHt.
Qed.

(* the type text of every emitted field / parameter / output is the rendering of the abstract type *)
Lemma gen_field_ty f : gf_ty (gen_field f) = render_rty (ty_rust (f_ty f)).
Proof. unfold gen_field. cbn [gf_ty]. now rewrite render_ty_rust. Qed.
Lemma gen_param_ty f : gf_ty (gen_param f) = render_rty (ty_param (f_ty f)).
Proof. unfold gen_param. cbn [gf_ty]. now rewrite render_ty_param. Qed.
Lemma gen_output_field_ty lt f :
  gf_ty (gen_output_field lt f) = render_rty (if lt then ty_output (f_ty f) else ty_rust (f_ty f)).
Proof. unfold gen_output_field. cbn [gf_ty]. destruct lt; [now rewrite render_ty_output|now rewrite render_ty_rust]. Qed.

(* the abstract definitions are the custom structs / enums of the generated module *)
Definition struct_view (s : gstruct) : string * list (string * string) :=
  (gs_name s, map (fun f => (wire_serde_field f, gf_ty f)) (gs_fields s)).
Definition enum_view (e : genum) : string * list string :=
  (ge_name e, map (wire_variant e) (ge_variants e)).
Definition rdef_structs (renv : list (string * rdef)) : list (string * list (string * string)) :=
  flat_map (fun d => match snd d with
                     | RStructDef fs => [(fst d, map (fun x => (fst x, render_rty (snd x))) fs)]
                     | REnumDef _ => []
                     end) renv.
Definition rdef_enums (renv : list (string * rdef)) : list (string * list string) :=
  flat_map (fun d => match snd d with REnumDef vs => [(fst d, vs)] | RStructDef _ => [] end) renv.

Lemma rdefs_are_module_structs env :
  rdef_structs (gen_rdefs env) = map struct_view (gen_custom_structs env).
Proof.
  induction env as [|c env IH]; [reflexivity|].
  destruct c as [n fs cs|n vs cs]; cbn [gen_rdefs map gen_rdef rdef_structs flat_map snd fst gen_custom_structs app].
  - fold (gen_rdefs env). fold (rdef_structs (gen_rdefs env)). rewrite IH. f_equal.
    unfold struct_view. cbn [gs_name gs_fields]. f_equal. rewrite !map_map. apply map_ext.
    intros f. cbn [fst snd]. now rewrite gen_field_ty.
  - fold (gen_rdefs env). fold (rdef_structs (gen_rdefs env)). exact IH.
Qed.

Lemma rdefs_are_module_enums env :
  rdef_enums (gen_rdefs env) = map enum_view (gen_custom_enums env).
Proof.
  induction env as [|c env IH]; [reflexivity|].
  destruct c as [n fs cs|n vs cs]; cbn [gen_rdefs map gen_rdef rdef_enums flat_map snd fst gen_custom_enums app].
  - fold (gen_rdefs env). fold (rdef_enums (gen_rdefs env)). exact IH.
  - fold (gen_rdefs env). fold (rdef_enums (gen_rdefs env)). rewrite IH. f_equal.
    unfold enum_view. cbn [ge_name ge_variants]. f_equal. rewrite map_map. apply map_ext. intros v. reflexivity.
Qed.

(* ------------------------------------------------------------------ equations of the shape functions *)
Lemma idl_shape_prim fuel env t :
  match t with TBool | TInt | TFloat | TString | TForeign => True | _ => False end ->
  idl_shape fuel env t = match t with TBool => JBool | TInt => JInt | TFloat => JFloat | TString => JString | _ => JAny end.
Proof. destruct fuel; destruct t; intros H; try contradiction; reflexivity. Qed.
Lemma idl_shape_opt fuel env x : idl_shape fuel env (TOptional x) = JNullable (idl_shape fuel env x).
Proof. destruct fuel; reflexivity. Qed.
Lemma idl_shape_arr fuel env x : idl_shape fuel env (TArray x) = JArray (idl_shape fuel env x).
Proof. destruct fuel; reflexivity. Qed.
Lemma idl_shape_map fuel env x : idl_shape fuel env (TMap x) = JMap (idl_shape fuel env x).
Proof. destruct fuel; reflexivity. Qed.
Lemma idl_shape_enum fuel env vs : idl_shape fuel env (TEnum vs) = JOneOf (map fst vs).
Proof. destruct fuel; reflexivity. Qed.
Lemma idl_shape_obj fuel env fs : exists l, idl_shape fuel env (TObject fs) = JStruct l.
Proof. destruct fuel; eexists; reflexivity. Qed.
Lemma idl_shape_custom_0 env n : idl_shape 0 env (TCustom n) = JOut.
Proof. reflexivity. Qed.
Lemma idl_shape_custom_S k env n :
  idl_shape (S k) env (TCustom n) =
  match find_custom n env with
  | None => JUnknown
  | Some (CObject _ fs _) => JStruct (map (fun f => (f_name f, idl_shape k env (f_ty f))) fs)
  | Some (CEnum _ vs _) => JOneOf (map fst vs)
  end.
Proof. reflexivity. Qed.

Lemma rust_shape_opt fuel renv x : rust_shape fuel renv (ROption x) = JNullable (rust_shape fuel renv x).
Proof. destruct fuel; reflexivity. Qed.
Lemma rust_shape_vec fuel renv x : rust_shape fuel renv (RVec x) = JArray (rust_shape fuel renv x).
Proof. destruct fuel; reflexivity. Qed.
Lemma rust_shape_slice fuel renv x : rust_shape fuel renv (RSlice x) = JArray (rust_shape fuel renv x).
Proof. destruct fuel; reflexivity. Qed.
Lemma rust_shape_maps fuel renv x : rust_shape fuel renv (RMapString x) = JMap (rust_shape fuel renv x).
Proof. destruct fuel; reflexivity. Qed.
Lemma rust_shape_mapr fuel renv lt x : rust_shape fuel renv (RMapStr lt x) = JMap (rust_shape fuel renv x).
Proof. destruct fuel; reflexivity. Qed.
Lemma rust_shape_ref fuel renv x : rust_shape fuel renv (RRef x) = rust_shape fuel renv x.
Proof. destruct fuel; reflexivity. Qed.
Lemma rust_shape_leaf fuel renv r :
  match r with RBool | RI64 | RF64 | RString | RStrRef _ | RValue => True | _ => False end ->
  rust_shape fuel renv r = match r with RBool => JBool | RI64 => JInt | RF64 => JFloat | RValue => JAny | _ => JString end.
Proof. destruct fuel; destruct r; intros H; try contradiction; reflexivity. Qed.
Lemma rust_shape_named_0 renv n : rust_shape 0 renv (RNamed n) = JOut.
Proof. reflexivity. Qed.
Lemma rust_shape_named_S k renv n :
  rust_shape (S k) renv (RNamed n) =
  match find_rdef n renv with
  | None => JUnknown
  | Some (RStructDef fs) => JStruct (map (fun d => (fst d, rust_shape k renv (snd d))) fs)
  | Some (REnumDef vs) => JOneOf vs
  end.
Proof. reflexivity. Qed.

Lemma shape_le_unknown strict b : shape_le strict JUnknown b = true.
Proof. reflexivity. Qed.

(* two structs built member by member from the same list *)
Lemma struct_le_map {X} strict (l : list X) (na nb : X -> string) (A B : X -> jshape) :
  (forall x, In x l -> na x = nb x /\ shape_le strict (A x) (B x) = true) ->
  shape_le strict (JStruct (map (fun x => (na x, A x)) l)) (JStruct (map (fun x => (nb x, B x)) l)) = true.
Proof.
  induction l as [|x l IH]; intros H; [reflexivity|].
  destruct (H x (or_introl eq_refl)) as [Hn Hs].
  assert (IH' := IH (fun y Hy => H y (or_intror Hy))).
  cbn [map shape_le fst snd] in *. rewrite Hn, String.eqb_refl, Hs. cbn [andb]. exact IH'.
Qed.

(* ------------------------------------------------------------------ lookup of a custom type *)
Definition tid (c : custom_ty) : string := type_ident (custom_name c).

Lemma gen_rdef_name c : fst (gen_rdef c) = tid c.
Proof. destruct c; reflexivity. Qed.

Lemma find_rdef_tie env n c :
  NoDup (map tid env) -> find_custom n env = Some c ->
  find_rdef (type_ident n) (gen_rdefs env) = Some (snd (gen_rdef c)).
Proof.
  unfold find_custom, find_rdef, gen_rdefs.
  induction env as [|c0 env IH]; intros ND F; [discriminate|].
  cbn [map find] in *. inversion ND as [|? ? Hnotin ND']; subst.
  rewrite gen_rdef_name. destruct (String.eqb (custom_name c0) n) eqn:E.
  - inversion F; subst c0. apply String.eqb_eq in E. unfold tid. rewrite E, String.eqb_refl. reflexivity.
  - destruct (String.eqb (tid c0) (type_ident n)) eqn:E2.
    + exfalso. apply String.eqb_eq in E2. apply Hnotin.
      apply find_some in F as [Hin Hn]. apply String.eqb_eq in Hn.
      apply in_map_iff. exists c. split; [|exact Hin]. unfold tid in *. rewrite Hn. now symmetry.
    + exact (IH ND' F).
Qed.

(* ------------------------------------------------------------------ the theorem *)
Definition env_ok (strict : bool) (env : list custom_ty) : Prop :=
  forallb custom_legal env = true /\ NoDup (map tid env) /\
  (strict = true -> forallb custom_no_inline env = true).

Section Shapes.
  Variable strict : bool.
  Variable env : list custom_ty.
  Hypothesis Henv : env_ok strict env.
  Let renv := gen_rdefs env.

  Definition inl_ok (t : idl_ty) : Prop := strict = true -> no_inline t = true.

  Lemma inl_sub_opt x : inl_ok (TOptional x) -> inl_ok x. Proof. unfold inl_ok; cbn; auto. Qed.
  Lemma inl_sub_arr x : inl_ok (TArray x) -> inl_ok x. Proof. unfold inl_ok; cbn; auto. Qed.
  Lemma inl_sub_map x : inl_ok (TMap x) -> inl_ok x. Proof. unfold inl_ok; cbn; auto. Qed.
  Lemma inl_enum vs : inl_ok (TEnum vs) -> negb strict = true.
  Proof. unfold inl_ok; cbn. destruct strict; [intros H; discriminate (H eq_refl)|reflexivity]. Qed.
  Lemma inl_obj fs : inl_ok (TObject fs) -> negb strict = true.
  Proof. unfold inl_ok; cbn. destruct strict; [intros H; discriminate (H eq_refl)|reflexivity]. Qed.

  (* a custom type, unfolded to depth fuel: given the statement for its members at depth k *)
  Lemma custom_case k n :
    (forall t, inl_ok t -> shape_le strict (idl_shape k env t) (rust_shape k renv (ty_rust t)) = true) ->
    shape_le strict (idl_shape (S k) env (TCustom n)) (rust_shape (S k) renv (RNamed (type_ident n))) = true.
  Proof.
    intros IH. destruct Henv as [Hleg [Hnd Hinl]].
    rewrite idl_shape_custom_S, rust_shape_named_S.
    destruct (find_custom n env) as [c|] eqn:F; [|reflexivity].
    unfold renv. rewrite (find_rdef_tie env n c Hnd F).
    pose proof F as F'. unfold find_custom in F'. apply find_some in F' as [Hin _].
    pose proof (proj1 (forallb_forall _ _) Hleg c Hin) as Lc.
    destruct c as [m fs cs|m vs cs]; cbn [gen_rdef snd].
    - rewrite map_map. cbn [fst snd].
      apply (struct_le_map strict fs f_name (fun f => wire_serde_field (gen_field f))
               (fun f => idl_shape k env (f_ty f)) (fun f => rust_shape k (gen_rdefs env) (ty_rust (f_ty f)))).
      intros f Hf. cbn [custom_legal] in Lc. apply andb_prop in Lc as [_ Lf].
      pose proof (proj1 (forallb_forall _ _) Lf f Hf) as Lff. split.
      + symmetry. now apply wire_gen_field.
      + apply IH. intros Hs. pose proof (proj1 (forallb_forall _ _) (Hinl Hs) _ Hin) as Ic.
        cbn [custom_no_inline] in Ic. exact (proj1 (forallb_forall _ _) Ic f Hf).
    - cbn [shape_le]. cbn [custom_legal] in Lc. apply andb_prop in Lc as [_ Lv].
      erewrite (map_ext_in (fun v => wire_variant snake_all (gen_variant v)) fst).
      + apply strs_eqb_refl.
      + intros v Hv. apply wire_gen_variant; [reflexivity|]. exact (proj1 (forallb_forall _ _) Lv v Hv).
  Qed.

  (* fields of custom types, error parameters, non-borrowing outputs: fn type_to_rust *)
  Lemma shape_rust : forall fuel t, inl_ok t ->
    shape_le strict (idl_shape fuel env t) (rust_shape fuel renv (ty_rust t)) = true.
  Proof.
    induction fuel as [|k IHk]; induction t; intros I; cbn [ty_rust];
      try (rewrite idl_shape_prim by exact Logic.I; rewrite rust_shape_leaf by exact Logic.I; reflexivity).
    all: try (rewrite idl_shape_opt, rust_shape_opt; cbn [shape_le]; apply IHt; now apply inl_sub_opt).
    all: try (rewrite idl_shape_arr, rust_shape_vec; cbn [shape_le]; apply IHt; now apply inl_sub_arr).
    all: try (rewrite idl_shape_map, rust_shape_maps; cbn [shape_le]; apply IHt; now apply inl_sub_map).
    all: try (rewrite idl_shape_enum, rust_shape_leaf by exact Logic.I; cbn [shape_le]; now apply (inl_enum vs)).
    all: try (match goal with |- context [idl_shape ?f env (TObject ?gs)] =>
                destruct (idl_shape_obj f env gs) as [l ->] end;
              rewrite rust_shape_leaf by exact Logic.I; cbn [shape_le]; now apply (inl_obj fs)).
    - reflexivity.
    - apply custom_case. exact IHk.
  Qed.

  Lemma shape_custom fuel n :
    shape_le strict (idl_shape fuel env (TCustom n)) (rust_shape fuel renv (RNamed (type_ident n))) = true.
  Proof. apply (shape_rust fuel (TCustom n)). intros _. reflexivity. Qed.

  (* elements of array / map parameters: fn type_to_rust_param_elem *)
  Lemma shape_param_elem fuel : forall t, inl_ok t ->
    shape_le strict (idl_shape fuel env t) (rust_shape fuel renv (ty_param_elem t)) = true.
  Proof.
    induction t; intros I; cbn [ty_param_elem];
      try (rewrite idl_shape_prim by exact Logic.I; rewrite rust_shape_leaf by exact Logic.I; reflexivity).
    - rewrite idl_shape_opt, rust_shape_opt; cbn [shape_le]; apply IHt; now apply inl_sub_opt.
    - rewrite idl_shape_arr, rust_shape_vec; cbn [shape_le]; apply IHt; now apply inl_sub_arr.
    - rewrite idl_shape_map, rust_shape_mapr; cbn [shape_le]; apply IHt; now apply inl_sub_map.
    - apply shape_custom.
    - rewrite idl_shape_enum, rust_shape_leaf by exact Logic.I; cbn [shape_le]; now apply (inl_enum vs).
    - destruct (idl_shape_obj fuel env fs) as [l ->]; rewrite rust_shape_leaf by exact Logic.I;
        cbn [shape_le]; now apply (inl_obj fs).
  Qed.

  (* method parameters: fn type_to_rust_param *)
  Lemma shape_param fuel : forall t, inl_ok t ->
    shape_le strict (idl_shape fuel env t) (rust_shape fuel renv (ty_param t)) = true.
  Proof.
    induction t; intros I; cbn [ty_param]; rewrite ?rust_shape_ref;
      try (rewrite idl_shape_prim by exact Logic.I; rewrite rust_shape_leaf by exact Logic.I; reflexivity).
    - rewrite idl_shape_opt, rust_shape_opt; cbn [shape_le]; apply IHt; now apply inl_sub_opt.
    - rewrite idl_shape_arr, rust_shape_slice; cbn [shape_le]; apply shape_param_elem; now apply inl_sub_arr.
    - rewrite idl_shape_map, rust_shape_mapr; cbn [shape_le]; apply shape_param_elem; now apply inl_sub_map.
    - apply shape_custom.
    - rewrite idl_shape_enum, rust_shape_leaf by exact Logic.I; cbn [shape_le]; now apply (inl_enum vs).
    - destruct (idl_shape_obj fuel env fs) as [l ->]; rewrite rust_shape_leaf by exact Logic.I;
        cbn [shape_le]; now apply (inl_obj fs).
  Qed.

  Lemma shape_out_elem fuel t : inl_ok t ->
    shape_le strict (idl_shape fuel env t) (rust_shape fuel renv (ty_out_elem t)) = true.
  Proof.
    intros I. destruct t; try (apply (shape_rust fuel); exact I).
    - cbn [ty_out_elem]. rewrite idl_shape_prim by exact Logic.I. rewrite rust_shape_leaf by exact Logic.I. reflexivity.
    - cbn [ty_out_elem]. rewrite idl_shape_enum, rust_shape_leaf by exact Logic.I. cbn [shape_le]. now apply (inl_enum vs).
  Qed.

  (* borrowing outputs: fn type_to_rust_output *)
  Lemma shape_output fuel : forall t, inl_ok t ->
    shape_le strict (idl_shape fuel env t) (rust_shape fuel renv (ty_output t)) = true.
  Proof.
    induction t; intros I; cbn [ty_output];
      try (rewrite idl_shape_prim by exact Logic.I; rewrite rust_shape_leaf by exact Logic.I; reflexivity).
    - rewrite idl_shape_opt, rust_shape_opt; cbn [shape_le]; apply IHt; now apply inl_sub_opt.
    - rewrite idl_shape_arr, rust_shape_vec; cbn [shape_le]; apply shape_out_elem; now apply inl_sub_arr.
    - rewrite idl_shape_map, rust_shape_mapr; cbn [shape_le]; apply shape_out_elem; now apply inl_sub_map.
    - apply shape_custom.
    - rewrite idl_shape_enum, rust_shape_leaf by exact Logic.I; cbn [shape_le]; now apply (inl_enum vs).
    - destruct (idl_shape_obj fuel env fs) as [l ->]; rewrite rust_shape_leaf by exact Logic.I;
        cbn [shape_le]; now apply (inl_obj fs).
  Qed.
End Shapes.

(* the strict relation is equality wherever the IDL shape is defined *)
Fixpoint shape_defined (a : jshape) : bool :=
  match a with
  | JUnknown => false
  | JNullable x | JArray x | JMap x => shape_defined x
  | JStruct fs =>
      (fix go (fs : list (string * jshape)) : bool :=
         match fs with [] => true | x :: r => shape_defined (snd x) && go r end) fs
  | _ => true
  end.

Section JshapeInd.
  Variable P : jshape -> Prop.
  Hypothesis Hb : P JBool. Hypothesis Hi : P JInt. Hypothesis Hf : P JFloat. Hypothesis Hs : P JString.
  Hypothesis Ha : P JAny. Hypothesis Hu : P JUnknown. Hypothesis Ho : P JOut.
  Hypothesis Hn : forall x, P x -> P (JNullable x).
  Hypothesis Hr : forall x, P x -> P (JArray x).
  Hypothesis Hm : forall x, P x -> P (JMap x).
  Hypothesis He : forall vs, P (JOneOf vs).
  Hypothesis Hst : forall fs, Forall (fun x => P (snd x)) fs -> P (JStruct fs).
  Fixpoint jshape_ind' (a : jshape) : P a :=
    match a with
    | JBool => Hb | JInt => Hi | JFloat => Hf | JString => Hs | JAny => Ha | JUnknown => Hu | JOut => Ho
    | JNullable x => Hn x (jshape_ind' x)
    | JArray x => Hr x (jshape_ind' x)
    | JMap x => Hm x (jshape_ind' x)
    | JOneOf vs => He vs
    | JStruct fs =>
        Hst fs ((fix go (fs : list (string * jshape)) : Forall (fun x => P (snd x)) fs :=
                   match fs with
                   | [] => Forall_nil _
                   | x :: r => Forall_cons x (jshape_ind' (snd x)) (go r)
                   end) fs)
    end.
End JshapeInd.

Lemma strs_eqb_eq a b : strs_eqb a b = true -> a = b.
Proof. apply list_eqb_sound. intros x y. apply String.eqb_eq. Qed.

(* with strict = true the relation is equality (wherever the IDL shape is defined) *)
Lemma shape_le_strict_eq : forall a b, shape_le true a b = true -> shape_defined a = true -> a = b.
Proof.
  induction a using jshape_ind'; intros b L D; destruct b; cbn [shape_le negb] in L; try discriminate;
    try reflexivity; cbn [shape_defined] in D; try discriminate.
  - f_equal. now apply IHa.
  - f_equal. now apply IHa.
  - f_equal. now apply IHa.
  - f_equal. now apply strs_eqb_eq.
  - f_equal. revert fs0 L D. induction H as [|x fs Hx _ IH]; intros [|y gs] L D; try discriminate; [reflexivity|].
    apply andb_prop in L as [L L3]. apply andb_prop in L as [L1 L2]. apply andb_prop in D as [D1 D2].
    apply String.eqb_eq in L1. f_equal.
    + destruct x, y. cbn [fst snd] in *. subst. f_equal. now apply Hx.
    + now apply IH.
Qed.
