(* The names of the items the introspection derives emit per field (zlink-macros/src/introspect/
   shared.rs, fn generate_field_definitions): one `static` per field inside one block, next to the slice
   of references to them (custom_type.rs:37, type.rs:35, reply_error.rs:86).  rustc rejects the block when
   two of these names are equal (E0428).  The formats and the slice's name are translated from the
   source on every run (gen/FieldStatics.v).

   As of /repo 77f15db the static of the i-th field is `<head><i>` (`<head><VARIANT><sep><i>` inside an
   error variant); before, `<head><FIELD NAME IN UPPER CASE>`, which meets the slice's name for a field
   called `refs` and the static of a field that differs only in case. *)
From ZV Require Import Common.Base Ser.Decimal gen.FieldStatics.
From Coq Require Import List NArith Lia Bool.
Import ListNotations.
Local Open Scope N_scope.

(* name of the static of field number i whose upper-cased name is `up` *)
Definition static_name (by_pos : bool) (prefix : list byte) (i : nat) (up : list byte) : list byte :=
  prefix ++ (if by_pos then fmt_N (N.of_nat i) else up).

Fixpoint statics_from (by_pos : bool) (prefix : list byte) (i : nat) (ups : list (list byte)) : list (list byte) :=
  match ups with
  | [] => []
  | up :: r => static_name by_pos prefix i up :: statics_from by_pos prefix (S i) r
  end.
Definition statics (by_pos : bool) (prefix : list byte) (ups : list (list byte)) := statics_from by_pos prefix 0 ups.

(* every name the block declares: the slice, then one static per field *)
Definition block_names (by_pos : bool) (prefix slice : list byte) (ups : list (list byte)) :=
  slice :: statics by_pos prefix ups.

Definition ends_in_digit (s : list byte) : bool :=
  match rev s with b :: _ => is_digit b | [] => false end.

(* ---- proofs *)
Lemma fmt_N_inj : forall a b, fmt_N a = fmt_N b -> a = b.
Proof. intros a b H. rewrite <- (fmt_N_val a), <- (fmt_N_val b), H. reflexivity. Qed.

Lemma fmt_N_nonempty : forall n, fmt_N n <> [].
Proof.
  intros n H. destruct (N.eq_dec n 0) as [->|Hn].
  - rewrite fmt_N_zero in H. discriminate.
  - pose proof (fmt_N_val n) as Hv. rewrite H in Hv. cbn in Hv. lia.
Qed.

Lemma static_ends_in_digit : forall prefix i up, ends_in_digit (static_name true prefix i up) = true.
Proof.
  intros prefix i up. unfold static_name, ends_in_digit. rewrite rev_app_distr.
  pose proof (fmt_N_digits (N.of_nat i)) as Hd. pose proof (fmt_N_nonempty (N.of_nat i)) as Hne.
  destruct (rev (fmt_N (N.of_nat i))) as [|b r] eqn:Hr.
  - exfalso. apply Hne. rewrite <- (rev_involutive (fmt_N (N.of_nat i))), Hr. reflexivity.
  - cbn [app]. rewrite Forall_forall in Hd. apply Hd. apply in_rev. rewrite Hr. left. reflexivity.
Qed.

Lemma in_statics_from : forall prefix ups i s,
  In s (statics_from true prefix i ups) -> exists j up, (i <= j)%nat /\ s = static_name true prefix j up.
Proof.
  intros prefix ups. induction ups as [|u r IH]; intros i s H; [destruct H|].
  destruct H as [<-|H]; [exists i, u; split; [lia|reflexivity]|].
  destruct (IH _ _ H) as (j & up & Hj & ->). exists j, up. split; [lia|reflexivity].
Qed.

Lemma statics_from_NoDup : forall prefix ups i, NoDup (statics_from true prefix i ups).
Proof.
  intros prefix ups. induction ups as [|u r IH]; intro i; [constructor|].
  cbn [statics_from]. constructor; [|apply IH].
  intro H. destruct (in_statics_from _ _ _ _ H) as (j & up & Hj & He).
  unfold static_name in He. apply app_inv_head in He. apply fmt_N_inj in He. lia.
Qed.

(* by position: the statics are pairwise distinct, and distinct from every name that does not end in a
   digit, whatever the fields are called and however many there are *)
Theorem block_names_distinct : forall prefix slice ups,
  ends_in_digit slice = false -> NoDup (block_names true prefix slice ups).
Proof.
  intros prefix slice ups Hs. unfold block_names, statics. constructor; [|apply statics_from_NoDup].
  intro H. destruct (in_statics_from _ _ _ _ H) as (j & up & _ & ->).
  rewrite static_ends_in_digit in Hs. discriminate.
Qed.

(* what the tree under test does, with the translated formats *)
Definition plain_block (slice : list byte) (ups : list (list byte)) :=
  block_names plain_by_position plain_head slice ups.
Definition variant_block (slice variant_up : list byte) (ups : list (list byte)) :=
  block_names variant_by_position (variant_head ++ variant_up ++ variant_sep) slice ups.

Theorem field_statics_distinct :
  forall slice, In slice slice_names ->
  forall ups, NoDup (plain_block slice ups) /\ forall variant_up, NoDup (variant_block slice variant_up ups).
Proof.
  intros slice Hin ups.
  assert (Hs : ends_in_digit slice = false).
  { assert (Hall : forallb (fun s => negb (ends_in_digit s)) slice_names = true) by (vm_compute; reflexivity).
    rewrite forallb_forall in Hall. specialize (Hall _ Hin). destruct (ends_in_digit slice); [discriminate|reflexivity]. }
  assert (Hp : plain_by_position = true) by reflexivity.
  assert (Hv : variant_by_position = true) by reflexivity.
  unfold plain_block, variant_block. rewrite Hp, Hv.
  split; [|intro v]; apply block_names_distinct; exact Hs.
Qed.

(* naming by the upper-cased field name (before 77f15db): a field called `refs`, two fields `id` / `ID` *)
Definition FIELD_ : list byte := [70; 73; 69; 76; 68; 95].
Definition FIELD_REFS : list byte := FIELD_ ++ [82; 69; 70; 83].
Lemma by_name_refuted_refs : ~ NoDup (block_names false FIELD_ FIELD_REFS [[82; 69; 70; 83]]).
Proof. intro H. inversion H as [|? ? Hn _]. apply Hn. left. reflexivity. Qed.
Lemma by_name_refuted_case : ~ NoDup (block_names false FIELD_ FIELD_REFS [[73; 68]; [73; 68]]).
Proof.
  intro H. inversion H as [|? ? _ H1]. inversion H1 as [|? ? Hn _]. apply Hn. left. reflexivity.
Qed.
