(* Model of zlink-codegen/src/codegen.rs: a function from the IDL tree (Codegen/IdlTy.v) to an
   ABSTRACT Rust module (identifiers, rename attributes, Rust type texts), and the names that reach
   the wire once the proxy macro (zlink-macros/src/proxy), serde_derive and the ReplyError derive
   (zlink-macros/src/reply_error.rs) have processed that module. The keyword list is the GENERATED
   gen/Keywords.v. No proofs here. *)
From ZV Require Import Codegen.IdlTy Codegen.Names gen.Keywords.
Open Scope string_scope.

(* ------------------------------------------------------------------ abstract module *)
Record gfield := { gf_ident : string;            (* as written, r# included *)
                   gf_rename : option string;    (* #[serde(rename = ..)] / #[zlink(rename = ..)] *)
                   gf_ty : string;               (* Rust type text *)
                   gf_borrow : bool }.           (* #[serde(borrow)] *)
Record gmethod := { gm_ident : string; gm_rename : option string; gm_params : list gfield;
                    gm_ret : string }.
Record gstruct := { gs_name : string; gs_lifetime : bool; gs_fields : list gfield }.
Record gvariant := { gv_ident : string; gv_rename : option string }.
Record genum := { ge_name : string; ge_rename_all : option string; ge_variants : list gvariant }.
Record gevariant := { gev_ident : string; gev_fields : list gfield }.
Record gerrors := { gerr_name : string; gerr_iface : string; gerr_variants : list gevariant }.
Record gmodule := { g_iface : string;            (* #[proxy("..")] *)
                    g_trait : string;
                    g_error_ty : string;         (* error type named in every method signature *)
                    g_methods : list gmethod;
                    g_structs : list gstruct;    (* output structs (method order), then custom objects *)
                    g_enums : list genum;
                    g_errors : option gerrors }. (* None: the stub `pub enum XError {}` *)

(* ------------------------------------------------------------------ codegen.rs *)
(* :659-667 *)
Definition is_rust_keyword (s : string) : bool := mem s generator_keywords.
(* keywords the generator knows it cannot write as r#ident (none on a tree without that list) *)
Definition is_unrawable (s : string) : bool := mem s generator_unrawable.

(* escape_ident: keywords are written r#kw, the keywords that cannot be raw get a trailing underscore;
   ident_name = strip_prefix("r#"); type_ident = escape_ident(PascalCase) *)
Definition escape_ident (s : string) : string :=
  if is_unrawable s then s ++ "_" else if is_rust_keyword s then "r#" ++ s else s.
(* since the repair of C15.prelude_type_name_capture: a custom type whose identifier is the name of an
   item the generated code refers to without a path (fn is_used_unqualified; the list is translated
   from the source) gets a trailing underscore *)
Definition is_used_unqualified (s : string) : bool := mem s generator_unqualified.
Definition type_ident (n : string) : string :=
  let i := escape_ident (to_pascal_case n) in
  if is_used_unqualified i then i ++ "_" else i.

(* fn type_to_rust *)
Fixpoint type_to_rust (t : idl_ty) : string :=
  match t with
  | TBool => "bool" | TInt => "i64" | TFloat => "f64" | TString => "String"
  | TObject _ => "serde_json::Value"
  | TEnum _ => "String"
  | TArray e => "Vec<" ++ type_to_rust e ++ ">"
  | TMap v => "std::collections::HashMap<String, " ++ type_to_rust v ++ ">"
  | TForeign => "serde_json::Value"
  | TOptional i => "Option<" ++ type_to_rust i ++ ">"
  | TCustom n => type_ident n
  end.

(* :558-581 *)
Fixpoint type_to_rust_param_elem (t : idl_ty) : string :=
  match t with
  | TBool => "bool" | TInt => "i64" | TFloat => "f64" | TString => "&str"
  | TObject _ => "serde_json::Value"
  | TEnum _ => "&str"
  | TArray e => "Vec<" ++ type_to_rust_param_elem e ++ ">"
  | TMap v => "std::collections::HashMap<&str, " ++ type_to_rust_param_elem v ++ ">"
  | TForeign => "serde_json::Value"
  | TOptional i => "Option<" ++ type_to_rust_param_elem i ++ ">"
  | TCustom n => type_ident n
  end.

(* :522-554 *)
Fixpoint type_to_rust_param (t : idl_ty) : string :=
  match t with
  | TBool => "bool" | TInt => "i64" | TFloat => "f64" | TString => "&str"
  | TObject _ => "&serde_json::Value"
  | TEnum _ => "&str"
  | TArray e => "&[" ++ type_to_rust_param_elem e ++ "]"
  | TMap v => "&std::collections::HashMap<&str, " ++ type_to_rust_param_elem v ++ ">"
  | TForeign => "&serde_json::Value"
  | TOptional i => "Option<" ++ type_to_rust_param i ++ ">"
  | TCustom n => "&" ++ type_ident n
  end.

(* :583-624 *)
Definition out_elem (t : idl_ty) : string :=
  match t with
  | TString => "&'a str"
  | TEnum _ => "&'a str"
  | _ => type_to_rust t
  end.
Fixpoint type_to_rust_output (t : idl_ty) : string :=
  match t with
  | TBool => "bool" | TInt => "i64" | TFloat => "f64" | TString => "&'a str"
  | TObject _ => "serde_json::Value"
  | TEnum _ => "&'a str"
  | TArray e => "Vec<" ++ out_elem e ++ ">"
  | TMap v => "std::collections::HashMap<&'a str, " ++ out_elem v ++ ">"
  | TForeign => "serde_json::Value"
  | TOptional i => "Option<" ++ type_to_rust_output i ++ ">"
  | TCustom n => type_ident n
  end.

(* :631-643 and :645-657 (the two functions have the same body) *)
Fixpoint type_needs_lifetime (t : idl_ty) : bool :=
  match t with
  | TString => true
  | TEnum _ => true
  | TArray i => match i with TString | TEnum _ => true | _ => false end
  | TMap _ => true
  | TOptional i => type_needs_lifetime i
  | _ => false
  end.
Definition type_needs_borrow := type_needs_lifetime.

Definition some_if (b : bool) (s : string) : option string := if b then Some s else None.

(* :172-209 generate_field (custom objects): #[serde(rename)] when keyword or snake <> name *)
Definition gen_field (f : ifield) : gfield :=
  let n := f_name f in
  let sn := to_snake_case n in
  {| gf_ident := escape_ident sn;
     gf_rename := some_if (is_rust_keyword sn || negb (String.eqb sn n)) n;
     gf_ty := type_to_rust (f_ty f); gf_borrow := false |}.

(* :415-444 generate_error_field: the same with #[zlink(rename)] *)
Definition gen_error_field (f : ifield) : gfield := gen_field f.

(* :273-298 output struct fields: rename only when snake <> name *)
Definition gen_output_field (lt : bool) (f : ifield) : gfield :=
  let n := f_name f in
  let sn := to_snake_case n in
  let id := escape_ident sn in
  {| gf_ident := id;
     gf_rename := some_if (negb (String.eqb (unraw id) n)) n;
     gf_ty := if lt then type_to_rust_output (f_ty f) else type_to_rust (f_ty f);
     gf_borrow := lt && type_needs_borrow (f_ty f) |}.

(* :368-385 parameters: rename when the (escaped) identifier differs from the name *)
Definition gen_param (f : ifield) : gfield :=
  let n := f_name f in
  let id := escape_ident (to_snake_case n) in
  {| gf_ident := id; gf_rename := some_if (negb (String.eqb id n)) n;
     gf_ty := type_to_rust_param (f_ty f); gf_borrow := false |}.

Definition outputs_need_lifetime (m : imethod) : bool :=
  existsb (fun o => type_needs_lifetime (f_ty o)) (m_outputs m).

(* generate_proxy_method_signature: a keyword gets a trailing underscore (the proxy macro cannot take
   raw method identifiers); #[zlink(rename)] when the macro's own derivation from the identifier
   (fn proxy_method_name, a copy of the macro's snake_case_to_pascal_case) is not the IDL name *)
Definition method_ident (name : string) : string :=
  let sn := to_snake_case name in if is_rust_keyword sn then sn ++ "_" else sn.
Definition method_rename (name ident : string) : option string :=
  some_if (negb (String.eqb (proxy_pascal ident) name)) name.

Definition gen_method (m : imethod) : gmethod :=
  let id := method_ident (m_name m) in
  {| gm_ident := id;
     gm_rename := method_rename (m_name m) id;
     gm_params := map gen_param (m_inputs m);
     gm_ret := match m_outputs m with
               | [] => "()"
               | _ => to_pascal_case (m_name m) ++ "Output" ++
                      (if outputs_need_lifetime m then "<'_>" else "")
               end |}.

(* :248-307 generate_output_structs *)
Definition gen_output_struct (m : imethod) : list gstruct :=
  match m_outputs m with
  | [] => []
  | outs => let lt := outputs_need_lifetime m in
            [ {| gs_name := to_pascal_case (m_name m) ++ "Output"; gs_lifetime := lt;
                 gs_fields := map (gen_output_field lt) outs |} ]
  end.

(* generate_custom_enum: PascalCase variants under rename_all = "snake_case", plus #[serde(rename)]
   where rename_all (fn serde_snake_case, a copy of serde's rule) would not give the IDL value *)
Definition variant_ident (name : string) : string := escape_ident (to_pascal_case name).
Definition variant_rename (name ident : string) : option string :=
  some_if (negb (String.eqb (serde_snake_variant ident) name)) name.
Definition gen_variant (v : ivariant) : gvariant :=
  let id := variant_ident (fst v) in
  {| gv_ident := id; gv_rename := variant_rename (fst v) id |}.

Fixpoint gen_custom_structs (cs : list custom_ty) : list gstruct :=
  match cs with
  | [] => []
  | CObject n fs _ :: r =>
      {| gs_name := type_ident n; gs_lifetime := false; gs_fields := map gen_field fs |}
      :: gen_custom_structs r
  | CEnum _ _ _ :: r => gen_custom_structs r
  end.
Fixpoint gen_custom_enums (cs : list custom_ty) : list genum :=
  match cs with
  | [] => []
  | CEnum n vs _ :: r =>
      {| ge_name := type_ident n; ge_rename_all := Some "snake_case";
         ge_variants := map gen_variant vs |} :: gen_custom_enums r
  | CObject _ _ _ :: r => gen_custom_enums r
  end.

(* :626-629 interface_name_to_rust: last dot-separated segment, PascalCase *)
Definition last_segment (s : string) : string :=
  l2s (last (split_on (fun c => Ascii.eqb c "."%char) [] (s2l s)) []).
Definition interface_name_to_rust (s : string) : string := to_pascal_case (last_segment s).

(* generate_errors: the IDL's spelling when it is an identifier (fn is_upper_camel_ident), else
   PascalCase: the ReplyError derive builds the wire name from the variant identifier *)
Definition is_upper_camel_ident (name : string) : bool := type_name_ok name && negb (is_rust_keyword name).
Definition error_ident (name : string) : string :=
  if is_upper_camel_ident name then name else to_pascal_case name.
Definition gen_error (e : ierror) : gevariant :=
  {| gev_ident := error_ident (e_name e); gev_fields := map gen_error_field (e_fields e) |}.

Definition codegen (i : iface) : gmodule :=
  let tn := interface_name_to_rust (i_name i) in
  {| g_iface := i_name i; g_trait := tn; g_error_ty := tn ++ "Error";
     g_methods := map gen_method (i_methods i);
     g_structs := flat_map gen_output_struct (i_methods i) ++ gen_custom_structs (i_types i);
     g_enums := gen_custom_enums (i_types i);
     g_errors := match i_errors i with
                 | [] => None
                 | es => Some {| gerr_name := tn ++ "Error"; gerr_iface := i_name i;
                                 gerr_variants := map gen_error es |}
                 end |}.

(* ------------------------------------------------------------------ what reaches the wire *)
(* proxy/method_impl.rs:18-26: "{interface}.{rename or snake_case_to_pascal_case(ident.to_string())}";
   Ident::to_string keeps r#. *)
Definition wire_method (g : gmodule) (m : gmethod) : string :=
  g_iface g ++ "." ++ match gm_rename m with Some r => r | None => proxy_pascal (gm_ident m) end.

(* proxy/method_impl.rs:240-262: Params struct field `#name: #ty` with #[serde(rename = ..)] when the
   parameter carries #[zlink(rename)]; serde_derive names a field by its unraw'd identifier. *)
Definition wire_serde_field (f : gfield) : string :=
  match gf_rename f with Some r => r | None => unraw (gf_ident f) end.
Definition wire_param := wire_serde_field.

(* serde_derive on enums: #[serde(rename)] on the variant wins, else rename_all applied to the
   unraw'd identifier *)
Definition wire_variant (e : genum) (v : gvariant) : string :=
  match gv_rename v with
  | Some r => r
  | None => match ge_rename_all e with
            | Some "snake_case" => serde_snake_variant (unraw (gv_ident v))
            | _ => unraw (gv_ident v)
            end
  end.

(* reply_error.rs:157 and :230: "{interface}.{variant ident}" (Display of the ident, r# kept) *)
Definition wire_error (e : gerrors) (v : gevariant) : string := gerr_iface e ++ "." ++ gev_ident v.
(* reply_error.rs:383-389: #[zlink(rename)] or the field ident's to_string() (r# kept) *)
Definition wire_error_field (f : gfield) : string :=
  match gf_rename f with Some r => r | None => gf_ident f end.

(* ------------------------------------------------------------------ the property (names part) *)
(* every name of the IDL travels under its own spelling *)
Definition strs_eqb := list_eqb String.eqb.

Definition method_names_ok (i : iface) (g : gmodule) : bool :=
  strs_eqb (map (wire_method g) (g_methods g)) (map (fun m => i_name i ++ "." ++ m_name m) (i_methods i)).

Definition params_ok (m : imethod) (gm : gmethod) : bool :=
  strs_eqb (map wire_param (gm_params gm)) (map f_name (m_inputs m)).

Fixpoint all2 {A B} (p : A -> B -> bool) (a : list A) (b : list B) : bool :=
  match a, b with
  | [], [] => true
  | x :: a', y :: b' => p x y && all2 p a' b'
  | _, _ => false
  end.

Definition custom_objects (cs : list custom_ty) : list (string * list ifield) :=
  flat_map (fun c => match c with CObject n fs _ => [(n, fs)] | _ => [] end) cs.
Definition custom_enums (cs : list custom_ty) : list (string * list ivariant) :=
  flat_map (fun c => match c with CEnum n vs _ => [(n, vs)] | _ => [] end) cs.
Definition methods_with_outputs (ms : list imethod) : list imethod :=
  filter (fun m => match m_outputs m with [] => false | _ => true end) ms.

(* the field lists, in module order, that serde (de)serialises: outputs then custom objects *)
Definition idl_struct_fields (i : iface) : list (list ifield) :=
  map m_outputs (methods_with_outputs (i_methods i)) ++ map snd (custom_objects (i_types i)).

Definition struct_fields_ok (fs : list ifield) (s : gstruct) : bool :=
  strs_eqb (map wire_serde_field (gs_fields s)) (map f_name fs).

Definition enum_values_ok (vs : list ivariant) (e : genum) : bool :=
  strs_eqb (map (wire_variant e) (ge_variants e)) (map fst vs).

Definition error_ok (iname : string) (ge : gerrors) (e : ierror) (v : gevariant) : bool :=
  String.eqb (wire_error ge v) (iname ++ "." ++ e_name e) &&
  strs_eqb (map wire_error_field (gev_fields v)) (map f_name (e_fields e)).

Definition errors_ok (i : iface) (g : gmodule) : bool :=
  match i_errors i, g_errors g with
  | [], None => true
  | es, Some ge => all2 (error_ok (i_name i) ge) es (gerr_variants ge)
  | _, _ => false
  end.

Definition wire_names_ok (i : iface) (g : gmodule) : bool :=
  method_names_ok i g &&
  all2 params_ok (i_methods i) (g_methods g) &&
  all2 struct_fields_ok (idl_struct_fields i) (g_structs g) &&
  all2 enum_values_ok (map snd (custom_enums (i_types i))) (g_enums g) &&
  errors_ok i g.

(* legal names (the IDL grammar) *)
Fixpoint ty_names_legal (t : idl_ty) : bool :=
  match t with
  | TOptional x | TArray x | TMap x => ty_names_legal x
  | TCustom n => type_name_ok n
  | TEnum vs => forallb (fun v => field_name_ok (fst v)) vs
  | TObject fs =>
      (fix go (fs : list (string * idl_ty * comments)) : bool :=
         match fs with
         | [] => true
         | x :: r => let '(n, t, _) := x in field_name_ok n && ty_names_legal t && go r
         end) fs
  | _ => true
  end.
Definition field_legal (f : ifield) : bool := field_name_ok (f_name f) && ty_names_legal (f_ty f).
Definition method_legal (m : imethod) : bool :=
  type_name_ok (m_name m) && forallb field_legal (m_inputs m) && forallb field_legal (m_outputs m).
Definition custom_legal (c : custom_ty) : bool :=
  match c with
  | CObject n fs _ => type_name_ok n && forallb field_legal fs
  | CEnum n vs _ => type_name_ok n && forallb (fun v => field_name_ok (fst v)) vs
  end.
Definition error_legal (e : ierror) : bool := type_name_ok (e_name e) && forallb field_legal (e_fields e).
Definition iface_legal (i : iface) : bool :=
  forallb method_legal (i_methods i) && forallb custom_legal (i_types i) &&
  forallb error_legal (i_errors i).

(* ------------------------------------------------------------------ borrowed string outputs *)
(* Known class (open finding C15.borrowed_str_output_escape): serde can only borrow a `&'a str` from
   a JSON string that needs no unescaping; a field so typed does not decode a string with escapes. *)
Fixpoint is_prefix (p s : string) : bool :=
  match p, s with
  | EmptyString, _ => true
  | String a p', String b s' => Ascii.eqb a b && is_prefix p' s'
  | _, _ => false
  end.
Fixpoint is_infix (p s : string) : bool :=
  is_prefix p s || match s with EmptyString => false | String _ r => is_infix p r end.
Definition borrows_str (ty : string) : bool := is_infix "&'a str" ty.
Definition field_decodes (f : gfield) (value_needs_unescape : bool) : bool :=
  negb (value_needs_unescape && borrows_str (gf_ty f)).

(* ------------------------------------------------------------------ macro hygiene classes *)
(* Identifiers the macros' EMITTED code uses for itself (gen/MacroLocals.v, regenerated from the quote!
   blocks) that are also legal IDL names, classified. Known classes (open findings): member names the
   ReplyError derive's Serialize arm shadows; custom type names captured by the derive (fixed by the
   prepared patch) and by the #[proxy] expansion. The other identifiers are bound where no user name is
   in scope (or before / after it); the hygiene corpus of checks/c15.py compiles and runs an interface
   for each of them on every run. *)
Definition known_shadowed_members : list string := ["map"; "serializer"].
Definition harmless_value_locals : list string :=
  ["deserializer"; "formatter"; "helper"; "call"; "conn"; "err"; "error"; "method_call"; "params";
   "reply"; "result"; "stream"].
Definition known_captured_types : list string :=
  ["D"; "ParametersSerializer"; "S"; "Params"; "MethodCall"; "ReplyParams"; "ReplyError"].
Definition harmless_type_names : list string :=
  ["A"; "E"; "NoParameters"; "Value"; "MethodWrapper"; "NoOutputParameters"; "Socket"].
