(* Case conversions used between an IDL name and the wire, on ASCII:
     heck 0.5 `to_snake_case` / `to_pascal_case` (= to_upper_camel_case)   (heck-0.5.0/src/lib.rs:69-163)
     the proxy macro's `snake_case_to_pascal_case`                       (zlink-macros/src/proxy/utils.rs:9-21)
     serde_derive's `rename_all = "snake_case"` on variants              (serde_derive internals/case.rs:60-69)
   Names are Coq strings (bytes); every function is total and executable. The model is restricted
   to ASCII (IDL names are ASCII); bytes >= 128 are treated as non-alphanumeric. No proofs here. *)
From Coq Require Export String Ascii List Bool NArith.
Export ListNotations.
Open Scope string_scope.
Open Scope list_scope.

Definition chars := list ascii.
Definition code (c : ascii) : N := N_of_ascii c.
Definition is_upper (c : ascii) : bool := ((65 <=? code c) && (code c <=? 90))%N.
Definition is_lower (c : ascii) : bool := ((97 <=? code c) && (code c <=? 122))%N.
Definition is_digit (c : ascii) : bool := ((48 <=? code c) && (code c <=? 57))%N.
Definition is_alpha (c : ascii) : bool := is_upper c || is_lower c.
Definition is_alnum (c : ascii) : bool := is_alpha c || is_digit c.
Definition to_lower (c : ascii) : ascii := if is_upper c then ascii_of_N (code c + 32) else c.
Definition to_upper (c : ascii) : ascii := if is_lower c then ascii_of_N (code c - 32) else c.
Definition underscore : ascii := "_"%char.

Definition s2l : string -> chars := list_ascii_of_string.
Definition l2s : chars -> string := string_of_list_ascii.

(* s.split(pred): the segments between separator characters, empty segments included *)
Fixpoint split_on (sep : ascii -> bool) (cur : chars) (l : chars) : list chars :=
  match l with
  | [] => [rev cur]
  | c :: r => if sep c then rev cur :: split_on sep [] r else split_on sep (c :: cur) r
  end.

(* ---- heck: fn transform (lib.rs:69-163), one `word` of s.split(|c| !c.is_alphanumeric()) ---- *)
Inductive wmode := MBoundary | MLower | MUpper.
Definition wmode_eqb (a b : wmode) : bool :=
  match a, b with MBoundary, MBoundary | MLower, MLower | MUpper, MUpper => true | _, _ => false end.

(* cur: the characters word[init..i] seen so far (reversed); mode as in the Rust loop.
   Returns the sub-words handed to with_word, in order. *)
Fixpoint subwords (cur : chars) (mode : wmode) (l : chars) : list chars :=
  match l with
  | [] => []                                   (* empty word: the while loop never runs *)
  | c :: rest =>
      match rest with
      | [] => [rev (c :: cur)]                 (* :137-146 trailing characters are a word *)
      | next :: _ =>
          let next_mode := if is_lower c then MLower else if is_upper c then MUpper else mode in
          if wmode_eqb next_mode MLower && is_upper next then
            (* :111-119 boundary after c: word[init..next_i] *)
            rev (c :: cur) :: subwords [] MBoundary rest
          else if wmode_eqb mode MUpper && is_upper c && is_lower next then
            (* :123-131 boundary before c: word[init..i]; init = i; mode = Boundary *)
            rev cur :: subwords [c] MBoundary rest
          else subwords (c :: cur) next_mode rest
      end
  end.

Definition heck_words (s : chars) : list chars :=
  flat_map (subwords [] MBoundary) (split_on (fun c => negb (is_alnum c)) [] s).

Fixpoint join (sep : chars) (l : list chars) : chars :=
  match l with
  | [] => []
  | [w] => w
  | w :: r => w ++ sep ++ join sep r
  end.

Definition lowercase (w : chars) : chars := map to_lower w.
Definition capitalize (w : chars) : chars :=
  match w with [] => [] | c :: r => to_upper c :: map to_lower r end.

(* snake.rs:57-61 and upper_camel.rs:65-69 *)
Definition to_snake_case (s : string) : string := l2s (join [underscore] (map lowercase (heck_words (s2l s)))).
Definition to_pascal_case (s : string) : string := l2s (concat (map capitalize (heck_words (s2l s)))).

(* ---- zlink-macros proxy/utils.rs:9-21 ---- *)
Definition proxy_pascal (s : string) : string :=
  l2s (concat (map capitalize (split_on (fun c => Ascii.eqb c underscore) [] (s2l s)))).

(* ---- serde_derive RenameRule::SnakeCase.apply_to_variant ---- *)
Fixpoint serde_snake_aux (first : bool) (l : chars) : chars :=
  match l with
  | [] => []
  | c :: r => (if negb first && is_upper c then [underscore] else []) ++ to_lower c :: serde_snake_aux false r
  end.
Definition serde_snake_variant (s : string) : string := l2s (serde_snake_aux true (s2l s)).

(* ---- identifiers ---- *)
(* syn/proc_macro2 `Ident::to_string()` keeps the r# prefix; serde_derive and `unraw()` strip it *)
Definition unraw (s : string) : string :=
  match s with
  | String a (String b rest) => if Ascii.eqb a "r"%char && Ascii.eqb b "#"%char then rest else s
  | _ => s
  end.

Definition mem (s : string) (l : list string) : bool := existsb (String.eqb s) l.

(* IDL grammar (zlink-core/src/idl/parse/mod.rs field_name / type_name after the grammar fixes):
   field and enum-value names  [A-Za-z]([_]?[A-Za-z0-9])*   type, method and error names  [A-Z][A-Za-z0-9]* *)
Fixpoint field_tail_ok (l : chars) : bool :=
  match l with
  | [] => true
  | c :: r =>
      if is_alnum c then field_tail_ok r
      else if Ascii.eqb c underscore then
        match r with c2 :: _ => is_alnum c2 && field_tail_ok r | [] => false end
      else false
  end.
Definition field_name_ok (s : string) : bool :=
  match s2l s with c :: r => is_alpha c && field_tail_ok r | [] => false end.
Definition type_name_ok (s : string) : bool :=
  match s2l s with c :: r => is_upper c && forallb is_alnum r | [] => false end.
