(* C15, types part: the Rust types the generator emits as ABSTRACT types (rty), the JSON shape a
   value of such a type has on the wire under serde's semantics, and the JSON shape an IDL type
   denotes. The abstract tables ty_rust / ty_param / ty_param_elem / ty_output are tied to the text
   tables of Codegen.v (type_to_rust ...), which the check compares with the generated source, by
   the render lemmas of TypesProofs.v. No proofs here. *)
From ZV Require Import Codegen.IdlTy Codegen.Names gen.Keywords Codegen.Codegen.
Open Scope string_scope.

(* ------------------------------------------------------------------ abstract Rust types *)
Inductive rty :=
| RBool | RI64 | RF64
| RString                      (* String *)
| RStrRef (lt : bool)          (* &str / &'a str *)
| RValue                       (* serde_json::Value *)
| ROption (r : rty)
| RVec (r : rty)
| RSlice (r : rty)             (* &[T] *)
| RMapString (r : rty)         (* std::collections::HashMap<String, T> *)
| RMapStr (lt : bool) (r : rty)(* std::collections::HashMap<&str, T> / <&'a str, T> *)
| RRef (r : rty)               (* &T *)
| RNamed (n : string).         (* a generated struct or enum, by its Rust identifier *)

Fixpoint render_rty (r : rty) : string :=
  match r with
  | RBool => "bool" | RI64 => "i64" | RF64 => "f64" | RString => "String"
  | RStrRef lt => if lt then "&'a str" else "&str"
  | RValue => "serde_json::Value"
  | ROption x => "Option<" ++ render_rty x ++ ">"
  | RVec x => "Vec<" ++ render_rty x ++ ">"
  | RSlice x => "&[" ++ render_rty x ++ "]"
  | RMapString x => "std::collections::HashMap<String, " ++ render_rty x ++ ">"
  | RMapStr lt x => (if lt then "std::collections::HashMap<&'a str, " else "std::collections::HashMap<&str, ")
                    ++ render_rty x ++ ">"
  | RRef x => "&" ++ render_rty x
  | RNamed n => n
  end.

(* the generator's four type tables (codegen.rs fn type_to_rust, type_to_rust_param_elem,
   type_to_rust_param, type_to_rust_output) as abstract types *)
Fixpoint ty_rust (t : idl_ty) : rty :=
  match t with
  | TBool => RBool | TInt => RI64 | TFloat => RF64 | TString => RString
  | TObject _ => RValue
  | TEnum _ => RString
  | TArray e => RVec (ty_rust e)
  | TMap v => RMapString (ty_rust v)
  | TForeign => RValue
  | TOptional i => ROption (ty_rust i)
  | TCustom n => RNamed (type_ident n)
  end.

Fixpoint ty_param_elem (t : idl_ty) : rty :=
  match t with
  | TBool => RBool | TInt => RI64 | TFloat => RF64 | TString => RStrRef false
  | TObject _ => RValue
  | TEnum _ => RStrRef false
  | TArray e => RVec (ty_param_elem e)
  | TMap v => RMapStr false (ty_param_elem v)
  | TForeign => RValue
  | TOptional i => ROption (ty_param_elem i)
  | TCustom n => RNamed (type_ident n)
  end.

Fixpoint ty_param (t : idl_ty) : rty :=
  match t with
  | TBool => RBool | TInt => RI64 | TFloat => RF64 | TString => RStrRef false
  | TObject _ => RRef RValue
  | TEnum _ => RStrRef false
  | TArray e => RSlice (ty_param_elem e)
  | TMap v => RRef (RMapStr false (ty_param_elem v))
  | TForeign => RRef RValue
  | TOptional i => ROption (ty_param i)
  | TCustom n => RRef (RNamed (type_ident n))
  end.

Definition ty_out_elem (t : idl_ty) : rty :=
  match t with
  | TString => RStrRef true
  | TEnum _ => RStrRef true
  | _ => ty_rust t
  end.
Fixpoint ty_output (t : idl_ty) : rty :=
  match t with
  | TBool => RBool | TInt => RI64 | TFloat => RF64 | TString => RStrRef true
  | TObject _ => RValue
  | TEnum _ => RStrRef true
  | TArray e => RVec (ty_out_elem e)
  | TMap v => RMapStr true (ty_out_elem v)
  | TForeign => RValue
  | TOptional i => ROption (ty_output i)
  | TCustom n => RNamed (type_ident n)
  end.

(* the generated definitions of the custom types, as serde sees them: a struct is its members'
   wire names with their types, an enum is its values' wire names *)
Inductive rdef := RStructDef (fs : list (string * rty)) | REnumDef (vs : list string).

Definition custom_name (c : custom_ty) : string :=
  match c with CObject n _ _ => n | CEnum n _ _ => n end.

Definition snake_all : genum := {| ge_name := ""; ge_rename_all := Some "snake_case"; ge_variants := [] |}.

Definition gen_rdef (c : custom_ty) : string * rdef :=
  match c with
  | CObject n fs _ =>
      (type_ident n, RStructDef (map (fun f => (wire_serde_field (gen_field f), ty_rust (f_ty f))) fs))
  | CEnum n vs _ =>
      (type_ident n, REnumDef (map (fun v => wire_variant snake_all (gen_variant v)) vs))
  end.
Definition gen_rdefs (env : list custom_ty) : list (string * rdef) := map gen_rdef env.

(* ------------------------------------------------------------------ JSON shapes *)
Inductive jshape :=
| JBool | JInt | JFloat | JString
| JAny                                   (* any JSON value *)
| JNullable (s : jshape)                 (* null (or, as a member, absent) or s *)
| JArray (s : jshape)
| JMap (s : jshape)                      (* object with arbitrary string keys *)
| JStruct (fs : list (string * jshape))  (* object with exactly these members, in this order *)
| JOneOf (vs : list string)              (* a string among these *)
| JUnknown                               (* a name that is not declared: denotes nothing *)
| JOut.                                  (* recursion budget exhausted (recursive types) *)

Definition find_custom (n : string) (env : list custom_ty) : option custom_ty :=
  find (fun c => String.eqb (custom_name c) n) env.
Definition find_rdef (n : string) (renv : list (string * rdef)) : option rdef :=
  option_map snd (find (fun d => String.eqb (fst d) n) renv).

(* the JSON shape an IDL type denotes (Varlink: int = integer, float, bool, string, object = any
   value, ?T = null/absent or T, []T = array, [string]T = object with string keys, struct = object
   with its fields under their IDL names, enum = string among its values); custom types are looked
   up by name, fuel bounds the unfolding of (ill-formed) recursive definitions *)
Fixpoint idl_shape (fuel : nat) (env : list custom_ty) : idl_ty -> jshape :=
  fix go (t : idl_ty) : jshape :=
    match t with
    | TBool => JBool | TInt => JInt | TFloat => JFloat | TString => JString | TForeign => JAny
    | TOptional x => JNullable (go x)
    | TArray x => JArray (go x)
    | TMap x => JMap (go x)
    | TEnum vs => JOneOf (map fst vs)
    | TObject fs =>
        JStruct ((fix gf (fs : list (string * idl_ty * comments)) : list (string * jshape) :=
                    match fs with
                    | [] => []
                    | x :: r => let '(n, t, _) := x in (n, go t) :: gf r
                    end) fs)
    | TCustom n =>
        match fuel with
        | O => JOut
        | S k =>
            match find_custom n env with
            | None => JUnknown
            | Some (CObject _ fs _) => JStruct (map (fun f => (f_name f, idl_shape k env (f_ty f))) fs)
            | Some (CEnum _ vs _) => JOneOf (map fst vs)
            end
        end
    end.

(* the JSON shape of a Rust type under serde / serde_json: integers and floats as numbers, String and
   &str as strings, Value as any value, Option as null-or-value, Vec and slices as arrays, HashMap
   with string keys as objects, references transparently, derived structs as objects with their
   (renamed) members, derived unit enums as their (renamed) variant strings *)
Fixpoint rust_shape (fuel : nat) (renv : list (string * rdef)) : rty -> jshape :=
  fix go (r : rty) : jshape :=
    match r with
    | RBool => JBool | RI64 => JInt | RF64 => JFloat
    | RString => JString | RStrRef _ => JString
    | RValue => JAny
    | ROption x => JNullable (go x)
    | RVec x | RSlice x => JArray (go x)
    | RMapString x | RMapStr _ x => JMap (go x)
    | RRef x => go x
    | RNamed n =>
        match fuel with
        | O => JOut
        | S k =>
            match find_rdef n renv with
            | None => JUnknown
            | Some (RStructDef fs) => JStruct (map (fun d => (fst d, rust_shape k renv (snd d))) fs)
            | Some (REnumDef vs) => JOneOf vs
            end
        end
    end.

(* "the Rust type carries exactly the IDL shape". With strict = false two widenings are allowed, which
   are what the generator does for INLINE types: serde_json::Value carries any value (inline struct)
   and String/&str carries any string (inline enum). An undeclared name denotes nothing. *)
Fixpoint shape_le (strict : bool) (a b : jshape) {struct a} : bool :=
  match a, b with
  | JUnknown, _ => true
  | JAny, JAny => true
  | JStruct _, JAny => negb strict
  | JOneOf _, JString => negb strict
  | JBool, JBool | JInt, JInt | JFloat, JFloat | JString, JString | JOut, JOut => true
  | JNullable x, JNullable y | JArray x, JArray y | JMap x, JMap y => shape_le strict x y
  | JStruct fa, JStruct fb =>
      (fix go (fa fb : list (string * jshape)) : bool :=
         match fa, fb with
         | [], [] => true
         | x :: ra, y :: rb => String.eqb (fst x) (fst y) && shape_le strict (snd x) (snd y) && go ra rb
         | _, _ => false
         end) fa fb
  | JOneOf va, JOneOf vb => strs_eqb va vb
  | _, _ => false
  end.

(* no inline struct / enum anywhere *)
Fixpoint no_inline (t : idl_ty) : bool :=
  match t with
  | TOptional x | TArray x | TMap x => no_inline x
  | TEnum _ | TObject _ => false
  | _ => true
  end.
Definition custom_no_inline (c : custom_ty) : bool :=
  match c with
  | CObject _ fs _ => forallb (fun f => no_inline (f_ty f)) fs
  | CEnum _ _ _ => true
  end.
