(* Proofs about the code generator model. *)
From ZV Require Import Codegen.IdlTy Codegen.Names gen.Keywords Codegen.Codegen.
Open Scope string_scope.

Definition fld (n : string) (t : idl_ty) : ifield := (n, t, []).
Definition meth (n : string) (i o : list ifield) : imethod :=
  {| m_name := n; m_inputs := i; m_outputs := o; m_comments := [] |}.

(* witnesses of the pinned tree's defects *)
Definition w_iface : iface :=
  {| i_name := "org.example.w";
     i_methods := [meth "GetURL" [fld "userId" TInt] [fld "theURL" TString]; meth "Get2FA" [] []];
     i_types := [CEnum "Family" [("IPv4", []); ("IPv6", [])] []; CObject "Rec" [fld "try" TInt] []];
     i_errors := [{| e_name := "NotOK"; e_fields := [fld "reasonCode" TInt]; e_comments := [] |}];
     i_comments := [] |}.
