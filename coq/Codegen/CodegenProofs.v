(* Proofs about the code generator model: every name of a legal interface reaches the wire under
   its IDL spelling (through the proxy macro / serde / ReplyError models of Codegen.v), and the
   generator's keyword list covers the Rust Reference's. *)
From ZV Require Import Codegen.IdlTy Codegen.Names gen.Keywords gen.MacroLocals Codegen.Codegen.
From Coq Require Import Lia.
Open Scope string_scope.

(* ------------------------------------------------------------------ small library facts *)
Lemma strs_eqb_refl l : strs_eqb l l = true.
Proof.
  induction l as [|x l IH]; [reflexivity|]. unfold strs_eqb in *. cbn [list_eqb].
  now rewrite String.eqb_refl, IH.
Qed.

Lemma mem_In s l : mem s l = true <-> In s l.
Proof.
  unfold mem. rewrite existsb_exists. split.
  - intros [x [Hin Heq]]. apply String.eqb_eq in Heq. now subst.
  - intros Hin. exists s. split; [assumption|apply String.eqb_refl].
Qed.

Lemma all2_map {A B} (p : A -> B -> bool) (f : A -> B) (l : list A) :
  all2 p l (map f l) = forallb (fun x => p x (f x)) l.
Proof. induction l as [|x l IH]; [reflexivity|]. cbn [all2 map forallb]. now rewrite IH. Qed.

Lemma all2_app {A B} (p : A -> B -> bool) a a' b b' :
  all2 p a b = true -> all2 p a' b' = true -> all2 p (a ++ a') (b ++ b') = true.
Proof.
  revert b; induction a as [|x a IH]; intros [|y b] H H'; cbn in *; try discriminate; auto.
  apply andb_prop in H as [H1 H2]. now rewrite H1, (IH _ H2 H').
Qed.

Lemma forallb_impl {A} (p q : A -> bool) l :
  (forall x, In x l -> p x = true -> q x = true) -> forallb p l = true -> forallb q l = true.
Proof.
  intros H Hp. apply forallb_forall. intros x Hx. apply H; [assumption|].
  now apply (proj1 (forallb_forall p l) Hp).
Qed.

(* ------------------------------------------------------------------ identifiers *)
(* a legal field name is not of the form r#... *)
Lemma unraw_field_name n : field_name_ok n = true -> unraw n = n.
Proof.
  intros H. destruct n as [|a [|b rest]]; try reflexivity. unfold unraw.
  destruct (Ascii.eqb a "r") eqn:Ea; [|reflexivity].
  destruct (Ascii.eqb b "#") eqn:Eb; [|reflexivity].
  apply Ascii.eqb_eq in Ea, Eb. subst. vm_compute in H. discriminate.
Qed.

Lemma unraw_type_name n : type_name_ok n = true -> unraw n = n.
Proof.
  intros H. destruct n as [|a [|b rest]]; try reflexivity. unfold unraw.
  destruct (Ascii.eqb a "r") eqn:Ea; [|reflexivity].
  apply Ascii.eqb_eq in Ea. subst. vm_compute in H. discriminate.
Qed.

(* every keyword the generator cannot write raw is in its keyword list (regenerated lists) *)
Lemma unrawable_are_keywords :
  forallb (fun k => mem k generator_keywords) generator_unrawable = true.
Proof. vm_compute. reflexivity. Qed.

Lemma not_keyword_escape n : is_rust_keyword n = false -> escape_ident n = n.
Proof.
  intros H. unfold escape_ident. rewrite H.
  destruct (is_unrawable n) eqn:U; [|reflexivity].
  exfalso. unfold is_unrawable in U. apply mem_In in U.
  pose proof (proj1 (forallb_forall _ _) unrawable_are_keywords n U) as K.
  unfold is_rust_keyword in H. congruence.
Qed.

(* ------------------------------------------------------------------ fields *)
Lemma wire_gen_field f : field_legal f = true -> wire_serde_field (gen_field f) = f_name f.
Proof.
  intros L. unfold field_legal in L. apply andb_prop in L as [L _].
  unfold wire_serde_field, gen_field. cbn [gf_rename gf_ident].
  destruct (is_rust_keyword (to_snake_case (f_name f))) eqn:K; cbn [orb some_if]; [reflexivity|].
  destruct (String.eqb (to_snake_case (f_name f)) (f_name f)) eqn:E; cbn [negb some_if]; [|reflexivity].
  apply String.eqb_eq in E. rewrite E in *. rewrite (not_keyword_escape _ K). now apply unraw_field_name.
Qed.

Lemma wire_gen_error_field f : field_legal f = true -> wire_error_field (gen_error_field f) = f_name f.
Proof.
  intros L. unfold wire_error_field, gen_error_field, gen_field. cbn [gf_rename gf_ident].
  destruct (is_rust_keyword (to_snake_case (f_name f))) eqn:K; cbn [orb some_if]; [reflexivity|].
  destruct (String.eqb (to_snake_case (f_name f)) (f_name f)) eqn:E; cbn [negb some_if]; [|reflexivity].
  apply String.eqb_eq in E. rewrite E in *. now apply not_keyword_escape.
Qed.

Lemma wire_gen_output_field lt f : wire_serde_field (gen_output_field lt f) = f_name f.
Proof.
  unfold wire_serde_field, gen_output_field. cbn [gf_rename gf_ident].
  destruct (String.eqb (unraw (escape_ident (to_snake_case (f_name f)))) (f_name f)) eqn:E;
    cbn [negb some_if]; [|reflexivity].
  now apply String.eqb_eq in E.
Qed.

Lemma wire_gen_param f : field_legal f = true -> wire_param (gen_param f) = f_name f.
Proof.
  intros L. unfold field_legal in L. apply andb_prop in L as [L _].
  unfold wire_param, wire_serde_field, gen_param. cbn [gf_rename gf_ident].
  destruct (String.eqb (escape_ident (to_snake_case (f_name f))) (f_name f)) eqn:E;
    cbn [negb some_if]; [|reflexivity].
  apply String.eqb_eq in E. rewrite E. now apply unraw_field_name.
Qed.

Lemma map_wire {A} (w : gfield -> string) (g : A -> gfield) (nm : A -> string) (l : list A) :
  (forall x, In x l -> w (g x) = nm x) -> strs_eqb (map w (map g l)) (map nm l) = true.
Proof.
  intros H. rewrite map_map. rewrite (map_ext_in _ _ _ H). apply strs_eqb_refl.
Qed.

Lemma fields_legal_in fs x : forallb field_legal fs = true -> In x fs -> field_legal x = true.
Proof. intros H Hin. exact (proj1 (forallb_forall _ _) H x Hin). Qed.

(* ------------------------------------------------------------------ methods *)
Lemma wire_gen_method i m :
  wire_method (codegen i) (gen_method m) = i_name i ++ "." ++ m_name m.
Proof.
  unfold wire_method, gen_method, method_rename. cbn [gm_rename gm_ident codegen g_iface].
  destruct (String.eqb (proxy_pascal (method_ident (m_name m))) (m_name m)) eqn:E;
    cbn [negb some_if]; [|reflexivity].
  apply String.eqb_eq in E. now rewrite E.
Qed.

Lemma method_names_hold i : method_names_ok i (codegen i) = true.
Proof.
  unfold method_names_ok. cbn [codegen g_methods]. rewrite map_map.
  rewrite (map_ext _ _ (wire_gen_method i)). apply strs_eqb_refl.
Qed.

Lemma params_hold ms :
  forallb method_legal ms = true -> all2 params_ok ms (map gen_method ms) = true.
Proof.
  intros L. rewrite all2_map. revert L. apply forallb_impl. intros m _ Lm.
  unfold method_legal in Lm. apply andb_prop in Lm as [Lm _]. apply andb_prop in Lm as [_ Li].
  unfold params_ok, gen_method. cbn [gm_params]. apply map_wire.
  intros x Hx. apply wire_gen_param. now apply (fields_legal_in (m_inputs m)).
Qed.

(* ------------------------------------------------------------------ structs *)
Lemma output_struct_ok nm lt outs :
  struct_fields_ok outs {| gs_name := nm; gs_lifetime := lt; gs_fields := map (gen_output_field lt) outs |} = true.
Proof.
  unfold struct_fields_ok. cbn [gs_fields]. apply map_wire. intros x _. apply wire_gen_output_field.
Qed.

Lemma output_structs_hold ms :
  all2 struct_fields_ok (map m_outputs (methods_with_outputs ms)) (flat_map gen_output_struct ms) = true.
Proof.
  induction ms as [|m ms IH]; [reflexivity|].
  unfold methods_with_outputs in *. cbn [filter flat_map]. unfold gen_output_struct at 1.
  destruct (m_outputs m) as [|o os] eqn:O.
  - exact IH.
  - cbn [app]. cbn [map all2]. rewrite O, IH, andb_true_r.
    apply (output_struct_ok _ (outputs_need_lifetime m) (o :: os)).
Qed.

Lemma custom_structs_hold cs :
  forallb custom_legal cs = true ->
  all2 struct_fields_ok (map snd (custom_objects cs)) (gen_custom_structs cs) = true.
Proof.
  induction cs as [|c cs IH]; intros L; [reflexivity|].
  cbn [forallb] in L. apply andb_prop in L as [Lc L]. unfold custom_objects in *. cbn [flat_map].
  destruct c as [n fs co|n vs co]; cbn [gen_custom_structs app map all2 snd].
  - rewrite (IH L), andb_true_r. unfold struct_fields_ok. cbn [gs_fields].
    cbn [custom_legal] in Lc. apply andb_prop in Lc as [_ Lf].
    apply map_wire. intros x Hx. apply wire_gen_field. now apply (fields_legal_in fs).
  - exact (IH L).
Qed.

(* ------------------------------------------------------------------ enum values *)
(* serde applies rename_all to the unraw'd identifier; the generator compares on the identifier as
   written. The two agree whenever the result is a legal name. *)
Lemma serde_snake_unraw id n :
  field_name_ok n = true -> serde_snake_variant id = n -> serde_snake_variant (unraw id) = n.
Proof.
  intros L E. destruct id as [|a [|b rest]]; try exact E. unfold unraw.
  destruct (Ascii.eqb a "r") eqn:Ea; [|exact E].
  destruct (Ascii.eqb b "#") eqn:Eb; [|exact E].
  apply Ascii.eqb_eq in Ea, Eb. subst a b. exfalso.
  (* serde_snake_variant ("r#" ++ rest) starts with r# : not a legal name *)
  unfold serde_snake_variant, s2l in E. cbn [list_ascii_of_string serde_snake_aux] in E.
  rewrite <- E in L. vm_compute in L. discriminate.
Qed.

Lemma wire_gen_variant e v :
  ge_rename_all e = Some "snake_case" -> field_name_ok (fst v) = true ->
  wire_variant e (gen_variant v) = fst v.
Proof.
  intros R L. unfold wire_variant, gen_variant, variant_rename. cbn [gv_rename gv_ident]. rewrite R.
  destruct (String.eqb (serde_snake_variant (variant_ident (fst v))) (fst v)) eqn:E;
    cbn [negb some_if]; [|reflexivity].
  apply String.eqb_eq in E. now apply serde_snake_unraw.
Qed.

Lemma custom_enums_hold cs :
  forallb custom_legal cs = true ->
  all2 enum_values_ok (map snd (custom_enums cs)) (gen_custom_enums cs) = true.
Proof.
  induction cs as [|c cs IH]; intros L; [reflexivity|].
  cbn [forallb] in L. apply andb_prop in L as [Lc L]. unfold custom_enums in *. cbn [flat_map].
  destruct c as [n fs co|n vs co]; cbn [gen_custom_enums app map all2 snd].
  - exact (IH L).
  - rewrite (IH L), andb_true_r. unfold enum_values_ok. cbn [ge_variants].
    cbn [custom_legal] in Lc. apply andb_prop in Lc as [_ Lv].
    rewrite map_map. erewrite map_ext_in; [apply strs_eqb_refl|].
    intros v Hv. apply wire_gen_variant; [reflexivity|].
    exact (proj1 (forallb_forall _ _) Lv v Hv).
Qed.

(* ------------------------------------------------------------------ errors *)
(* the only type-like names among the generator's keywords convert to themselves (regenerated list) *)
Lemma keyword_type_names_are_pascal :
  forallb (fun k => negb (type_name_ok k) || String.eqb (to_pascal_case k) k) generator_keywords = true.
Proof. vm_compute. reflexivity. Qed.

Lemma error_ident_is_name n : type_name_ok n = true -> error_ident n = n.
Proof.
  intros L. unfold error_ident, is_upper_camel_ident. rewrite L. cbn [andb].
  destruct (is_rust_keyword n) eqn:K; cbn [negb]; [|reflexivity].
  unfold is_rust_keyword in K. apply mem_In in K.
  pose proof (proj1 (forallb_forall _ _) keyword_type_names_are_pascal n K) as P. cbn beta in P.
  rewrite L in P. cbn [negb orb] in P. now apply String.eqb_eq in P.
Qed.

Lemma errors_hold i : forallb error_legal (i_errors i) = true -> errors_ok i (codegen i) = true.
Proof.
  intros L. unfold errors_ok. cbn [codegen g_errors].
  destruct (i_errors i) as [|e es] eqn:E; [reflexivity|]. rewrite <- E in *.
  assert (all2 (error_ok (i_name i) {| gerr_name := interface_name_to_rust (i_name i) ++ "Error";
                                        gerr_iface := i_name i;
                                        gerr_variants := map gen_error (i_errors i) |})
               (i_errors i) (map gen_error (i_errors i)) = true) as H.
  { rewrite all2_map. revert L. apply forallb_impl. intros x _ Lx.
    unfold error_legal in Lx. apply andb_prop in Lx as [Ln Lf].
    unfold error_ok, wire_error, gen_error. cbn [gev_ident gev_fields gerr_iface].
    rewrite (error_ident_is_name _ Ln), String.eqb_refl. cbn [andb].
    apply map_wire. intros f Hf. apply wire_gen_error_field. now apply (fields_legal_in (e_fields x)). }
  rewrite E in H |- *. exact H.
Qed.

(* ------------------------------------------------------------------ the theorem *)
Theorem wire_names_hold : forall i, iface_legal i = true -> wire_names_ok i (codegen i) = true.
Proof.
  intros i L. unfold iface_legal in L.
  apply andb_prop in L as [L Le]. apply andb_prop in L as [Lm Lt].
  unfold wire_names_ok.
  rewrite (method_names_hold i). cbn [andb].
  cbn [codegen g_methods g_structs g_enums].
  rewrite (params_hold _ Lm). cbn [andb].
  unfold idl_struct_fields.
  rewrite (all2_app _ _ _ _ _ (output_structs_hold (i_methods i)) (custom_structs_hold _ Lt)). cbn [andb].
  rewrite (custom_enums_hold _ Lt). cbn [andb].
  exact (errors_hold i Le).
Qed.

(* keywords: every strict or reserved keyword that is a legal IDL field name is escaped *)
Theorem keywords_covered :
  forall k, In k reference_keywords -> field_name_ok k = true -> In k generator_keywords.
Proof.
  assert (forallb (fun k => negb (field_name_ok k) || mem k generator_keywords) reference_keywords = true) as H
    by (vm_compute; reflexivity).
  intros k Hin Hl. pose proof (proj1 (forallb_forall _ _) H k Hin) as P. cbn beta in P.
  rewrite Hl in P. cbn [negb orb] in P. now apply mem_In.
Qed.

(* the keywords Rust does not accept as raw identifiers are known to the generator as such *)
Theorem unrawable_covered :
  forall k, In k not_raw_keywords -> In k generator_unrawable.
Proof.
  assert (forallb (fun k => mem k generator_unrawable) not_raw_keywords = true) as H by (vm_compute; reflexivity).
  intros k Hin. apply mem_In. exact (proj1 (forallb_forall _ _) H k Hin).
Qed.

(* every identifier of the macros' emitted code that is a legal IDL name is classified *)
Theorem macro_locals_classified :
  forall l, In l (reply_error_locals ++ proxy_locals) -> field_name_ok l = true ->
  In l known_shadowed_members \/ In l harmless_value_locals.
Proof.
  assert (forallb (fun l => negb (field_name_ok l) || mem l known_shadowed_members || mem l harmless_value_locals)
                  (reply_error_locals ++ proxy_locals) = true) as H by (vm_compute; reflexivity).
  intros l Hin Hl. pose proof (proj1 (forallb_forall _ _) H l Hin) as P. cbn beta in P.
  rewrite Hl in P. cbn [negb orb] in P. apply orb_prop in P as [P|P]; [left|right]; now apply mem_In.
Qed.

Theorem macro_type_names_classified :
  forall t, In t (reply_error_type_names ++ proxy_type_names) -> type_name_ok t = true ->
  In t known_captured_types \/ In t harmless_type_names.
Proof.
  assert (forallb (fun l => negb (type_name_ok l) || mem l known_captured_types || mem l harmless_type_names)
                  (reply_error_type_names ++ proxy_type_names) = true) as H by (vm_compute; reflexivity).
  intros l Hin Hl. pose proof (proj1 (forallb_forall _ _) H l Hin) as P. cbn beta in P.
  rewrite Hl in P. cbn [negb orb] in P. apply orb_prop in P as [P|P]; [left|right]; now apply mem_In.
Qed.

(* ------------------------------------------------------------------ witnesses *)
Definition fld (n : string) (t : idl_ty) : ifield := (n, t, []).
Definition meth (n : string) (i o : list ifield) : imethod :=
  {| m_name := n; m_inputs := i; m_outputs := o; m_comments := [] |}.

(* the interface on which the generator at the pinned commit sent GetUrl / Get2Fa / R#type,
   i_pv6, NotOk and emitted `pub try: i64` *)
Definition w_iface : iface :=
  {| i_name := "org.example.w";
     i_methods := [meth "GetURL" [fld "userId" TInt; fld "self" TBool] [fld "theURL" TString; fld "type" TInt];
                   meth "Get2FA" [] []; meth "Type" [fld "try" (TOptional (TArray TString))] []];
     i_types := [CEnum "Family" [("IPv4", []); ("IPv6", []); ("userId", []); ("NOT_SET", []); ("self", [])] [];
                 CObject "Rec" [fld "try" TInt; fld "crate" TString; fld "theURL" (TCustom "Family")] []];
     i_errors := [{| e_name := "NotOK"; e_fields := [fld "reasonCode" TInt; fld "yield" TInt]; e_comments := [] |};
                  {| e_name := "E2BIG"; e_fields := []; e_comments := [] |}];
     i_comments := [] |}.

(* ------------------------------------------------------------------ custom types never capture an item
   the emitted module refers to without a path (C15.prelude_type_name_capture, repaired).
   `emitted_unqualified_uses` is read off the string literals of codegen.rs on every run (`Name<`,
   `use serde::{..}`, `"Name".to_string()`); `generator_unqualified` is the list inside
   fn is_used_unqualified.  The two obligations computed here are the tie: the generator's list covers
   everything the generator emits without a path, and none of those names ends in `_`. *)
Fixpoint ends_underscore (s : string) : bool :=
  match s with
  | EmptyString => false
  | String c EmptyString => Ascii.eqb c "_"%char
  | String _ r => ends_underscore r
  end.

Lemma ends_underscore_app s : ends_underscore (s ++ "_") = true.
Proof.
  induction s as [|c s IH]; [reflexivity|].
  cbn [append ends_underscore]. destruct (s ++ "_")%string eqn:E.
  - destruct s; discriminate.
  - exact IH.
Qed.

Lemma emitted_uses_covered :
  forallb (fun u => mem u generator_unqualified) emitted_unqualified_uses = true.
Proof. vm_compute. reflexivity. Qed.

Lemma emitted_uses_no_underscore :
  forallb (fun u => negb (ends_underscore u)) emitted_unqualified_uses = true.
Proof. vm_compute. reflexivity. Qed.

Theorem type_ident_never_captures :
  forall n, ~ In (type_ident n) emitted_unqualified_uses.
Proof.
  intros n H. unfold type_ident in H. cbv zeta in H.
  destruct (is_used_unqualified (escape_ident (to_pascal_case n))) eqn:E.
  - pose proof (proj1 (forallb_forall _ _) emitted_uses_no_underscore _ H) as K.
    cbv beta in K. rewrite ends_underscore_app in K. discriminate.
  - pose proof (proj1 (forallb_forall _ _) emitted_uses_covered _ H) as K.
    cbv beta in K. unfold is_used_unqualified in E. rewrite E in K. discriminate.
Qed.

(* and the escape is invisible where it is not needed, and a plain suffix where it is *)
Lemma type_ident_cases n :
  let i := escape_ident (to_pascal_case n) in
  (mem i generator_unqualified = false /\ type_ident n = i) \/
  (mem i generator_unqualified = true /\ type_ident n = (i ++ "_")%string).
Proof.
  cbv zeta. unfold type_ident, is_used_unqualified. cbv zeta.
  destruct (mem (escape_ident (to_pascal_case n)) generator_unqualified); [right | left]; auto.
Qed.

(* ------------------------------------------------------------------ items of the generated module
   The module of one interface defines, side by side in one namespace: the proxy trait, the error enum
   (always, a stub when the interface has no errors), one `<Method>Output` struct per method with
   outputs, and the custom types.  OPEN FINDING C15.generated_item_name_collision: nothing keeps a
   custom type from being called like one of the names the generator invents; the module then defines
   the name twice (E0428).  `item_names_distinct` is what the correspondence check predicts rustc's
   verdict with on every generated interface. *)
Definition module_item_names (g : gmodule) : list string :=
  g_trait g :: g_error_ty g :: map gs_name (g_structs g) ++ map ge_name (g_enums g).

Fixpoint nodupb (l : list string) : bool :=
  match l with
  | [] => true
  | x :: r => negb (mem x r) && nodupb r
  end.

Definition item_names_distinct (i : iface) : bool := nodupb (module_item_names (codegen i)).

Lemma nodupb_NoDup l : nodupb l = true -> NoDup l.
Proof.
  induction l as [|x r IH]; intros H; [constructor|].
  cbn [nodupb] in H. apply andb_prop in H. destruct H as [Hx Hr].
  constructor; [|exact (IH Hr)].
  intros Hin. apply mem_In in Hin. rewrite Hin in Hx. discriminate.
Qed.

Theorem item_names_distinct_sound :
  forall i, item_names_distinct i = true -> NoDup (module_item_names (codegen i)).
Proof. intros i. apply nodupb_NoDup. Qed.

(* three legal interfaces, one per invented name *)
Definition w_collide (t : string) : iface :=
  {| i_name := "org.example.side";
     i_methods := [meth "Run" [fld "cmd" TString] [fld "result" (TCustom t)]];
     i_types := [CObject t [fld "code" TInt] []];
     i_errors := [{| e_name := "Bad"; e_fields := []; e_comments := [] |}];
     i_comments := [] |}.

Theorem item_names_refuted :
  Forall (fun t => iface_legal (w_collide t) = true /\ item_names_distinct (w_collide t) = false)
         ["Side"; "SideError"; "RunOutput"]
  /\ item_names_distinct (w_collide "Config") = true /\ item_names_distinct w_iface = true.
Proof. split; [repeat constructor; vm_compute; reflexivity | split; vm_compute; reflexivity]. Qed.
