(* C12 - lemmas about the proxy model. *)
From ZV Require Import Common.Base Proxy.Proxy.
Open Scope N_scope.

Lemma ser_struct_nil : ser_struct [] = [].
Proof. reflexivity. Qed.
