(* C12 - lemmas about the proxy model (coq/Proxy/Proxy.v). *)
From ZV Require Import Common.Base Proxy.Proxy.
Open Scope N_scope.


(* ------------------------------------------------------------------------------------------ *)
(* snake_case_to_pascal_case *)

Lemma split_us_nonempty : forall s, split_us s <> [].
Proof.
  induction s as [|c s IH]; cbn [split_us].
  - discriminate.
  - destruct (c =? US).
    + discriminate.
    + destruct (split_us s); discriminate.
Qed.

(* the split/map/collect transcription and the single pass agree, on every byte string;
   second component: the same when the scan starts in the middle of a word *)
Lemma pascal_pass_split : forall s,
  concat (map pascal_word (split_us s)) = pascal_pass true s /\
  match split_us s with
  | w :: ws => map low w ++ concat (map pascal_word ws)
  | [] => []
  end = pascal_pass false s.
Proof.
  induction s as [|c s [IHa IHb]]; cbn [split_us pascal_pass].
  - split; reflexivity.
  - destruct (c =? US) eqn:Ec.
    + cbn [map concat pascal_word app]. split; exact IHa.
    + pose proof (split_us_nonempty s) as Hne.
      destruct (split_us s) as [|w ws]; [contradiction|].
      cbn [map concat pascal_word app]. split.
      * rewrite <- IHb. reflexivity.
      * rewrite <- IHb. reflexivity.
Qed.

Lemma pascal_eq_pass : forall s, snake_case_to_pascal_case s = pascal_pass true s.
Proof. intro s. exact (proj1 (pascal_pass_split s)). Qed.

Lemma up_not_us : forall c, c <> US -> up c <> US.
Proof.
  intros c Hc. unfold up, is_lower, US in *.
  destruct (97 <=? c) eqn:E1; cbn [andb]; [|exact Hc].
  destruct (c <=? 122) eqn:E2; [|exact Hc].
  apply N.leb_le in E1. apply N.leb_le in E2. lia.
Qed.

Lemma low_not_us : forall c, c <> US -> low c <> US.
Proof.
  intros c Hc. unfold low, is_upper, US in *.
  destruct (65 <=? c) eqn:E1; cbn [andb]; [|exact Hc].
  destruct (c <=? 90) eqn:E2; [|exact Hc].
  apply N.leb_le in E1. apply N.leb_le in E2. lia.
Qed.

(* the result never contains an underscore (any input) *)
Lemma pascal_pass_no_us : forall s b, ~ In US (pascal_pass b s).
Proof.
  induction s as [|c s IH]; intros b; cbn [pascal_pass].
  - intros [].
  - destruct (c =? US) eqn:Ec.
    + apply IH.
    + apply N.eqb_neq in Ec. intros [H|H].
      * destruct b; [exact (up_not_us c Ec H) | exact (low_not_us c Ec H)].
      * exact (IH false H).
Qed.

Lemma pascal_no_us : forall s, ~ In US (snake_case_to_pascal_case s).
Proof. intro s. rewrite pascal_eq_pass. apply pascal_pass_no_us. Qed.

(* an underscore is a word boundary: conversion is compositional over it (any input) *)
Lemma pascal_pass_app_us : forall a b st,
  pascal_pass st (a ++ US :: b) = pascal_pass st a ++ pascal_pass true b.
Proof.
  induction a as [|c a IH]; intros b st; cbn [app pascal_pass].
  - rewrite N.eqb_refl. reflexivity.
  - destruct (c =? US).
    + apply IH.
    + cbn [app]. f_equal. apply IH.
Qed.

Lemma pascal_app_us : forall a b,
  snake_case_to_pascal_case (a ++ US :: b) = snake_case_to_pascal_case a ++ snake_case_to_pascal_case b.
Proof. intros. rewrite !pascal_eq_pass. apply pascal_pass_app_us. Qed.

(* identifiers of the corpus: [a-z0-9_]* *)
Definition snake_char (c : byte) : bool := is_lower c || is_digit c || (c =? US).
Definition snake (s : bytes) : Prop := Forall (fun c => snake_char c = true) s.

Lemma snake_char_cases : forall c, snake_char c = true ->
  (97 <= c /\ c <= 122) \/ (48 <= c /\ c <= 57) \/ c = US.
Proof.
  intros c H. unfold snake_char, is_lower, is_digit in H.
  apply orb_true_iff in H. destruct H as [H|H].
  - apply orb_true_iff in H. destruct H as [H|H]; apply andb_true_iff in H; destruct H as [H1 H2];
      apply N.leb_le in H1; apply N.leb_le in H2; [left|right; left]; split; assumption.
  - right; right. apply N.eqb_eq. exact H.
Qed.

Lemma low_up_snake : forall c, snake_char c = true -> low (up c) = c.
Proof.
  intros c H. destruct (snake_char_cases c H) as [[H1 H2]|[[H1 H2]|H1]]; unfold up, low, is_lower, is_upper.
  - replace (97 <=? c) with true by (symmetry; apply N.leb_le; lia).
    replace (c <=? 122) with true by (symmetry; apply N.leb_le; lia). cbn [andb].
    replace (65 <=? c - 32) with true by (symmetry; apply N.leb_le; lia).
    replace (c - 32 <=? 90) with true by (symmetry; apply N.leb_le; lia). cbn [andb]. lia.
  - replace (97 <=? c) with false by (symmetry; apply N.leb_gt; lia). cbn [andb].
    replace (65 <=? c) with false by (symmetry; apply N.leb_gt; lia). reflexivity.
  - subst c. reflexivity.
Qed.

Lemma low_snake : forall c, snake_char c = true -> low c = c.
Proof.
  intros c H. destruct (snake_char_cases c H) as [[H1 H2]|[[H1 H2]|H1]]; unfold low, is_upper.
  - replace (c <=? 90) with false by (symmetry; apply N.leb_gt; lia).
    rewrite andb_false_r. reflexivity.
  - replace (65 <=? c) with false by (symmetry; apply N.leb_gt; lia). reflexivity.
  - subst c. reflexivity.
Qed.

Definition not_us (c : byte) : bool := negb (c =? US).

(* letters and digits are kept, in order, only their case changes; underscores disappear *)
Lemma pascal_pass_letters : forall s b, snake s -> map low (pascal_pass b s) = filter not_us s.
Proof.
  induction s as [|c s IH]; intros b Hs; cbn [pascal_pass filter map].
  - reflexivity.
  - inversion Hs as [|c' s' Hc Hs']; subst. unfold not_us at 1.
    destruct (c =? US) eqn:Ec; cbn [negb].
    + apply IH; assumption.
    + cbn [map]. rewrite (IH false Hs'). f_equal.
      destruct b; [apply low_up_snake; exact Hc | rewrite (low_snake c Hc); apply low_snake; exact Hc].
Qed.

Lemma pascal_letters : forall s, snake s ->
  map low (snake_case_to_pascal_case s) = filter not_us s.
Proof. intros s Hs. rewrite pascal_eq_pass. apply pascal_pass_letters; assumption. Qed.

(* a word is capitalised: its first character upper-cased, the rest untouched *)
Definition cap (w : bytes) : bytes := match w with [] => [] | c :: r => up c :: r end.

Lemma map_low_snake : forall w, snake w -> map low w = w.
Proof.
  induction w as [|c w IH]; intros H; cbn [map]; [reflexivity|].
  inversion H; subst. rewrite low_snake by assumption. rewrite IH by assumption. reflexivity.
Qed.

Lemma pascal_word_snake : forall w, snake w -> pascal_word w = cap w.
Proof.
  intros [|c r] H; cbn [pascal_word cap]; [reflexivity|].
  inversion H; subst. rewrite map_low_snake by assumption. reflexivity.
Qed.

Lemma split_us_snake : forall s, snake s -> Forall snake (split_us s).
Proof.
  induction s as [|c s IH]; intros H; cbn [split_us].
  - repeat constructor.
  - inversion H as [|c' s' Hc Hs]; subst. specialize (IH Hs).
    destruct (c =? US).
    + constructor; [constructor | exact IH].
    + destruct (split_us s) as [|w ws].
      * repeat constructor. exact Hc.
      * inversion IH; subst. constructor; [constructor; assumption | assumption].
Qed.

Lemma pascal_words : forall s, snake s ->
  snake_case_to_pascal_case s = concat (map cap (split_us s)).
Proof.
  intros s Hs. unfold snake_case_to_pascal_case. f_equal.
  pose proof (split_us_snake s Hs) as H. induction H as [|w ws Hw _ IH]; cbn [map]; [reflexivity|].
  rewrite pascal_word_snake by assumption. rewrite IH. reflexivity.
Qed.

(* input without underscore is one word: this is what happens to an already-Pascal name *)
Lemma split_us_one : forall s, ~ In US s -> split_us s = [s].
Proof.
  induction s as [|c s IH]; intros H; cbn [split_us]; [reflexivity|].
  destruct (c =? US) eqn:Ec.
  - apply N.eqb_eq in Ec. exfalso. apply H. left. exact Ec.
  - rewrite IH; [reflexivity|]. intro Hin. apply H. right. exact Hin.
Qed.

Lemma pascal_one_word : forall s, ~ In US s -> snake_case_to_pascal_case s = pascal_word s.
Proof.
  intros s H. unfold snake_case_to_pascal_case. rewrite split_us_one by assumption.
  cbn [map concat]. apply app_nil_r.
Qed.

Lemma pascal_reapplied : forall s,
  snake_case_to_pascal_case (snake_case_to_pascal_case s) = pascal_word (snake_case_to_pascal_case s).
Proof. intro s. apply pascal_one_word. apply pascal_no_us. Qed.

Lemma pascal_characterised :
  (forall s, snake_case_to_pascal_case s = pascal_pass true s) /\
  (forall s, ~ In US (snake_case_to_pascal_case s)) /\
  (forall a b, snake_case_to_pascal_case (a ++ US :: b)
               = snake_case_to_pascal_case a ++ snake_case_to_pascal_case b) /\
  (forall s, snake s -> map low (snake_case_to_pascal_case s) = filter not_us s) /\
  (forall s, snake s -> snake_case_to_pascal_case s = concat (map cap (split_us s))).
Proof.
  split; [exact pascal_eq_pass|]. split; [exact pascal_no_us|]. split; [exact pascal_app_us|].
  split; [exact pascal_letters | exact pascal_words].
Qed.

(* ------------------------------------------------------------------------------------------ *)
(* the wire forms *)

Lemma wt_none_option : forall s a, wt s a = true -> is_none a = true -> is_option s = true.
Proof. intros s a Hwt Hn. destruct a; try discriminate. destruct s; try discriminate. reflexivity. Qed.

(* the parameters struct of the shared parameter handling is what the property asks for *)
Lemma fields_spec : forall ps args,
  Forall2 (fun p a => wt (p_shape p) a = true) ps args ->
  ser_struct (fields arginfo_of ps args) = spec_params ps args.
Proof.
  intros ps args H. induction H as [|p a ps args Hwt _ IH]; [reflexivity|].
  cbn [fields spec_params]. unfold ser_struct in *. cbn [flat_map]. rewrite IH. f_equal.
  unfold ser_field, field_of, arginfo_of, wire_name. cbn [f_skip f_val f_key ai_optional ai_serialized ai_name].
  destruct (is_none a) eqn:En.
  - rewrite (wt_none_option _ _ Hwt En). reflexivity.
  - rewrite andb_false_r. reflexivity.
Qed.

Lemma method_path_spec : forall iface d,
  method_path iface d =
  iface ++ [46] ++ match m_rename d with Some r => r | None => pascal_pass true (unraw (m_name d)) end.
Proof. intros. unfold method_path. destruct (m_rename d); [reflexivity|]. rewrite pascal_eq_pass. reflexivity. Qed.

Theorem plain_is_spec : forall iface d args,
  accepted d = true -> args_ok d args ->
  wire_plain iface d args = Some (wire_spec iface d args).
Proof.
  intros iface d args Hacc Hok. unfold wire_plain. rewrite Hacc. f_equal.
  unfold ser_call, plain_members, wire_spec. rewrite method_path_spec.
  unfold args_ok in Hok. rewrite (fields_spec _ _ Hok).
  unfold accepted in Hacc.
  destruct (m_params d) as [|p ps]; destruct (m_oneway d); destruct (m_more d);
    try discriminate; reflexivity.
Qed.

Lemma tagged_is_plain_members : forall info iface d args,
  tagged_members info iface d args = plain_members info iface d args.
Proof. intros. unfold tagged_members, plain_members. destruct (m_params d); reflexivity. Qed.

Theorem chain_is_plain : forall iface d args r,
  wire_chain iface d args = Some r -> wire_plain iface d args = Some r.
Proof.
  intros iface d args r. unfold wire_chain, wire_chain_gen, wire_plain.
  destruct (accepted d); cbn [andb]; [|discriminate].
  destruct (m_oneway d); cbn [negb andb]; [discriminate|].
  rewrite tagged_is_plain_members. intro H. exact H.
Qed.

Theorem ext_is_plain : forall iface d args r,
  wire_ext iface d args = Some r -> wire_plain iface d args = Some r.
Proof.
  intros iface d args r. unfold wire_ext, wire_ext_gen, wire_plain.
  destruct (accepted d); cbn [andb]; [|discriminate].
  destruct (m_oneway d); cbn [negb andb]; [discriminate|].
  destruct (m_more d); cbn [negb andb]; [discriminate|].
  rewrite tagged_is_plain_members. intro H. exact H.
Qed.

(* which forms exist *)
Lemma plain_exists : forall iface d args, wire_plain iface d args <> None <-> accepted d = true.
Proof. intros. unfold wire_plain. destruct (accepted d); split; intro H; congruence. Qed.

Lemma chain_exists : forall iface d args,
  wire_chain iface d args <> None <-> accepted d = true /\ m_oneway d = false.
Proof.
  intros. unfold wire_chain, wire_chain_gen. destruct (accepted d); destruct (m_oneway d); cbn [andb negb];
    split; intro H; try congruence; try (split; reflexivity); destruct H; congruence.
Qed.

Lemma ext_exists : forall iface d args,
  wire_ext iface d args <> None <-> accepted d = true /\ m_oneway d = false /\ m_more d = false.
Proof.
  intros. unfold wire_ext, wire_ext_gen.
  destruct (accepted d); destruct (m_oneway d); destruct (m_more d); cbn [andb negb];
    split; intro H; try congruence; try (repeat split; reflexivity); destruct H as [? [? ?]]; congruence.
Qed.

Lemma forms_exist : forall iface d args,
  (wire_plain iface d args <> None <-> accepted d = true) /\
  (wire_chain iface d args <> None <-> accepted d = true /\ m_oneway d = false) /\
  (wire_ext iface d args <> None <-> accepted d = true /\ m_oneway d = false /\ m_more d = false).
Proof. intros. split; [apply plain_exists | split; [apply chain_exists | apply ext_exists]]. Qed.

(* ---- the generators of the pinned commit 2e9d6f3 did not have the property ---- *)

Definition b_do_it : bytes := [100;111;95;105;116].            (* do_it *)
Definition b_name : bytes := [110;97;109;101].                 (* name *)
Definition b_theName : bytes := [116;104;101;78;97;109;101].   (* theName *)
Definition b_opt : bytes := [111;112;116].                     (* opt *)
Definition b_iface : bytes := [111;114;103;46;101;120].        (* org.ex *)

(* do_it(#[zlink(rename = "theName")] name: &str, opt: Option<u32>) called with ("n", None) *)
Definition d_do_it : mdecl :=
  {| m_name := b_do_it; m_rename := None; m_more := false; m_oneway := false;
     m_params := [ {| p_name := b_name; p_rename := Some b_theName; p_shape := ShStr |};
                   {| p_name := b_opt; p_rename := None; p_shape := ShOpt ShNum |} ] |}.
Definition a_do_it : list aval := [AJ (JStr [110]); ANone].

Lemma chain_v0_refuted : exists iface d args,
  args_ok d args /\ wire_chain_v0 iface d args <> None /\
  wire_chain_v0 iface d args <> wire_plain iface d args.
Proof.
  exists b_iface, d_do_it, a_do_it. split; [|split].
  - repeat constructor.
  - vm_compute. discriminate.
  - vm_compute. discriminate.
Qed.

Lemma ext_v0_refuted : exists iface d args,
  args_ok d args /\ wire_ext_v0 iface d args <> None /\
  wire_ext_v0 iface d args <> wire_plain iface d args.
Proof.
  exists b_iface, d_do_it, a_do_it. split; [|split].
  - repeat constructor.
  - vm_compute. discriminate.
  - vm_compute. discriminate.
Qed.

(* #[zlink(more)] watch(): chain_watch() carried no "more" *)
Definition d_watch : mdecl :=
  {| m_name := [119;97;116;99;104]; m_rename := None; m_more := true; m_oneway := false; m_params := [] |}.

Lemma chain_v0_more_refuted : exists iface d args,
  args_ok d args /\ wire_chain_v0 iface d args <> None /\
  wire_chain_v0 iface d args <> wire_plain iface d args.
Proof.
  exists b_iface, d_watch, []. split; [|split].
  - constructor.
  - vm_compute. discriminate.
  - vm_compute. discriminate.
Qed.

(* ------------------------------------------------------------------------------------------ *)
(* replies *)

Lemma rs_run_one : forall lows,
  rs_run (rs_init 1) lows = (upto_final lows, has_final lows).
Proof.
  induction lows as [|r rest IH]; [reflexivity|].
  cbn [upto_final has_final existsb].
  change (rs_run (rs_init 1) (r :: rest)) with
    (let (items, ended) := rs_run (rs_step (rs_init 1) r) rest in (r :: items, ended)).
  destruct (continues_true r) eqn:Ec.
  - assert (Hl : is_lerr r = false) by (destruct r; try discriminate; reflexivity).
    unfold rs_step. rewrite Hl, Ec. cbn [orb rs_idx rs_count rs_init Nat.leb].
    change {| rs_count := 1; rs_idx := 0; rs_done := false |} with (rs_init 1).
    rewrite IH. reflexivity.
  - cbn [negb orb].
    assert (Hd : rs_done (rs_step (rs_init 1) r) = true).
    { unfold rs_step. rewrite Ec. cbn [rs_done rs_idx rs_count rs_init].
      destruct (is_lerr r); reflexivity. }
    destruct rest as [|r' rest']; cbn [rs_run]; rewrite Hd; reflexivity.
Qed.

(* class of the result = class the low-level receive assigned *)
Definition same_class (r : lowres) (o : outcome) : Prop :=
  match r, o with
  | LErr e, OErr e' => e = e'
  | LMErr e, OMErr e' => e = e'
  | LReply (Some v) _, OOk v' => v = v' \/ v' = P_UNIT
  | LReply None _, OOk v' => v' = P_UNIT
  | LReply None _, OErr e' => e' = E_MISSING
  | _, _ => False
  end.

Lemma map_reply_class : forall u r, same_class r (map_reply u r).
Proof.
  intros u r. destruct r as [p c|e|e]; cbn [map_reply same_class]; try reflexivity.
  destruct u; destruct p; cbn; auto.
Qed.

Theorem reply_mapping : forall d u,
  (* regular method: one receive, mapped *)
  (m_oneway d = false -> m_more d = false -> forall r rest,
     plain_outcome d u (r :: rest) = [IOut (map_reply u r)]) /\
  (* streaming method: one item per reply up to and including the final one, then the end *)
  (m_oneway d = false -> m_more d = true -> forall lows,
     plain_outcome d u lows =
     map (fun r => IOut (map_reply u r)) (upto_final lows) ++ (if has_final lows then [IEnd] else [])) /\
  (* oneway method: nothing is received *)
  (m_oneway d = true -> forall lows, plain_outcome d u lows = [ISent]) /\
  (* every mapped result is in the class the low-level receive assigned *)
  (forall r, same_class r (map_reply u r)).
Proof.
  intros d u. repeat split.
  - intros Ho Hm r rest. unfold plain_outcome. rewrite Ho, Hm. reflexivity.
  - intros Ho Hm lows. unfold plain_outcome. rewrite Ho, Hm, rs_run_one. reflexivity.
  - intros Ho lows. unfold plain_outcome. rewrite Ho. reflexivity.
  - apply map_reply_class.
Qed.

(* a chain over one owed reply hands out the same replies, unmapped *)
Lemma chain_outcome_one : forall lows,
  chain_outcome 1 lows = map ILow (upto_final lows) ++ (if has_final lows then [IEnd] else []).
Proof. intro lows. unfold chain_outcome. rewrite rs_run_one. reflexivity. Qed.
