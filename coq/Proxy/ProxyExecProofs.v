(* C12 - soundness of the comparison functions used by the correspondence driver: a case that
   checks to 0 really has implementation = model = spec on the compared observables. *)
From ZV Require Import Common.Base Common.Exec Proxy.Proxy Proxy.ProxyExec.
Open Scope N_scope.

Section JvalInd.
  Variable P : jval -> Prop.
  Hypothesis HNull : P JNull.
  Hypothesis HBool : forall b, P (JBool b).
  Hypothesis HNum : forall t, P (JNum t).
  Hypothesis HStr : forall s, P (JStr s).
  Hypothesis HArr : forall l, Forall P l -> P (JArr l).
  Hypothesis HObj : forall m, Forall (fun kv => P (snd kv)) m -> P (JObj m).

  Fixpoint jval_ind' (v : jval) : P v :=
    match v with
    | JNull => HNull
    | JBool b => HBool b
    | JNum t => HNum t
    | JStr s => HStr s
    | JArr l =>
        HArr l ((fix go (l : list jval) : Forall P l :=
                   match l with
                   | [] => Forall_nil P
                   | x :: l' => Forall_cons x (jval_ind' x) (go l')
                   end) l)
    | JObj m =>
        HObj m ((fix go (m : list (bytes * jval)) : Forall (fun kv => P (snd kv)) m :=
                   match m with
                   | [] => Forall_nil _
                   | kv :: m' => Forall_cons kv (jval_ind' (snd kv)) (go m')
                   end) m)
    end.
End JvalInd.

Lemma list_eqb_sound : forall A (eqb : A -> A -> bool),
  (forall x y, eqb x y = true -> x = y) ->
  forall a b, list_eqb eqb a b = true -> a = b.
Proof.
  intros A eqb Heq. induction a as [|x a IH]; intros [|y b] H; try discriminate; [reflexivity|].
  cbn [list_eqb] in H. apply andb_true_iff in H. destruct H as [H1 H2].
  f_equal; [apply Heq; exact H1 | apply IH; exact H2].
Qed.

Lemma bytes_eqb_sound : forall a b, bytes_eqb a b = true -> a = b.
Proof. apply list_eqb_sound. intros x y H. apply N.eqb_eq. exact H. Qed.

Lemma jval_eqb_sound : forall a b, jval_eqb a b = true -> a = b.
Proof.
  induction a as [|x|t|s|l IH|m IH] using jval_ind'; intros v Hb; destruct v; try discriminate.
  - reflexivity.
  - cbn [jval_eqb] in Hb. apply Bool.eqb_prop in Hb. subst. reflexivity.
  - cbn [jval_eqb] in Hb. apply bytes_eqb_sound in Hb. subst. reflexivity.
  - cbn [jval_eqb] in Hb. apply bytes_eqb_sound in Hb. subst. reflexivity.
  - f_equal. simpl in Hb. revert l0 Hb.
    induction IH as [|x l Hx _ IHl]; intros [|y l0] Hb; try discriminate; [reflexivity|].
    apply andb_true_iff in Hb. destruct Hb as [H1 H2].
    f_equal; [apply Hx; exact H1 | apply IHl; exact H2].
  - f_equal. simpl in Hb. revert m0 Hb.
    induction IH as [|[k x] m Hx _ IHm]; intros [|[k' y] m0] Hb; try discriminate; [reflexivity|].
    apply andb_true_iff in Hb. destruct Hb as [H1 H2].
    apply andb_true_iff in H1. destruct H1 as [H0 H1].
    apply bytes_eqb_sound in H0. subst k'.
    f_equal; [f_equal; apply Hx; exact H1 | apply IHm; exact H2].
Qed.

Lemma opt_eqb_sound : forall A (eqb : A -> A -> bool),
  (forall x y, eqb x y = true -> x = y) -> forall a b, opt_eqb eqb a b = true -> a = b.
Proof.
  intros A eqb Heq [x|] [y|] H; try discriminate; [|reflexivity].
  f_equal. apply Heq. exact H.
Qed.

Lemma lowres_eqb_sound : forall a b, lowres_eqb a b = true -> a = b.
Proof.
  intros [p c|e|e] [q d|f|f] H; try discriminate; cbn [lowres_eqb] in H.
  - apply andb_true_iff in H. destruct H as [H1 H2].
    apply (opt_eqb_sound _ N.eqb) in H1; [|intros x y Hxy; apply N.eqb_eq; exact Hxy].
    apply (opt_eqb_sound _ Bool.eqb) in H2; [|intros x y Hxy; apply Bool.eqb_prop; exact Hxy].
    subst. reflexivity.
  - apply N.eqb_eq in H. subst. reflexivity.
  - apply N.eqb_eq in H. subst. reflexivity.
Qed.

Lemma outcome_eqb_sound : forall a b, outcome_eqb a b = true -> a = b.
Proof.
  intros [x|x|x] [y|y|y] H; try discriminate; cbn [outcome_eqb] in H;
    apply N.eqb_eq in H; subst; reflexivity.
Qed.

Lemma item_eqb_sound : forall a b, item_eqb a b = true -> a = b.
Proof.
  intros [x|x| | |x] [y|y| | |y] H; try discriminate; cbn [item_eqb] in H; try reflexivity.
  - apply outcome_eqb_sound in H. subst. reflexivity.
  - apply lowres_eqb_sound in H. subst. reflexivity.
  - apply N.eqb_eq in H. subst. reflexivity.
Qed.

(* a case that checks to 0: the frames the implementation wrote are the model's and the spec's,
   and what it returned is what the reply model says *)
Theorem check_sound : forall c, check c = 0 ->
  pc_frames c = model_frames c /\ pc_frames c = spec_frames c /\ pc_out c = model_out c.
Proof.
  intros c H. unfold check in H.
  destruct (list_eqb jval_eqb (pc_frames c) (model_frames c)) eqn:E1;
  destruct (list_eqb jval_eqb (pc_frames c) (spec_frames c)) eqn:E2;
  destruct (list_eqb item_eqb (pc_out c) (model_out c)) eqn:E3; try discriminate.
  split; [|split].
  - apply (list_eqb_sound _ jval_eqb jval_eqb_sound). exact E1.
  - apply (list_eqb_sound _ jval_eqb jval_eqb_sound). exact E2.
  - apply (list_eqb_sound _ item_eqb item_eqb_sound). exact E3.
Qed.
