(* Correspondence driver for C12: evaluates model and spec on one observed call and compares with
   what the generated code put on the wire / returned. *)
From ZV Require Import Common.Base Common.Exec Proxy.Proxy.
Open Scope N_scope.

Fixpoint jval_eqb (a b : jval) : bool :=
  match a, b with
  | JNull, JNull => true
  | JBool x, JBool y => Bool.eqb x y
  | JNum x, JNum y => bytes_eqb x y
  | JStr x, JStr y => bytes_eqb x y
  | JArr x, JArr y =>
      (fix go (x y : list jval) : bool :=
         match x, y with
         | [], [] => true
         | p :: x', q :: y' => jval_eqb p q && go x' y'
         | _, _ => false
         end) x y
  | JObj x, JObj y =>
      (fix go (x y : list (bytes * jval)) : bool :=
         match x, y with
         | [], [] => true
         | (k, p) :: x', (l, q) :: y' => bytes_eqb k l && jval_eqb p q && go x' y'
         | _, _ => false
         end) x y
  | _, _ => false
  end.

Definition opt_eqb {A} (eqb : A -> A -> bool) (a b : option A) : bool :=
  match a, b with
  | None, None => true
  | Some x, Some y => eqb x y
  | _, _ => false
  end.

Definition lowres_eqb (a b : lowres) : bool :=
  match a, b with
  | LReply p c, LReply q d => opt_eqb N.eqb p q && opt_eqb Bool.eqb c d
  | LMErr x, LMErr y => x =? y
  | LErr x, LErr y => x =? y
  | _, _ => false
  end.

Definition outcome_eqb (a b : outcome) : bool :=
  match a, b with
  | OOk x, OOk y => x =? y
  | OMErr x, OMErr y => x =? y
  | OErr x, OErr y => x =? y
  | _, _ => false
  end.

Definition item_eqb (a b : item) : bool :=
  match a, b with
  | IOut x, IOut y => outcome_eqb x y
  | ILow x, ILow y => lowres_eqb x y
  | IEnd, IEnd => true
  | ISent, ISent => true
  | IOther x, IOther y => x =? y
  | _, _ => false
  end.

Inductive form := FPlain | FChain | FExt.

Record pcase := {
  pc_iface : bytes;
  pc_decl : mdecl;
  pc_args : list aval;
  pc_form : form;
  pc_unit : bool;                (* the method's output type is () *)
  pc_frames : list jval;         (* implementation: every frame written, parsed, in order *)
  pc_lows : list lowres;         (* low-level classification of the scripted reply bytes *)
  pc_out : list item             (* implementation: what the call returned / the stream yielded *)
}.

(* the chain the extension forms extend starts with this call (driver prelude: Dummy::Ping) *)
Definition dummy_frame : jval :=
  JObj [(s_method, JStr [111;114;103;46;101;120;97;109;112;108;101;46;100;117;109;109;121;46;80;105;110;103])].

Definition frames_of (c : pcase) (w : option jval) : list jval :=
  match w with
  | None => []      (* the macro generates no such form: the driver never calls it *)
  | Some v => match pc_form c with FExt => [dummy_frame; v] | _ => [v] end
  end.

Definition model_wire (c : pcase) : option jval :=
  match pc_form c with
  | FPlain => wire_plain (pc_iface c) (pc_decl c) (pc_args c)
  | FChain => wire_chain (pc_iface c) (pc_decl c) (pc_args c)
  | FExt => wire_ext (pc_iface c) (pc_decl c) (pc_args c)
  end.

Definition model_frames (c : pcase) : list jval := frames_of c (model_wire c).
Definition spec_frames (c : pcase) : list jval :=
  frames_of c (Some (wire_spec (pc_iface c) (pc_decl c) (pc_args c))).

Definition model_out (c : pcase) : list item :=
  match pc_form c with
  | FPlain => plain_outcome (pc_decl c) (pc_unit c) (pc_lows c)
  | FChain => chain_outcome 1 (pc_lows c)
  | FExt => chain_outcome 2 (pc_lows c)
  end.

(* 0 = implementation, model and spec agree;
   bit 0: frames differ from the model; bit 1: frames differ from the spec;
   bit 2: the outcome differs from the reply-mapping model *)
Definition check (c : pcase) : N :=
  (if list_eqb jval_eqb (pc_frames c) (model_frames c) then 0 else 1) +
  (if list_eqb jval_eqb (pc_frames c) (spec_frames c) then 0 else 2) +
  (if list_eqb item_eqb (pc_out c) (model_out c) then 0 else 4).
