(* The proxy macro's test "this parameter is spelled Option<..>: omit it when None"
   (zlink-macros/src/utils.rs, fn is_option_type), over the syntax of a parameter type as far as the
   function looks at it.  What it looks through and which paths it accepts is translated from the source
   on every run (gen/OptionType.v).

   A parenthesised type `(T)` and a type that reached the macro through a macro fragment (`$t:ty`, which
   syn presents as Type::Group) are the type T.  Before /repo 170f192 the function answered `false` for
   both, so `(Option<u32>)` was not optional to the macro and None would have gone out as null. *)
From Coq Require Import List String Bool Arith.
From ZV Require Import gen.OptionType.
Import ListNotations.
Open Scope string_scope.

Inductive rty :=
| RPath (segments : list string)     (* a path type; generic arguments are not looked at *)
| RParen (t : rty)                   (* ( T ) *)
| RGroup (t : rty)                   (* T delimited by an invisible group (macro fragment) *)
| ROther.                            (* reference, slice, array, tuple, pointer, ... *)

Fixpoint join (l : list string) : string :=
  match l with
  | [] => ""
  | [a] => a
  | a :: r => a ++ "::" ++ join r
  end.

Definition ends_with (s suf : string) : bool :=
  let n := String.length s in
  let k := String.length suf in
  Nat.leb k n && String.eqb (substring (n - k) k s) suf.

(* :195-209 *)
Definition path_is_option (segs : list string) : bool :=
  match segs with
  | [] => false
  | [a] => String.eqb a single_name
  | _ => let p := join segs in
         existsb (String.eqb p) exact_paths || existsb (ends_with p) suffix_paths
  end.

(* :188-194, parametric in what the function looks through *)
Fixpoint is_option_with (paren group : bool) (t : rty) : bool :=
  match t with
  | RPath segs => path_is_option segs
  | RParen t' => if paren then is_option_with paren group t' else false
  | RGroup t' => if group then is_option_with paren group t' else false
  | ROther => false
  end.
Definition is_option : rty -> bool := is_option_with through_paren through_group.

(* the type a spelling denotes: grouping removed *)
Fixpoint strip (t : rty) : rty :=
  match t with
  | RParen t' | RGroup t' => strip t'
  | _ => t
  end.

(* the property's reading: a parameter is optional iff the type it denotes is a path to Option *)
Definition spelled_option (t : rty) : bool :=
  match strip t with
  | RPath segs => path_is_option segs
  | _ => false
  end.

Lemma is_option_with_true_strip : forall t, is_option_with true true t = is_option_with true true (strip t).
Proof. induction t as [segs|t IH|t IH|]; cbn [is_option_with strip]; auto. Qed.

Theorem option_detection_ignores_grouping : forall t, is_option t = is_option (strip t).
Proof.
  intro t. unfold is_option.
  change through_paren with true. change through_group with true.
  apply is_option_with_true_strip.
Qed.

Theorem is_option_is_spec : forall t, is_option t = spelled_option t.
Proof.
  intro t. rewrite option_detection_ignores_grouping. unfold spelled_option, is_option.
  destruct (strip t) eqn:E; cbn [is_option_with]; try reflexivity.
  - (* strip never returns a parenthesised type *)
    exfalso. clear -E. induction t as [segs|t IH|t IH|]; cbn [strip] in E; try discriminate; auto.
  - exfalso. clear -E. induction t as [segs|t IH|t IH|]; cbn [strip] in E; try discriminate; auto.
Qed.

(* spellings used by the pinned statements *)
Definition ex_paren_option : rty := RParen (RPath ["Option"]).                          (* (Option<..>) *)
Definition ex_group_core : rty := RGroup (RPath ["core"; "option"; "Option"]).           (* $t = core::option::Option<..> *)
Definition ex_group_paren_std : rty := RGroup (RParen (RPath ["std"; "option"; "Option"])).
Definition ex_paren_my : rty := RParen (RPath ["my"; "Option"]).                         (* (my::Option<..>) *)

(* before 170f192: neither wrapper was looked through *)
Lemma grouping_refuted_without :
  is_option_with false false ex_paren_option = false /\
  is_option_with false false ex_group_core = false /\
  spelled_option ex_paren_option = true.
Proof. repeat split; vm_compute; reflexivity. Qed.
