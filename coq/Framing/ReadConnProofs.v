(* Proofs about the ReadConnection model: the read loop, frame delivery, and the framing theorem
   (C01), buffer bound (C17, inbound). *)
From ZV Require Import Framing.ReadConn.

(* ---------- list / framing lemmas (no section variables) ---------- *)

Lemma last_is_nul_app a b : b <> [] -> last_is_nul (a ++ b) = last_is_nul b.
Proof.
  intros Hb. unfold last_is_nul. rewrite rev_app_distr.
  destruct (rev b) eqn:E; [|reflexivity].
  exfalso. apply Hb. apply (f_equal (@rev _)) in E. now rewrite rev_involutive in E.
Qed.

Lemma last_is_nul_term f : last_is_nul (term f) = true.
Proof. unfold term. rewrite last_is_nul_app by discriminate. reflexivity. Qed.

Lemma last_is_nul_cons b l : l <> [] -> last_is_nul (b :: l) = last_is_nul l.
Proof. intros H. change (b :: l) with ([b] ++ l). now apply last_is_nul_app. Qed.

Lemma wire_cons f fs : wire (f :: fs) = f ++ 0%N :: wire fs.
Proof. unfold wire, term. cbn. now rewrite <- app_assoc. Qed.

Lemma wire_app a b : wire (a ++ b) = wire a ++ wire b.
Proof. unfold wire. now rewrite map_app, concat_app. Qed.

Lemma wire_nil_inv fs : wire fs = [] -> fs = [].
Proof. destruct fs as [|f fs]; [reflexivity|]. rewrite wire_cons. destruct f; discriminate. Qed.

Lemma last_is_nul_wire fs : fs <> [] -> last_is_nul (wire fs) = true.
Proof.
  induction fs as [|f fs IH]; [congruence|]. intros _.
  destruct fs as [|g fs].
  - unfold wire. cbn. rewrite app_nil_r. apply last_is_nul_term.
  - change (wire (f :: g :: fs)) with (term f ++ wire (g :: fs)).
    rewrite last_is_nul_app.
    + apply IH. discriminate.
    + rewrite wire_cons. destruct g; discriminate.
Qed.

(* a prefix p of  f ++ 0 :: w  that ends in NUL, with f NUL-free, contains f ++ [0] *)
Lemma prefix_nul_split : forall (f p q w : list byte),
  nul_free f -> p ++ q = f ++ 0%N :: w -> p <> [] -> last_is_nul p = true ->
  exists p', p = f ++ 0%N :: p' /\ p' ++ q = w.
Proof.
  induction f as [|b f IH]; intros p q w Hf Heq Hp Hl.
  - destruct p as [|c p]; [congruence|]. cbn in Heq. inversion Heq; subst. now exists p.
  - inversion Hf as [|? ? Hb Hf']; subst.
    destruct p as [|c p]; [congruence|]. cbn in Heq. inversion Heq; subst c.
    destruct p as [|c p].
    + exfalso. unfold last_is_nul in Hl. cbn in Hl. destruct b; [congruence|discriminate].
    + rewrite last_is_nul_cons in Hl by discriminate.
      destruct (IH (c :: p) q w Hf' H1 ltac:(discriminate) Hl) as (p' & Hp' & Hq).
      exists p'. split; [|assumption]. cbn. now rewrite Hp'.
Qed.

(* a non-empty prefix of a wire of good frames that ends in NUL is the wire of a prefix *)
Lemma wire_prefix_nul : forall fs p q,
  Forall frame_ok fs -> p ++ q = wire fs -> p <> [] -> last_is_nul p = true ->
  exists fs1 fs2, fs = fs1 ++ fs2 /\ fs1 <> [] /\ p = wire fs1 /\ q = wire fs2.
Proof.
  induction fs as [|f fs IH]; intros p q Hok Heq Hp Hl.
  - destruct p; [congruence|discriminate].
  - inversion Hok as [|? ? [Hne Hnf] Hok']; subst.
    rewrite wire_cons in Heq.
    destruct (prefix_nul_split f p q (wire fs) Hnf Heq Hp Hl) as (p' & -> & Hq).
    destruct p' as [|c p'].
    + exists [f], fs. repeat split; try discriminate; auto.
      unfold wire. cbn. now rewrite app_nil_r.
    + assert (Hl' : last_is_nul (c :: p') = true).
      { rewrite <- Hl. symmetry.
        replace (f ++ 0%N :: c :: p') with ((f ++ [0%N]) ++ c :: p')
          by (now rewrite <- app_assoc).
        apply last_is_nul_app. discriminate. }
      destruct (IH (c :: p') q Hok' Hq ltac:(discriminate) Hl') as (fs1 & fs2 & -> & Hn1 & Hp1 & Hq2).
      exists (f :: fs1), fs2. repeat split; try discriminate; auto.
      rewrite wire_cons, Hp1. reflexivity.
Qed.

Lemma skipn_add {A} (a b : nat) (l : list A) : skipn (a + b) l = skipn b (skipn a l).
Proof.
  revert l. induction a as [|a IH]; intros l; [reflexivity|].
  destruct l as [|x l]; cbn [Nat.add skipn]; [now rewrite skipn_nil|apply IH].
Qed.

Lemma upto_nul_frame f w : nul_free f -> upto_nul (f ++ 0%N :: w) = f.
Proof.
  induction 1 as [|b f Hb Hf IH]; cbn; [reflexivity|].
  destruct b; [congruence|]. now rewrite IH.
Qed.

Lemma after_nul_frame f w : nul_free f -> after_nul (f ++ 0%N :: w) = w.
Proof.
  induction 1 as [|b f Hb Hf IH]; cbn; [reflexivity|].
  destruct b; [congruence|]. exact IH.
Qed.

(* ---------- the model ---------- *)

Section Proofs.
Variables (step limit : N).
Variable D : Type.
Variable decode : list byte -> D.
Hypothesis step_pos : (0 < step)%N.

Notation read_loop := (read_loop step limit D).
Notation read_from_socket := (read_from_socket step limit D).
Notation poll_receive := (poll_receive step limit D decode).
Notation receive := (receive step limit D decode).
Notation run := (run step limit D decode).
Notation deliver := (deliver D decode).
Notation LOk := (LOk D).
Notation LPend := (LPend D).
Notation LErr := (LErr D).

Definition cap_ok (s : st) : Prop := (N.of_nat (length (data s)) < cap s)%N.

Lemma payload_cons_rest space bs tr' :
  payload (cons_rest space bs tr') = skipn space bs ++ payload tr'.
Proof. unfold cons_rest. destruct (skipn space bs); reflexivity. Qed.

Lemma length_cons_rest space (bs : list byte) tr' :
  length (cons_rest space bs tr') <= S (length tr').
Proof. unfold cons_rest. destruct (skipn space bs); cbn; lia. Qed.

Lemma ok_cons_rest space (bs : list byte) tr' :
  Forall ok_ev tr' -> Forall ok_ev (cons_rest space bs tr').
Proof.
  intros H. unfold cons_rest. destruct (skipn space bs) eqn:E; [assumption|].
  constructor; [exact I|assumption].
Qed.

Lemma cons_rest_app space bs tr' tl : cons_rest space bs (tr' ++ tl) = cons_rest space bs tr' ++ tl.
Proof. unfold cons_rest. destruct (skipn space bs); reflexivity. Qed.

Lemma payload_app a b : payload (a ++ b) = payload a ++ payload b.
Proof.
  induction a as [|e a IH]; [reflexivity|]. destruct e; cbn; rewrite IH; auto using app_assoc.
Qed.

(* Characterisation of the read loop on a script of Data/Pend events followed by Eof. *)
Lemma read_loop_spec : forall fuel (s : st) tr tl',
  mpos s = 0 -> cap_ok s -> Forall ok_ev tr ->
  (N.of_nat (length (data s) + length (payload tr)) < limit)%N ->
  length (payload tr) + length tr < fuel ->
  match read_loop fuel s (tr ++ Eof :: tl') with
  | (ReadConn.LOk _, s', rest) => exists p tr', rest = tr' ++ Eof :: tl' /\ p <> []
        /\ data s' = data s ++ p /\ last_is_nul p = true
        /\ payload tr = p ++ payload tr' /\ mpos s' = 0 /\ cap_ok s' /\ Forall ok_ev tr'
        /\ length tr' <= length tr
  | (ReadConn.LPend _, s', rest) => exists p tr', rest = tr' ++ Eof :: tl'
        /\ data s' = data s ++ p /\ (p = [] \/ last_is_nul p = false)
        /\ payload tr = p ++ payload tr' /\ mpos s' = 0 /\ cap_ok s' /\ Forall ok_ev tr'
        /\ length tr' < length tr
  | (ReadConn.LErr _ REof, s', rest) => exists p, rest = Eof :: tl'
        /\ data s' = data s ++ p /\ (p = [] \/ last_is_nul p = false)
        /\ payload tr = p /\ mpos s' = 0 /\ cap_ok s'
  | (ReadConn.LErr _ _, _, _) => False
  end.
Proof.
  induction fuel as [|fuel IH]; intros s tr tl' Hm Hc Hok Hlim Hf; [lia|].
  cbn [ReadConn.read_loop].
  destruct tr as [|e tr'].
  { cbn [app]. exists []. rewrite app_nil_r. cbn [payload]. repeat split; auto. }
  inversion Hok as [|? ? He Hok']; subst.
  destruct e as [bs| | |]; cbn in He; try contradiction.
  2:{ cbn [app]. exists [], tr'. cbn. rewrite app_nil_r. repeat split; auto. }
  destruct bs as [|b bs]; [contradiction|].
  set (bs' := b :: bs) in *.
  cbn [app].
  set (space := N.to_nat (cap s) - length (data s)).
  assert (Hsp : 0 < space) by (unfold cap_ok in Hc; subst space; lia).
  destruct (Nat.eqb space 0) eqn:Esp; [apply Nat.eqb_eq in Esp; lia|].
  set (take := firstn space bs').
  rewrite cons_rest_app.
  set (tr'' := cons_rest space bs' tr').
  assert (Htake : take <> []).
  { subst take bs'. destruct space; [lia|]. cbn. discriminate. }
  assert (Hsplit : bs' = take ++ skipn space bs') by (symmetry; apply firstn_skipn).
  assert (Hpay : payload (Data bs' :: tr') = take ++ payload tr'').
  { cbn [payload]. subst tr''. rewrite payload_cons_rest, app_assoc, <- Hsplit. reflexivity. }
  assert (Hlt : length take <= space) by (subst take; apply firstn_le_length).
  assert (Htl : 0 < length take) by (destruct take; [congruence|cbn; lia]).
  assert (Hlen3 : length tr'' <= S (length tr')) by apply length_cons_rest.
  assert (Hlen'' : length (payload tr'') + length tr'' < fuel).
  { rewrite Hpay, app_length in Hf. cbn [length] in Hf. lia. }
  assert (Hok'' : Forall ok_ev tr'') by (apply ok_cons_rest; assumption).
  rewrite Hpay in Hlim. rewrite app_length in Hlim.
  (* the two branches differ only in the new capacity *)
  assert (Hgen : forall c', (N.of_nat (length (data s ++ take)) < c')%N ->
     match (if last_is_nul take then (LOk, mk c' (mpos s) (data s ++ take), tr'' ++ Eof :: tl')
            else read_loop fuel (mk c' (mpos s) (data s ++ take)) (tr'' ++ Eof :: tl')) with
     | (ReadConn.LOk _, s', rest) => exists p tr0, rest = tr0 ++ Eof :: tl' /\ p <> []
        /\ data s' = data s ++ p /\ last_is_nul p = true
        /\ payload (Data bs' :: tr') = p ++ payload tr0 /\ mpos s' = 0 /\ cap_ok s' /\ Forall ok_ev tr0
        /\ length tr0 <= length (Data bs' :: tr')
     | (ReadConn.LPend _, s', rest) => exists p tr0, rest = tr0 ++ Eof :: tl'
        /\ data s' = data s ++ p /\ (p = [] \/ last_is_nul p = false)
        /\ payload (Data bs' :: tr') = p ++ payload tr0 /\ mpos s' = 0 /\ cap_ok s' /\ Forall ok_ev tr0
        /\ length tr0 < length (Data bs' :: tr')
     | (ReadConn.LErr _ REof, s', rest) => exists p, rest = Eof :: tl'
        /\ data s' = data s ++ p /\ (p = [] \/ last_is_nul p = false)
        /\ payload (Data bs' :: tr') = p /\ mpos s' = 0 /\ cap_ok s'
     | (ReadConn.LErr _ _, _, _) => False
     end).
  { intros c' Hc'. destruct (last_is_nul take) eqn:El.
    - exists take, tr''. cbn [data mpos cap length]. repeat split; auto; try lia.
    - specialize (IH (mk c' (mpos s) (data s ++ take)) tr'' tl').
      cbn [mpos data cap] in IH. unfold cap_ok in IH; cbn [data cap] in IH.
      specialize (IH Hm Hc' Hok'').
      rewrite app_length in IH.
      assert (Hl2 : (N.of_nat (length (data s) + length take + length (payload tr'')) < limit)%N) by lia.
      specialize (IH Hl2 Hlen'').
      destruct (read_loop fuel _ (tr'' ++ Eof :: tl')) as [[r s'] rest]. destruct r as [|r|].
      + destruct IH as (p & tr0 & Hr & Hp & Hd & Hn & Hpp & Hm' & Hc0 & Hok0 & Hl0).
        exists (take ++ p), tr0. repeat split; auto.
        * intros X. apply app_eq_nil in X. tauto.
        * rewrite Hd. cbn. now rewrite app_assoc.
        * rewrite last_is_nul_app; auto.
        * rewrite Hpay, Hpp. now rewrite app_assoc.
        * cbn [length]. lia.
      + destruct r; try contradiction.
        destruct IH as (p & Hr & Hd & Hn & Hpp & Hm' & Hc0).
        exists (take ++ p). repeat split; auto.
        * rewrite Hd. cbn. now rewrite app_assoc.
        * right. destruct Hn as [->|Hn]; [now rewrite app_nil_r|].
          destruct p as [|x p]; [now rewrite app_nil_r|]. rewrite last_is_nul_app; auto. discriminate.
        * rewrite Hpay, Hpp. reflexivity.
      + destruct IH as (p & tr0 & Hr & Hd & Hn & Hpp & Hm' & Hc0 & Hok0 & Hsh).
        exists (take ++ p), tr0. repeat split; auto.
        * rewrite Hd. cbn. now rewrite app_assoc.
        * right. destruct Hn as [->|Hn]; [now rewrite app_nil_r|].
          destruct p as [|x p]; [now rewrite app_nil_r|]. rewrite last_is_nul_app; auto. discriminate.
        * rewrite Hpay, Hpp. now rewrite app_assoc.
        * cbn [length]. lia. }
  destruct (N.of_nat (length (data s ++ take)) =? cap s)%N eqn:Ecap.
  - apply N.eqb_eq in Ecap.
    destruct (limit <=? cap s)%N eqn:Elim.
    + apply N.leb_le in Elim. rewrite app_length in Ecap. lia.
    + apply Hgen. lia.
  - apply N.eqb_neq in Ecap. apply Hgen.
    rewrite app_length in *. unfold cap_ok in Hc. subst space. lia.
Qed.


(* ---------- delivery ---------- *)

Definition buffered (s : st) (fsb : list (list byte)) : Prop :=
  match fsb with
  | [] => mpos s = 0 /\ data s = []
  | _ => 0 < mpos s /\ skipn (mpos s) (data s) = wire fsb
  end.

Lemma skipn_frame (f w : list byte) : skipn (length f + 1) (f ++ 0%N :: w) = w.
Proof. induction f as [|b f IH]; cbn; [reflexivity|exact IH]. Qed.

Lemma wire_head_nonzero g fs : frame_ok g ->
  exists b w, wire (g :: fs) = b :: w /\ b <> 0%N.
Proof.
  intros [Hne Hnf]. destruct g as [|b g]; [congruence|].
  inversion Hnf; subst. rewrite wire_cons. cbn. eauto.
Qed.

Lemma deliver_spec s f fsb :
  Forall frame_ok (f :: fsb) ->
  skipn (mpos s) (data s) = wire (f :: fsb) ->
  deliver s = (Msg (decode f),
               match fsb with
               | [] => mk (cap s) 0 []
               | _ => mk (cap s) (mpos s + length f + 1) (data s)
               end).
Proof.
  intros Hok Hsk. inversion Hok as [|? ? [Hne Hnf] Hok']; subst.
  unfold ReadConn.deliver. rewrite Hsk, wire_cons.
  rewrite upto_nul_frame, after_nul_frame by assumption.
  destruct fsb as [|g fsb]; [reflexivity|].
  inversion Hok' as [|? ? Hg _]; subst.
  destruct (wire_head_nonzero g fsb Hg) as (b & w & -> & Hb).
  destruct b; [congruence|reflexivity].
Qed.

Lemma deliver_buffered s f fsb :
  Forall frame_ok (f :: fsb) ->
  skipn (mpos s) (data s) = wire (f :: fsb) ->
  buffered (snd (deliver s)) fsb /\ cap (snd (deliver s)) = cap s
  /\ length (data (snd (deliver s))) <= length (data s).
Proof.
  intros Hok Hsk. rewrite (deliver_spec s f fsb Hok Hsk). cbn [snd].
  destruct fsb as [|g fsb]; cbn [buffered mpos data cap length]; [repeat split; auto; lia|].
  repeat split; try lia.
  rewrite <- Nat.add_assoc, skipn_add.
  rewrite Hsk, wire_cons. apply skipn_frame.
Qed.

Definition lim_ok (s : st) (tr : list ev) : Prop :=
  (N.of_nat (length (data s) + length (payload tr)) < limit)%N.

(* receive from a state with nothing buffered (possibly with a partial frame already read) *)
Lemma receive_clean : forall polls fuel s tr tl' f rest,
  mpos s = 0 -> cap_ok s -> Forall ok_ev tr ->
  (data s = [] \/ last_is_nul (data s) = false) ->
  Forall frame_ok (f :: rest) ->
  data s ++ payload tr = wire (f :: rest) ->
  lim_ok s tr ->
  length tr < polls -> length (payload tr) + length tr < fuel ->
  exists s' tr' fsb fsr,
    receive polls fuel s (tr ++ Eof :: tl') = Some (Msg (decode f), s', tr' ++ Eof :: tl')
    /\ rest = fsb ++ fsr /\ buffered s' fsb /\ cap_ok s' /\ Forall ok_ev tr'
    /\ payload tr' = wire fsr /\ lim_ok s' tr'
    /\ length tr' <= length tr
    /\ length (payload tr') <= length (payload tr).
Proof.
  induction polls as [|polls IH]; intros fuel s tr tl' f rest Hm Hc Hok Hd Hfr Hw Hlim Hp Hf; [lia|].
  cbn [ReadConn.receive]. unfold ReadConn.poll_receive, ReadConn.read_from_socket.
  rewrite Hm. cbn [Nat.eqb].
  pose proof (read_loop_spec fuel s tr tl' Hm Hc Hok Hlim Hf) as Hspec.
  destruct (read_loop fuel s (tr ++ Eof :: tl')) as [[r s1] rest1].
  destruct r as [|r|].
  - destruct Hspec as (p & tr0 & -> & Hpne & Hd1 & Hn & Hpp & Hm1 & Hc1 & Hok0 & Hl0).
    assert (Hw' : (data s ++ p) ++ payload tr0 = wire (f :: rest)).
    { rewrite <- Hw, Hpp. now rewrite app_assoc. }
    assert (Hne' : data s ++ p <> []) by (intros X; apply app_eq_nil in X; tauto).
    assert (Hl' : last_is_nul (data s ++ p) = true) by (rewrite last_is_nul_app; auto).
    destruct (wire_prefix_nul (f :: rest) _ _ Hfr Hw' Hne' Hl') as (fs1 & fs2 & Hsplit & Hn1 & Hp1 & Hq2).
    destruct fs1 as [|f' fsb]; [congruence|]. cbn in Hsplit. inversion Hsplit; subst f' rest.
    assert (Hok1 : Forall frame_ok (f :: fsb)).
    { change (f :: fsb ++ fs2) with ((f :: fsb) ++ fs2) in Hfr. apply Forall_app in Hfr. tauto. }
    assert (Hsk : skipn (mpos s1) (data s1) = wire (f :: fsb)).
    { rewrite Hm1. cbn [skipn]. now rewrite Hd1. }
    pose proof (deliver_spec s1 f fsb Hok1 Hsk) as Hdel.
    destruct (deliver_buffered s1 f fsb Hok1 Hsk) as (Hb & Hcap & Hlen).
    destruct (deliver s1) as [r2 s2] eqn:Ed. cbn [snd] in *.
    inversion Hdel; subst r2.
    exists s2, tr0, fsb, fs2. repeat split; auto.
    + congruence.
    + unfold cap_ok in *. rewrite Hcap. lia.
    + unfold lim_ok in *. rewrite Hd1, app_length in Hlen.
      rewrite Hpp, app_length in Hlim. lia.
    + rewrite Hpp, app_length. lia.
  - destruct r; try contradiction.
    exfalso. destruct Hspec as (p & -> & Hd1 & Hn & Hpp & Hm1 & Hc1).
    rewrite Hpp in Hw.
    assert (Hl : last_is_nul (data s ++ p) = true)
      by (rewrite Hw; apply last_is_nul_wire; discriminate).
    destruct p as [|x p].
    + rewrite app_nil_r in *. destruct Hd as [Hd|Hd]; [|congruence].
      rewrite Hd in Hw. symmetry in Hw. apply wire_nil_inv in Hw. discriminate.
    + destruct Hn as [Hn|Hn]; [discriminate|].
      rewrite last_is_nul_app in Hl by discriminate. congruence.
  - destruct Hspec as (p & tr0 & -> & Hd1 & Hn & Hpp & Hm1 & Hc1 & Hok0 & Hl0).
    destruct (tr0 ++ Eof :: tl') as [|e0 l0] eqn:E.
    { apply app_eq_nil in E. destruct E; discriminate. }
    rewrite <- E.
    assert (Hd' : data s1 = [] \/ last_is_nul (data s1) = false).
    { rewrite Hd1. destruct Hn as [->|Hn]; [now rewrite app_nil_r|].
      destruct p as [|x p]; [now rewrite app_nil_r|]. right.
      rewrite last_is_nul_app; auto. discriminate. }
    assert (Hw1 : data s1 ++ payload tr0 = wire (f :: rest)).
    { rewrite Hd1, <- Hw, Hpp. now rewrite app_assoc. }
    assert (Hlim1 : lim_ok s1 tr0).
    { unfold lim_ok in *. rewrite Hd1, app_length. rewrite Hpp, app_length in Hlim. lia. }
    assert (Hf1 : length (payload tr0) + length tr0 < fuel).
    { rewrite Hpp, app_length in Hf. lia. }
    destruct (IH fuel s1 tr0 tl' f rest Hm1 Hc1 Hok0 Hd' Hfr Hw1 Hlim1 ltac:(lia) Hf1)
      as (s' & tr' & fsb & fsr & Hrec & Hrest & Hb & Hc' & Hok' & Hpay' & Hlim' & Hlen' & Hpl').
    exists s', tr', fsb, fsr. repeat split; auto; try lia.
    rewrite Hpp, app_length. lia.
Qed.

(* receive from a state that still has complete frames buffered: no transport access *)
Lemma receive_buffered polls fuel s tr f fsb :
  0 < mpos s -> Forall frame_ok (f :: fsb) ->
  skipn (mpos s) (data s) = wire (f :: fsb) ->
  receive (S polls) fuel s tr = Some (Msg (decode f), snd (deliver s), tr).
Proof.
  intros Hm Hok Hsk. cbn [ReadConn.receive]. unfold ReadConn.poll_receive, ReadConn.read_from_socket.
  destruct (Nat.eqb (mpos s) 0) eqn:E; [apply Nat.eqb_eq in E; lia|].
  rewrite (deliver_spec s f fsb Hok Hsk). reflexivity.
Qed.

Definition is_pend (e : ev) : Prop := match e with Pend => True | _ => False end.

Lemma payload_nil_pend tr : Forall ok_ev tr -> payload tr = [] -> Forall is_pend tr.
Proof.
  induction 1 as [|e tr He Hok IH]; intros Hp; [constructor|].
  destruct e as [bs| | |]; cbn in He; try contradiction.
  - destruct bs; [contradiction|discriminate].
  - constructor; [exact I|]. apply IH. exact Hp.
Qed.

Lemma receive_eof : forall tr polls fuel s tl',
  Forall is_pend tr -> mpos s = 0 -> length tr < polls -> 0 < fuel ->
  receive polls fuel s (tr ++ Eof :: tl') = Some (REof, s, Eof :: tl').
Proof.
  induction tr as [|e tr IH]; intros polls fuel s tl' Hp Hm Hpolls Hfuel;
    (destruct polls as [|polls]; [cbn in Hpolls; lia|]);
    (destruct fuel as [|fuel]; [lia|]).
  - cbn [app ReadConn.receive]. unfold ReadConn.poll_receive, ReadConn.read_from_socket.
    rewrite Hm. reflexivity.
  - inversion Hp as [|? ? He Hp']; subst. destruct e; try contradiction.
    cbn [app ReadConn.receive]. unfold ReadConn.poll_receive, ReadConn.read_from_socket.
    rewrite Hm. cbn [Nat.eqb ReadConn.read_loop].
    destruct (tr ++ Eof :: tl') as [|e0 l0] eqn:E.
    { apply app_eq_nil in E. destruct E; discriminate. }
    rewrite <- E. apply IH; auto. cbn in Hpolls. lia.
Qed.

(* the specification of n successive receives on a stream of frames followed by end-of-stream *)
Definition spec (n : nat) (fs : list (list byte)) : list (rres D) :=
  firstn n (map (fun f => Msg (decode f)) fs ++ repeatn REof n).

Lemma firstn_repeatn {A} (x : A) : forall k m, k <= m -> firstn k (repeatn x m) = repeatn x k.
Proof.
  induction k as [|k IH]; intros m Hm; [reflexivity|].
  destruct m as [|m]; [lia|]. cbn [repeatn firstn]. f_equal. apply IH. lia.
Qed.

Lemma spec_cons n f fs : spec (S n) (f :: fs) = Msg (decode f) :: spec n fs.
Proof.
  unfold spec. cbn [map app firstn]. f_equal.
  rewrite !firstn_app. f_equal. rewrite !firstn_repeatn by lia. reflexivity.
Qed.

Lemma spec_nil n : spec n [] = repeatn REof n.
Proof. unfold spec. cbn [map app]. apply firstn_repeatn. lia. Qed.

Lemma run_eof : forall n polls fuel s tl', mpos s = 0 -> 0 < polls -> 0 < fuel ->
  map fst (run n polls fuel s (Eof :: tl')) = repeatn REof n.
Proof.
  induction n as [|n IH]; intros polls fuel s tl' Hm Hp Hf; [reflexivity|].
  cbn [ReadConn.run].
  pose proof (receive_eof [] polls fuel s tl' ltac:(constructor) Hm Hp Hf) as Hr.
  cbn [app] in Hr. rewrite Hr.
  cbn [map fst repeatn]. f_equal. now apply IH.
Qed.

Theorem run_frames : forall n fsb fsr s tr tl' polls fuel,
  buffered s fsb -> cap_ok s -> Forall ok_ev tr -> payload tr = wire fsr ->
  Forall frame_ok (fsb ++ fsr) -> lim_ok s tr ->
  length tr < polls -> length (payload tr) + length tr < fuel ->
  map fst (run n polls fuel s (tr ++ Eof :: tl')) = spec n (fsb ++ fsr).
Proof.
  induction n as [|n IH]; intros fsb fsr s tr tl' polls fuel Hb Hc Hok Hpay Hfr Hlim Hp Hf; [reflexivity|].
  destruct polls as [|polls]; [lia|].
  destruct fsb as [|f fsb].
  - destruct Hb as [Hm Hd]. cbn [app] in *.
    destruct fsr as [|f rest].
    + (* end of stream *)
      rewrite spec_nil. cbn [ReadConn.run].
      assert (Hpend : Forall is_pend tr) by (apply payload_nil_pend; auto).
      rewrite (receive_eof tr (S polls) fuel s tl') by (auto; lia).
      cbn [map fst repeatn]. f_equal. apply run_eof; auto; lia.
    + assert (Hw : data s ++ payload tr = wire (f :: rest)) by (now rewrite Hd, Hpay).
      destruct (receive_clean (S polls) fuel s tr tl' f rest Hm Hc Hok (or_introl Hd) Hfr Hw Hlim Hp Hf)
        as (s' & tr' & fsb' & fsr' & Hrec & -> & Hb' & Hc' & Hok' & Hpay' & Hlim' & Hlen' & Hpl').
      rewrite spec_cons. cbn [ReadConn.run]. rewrite Hrec. cbn [map fst]. f_equal.
      apply IH; auto; try lia.
      inversion Hfr; assumption.
  - destruct Hb as [Hm Hsk].
    assert (Hok1 : Forall frame_ok (f :: fsb)) by (apply Forall_app in Hfr; tauto).
    cbn [app]. rewrite spec_cons. cbn [ReadConn.run].
    rewrite (receive_buffered polls fuel s _ f fsb Hm Hok1 Hsk). cbn [map fst]. f_equal.
    destruct (deliver_buffered s f fsb Hok1 Hsk) as (Hb' & Hcap & Hlen).
    apply IH; auto.
    + unfold cap_ok in *. rewrite Hcap. lia.
    + cbn [app] in Hfr. inversion Hfr; assumption.
    + unfold lim_ok in *. lia.
Qed.

(* the statement of C01 on the model: from a fresh connection *)
Corollary framing_fresh : forall n fs tr tl' polls fuel,
  Forall frame_ok fs -> Forall ok_ev tr -> payload tr = wire fs ->
  (N.of_nat (length (wire fs)) < limit)%N ->
  length tr < polls -> length (wire fs) + length tr < fuel ->
  map fst (run n polls fuel (init step) (tr ++ Eof :: tl')) = spec n fs.
Proof.
  intros n fs tr tl' polls fuel Hfr Hok Hpay Hlim Hp Hf.
  apply (run_frames n [] fs); auto.
  all: try (split; reflexivity).
  all: unfold cap_ok, lim_ok, init; cbn [data cap length Nat.add]; rewrite ?Hpay; auto;
       pose proof step_pos; lia.
Qed.

(* ---- one receive from any state between two receives (used by Chain and Server proofs) ---- *)

Record RInv (polls fuel : nat) (s : st) (fsb : list (list byte)) (tr : list ev)
            (fsr : list (list byte)) : Prop := {
  ri_buf : buffered s fsb;
  ri_cap : cap_ok s;
  ri_ok : Forall ok_ev tr;
  ri_pay : payload tr = wire fsr;
  ri_frames : Forall frame_ok (fsb ++ fsr);
  ri_lim : lim_ok s tr;
  ri_polls : length tr < polls;
  ri_fuel : length (payload tr) + length tr < fuel
}.

Lemma receive_step : forall polls fuel s fsb tr fsr tl' f rest,
  RInv polls fuel s fsb tr fsr -> fsb ++ fsr = f :: rest ->
  exists s' tr' fsb' fsr',
    receive polls fuel s (tr ++ Eof :: tl') = Some (Msg (decode f), s', tr' ++ Eof :: tl')
    /\ RInv polls fuel s' fsb' tr' fsr' /\ fsb' ++ fsr' = rest.
Proof.
  intros polls fuel s fsb tr fsr tl' f rest [Hb Hc Hok Hpay Hfr Hlim Hp Hf] Hsplit.
  destruct polls as [|polls]; [lia|].
  destruct fsb as [|f0 fsb].
  - destruct Hb as [Hm Hd]. cbn [app] in *. subst fsr.
    assert (Hw : data s ++ payload tr = wire (f :: rest)) by (now rewrite Hd, Hpay).
    destruct (receive_clean (S polls) fuel s tr tl' f rest Hm Hc Hok (or_introl Hd) Hfr Hw Hlim Hp Hf)
      as (s' & tr' & fsb' & fsr' & Hrec & -> & Hb' & Hc' & Hok' & Hpay' & Hlim' & Hlen' & Hpl').
    exists s', tr', fsb', fsr'. split; [exact Hrec|]. split; [|reflexivity].
    constructor; auto; try lia. inversion Hfr; assumption.
  - cbn [app] in Hsplit. inversion Hsplit; subst f0 rest.
    destruct Hb as [Hm Hsk].
    assert (Hok1 : Forall frame_ok (f :: fsb)) by (apply Forall_app in Hfr; tauto).
    destruct (deliver_buffered s f fsb Hok1 Hsk) as (Hb' & Hcap & Hlen).
    exists (snd (deliver s)), tr, fsb, fsr.
    split; [apply (receive_buffered polls fuel s _ f fsb Hm Hok1 Hsk)|]. split; [|reflexivity].
    constructor; auto.
    + unfold cap_ok in *. rewrite Hcap. lia.
    + cbn [app] in Hfr. inversion Hfr; assumption.
    + unfold lim_ok in *. lia.
Qed.

Lemma RInv_fresh : forall fs tr polls fuel,
  Forall frame_ok fs -> Forall ok_ev tr -> payload tr = wire fs ->
  (N.of_nat (length (wire fs)) < limit)%N ->
  length tr < polls -> length (wire fs) + length tr < fuel ->
  RInv polls fuel (init step) [] tr fs.
Proof.
  intros fs tr polls fuel Hfr Hok Hpay Hlim Hp Hf.
  constructor; auto.
  all: try (split; reflexivity).
  all: unfold cap_ok, lim_ok, init; cbn [data cap length Nat.add app]; rewrite ?Hpay; auto;
       pose proof step_pos; lia.
Qed.

(* the stream of remaining frames as seen by later receives *)
Lemma RInv_run : forall n polls fuel s fsb tr fsr tl',
  RInv polls fuel s fsb tr fsr ->
  map fst (run n polls fuel s (tr ++ Eof :: tl')) = spec n (fsb ++ fsr).
Proof.
  intros n polls fuel s fsb tr fsr tl' [Hb Hc Hok Hpay Hfr Hlim Hp Hf].
  now apply run_frames.
Qed.

End Proofs.

(* ---- corollaries about the specification itself ---- *)
Section SpecFacts.
Variable D : Type.
Variable decode : list byte -> D.

Lemma nth_error_firstn {A} : forall n (l : list A) i,
  nth_error (firstn n l) i = if Nat.ltb i n then nth_error l i else None.
Proof.
  induction n as [|n IH]; intros l i.
  - cbn. destruct i; reflexivity.
  - destruct l as [|x l]; [cbn [firstn]; destruct (Nat.ltb i (S n)); destruct i; reflexivity|].
    destruct i as [|i]; [reflexivity|]. cbn [firstn nth_error]. rewrite IH. reflexivity.
Qed.

Lemma nth_error_replace {A} : forall (l1 : list A) a b l2 i, i <> length l1 ->
  nth_error (l1 ++ a :: l2) i = nth_error (l1 ++ b :: l2) i.
Proof.
  induction l1 as [|x l1 IH]; intros a b l2 i Hi.
  - destruct i as [|i]; [cbn in Hi; congruence|reflexivity].
  - destruct i as [|i]; [reflexivity|]. cbn. apply IH. cbn in Hi. congruence.
Qed.

(* replacing one frame by any other changes the result at that position only *)
Lemma spec_local : forall n fs1 f g fs2 i, i <> length fs1 ->
  nth_error (spec D decode n (fs1 ++ f :: fs2)) i = nth_error (spec D decode n (fs1 ++ g :: fs2)) i.
Proof.
  intros n fs1 f g fs2 i Hi. unfold spec. rewrite !nth_error_firstn.
  destruct (Nat.ltb i n); [|reflexivity].
  rewrite !map_app. cbn [map]. rewrite <- !app_assoc. cbn [app].
  apply nth_error_replace. now rewrite map_length.
Qed.

(* nothing is fabricated, dropped, duplicated or reordered: the results are, in order, the decoded
   frames (a prefix of them when n is smaller), followed by end-of-stream only *)
Lemma firstn_repeatn' {A} (x : A) : forall k m, k <= m -> firstn k (repeatn x m) = repeatn x k.
Proof.
  induction k as [|k IH]; intros m Hm; [reflexivity|].
  destruct m as [|m]; [inversion Hm|]. cbn [repeatn firstn]. f_equal. apply IH. now apply le_S_n.
Qed.

Lemma spec_exact : forall n fs,
  spec D decode n fs
  = map (fun f => Msg (decode f)) (firstn n fs) ++ repeatn REof (n - length fs).
Proof.
  intros n fs. unfold spec. rewrite firstn_app, map_length, firstn_map.
  f_equal. apply firstn_repeatn'. apply Nat.le_sub_l.
Qed.

End SpecFacts.
