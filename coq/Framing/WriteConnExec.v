(* Correspondence driver for the WriteConnection model. *)
From ZV Require Import Common.Exec Framing.WriteConn.

Definition enc_wres (r : wres) : N :=
  match r with WOk => 0 | WOverflow => 2 | WKeyErr => 3 | WIo => 4 | WOutOfFuel => 9 end%N.

Definition enc_wop (x : wres * wst) : list N :=
  [enc_wres (fst x); wcap (snd x); N.of_nat (length (wbuf (snd x)))].

Definition dec_wres (n : N) : wres :=
  (if n =? 0 then WOk else if n =? 2 then WOverflow else if n =? 3 then WKeyErr
   else if n =? 4 then WIo else WOutOfFuel)%N.

Record wcase := {
  wc_step : N; wc_limit : N; wc_K : N;
  wc_ops : list wop;
  wc_script : list bool;          (* transport: accept/fail per write call *)
  wc_accept : bool;               (* the transport accepts every write (hypothesis of C02_framing) *)
  wc_expect : list (list N);      (* implementation: per op [result; buffer.len(); pos] *)
  wc_before : list N;             (* implementation: pos before each op *)
  wc_writes : list (list byte)    (* implementation: transport write calls, in order *)
}.

Definition wmodel (c : wcase) :=
  wrun (wc_step c) (wc_limit c) (N.to_nat (wc_K c) + 1) (winit (wc_step c)) (wc_script c) (wc_ops c).

(* C17 outbound / C02 acceptance rule applied to the implementation's own positions *)
Fixpoint accept_ok (limit : N) (ops : list wop) (before : list N) (res : list N) : bool :=
  match ops, before, res with
  | Enqueue (Good bs) :: ops', p :: bf, r :: rs =>
      (if (p + N.of_nat (length bs) + 1 <=? limit)%N then (r =? 0)%N else (r =? 2)%N)
      && accept_ok limit ops' bf rs
  | Send (Good bs) :: ops', p :: bf, r :: rs =>
      (if (p + N.of_nat (length bs) + 1 <=? limit)%N then negb (r =? 2)%N else (r =? 2)%N)
      && accept_ok limit ops' bf rs
  | _ :: ops', _ :: bf, _ :: rs => accept_ok limit ops' bf rs
  | _, _, _ => true
  end.

(* bit 0: implementation differs from the model (results, capacities, positions, writes);
   bit 1: implementation's writes differ from the abstract queue spec (accepting transports only);
   bit 2: acceptance/refusal differs from "fits under the limit" *)
Definition check (c : wcase) : N :=
  let m := wmodel c in
  let impl_res := map (hd 0%N) (wc_expect c) in
  ((if nn_eqb (map enc_wop (fst m)) (wc_expect c) && nn_eqb (snd m) (wc_writes c) then 0 else 1) +
   (if wc_accept c && negb (nn_eqb (spec_writes [] (wc_ops c) (map dec_wres impl_res)) (wc_writes c))
    then 2 else 0) +
   (if accept_ok (wc_limit c) (wc_ops c) (wc_before c) impl_res then 0 else 4))%N.
