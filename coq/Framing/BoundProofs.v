(* C17 (inbound): the read buffer never exceeds the limit; an unterminated stream of limit bytes
   is refused with an overflow error. *)
From ZV Require Import Framing.ReadConn Framing.ReadConnProofs.

Lemma app_eq_prefix {A} : forall (a b c d : list A),
  a ++ b = c ++ d -> length a <= length c -> exists c', c = a ++ c' /\ b = c' ++ d.
Proof.
  induction a as [|x a IH]; intros b c d H Hl.
  - exists c. split; [reflexivity|exact H].
  - destruct c as [|y c]; [cbn in Hl; lia|]. cbn in H. inversion H; subst.
    destruct (IH b c d H2 ltac:(cbn in Hl; lia)) as (c' & -> & ->).
    exists c'. split; reflexivity.
Qed.

Lemma nul_free_not_last (l : list byte) : nul_free l -> last_is_nul l = false.
Proof.
  intros H. unfold last_is_nul. destruct (rev l) as [|b r] eqn:E; [reflexivity|].
  assert (Hin : In b l) by (apply in_rev; rewrite E; now left).
  unfold nul_free in H. rewrite Forall_forall in H. specialize (H b Hin).
  destruct b; [congruence|reflexivity].
Qed.

Lemma nul_free_app (a b : list byte) : nul_free (a ++ b) -> nul_free a /\ nul_free b.
Proof. unfold nul_free. apply Forall_app. Qed.

Section Bound.
Variables (step limit : N).
Variable D : Type.
Variable decode : list byte -> D.
Hypothesis step_pos : (0 < step)%N.
Variable K : N.
Hypothesis limit_mult : limit = (K * step)%N.
Hypothesis K_pos : (1 <= K)%N.

Notation read_loop := (read_loop step limit D).
Notation read_from_socket := (read_from_socket step limit D).
Notation poll_receive := (poll_receive step limit D decode).
Notation receive := (receive step limit D decode).
Notation run := (run step limit D decode).
Notation drive := (drive step limit D decode).
Notation deliver := (deliver D decode).

(* capacity is a multiple of the step, within the limit, and the data fits *)
Definition Inv (s : st) : Prop :=
  (exists k, cap s = (k * step)%N /\ (1 <= k)%N /\ (k <= K)%N) /\
  (N.of_nat (length (data s)) <= cap s)%N.

Lemma Inv_init : Inv (init step).
Proof.
  split.
  - exists 1%N. unfold init. cbn [cap]. split; [lia|]. split; [lia|exact K_pos].
  - unfold init. cbn [cap data length]. pose proof step_pos. lia.
Qed.

Lemma Inv_cap_le s : Inv s -> (cap s <= limit)%N.
Proof.
  intros [(k & Hc & Hk1 & HkK) _]. rewrite Hc, limit_mult. now apply N.mul_le_mono_r.
Qed.

Lemma grow_ok c k : c = (k * step)%N -> (k <= K)%N -> (c < limit)%N ->
  (c + step = (k + 1) * step)%N /\ (k + 1 <= K)%N.
Proof.
  intros Hc HkK Hlt. split; [lia|].
  rewrite Hc, limit_mult in Hlt. apply N.mul_lt_mono_pos_r in Hlt; [lia|exact step_pos].
Qed.

(* the read loop preserves the invariant for ANY transport behaviour *)
Lemma read_loop_Inv : forall fuel s tr,
  Inv s -> Inv (snd (fst (read_loop fuel s tr))).
Proof.
  induction fuel as [|fuel IH]; intros s tr HI; [exact HI|].
  cbn [ReadConn.read_loop].
  destruct tr as [|e tr']; [exact HI|].
  destruct e as [bs| | |]; try exact HI.
  destruct bs as [|b bs]; [exact HI|].
  set (bs' := b :: bs).
  set (space := N.to_nat (cap s) - length (data s)).
  destruct (Nat.eqb space 0) eqn:Esp; [exact HI|].
  apply Nat.eqb_neq in Esp.
  set (take := firstn space bs').
  assert (Hlt : length take <= space) by (subst take; apply firstn_le_length).
  destruct HI as [(k & Hc & Hk1 & HkK) Hd].
  assert (Hfit : (N.of_nat (length (data s ++ take)) <= cap s)%N).
  { rewrite app_length. subst space. lia. }
  destruct (N.of_nat (length (data s ++ take)) =? cap s)%N eqn:Ecap.
  - destruct (limit <=? cap s)%N eqn:Elim.
    + cbn [fst snd]. split; [exists k; auto|exact Hfit].
    + apply N.leb_gt in Elim.
      destruct (grow_ok (cap s) k Hc HkK Elim) as [Hg Hk'].
      assert (HI' : Inv (mk (cap s + step) (mpos s) (data s ++ take))).
      { split; [exists (k + 1)%N; cbn [cap]; split; [exact Hg|split; lia]|cbn [cap data]; lia]. }
      destruct (last_is_nul take); [exact HI'|apply IH; exact HI'].
  - assert (HI' : Inv (mk (cap s) (mpos s) (data s ++ take))).
    { split; [exists k; cbn [cap]; auto|cbn [cap data]; exact Hfit]. }
    destruct (last_is_nul take); [exact HI'|apply IH; exact HI'].
Qed.

Lemma deliver_Inv s : Inv s -> Inv (snd (deliver s)).
Proof.
  intros [Hk Hd]. unfold ReadConn.deliver. cbn [snd].
  destruct (after_nul (skipn (mpos s) (data s))) as [|b l].
  - split; [exact Hk|cbn; lia].
  - destruct b; (split; [exact Hk|cbn [cap data length]; try lia; exact Hd]).
Qed.

Lemma poll_receive_Inv fuel s tr : Inv s -> Inv (snd (fst (poll_receive fuel s tr))).
Proof.
  intros HI. unfold ReadConn.poll_receive, ReadConn.read_from_socket.
  destruct (Nat.eqb (mpos s) 0).
  - pose proof (read_loop_Inv fuel s tr HI) as H.
    destruct (read_loop fuel s tr) as [[r s'] tr']. cbn [fst snd] in H.
    destruct r; cbn [fst snd]; auto.
    pose proof (deliver_Inv s' H) as H2. destruct (deliver s'); exact H2.
  - pose proof (deliver_Inv s HI) as H2. destruct (deliver s); exact H2.
Qed.

Lemma receive_Inv : forall polls fuel s tr r s' tr',
  Inv s -> receive polls fuel s tr = Some (r, s', tr') -> Inv s'.
Proof.
  induction polls as [|polls IH]; intros fuel s tr r s' tr' HI Hr; [discriminate|].
  cbn [ReadConn.receive] in Hr.
  pose proof (poll_receive_Inv fuel s tr HI) as H.
  destruct (poll_receive fuel s tr) as [[[r0|] s0] tr0]; cbn [fst snd] in H.
  - inversion Hr; subst. exact H.
  - destruct tr0; [discriminate|]. eapply IH; eauto.
Qed.

(* every state the connection goes through has its buffer within the limit - whatever the peer
   sends, however it is chunked, including errors and end-of-stream *)
Theorem inbound_bound : forall n polls fuel s tr,
  Inv s ->
  Forall (fun x => (cap (snd x) <= limit)%N /\ (N.of_nat (length (data (snd x))) <= cap (snd x))%N)
         (run n polls fuel s tr).
Proof.
  induction n as [|n IH]; intros polls fuel s tr HI; [constructor|].
  cbn [ReadConn.run].
  destruct (receive polls fuel s tr) as [[[r s'] tr']|] eqn:Hr; [|constructor].
  pose proof (receive_Inv polls fuel s tr r s' tr' HI Hr) as HI'.
  constructor; [|apply IH; exact HI'].
  cbn [snd]. split; [apply Inv_cap_le; exact HI'|apply HI'].
Qed.

(* ---- overflow: limit bytes without a terminator ---- *)

Definition Inv_lt (s : st) : Prop := Inv s /\ (N.of_nat (length (data s)) < cap s)%N.

Lemma read_loop_over : forall fuel s tr p rest,
  mpos s = 0 -> Inv_lt s -> Forall ok_ev tr -> payload tr = p ++ rest -> nul_free p ->
  (N.of_nat (length (data s) + length p) = limit)%N ->
  length p + length tr < fuel ->
  match read_loop fuel s tr with
  | (ReadConn.LErr _ ROver, s', tr') => cap s' = limit /\ N.of_nat (length (data s')) = limit
  | (ReadConn.LPend _, s', tr') => exists p1 p2, p = p1 ++ p2 /\ data s' = data s ++ p1
       /\ payload tr' = p2 ++ rest /\ Inv_lt s' /\ mpos s' = 0 /\ Forall ok_ev tr'
       /\ length tr' < length tr /\ tr' <> []
  | _ => False
  end.
Proof.
  induction fuel as [|fuel IH]; intros s tr p rest Hm HI Hok Hpay Hnf Hlen Hf; [lia|].
  cbn [ReadConn.read_loop].
  destruct HI as [HI Hltc].
  pose proof (Inv_cap_le s HI) as Hcl.
  assert (Hp : p <> []).
  { intros ->. cbn in Hlen. lia. }
  destruct tr as [|e tr'].
  { cbn in Hpay. destruct p; [congruence|discriminate]. }
  apply Forall_cons_iff in Hok. destruct Hok as [He Hok'].
  destruct e as [bs| | |]; cbn in He; try contradiction.
  2:{ cbn [payload] in Hpay. exists [], p. cbn [app]. rewrite app_nil_r.
      split; [reflexivity|]. split; [reflexivity|]. split; [exact Hpay|].
      split; [split; assumption|]. split; [assumption|]. split; [assumption|].
      split; [cbn [length]; lia|].
      intros ->. cbn in Hpay. destruct p; [congruence|discriminate]. }
  destruct bs as [|b bs]; [contradiction|].
  set (bs' := b :: bs) in *.
  set (space := N.to_nat (cap s) - length (data s)).
  assert (Hsp : 0 < space) by (subst space; lia).
  destruct (Nat.eqb space 0) eqn:Esp; [apply Nat.eqb_eq in Esp; lia|].
  set (take := firstn space bs').
  set (tr'' := cons_rest space bs' tr').
  assert (Htake : take <> []).
  { subst take bs'. destruct space; [lia|]. cbn. discriminate. }
  assert (Hlt : length take <= space) by (subst take; apply firstn_le_length).
  assert (Htl : 0 < length take) by (destruct take; [congruence|cbn; lia]).
  assert (Hlen3 : length tr'' <= S (length tr')) by apply (length_cons_rest step step_pos).
  assert (Hok'' : Forall ok_ev tr'') by (apply ok_cons_rest; assumption).
  assert (Hpay'' : take ++ payload tr'' = p ++ rest).
  { subst tr''. rewrite payload_cons_rest, app_assoc. subst take. rewrite firstn_skipn. exact Hpay. }
  assert (Hle : length take <= length p) by (subst space; lia).
  destruct (app_eq_prefix take (payload tr'') p rest Hpay'' Hle) as (p' & Hpe & Hpay3).
  assert (Hnf' : nul_free take /\ nul_free p') by (apply nul_free_app; rewrite <- Hpe; exact Hnf).
  destruct Hnf' as [Hnft Hnfp'].
  rewrite (nul_free_not_last take Hnft).
  assert (Hlen' : (N.of_nat (length (data s ++ take) + length p') = limit)%N).
  { rewrite app_length. rewrite Hpe, app_length in Hlen. lia. }
  assert (Hf' : length p' + length tr'' < fuel).
  { rewrite Hpe, app_length in Hf. cbn [length] in Hf. lia. }
  (* common continuation for a state that still has room *)
  assert (Hgen : forall c', Inv_lt (mk c' (mpos s) (data s ++ take)) ->
     match read_loop fuel (mk c' (mpos s) (data s ++ take)) tr'' with
     | (ReadConn.LErr _ ROver, s', tr0) => cap s' = limit /\ N.of_nat (length (data s')) = limit
     | (ReadConn.LPend _, s', tr0) => exists p1 p2, p = p1 ++ p2 /\ data s' = data s ++ p1
          /\ payload tr0 = p2 ++ rest /\ Inv_lt s' /\ mpos s' = 0 /\ Forall ok_ev tr0
          /\ length tr0 < length (Data bs' :: tr') /\ tr0 <> []
     | _ => False
     end).
  { intros c' HI'.
    specialize (IH (mk c' (mpos s) (data s ++ take)) tr'' p' rest Hm HI' Hok'' Hpay3 Hnfp' Hlen' Hf').
    destruct (read_loop fuel _ tr'') as [[r s'] tr0]. destruct r as [|r|]; [exact IH| |].
    - destruct r; try contradiction. exact IH.
    - destruct IH as (p1 & p2 & Hp12 & Hd & Hpp & HI2 & Hm2 & Hok2 & Hl2 & Hne2).
      exists (take ++ p1), p2. cbn [data] in Hd.
      split; [rewrite Hpe, Hp12; now rewrite app_assoc|].
      split; [rewrite Hd; now rewrite app_assoc|].
      split; [exact Hpp|]. split; [exact HI2|]. split; [exact Hm2|]. split; [exact Hok2|].
      split; [cbn [length]; lia|exact Hne2]. }
  destruct HI as [(k & Hc & Hk1 & HkK) Hd].
  destruct (N.of_nat (length (data s ++ take)) =? cap s)%N eqn:Ecap.
  - apply N.eqb_eq in Ecap.
    destruct (limit <=? cap s)%N eqn:Elim.
    + apply N.leb_le in Elim. cbn [cap data]. split; lia.
    + apply N.leb_gt in Elim.
      destruct (grow_ok (cap s) k Hc HkK Elim) as [Hg Hk'].
      apply Hgen. split; [split|]; cbn [cap data].
      * exists (k + 1)%N. split; [exact Hg|split; lia].
      * lia.
      * lia.
  - apply N.eqb_neq in Ecap. apply Hgen.
    assert (Hfit : (N.of_nat (length (data s ++ take)) <= cap s)%N)
      by (rewrite app_length; subst space; lia).
    split; [split|]; cbn [cap data]; [exists k; auto|lia|lia].
Qed.

Theorem inbound_overflow : forall polls fuel s tr p rest,
  mpos s = 0 -> Inv_lt s -> Forall ok_ev tr -> payload tr = p ++ rest -> nul_free p ->
  (N.of_nat (length (data s) + length p) = limit)%N ->
  length tr < polls -> length p + length tr < fuel ->
  exists s' tr', receive polls fuel s tr = Some (ROver, s', tr')
                 /\ cap s' = limit /\ N.of_nat (length (data s')) = limit.
Proof.
  induction polls as [|polls IH]; intros fuel s tr p rest Hm HI Hok Hpay Hnf Hlen Hp Hf; [lia|].
  cbn [ReadConn.receive]. unfold ReadConn.poll_receive, ReadConn.read_from_socket.
  rewrite Hm. cbn [Nat.eqb].
  pose proof (read_loop_over fuel s tr p rest Hm HI Hok Hpay Hnf Hlen Hf) as Hs.
  destruct (read_loop fuel s tr) as [[r s1] tr1]. destruct r as [|r|]; [contradiction| |].
  - destruct r; try contradiction. exists s1, tr1. tauto.
  - destruct Hs as (p1 & p2 & Hp12 & Hd & Hpp & HI2 & Hm2 & Hok2 & Hl2 & Hne2).
    destruct tr1 as [|e1 tr1]; [congruence|].
    apply (IH fuel s1 (e1 :: tr1) p2 rest); auto.
    + apply nul_free_app with (a := p1). rewrite <- Hp12. exact Hnf.
    + rewrite Hd, app_length. rewrite Hp12, app_length in Hlen. lia.
    + lia.
    + rewrite Hp12, app_length in Hf. lia.
Qed.

End Bound.
