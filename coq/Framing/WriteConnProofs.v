(* Proofs about the WriteConnection model: outbound framing (C02) and the outbound bound (C17). *)
From ZV Require Import Framing.WriteConn.

Section WProofs.
Variables (step limit : N).
Hypothesis step_pos : (0 < step)%N.
Variable K : N.
Hypothesis limit_mult : limit = (K * step)%N.
Hypothesis K_pos : (1 <= K)%N.

Notation enqueue := (enqueue step limit).
Notation wstep := (wstep step limit).
Notation wrun := (wrun step limit).

Definition wpos (s : wst) : N := N.of_nat (length (wbuf s)).

Definition WInv (s : wst) : Prop :=
  (exists k, wcap s = (k * step)%N /\ (1 <= k)%N /\ (k <= K)%N) /\ (wpos s <= wcap s)%N.

Lemma WInv_init : WInv (winit step).
Proof.
  split.
  - exists 1%N. unfold winit. cbn [wcap]. split; [lia|]. split; [lia|exact K_pos].
  - unfold wpos, winit. cbn [wcap wbuf length]. pose proof step_pos. lia.
Qed.

Lemma WInv_cap_le s : WInv s -> (wcap s <= limit)%N.
Proof. intros [(k & Hc & Hk1 & HkK) _]. rewrite Hc, limit_mult. now apply N.mul_le_mono_r. Qed.

Lemma wgrow_ok c k : c = (k * step)%N -> (k <= K)%N -> (c < limit)%N ->
  (c + step = (k + 1) * step)%N /\ (k + 1 <= K)%N.
Proof.
  intros Hc HkK Hlt. split; [lia|].
  rewrite Hc, limit_mult in Hlt. apply N.mul_lt_mono_pos_r in Hlt; [lia|exact step_pos].
Qed.

(* what enqueue does, for every message, position, capacity: accepted exactly when document plus
   terminator fit under the limit; a refusal leaves the enqueued bytes alone *)
Definition enqueue_post (s : wst) (m : msg) (r : wres) (s' : wst) : Prop :=
  WInv s' /\ (wcap s <= wcap s')%N /\
  match m with
  | Good bs =>
      if (wpos s + N.of_nat (length bs) + 1 <=? limit)%N
      then r = WOk /\ wbuf s' = wbuf s ++ bs ++ [0%N]
      else r = WOverflow /\ wbuf s' = wbuf s
  | BadKey k =>
      wbuf s' = wbuf s /\
      if (wpos s + N.of_nat k <=? limit)%N then r = WKeyErr else r = WOverflow
  end.

Lemma enqueue_spec : forall fuel s m k,
  WInv s -> wcap s = (k * step)%N -> (K - k < N.of_nat fuel)%N ->
  enqueue_post s m (fst (enqueue fuel s m)) (snd (enqueue fuel s m)).
Proof.
  induction fuel as [|fuel IH]; intros s m k HI Hk Hf; [lia|].
  pose proof (WInv_cap_le s HI) as Hcl.
  destruct HI as [(k0 & Hc & Hk1 & HkK) Hp].
  assert (k0 = k).
  { rewrite Hc in Hk. apply N.mul_cancel_r in Hk; [exact Hk|lia]. }
  subst k0.
  assert (HI : WInv s) by (split; [exists k; auto|exact Hp]).
  cbn [WriteConn.enqueue]. fold (wpos s).
  (* the growth step, used by both TooSmall branches *)
  assert (Hgrow : (wcap s < limit)%N -> forall m',
     (match m' with
      | Good bs => (wcap s - wpos s < N.of_nat (length bs))%N
      | BadKey kk => (wcap s - wpos s < N.of_nat kk)%N end) ->
     enqueue_post s m' (fst (enqueue fuel (wmk (wcap s + step) (wbuf s)) m'))
                       (snd (enqueue fuel (wmk (wcap s + step) (wbuf s)) m'))).
  { intros Hlt m' Hsmall.
    destruct (wgrow_ok (wcap s) k Hc HkK Hlt) as [Hg Hk'].
    assert (HI' : WInv (wmk (wcap s + step) (wbuf s))).
    { split; [exists (k + 1)%N; cbn [wcap]; split; [exact Hg|split; lia]|].
      unfold wpos in *. cbn [wcap wbuf]. lia. }
    specialize (IH (wmk (wcap s + step) (wbuf s)) m' (k + 1)%N HI' Hg ltac:(lia)).
    unfold enqueue_post in *. cbn [wcap wbuf] in IH. unfold wpos in *. cbn [wbuf] in IH.
    destruct IH as (H1 & H2 & H3). split; [exact H1|]. split; [lia|exact H3]. }
  destruct m as [bs|kk]; cbn [to_slice].
  - destruct (N.of_nat (length bs) <=? wcap s - wpos s)%N eqn:Efit.
    + apply N.leb_le in Efit.
      destruct (wpos s + N.of_nat (length bs) =? wcap s)%N eqn:Eend.
      * apply N.eqb_eq in Eend.
        destruct (limit <=? wcap s)%N eqn:Elim; cbn [fst snd]; unfold enqueue_post.
        -- apply N.leb_le in Elim. split; [exact HI|]. split; [lia|].
           destruct (wpos s + N.of_nat (length bs) + 1 <=? limit)%N eqn:E;
             [apply N.leb_le in E; lia|auto].
        -- apply N.leb_gt in Elim.
           destruct (wgrow_ok (wcap s) k Hc HkK Elim) as [Hg Hk'].
           split.
           { split; [exists (k + 1)%N; cbn [wcap]; split; [exact Hg|split; lia]|].
             unfold wpos in *. cbn [wcap wbuf]. rewrite !app_length. cbn [length]. lia. }
           split; [cbn [wcap]; lia|].
           destruct (wpos s + N.of_nat (length bs) + 1 <=? limit)%N eqn:E;
             [auto|apply N.leb_gt in E; lia].
      * apply N.eqb_neq in Eend. cbn [fst snd]. unfold enqueue_post.
        split.
        { split; [exists k; cbn [wcap]; auto|].
          unfold wpos in *. cbn [wcap wbuf]. rewrite !app_length. cbn [length]. lia. }
        split; [cbn [wcap]; lia|].
        destruct (wpos s + N.of_nat (length bs) + 1 <=? limit)%N eqn:E;
          [auto|apply N.leb_gt in E; lia].
    + apply N.leb_gt in Efit.
      destruct (limit <=? wcap s)%N eqn:Elim.
      * apply N.leb_le in Elim. cbn [fst snd]. unfold enqueue_post.
        split; [exact HI|]. split; [lia|].
        destruct (wpos s + N.of_nat (length bs) + 1 <=? limit)%N eqn:E;
          [apply N.leb_le in E; lia|auto].
      * apply N.leb_gt in Elim. apply (Hgrow Elim (Good bs)). exact Efit.
  - destruct (N.of_nat kk <=? wcap s - wpos s)%N eqn:Efit.
    + apply N.leb_le in Efit. cbn [fst snd]. unfold enqueue_post.
      split; [exact HI|]. split; [lia|]. split; [reflexivity|].
      destruct (wpos s + N.of_nat kk <=? limit)%N eqn:E; [auto|apply N.leb_gt in E; lia].
    + apply N.leb_gt in Efit.
      destruct (limit <=? wcap s)%N eqn:Elim.
      * apply N.leb_le in Elim. cbn [fst snd]. unfold enqueue_post.
        split; [exact HI|]. split; [lia|]. split; [reflexivity|].
        destruct (wpos s + N.of_nat kk <=? limit)%N eqn:E; [apply N.leb_le in E; lia|auto].
      * apply N.leb_gt in Elim. apply (Hgrow Elim (BadKey kk)). exact Efit.
Qed.

(* fuel K + 1 always suffices: the retry loop terminates *)
Corollary enqueue_post_K : forall s m, WInv s ->
  enqueue_post s m (fst (enqueue (N.to_nat K + 1) s m)) (snd (enqueue (N.to_nat K + 1) s m)).
Proof.
  intros s m HI. destruct HI as [(k & Hc & Hk1 & HkK) Hp].
  apply (enqueue_spec _ s m k); [split; [exists k; auto|exact Hp]|exact Hc|lia].
Qed.

Corollary enqueue_terminates : forall s m, WInv s ->
  fst (enqueue (N.to_nat K + 1) s m) <> WOutOfFuel.
Proof.
  intros s m HI. pose proof (enqueue_post_K s m HI) as (_ & _ & H).
  destruct m as [bs|kk].
  - destruct (wpos s + N.of_nat (length bs) + 1 <=? limit)%N; destruct H as [-> _]; discriminate.
  - destruct H as [_ H]. destruct (wpos s + N.of_nat kk <=? limit)%N; rewrite H; discriminate.
Qed.

(* a refused message changes neither the position nor the bytes already enqueued *)
Corollary refusal_is_noop : forall s m, WInv s ->
  fst (enqueue (N.to_nat K + 1) s m) <> WOk -> wbuf (snd (enqueue (N.to_nat K + 1) s m)) = wbuf s.
Proof.
  intros s m HI Hr. pose proof (enqueue_post_K s m HI) as (_ & _ & H).
  destruct m as [bs|kk].
  - destruct (wpos s + N.of_nat (length bs) + 1 <=? limit)%N; destruct H as [H1 H2]; [congruence|exact H2].
  - apply H.
Qed.

(* ---- refinement of histories to the abstract queue of frames ---- *)

Definition all_accept (script : list bool) : Prop := Forall (fun b => b = true) script.

Lemma flush_accept s script : all_accept script ->
  exists script', all_accept script' /\
  flush s script = (WOk, wmk (wcap s) [], match wbuf s with [] => [] | _ => [wbuf s] end, script').
Proof.
  intros Ha. unfold flush. destruct (wbuf s) as [|b l] eqn:E.
  - exists script. split; [exact Ha|]. destruct s; cbn in *; subst; reflexivity.
  - destruct script as [|[|] script'].
    + exists []. split; [constructor|reflexivity].
    + exists script'. inversion Ha; subst. split; [assumption|reflexivity].
    + inversion Ha; subst. discriminate.
Qed.

Theorem wrun_refines : forall ops s script,
  WInv s -> all_accept script ->
  snd (wrun (N.to_nat K + 1) s script ops)
  = spec_writes (wbuf s) ops (map fst (fst (wrun (N.to_nat K + 1) s script ops))).
Proof.
  induction ops as [|o ops IH]; intros s script HI Ha; [reflexivity|].
  cbn [WriteConn.wrun].
  destruct o as [m|m|]; cbn [WriteConn.wstep].
  - (* Enqueue *)
    pose proof (enqueue_post_K s m HI) as (HI' & _ & Hm).
    destruct (enqueue (N.to_nat K + 1) s m) as [r s'] eqn:Ee. cbn [fst snd] in *.
    specialize (IH s' script HI' Ha).
    destruct (wrun (N.to_nat K + 1) s' script ops) as [tr ws']. cbn [fst snd map app] in *.
    destruct m as [bs|kk].
    + destruct (wpos s + N.of_nat (length bs) + 1 <=? limit)%N; destruct Hm as [-> Hb];
        cbn [spec_writes]; rewrite <- Hb; exact IH.
    + destruct Hm as [Hb Hr]. cbn [spec_writes]. rewrite <- Hb. exact IH.
  - (* Send *)
    pose proof (enqueue_post_K s m HI) as (HI' & _ & Hm).
    destruct (enqueue (N.to_nat K + 1) s m) as [r s'] eqn:Ee. cbn [fst snd] in *.
    destruct m as [bs|kk].
    + destruct (wpos s + N.of_nat (length bs) + 1 <=? limit)%N; destruct Hm as [-> Hb].
      * destruct (flush_accept s' script Ha) as (script' & Ha' & ->).
        assert (HI2 : WInv (wmk (wcap s') [])).
        { destruct HI' as [Hk _]. split; [exact Hk|]. unfold wpos. cbn. lia. }
        specialize (IH (wmk (wcap s') []) script' HI2 Ha').
        destruct (wrun (N.to_nat K + 1) _ script' ops) as [tr ws']. cbn [fst snd map] in *.
        cbn [spec_writes]. rewrite Hb.
        destruct (wbuf s ++ bs ++ [0%N]) eqn:E; [destruct (wbuf s); destruct bs; discriminate|].
        cbn [app]. f_equal. exact IH.
      * specialize (IH s' script HI' Ha).
        destruct (wrun (N.to_nat K + 1) s' script ops) as [tr ws']. cbn [fst snd map app] in *.
        cbn [spec_writes]. rewrite <- Hb. exact IH.
    + destruct Hm as [Hb Hr].
      assert (r <> WOk) by (destruct (wpos s + N.of_nat kk <=? limit)%N; subst r; discriminate).
      destruct r; try congruence;
        (specialize (IH s' script HI' Ha);
         destruct (wrun (N.to_nat K + 1) s' script ops) as [tr ws']; cbn [fst snd map app] in *;
         cbn [spec_writes]; rewrite <- Hb; exact IH).
  - (* Flush *)
    destruct (flush_accept s script Ha) as (script' & Ha' & ->).
    assert (HI2 : WInv (wmk (wcap s) [])).
    { destruct HI as [Hk _]. split; [exact Hk|]. unfold wpos. cbn. lia. }
    specialize (IH (wmk (wcap s) []) script' HI2 Ha').
    destruct (wrun (N.to_nat K + 1) _ script' ops) as [tr ws']. cbn [fst snd map] in *.
    cbn [spec_writes]. destruct (wbuf s) as [|b l]; cbn [app]; [exact IH|f_equal; exact IH].
Qed.

(* every state of every history keeps the buffer within the limit *)
Theorem wrun_bounded : forall ops s script, WInv s ->
  Forall (fun x => (wcap (snd x) <= limit)%N) (fst (wrun (N.to_nat K + 1) s script ops)).
Proof.
  induction ops as [|o ops IH]; intros s script HI; [constructor|].
  cbn [WriteConn.wrun].
  assert (Hfl : forall s0 sc, WInv s0 -> WInv (snd (fst (fst (flush s0 sc))))).
  { intros s0 sc H0. unfold flush. destruct (wbuf s0); [exact H0|].
    destruct sc as [|[|] sc']; cbn [fst snd]; try exact H0;
      (destruct H0 as [Hk _]; split; [exact Hk|unfold wpos; cbn; lia]). }
  assert (Hstep : WInv (snd (fst (fst (wstep (N.to_nat K + 1) s script o))))).
  { destruct o as [m|m|]; cbn [WriteConn.wstep].
    - pose proof (enqueue_post_K s m HI) as (HI' & _).
      destruct (enqueue (N.to_nat K + 1) s m); exact HI'.
    - pose proof (enqueue_post_K s m HI) as (HI' & _).
      destruct (enqueue (N.to_nat K + 1) s m) as [r s']. cbn [fst snd] in HI'.
      destruct r; try exact HI'. apply Hfl. exact HI'.
    - apply Hfl. exact HI. }
  destruct (wstep (N.to_nat K + 1) s script o) as [[[r s'] ws] script']. cbn [fst snd] in Hstep.
  specialize (IH s' script' Hstep).
  destruct (wrun (N.to_nat K + 1) s' script' ops) as [tr ws']. cbn [fst snd] in *.
  constructor; [cbn [snd]; apply WInv_cap_le; exact Hstep|exact IH].
Qed.

End WProofs.
