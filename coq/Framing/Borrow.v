(* C11: the physical receive buffer behind the ReadConnection model - which bytes a borrowed
   item points to and what later receives do to them.
   The shadow state adds to [st] the buffer content (including stale bytes) and a generation that
   changes whenever the Vec grows (read_connection.rs:164-170: `buffer.extend` may reallocate; the
   harness' allocator always moves and poisons, making "may" deterministic). *)
From ZV Require Export Framing.ReadConn.

Fixpoint write_at (off : nat) (bs : list byte) (phys : list byte) : list byte :=
  match off, phys with
  | O, _ => bs ++ skipn (length bs) phys
  | S o, x :: phys' => x :: write_at o bs phys'
  | S o, [] => 0%N :: write_at o bs []
  end.

Record pst := pmk { base : st; phys : list byte; gen : nat; reads : nat; vcap : N }.

Section Borrow.
Variables (step limit : N).
Variable D : Type.
Variable decode : list byte -> D.

Definition pinit : pst := pmk (init step) (repeat 0%N (N.to_nat step)) 0 0 step.

(* read_from_socket's loop on the shadow state; mirrors ReadConn.read_loop turn by turn *)
Fixpoint read_loop_p (fuel : nat) (p : pst) (tr : list ev) : rl D * pst * list ev :=
  match fuel with O => (LPend D, p, tr) | S fuel =>
  let s := base p in
  match tr with
  | [] => (LPend D, p, [])
  | Pend :: tr' => (LPend D, p, tr')
  | Eof :: _ => (LErr D REof, p, tr)
  | Fail :: tr' => (LErr D RIo, p, tr')
  | Data [] :: _ => (LErr D REof, p, tr)
  | Data bs :: tr' =>
      let space := N.to_nat (cap s) - length (data s) in
      if Nat.eqb space 0 then (LErr D REof, p, tr) else
      let take := firstn space bs in
      let tr'' := cons_rest space bs tr' in
      let d' := data s ++ take in
      let ph1 := write_at (length (data s)) take (phys p) in
      if (N.of_nat (length d') =? cap s)%N then
        if (limit <=? cap s)%N then (LErr D ROver, pmk (mk (cap s) (mpos s) d') ph1 (gen p) (S (reads p)) (vcap p), tr'')
        else
          (* grow: Vec::extend reallocates only when the new length exceeds the Vec's capacity,
             which then becomes max(2*capacity, needed) (alloc::raw_vec amortized growth); a
             reallocation is a new generation; content copied, zero-extended, sentinel written *)
          let ph2 := write_at (length d') [0%N] (ph1 ++ repeat 0%N (N.to_nat step)) in
          let needed := (cap s + step)%N in
          let realloc := (vcap p <? needed)%N in
          let vcap' := if realloc then N.max (2 * vcap p) needed else vcap p in
          let gen' := if realloc then S (gen p) else gen p in
          let p' := pmk (mk (cap s + step) (mpos s) d') ph2 gen' (S (reads p)) vcap' in
          if last_is_nul take then (LOk D, p', tr'') else read_loop_p fuel p' tr''
      else
        let ph2 := write_at (length d') [0%N] ph1 in
        let p' := pmk (mk (cap s) (mpos s) d') ph2 (gen p) (S (reads p)) (vcap p) in
        if last_is_nul take then (LOk D, p', tr'') else read_loop_p fuel p' tr''
  end end.

Definition read_from_socket_p (fuel : nat) (p : pst) (tr : list ev) :=
  if Nat.eqb (mpos (base p)) 0 then read_loop_p fuel p tr else (LOk D, p, tr).

(* a delivered item borrows buffer[lo, lo+len) of generation g *)
Record borrow := bmk { b_lo : nat; b_len : nat; b_gen : nat }.

Definition poll_receive_p (fuel : nat) (p : pst) (tr : list ev)
  : option (rres D * option borrow) * pst * list ev :=
  match read_from_socket_p fuel p tr with
  | (ReadConn.LOk _, p', tr') =>
      let s' := base p' in
      let b := bmk (mpos s') (length (upto_nul (skipn (mpos s') (data s')))) (gen p') in
      let (r, s'') := deliver D decode s' in
      (Some (r, Some b), pmk s'' (phys p') (gen p') (reads p') (vcap p'), tr')
  | (ReadConn.LErr _ r, p', tr') => (Some (r, None), p', tr')
  | (ReadConn.LPend _, p', tr') => (None, p', tr')
  end.

Fixpoint receive_p (polls fuel : nat) (p : pst) (tr : list ev)
  : option (rres D * option borrow * pst * list ev) :=
  match polls with O => None | S polls =>
  match poll_receive_p fuel p tr with
  | (Some (r, b), p', tr') => Some (r, b, p', tr')
  | (None, p', tr') => match tr' with [] => None | _ => receive_p polls fuel p' tr' end
  end end.

(* what a holder of borrow b reads in shadow state p: the bytes, or poison after a reallocation *)
Definition view (b : borrow) (p : pst) : list byte :=
  if Nat.eqb (b_gen b) (gen p) then firstn (b_len b) (skipn (b_lo b) (phys p))
  else repeat 221%N (b_len b).

(* n receives, holding every item: after each receive, the view of every item held so far.
   Also records whether the receive read from the transport. *)
Fixpoint run_hold (n polls fuel : nat) (held : list borrow) (p : pst) (tr : list ev)
  : list (rres D * bool * list (list byte)) :=
  match n with O => [] | S n =>
  match receive_p polls fuel p tr with
  | None => []
  | Some (r, b, p', tr') =>
      let held' := match b with Some b => held ++ [b] | None => held end in
      (r, negb (Nat.eqb (reads p') (reads p)), map (fun b => view b p') held')
        :: run_hold n polls fuel held' p' tr'
  end end.

End Borrow.
