(* Model of the chain's reply stream (zlink-core/src/connection/chain/{mod,reply_stream}.rs). *)
From ZV Require Export Framing.ReadConn.

(* what the stream's bookkeeping distinguishes in an item (reply_stream.rs:90-106) *)
Inductive ikind := Cont   (* Ok(Ok(reply)) with continues == Some(true) *)
                 | Final  (* Ok(Ok(reply)) otherwise *)
                 | MErr   (* the call's error reply: Ok(Err(method error)), and since the repair of
                             C06.service_error_ends_chain also Err(Error::VarlinkService(_)) *)
                 | Fatal. (* any other Err(_): decode error, transport error *)

Section Chain.
Variables (step limit : N).
Variable D : Type.
Variable decode : list byte -> D.
Variable kind : D -> ikind.

(* chain/mod.rs:38-74: one expected reply per call that is not oneway *)
Definition reply_count (oneway_flags : list bool) : nat :=
  length (filter negb oneway_flags).

Record cs := mkcs { c_idx : nat; c_done : bool; c_count : nat }.

(* ReplyStream::new (reply_stream.rs:44-54, after the repair: a stream that owes nothing is done) *)
Definition cs_init (count : nat) : cs := mkcs 0 (Nat.eqb count 0) count.

Definition kind_of (r : rres D) : ikind :=
  match r with Msg d => kind d | _ => Fatal end.

(* one `next().await` on the stream: outer None = the transport script ran dry (still pending);
   inner None = the stream ended *)
Definition next (polls fuel : nat) (c : cs) (s : st) (tr : list ev)
  : option (option (rres D) * cs * st * list ev) :=
  if c_done c then Some (None, c, s, tr)
  else match receive step limit D decode polls fuel s tr with
       | None => None
       | Some (r, s', tr') =>
           let idx' := match kind_of r with
                       | Cont => c_idx c | Final => S (c_idx c) | MErr => S (c_idx c)
                       | Fatal => c_idx c end in
           let done' := match kind_of r with Fatal => true | _ => Nat.leb (c_count c) idx' end in
           Some (Some r, mkcs idx' done' (c_count c), s', tr')
       end.

(* poll the stream until it ends (at most n items) *)
Fixpoint collect (n polls fuel : nat) (c : cs) (s : st) (tr : list ev)
  : list (rres D * st) * cs * st * list ev * bool (* ended *) :=
  match n with O => ([], c, s, tr, false) | S n =>
  match next polls fuel c s tr with
  | None => ([], c, s, tr, false)
  | Some (None, c', s', tr') => ([], c', s', tr', true)
  | Some (Some r, c', s', tr') =>
      match collect n polls fuel c' s' tr' with
      | (items, c'', s'', tr'', e) => ((r, s') :: items, c'', s'', tr'', e)
      end
  end end.

End Chain.

(* ---- specification: which frames are owed to a chain expecting `count` replies ---- *)
Fixpoint owed (count : nat) (ks : list ikind) : nat :=
  match ks with
  | [] => 0
  | k :: ks' =>
      match count with
      | O => 0
      | S c => match k with Cont => S (owed count ks') | _ => S (owed c ks') end
      end
  end.

(* the replies on the wire complete the chain: at least `count` non-continuing ones *)
Definition nonfinal (k : ikind) : bool := match k with Cont => true | _ => false end.
Definition completes (count : nat) (ks : list ikind) : Prop :=
  count <= length (filter (fun k => negb (nonfinal k)) ks).
Definition conforming (ks : list ikind) : Prop := Forall (fun k => k <> Fatal) ks.
