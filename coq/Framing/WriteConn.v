(* Model of zlink-core/src/connection/write_connection.rs (WriteConnection).
   state:  wcap  = buffer.len()        (N)
           wbuf  = buffer[0 .. pos)    (pos = length wbuf)
   Bytes at and beyond pos are scratch (failed or retried serialisations write there). *)
From ZV Require Export Common.Base.

(* A message, abstractly: its serialisation succeeds with bytes bs when enough room is offered,
   or it hits a non-string map key after having written k bytes (json_ser.rs reports
   BufferTooSmall as soon as the output does not fit, KeyMustBeAString at the bad key). *)
Inductive msg := Good (bs : list byte) | BadKey (k : nat).
Inductive sres := SOk (bs : list byte) | STooSmall | SKeyErr.

Definition to_slice (m : msg) (avail : N) : sres :=
  match m with
  | Good bs => if (N.of_nat (length bs) <=? avail)%N then SOk bs else STooSmall
  | BadKey k => if (N.of_nat k <=? avail)%N then SKeyErr else STooSmall
  end.

Inductive wres := WOk | WOverflow | WKeyErr | WIo | WOutOfFuel.
Record wst := wmk { wcap : N; wbuf : list byte }.

Section WriteConn.
Variables (step limit : N).

Definition winit : wst := wmk step [].

(* enqueue (write_connection.rs:136-164) with grow_buffer (:166-174) *)
Fixpoint enqueue (fuel : nat) (s : wst) (m : msg) : wres * wst :=
  match fuel with O => (WOutOfFuel, s) | S fuel =>
  let pos := N.of_nat (length (wbuf s)) in
  match to_slice m (wcap s - pos) with
  | SOk bs =>
      let len := N.of_nat (length bs) in
      if (pos + len =? wcap s)%N then
        (* the document ends exactly at the buffer end: grow first *)
        if (limit <=? wcap s)%N then (WOverflow, s)
        else (WOk, wmk (wcap s + step) (wbuf s ++ bs ++ [0%N]))
      else (WOk, wmk (wcap s) (wbuf s ++ bs ++ [0%N]))
  | STooSmall =>
      if (limit <=? wcap s)%N then (WOverflow, s)
      else enqueue fuel (wmk (wcap s + step) (wbuf s)) m
  | SKeyErr => (WKeyErr, s)
  end end.

(* transport: each write call is accepted or fails, per script (true = accept) *)
(* flush (write_connection.rs:112-121): nothing when empty; position reset only after the write returned Ok *)
Definition flush (s : wst) (script : list bool) : wres * wst * list (list byte) * list bool :=
  match wbuf s with
  | [] => (WOk, s, [], script)
  | _ => match script with
         | false :: script' => (WIo, s, [], script')
         | true :: script' => (WOk, wmk (wcap s) [], [wbuf s], script')
         | [] => (WOk, wmk (wcap s) [], [wbuf s], [])
         end
  end.

Inductive wop := Enqueue (m : msg) | Send (m : msg) | Flush.

(* one operation: result, new state, transport writes performed, remaining write script *)
Definition wstep (fuel : nat) (s : wst) (script : list bool) (o : wop)
  : wres * wst * list (list byte) * list bool :=
  match o with
  | Enqueue m => let (r, s') := enqueue fuel s m in (r, s', [], script)
  | Send m => let (r, s') := enqueue fuel s m in
              match r with WOk => flush s' script | _ => (r, s', [], script) end
  | Flush => flush s script
  end.

(* a history: per operation (result, capacity, pos), and all transport writes in order *)
Fixpoint wrun (fuel : nat) (s : wst) (script : list bool) (ops : list wop)
  : list (wres * wst) * list (list byte) :=
  match ops with
  | [] => ([], [])
  | o :: ops' =>
      match wstep fuel s script o with
      | (r, s', ws, script') =>
          let (tr, ws') := wrun fuel s' script' ops' in ((r, s') :: tr, ws ++ ws')
      end
  end.

End WriteConn.

(* ---- the specification: an abstract queue of frames ---- *)
(* given which operations were accepted, what must reach the transport *)
Fixpoint spec_writes (pending : list byte) (ops : list wop) (results : list wres) : list (list byte) :=
  match ops, results with
  | Enqueue (Good bs) :: ops', WOk :: rs => spec_writes (pending ++ bs ++ [0%N]) ops' rs
  | Enqueue _ :: ops', _ :: rs => spec_writes pending ops' rs
  | Send (Good bs) :: ops', WOk :: rs =>
      (pending ++ bs ++ [0%N]) :: spec_writes [] ops' rs
  | Send _ :: ops', _ :: rs => spec_writes pending ops' rs
  | Flush :: ops', _ :: rs =>
      match pending with [] => spec_writes [] ops' rs | _ => pending :: spec_writes [] ops' rs end
  | _, _ => []
  end.
