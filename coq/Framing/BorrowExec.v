(* Correspondence driver for the borrow (C11) shadow model. *)
From ZV Require Import Common.Exec Framing.ReadConn Framing.Borrow.

Record bcase := {
  bc_step : N; bc_limit : N;
  bc_events : list ev;
  bc_n : nat;
  bc_offs : list nat; bc_suf : nat;    (* per delivered frame: the held string is frame[off .. len - suf) *)
  bc_notes : list (list byte);         (* per delivered frame: the string as sent ([] when not held) *)
  bc_mask : list bool;                 (* per delivered frame: the implementation holds a string of it
                                          (false: a receive before the chain, an error reply, ...) *)
  bc_views : list (list (list byte));  (* implementation: after each item, every held string re-read *)
  bc_reads : list bool                 (* implementation: a transport read returned data during this item *)
}.

Definition note_at (suf off : nat) (v : list byte) : list byte :=
  firstn (length v - off - suf) (skipn off v).

Fixpoint notes_of (suf : nat) (offs : list nat) (vs : list (list byte)) : list (list byte) :=
  match offs, vs with
  | o :: offs', v :: vs' => note_at suf o v :: notes_of suf offs' vs'
  | _, _ => []
  end.

Definition bmodel (c : bcase) :=
  run_hold (bc_step c) (bc_limit c) N (fun _ => 0%N) (bc_n c)
           (length (bc_events c) + 2) (length (payload (bc_events c)) + length (bc_events c) + 2)
           [] (pinit (bc_step c)) (bc_events c).

Definition nnn_eqb := list_eqb (list_eqb (list_eqb N.eqb)).

Fixpoint select {A} (mask : list bool) (l : list A) : list A :=
  match mask, l with
  | true :: m, x :: l' => x :: select m l'
  | false :: m, _ :: l' => select m l'
  | _, _ => []
  end.

Fixpoint prefixes {A} (n : nat) (l : list A) : list (list A) :=
  match n with O => [] | S n => prefixes n l ++ [firstn (S n) l] end.

(* a later item needed a transport read (the open finding's class) *)
Definition known (reads : list bool) : bool := existsb (fun b => b) (tl reads).

(* bit 0: implementation differs from the model; bit 1: a held string changed although no later
   item needed a transport read (violation); bit 2: a held string changed and a later item did need
   a transport read (the known finding) *)
Definition check (c : bcase) : N :=
  let m := bmodel c in
  let m := firstn (length (bc_views c)) m in
  let mviews := map (fun x => select (bc_mask c) (notes_of (bc_suf c) (bc_offs c) (snd x))) m in
  let mreads := map (fun x => snd (fst x)) m in
  let spec := map (select (bc_mask c)) (prefixes (length (bc_views c)) (bc_notes c)) in
  let changed := negb (nnn_eqb spec (bc_views c)) in
  ((if nnn_eqb mviews (bc_views c) && list_eqb Bool.eqb mreads (bc_reads c) then 0 else 1) +
   (if changed then (if known (bc_reads c) then 4 else 2) else 0))%N.
