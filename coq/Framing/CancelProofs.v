(* C07: cancel-safety of receive on the ReadConnection model. *)
From ZV Require Import Framing.ReadConn Framing.ReadConnProofs.

Section Cancel.
Variables (step limit : N).
Variable D : Type.
Variable decode : list byte -> D.
Hypothesis step_pos : (0 < step)%N.

Notation poll_receive := (poll_receive step limit D decode).
Notation receive := (receive step limit D decode).
Notation run := (run step limit D decode).
Notation drive := (drive step limit D decode).
Notation drive_c := (drive_c step limit D decode).

(* cancellation is invisible: whatever the schedule and whatever the state of the operation *)
Lemma drive_c_drive : forall p fuel sched o s tr,
  drive_c p fuel sched o s tr = drive p fuel s tr.
Proof.
  induction p as [|p IH]; intros fuel sched o s tr; [reflexivity|].
  cbn [ReadConn.drive_c ReadConn.drive]. unfold poll_op.
  destruct (poll_receive fuel s tr) as [[[r|] s'] tr'].
  - now rewrite IH.
  - destruct tr' as [|e tr']; [reflexivity|].
    destruct sched as [|[|] sched]; apply IH.
Qed.

(* an operation that completes within [polls] polls is what [drive] does first *)
Lemma receive_drive : forall polls fuel s tr r s' tr',
  receive polls fuel s tr = Some (r, s', tr') ->
  forall P, polls <= P -> exists P', P - polls <= P' /\
  drive P fuel s tr = (r, s') :: drive P' fuel s' tr'.
Proof.
  induction polls as [|polls IH]; intros fuel s tr r s' tr' Hr P HP; [discriminate|].
  destruct P as [|P]; [lia|].
  cbn [ReadConn.receive] in Hr. cbn [ReadConn.drive].
  destruct (poll_receive fuel s tr) as [[[r0|] s0] tr0].
  - inversion Hr; subst. exists P. split; [lia|reflexivity].
  - destruct tr0 as [|e tr0]; [discriminate|].
    destruct (IH fuel s0 (e :: tr0) r s' tr' Hr P ltac:(lia)) as (P' & HP' & Hd).
    exists P'. split; [lia|exact Hd].
Qed.

Lemma run_drive : forall n polls fuel s tr P,
  length (run n polls fuel s tr) = n -> n * polls <= P ->
  firstn n (drive P fuel s tr) = run n polls fuel s tr.
Proof.
  induction n as [|n IH]; intros polls fuel s tr P Hlen HP; [reflexivity|].
  cbn [ReadConn.run] in *.
  destruct (receive polls fuel s tr) as [[[r s'] tr']|] eqn:Hr; [|discriminate].
  cbn [length] in Hlen.
  destruct (receive_drive polls fuel s tr r s' tr' Hr P ltac:(lia)) as (P' & HP' & Hd).
  rewrite Hd. cbn [firstn]. f_equal. apply IH; [lia|]. cbn in HP. lia.
Qed.

(* C07 on the model: for every stream of frames, every chunking, and EVERY cancellation schedule,
   the completed receive operations return exactly the frames in order, then end-of-stream. *)
Theorem cancel_invariance : forall n fs tr tl' fuel P sched o,
  Forall frame_ok fs -> Forall ok_ev tr -> payload tr = wire fs ->
  (N.of_nat (length (wire fs)) < limit)%N ->
  length (wire fs) + length tr < fuel -> n * (length tr + 1) <= P ->
  map fst (firstn n (drive_c P fuel sched o (init step) (tr ++ Eof :: tl')))
  = spec D decode n fs.
Proof.
  intros n fs tr tl' fuel P sched o Hfr Hok Hpay Hlim Hf HP.
  rewrite drive_c_drive.
  pose proof (framing_fresh step limit D decode step_pos n fs tr tl' (length tr + 1) fuel
                Hfr Hok Hpay Hlim ltac:(lia) Hf) as Hrun.
  assert (Hlen : length (run n (length tr + 1) fuel (init step) (tr ++ Eof :: tl')) = n).
  { rewrite <- (map_length fst), Hrun. unfold spec.
    rewrite firstn_length, app_length, map_length.
    assert (length (repeatn (@REof D) n) = n) by (clear; induction n; cbn; auto).
    lia. }
  rewrite (run_drive n (length tr + 1) fuel _ _ P Hlen HP). exact Hrun.
Qed.

End Cancel.
