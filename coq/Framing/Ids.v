(* Connection identifiers (zlink-core/src/connection/mod.rs:44,318):
     static NEXT_ID: AtomicUsize;  let id = NEXT_ID.fetch_add(1, Relaxed);
   An atomic read-modify-write is one indivisible step, so an execution with any number of threads
   creating connections concurrently is an interleaving: a sequence of thread names.
   (Wrap-around after 2^64 connections is ignored.) *)
From ZV Require Import Common.Base.

Fixpoint run_ids (c : N) (sched : list nat) : list (nat * N) :=
  match sched with
  | [] => []
  | t :: s => (t, c) :: run_ids (c + 1)%N s
  end.

Lemma run_ids_ge : forall s c x, In x (map snd (run_ids c s)) -> (c <= x)%N.
Proof.
  induction s as [|t s IH]; intros c x H; [contradiction|].
  cbn in H. destruct H as [<-|H]; [lia|]. apply IH in H. lia.
Qed.

(* every interleaving hands out pairwise distinct identifiers *)
Theorem ids_distinct : forall c sched, NoDup (map snd (run_ids c sched)).
Proof.
  intros c sched. revert c. induction sched as [|t s IH]; intros c; cbn; constructor.
  - intros H. apply run_ids_ge in H. lia.
  - apply IH.
Qed.

(* The same counter with a separate load and store (not atomic): two steps per thread. *)
Inductive idstep := Load (t : nat) | Store (t : nat).
Fixpoint lookup_reg (regs : list (nat * N)) (t : nat) : N :=
  match regs with [] => 0%N | (t', v) :: r => if Nat.eqb t t' then v else lookup_reg r t end.
Fixpoint run_nonatomic (c : N) (regs : list (nat * N)) (sched : list idstep) : list (nat * N) :=
  match sched with
  | [] => []
  | Load t :: s => run_nonatomic c ((t, c) :: regs) s
  | Store t :: s => let v := lookup_reg regs t in (t, v) :: run_nonatomic (v + 1)%N regs s
  end.

Lemma ids_nonatomic_refuted :
  exists sched, ~ NoDup (map snd (run_nonatomic 0 [] sched)).
Proof.
  exists [Load 0; Load 1; Store 0; Store 1]. cbn. intros H. inversion H as [|? ? Hn _]; subst.
  apply Hn. now left.
Qed.
