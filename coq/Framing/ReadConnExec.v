(* Correspondence driver for the ReadConnection model: evaluates model and spec on a case and
   compares with what the implementation produced (given as lists of N). *)
From ZV Require Import Common.Exec Framing.ReadConn.

Definition enc_res (r : rres N) : N :=
  match r with Msg d => d | REof => 1000001 | ROver => 1000002 | RIo => 1000003 end%N.

Definition enc_op (x : rres N * st) : list N :=
  [enc_res (fst x); cap (snd x); N.of_nat (mpos (snd x)); N.of_nat (length (data (snd x)))].

Record rcase := {
  rc_step : N; rc_limit : N;
  rc_tab : table;               (* decode oracle: frame bytes -> canonical result code *)
  rc_events : list ev;
  rc_n : nat;
  rc_frames : list (list byte); (* the frames the generator intended (for the spec) *)
  rc_inhyp : bool;              (* the case satisfies the hypotheses of C01_framing *)
  rc_expect : list (list N)     (* implementation: per receive [result; cap; msg_pos; read_pos] *)
}.

Definition rc_fuel (c : rcase) : nat := length (payload (rc_events c)) + length (rc_events c) + 2.
Definition rc_polls (c : rcase) : nat := length (rc_events c) + 2.

Definition model_trace (c : rcase) : list (list N) :=
  map enc_op (run (rc_step c) (rc_limit c) N (lookup (rc_tab c)) (rc_n c) (rc_polls c) (rc_fuel c)
                  (init (rc_step c)) (rc_events c)).

Definition spec_trace (c : rcase) : list N :=
  firstn (rc_n c) (map (fun f => lookup (rc_tab c) f) (rc_frames c) ++ repeatn 1000001%N (rc_n c)).

(* 0 = implementation, model and spec agree; bit 0 = implementation differs from the model;
   bit 1 = implementation differs from the spec (only for cases inside the theorem's hypotheses) *)
Definition check (c : rcase) : N :=
  ((if nn_eqb (model_trace c) (rc_expect c) then 0 else 1) +
   (if rc_inhyp c && negb (list_eqb N.eqb (spec_trace c) (map (hd 0) (rc_expect c))) then 2 else 0))%N.

(* ---- C07: the same with a cancellation schedule (one boolean per pending poll) ---- *)
Record ccase := { cc_base : rcase; cc_sched : list bool }.

Definition cmodel_trace (c : ccase) : list (list N) :=
  let b := cc_base c in
  map enc_op (firstn (rc_n b)
    (drive_c (rc_step b) (rc_limit b) N (lookup (rc_tab b))
             (rc_n b * (length (rc_events b) + 2)) (rc_fuel b) (cc_sched c) Fresh
             (init (rc_step b)) (rc_events b))).

Definition check_c (c : ccase) : N :=
  let b := cc_base c in
  ((if nn_eqb (cmodel_trace c) (rc_expect b) then 0 else 1) +
   (if rc_inhyp b && negb (list_eqb N.eqb (spec_trace b) (map (hd 0) (rc_expect b))) then 2 else 0))%N.
