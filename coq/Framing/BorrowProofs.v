(* C11 on the shadow model: a held item is untouched by later receives that do not read from
   the transport; and the refutation: a later receive that does read overwrites or frees it. *)
From ZV Require Import Framing.ReadConn Framing.Borrow.

Section BorrowProofs.
Variables (step limit : N).
Variable D : Type.
Variable decode : list byte -> D.

Notation read_loop_p := (read_loop_p step limit D).
Notation receive_p := (receive_p step limit D decode).
Notation poll_receive_p := (poll_receive_p step limit D decode).
Notation run_hold := (run_hold step limit D decode).

(* the read loop only ever increases the read counter, and leaves the buffer alone when it did
   not complete a read *)
Lemma read_loop_p_reads : forall fuel p tr,
  let p' := snd (fst (read_loop_p fuel p tr)) in
  reads p <= reads p' /\ (reads p' = reads p -> phys p' = phys p /\ gen p' = gen p).
Proof.
  induction fuel as [|fuel IH]; intros p tr; cbn zeta; [cbn; auto|].
  cbn [Borrow.read_loop_p].
  destruct tr as [|e tr']; [cbn; auto|].
  destruct e as [bs| | |]; try (cbn; auto; fail).
  destruct bs as [|b bs]; [cbn; auto|].
  destruct (Nat.eqb _ 0); [cbn; auto|].
  destruct (N.of_nat _ =? cap (base p))%N.
  - destruct (limit <=? cap (base p))%N; [cbn [fst snd reads]; split; [lia|intros; lia]|].
    destruct (last_is_nul _); [cbn [fst snd reads]; split; [lia|intros; lia]|].
    match goal with |- context [read_loop_p fuel ?q ?t] => specialize (IH q t) end.
    cbn zeta in IH. cbn [reads] in IH. destruct IH as [H1 H2]. split; [lia|intros; lia].
  - destruct (last_is_nul _); [cbn [fst snd reads]; split; [lia|intros; lia]|].
    match goal with |- context [read_loop_p fuel ?q ?t] => specialize (IH q t) end.
    cbn zeta in IH. cbn [reads] in IH. destruct IH as [H1 H2]. split; [lia|intros; lia].
Qed.

Lemma poll_receive_p_reads : forall fuel p tr,
  let p' := snd (fst (poll_receive_p fuel p tr)) in
  reads p <= reads p' /\ (reads p' = reads p -> phys p' = phys p /\ gen p' = gen p).
Proof.
  intros fuel p tr. cbn zeta. unfold Borrow.poll_receive_p, Borrow.read_from_socket_p.
  destruct (Nat.eqb (mpos (base p)) 0).
  - pose proof (read_loop_p_reads fuel p tr) as H. cbn zeta in H.
    destruct (read_loop_p fuel p tr) as [[r p1] tr1]. cbn [fst snd] in H.
    destruct r; cbn [fst snd]; auto;
      try (destruct (deliver D decode (base p1)); cbn [fst snd reads phys gen]; exact H).
  - try (destruct (deliver D decode (base p))); cbn [fst snd reads phys gen]; auto.
Qed.

Lemma receive_p_reads : forall polls fuel p tr r b p' tr',
  receive_p polls fuel p tr = Some (r, b, p', tr') ->
  reads p <= reads p' /\ (reads p' = reads p -> phys p' = phys p /\ gen p' = gen p).
Proof.
  induction polls as [|polls IH]; intros fuel p tr r b p' tr' H; [discriminate|].
  cbn [Borrow.receive_p] in H.
  pose proof (poll_receive_p_reads fuel p tr) as Hp. cbn zeta in Hp.
  destruct (poll_receive_p fuel p tr) as [[[[r0 b0]|] p0] tr0]; cbn [fst snd] in Hp.
  - inversion H; subst. exact Hp.
  - destruct tr0; [discriminate|].
    destruct (IH fuel p0 _ r b p' tr' H) as [H1 H2]. destruct Hp as [H3 H4].
    split; [lia|]. intros He.
    assert (reads p0 = reads p) by lia. assert (reads p' = reads p0) by lia.
    destruct (H4 ltac:(assumption)) as [E1 E2]. destruct (H2 ltac:(assumption)) as [E3 E4].
    split; congruence.
Qed.

Lemma view_same b p p' : phys p' = phys p -> gen p' = gen p -> view b p' = view b p.
Proof. intros Hp Hg. unfold view. now rewrite Hp, Hg. Qed.

(* every step that did not read from the transport leaves every item held so far as it was *)
Fixpoint stable_chain (prev : list (list byte)) (out : list (rres D * bool * list (list byte))) : Prop :=
  match out with
  | [] => True
  | (_, rd, views) :: out' =>
      (rd = false -> firstn (length prev) views = prev) /\ stable_chain views out'
  end.

Theorem run_hold_stable : forall n polls fuel held p tr,
  stable_chain (map (fun b => view b p) held) (run_hold n polls fuel held p tr).
Proof.
  induction n as [|n IH]; intros polls fuel held p tr; [exact I|].
  cbn [Borrow.run_hold].
  destruct (receive_p polls fuel p tr) as [[[[r b] p'] tr']|] eqn:Hr; [|exact I].
  cbn [stable_chain]. split; [|apply IH].
  intros Hrd. apply Bool.negb_false_iff, Nat.eqb_eq in Hrd.
  destruct (receive_p_reads polls fuel p tr r b p' tr' Hr) as [_ H]. destruct (H Hrd) as [Hp Hg].
  rewrite map_length.
  assert (Hm : map (fun b0 => view b0 p') held = map (fun b0 => view b0 p) held).
  { apply map_ext. intros b0. now apply view_same. }
  destruct b as [b|].
  - rewrite map_app, firstn_app, map_length, Nat.sub_diag. cbn [firstn]. rewrite app_nil_r.
    rewrite <- (map_length (fun b0 => view b0 p') held) at 1. rewrite firstn_all. exact Hm.
  - rewrite <- (map_length (fun b0 => view b0 p') held) at 1. rewrite firstn_all. exact Hm.
Qed.

End BorrowProofs.

(* ---- refutation witnesses (the known finding) ---- *)

(* two replies arriving in separate reads: the second read resets the cursors and overwrites the
   first reply's bytes while it is still held *)
Lemma overwritten_witness :
  let out := run_hold 8 64 (list byte) (fun f => f) 2 5 50 [] (pinit 8)
               [Data [65;66;67;0]; Data [88;89;0]; Eof]%N in
  map (fun x => snd x) out = [[[65;66;67]]; [[88;89;0]; [88;89]]]%N.
Proof. vm_compute. reflexivity. Qed.

(* a later reply that forces the buffer to grow: the first reply's allocation is replaced *)
Lemma freed_witness :
  let out := run_hold 4 64 (list byte) (fun f => f) 2 5 50 [] (pinit 4)
               [Data [65;0]; Data [66;67;68;69;0]; Eof]%N in
  map (fun x => snd x) out = [[[65]]; [[221]; [66;67;68;69]]]%N.
Proof. vm_compute. reflexivity. Qed.
