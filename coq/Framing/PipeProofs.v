(* C19 on the model: unless a flush is dropped after a partial write, the peer's byte stream is the
   wire form of a prefix of the accepted messages, each exactly once, in order. *)
From ZV Require Import Framing.WriteConn Framing.WriteConnProofs Framing.Pipe
                       Framing.ReadConn Framing.ReadConnProofs.

Lemma write_all_spec : forall fuel buf sched,
  length buf < fuel ->
  let '(c, acc, _) := write_all fuel buf sched in
  exists k, acc = firstn k buf /\ k <= length buf /\ (c = true -> acc = buf) /\ length acc = k.
Proof.
  induction fuel as [|fuel IH]; intros buf sched Hf; [lia|].
  cbn [write_all]. destruct buf as [|b buf].
  - exists 0. cbn. repeat split; auto.
  - destruct sched as [|[n|] sched'].
    + exists (length (b :: buf)). rewrite firstn_all. repeat split; auto.
    + set (k := Nat.max 1 (Nat.min n (length (b :: buf)))).
      assert (Hk : 1 <= k <= length (b :: buf)) by (subst k; cbn [length]; lia).
      specialize (IH (skipn k (b :: buf)) sched').
      assert (Hl : length (skipn k (b :: buf)) < fuel) by (rewrite skipn_length; cbn [length] in *; lia).
      specialize (IH Hl).
      destruct (write_all fuel (skipn k (b :: buf)) sched') as [[c acc] sched''].
      destruct IH as (j & Hacc & Hj & Hc & Hlen).
      rewrite skipn_length in Hj.
      exists (k + j). split; [|split; [lia|split]].
      * rewrite Hacc. rewrite <- (firstn_skipn k (b :: buf)) at 3.
        rewrite firstn_app, firstn_firstn, firstn_length.
        replace (Nat.min (k + j) k) with k by lia.
        replace (k + j - Nat.min k (length (b :: buf))) with j by lia. reflexivity.
      * intros Hct. rewrite (Hc Hct). apply firstn_skipn.
      * rewrite app_length, firstn_length, Hlen. lia.
    + exists 0. cbn [firstn length]. repeat split; auto; try lia; try (intros; discriminate).
Qed.

Section PipeProofs.
Variables (step limit : N).
Hypothesis step_pos : (0 < step)%N.
Variable K : N.
Hypothesis limit_mult : limit = (K * step)%N.
Hypothesis K_pos : (1 <= K)%N.

Notation kflush := (kflush).
Notation kenqueue := (kenqueue step limit).
Notation kstep_op := (kstep_op step limit).
Notation krun := (krun step limit).
Notation FUEL := (N.to_nat K + 1).

(* accepted = done ++ pend: done is on the wire (whole frames, once, in order), pend is buffered *)
Definition KInv (out0 : list byte) (s : kst) : Prop :=
  WInv step K (k_conn s) /\
  exists done pend, k_acc s = done ++ pend /\ k_out s = out0 ++ wire done /\ wbuf (k_conn s) = wire pend.

Lemma wire_snoc fs f : wire (fs ++ [f]) = wire fs ++ f ++ [0%N].
Proof. unfold wire, term. rewrite map_app, concat_app. cbn. now rewrite app_nil_r. Qed.

Lemma kenqueue_KInv out0 s m :
  KInv out0 s -> KInv out0 (snd (kenqueue FUEL s m)) /\ k_dirty (snd (kenqueue FUEL s m)) = k_dirty s.
Proof.
  intros [HI (done & pend & Hacc & Hout & Hbuf)]. unfold Pipe.kenqueue.
  pose proof (enqueue_post_K step limit step_pos K limit_mult K_pos (k_conn s) m HI) as (HI' & _ & Hm).
  destruct (enqueue step limit FUEL (k_conn s) m) as [r c'] eqn:Ee. cbn [fst snd] in *.
  split; [|reflexivity]. split; [exact HI'|].
  destruct m as [bs|kk].
  - destruct (wpos (k_conn s) + N.of_nat (length bs) + 1 <=? limit)%N; destruct Hm as [-> Hb].
    + exists done, (pend ++ [bs]). cbn [k_acc k_out k_conn]. rewrite Hacc, Hb, Hbuf, wire_snoc.
      now rewrite app_assoc.
    + exists done, pend. cbn [k_acc k_out k_conn]. rewrite Hb. auto.
  - destruct Hm as [Hb Hr]. exists done, pend. cbn [k_acc k_out k_conn]. rewrite Hb.
    destruct r; auto.
Qed.

Lemma kflush_KInv out0 s sched :
  KInv out0 s -> k_dirty (snd (fst (kflush s sched))) = false ->
  KInv out0 (snd (fst (kflush s sched))).
Proof.
  intros [HI (done & pend & Hacc & Hout & Hbuf)] Hd. unfold Pipe.kflush in *.
  destruct (wbuf (k_conn s)) as [|b buf] eqn:Eb;
    [split; [exact HI|exists done, pend; cbn [fst snd]; rewrite Eb; auto]|].
  pose proof (write_all_spec (S (length (b :: buf))) (b :: buf) sched ltac:(lia)) as Hw.
  destruct (write_all (S (length (b :: buf))) (b :: buf) sched) as [[c acc] sched'].
  destruct Hw as (k & Hk & Hkl & Hc & Hlen).
  destruct c; cbn [fst snd k_conn k_out k_acc k_dirty] in *.
  - split.
    + destruct HI as [Hcap _]. split; [exact Hcap|unfold wpos; cbn; lia].
    + exists (done ++ pend), []. rewrite app_nil_r. split; [exact Hacc|]. split; [|reflexivity].
      rewrite (Hc eq_refl), Hout, wire_app, <- Hbuf. now rewrite app_assoc.
  - apply Bool.orb_false_iff in Hd. destruct Hd as [_ Hz].
    apply Bool.negb_false_iff, Nat.eqb_eq in Hz.
    destruct acc; [|discriminate]. rewrite app_nil_r.
    split; [exact HI|]. exists done, pend. cbn [k_conn k_out k_acc]. rewrite Hbuf in Eb. auto.
Qed.

Lemma kflush_dirty_mono s sched : k_dirty s = true -> k_dirty (snd (fst (kflush s sched))) = true.
Proof.
  intros Hd. unfold Pipe.kflush. destruct (wbuf (k_conn s)); [exact Hd|].
  destruct (write_all _ _ sched) as [[[|] acc] sched']; cbn; rewrite Hd; reflexivity.
Qed.

Lemma kstep_dirty_mono s sched o :
  k_dirty s = true -> k_dirty (snd (fst (kstep_op FUEL s sched o))) = true.
Proof.
  intros Hd. destruct o as [m|m|]; cbn [Pipe.kstep_op].
  - unfold Pipe.kenqueue. destruct (enqueue _ _ _ _ _). exact Hd.
  - unfold Pipe.kenqueue. destruct (enqueue step limit FUEL (k_conn s) m) as [r c'].
    destruct r; try exact Hd. apply kflush_dirty_mono. exact Hd.
  - apply kflush_dirty_mono. exact Hd.
Qed.

Lemma krun_dirty_mono : forall ops s sched,
  k_dirty s = true -> k_dirty (snd (krun FUEL s sched ops)) = true.
Proof.
  induction ops as [|o ops IH]; intros s sched Hd; [exact Hd|].
  cbn [Pipe.krun]. pose proof (kstep_dirty_mono s sched o Hd) as H1.
  destruct (kstep_op FUEL s sched o) as [[r s'] sched']. cbn [fst snd] in H1.
  specialize (IH s' sched' H1). destruct (krun FUEL s' sched' ops). exact IH.
Qed.

Lemma kstep_KInv out0 s sched o :
  KInv out0 s -> k_dirty (snd (fst (kstep_op FUEL s sched o))) = false ->
  KInv out0 (snd (fst (kstep_op FUEL s sched o))).
Proof.
  intros HI Hd. destruct o as [m|m|]; cbn [Pipe.kstep_op] in *.
  - destruct (kenqueue_KInv out0 s m HI) as [H1 _]. destruct (kenqueue FUEL s m). exact H1.
  - destruct (kenqueue_KInv out0 s m HI) as [H1 H2].
    destruct (kenqueue FUEL s m) as [r s1]. cbn [fst snd] in *.
    destruct r; try exact H1. apply kflush_KInv; assumption.
  - apply kflush_KInv; assumption.
Qed.

(* the main statement: for every history and every schedule of partial kernel writes and dropped
   flushes, if no flush was dropped after a partial write then what the peer has received is the
   wire form of a prefix of the accepted messages, the rest still being buffered, in order *)
Theorem krun_intact : forall ops s sched out0,
  KInv out0 s -> k_dirty (snd (krun FUEL s sched ops)) = false ->
  KInv out0 (snd (krun FUEL s sched ops)).
Proof.
  induction ops as [|o ops IH]; intros s sched out0 HI Hd; [exact HI|].
  cbn [Pipe.krun] in *.
  pose proof (kstep_KInv out0 s sched o HI) as H1.
  pose proof (krun_dirty_mono ops) as Hm.
  destruct (kstep_op FUEL s sched o) as [[r s'] sched']. cbn [fst snd] in *.
  specialize (IH s' sched' out0). specialize (Hm s' sched').
  destruct (krun FUEL s' sched' ops) as [rs s'']. cbn [snd] in *.
  destruct (k_dirty s') eqn:Ed; [rewrite (Hm eq_refl) in Hd; discriminate|].
  apply IH; [apply H1; reflexivity|exact Hd].
Qed.

Lemma KInv_init : KInv [] (kinit step).
Proof.
  split; [apply (WInv_init step limit); assumption|]. exists [], []. cbn. auto.
Qed.

End PipeProofs.

(* a schedule without Cancel never makes a flush dirty or incomplete *)
Definition no_cancel (sched : list kstep) : Prop := Forall (fun e => e <> Cancel) sched.

Lemma write_all_no_cancel : forall fuel buf sched,
  length buf < fuel -> no_cancel sched ->
  let '(c, acc, sched') := write_all fuel buf sched in c = true /\ acc = buf /\ no_cancel sched'.
Proof.
  induction fuel as [|fuel IH]; intros buf sched Hf Hn; [lia|].
  cbn [write_all]. destruct buf as [|b buf]; [auto|].
  destruct sched as [|[n|] sched'].
  - repeat split; auto; try constructor.
  - inversion Hn; subst.
    set (k := Nat.max 1 (Nat.min n (length (b :: buf)))).
    assert (Hk : 1 <= k <= length (b :: buf)) by (subst k; cbn [length]; lia).
    specialize (IH (skipn k (b :: buf)) sched').
    assert (Hl : length (skipn k (b :: buf)) < fuel) by (rewrite skipn_length; cbn [length] in *; lia).
    specialize (IH Hl ltac:(assumption)).
    destruct (write_all fuel (skipn k (b :: buf)) sched') as [[c acc] sched''].
    destruct IH as (-> & -> & Hn'). repeat split; auto. apply firstn_skipn.
  - inversion Hn; subst. congruence.
Qed.

Section NoCancel.
Variables (step limit : N).

Lemma kflush_no_cancel s sched : no_cancel sched ->
  k_dirty (snd (fst (kflush s sched))) = k_dirty s /\ no_cancel (snd (kflush s sched)).
Proof.
  intros Hn. unfold kflush. destruct (wbuf (k_conn s)) as [|b buf]; [auto|].
  pose proof (write_all_no_cancel (S (length (b :: buf))) (b :: buf) sched ltac:(lia) Hn) as H.
  destruct (write_all (S (length (b :: buf))) (b :: buf) sched) as [[c acc] sched'].
  destruct H as (-> & -> & Hn'). cbn. auto.
Qed.

Lemma krun_no_cancel : forall ops fuel s sched, no_cancel sched ->
  k_dirty (snd (krun step limit fuel s sched ops)) = k_dirty s.
Proof.
  induction ops as [|o ops IH]; intros fuel s sched Hn; [reflexivity|].
  cbn [krun].
  assert (H : k_dirty (snd (fst (kstep_op step limit fuel s sched o))) = k_dirty s
              /\ no_cancel (snd (kstep_op step limit fuel s sched o))).
  { destruct o as [m|m|]; cbn [kstep_op].
    - unfold kenqueue. destruct (enqueue step limit fuel (k_conn s) m). cbn. auto.
    - unfold kenqueue. destruct (enqueue step limit fuel (k_conn s) m) as [r c'].
      destruct r; cbn [fst snd k_dirty]; auto.
      match goal with |- context [kflush ?s1 sched] => destruct (kflush_no_cancel s1 sched Hn) as [H1 H2] end.
      cbn [k_dirty] in H1. auto.
    - apply kflush_no_cancel. exact Hn. }
  destruct (kstep_op step limit fuel s sched o) as [[r s'] sched']. cbn [fst snd] in H.
  destruct H as [H1 H2]. specialize (IH fuel s' sched' H2).
  destruct (krun step limit fuel s' sched' ops). cbn [snd] in *. congruence.
Qed.

End NoCancel.
