(* Correspondence driver for the Pipe (C19) model: abandoned sends over a real socket. *)
From ZV Require Import Common.Exec Framing.WriteConn Framing.Pipe.

Record pcase := {
  pc_step : N; pc_limit : N; pc_K : N;
  pc_frames : list (list byte);   (* the JSON documents sent, in order (every one a Send) *)
  pc_sched : list kstep;          (* reconstructed from the measurement: Acc len per completed send,
                                     Acc k; Cancel for the abandoned one *)
  pc_known : bool;                (* a send was abandoned after 0 < k < frame length bytes *)
  pc_raw : list byte              (* implementation: every byte the peer received *)
}.

Definition pmodel (c : pcase) : list byte :=
  k_out (snd (krun (pc_step c) (pc_limit c) (N.to_nat (pc_K c) + 1) (kinit (pc_step c)) (pc_sched c)
                   (map (fun f => Send (Good f)) (pc_frames c)))).

Fixpoint is_wire_prefix (n : nat) (raw : list byte) (fs : list (list byte)) : bool :=
  bytes_eqb raw (wire (firstn n fs)) ||
  match n with O => false | S n' => is_wire_prefix n' raw fs end.

(* bit 0: the peer's byte stream differs from the model's; bit 1: it is not a sequence of whole
   frames each once in order, and no send was abandoned after a partial write (violation);
   bit 2: same but a send was abandoned after a partial write (the known finding) *)
Definition check (c : pcase) : N :=
  let intact := is_wire_prefix (length (pc_frames c)) (pc_raw c) (pc_frames c) in
  ((if bytes_eqb (pmodel c) (pc_raw c) then 0 else 1) +
   (if intact then 0 else if pc_known c then 4 else 2))%N.
