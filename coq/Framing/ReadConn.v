(* Model of zlink-core/src/connection/read_connection.rs (ReadConnection).
   Executable; proofs live in ReadConnProofs.v.

   state:   cap  = buffer.len()            (N)
            mpos = msg_pos                 (nat)
            data = buffer[0 .. read_pos)   (read_pos = length data)
   The byte at buffer[read_pos] is the sentinel NUL planted by read_from_socket; bytes beyond it
   are stale and never inspected (see deliver). *)
From ZV Require Export Common.Base.

Section ReadConn.
Variables (step limit : N).
Variable D : Type.
Variable decode : list byte -> D.

Inductive ev := Data (bs : list byte) | Pend | Eof | Fail.
Inductive rres := Msg (d : D) | REof | ROver | RIo.
Inductive rl := LOk | LErr (r : rres) | LPend.

Record st := mk { cap : N; mpos : nat; data : list byte }.
Definition init : st := mk step 0 [].

Definition cons_rest (space : nat) (bs : list byte) (tr' : list ev) : list ev :=
  match skipn space bs with [] => tr' | rest => Data rest :: tr' end.

(* read_from_socket's loop (read_connection.rs:157-181); one transport event per turn.
   A Data event longer than the space offered is split, as a kernel would. *)
Fixpoint read_loop (fuel : nat) (s : st) (tr : list ev) : rl * st * list ev :=
  match fuel with O => (LPend, s, tr) | S fuel =>
  match tr with
  | [] => (LPend, s, [])
  | Pend :: tr' => (LPend, s, tr')
  | Eof :: _ => (LErr REof, s, tr)
  | Fail :: tr' => (LErr RIo, s, tr')
  | Data [] :: _ => (LErr REof, s, tr)
  | Data bs :: tr' =>
      let space := N.to_nat (cap s) - length (data s) in
      if Nat.eqb space 0 then (LErr REof, s, tr) else
      let take := firstn space bs in
      let tr'' := cons_rest space bs tr' in
      let d' := data s ++ take in
      if (N.of_nat (length d') =? cap s)%N then
        if (limit <=? cap s)%N then (LErr ROver, mk (cap s) (mpos s) d', tr'')
        else let s' := mk (cap s + step) (mpos s) d' in
             if last_is_nul take then (LOk, s', tr'') else read_loop fuel s' tr''
      else let s' := mk (cap s) (mpos s) d' in
           if last_is_nul take then (LOk, s', tr'') else read_loop fuel s' tr''
  end end.

(* read_from_socket (read_connection.rs:151-184) *)
Definition read_from_socket (fuel : nat) (s : st) (tr : list ev) :=
  if Nat.eqb (mpos s) 0 then read_loop fuel s tr else (LOk, s, tr).

(* read_message after read_from_socket returned Ok (read_connection.rs:118-148): the frame is
   buffer[msg_pos .. first NUL); cursors reset when the byte after that NUL is NUL (which
   includes the sentinel at buffer[read_pos]). *)
Definition deliver (s : st) : rres * st :=
  let tail := skipn (mpos s) (data s) in
  let frame := upto_nul tail in
  let s' := match after_nul tail with
            | [] => mk (cap s) 0 []
            | 0%N :: _ => mk (cap s) 0 []
            | _ => mk (cap s) (mpos s + length frame + 1) (data s)
            end in
  (Msg (decode frame), s').

(* one poll of a receive operation: Some = Ready *)
Definition poll_receive (fuel : nat) (s : st) (tr : list ev) : option rres * st * list ev :=
  match read_from_socket fuel s tr with
  | (LOk, s', tr') => let (r, s'') := deliver s' in (Some r, s'', tr')
  | (LErr r, s', tr') => (Some r, s', tr')
  | (LPend, s', tr') => (None, s', tr')
  end.

(* one receive operation, re-polled until it is ready; None = transport script exhausted *)
Fixpoint receive (polls fuel : nat) (s : st) (tr : list ev) : option (rres * st * list ev) :=
  match polls with O => None | S polls =>
  match poll_receive fuel s tr with
  | (Some r, s', tr') => Some (r, s', tr')
  | (None, s', tr') => match tr' with [] => None | _ => receive polls fuel s' tr' end
  end end.

(* n successive receive operations; the trace records result and state after each *)
Fixpoint run (n polls fuel : nat) (s : st) (tr : list ev) : list (rres * st) :=
  match n with O => [] | S n =>
  match receive polls fuel s tr with
  | None => []
  | Some (r, s', tr') => (r, s') :: run n polls fuel s' tr'
  end end.

(* Poll-level view (C07): a sequence of polls of receive operations.  A receive future holds no
   state of its own between polls (the only await is the transport read and all cursor updates
   happen synchronously after it returns, read_connection.rs:157-163), so one poll is
   [poll_receive] on the connection state.  [drive p] performs p polls, starting a new operation
   whenever the previous one completed. *)
Fixpoint drive (p fuel : nat) (s : st) (tr : list ev) : list (rres * st) :=
  match p with O => [] | S p =>
  match poll_receive fuel s tr with
  | (Some r, s', tr') => (r, s') :: drive p fuel s' tr'
  | (None, s', tr') => match tr' with [] => [] | _ => drive p fuel s' tr' end
  end end.

(* The same with cancellation: after a poll that returned Pending the schedule says whether the
   pending future is dropped (true) and a fresh receive is created, or kept (false).  Dropping a
   future discards its local state - which is empty - and leaves the connection record alone. *)
Inductive opstate := Fresh | Suspended.
Definition poll_op (o : opstate) (fuel : nat) (s : st) (tr : list ev) := poll_receive fuel s tr.
Fixpoint drive_c (p fuel : nat) (sched : list bool) (o : opstate) (s : st) (tr : list ev)
  : list (rres * st) :=
  match p with O => [] | S p =>
  match poll_op o fuel s tr with
  | (Some r, s', tr') => (r, s') :: drive_c p fuel sched Fresh s' tr'
  | (None, s', tr') =>
      match tr' with
      | [] => []
      | _ => match sched with
             | true :: sched' => drive_c p fuel sched' Fresh s' tr'       (* dropped, re-created *)
             | false :: sched' => drive_c p fuel sched' Suspended s' tr'  (* polled again *)
             | [] => drive_c p fuel [] Suspended s' tr'
             end
      end
  end end.

Fixpoint payload (tr : list ev) : list byte :=
  match tr with Data bs :: tr' => bs ++ payload tr' | _ :: tr' => payload tr' | [] => [] end.

Definition ok_ev (e : ev) : Prop :=
  match e with Data (_ :: _) => True | Pend => True | _ => False end.

End ReadConn.

Arguments Msg {D} d.
Arguments REof {D}.
Arguments ROver {D}.
Arguments RIo {D}.
