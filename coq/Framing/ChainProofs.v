(* C06: the chain's reply stream yields exactly the replies owed. *)
From ZV Require Import Framing.ReadConn Framing.ReadConnProofs Framing.Chain
                       Framing.WriteConn.

Section ChainProofs.
Variables (step limit : N).
Variable D : Type.
Variable decode : list byte -> D.
Variable kind : D -> ikind.
Hypothesis step_pos : (0 < step)%N.

Notation receive := (receive step limit D decode).
Notation run := (run step limit D decode).
Notation next := (next step limit D decode kind).
Notation collect := (collect step limit D decode kind).
Notation RInv := (RInv limit).
Notation kinds fs := (map (fun f => kind (decode f)) fs).

Lemma leb_final idx r : Nat.leb (idx + S r) (S idx) = Nat.eqb r 0.
Proof.
  destruct r as [|r]; cbn [Nat.eqb].
  - apply Nat.leb_le. lia.
  - apply Nat.leb_gt. lia.
Qed.

Lemma leb_cont idx r : Nat.leb (idx + S r) idx = false.
Proof. apply Nat.leb_gt. lia. Qed.

Lemma collect_exact : forall fs n polls fuel idx r s fsb tr fsr tl',
  RInv polls fuel s fsb tr fsr -> fs = fsb ++ fsr ->
  conforming (kinds fs) -> completes r (kinds fs) -> length fs < n ->
  exists items c' s' tr' fsb' fsr',
    collect n polls fuel (mkcs idx (Nat.eqb r 0) (idx + r)) s (tr ++ Eof :: tl')
      = (items, c', s', tr' ++ Eof :: tl', true)
    /\ map fst items = map (fun f => Msg (decode f)) (firstn (owed r (kinds fs)) fs)
    /\ RInv polls fuel s' fsb' tr' fsr' /\ fsb' ++ fsr' = skipn (owed r (kinds fs)) fs.
Proof.
  induction fs as [|f rest IH]; intros n polls fuel idx r s fsb tr fsr tl' HI Hfs Hconf Hcomp Hn.
  - (* no frames left: the chain must already be complete *)
    unfold completes in Hcomp. cbn in Hcomp. assert (r = 0) by lia. subst r.
    destruct n as [|n]; [cbn in Hn; lia|].
    cbn [Chain.collect Chain.next c_done Nat.eqb].
    exists [], (mkcs idx true (idx + 0)), s, tr, fsb, fsr. cbn. auto.
  - destruct n as [|n]; [cbn in Hn; lia|].
    destruct r as [|r].
    + cbn [Chain.collect Chain.next c_done Nat.eqb].
      exists [], (mkcs idx true (idx + 0)), s, tr, fsb, fsr. cbn [owed map firstn skipn]. auto.
    + cbn [Chain.collect Chain.next c_done Nat.eqb c_idx c_count].
      destruct (receive_step step limit D decode step_pos polls fuel s fsb tr fsr tl' f rest HI (eq_sym Hfs))
        as (s1 & tr1 & fsb1 & fsr1 & Hrec & HI1 & Hrest).
      rewrite Hrec. cbn [kind_of].
      cbn [map] in Hconf, Hcomp. apply Forall_cons_iff in Hconf. destruct Hconf as [Hk Hconf].
      assert (Hn' : length rest < n) by (cbn in Hn; lia).
      destruct (kind (decode f)) eqn:Ek; try congruence.
      * (* a continuing reply: same call *)
        rewrite leb_cont.
        assert (Hcomp' : completes (S r) (kinds rest)).
        { unfold completes in *. cbn in Hcomp. exact Hcomp. }
        destruct (IH n polls fuel idx (S r) s1 fsb1 tr1 fsr1 tl' HI1 (eq_sym Hrest) Hconf Hcomp' Hn')
          as (items & c' & s' & tr' & fsb' & fsr' & Hcol & Hit & HI' & Hsk).
        cbn [Nat.eqb] in Hcol. rewrite Hcol.
        exists ((Msg (decode f), s1) :: items), c', s', tr', fsb', fsr'.
        cbn [map owed]. rewrite Ek. cbn [firstn skipn map fst]. rewrite Hit. auto.
      * (* final reply of this call *)
        rewrite leb_final.
        assert (Hcomp' : completes r (kinds rest)).
        { unfold completes in *. cbn in Hcomp. cbn [length] in Hcomp. lia. }
        destruct (IH n polls fuel (S idx) r s1 fsb1 tr1 fsr1 tl' HI1 (eq_sym Hrest) Hconf Hcomp' Hn')
          as (items & c' & s' & tr' & fsb' & fsr' & Hcol & Hit & HI' & Hsk).
        replace (idx + S r) with (S idx + r) by lia. rewrite Hcol.
        exists ((Msg (decode f), s1) :: items), c', s', tr', fsb', fsr'.
        cbn [map owed]. rewrite Ek. cbn [firstn skipn map fst]. rewrite Hit. auto.
      * (* the call's error *)
        rewrite leb_final.
        assert (Hcomp' : completes r (kinds rest)).
        { unfold completes in *. cbn in Hcomp. cbn [length] in Hcomp. lia. }
        destruct (IH n polls fuel (S idx) r s1 fsb1 tr1 fsr1 tl' HI1 (eq_sym Hrest) Hconf Hcomp' Hn')
          as (items & c' & s' & tr' & fsb' & fsr' & Hcol & Hit & HI' & Hsk).
        replace (idx + S r) with (S idx + r) by lia. rewrite Hcol.
        exists ((Msg (decode f), s1) :: items), c', s', tr', fsb', fsr'.
        cbn [map owed]. rewrite Ek. cbn [firstn skipn map fst]. rewrite Hit. auto.
Qed.

(* C06 on the model, from a fresh connection: the stream yields exactly the owed replies in
   order and ends; the frames behind them are still there for later receives, in order. *)
Theorem chain_exact : forall fs tr tl' polls fuel n m count,
  Forall frame_ok fs -> Forall ok_ev tr -> payload tr = wire fs ->
  (N.of_nat (length (wire fs)) < limit)%N ->
  length tr < polls -> length (wire fs) + length tr < fuel ->
  conforming (kinds fs) -> completes count (kinds fs) -> length fs < n ->
  let k := owed count (kinds fs) in
  exists items c' s' tr',
    collect n polls fuel (cs_init count) (init step) (tr ++ Eof :: tl') = (items, c', s', tr', true)
    /\ map fst items = map (fun f => Msg (decode f)) (firstn k fs)
    /\ map fst (run m polls fuel s' tr') = spec D decode m (skipn k fs).
Proof.
  intros fs tr tl' polls fuel n m count Hfr Hok Hpay Hlim Hp Hf Hconf Hcomp Hn k.
  pose proof (RInv_fresh step limit step_pos fs tr polls fuel Hfr Hok Hpay Hlim Hp Hf) as HI.
  destruct (collect_exact fs n polls fuel 0 count (init step) [] tr fs tl' HI eq_refl Hconf Hcomp Hn)
    as (items & c' & s' & tr' & fsb' & fsr' & Hcol & Hit & HI' & Hsk).
  exists items, c', s', (tr' ++ Eof :: tl').
  split; [exact Hcol|]. split; [exact Hit|].
  rewrite (RInv_run step limit D decode step_pos m polls fuel s' fsb' tr' fsr' tl' HI').
  subst k. now rewrite Hsk.
Qed.

(* a chain that owes nothing (only oneway calls) ends at the first poll without touching the
   connection or the transport *)
Theorem chain_zero_owed : forall flags n polls fuel s tr,
  Forall (fun b => b = true) flags ->
  collect (S n) polls fuel (cs_init (reply_count flags)) s tr
  = ([], cs_init (reply_count flags), s, tr, true).
Proof.
  intros flags n polls fuel s tr Hall.
  assert (Hc : reply_count flags = 0).
  { unfold reply_count. induction Hall as [|b l Hb Hl IH]; [reflexivity|]. subst b. cbn. exact IH. }
  rewrite Hc. reflexivity.
Qed.

End ChainProofs.

(* one write, in chain order: a chain is `enqueue*; flush` (chain/mod.rs:45,66,87) *)
Lemma spec_writes_chain : forall ms pending,
  spec_writes pending (map (fun bs => Enqueue (Good bs)) ms ++ [Flush])
              (map (fun _ => WOk) ms ++ [WOk])
  = match pending ++ wire ms with [] => [] | w => [w] end.
Proof.
  induction ms as [|bs ms IH]; intros pending.
  - cbn. rewrite app_nil_r. destruct pending; reflexivity.
  - cbn [map app spec_writes]. rewrite IH. unfold wire. cbn [map concat]. unfold term.
    now rewrite <- !app_assoc.
Qed.
