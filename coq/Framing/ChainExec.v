(* Correspondence driver for the chain reply stream model. *)
From ZV Require Import Common.Exec Framing.ReadConn Framing.ReadConnExec Framing.Chain.

Definition kind_code (k : N) : ikind :=
  (if k =? 0 then Cont else if k =? 1 then Final else if k =? 2 then MErr else Fatal)%N.

Record chcase := {
  ch_step : N; ch_limit : N;
  ch_tab : table;                 (* frame bytes -> result code *)
  ch_ktab : list (N * N);         (* result code -> kind code (0 Cont, 1 Final, 2 MErr, 3 Fatal) *)
  ch_oneway : list bool;          (* per call: flagged oneway *)
  ch_events : list ev;
  ch_after : nat;
  ch_frames : list (list byte);
  ch_inhyp : bool;                (* hypotheses of C06_exact hold (conforming, completing, < limit) *)
  ch_items : list N;              (* implementation: results yielded by the stream *)
  ch_ended : bool;
  ch_afterres : list N;           (* implementation: results of the receives after the stream *)
  ch_final : list N               (* implementation: [cap; msg_pos; read_pos] at the end *)
}.

Fixpoint klookup (t : list (N * N)) (d : N) : ikind :=
  match t with [] => Fatal | (d', k) :: t' => if (d =? d')%N then kind_code k else klookup t' d end.

Definition ch_fuel (c : chcase) : nat := length (payload (ch_events c)) + length (ch_events c) + 2.
Definition ch_polls (c : chcase) : nat := length (ch_events c) + 2.

Definition ch_model (c : chcase) :=
  let dec := lookup (ch_tab c) in
  let count := reply_count (ch_oneway c) in
  match collect (ch_step c) (ch_limit c) N dec (klookup (ch_ktab c))
                (length (ch_frames c) + length (ch_events c) + 3) (ch_polls c) (ch_fuel c)
                (cs_init count) (init (ch_step c)) (ch_events c) with
  | (items, c', s', tr', ended) =>
      let aft := run (ch_step c) (ch_limit c) N dec (ch_after c) (ch_polls c) (ch_fuel c) s' tr' in
      let fin := match rev aft with (_, sf) :: _ => sf | [] => s' end in
      (map (fun x => enc_res (fst x)) items, ended, map (fun x => enc_res (fst x)) aft,
       [cap fin; N.of_nat (mpos fin); N.of_nat (length (data fin))])
  end.

Definition ch_spec (c : chcase) :=
  let dec := lookup (ch_tab c) in
  let count := reply_count (ch_oneway c) in
  let ks := map (fun f => klookup (ch_ktab c) (dec f)) (ch_frames c) in
  let k := owed count ks in
  (map dec (firstn k (ch_frames c)),
   firstn (ch_after c) (map dec (skipn k (ch_frames c)) ++ repeatn 1000001%N (ch_after c))).

Definition check (c : chcase) : N :=
  let '(mi, me, ma, mf) := ch_model c in
  let '(si, sa) := ch_spec c in
  let leqb := list_eqb N.eqb in
  ((if leqb mi (ch_items c) && Bool.eqb me (ch_ended c) && leqb ma (ch_afterres c) && leqb mf (ch_final c)
    then 0 else 1) +
   (if ch_inhyp c && negb (leqb si (ch_items c) && ch_ended c && leqb sa (ch_afterres c)) then 2 else 0))%N.
