(* C19 model: the transport's write-all loop (zlink-tokio/src/unix/stream.rs:61-71, zlink-smol
   likewise) over a kernel socket that accepts an arbitrary non-empty prefix per write, with the
   possibility that the flush future is dropped between two partial writes; on top of WriteConn. *)
From ZV Require Export Framing.WriteConn.

(* the schedule: each kernel write accepts (at least one, at most n) bytes, or the pending flush
   future is dropped at this point *)
Inductive kstep := Acc (n : nat) | Cancel.

(* write-all: returns (completed, bytes accepted by the kernel in this call, remaining schedule) *)
Fixpoint write_all (fuel : nat) (buf : list byte) (sched : list kstep)
  : bool * list byte * list kstep :=
  match fuel with O => (false, [], sched) | S fuel =>
  match buf with
  | [] => (true, [], sched)
  | _ =>
    match sched with
    | [] => (true, buf, [])                      (* no more scheduled events: the kernel takes all *)
    | Cancel :: sched' => (false, [], sched')
    | Acc n :: sched' =>
        let k := Nat.max 1 (Nat.min n (length buf)) in
        match write_all fuel (skipn k buf) sched' with
        | (c, acc, sched'') => (c, firstn k buf ++ acc, sched'')
        end
    end
  end end.

Section Pipe.
Variables (step limit : N).

(* kernel-level state: connection, bytes on the wire so far, accepted messages (ghost), and whether
   a flush was ever dropped after a partial write *)
Record kst := kmk { k_conn : wst; k_out : list byte; k_acc : list (list byte); k_dirty : bool }.

(* flush (write_connection.rs:112-121): pos is reset only after the transport write returned;
   a dropped future leaves it alone *)
Definition kflush (s : kst) (sched : list kstep) : wres * kst * list kstep :=
  match wbuf (k_conn s) with
  | [] => (WOk, s, sched)
  | buf =>
      match write_all (S (length buf)) buf sched with
      | (true, acc, sched') =>
          (WOk, kmk (wmk (wcap (k_conn s)) []) (k_out s ++ acc) (k_acc s) (k_dirty s), sched')
      | (false, acc, sched') =>
          (* cancelled: the operation never returns; recorded as WIo for the trace *)
          (WIo, kmk (k_conn s) (k_out s ++ acc) (k_acc s)
                    (k_dirty s || negb (Nat.eqb (length acc) 0)), sched')
      end
  end.

Definition kenqueue (fuel : nat) (s : kst) (m : msg) : wres * kst :=
  let (r, c') := enqueue step limit fuel (k_conn s) m in
  let acc' := match r, m with WOk, Good bs => k_acc s ++ [bs] | _, _ => k_acc s end in
  (r, kmk c' (k_out s) acc' (k_dirty s)).

Definition kstep_op (fuel : nat) (s : kst) (sched : list kstep) (o : wop) : wres * kst * list kstep :=
  match o with
  | Enqueue m => let (r, s') := kenqueue fuel s m in (r, s', sched)
  | Send m => let (r, s') := kenqueue fuel s m in
              match r with WOk => kflush s' sched | _ => (r, s', sched) end
  | Flush => kflush s sched
  end.

Fixpoint krun (fuel : nat) (s : kst) (sched : list kstep) (ops : list wop) : list wres * kst :=
  match ops with
  | [] => ([], s)
  | o :: ops' =>
      match kstep_op fuel s sched o with
      | (r, s', sched') => let (rs, s'') := krun fuel s' sched' ops' in (r :: rs, s'')
      end
  end.

Definition kinit : kst := kmk (winit step) [] [] false.

End Pipe.
