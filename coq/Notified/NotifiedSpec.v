(* C20: the property on the latest-value cell absZ_impl, by an invariant relating the observable
   history (trace) to the state, preserved by every operation *)
From ZV Require Import Notified.Notified Notified.NotifiedBase Notified.NotifiedTokio.
Open Scope Z_scope.

(* ---------------------------------------------------------------- histories grow at the end *)
Section Snoc.
Variable I : impl.

Lemma run_from_app st a b :
  run_from I st (a ++ b) = run_from I st a ++ run_from I (final_from I st a) b.
Proof.
  revert st; induction a as [|o a IH]; intros st; cbn [app run_from final_from]; auto.
  destruct (step I st o) as [st1 r1] eqn:E. cbn [fst]. now rewrite IH.
Qed.

Lemma final_from_app st a b : final_from I st (a ++ b) = final_from I (final_from I st a) b.
Proof. revert st; induction a as [|o a IH]; intros st; cbn [app final_from]; auto. Qed.

Lemma run_from_length st ops : length (run_from I st ops) = length ops.
Proof.
  revert st; induction ops as [|o a IH]; intros st; cbn [run_from length]; auto.
  destruct (step I st o) as [st1 r1]. cbn [length]. now rewrite IH.
Qed.

Lemma run_snoc ops o : run I (ops ++ [o]) = run I ops ++ [next I ops o].
Proof.
  unfold run, next, final. rewrite run_from_app. cbn [run_from].
  destruct (step I (final_from I (init I) ops) o); reflexivity.
Qed.

Lemma final_snoc ops o : final I (ops ++ [o]) = fst (step I (final I ops) o).
Proof. unfold final. rewrite final_from_app. reflexivity. Qed.

Lemma combine_app' A B (a c : list A) (b d : list B) :
  length a = length b -> combine (a ++ c) (b ++ d) = combine a b ++ combine c d.
Proof.
  revert b; induction a as [|x a IH]; intros [|y b] L; cbn in *; try discriminate; auto.
  now rewrite IH by lia.
Qed.

Lemma trace_snoc ops o : trace I (ops ++ [o]) = trace I ops ++ [(o, next I ops o)].
Proof.
  unfold trace. rewrite run_snoc. rewrite combine_app'; [reflexivity|].
  unfold run. now rewrite run_from_length.
Qed.
End Snoc.

Lemma next_eq I J : (forall ops, run I ops = run J ops) -> forall ops o, next I ops o = next J ops o.
Proof.
  intros H ops o. pose proof (H (ops ++ [o])) as E. rewrite !run_snoc, H in E.
  apply app_inj_tail in E. tauto.
Qed.

Lemma trace_eq I J : (forall ops, run I ops = run J ops) -> forall ops, trace I ops = trace J ops.
Proof. intros H ops. unfold trace. now rewrite H. Qed.

(* ---------------------------------------------------------------- vocabulary at the end of a history *)
Definition is_sub (s : nat) (e : ev) : bool :=
  match e with (Subscribe _, OSub k) => Nat.eqb k s | _ => false end.
Definition subscribed (s : nat) (tr : list ev) : bool := existsb (is_sub s) tr.
Definition created (h : nat) (tr : list ev) : bool := Nat.eqb h 0 || existsb (is_clone h) tr.
Definition hdropped (h : nat) (tr : list ev) : bool := existsb (is_droph h) tr.

Lemma handle_live_eq h tr : handle_live h tr = created h tr && negb (hdropped h tr).
Proof. reflexivity. Qed.

Lemma received_app s a b : received s (a ++ b) = received s a ++ received s b.
Proof.
  induction a as [|[o r] a IH]; cbn [app received]; auto.
  destruct o; auto. destruct r; auto. destruct (Nat.eqb s0 s); cbn; now rewrite IH.
Qed.

Lemma sets_app a b : sets (a ++ b) = sets a ++ sets b.
Proof.
  induction a as [|[o r] a IH]; cbn [app sets]; auto.
  destruct o; auto. destruct r; auto. cbn. now rewrite IH.
Qed.

Lemma sets_after_app s a b :
  sets_after s (a ++ b) = if subscribed s a then sets_after s a ++ sets b else sets_after s b.
Proof.
  induction a as [|[o r] a IH]; cbn [app sets_after subscribed existsb is_sub]; auto.
  destruct o; cbn [orb]; auto. destruct r; cbn [orb]; auto.
  destruct (Nat.eqb k s); cbn [orb]; auto. apply sets_app.
Qed.

Lemma sets_after_unsub s a : subscribed s a = false -> sets_after s a = [].
Proof.
  induction a as [|[o r] a IH]; cbn [sets_after subscribed existsb is_sub]; auto.
  destruct o; cbn [orb]; auto. destruct r; cbn [orb]; auto.
  destruct (Nat.eqb k s); cbn [orb]; auto. discriminate.
Qed.

(* events that touch none of received / sets / subscribed *)
Definition neutral (e : ev) : Prop :=
  match e with
  | (Poll _, OItem _ _) => False
  | (Set_ _ _, OSet _) => False
  | (Subscribe _, OSub _) => False
  | _ => True
  end.
(* events that touch none of the handles (creation, drop, value) *)
Definition hneutral (e : ev) : Prop :=
  match e with
  | (Set_ _ _, OSet _) => False
  | (CloneH _, OHandle _) => False
  | (DropH _, ODone) => False
  | _ => True
  end.

Lemma neutral_received e s : neutral e -> received s [e] = [].
Proof. destruct e as [[] []]; cbn; intros; try tauto; reflexivity. Qed.
Lemma neutral_sets e : neutral e -> sets [e] = [].
Proof. destruct e as [[] []]; cbn; intros; try tauto; reflexivity. Qed.
Lemma neutral_sub e s : neutral e -> is_sub s e = false.
Proof. destruct e as [[] []]; cbn; intros; try tauto; reflexivity. Qed.
Lemma hneutral_clone e h : hneutral e -> is_clone h e = false.
Proof. destruct e as [[] []]; cbn; intros; try tauto; reflexivity. Qed.
Lemma hneutral_droph e h : hneutral e -> is_droph h e = false.
Proof. destruct e as [[] []]; cbn; intros; try tauto; reflexivity. Qed.
Lemma hneutral_hstep e vals : hneutral e -> hstep vals e = vals.
Proof. destruct e as [[] []]; cbn; intros; try tauto; reflexivity. Qed.

Lemma neutral_sets_after e s tr : neutral e -> sets_after s (tr ++ [e]) = sets_after s tr.
Proof.
  intros N. rewrite sets_after_app. destruct (subscribed s tr) eqn:E.
  - now rewrite neutral_sets, app_nil_r.
  - rewrite (sets_after_unsub s tr) by auto. apply sets_after_unsub. cbn. now rewrite neutral_sub.
Qed.

Lemma subscribed_snoc s tr e : subscribed s (tr ++ [e]) = subscribed s tr || is_sub s e.
Proof. unfold subscribed. rewrite existsb_app. cbn. now rewrite orb_false_r. Qed.
Lemma created_snoc h tr e : created h (tr ++ [e]) = created h tr || is_clone h e.
Proof. unfold created. rewrite existsb_app. cbn. now rewrite orb_false_r, orb_assoc. Qed.
Lemma hdropped_snoc h tr e : hdropped h (tr ++ [e]) = hdropped h tr || is_droph h e.
Proof. unfold hdropped. rewrite existsb_app. cbn. now rewrite orb_false_r. Qed.
Lemma hvals_snoc tr e : hvals (tr ++ [e]) = hstep (hvals tr) e.
Proof. unfold hvals. now rewrite fold_left_app. Qed.

(* ---------------------------------------------------------------- sublist, last_opt *)
Lemma sublist_nil_l A (l : list A) : sublist [] l.
Proof. induction l; constructor; auto. Qed.

Lemma sublist_app_r A (a b c : list A) : sublist a b -> sublist a (b ++ c).
Proof.
  induction 1; cbn.
  - apply sublist_nil_l.
  - now apply sub_skip.
  - now apply sub_take.
Qed.

Lemma sublist_snoc A (a b : list A) x : sublist a b -> sublist (a ++ [x]) (b ++ [x]).
Proof.
  induction 1; cbn.
  - apply sub_take, sub_nil.
  - now apply sub_skip.
  - now apply sub_take.
Qed.

Lemma last_opt_snoc A (l : list A) x : last_opt (l ++ [x]) = Some x.
Proof. unfold last_opt. now rewrite rev_app_distr. Qed.

(* ---------------------------------------------------------------- the invariant: subscribers *)
(* per live subscriber at count k, against the channel (n, last) *)
Definition sub_ok (n : Z) (last : N) (k : Z) (rec sa : list N) : Prop :=
  k <= n /\
  (k = n -> sublist rec sa /\ last_opt rec = last_opt sa) /\
  (k < n -> exists sa0, sa = sa0 ++ [last] /\ sublist rec sa0).

Definition InvC (tr : list ev) (c : achan) (l : list (option Z)) : Prop :=
  a_rx c = nlive l /\
  (forall s, subscribed s tr = true <-> (s < length l)%nat) /\
  (forall s, (length l <= s)%nat -> received s tr = []) /\
  (forall s, nth_error l s = Some None ->
             sublist (received s tr) (sets_after s tr) /\ In (DropSub s, ODone) tr) /\
  (forall s k, nth_error l s = Some (Some k) ->
               sub_ok (a_n c) (a_last c) k (received s tr) (sets_after s tr)).

(* the invariant: handles.  hs = each handle's own value, None once dropped *)
Definition InvH (tr : list ev) (hs : list (option N)) : Prop :=
  (forall h, created h tr = true <-> (h < length hs)%nat) /\
  (forall h, hdropped h tr = true <-> nth_error hs h = Some None) /\
  length (hvals tr) = length hs /\
  (forall h g, nth_error hs h = Some (Some g) -> nth_error (hvals tr) h = Some g).

Definition Inv (tr : list ev) (st : state absZ_impl) : Prop :=
  InvC tr (ch st) (subs st) /\ InvH tr (handles st) /\ a_tx (ch st) = nlive (handles st) /\
  (notifier st = true -> onc st = AIdle).

Lemma sub_ok_sublist n last k rec sa : sub_ok n last k rec sa -> sublist rec sa.
Proof.
  intros (L & H1 & H2). destruct (Z.eq_dec k n) as [E|E]; [now apply H1|].
  destruct H2 as (sa0 & -> & S); [lia|]. now apply sublist_app_r.
Qed.

(* only the count of live subscribers, the number of published values and the latest value of
   the channel matter *)
Lemma InvC_chan tr c c' l : a_rx c' = a_rx c -> a_n c' = a_n c -> a_last c' = a_last c ->
  InvC tr c l -> InvC tr c' l.
Proof. unfold InvC. intros -> -> ->. auto. Qed.

Lemma InvC_neutral tr c l e : neutral e -> InvC tr c l -> InvC (tr ++ [e]) c l.
Proof.
  intros N (Hrx & Hsub & Hrec & Hdead & Hlive).
  unfold InvC. split; [auto|]. split; [|split; [|split]].
  - intros s. rewrite subscribed_snoc, neutral_sub, orb_false_r by auto. apply Hsub.
  - intros s L. rewrite received_app, neutral_received, app_nil_r by auto. auto.
  - intros s H. rewrite received_app, neutral_received, app_nil_r, neutral_sets_after by auto.
    split; [now apply Hdead|]. apply in_or_app. left. now apply Hdead.
  - intros s k H. rewrite received_app, neutral_received, app_nil_r, neutral_sets_after by auto.
    now apply Hlive.
Qed.

Lemma subscribed_of_nth tr c l s x : InvC tr c l -> nth_error l s = Some x -> subscribed s tr = true.
Proof.
  intros (_ & Hsub & _) H. apply Hsub. apply nth_error_Some. congruence.
Qed.

(* set(v) through a live handle *)
Lemma InvC_set tr c l h v : InvC tr c l ->
  InvC (tr ++ [(Set_ h v, OSet v)]) (fst (a_set c v)) l.
Proof.
  intros Hinv. pose proof Hinv as (Hrx & Hsub & Hrec & Hdead & Hlive).
  assert (SA : forall s x, nth_error l s = Some x ->
               sets_after s (tr ++ [(Set_ h v, OSet v)]) = sets_after s tr ++ [v]).
  { intros s x H. rewrite sets_after_app, (subscribed_of_nth _ _ _ _ _ Hinv H). reflexivity. }
  assert (RC : forall s, received s (tr ++ [(Set_ h v, OSet v)]) = received s tr).
  { intros s. rewrite received_app. cbn. apply app_nil_r. }
  unfold InvC.
  assert (Hc2 : a_rx (fst (a_set c v)) = nlive l).
  { unfold a_set. cbn [fst]. destruct (Nat.eqb (a_rx c) 0); cbn; auto. }
  split; [auto|]. split; [|split; [|split]].
  - intros s. rewrite subscribed_snoc. cbn [is_sub]. rewrite orb_false_r. apply Hsub.
  - intros s L. rewrite RC. auto.
  - intros s H. rewrite RC, (SA _ _ H). split; [apply sublist_app_r; now apply Hdead|].
    apply in_or_app. left. now apply Hdead.
  - (* live subscriber: rx > 0, so the value is published and the subscriber falls behind *)
    intros s k H. rewrite RC, (SA _ _ H). pose proof (Hlive _ _ H) as Hk.
    pose proof (nlive_pos _ _ _ H) as Lp.
    unfold a_set; cbn [fst]. destruct (Nat.eqb_spec (a_rx c) 0) as [E|E]; [lia|].
    cbn [a_n a_last]. unfold sub_ok. destruct Hk as (L & Hk). split; [lia|]. split; [lia|].
    intros _. exists (sets_after s tr). split; auto.
    eapply sub_ok_sublist. split; eauto.
Qed.

Lemma nth_error_snoc' A (l : list A) x s y :
  nth_error (l ++ [x]) s = Some y -> nth_error l s = Some y \/ (s = length l /\ y = x).
Proof.
  intros H. destruct (Nat.lt_ge_cases s (length l)) as [Lt|Ge].
  - rewrite nth_error_app1 in H by auto. auto.
  - rewrite nth_error_app2 in H by auto. destruct (s - length l)%nat as [|[|?]] eqn:E; cbn in H; try discriminate.
    injection H as <-. right. split; auto. lia.
Qed.

(* stream() through a live handle *)
Lemma InvC_sub tr c l h : InvC tr c l ->
  InvC (tr ++ [(Subscribe h, OSub (length l))]) (fst (a_sub c)) (l ++ [Some (snd (a_sub c))]).
Proof.
  intros Hinv. pose proof Hinv as (Hrx & Hsub & Hrec & Hdead & Hlive).
  set (e := (Subscribe h, OSub (length l))).
  assert (RC : forall s, received s (tr ++ [e]) = received s tr).
  { intros s. rewrite received_app. cbn. apply app_nil_r. }
  assert (SA : forall s x, nth_error l s = Some x -> sets_after s (tr ++ [e]) = sets_after s tr).
  { intros s x H. rewrite sets_after_app, (subscribed_of_nth _ _ _ _ _ Hinv H). cbn. apply app_nil_r. }
  assert (Hnew : subscribed (length l) tr = false).
  { destruct (subscribed (length l) tr) eqn:E; auto. apply Hsub in E. lia. }
  assert (SN : sets_after (length l) (tr ++ [e]) = []).
  { rewrite sets_after_app, Hnew. cbn. now rewrite Nat.eqb_refl. }
  unfold InvC.
  unfold a_sub; cbn [fst snd a_rx a_n a_last]. rewrite nlive_app, app_length. cbn [length].
  split; [lia|]. split; [|split; [|split]].
  - intros s. rewrite subscribed_snoc. cbn [is_sub e]. split.
    + intros H. apply orb_true_iff in H as [H|H].
      * apply Hsub in H. lia.
      * apply Nat.eqb_eq in H. lia.
    + intros L. apply orb_true_iff. destruct (Nat.eq_dec s (length l)) as [->|N].
      * right. apply Nat.eqb_refl.
      * left. apply Hsub. lia.
  - intros s L. rewrite RC. apply Hrec. lia.
  - intros s H. apply nth_error_snoc' in H as [H|[_ H]]; [|discriminate].
    rewrite RC, (SA _ _ H). split; [now apply Hdead|]. apply in_or_app. left. now apply Hdead.
  - intros s k H. apply nth_error_snoc' in H as [H|[-> H]].
    + rewrite RC, (SA _ _ H). now apply Hlive.
    + injection H as <-. rewrite RC, SN, (Hrec (length l)) by lia.
      unfold sub_ok. split; [lia|]. split; [|lia]. intros _. split; [constructor|reflexivity].
Qed.

(* poll_next hands the latest value to a subscriber that is behind *)
Lemma InvC_item tr c l s k : InvC tr c l -> nth_error l s = Some (Some k) -> k < a_n c ->
  InvC (tr ++ [(Poll s, OItem (a_last c) CTrue)]) c (upd l s (Some (a_n c))).
Proof.
  intros Hinv El Lk. pose proof Hinv as (Hrx & Hsub & Hrec & Hdead & Hlive).
  set (e := (Poll s, OItem (a_last c) CTrue)).
  assert (RC : forall t, t <> s -> received t (tr ++ [e]) = received t tr).
  { intros t N. rewrite received_app. cbn. apply Nat.eqb_neq in N. rewrite Nat.eqb_sym, N.
    apply app_nil_r. }
  assert (RS : received s (tr ++ [e]) = received s tr ++ [a_last c]).
  { rewrite received_app. cbn. now rewrite Nat.eqb_refl. }
  assert (SA : forall t, sets_after t (tr ++ [e]) = sets_after t tr).
  { intros t. rewrite sets_after_app. destruct (subscribed t tr) eqn:E.
    - cbn. apply app_nil_r.
    - rewrite (sets_after_unsub t tr) by auto. reflexivity. }
  assert (Ls : (s < length l)%nat) by (apply nth_error_Some; congruence).
  unfold InvC. rewrite length_upd.
  split; [|split; [|split; [|split]]].
  - rewrite Hrx. symmetry. eapply nlive_upd_some; eauto.
  - intros t. rewrite subscribed_snoc. cbn [is_sub e]. rewrite orb_false_r. apply Hsub.
  - intros t L. rewrite RC by lia. auto.
  - intros t H. destruct (Nat.eq_dec t s) as [->|N].
    + rewrite (nth_error_upd_same _ _ _ _ _ El) in H. discriminate.
    + rewrite nth_error_upd_other in H by auto. rewrite RC, SA by auto.
      split; [now apply Hdead|]. apply in_or_app. left. now apply Hdead.
  - intros t k' H. destruct (Nat.eq_dec t s) as [->|N].
    + rewrite (nth_error_upd_same _ _ _ _ _ El) in H. injection H as <-.
      rewrite RS, SA. destruct (Hlive _ _ El) as (_ & _ & Hb).
      destruct (Hb Lk) as (sa0 & -> & Sb).
      unfold sub_ok. split; [lia|]. split; [|lia]. intros _. split.
      * now apply sublist_snoc.
      * now rewrite !last_opt_snoc.
    + rewrite nth_error_upd_other in H by auto. rewrite RC, SA by auto. now apply Hlive.
Qed.

(* drop(Stream) *)
Lemma InvC_kill tr c l s k : InvC tr c l -> nth_error l s = Some (Some k) ->
  In (DropSub s, ODone) tr ->
  InvC tr (fst (a_droprx c k)) (upd l s None).
Proof.
  intros (Hrx & Hsub & Hrec & Hdead & Hlive) El Hin.
  unfold InvC, a_droprx. cbn [fst a_rx a_n a_last]. rewrite length_upd.
  split; [|split; [|split; [|split]]]; auto.
  - pose proof (nlive_upd_none _ _ _ El). lia.
  - intros t H. destruct (Nat.eq_dec t s) as [->|N].
    + split; auto. eapply sub_ok_sublist. eapply Hlive; eauto.
    + rewrite nth_error_upd_other in H by auto. now apply Hdead.
  - intros t k' H. destruct (Nat.eq_dec t s) as [->|N].
    + rewrite (nth_error_upd_same _ _ _ _ _ El) in H. discriminate.
    + rewrite nth_error_upd_other in H by auto. now apply Hlive.
Qed.

(* ---------------------------------------------------------------- the invariant: handles *)
Lemma InvH_neutral tr hs e : hneutral e -> InvH tr hs -> InvH (tr ++ [e]) hs.
Proof.
  intros N (Hc & Hd & Hl & Hv). unfold InvH.
  rewrite hvals_snoc, hneutral_hstep by auto.
  split; [|split; [|split]]; auto.
  - intros h. rewrite created_snoc, hneutral_clone, orb_false_r by auto. apply Hc.
  - intros h. rewrite hdropped_snoc, hneutral_droph, orb_false_r by auto. apply Hd.
Qed.

Lemma nth_error_upd_len A (l : list A) s x y : nth_error l s = Some y ->
  length (upd l s x) = length l.
Proof. intros _. apply length_upd. Qed.

Lemma InvH_set tr hs h g v : InvH tr hs -> nth_error hs h = Some (Some g) ->
  InvH (tr ++ [(Set_ h v, OSet v)]) (upd hs h (Some v)).
Proof.
  intros (Hc & Hd & Hl & Hv) Eh. unfold InvH.
  rewrite hvals_snoc. cbn [hstep]. rewrite !length_upd.
  split; [|split; [|split]]; auto.
  - intros k. rewrite created_snoc. cbn [is_clone]. rewrite orb_false_r. apply Hc.
  - intros k. rewrite hdropped_snoc. cbn [is_droph]. rewrite orb_false_r.
    destruct (Nat.eq_dec k h) as [->|N].
    + rewrite (nth_error_upd_same _ _ _ _ _ Eh). split; [|discriminate].
      intros H. apply Hd in H. congruence.
    + rewrite nth_error_upd_other by auto. apply Hd.
  - intros k g' H. destruct (Nat.eq_dec k h) as [->|N].
    + rewrite (nth_error_upd_same _ _ _ _ _ Eh) in H. injection H as <-.
      eapply nth_error_upd_same. eapply Hv; eauto.
    + rewrite nth_error_upd_other in H by auto. rewrite nth_error_upd_other by auto. now apply Hv.
Qed.

Lemma InvH_clone tr hs h g : InvH tr hs -> nth_error hs h = Some (Some g) ->
  InvH (tr ++ [(CloneH h, OHandle (length hs))]) (hs ++ [Some g]).
Proof.
  intros (Hc & Hd & Hl & Hv) Eh. unfold InvH.
  rewrite hvals_snoc. cbn [hstep]. rewrite !app_length, Hl. cbn [length].
  assert (Eg : nth h (hvals tr) 0%N = g).
  { apply nth_error_nth. eapply Hv; eauto. }
  rewrite Eg.
  split; [|split; [|split]]; auto.
  - intros k. rewrite created_snoc. cbn [is_clone]. split.
    + intros H. apply orb_true_iff in H as [H|H].
      * apply Hc in H. lia.
      * apply Nat.eqb_eq in H. lia.
    + intros L. apply orb_true_iff. destruct (Nat.eq_dec k (length hs)) as [->|N].
      * right. apply Nat.eqb_refl.
      * left. apply Hc. lia.
  - intros k. rewrite hdropped_snoc. cbn [is_droph]. rewrite orb_false_r. split.
    + intros H. apply Hd in H. rewrite nth_error_app1; auto. apply nth_error_Some. congruence.
    + intros H. apply nth_error_snoc' in H as [H|[_ H]]; [now apply Hd|discriminate].
  - intros k g' H. apply nth_error_snoc' in H as [H|[-> H]].
    + rewrite nth_error_app1; [now apply Hv|]. rewrite Hl. apply nth_error_Some. congruence.
    + injection H as <-. rewrite nth_error_app2 by lia. rewrite Hl, Nat.sub_diag. reflexivity.
Qed.

Lemma InvH_drop tr hs h g : InvH tr hs -> nth_error hs h = Some (Some g) ->
  InvH (tr ++ [(DropH h, ODone)]) (upd hs h None).
Proof.
  intros (Hc & Hd & Hl & Hv) Eh. unfold InvH.
  rewrite hvals_snoc. cbn [hstep]. rewrite !length_upd.
  split; [|split; [|split]]; auto.
  - intros k. rewrite created_snoc. cbn [is_clone]. rewrite orb_false_r. apply Hc.
  - intros k. rewrite hdropped_snoc. cbn [is_droph].
    destruct (Nat.eq_dec k h) as [->|N].
    + rewrite (nth_error_upd_same _ _ _ _ _ Eh), Nat.eqb_refl, orb_true_r. tauto.
    + rewrite nth_error_upd_other by auto. apply Nat.eqb_neq in N. rewrite Nat.eqb_sym, N, orb_false_r.
      apply Hd.
  - intros k g' H. destruct (Nat.eq_dec k h) as [->|N].
    + rewrite (nth_error_upd_same _ _ _ _ _ Eh) in H. discriminate.
    + rewrite nth_error_upd_other in H by auto. now apply Hv.
Qed.

(* handle h exists, in the words of the history <-> in the state *)
Lemma InvH_live tr hs h : InvH tr hs ->
  (handle_live h tr = true <-> exists g, nth_error hs h = Some (Some g)).
Proof.
  intros (Hc & Hd & _). rewrite handle_live_eq. split.
  - intros H. apply andb_true_iff in H as [H1 H2]. apply Hc in H1.
    destruct (nth_error hs h) as [[g|]|] eqn:E; eauto.
    + exfalso. rewrite (proj2 (Hd h) E) in H2. discriminate.
    + apply nth_error_None in E. lia.
  - intros [g E]. apply andb_true_iff. split.
    + apply Hc. apply nth_error_Some. congruence.
    + destruct (hdropped h tr) eqn:D; auto. apply Hd in D. congruence.
Qed.

(* ---------------------------------------------------------------- every operation keeps it *)
Lemma Inv_init : Inv [] (init absZ_impl).
Proof.
  unfold Inv, init. cbn [handles ch subs notifier onc absZ_impl ch_new on_new].
  split; [|split; [|split]]; auto.
  - unfold InvC. cbn. split; [auto|]. split; [|split; [|split]].
    + intros s. split; [discriminate|lia].
    + auto.
    + intros s H. destruct s; discriminate.
    + intros s k H. destruct s; discriminate.
  - unfold InvH. cbn. split; [|split; [|split]]; auto.
    + intros h. unfold created. cbn. rewrite orb_false_r. rewrite Nat.eqb_eq. lia.
    + intros h. unfold hdropped. cbn. split; [discriminate|]. destruct h as [|[|h]]; discriminate.
    + intros h g H. destruct h as [|[|h]]; cbn in *; try discriminate. congruence.
Qed.

Lemma Inv_step tr st o : Inv tr st ->
  Inv (tr ++ [(o, snd (step absZ_impl st o))]) (fst (step absZ_impl st o)).
Proof.
  intros (HC & HH & HT & HN). destruct st as [hs c l nf oc]; cbn [handles ch subs notifier onc] in *.
  assert (Quiet : forall e, neutral e -> hneutral e -> Inv (tr ++ [e]) (St hs c l nf oc)).
  { intros e Ne He. split; [|split; [|split]]; auto.
    - now apply InvC_neutral.
    - now apply InvH_neutral. }
  destruct o as [h x|h|h|s|s|h|h|x| |]; cbn [step handles ch subs notifier onc absZ_impl
      ch_set ch_sub ch_poll ch_droprx ch_clone ch_droptx on_notify on_drop on_poll fst snd].
  - (* Set_ *) destruct (nth_error hs h) as [[g|]|] eqn:Eh; try (apply Quiet; exact I).
    unfold a_set at 1 2. cbn [fst snd]. split; [|split; [|split]]; cbn [handles ch subs notifier onc]; auto.
    + now apply InvC_set.
    + eapply InvH_set; eauto.
    + rewrite (nlive_upd_some _ _ _ _ Eh). unfold a_set. cbn [fst].
      destruct (Nat.eqb (a_rx c) 0); auto.
  - (* Get *) destruct (nth_error hs h) as [[g|]|]; apply Quiet; exact I.
  - (* Subscribe *) destruct (nth_error hs h) as [[g|]|] eqn:Eh; try (apply Quiet; exact I).
    cbn [fst snd]. split; [|split; [|split]]; cbn [handles ch subs notifier onc]; auto.
    + now apply InvC_sub.
    + apply InvH_neutral; auto. exact I.
  - (* Poll *) destruct (nth_error l s) as [[k|]|] eqn:El; try (apply Quiet; exact I).
    unfold a_poll. destruct (Z.ltb_spec k (a_n c)) as [L|L]; cbn [fst snd].
    + split; [|split; [|split]]; cbn [handles ch subs notifier onc]; auto.
      * eapply InvC_item; eauto.
      * apply InvH_neutral; auto. exact I.
    + rewrite (upd_id _ _ _ _ El). destruct (a_open c); apply Quiet; exact I.
  - (* DropSub *) destruct (nth_error l s) as [[k|]|] eqn:El; try (apply Quiet; exact I).
    cbn [fst snd a_droprx]. split; [|split; [|split]]; cbn [handles ch subs notifier onc]; auto.
    + apply (InvC_kill _ _ _ _ k); auto.
      * apply InvC_neutral; auto. exact I.
      * apply in_or_app. right. left. reflexivity.
    + apply InvH_neutral; auto. exact I.
  - (* CloneH *) destruct (nth_error hs h) as [[g|]|] eqn:Eh; try (apply Quiet; exact I).
    cbn [fst snd]. split; [|split; [|split]]; cbn [handles ch subs notifier onc]; auto.
    + apply InvC_chan with (c := c); try reflexivity. apply InvC_neutral; auto. exact I.
    + eapply InvH_clone; eauto.
    + rewrite nlive_app. cbn. now rewrite HT.
  - (* DropH *) destruct (nth_error hs h) as [[g|]|] eqn:Eh; try (apply Quiet; exact I).
    cbn [fst snd]. split; [|split; [|split]]; cbn [handles ch subs notifier onc]; auto.
    + apply InvC_chan with (c := c); try reflexivity. apply InvC_neutral; auto. exact I.
    + eapply InvH_drop; eauto.
    + pose proof (nlive_upd_none _ _ _ Eh). cbn. lia.
  - (* Notify *) destruct nf; [|apply Quiet; exact I].
    rewrite (HN eq_refl). cbn [ao_notify fst snd]. split; [|split; [|split]]; cbn [handles ch subs notifier onc]; auto.
    + apply InvC_neutral; auto. exact I.
    + apply InvH_neutral; auto. exact I.
    + discriminate.
  - (* DropNotifier *) destruct nf; [|apply Quiet; exact I].
    split; [|split; [|split]]; cbn [handles ch subs notifier onc]; auto.
    + apply InvC_neutral; auto. exact I.
    + apply InvH_neutral; auto. exact I.
    + discriminate.
  - (* PollOnce *) destruct (ao_poll oc) as [o1 r1] eqn:Ep. cbn [fst snd].
    split; [|split; [|split]]; cbn [handles ch subs notifier onc]; auto.
    + apply InvC_neutral; auto. destruct r1; exact I.
    + apply InvH_neutral; auto. destruct r1; exact I.
    + intros E. rewrite (HN E) in Ep. cbn in Ep. congruence.
Qed.

Theorem Inv_trace ops : Inv (trace absZ_impl ops) (final absZ_impl ops).
Proof.
  induction ops as [|o ops IH] using rev_ind.
  - exact Inv_init.
  - rewrite trace_snoc, final_snoc. now apply Inv_step.
Qed.
