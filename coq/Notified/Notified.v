(* Models of zlink-tokio/src/notified.rs and zlink-smol/src/notified.rs (State, Once, Stream)
   together with exactly those parts of the channels they are built on:

     tokio     tokio::sync::broadcast (capacity 1)          tokio-1.48.0/src/sync/broadcast.rs
               tokio_stream::wrappers::BroadcastStream      tokio-stream-0.1.17/src/wrappers/broadcast.rs
               tokio::sync::oneshot                         tokio-1.48.0/src/sync/oneshot.rs
     smol      async_broadcast (cap 1, overflow, !await_active, inactive keeper)
                                                            async-broadcast-0.7.2/src/lib.rs
               async_channel::bounded(1)                    async-channel-2.5.0/src/lib.rs

   Executable; proofs live in Notified{Base,Tokio,Smol,Spec,Proofs,Handles}.v.  Everything is single-threaded
   and driven poll by poll (one operation at a time), exactly like the harness
   harness/src/bin/notified.rs; wakers are therefore not modelled (a poll either finds something
   or reports Pending), locks are not modelled, and the u64 position counters are unbounded Z
   (2^64 sends are out of reach).  Values are N (the harness uses ReplyParams = T = u64). *)
From ZV Require Export Common.Base.
From Coq Require Export ZArith.

(* ------------------------------------------------------------------------------------------ *)
(* Operations of a scenario and their observable results                                       *)

Inductive cont := CNone | CFalse | CTrue.     (* Reply::continues(): None / Some(false) / Some(true) *)

(* A State is `#[derive(Clone)]` in both crates: a clone is a second handle to the SAME channel
   (the Sender — and in smol the InactiveReceiver — are cloned) with its own copy of `value`.
   The scenario keeps a vector of handles; handle 0 is State::new(0). *)
Inductive op :=
| Set_ (h : nat) (v : N)  (* handles[h].set(v).await                  *)
| Get (h : nat)         (* handles[h].get()                           *)
| Subscribe (h : nat)   (* subs.push(handles[h].stream())             *)
| Poll (s : nat)        (* subs[s].poll_next(cx)                      *)
| DropSub (s : nat)     (* drop(subs[s])                              *)
| CloneH (h : nat)      (* handles.push(handles[h].clone())           *)
| DropH (h : nat)       (* drop(handles[h])                           *)
| Notify (v : N)        (* once.notify(v)   (consumes the notifier)   *)
| DropNotifier          (* drop(once)                                 *)
| PollOnce.             (* once_stream.poll_next(cx)                  *)

Inductive out :=
| ODone                 (* operation returned ()                                         *)
| OSet (g : N)          (* set returned; g = state.get() afterwards                      *)
| OGet (g : N)          (* get() returned g                                              *)
| OSub (k : nat)        (* subscribed; k = index of the new subscriber                   *)
| OHandle (k : nat)     (* cloned; k = index of the new handle                           *)
| OItem (v : N) (c : cont)   (* Ready(Some(reply)), reply.parameters = Some v, continues = c *)
| OPending              (* Pending                                                       *)
| OEnd                  (* Ready(None)                                                   *)
| OGone                 (* the object does not exist (never created / already dropped)   *)
| OPanic                (* the operation panicked                                        *)
| OFuel.                (* a loop of the model ran out of fuel (excluded by the theorems) *)

(* ------------------------------------------------------------------------------------------ *)
(* The scenario machine, generic in the channel implementation                                 *)

Record impl := Impl {
  chan : Type;                                   (* shared channel state                        *)
  rx : Type;                                     (* per-stream receiver state                   *)
  once : Type;                                   (* one-shot channel + its stream               *)
  ch_new : chan;                                 (* State::new                                  *)
  ch_set : chan -> N -> chan * out;              (* channel part of State::set: ODone/OPanic/OPending *)
  ch_sub : chan -> chan * rx;                    (* State::stream                               *)
  ch_poll : chan -> rx -> chan * rx * out;       (* <Stream as futures::Stream>::poll_next      *)
  ch_droprx : chan -> rx -> chan * out;          (* drop(Stream): ODone/OPanic/OFuel            *)
  ch_clone : chan -> chan;                       (* State::clone (channel part)                 *)
  ch_droptx : chan -> chan;                      (* drop(State) of one handle                   *)
  rx_waiting : chan -> rx -> bool;               (* the stream's last poll returned Pending and its
                                                    waker is still registered with the channel  *)
  on_new : once;                                 (* Once::new                                   *)
  on_notify : once -> N -> once * out;           (* Once::notify: ODone/OPanic                  *)
  on_drop : once -> once;                        (* drop(Once)                                  *)
  on_poll : once -> once * out                   (* poll_next of the one-shot stream            *)
}.

Fixpoint upd {A} (l : list A) (i : nat) (x : A) : list A :=
  match l, i with
  | [], _ => []
  | _ :: l', O => x :: l'
  | y :: l', S i' => y :: upd l' i' x
  end.

(* A receiver as all three machines below see it: its position in the sequence of published
   values and, when its last poll returned Pending, the notification epoch in which its waker was
   registered with the channel (tokio: the Recv future's waiter queued in Tail.waiters; smol: the
   EventListener on Inner.recv_ops).  Every "notify everybody" of a channel starts a new epoch and
   wakes the wakers registered before it. *)
Record brx := BRx { r_pos : Z; r_lst : option nat }.
Definition parked_at (epoch : nat) (r : brx) : bool :=
  match r_lst r with Some e => negb (e <? epoch) | None => false end.

Section Machine.
Variable I : impl.

(* handles: the harness' Vec<Option<State>> with each live handle's own `value`;
   subs: Vec<Option<Stream>>; notifier: Option<Once> is Some *)
Record state := St {
  handles : list (option N); ch : chan I; subs : list (option (rx I));
  notifier : bool; onc : once I }.

Definition init : state := St [Some 0%N] (ch_new I) [] true (on_new I).

Definition step (st : state) (o : op) : state * out :=
  match o with
  | Set_ h v =>
      match nth_error (handles st) h with
      | Some (Some _) =>
        (* `self.value = value.clone()` comes first in both crates (tokio notified.rs:35,
           smol notified.rs:52), then the channel send; only this handle's copy changes *)
        let '(c', r) := ch_set I (ch st) v in
        (St (upd (handles st) h (Some v)) c' (subs st) (notifier st) (onc st),
         match r with ODone => OSet v | r' => r' end)
      | _ => (st, OGone)
      end
  | Get h =>
      match nth_error (handles st) h with
      | Some (Some g) => (st, OGet g)
      | _ => (st, OGone)
      end
  | Subscribe h =>
      match nth_error (handles st) h with
      | Some (Some _) =>
        let '(c', r) := ch_sub I (ch st) in
        (St (handles st) c' (subs st ++ [Some r]) (notifier st) (onc st), OSub (length (subs st)))
      | _ => (st, OGone)
      end
  | Poll s =>
      match nth_error (subs st) s with
      | Some (Some r) =>
          let '(c', r', o') := ch_poll I (ch st) r in
          (St (handles st) c' (upd (subs st) s (Some r')) (notifier st) (onc st), o')
      | _ => (st, OGone)
      end
  | DropSub s =>
      match nth_error (subs st) s with
      | Some (Some r) =>
          let '(c', o') := ch_droprx I (ch st) r in
          (St (handles st) c' (upd (subs st) s None) (notifier st) (onc st), o')
      | _ => (st, OGone)
      end
  | CloneH h =>
      match nth_error (handles st) h with
      | Some (Some g) =>
        (St (handles st ++ [Some g]) (ch_clone I (ch st)) (subs st) (notifier st) (onc st),
         OHandle (length (handles st)))
      | _ => (st, OGone)
      end
  | DropH h =>
      match nth_error (handles st) h with
      | Some (Some _) =>
        (St (upd (handles st) h None) (ch_droptx I (ch st)) (subs st) (notifier st) (onc st), ODone)
      | _ => (st, OGone)
      end
  | Notify v =>
      if notifier st then
        let '(n', o') := on_notify I (onc st) v in
        (St (handles st) (ch st) (subs st) false n', o')
      else (st, OGone)
  | DropNotifier =>
      if notifier st then
        (St (handles st) (ch st) (subs st) false (on_drop I (onc st)), ODone)
      else (st, OGone)
  | PollOnce =>
      let '(n', o') := on_poll I (onc st) in
      (St (handles st) (ch st) (subs st) (notifier st) n', o')
  end.

(* subscriber s is parked: its stream returned Pending and its waker is still registered *)
Definition parked_in (st : state) (s : nat) : bool :=
  match nth_error (subs st) s with
  | Some (Some r) => rx_waiting I (ch st) r
  | _ => false
  end.
(* the subscribers whose registered waker operation o wakes: parked before, not parked after
   (a stream that o itself drops is not woken, it is gone) *)
Definition woken_by (st : state) (o : op) : list nat :=
  let st' := fst (step st o) in
  filter (fun s => parked_in st s && negb (parked_in st' s) &&
                   match o with DropSub s' => negb (Nat.eqb s' s) | _ => true end)
         (seq 0 (length (subs st))).

Fixpoint run_from (st : state) (ops : list op) : list out :=
  match ops with
  | [] => []
  | o :: ops' => let '(st', r) := step st o in r :: run_from st' ops'
  end.

Fixpoint final_from (st : state) (ops : list op) : state :=
  match ops with
  | [] => st
  | o :: ops' => final_from (fst (step st o)) ops'
  end.

Definition run (ops : list op) : list out := run_from init ops.
Definition final (ops : list op) : state := final_from init ops.
(* the result of operation o when it is performed after the history ops
   (run (ops ++ [o]) = run ops ++ [next ops o], see C20_next) *)
Definition next (ops : list op) (o : op) : out := snd (step (final ops) o).
Definition parked (ops : list op) (s : nat) : bool := parked_in (final ops) s.
Definition woken (ops : list op) (o : op) : list nat := woken_by (final ops) o.
Fixpoint wakes_from (st : state) (ops : list op) : list (list nat) :=
  match ops with
  | [] => []
  | o :: ops' => woken_by st o :: wakes_from (fst (step st o)) ops'
  end.
Definition wakes (ops : list op) : list (list nat) := wakes_from init ops.
(* the observable history: every operation with its result *)
Definition trace (ops : list op) : list (op * out) := combine ops (run ops).
End Machine.

Arguments St {I}. Arguments handles {I}. Arguments ch {I}. Arguments subs {I}.
Arguments notifier {I}. Arguments onc {I}.

(* ------------------------------------------------------------------------------------------ *)
(* (a) tokio: broadcast::channel(1)                                                            *)

(* Slot { rem, pos, val } (broadcast.rs Slot); Tail { pos, rx_cnt, closed } + the single slot
   (capacity 1: mask = 0, every index is 0, buffer.len() = 1) *)
Record tslot := TSlot { sl_pos : Z; sl_rem : nat; sl_val : option N }.
Record tchan := TChan { tl_pos : Z; tl_rx : nat; tl_closed : bool; tl_slot : tslot;
                        tl_tx : nat (* Shared.num_tx: live Sender handles *);
                        tl_epoch : nat (* calls of Shared::notify_rx so far *) }.

(* Sender::new_with_receiver_count(1, 1) (broadcast.rs:543-575): slot.pos = 0u64.wrapping_sub(1),
   i.e. -1; tail.pos = 0; rx_cnt = 1 *)
Definition t_fresh : tchan := TChan 0 1 false (TSlot (-1) 0 None) 1 0.

(* Sender::send (broadcast.rs:631-667) *)
Definition t_send (c : tchan) (v : N) : tchan * bool :=
  if Nat.eqb (tl_rx c) 0 then (c, false)
  else (TChan (tl_pos c + 1) (tl_rx c) (tl_closed c) (TSlot (tl_pos c) (tl_rx c) (Some v)) (tl_tx c)
        (S (tl_epoch c)) (* self.shared.notify_rx(tail), :664 *), true).

(* new_receiver (broadcast.rs:924-942) *)
Definition t_subscribe (c : tchan) : tchan * Z :=
  (TChan (tl_pos c) (S (tl_rx c)) (if Nat.eqb (tl_rx c) 0 then false else tl_closed c) (tl_slot c) (tl_tx c)
         (tl_epoch c),
   tl_pos c).

(* Drop for RecvGuard (broadcast.rs:1712-1719): `if 1 == rem.fetch_sub(1) { val = None }`.
   (fetch_sub on 0 would wrap; nat subtraction saturates instead — never exercised, the proofs
   show rem >= 1 whenever a guard is released.) *)
Definition t_release (c : tchan) : tchan :=
  let sl := tl_slot c in
  TChan (tl_pos c) (tl_rx c) (tl_closed c)
        (TSlot (sl_pos sl) (sl_rem sl - 1) (if Nat.eqb (sl_rem sl) 1 then None else sl_val sl))
        (tl_tx c) (tl_epoch c).

Inductive rref := ROk (v : option N) | REmpty | RLagged (n : Z) | RClosed.

(* Receiver::recv_ref (broadcast.rs:1223-1328) followed by what both callers do with the guard:
   ROk carries guard.clone_value() and the guard has been dropped (t_release). *)
Definition t_recv_ref (c : tchan) (next : Z) : tchan * Z * rref :=
  let sl := tl_slot c in
  if negb (sl_pos sl =? next)%Z then
    if (sl_pos sl + 1 =? next)%Z then
      (c, next, if tl_closed c then RClosed else REmpty)          (* :1255-1299 *)
    else
      let nx := (tl_pos c - 1)%Z in                                (* :1306 *)
      let missed := (nx - next)%Z in
      if (missed =? 0)%Z then (t_release c, (next + 1)%Z, ROk (sl_val sl))   (* :1313-1317 *)
      else (c, nx, RLagged missed)                                 (* :1319-1321 *)
  else (t_release c, (next + 1)%Z, ROk (sl_val sl)).               (* :1325-1327 *)

Inductive bres := BItem (v : N) | BLagged (n : Z) | BNone | BPending.

(* <Recv as Future>::poll (broadcast.rs:1609-1622) inside BroadcastStream::poll_next
   (tokio-stream broadcast.rs:57-68): Ok -> Some(Ok), Closed -> None, Lagged -> Some(Err) *)
Definition t_bstream_poll (c : tchan) (next : Z) : tchan * Z * bres :=
  let '(c', next', r) := t_recv_ref c next in
  (c', next',
   match r with
   | REmpty => BPending
   | RLagged n => BLagged n
   | RClosed => BNone
   | ROk (Some v) => BItem v
   | ROk None => BNone                     (* guard.clone_value().ok_or(RecvError::Closed) *)
   end).

(* zlink-tokio/src/notified.rs:92-108: loop { Some(Ok) => item continues=Some(true);
   Some(Err(_)) => continue; None => None } *)
Fixpoint t_stream_poll (fuel : nat) (c : tchan) (next : Z) : tchan * Z * out :=
  match fuel with
  | O => (c, next, OFuel)
  | S fuel' =>
      let '(c', next', r) := t_bstream_poll c next in
      match r with
      | BItem v => (c', next', OItem v CTrue)
      | BLagged _ => t_stream_poll fuel' c' next'
      | BNone => (c', next', OEnd)
      | BPending => (c', next', OPending)
      end
  end.

(* Drop for Receiver (broadcast.rs:1548-1575); the loop `while self.next < until` *)
Fixpoint t_drain (fuel : nat) (c : tchan) (next until : Z) : tchan * out :=
  if (next <? until)%Z then
    match fuel with
    | O => (c, OFuel)
    | S fuel' =>
        let '(c', next', r) := t_recv_ref c next in
        match r with
        | ROk _ => t_drain fuel' c' next' until
        | RLagged _ => t_drain fuel' c' next' until
        | RClosed => (c', ODone)
        | REmpty => (c', OPanic)          (* panic!("unexpected empty broadcast channel") *)
        end
    end
  else (c, ODone).

Definition t_droprx (c : tchan) (next : Z) : tchan * out :=
  let rxn := (tl_rx c - 1)%nat in
  let c1 := TChan (tl_pos c) rxn (if Nat.eqb rxn 0 then true else tl_closed c) (tl_slot c) (tl_tx c)
                  (tl_epoch c) in
  t_drain 3 c1 next (tl_pos c).

(* State::new (zlink-tokio notified.rs:27-31): `let (tx, _) = broadcast::channel(1)` — the
   receiver is dropped at once.  Equals `fst (t_droprx t_fresh 0)` (Example in the proofs). *)
Definition t_new : tchan := TChan 0 0 true (TSlot (-1) 0 None) 1 0.

(* Sender::clone (broadcast.rs:1058-1065): num_tx += 1 (State::clone, derived, clones `tx`) *)
Definition t_clone (c : tchan) : tchan :=
  TChan (tl_pos c) (tl_rx c) (tl_closed c) (tl_slot c) (S (tl_tx c)) (tl_epoch c).

(* Sender::drop (broadcast.rs:1067-1073): `if 1 == num_tx.fetch_sub(1) { close_channel() }`;
   close_channel (broadcast.rs:905-910) sets tail.closed and calls notify_rx *)
Definition t_droptx (c : tchan) : tchan :=
  TChan (tl_pos c) (tl_rx c) (if Nat.eqb (tl_tx c) 1 then true else tl_closed c) (tl_slot c)
        (tl_tx c - 1) (if Nat.eqb (tl_tx c) 1 then S (tl_epoch c) else tl_epoch c).

(* tokio oneshot (oneshot.rs): value cell, CLOSED/complete by a dropped sender, Receiver.inner *)
Record tonce := TOnce { to_val : option N; to_txgone : bool; to_done : bool }.

(* Once::notify (zlink-tokio notified.rs:71-78): tx.send(v).unwrap(); fails only when the
   receiver is gone, which the scenario never does (the stream is kept) *)
Definition to_notify (o : tonce) (v : N) : tonce * out := (TOnce (Some v) true (to_done o), ODone).
Definition to_drop (o : tonce) : tonce := TOnce (to_val o) true (to_done o).

(* zlink-tokio notified.rs:109-119 with Receiver::poll (oneshot.rs:1244-1267, 1288-1360):
   is_terminated() <-> inner.is_none(); Ok(v) -> item continues=Some(false); Err -> None *)
Definition to_poll (o : tonce) : tonce * out :=
  if to_done o then (o, OEnd)
  else match to_val o with
       | Some v => (TOnce None (to_txgone o) true, OItem v CFalse)
       | None => if to_txgone o then (TOnce None true true, OEnd) else (o, OPending)
       end.

(* The value-level core: a receiver is just its position. *)
Definition tokioZ_impl : impl :=
  Impl tchan Z tonce
       t_new
       (fun c v => (fst (t_send c v), ODone))     (* notified.rs:34-38: `let _ = self.tx.send(..)` *)
       t_subscribe                                (* notified.rs:46-48 *)
       (fun c r => t_stream_poll 3 c r)
       t_droprx
       t_clone
       t_droptx
       (fun _ _ => false)
       (TOnce None false false) to_notify to_drop to_poll.

(* With the waker.  BroadcastStream keeps the `rx.recv()` future in its ReusableBoxFuture ACROSS
   polls that return Pending (tokio-stream broadcast.rs:57-59: `ready!` returns before
   `self.inner.set(..)`), so the waiter that recv_ref queued in Tail.waiters with the task's waker
   (broadcast.rs:1263-1291) stays queued until Shared::notify_rx (called by send, :664, and by
   close_channel, :909) drains the list and wakes every queued waiter.  A poll that completes
   replaces the future: the old Recv is dropped and `Drop for Recv` unlinks its waiter. *)
Definition t_sub (c : tchan) : tchan * brx :=
  let '(c', p) := t_subscribe c in (c', BRx p None).
Definition t_poll (c : tchan) (r : brx) : tchan * brx * out :=
  let '(c', p', o) := t_stream_poll 3 c (r_pos r) in
  (c', BRx p' (match o with OPending => Some (tl_epoch c') | _ => None end), o).

Definition tokio_impl : impl :=
  Impl tchan brx tonce
       t_new
       (fun c v => (fst (t_send c v), ODone))
       t_sub
       t_poll
       (fun c r => t_droprx c (r_pos r))
       t_clone
       t_droptx
       (fun c r => parked_at (tl_epoch c) r)
       (TOnce None false false) to_notify to_drop to_poll.

(* ------------------------------------------------------------------------------------------ *)
(* (b) smol: async_broadcast::broadcast(1), set_await_active(false), set_overflow(true),       *)
(*     rx.deactivate() kept in the State (zlink-smol notified.rs:31-48)                        *)

Definition b_cap : nat := 1.
Definition b_overflow : bool := true.
Definition b_await_active : bool := false.

(* Inner { queue: VecDeque<(T, usize)>, head_pos, receiver_count, inactive_receiver_count,
   is_closed }; recv_ops (an event_listener::Event) is modelled by an epoch counter: every
   `recv_ops.notify(usize::MAX)` starts a new epoch, a listener remembers the epoch in which it
   was created and is notified once the epoch has moved on.  b_tx is sender_count: the live State handles
   (each holds one Sender and one InactiveReceiver). *)
Record bchan := BChan {
  b_queue : list (N * nat); b_head : Z; b_rx : nat; b_inactive : nat; b_closed : bool; b_epoch : nat;
  b_tx : nat }.
(* Receiver { pos, listener } is brx *)

(* Inner::close (lib.rs `fn close`): no-op when closed, else set and notify everybody *)
Definition b_close (c : bchan) : bchan :=
  if b_closed c then c
  else BChan (b_queue c) (b_head c) (b_rx c) (b_inactive c) true (S (b_epoch c)) (b_tx c).
(* Inner::close_channel *)
Definition b_close_channel (c : bchan) : bchan :=
  if Nat.eqb (b_rx c) 0 && Nat.eqb (b_inactive c) 0 then b_close c else c.

Inductive tsend := SOk | SClosed | SInactive | SFull.

(* Sender::try_broadcast *)
Definition b_try_broadcast (c : bchan) (v : N) : bchan * tsend :=
  if b_closed c then (c, SClosed)
  else if Nat.eqb (b_rx c) 0 then (c, SInactive)
  else if Nat.eqb (length (b_queue c)) b_cap && negb b_overflow then (c, SFull)
  else
    let popped := Nat.eqb (length (b_queue c)) b_cap in          (* overflow: pop_front *)
    let q := if popped then tl (b_queue c) else b_queue c in
    let some := popped && negb (Nat.eqb (length (b_queue c)) 0) in   (* ret.is_some() *)
    (BChan (q ++ [(v, b_rx c)]) (if some then b_head c + 1 else b_head c)%Z (b_rx c) (b_inactive c)
           false (S (b_epoch c)) (b_tx c), SOk).

(* <SendInner as EventListenerFuture>::poll_with_strategy, polled once: Ok -> Ready(Ok);
   Closed -> Ready(Err); Inactive -> Ready(Err) unless await_active; Full / awaited Inactive ->
   register a listener, retry, Pending.  zlink-smol notified.rs:51-55 ignores the result. *)
Definition b_set (c : bchan) (v : N) : bchan * out :=
  let '(c', r) := b_try_broadcast c v in
  match r with
  | SOk => (c', ODone)
  | SClosed => (c', ODone)
  | SInactive => if b_await_active then (c', OPending) else (c', ODone)
  | SFull => (c', OPending)
  end.

(* InactiveReceiver::activate_cloned (zlink-smol notified.rs:63-69) *)
Definition b_subscribe (c : bchan) : bchan * brx :=
  (BChan (b_queue c) (b_head c) (S (b_rx c)) (b_inactive c) (b_closed c) (b_epoch c) (b_tx c),
   BRx (b_head c + Z.of_nat (length (b_queue c)))%Z None).

Inductive trecv := TOk (v : N) | TEmpty | TClosed | TOverflowed (n : Z) | TPanic.

(* Inner::try_recv_at.  `*waiters -= 1` on 0 panics under overflow checks (wraps without);
   `assert_eq!(i, 0)` panics: both are TPanic. *)
Definition b_try_recv_at (c : bchan) (pos : Z) : bchan * Z * trecv :=
  if (pos <? b_head c)%Z then (c, b_head c, TOverflowed (b_head c - pos)%Z)
  else
    let i := Z.to_nat (pos - b_head c) in
    match nth_error (b_queue c) i with
    | Some (elt, w) =>
        if Nat.eqb w 0 then (c, (pos + 1)%Z, TPanic)
        else if Nat.eqb (w - 1) 0 then
          if Nat.eqb i 0 then
            (BChan (tl (b_queue c)) (b_head c + 1)%Z (b_rx c) (b_inactive c) (b_closed c) (b_epoch c)
                   (b_tx c),
             (pos + 1)%Z, TOk elt)
          else (c, (pos + 1)%Z, TPanic)
        else
          (BChan (upd (b_queue c) i (elt, w - 1)) (b_head c) (b_rx c) (b_inactive c) (b_closed c)
                 (b_epoch c) (b_tx c), (pos + 1)%Z, TOk elt)
    | None => (c, pos, if b_closed c then TClosed else TEmpty)
    end.

Inductive prcv := PrItem (v : N) | PrOverflowed (n : Z) | PrNone | PrPending | PrPanic.

(* Receiver::poll_recv, sequentialised for one thread: a live listener that has not been
   notified -> Pending without looking at the queue; otherwise the listener is cleared and
   try_recv runs; on Empty a listener is created (in the current epoch), try_recv runs again
   (Empty again, nothing can have happened in between), the new listener is polled -> Pending. *)
Definition b_poll_recv (c : bchan) (r : brx) : bchan * brx * prcv :=
  let waiting := match r_lst r with Some e => negb (e <? b_epoch c) | None => false end in
  if waiting then (c, r, PrPending)
  else
    let '(c', pos', t) := b_try_recv_at c (r_pos r) in
    match t with
    | TOk v => (c', BRx pos' None, PrItem v)
    | TClosed => (c', BRx pos' None, PrNone)
    | TOverflowed n => (c', BRx pos' None, PrOverflowed n)
    | TEmpty => (c', BRx pos' (Some (b_epoch c')), PrPending)
    | TPanic => (c', BRx pos' None, PrPanic)
    end.

(* <Receiver as Stream>::poll_next: loop { Some(Ok) -> Some; Overflowed -> continue; None -> None },
   then zlink-smol notified.rs:130-137: Some(reply) -> item continues=Some(true); None -> None *)
Fixpoint b_stream_poll (fuel : nat) (c : bchan) (r : brx) : bchan * brx * out :=
  match fuel with
  | O => (c, r, OFuel)
  | S fuel' =>
      let '(c', r', p) := b_poll_recv c r in
      match p with
      | PrItem v => (c', r', OItem v CTrue)
      | PrOverflowed _ => b_stream_poll fuel' c' r'
      | PrNone => (c', r', OEnd)
      | PrPending => (c', r', OPending)
      | PrPanic => (c', r', OPanic)
      end
  end.

(* Drop for Receiver: drain with try_recv_at until Empty/Closed, receiver_count -= 1,
   close_channel *)
Fixpoint b_drain (fuel : nat) (c : bchan) (pos : Z) : bchan * out :=
  match fuel with
  | O => (c, OFuel)
  | S fuel' =>
      let '(c', pos', t) := b_try_recv_at c pos in
      match t with
      | TOk _ => b_drain fuel' c' pos'
      | TOverflowed _ => b_drain fuel' c' pos'
      | TClosed => (c', ODone)
      | TEmpty => (c', ODone)
      | TPanic => (c', OPanic)
      end
  end.

Definition b_droprx (c : bchan) (r : brx) : bchan * out :=
  let '(c', o) := b_drain 4 c (r_pos r) in
  (b_close_channel (BChan (b_queue c') (b_head c') (b_rx c' - 1) (b_inactive c') (b_closed c')
                          (b_epoch c') (b_tx c')), o).

(* broadcast(1) gives receiver_count = 1; `rx.deactivate()` adds the inactive receiver and
   drops the active one (drain: Empty; receiver_count = 0; close_channel: inactive = 1, stays
   open) *)
Definition b_new : bchan := BChan [] 0 0 1 false 0 1.

(* State::clone (derived): Sender::clone (sender_count += 1) and InactiveReceiver::clone
   (inactive_receiver_count += 1) *)
Definition b_clone (c : bchan) : bchan :=
  BChan (b_queue c) (b_head c) (b_rx c) (S (b_inactive c)) (b_closed c) (b_epoch c) (S (b_tx c)).

(* drop(State) of one handle: fields in declaration order — tx (Sender::drop: sender_count -= 1,
   close() when it reaches 0), then inactive_rx (InactiveReceiver::drop: inactive -= 1;
   close_channel) *)
Definition b_drop_state (c : bchan) : bchan :=
  let c0 := BChan (b_queue c) (b_head c) (b_rx c) (b_inactive c) (b_closed c) (b_epoch c)
                  (b_tx c - 1) in
  let c1 := if Nat.eqb (b_tx c0) 0 then b_close c0 else c0 in
  b_close_channel (BChan (b_queue c1) (b_head c1) (b_rx c1) (b_inactive c1 - 1) (b_closed c1)
                         (b_epoch c1) (b_tx c1)).

(* async_channel::bounded(1) as used by Once: the single slot, closed flag, stream_ops epoch,
   the receiver's listener, and the adapter's `terminated` flag *)
Record sonce := SOnce { so_q : option N; so_closed : bool; so_epoch : nat; so_lst : option nat;
                        so_term : bool }.

(* Once::notify (zlink-smol notified.rs:96-103): tx.try_send(v).unwrap() — push fails on a
   closed or full queue (-> panic); then `self` is dropped: Sender::drop closes the channel *)
Definition so_notify (o : sonce) (v : N) : sonce * out :=
  if so_closed o then (o, OPanic)
  else match so_q o with
       | Some _ => (SOnce (so_q o) true (S (so_epoch o)) (so_lst o) (so_term o), OPanic)
       | None => (SOnce (Some v) true (S (S (so_epoch o))) (so_lst o) (so_term o), ODone)
       end.
Definition so_drop (o : sonce) : sonce :=
  if so_closed o then o else SOnce (so_q o) true (S (so_epoch o)) (so_lst o) (so_term o).

(* zlink-smol notified.rs:138-153 over <async_channel::Receiver as Stream>::poll_next
   (same listener discipline as above; Single::pop: value, else Closed when closed, else Empty) *)
Definition so_poll (o : sonce) : sonce * out :=
  if so_term o then (o, OEnd)
  else
    let waiting := match so_lst o with Some e => negb (e <? so_epoch o) | None => false end in
    if waiting then (o, OPending)
    else match so_q o with
         | Some v => (SOnce None (so_closed o) (so_epoch o) None true, OItem v CFalse)
         | None =>
             if so_closed o then (SOnce None true (so_epoch o) None (so_term o), OEnd)
             else (SOnce None false (so_epoch o) (Some (so_epoch o)) (so_term o), OPending)
         end.

Definition smol_impl : impl :=
  Impl bchan brx sonce
       b_new b_set b_subscribe
       (fun c r => b_stream_poll 3 c r)
       b_droprx
       b_clone
       b_drop_state
       (fun c r => parked_at (b_epoch c) r)
       (SOnce None false 0 None false) so_notify so_drop so_poll.

(* ------------------------------------------------------------------------------------------ *)
(* (c) the reference: a latest-value cell.  n = number of values published while somebody was  *)
(*     subscribed, a_last = the latest of them; a subscriber is just the count it has seen.    *)

(* a_tx = number of live State handles; the cell is open while there is one; a_epoch counts
   the notifications: a value published, or the last handle gone *)
Record achan := AChan { a_n : Z; a_last : N; a_rx : nat; a_tx : nat; a_epoch : nat }.
Definition a_open (c : achan) : bool := negb (Nat.eqb (a_tx c) 0).
Inductive aonce := AIdle | AArmed (v : N) | ADead | AFinished.

Definition a_set (c : achan) (v : N) : achan * out :=
  (if Nat.eqb (a_rx c) 0 then c else AChan (a_n c + 1) v (a_rx c) (a_tx c) (S (a_epoch c)), ODone).
Definition a_sub (c : achan) : achan * Z :=
  (AChan (a_n c) (a_last c) (S (a_rx c)) (a_tx c) (a_epoch c), a_n c).
Definition a_poll (c : achan) (k : Z) : achan * Z * out :=
  if (k <? a_n c)%Z then (c, a_n c, OItem (a_last c) CTrue)
  else (c, k, if a_open c then OPending else OEnd).
Definition a_droprx (c : achan) (k : Z) : achan * out :=
  (AChan (a_n c) (a_last c) (a_rx c - 1) (a_tx c) (a_epoch c), ODone).
Definition a_clone (c : achan) : achan := AChan (a_n c) (a_last c) (a_rx c) (S (a_tx c)) (a_epoch c).
Definition a_droptx (c : achan) : achan :=
  AChan (a_n c) (a_last c) (a_rx c) (a_tx c - 1)
        (if Nat.eqb (a_tx c) 1 then S (a_epoch c) else a_epoch c).

(* with the registration: Pending => registered (in the current epoch) *)
Definition a_subw (c : achan) : achan * brx := let '(c', k) := a_sub c in (c', BRx k None).
Definition a_pollw (c : achan) (r : brx) : achan * brx * out :=
  let '(c', k', o) := a_poll c (r_pos r) in
  (c', BRx k' (match o with OPending => Some (a_epoch c') | _ => None end), o).

Definition ao_notify (o : aonce) (v : N) : aonce * out :=
  match o with AIdle => (AArmed v, ODone) | _ => (o, OPanic) end.
Definition ao_drop (o : aonce) : aonce := match o with AIdle => ADead | _ => o end.
Definition ao_poll (o : aonce) : aonce * out :=
  match o with
  | AIdle => (AIdle, OPending)
  | AArmed v => (AFinished, OItem v CFalse)
  | ADead => (ADead, OEnd)
  | AFinished => (AFinished, OEnd)
  end.

(* the value-level core of the reference (what the property speaks about) ... *)
Definition absZ_impl : impl :=
  Impl achan Z aonce (AChan 0 0 0 1 0) a_set a_sub a_poll a_droprx a_clone a_droptx
       (fun _ _ => false) AIdle ao_notify ao_drop ao_poll.
(* ... and the reference with the wake-up obligation: a subscriber is registered from the poll
   that returned Pending until the next notification; every operation that changes what a
   registered subscriber would see (a value published, the last handle dropped) notifies. *)
Definition abs_impl : impl :=
  Impl achan brx aonce (AChan 0 0 0 1 0) a_set a_subw a_pollw (fun c r => a_droprx c (r_pos r))
       a_clone a_droptx (fun c r => parked_at (a_epoch c) r) AIdle ao_notify ao_drop ao_poll.

(* ------------------------------------------------------------------------------------------ *)
(* Vocabulary of the property, over observable histories                                       *)

Definition ev := (op * out)%type.

(* the values subscriber s has been handed, in order *)
Fixpoint received (s : nat) (tr : list ev) : list N :=
  match tr with
  | [] => []
  | (Poll s', OItem v _) :: tr' => if Nat.eqb s' s then v :: received s tr' else received s tr'
  | _ :: tr' => received s tr'
  end.

(* the values set (by a set that went through), through whichever handle *)
Fixpoint sets (tr : list ev) : list N :=
  match tr with
  | [] => []
  | (Set_ _ _, OSet v) :: tr' => v :: sets tr'
  | _ :: tr' => sets tr'
  end.

(* ... after subscriber s was created *)
Fixpoint sets_after (s : nat) (tr : list ev) : list N :=
  match tr with
  | [] => []
  | (Subscribe _, OSub k) :: tr' => if Nat.eqb k s then sets tr' else sets_after s tr'
  | _ :: tr' => sets_after s tr'
  end.

(* handle h exists at the end of the history: it is handle 0 or was created by a clone, and it
   has not been dropped *)
Definition is_clone (h : nat) (e : ev) : bool :=
  match e with (CloneH _, OHandle k) => Nat.eqb k h | _ => false end.
Definition is_droph (h : nat) (e : ev) : bool :=
  match e with (DropH k, ODone) => Nat.eqb k h | _ => false end.
Definition handle_live (h : nat) (tr : list ev) : bool :=
  (Nat.eqb h 0 || existsb (is_clone h) tr) && negb (existsb (is_droph h) tr).

(* the handle an operation goes through *)
Definition handle_of (o : op) : option nat :=
  match o with
  | Set_ h _ | Get h | Subscribe h | CloneH h | DropH h => Some h
  | _ => None
  end.

Definition is_get (o : op) : bool := match o with Get _ => true | _ => false end.
(* everything observable in a history except what get() returned *)
Definition view (tr : list ev) : list out :=
  map snd (filter (fun e => negb (is_get (fst e))) tr).
(* an operation that neither goes through handle h nor drops a handle *)
Definition spares (h : nat) (o : op) : Prop :=
  handle_of o <> Some h /\ match o with DropH _ => False | _ => True end.

(* each handle's own copy of the value: what get() through it must return *)
Definition hstep (vals : list N) (e : ev) : list N :=
  match e with
  | (Set_ h _, OSet v) => upd vals h v
  | (CloneH p, OHandle _) => vals ++ [nth p vals 0%N]
  | _ => vals
  end.
Definition hvals (tr : list ev) : list N := fold_left hstep tr [0%N].

Inductive sublist {A} : list A -> list A -> Prop :=
| sub_nil : sublist [] []
| sub_skip x l m : sublist l m -> sublist l (x :: m)
| sub_take x l m : sublist l m -> sublist (x :: l) (x :: m).

Definition last_opt {A} (l : list A) : option A :=
  match rev l with [] => None | x :: _ => Some x end.

(* results of the PollOnce operations, in order *)
Fixpoint once_outs (tr : list ev) : list out :=
  match tr with
  | [] => []
  | (PollOnce, o) :: tr' => o :: once_outs tr'
  | _ :: tr' => once_outs tr'
  end.
Definition is_pollonce (o : op) : bool := match o with PollOnce => true | _ => false end.
Definition npolls (ops : list op) : nat := length (filter is_pollonce ops).
(* no Notify / DropNotifier among the operations *)
Definition unresolved (ops : list op) : Prop :=
  forall o, In o ops -> match o with Notify _ | DropNotifier => False | _ => True end.

(* closed form of what the one-shot stream must yield: Pending until the notifier is used or
   dropped; after notify(v) exactly one item v with continues = Some(false), then end; after a
   drop without notify: end *)
Fixpoint once_expect (ops : list op) : list out :=
  match ops with
  | [] => []
  | Notify v :: post => match npolls post with O => [] | S k => OItem v CFalse :: repeat OEnd k end
  | DropNotifier :: post => repeat OEnd (npolls post)
  | PollOnce :: r => OPending :: once_expect r
  | _ :: r => once_expect r
  end.
