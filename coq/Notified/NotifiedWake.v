(* C20, the wake-up obligation.  A subscriber whose poll returned Pending is registered
   ("parked"); a parked subscriber has nothing to receive; an operation after which it is no
   longer parked has woken its waker.  Hence every Pending -> Ready transition of a subscriber is
   preceded by a wake.  Proved on the reference cell with registration (abs_impl) and carried to
   the tokio and smol models, whose receivers are parked exactly when the cell's are. *)
From ZV Require Import Notified.Notified Notified.NotifiedBase Notified.NotifiedTokio
  Notified.NotifiedSmol Notified.NotifiedSpec.
Open Scope Z_scope.

(* ---------------------------------------------------------------- the cell with registration
   shows the same results as its value-level core *)
Definition Raz (h : nat) (a : achan) (l : list (option brx)) (a' : achan) (m : list (option Z)) : Prop :=
  a = a' /\ pos l = m.

Theorem abs_refines_absZ ops : run abs_impl ops = run absZ_impl ops.
Proof.
  apply (sim_run abs_impl absZ_impl Raz (fun _ x y => x = y)).
  - intros h a l a' m (-> & <-). unfold pos. symmetry. apply map_livef_optmap.
  - split; reflexivity.
  - intros h a l a' m v (-> & <-). repeat split.
  - intros h a l a' m (-> & <-). cbn. split; [reflexivity|]. now rewrite pos_app.
  - intros h a l a' m s r q (-> & <-) El Em. cbn [rx chan abs_impl absZ_impl] in *. rewrite (pos_nth _ _ _ El) in Em. injection Em as <-.
    cbn [ch_poll abs_impl absZ_impl]. unfold a_pollw.
    destruct (a_poll a' (r_pos r)) as [[a1 k1] o1]. cbn [fst snd]. repeat split. now rewrite pos_upd.
  - intros h a l a' m s r q (-> & <-) El Em. cbn [rx chan abs_impl absZ_impl] in *. rewrite (pos_nth _ _ _ El) in Em. injection Em as <-.
    cbn [ch_droprx abs_impl absZ_impl]. repeat split. now rewrite pos_upd.
  - intros h a l a' m (-> & <-). split; reflexivity.
  - intros h a l a' m (-> & <-). split; reflexivity.
  - reflexivity.
  - intros a b v ->. split; reflexivity.
  - intros a b ->. reflexivity.
  - intros nf a b ->. split; reflexivity.
Qed.

(* ---------------------------------------------------------------- the obligation on the cell *)
Definition reg_ok (c : achan) (r : brx) : Prop :=
  r_pos r <= a_n c /\
  match r_lst r with
  | Some e => (e <= a_epoch c)%nat /\ (e = a_epoch c -> r_pos r = a_n c /\ a_open c = true)
  | None => True
  end.
Definition Jw (st : state abs_impl) : Prop :=
  forall s r, nth_error (subs st) s = Some (Some r) -> reg_ok (ch st) r.

Lemma reg_ok_later c c' r : a_n c <= a_n c' -> (a_epoch c < a_epoch c')%nat -> reg_ok c r -> reg_ok c' r.
Proof.
  intros Ln Le [Lp H]. split; [lia|]. destruct (r_lst r) as [e|]; auto.
  destruct H as [H1 _]. split; [lia|]. intros ->. lia.
Qed.

Lemma reg_ok_same c c' r : a_n c' = a_n c -> a_epoch c' = a_epoch c -> a_open c' = a_open c ->
  reg_ok c r -> reg_ok c' r.
Proof. unfold reg_ok. intros -> -> ->. auto. Qed.

Lemma Jw_step st o : Jw st -> Jw (fst (step abs_impl st o)).
Proof.
  intros J. destruct st as [hs c l nf oc]. unfold Jw in *. cbn [subs ch] in *.
  destruct o as [h x|h|h|s|s|h|h|x| |]; cbn [step handles ch subs notifier onc abs_impl
      ch_set ch_sub ch_poll ch_droprx ch_clone ch_droptx on_notify on_drop on_poll].
  - (* Set_ *) destruct (nth_error hs h) as [[g|]|]; cbn [fst subs ch]; auto.
    intros t r H. specialize (J t r H). unfold a_set. destruct (Nat.eqb (a_rx c) 0); cbn [fst]; auto.
    eapply reg_ok_later; [| |exact J]; cbn; lia.
  - destruct (nth_error hs h) as [[g|]|]; cbn [fst subs ch]; auto.
  - (* Subscribe *) destruct (nth_error hs h) as [[g|]|]; cbn [fst subs ch]; auto.
    unfold a_subw, a_sub. cbn [fst snd subs ch]. intros t r H.
    apply nth_error_snoc' in H as [H|[_ H]].
    + eapply reg_ok_same; [| | |exact (J t r H)]; reflexivity.
    + injection H as H. subst r. split; cbn; [lia|exact I].
  - (* Poll *) destruct (nth_error l s) as [[r0|]|] eqn:El; cbn [fst subs ch]; auto.
    unfold a_pollw, a_poll. pose proof (J s r0 El) as [Lp Hr].
    destruct (Z.ltb_spec (r_pos r0) (a_n c)) as [L|L]; cbn [fst snd subs ch].
    + intros t r H. destruct (Nat.eq_dec t s) as [->|N].
      * rewrite (nth_error_upd_same _ _ _ _ _ El) in H. injection H as <-. split; cbn; [lia|exact I].
      * rewrite nth_error_upd_other in H by auto. exact (J t r H).
    + intros t r H. destruct (Nat.eq_dec t s) as [->|N].
      * rewrite (nth_error_upd_same _ _ _ _ _ El) in H. injection H as <-.
        destruct (a_open c) eqn:Eo; split; cbn [r_pos r_lst]; auto.
        split; [lia|]. intros _. split; [lia|auto].
      * rewrite nth_error_upd_other in H by auto. exact (J t r H).
  - (* DropSub *) destruct (nth_error l s) as [[r0|]|] eqn:El; cbn [fst subs ch]; auto.
    unfold a_droprx. cbn [fst subs ch]. intros t r H. destruct (Nat.eq_dec t s) as [->|N].
    + rewrite (nth_error_upd_same _ _ _ _ _ El) in H. discriminate.
    + rewrite nth_error_upd_other in H by auto.
      eapply reg_ok_same; [| | |exact (J t r H)]; reflexivity.
  - (* CloneH *) destruct (nth_error hs h) as [[g|]|]; cbn [fst subs ch]; auto.
    intros t r H. specialize (J t r H). destruct J as [Lp Hr]. split; [exact Lp|].
    destruct (r_lst r) as [e|]; auto. destruct Hr as [H1 H2]. split; [exact H1|].
    intros E. destruct (H2 E) as [A B]. split; [exact A|]. reflexivity.
  - (* DropH *) destruct (nth_error hs h) as [[g|]|]; cbn [fst subs ch]; auto.
    intros t r H. specialize (J t r H). destruct J as [Lp Hr]. split; [exact Lp|].
    destruct (r_lst r) as [e|]; auto. destruct Hr as [H1 H2]. unfold a_droptx. cbn [a_epoch a_n].
    destruct (Nat.eqb_spec (a_tx c) 1) as [E1|E1].
    + split; [lia|]. intros ->. lia.
    + split; [exact H1|]. intros E. destruct (H2 E) as [A B]. split; [exact A|].
      unfold a_open in *. cbn [a_tx]. destruct (a_tx c) as [|[|k]]; try discriminate; [lia|reflexivity].
  - destruct nf; cbn [fst subs ch]; auto. destruct (ao_notify oc x); cbn; auto.
  - destruct nf; cbn [fst subs ch]; auto.
  - destruct (ao_poll oc); cbn; auto.
Qed.

Lemma Jw_final ops : Jw (final abs_impl ops).
Proof.
  unfold final. assert (G : forall st, Jw st -> Jw (final_from abs_impl st ops)).
  { induction ops as [|o ops IH]; intros st J; cbn [final_from]; auto. apply IH. now apply Jw_step. }
  apply G. intros s r H. destruct s; discriminate.
Qed.

(* Pending => registered *)
Lemma cell_pending_parked ops s :
  next abs_impl ops (Poll s) = OPending -> parked abs_impl (ops ++ [Poll s]) s = true.
Proof.
  unfold parked, next. rewrite final_snoc. set (st := final abs_impl ops).
  cbn [step abs_impl ch_poll]. unfold parked_in.
  destruct (nth_error (subs st) s) as [[r|]|] eqn:E; try discriminate.
  unfold a_pollw. destruct (a_poll (ch st) (r_pos r)) as [[c1 k1] o1]. cbn [fst snd subs ch].
  intros ->. rewrite (nth_error_upd_same _ _ _ _ _ E). cbn [rx_waiting abs_impl]. unfold parked_at.
  cbn [r_lst]. now rewrite Nat.ltb_irrefl.
Qed.

(* registered => nothing to receive: the next poll is Pending *)
Lemma cell_parked_pending ops s :
  parked abs_impl ops s = true -> next abs_impl ops (Poll s) = OPending.
Proof.
  unfold parked, next, parked_in. pose proof (Jw_final ops) as J. set (st := final abs_impl ops) in *.
  cbn [step abs_impl ch_poll rx_waiting].
  destruct (nth_error (subs st) s) as [[r|]|] eqn:E; try discriminate.
  destruct (J s r E) as [Lp Hr]. unfold parked_at. destruct (r_lst r) as [e|]; [|discriminate].
  intros W. destruct Hr as [H1 H2].
  assert (Ee : e = a_epoch (ch st)) by (destruct (Nat.ltb_spec e (a_epoch (ch st))); [discriminate|lia]).
  destruct (H2 Ee) as [A B]. unfold a_pollw, a_poll.
  assert (F : (r_pos r <? a_n (ch st)) = false) by (apply Z.ltb_ge; lia).
  rewrite F, B. reflexivity.
Qed.

Lemma op_eq_dropsub (o : op) (s : nat) : {o = DropSub s} + {o <> DropSub s}.
Proof.
  destruct o as [? ?|?|?|?|t|?|?|?| |]; try (right; discriminate).
  destruct (Nat.eq_dec t s) as [->|N]; [left; reflexivity | right; congruence].
Qed.

(* ---------------------------------------------------------------- for any machine *)
Section Contract.
Variable I : impl.
Hypothesis W1 : forall ops s, next I ops (Poll s) = OPending -> parked I (ops ++ [Poll s]) s = true.
Hypothesis W3 : forall ops s, parked I ops s = true -> next I ops (Poll s) = OPending.

(* a parked subscriber stays parked unless the operation wakes it (or drops it) *)
Lemma parked_or_woken ops s o : parked I ops s = true ->
  parked I (ops ++ [o]) s = true \/ In s (woken I ops o) \/ o = DropSub s.
Proof.
  intros P. unfold parked in *. rewrite final_snoc. set (st := final I ops) in *.
  destruct (parked_in I (fst (step I st o)) s) eqn:A; auto. right.
  destruct (op_eq_dropsub o s) as [->|N]; auto. left.
  unfold woken, woken_by. fold st. apply filter_In. split.
  - apply in_seq. split; [lia|]. cbn. unfold parked_in in P.
    destruct (nth_error (subs st) s) eqn:E; [|discriminate]. apply nth_error_Some. congruence.
  - rewrite P, A. cbn. destruct o; auto. apply negb_true_iff, Nat.eqb_neq. intros ->. now apply N.
Qed.

Theorem wake_before_ready_from base s rest :
  parked I base s = true ->
  (forall o, In o rest -> o <> Poll s /\ o <> DropSub s) ->
  next I (base ++ rest) (Poll s) <> OPending ->
  exists pre o post, rest = pre ++ o :: post /\ In s (woken I (base ++ pre) o).
Proof.
  revert base. induction rest as [|o rest IH]; intros base P Sp N.
  - exfalso. apply N. rewrite app_nil_r. now apply W3.
  - destruct (parked_or_woken base s o P) as [P'|[Wk|E]].
    + destruct (IH (base ++ [o]) P') as (pre & x & post & -> & Hx).
      * intros y Hy. apply Sp. now right.
      * now rewrite <- app_assoc.
      * exists (o :: pre), x, post. split; [reflexivity|]. now rewrite <- app_assoc in Hx.
    + exists [], o, rest. split; [reflexivity|]. now rewrite app_nil_r.
    + exfalso. destruct (Sp o (or_introl eq_refl)) as [_ X]. now apply X.
Qed.

Theorem wake_before_ready ops s rest :
  next I ops (Poll s) = OPending ->
  (forall o, In o rest -> o <> Poll s /\ o <> DropSub s) ->
  next I (ops ++ Poll s :: rest) (Poll s) <> OPending ->
  exists pre o post, rest = pre ++ o :: post /\ In s (woken I (ops ++ Poll s :: pre) o).
Proof.
  intros P Sp N. apply W1 in P.
  replace (ops ++ Poll s :: rest) with ((ops ++ [Poll s]) ++ rest) in N by now rewrite <- app_assoc.
  destruct (wake_before_ready_from _ _ _ P Sp N) as (pre & o & post & E & H).
  exists pre, o, post. split; auto. now rewrite <- app_assoc in H.
Qed.
End Contract.
