(* C20: lemmas on subscriber lists (lists with holes) and the generic simulation argument
   between two channel implementations under the scenario machine of Notified.v *)
From ZV Require Import Notified.Notified.
Open Scope Z_scope.

(* ---------------------------------------------------------------- lists with holes *)

Definition livef {A} (x : option A) : bool := match x with Some _ => true | None => false end.

Fixpoint nlive {A} (l : list (option A)) : nat :=
  match l with [] => 0 | Some _ :: l' => S (nlive l') | None :: l' => nlive l' end.

Definition bit (b : bool) : nat := if b then 1%nat else 0%nat.

Fixpoint nbehind (n : Z) (l : list (option Z)) : nat :=
  match l with
  | [] => 0
  | Some k :: l' => (bit (Z.ltb k n) + nbehind n l')%nat
  | None :: l' => nbehind n l'
  end.

Definition behind1 (n : Z) (x : option Z) : nat :=
  match x with Some k => bit (Z.ltb k n) | None => 0%nat end.

Definition bounded (n : Z) (l : list (option Z)) : Prop :=
  forall s k, nth_error l s = Some (Some k) -> k <= n.

Lemma length_upd A (l : list A) s x : length (upd l s x) = length l.
Proof. revert s; induction l as [|y l IH]; intros [|s]; cbn [upd length]; auto. Qed.

Lemma nth_error_upd_same A (l : list A) s x y :
  nth_error l s = Some y -> nth_error (upd l s x) s = Some x.
Proof.
  revert s; induction l as [|z l IH]; intros [|s] H; cbn in *; try discriminate; auto.
Qed.

Lemma nth_error_upd_other A (l : list A) s t x : s <> t -> nth_error (upd l s x) t = nth_error l t.
Proof.
  revert s t; induction l as [|z l IH]; intros [|s] [|t] H; cbn; auto; try congruence.
Qed.

Lemma nth_error_upd_inv A (l : list A) s t x y :
  nth_error (upd l s x) t = Some y -> (t = s /\ y = x) \/ nth_error l t = Some y.
Proof.
  destruct (Nat.eq_dec s t) as [->|N].
  - intros H. destruct (nth_error l t) as [z|] eqn:E.
    + rewrite (nth_error_upd_same _ _ _ _ _ E) in H. left; split; congruence.
    + exfalso. apply nth_error_None in E. assert (nth_error (upd l t x) t <> None) by congruence.
      apply nth_error_Some in H0. rewrite length_upd in H0. lia.
  - rewrite nth_error_upd_other by auto. auto.
Qed.

Lemma map_upd A B (f : A -> B) l s x : map f (upd l s x) = upd (map f l) s (f x).
Proof. revert s; induction l as [|y l IH]; intros [|s]; cbn; auto; now rewrite IH. Qed.

Lemma upd_same_live A (l : list (option A)) s r r' :
  nth_error l s = Some (Some r) -> map livef (upd l s (Some r')) = map livef l.
Proof.
  revert s; induction l as [|y l IH]; intros [|s] H; cbn in *; try discriminate.
  - injection H as ->. reflexivity.
  - now rewrite IH.
Qed.

Lemma nth_map_livef A (l : list (option A)) s :
  nth_error (map livef l) s = option_map livef (nth_error l s).
Proof. revert s; induction l as [|y l IH]; intros [|s]; cbn; auto. Qed.

Lemma live_some A B (l : list (option A)) (m : list (option B)) s r :
  map livef l = map livef m -> nth_error l s = Some (Some r) -> exists q, nth_error m s = Some (Some q).
Proof.
  intros E H. assert (X := nth_map_livef _ l s). rewrite E, nth_map_livef, H in X.
  destruct (nth_error m s) as [[q|]|]; cbn in X; try discriminate. eauto.
Qed.

Lemma live_notsome A B (l : list (option A)) (m : list (option B)) s :
  map livef l = map livef m -> (forall r, nth_error l s <> Some (Some r)) ->
  forall q, nth_error m s <> Some (Some q).
Proof.
  intros E H q Hq. symmetry in E. destruct (live_some _ _ _ _ _ _ E Hq) as [r Hr]. eapply H; eauto.
Qed.

Lemma nlive_upd_some {A} (l : list (option A)) s k x : nth_error l s = Some (Some k) -> nlive (upd l s (Some x)) = nlive l.
Proof.
  revert s; induction l as [|y l IH]; intros [|s] H; cbn in *; try discriminate.
  - injection H as ->. reflexivity.
  - destruct y; now rewrite IH.
Qed.

Lemma nlive_upd_none {A} (l : list (option A)) s k : nth_error l s = Some (Some k) -> S (nlive (upd l s None)) = nlive l.
Proof.
  revert s; induction l as [|y l IH]; intros [|s] H; cbn in *; try discriminate.
  - injection H as ->. reflexivity.
  - destruct y; rewrite <- (IH _ H); reflexivity.
Qed.

Lemma nbehind_upd n l s k x :
  nth_error l s = Some (Some k) ->
  (nbehind n (upd l s x) + bit (Z.ltb k n) = nbehind n l + behind1 n x)%nat.
Proof.
  revert s; induction l as [|y l IH]; intros [|s] H; cbn [nth_error upd nbehind] in *; try discriminate.
  - injection H as ->. destruct x; cbn [nbehind behind1]; lia.
  - specialize (IH _ H). destruct y; lia.
Qed.

Lemma nbehind_pos n l s k : nth_error l s = Some (Some k) -> k < n -> (1 <= nbehind n l)%nat.
Proof.
  revert s; induction l as [|y l IH]; intros [|s] H L; cbn [nth_error nbehind] in *; try discriminate.
  - injection H as ->. apply Z.ltb_lt in L. rewrite L. cbn. lia.
  - specialize (IH _ H L). destruct y; lia.
Qed.

Lemma nbehind_zero n l s k : nth_error l s = Some (Some k) -> nbehind n l = 0%nat -> n <= k.
Proof.
  intros H Z0. destruct (Z_lt_le_dec k n) as [L|L]; auto.
  pose proof (nbehind_pos _ _ _ _ H L). lia.
Qed.

Lemma nlive_pos {A} (l : list (option A)) s k : nth_error l s = Some (Some k) -> (1 <= nlive l)%nat.
Proof.
  revert s; induction l as [|y l IH]; intros [|s] H; cbn in *; try discriminate.
  - injection H as ->. lia.
  - specialize (IH _ H). destruct y; lia.
Qed.

Lemma bounded_cons n x l : bounded n (x :: l) -> bounded n l.
Proof. intros B s k H. apply (B (S s) k H). Qed.

Lemma nbehind_all n l : bounded n l -> nbehind (n + 1) l = nlive l.
Proof.
  induction l as [|y l IH]; intros B; cbn; auto.
  specialize (IH (bounded_cons _ _ _ B)). destruct y as [k|]; auto.
  assert (k <= n) by (apply (B 0%nat k); reflexivity).
  assert (E : (k <? n + 1) = true) by (apply Z.ltb_lt; lia). rewrite E. cbn. lia.
Qed.

Lemma bounded_mono n n' l : n <= n' -> bounded n l -> bounded n' l.
Proof. intros L B s k H. specialize (B s k H). lia. Qed.

Lemma bounded_upd n l s x : bounded n l -> (forall k, x = Some k -> k <= n) -> bounded n (upd l s x).
Proof.
  intros B X t k H. apply nth_error_upd_inv in H as [[_ E]|H]; eauto.
Qed.

Lemma nlive_app {A} (l : list (option A)) k : nlive (l ++ [Some k]) = S (nlive l).
Proof. induction l as [|y l IH]; cbn; auto. destruct y; now rewrite IH. Qed.

Lemma nbehind_app n l k : nbehind n (l ++ [Some k]) = (nbehind n l + bit (Z.ltb k n))%nat.
Proof. induction l as [|y l IH]; cbn; try lia. destruct y; rewrite IH; lia. Qed.

Lemma bounded_app n l k : bounded n l -> k <= n -> bounded n (l ++ [Some k]).
Proof.
  intros B L s j H. destruct (Nat.lt_ge_cases s (length l)) as [Lt|Ge].
  - rewrite nth_error_app1 in H by auto. eauto.
  - rewrite nth_error_app2 in H by auto. destruct (s - length l)%nat as [|[|?]]; cbn in H; try discriminate.
    injection H as <-. auto.
Qed.

Lemma map_livef_app A (l : list (option A)) r : map livef (l ++ [Some r]) = map livef l ++ [true].
Proof. now rewrite map_app. Qed.

(* ---------------------------------------------------------------- generic simulation *)

Section Sim.
Variables I J : impl.
(* relation between the channel sides, indexed by the number of live State handles *)
Variable R : nat -> chan I -> list (option (rx I)) -> chan J -> list (option (rx J)) -> Prop.
(* relation between the one-shot sides, indexed by "the notifier still exists" *)
Variable Ro : bool -> once I -> once J -> Prop.

Hypothesis Hshape : forall h c l d m, R h c l d m -> map livef l = map livef m.
Hypothesis Hinit : R 1 (ch_new I) [] (ch_new J) [].
Hypothesis Hset : forall h c l d m v, R (S h) c l d m ->
  R (S h) (fst (ch_set I c v)) l (fst (ch_set J d v)) m /\ snd (ch_set I c v) = snd (ch_set J d v).
Hypothesis Hsub : forall h c l d m, R (S h) c l d m ->
  R (S h) (fst (ch_sub I c)) (l ++ [Some (snd (ch_sub I c))])
          (fst (ch_sub J d)) (m ++ [Some (snd (ch_sub J d))]).
Hypothesis Hpoll : forall h c l d m s r q, R h c l d m ->
  nth_error l s = Some (Some r) -> nth_error m s = Some (Some q) ->
  R h (fst (fst (ch_poll I c r))) (upd l s (Some (snd (fst (ch_poll I c r)))))
      (fst (fst (ch_poll J d q))) (upd m s (Some (snd (fst (ch_poll J d q))))) /\
  snd (ch_poll I c r) = snd (ch_poll J d q).
Hypothesis Hdrop : forall h c l d m s r q, R h c l d m ->
  nth_error l s = Some (Some r) -> nth_error m s = Some (Some q) ->
  R h (fst (ch_droprx I c r)) (upd l s None) (fst (ch_droprx J d q)) (upd m s None) /\
  snd (ch_droprx I c r) = snd (ch_droprx J d q).
Hypothesis Hclone : forall h c l d m, R (S h) c l d m -> R (S (S h)) (ch_clone I c) l (ch_clone J d) m.
Hypothesis Hdroptx : forall h c l d m, R (S h) c l d m -> R h (ch_droptx I c) l (ch_droptx J d) m.
Hypothesis Honew : Ro true (on_new I) (on_new J).
Hypothesis Hnotify : forall a b v, Ro true a b ->
  Ro false (fst (on_notify I a v)) (fst (on_notify J b v)) /\
  snd (on_notify I a v) = snd (on_notify J b v).
Hypothesis Hodrop : forall a b, Ro true a b -> Ro false (on_drop I a) (on_drop J b).
Hypothesis Hopoll : forall nf a b, Ro nf a b ->
  Ro nf (fst (on_poll I a)) (fst (on_poll J b)) /\ snd (on_poll I a) = snd (on_poll J b).

Definition sim (st : state I) (st' : state J) : Prop :=
  handles st = handles st' /\ notifier st = notifier st' /\
  R (nlive (handles st)) (ch st) (subs st) (ch st') (subs st') /\ Ro (notifier st) (onc st) (onc st').

Lemma sim_init : sim (init I) (init J).
Proof. unfold sim, init; cbn. auto. Qed.

Lemma sim_step st st' o : sim st st' ->
  snd (step I st o) = snd (step J st' o) /\ sim (fst (step I st o)) (fst (step J st' o)).
Proof.
  intros (Hh & Hn & HR & HO).
  destruct st as [hs c l nf oc], st' as [hs' d m nf' od]; cbn [handles notifier ch subs onc] in *.
  subst hs' nf'. unfold sim.
  destruct o as [h x|h|h|s|s|h|h|x| |]; cbn [step handles notifier ch subs onc].
  - (* Set_ *) destruct (nth_error hs h) as [[g|]|] eqn:Eh; try (cbn; auto 10).
    pose proof (nlive_pos _ _ _ Eh) as Lp. destruct (nlive hs) as [|k] eqn:En; [lia|].
    destruct (Hset _ c l d m x HR) as [HR' E].
    destruct (ch_set I c x) as [c1 r1], (ch_set J d x) as [d1 r2]; cbn [fst snd] in *. subst r2.
    cbn. rewrite (nlive_upd_some _ _ _ _ Eh), En. auto 10.
  - (* Get *) destruct (nth_error hs h) as [[g|]|]; cbn; auto 10.
  - (* Subscribe *) destruct (nth_error hs h) as [[g|]|] eqn:Eh; try (cbn; auto 10).
    pose proof (nlive_pos _ _ _ Eh) as Lp. destruct (nlive hs) as [|k] eqn:En; [lia|].
    pose proof (Hsub _ c l d m HR) as HR'. pose proof (Hshape _ _ _ _ _ HR) as Sh.
    destruct (ch_sub I c) as [c1 r1], (ch_sub J d) as [d1 r2]; cbn [fst snd] in *.
    assert (length l = length m) by (rewrite <- (map_length livef l), Sh; apply map_length).
    cbn. rewrite H, En. auto 10.
  - (* Poll *) pose proof (Hshape _ _ _ _ _ HR) as Sh.
    destruct (nth_error l s) as [[r|]|] eqn:El.
    + destruct (live_some _ _ _ _ _ _ Sh El) as [q Eq]. rewrite Eq.
      destruct (Hpoll _ _ _ _ _ _ _ _ HR El Eq) as [HR' E].
      destruct (ch_poll I c r) as [[c1 r1] o1], (ch_poll J d q) as [[d1 q1] o2]; cbn [fst snd] in *.
      subst o2. cbn. auto 10.
    + destruct (nth_error m s) as [[q|]|] eqn:Em.
      * exfalso. symmetry in Sh. destruct (live_some _ _ _ _ _ _ Sh Em) as [r Er]. congruence.
      * cbn. auto 10.
      * cbn. auto 10.
    + destruct (nth_error m s) as [[q|]|] eqn:Em.
      * exfalso. symmetry in Sh. destruct (live_some _ _ _ _ _ _ Sh Em) as [r Er]. congruence.
      * cbn. auto 10.
      * cbn. auto 10.
  - (* DropSub *) pose proof (Hshape _ _ _ _ _ HR) as Sh.
    destruct (nth_error l s) as [[r|]|] eqn:El.
    + destruct (live_some _ _ _ _ _ _ Sh El) as [q Eq]. rewrite Eq.
      destruct (Hdrop _ _ _ _ _ _ _ _ HR El Eq) as [HR' E].
      destruct (ch_droprx I c r) as [c1 o1], (ch_droprx J d q) as [d1 o2]; cbn [fst snd] in *.
      subst o2. cbn. auto 10.
    + destruct (nth_error m s) as [[q|]|] eqn:Em.
      * exfalso. symmetry in Sh. destruct (live_some _ _ _ _ _ _ Sh Em) as [r Er]. congruence.
      * cbn. auto 10.
      * cbn. auto 10.
    + destruct (nth_error m s) as [[q|]|] eqn:Em.
      * exfalso. symmetry in Sh. destruct (live_some _ _ _ _ _ _ Sh Em) as [r Er]. congruence.
      * cbn. auto 10.
      * cbn. auto 10.
  - (* CloneH *) destruct (nth_error hs h) as [[g|]|] eqn:Eh; try (cbn; auto 10).
    pose proof (nlive_pos _ _ _ Eh) as Lp. destruct (nlive hs) as [|k] eqn:En; [lia|].
    cbn. rewrite nlive_app, En. auto 10.
  - (* DropH *) destruct (nth_error hs h) as [[g|]|] eqn:Eh; try (cbn; auto 10).
    pose proof (nlive_upd_none _ _ _ Eh) as Ln. destruct (nlive hs) as [|k] eqn:En; [lia|].
    injection Ln as Ln. cbn. rewrite Ln. auto 10.
  - (* Notify *) destruct nf; [|cbn; auto 10].
    destruct (Hnotify _ _ x HO) as [HO' E].
    destruct (on_notify I oc x) as [n1 o1], (on_notify J od x) as [n2 o2]; cbn [fst snd] in *.
    subst o2. cbn. auto 10.
  - (* DropNotifier *) destruct nf; cbn; auto 10.
  - (* PollOnce *) destruct (Hopoll _ _ _ HO) as [HO' E].
    destruct (on_poll I oc) as [n1 o1], (on_poll J od) as [n2 o2]; cbn [fst snd] in *.
    subst o2. cbn. auto 10.
Qed.

Lemma sim_run_from ops : forall st st', sim st st' -> run_from I st ops = run_from J st' ops.
Proof.
  induction ops as [|o ops IH]; intros st st' S; cbn [run_from]; auto.
  destruct (sim_step st st' o S) as [E S'].
  destruct (step I st o) as [st1 r1], (step J st' o) as [st2 r2]; cbn [fst snd] in *.
  subst r2. f_equal. auto.
Qed.

Theorem sim_run ops : run I ops = run J ops.
Proof. apply sim_run_from, sim_init. Qed.

Lemma sim_final_from ops : forall st st', sim st st' -> sim (final_from I st ops) (final_from J st' ops).
Proof.
  induction ops as [|o ops IH]; intros st st' S; cbn [final_from]; auto.
  apply IH. now apply sim_step.
Qed.

Lemma sim_final ops : sim (final I ops) (final J ops).
Proof. apply sim_final_from, sim_init. Qed.

(* when related receivers are parked together, every operation wakes the same subscribers *)
Section Woken.
Hypothesis Hwait : forall st st', sim st st' -> forall s, parked_in I st s = parked_in J st' s.

Lemma sim_woken_by st st' o : sim st st' -> woken_by I st o = woken_by J st' o.
Proof.
  intros S. unfold woken_by.
  assert (Len : length (subs st) = length (subs st')).
  { destruct S as (_ & _ & HR & _). apply Hshape in HR.
    rewrite <- (map_length livef (subs st)), HR. apply map_length. }
  rewrite Len. apply filter_ext. intros s.
  rewrite (Hwait _ _ S s). destruct (sim_step st st' o S) as [_ S'].
  now rewrite (Hwait _ _ S' s).
Qed.

Theorem sim_parked ops s : parked I ops s = parked J ops s.
Proof. apply Hwait, sim_final. Qed.

Theorem sim_woken ops o : woken I ops o = woken J ops o.
Proof. apply sim_woken_by, sim_final. Qed.

Lemma sim_wakes_from ops : forall st st', sim st st' -> wakes_from I st ops = wakes_from J st' ops.
Proof.
  induction ops as [|o ops IH]; intros st st' S; cbn [wakes_from]; auto.
  rewrite (sim_woken_by _ _ o S). f_equal. apply IH. now apply sim_step.
Qed.

Theorem sim_wakes ops : wakes I ops = wakes J ops.
Proof. apply sim_wakes_from, sim_init. Qed.
End Woken.
End Sim.
