(* C20: the tokio model (broadcast::channel(1) under zlink-tokio's adapters) refines the
   latest-value cell abs_impl *)
From ZV Require Import Notified.Notified Notified.NotifiedBase.
Open Scope Z_scope.

Lemma upd_id A (l : list A) s x : nth_error l s = Some x -> upd l s x = l.
Proof.
  revert s; induction l as [|y l IH]; intros [|s] H; cbn in *; try discriminate.
  - now injection H as ->.
  - now rewrite IH.
Qed.

(* State::new: the receiver returned by broadcast::channel(1) is dropped at once *)
Example t_new_is_fresh_dropped : t_droprx t_fresh 0 = (t_new, ODone).
Proof. reflexivity. Qed.

(* h = number of live State handles (Sender handles: num_tx) *)
Definition Rt (h : nat) (c : tchan) (l : list (option Z)) (a : achan) (m : list (option Z)) : Prop :=
  l = m /\ (a_tx a = h /\ tl_tx c = h) /\ tl_pos c = a_n a /\ tl_rx c = a_rx a /\ a_rx a = nlive l /\
  tl_closed c = (Nat.eqb h 0 || Nat.eqb (a_rx a) 0) /\
  sl_pos (tl_slot c) = a_n a - 1 /\ sl_rem (tl_slot c) = nbehind (a_n a) l /\
  ((1 <= nbehind (a_n a) l)%nat -> sl_val (tl_slot c) = Some (a_last a)) /\
  bounded (a_n a) l.

Lemma recv_ref_hit c k : sl_pos (tl_slot c) = k ->
  t_recv_ref c k = (t_release c, k + 1, ROk (sl_val (tl_slot c))).
Proof. intros E. unfold t_recv_ref. rewrite E, Z.eqb_refl. reflexivity. Qed.

Lemma recv_ref_empty c k : sl_pos (tl_slot c) + 1 = k ->
  t_recv_ref c k = (c, k, if tl_closed c then RClosed else REmpty).
Proof.
  intros E. unfold t_recv_ref.
  assert (E1 : (sl_pos (tl_slot c) =? k) = false) by (apply Z.eqb_neq; lia).
  assert (E2 : (sl_pos (tl_slot c) + 1 =? k) = true) by (apply Z.eqb_eq; lia).
  rewrite E1, E2. reflexivity.
Qed.

Lemma recv_ref_lag c k : sl_pos (tl_slot c) <> k -> sl_pos (tl_slot c) + 1 <> k ->
  tl_pos c - 1 - k <> 0 ->
  t_recv_ref c k = (c, tl_pos c - 1, RLagged (tl_pos c - 1 - k)).
Proof.
  intros N1 N2 N3. unfold t_recv_ref.
  apply Z.eqb_neq in N1, N2, N3. rewrite N1, N2, N3. reflexivity.
Qed.

(* a receiver that is behind gets the latest value (after at most one Lagged notice) *)
Lemma t_poll_behind n rx closed rem last tx k :
  k < n ->
  t_stream_poll 3 (TChan n rx closed (TSlot (n - 1) rem (Some last)) tx) k =
  (t_release (TChan n rx closed (TSlot (n - 1) rem (Some last)) tx), n, OItem last CTrue).
Proof.
  intros L. destruct (Z.eq_dec k (n - 1)) as [->|N].
  - cbn [t_stream_poll]. unfold t_bstream_poll. rewrite recv_ref_hit by reflexivity.
    cbn [tl_slot sl_val]. replace (n - 1 + 1) with n by lia. reflexivity.
  - cbn [t_stream_poll]. unfold t_bstream_poll.
    rewrite recv_ref_lag by (cbn; lia). cbn [tl_pos].
    rewrite recv_ref_hit by reflexivity.
    cbn [tl_slot sl_val]. replace (n - 1 + 1) with n by lia. reflexivity.
Qed.

Lemma t_poll_uptodate n rx closed sl_rem sl_val tx :
  t_stream_poll 3 (TChan n rx closed (TSlot (n - 1) sl_rem sl_val) tx) n =
  (TChan n rx closed (TSlot (n - 1) sl_rem sl_val) tx, n, if closed then OEnd else OPending).
Proof.
  cbn [t_stream_poll]. unfold t_bstream_poll. rewrite recv_ref_empty by (cbn; lia).
  cbn [tl_closed]. destruct closed; reflexivity.
Qed.

Lemma t_drop_behind n rx closed rem val tx k :
  k < n ->
  t_drain 3 (TChan n rx closed (TSlot (n - 1) rem val) tx) k n =
  (t_release (TChan n rx closed (TSlot (n - 1) rem val) tx), ODone).
Proof.
  intros L. assert (Ln : (k <? n) = true) by (apply Z.ltb_lt; lia).
  assert (Lf : (n <? n) = false) by (apply Z.ltb_ge; lia).
  destruct (Z.eq_dec k (n - 1)) as [->|N].
  - cbn [t_drain]. rewrite Ln. rewrite recv_ref_hit by reflexivity.
    replace (n - 1 + 1) with n by lia. cbn [t_drain]. rewrite Lf. reflexivity.
  - cbn [t_drain]. rewrite Ln. rewrite recv_ref_lag by (cbn; lia). cbn [tl_pos].
    cbn [t_drain].
    assert (Ln' : (n - 1 <? n) = true) by (apply Z.ltb_lt; lia). rewrite Ln'.
    rewrite recv_ref_hit by reflexivity.
    replace (n - 1 + 1) with n by lia. cbn [t_drain]. rewrite Lf. reflexivity.
Qed.

Lemma bit_ltb_true k n : k < n -> bit (Z.ltb k n) = 1%nat.
Proof. intros L. apply Z.ltb_lt in L. now rewrite L. Qed.
Lemma bit_ltb_false k n : n <= k -> bit (Z.ltb k n) = 0%nat.
Proof. intros L. apply Z.ltb_ge in L. now rewrite L. Qed.

Ltac prj := cbn [tl_pos tl_rx tl_closed tl_slot tl_tx sl_pos sl_rem sl_val a_n a_last a_rx a_tx
  ch_poll ch_set ch_sub ch_droprx ch_clone ch_droptx ch_new chan rx tokio_impl abs_impl fst snd] in *.

Lemma Rt_shape h c l a m : Rt h c l a m -> map livef l = map livef m.
Proof. intros (-> & _). reflexivity. Qed.

Lemma Rt_init : Rt 1 (ch_new tokio_impl) [] (ch_new abs_impl) [].
Proof.
  cbn. unfold Rt; cbn. repeat split; auto; try lia. intros s k H. destruct s; discriminate.
Qed.

Lemma Rt_set h c l a m v : Rt (S h) c l a m ->
  Rt (S h) (fst (ch_set tokio_impl c v)) l (fst (ch_set abs_impl a v)) m /\
  snd (ch_set tokio_impl c v) = snd (ch_set abs_impl a v).
Proof.
  intros (-> & [Ho Htx] & Hp & Hrx & Hl & Hc & Hsp & Hr & Hv & Hb).
  destruct c as [n rx closed [sp rem val] tx], a as [an last arx atx]; prj. subst.
  unfold t_send, a_set; cbn [tl_rx a_rx]. split; [|reflexivity].
  destruct (Nat.eqb (nlive m) 0) eqn:E; cbn [fst].
  - unfold Rt; cbn. rewrite E. repeat split; auto.
  - unfold Rt; cbn. rewrite E. apply Nat.eqb_neq in E.
    repeat split; auto; try lia.
    + now rewrite nbehind_all.
    + eapply bounded_mono; [|eassumption]. lia.
Qed.

Lemma Rt_sub h c l a m : Rt (S h) c l a m ->
  Rt (S h) (fst (ch_sub tokio_impl c)) (l ++ [Some (snd (ch_sub tokio_impl c))])
          (fst (ch_sub abs_impl a)) (m ++ [Some (snd (ch_sub abs_impl a))]).
Proof.
  intros (-> & [Ho Htx] & Hp & Hrx & Hl & Hc & Hsp & Hr & Hv & Hb).
  destruct c as [n rx closed [sp rem val] tx], a as [an last arx atx]; prj. subst.
  unfold Rt; cbn. rewrite nlive_app, nbehind_app, bit_ltb_false by lia.
  repeat split; auto; try lia.
  - destruct (nlive m); reflexivity.
  - intros H. apply Hv. lia.
  - apply bounded_app; auto; lia.
Qed.

Lemma Rt_poll h c l a m s r q : Rt h c l a m ->
  nth_error l s = Some (Some r) -> nth_error m s = Some (Some q) ->
  Rt h (fst (fst (ch_poll tokio_impl c r))) (upd l s (Some (snd (fst (ch_poll tokio_impl c r)))))
       (fst (fst (ch_poll abs_impl a q))) (upd m s (Some (snd (fst (ch_poll abs_impl a q))))) /\
  snd (ch_poll tokio_impl c r) = snd (ch_poll abs_impl a q).
Proof.
  intros (-> & [Ho Htx] & Hp & Hrx & Hl & Hc & Hsp & Hr & Hv & Hb) El Em.
  rewrite El in Em. injection Em as <-.
  destruct c as [n rx closed [sp rem val] tx], a as [an last arx atx]; prj. subst.
  pose proof (Hb _ _ El) as Lr. pose proof (nlive_pos _ _ _ El) as Lp.
  unfold a_poll, a_open; cbn [a_n a_last a_tx].
  destruct (Z.ltb_spec r an) as [L|L].
  - pose proof (nbehind_pos _ _ _ _ El L) as Hn. rewrite (Hv Hn).
    rewrite t_poll_behind by auto. cbn [fst snd]. split; [|reflexivity].
    pose proof (nbehind_upd an m s r (Some an) El) as U. cbn [behind1] in U.
    rewrite bit_ltb_true, bit_ltb_false in U by lia.
    unfold Rt, t_release; cbn.
    repeat split; auto; try lia.
    + symmetry. eapply nlive_upd_some; eauto.
    + intros H. destruct (Nat.eqb_spec (nbehind an m) 1) as [E|E]; [lia|]. auto.
    + apply bounded_upd; auto. intros k [= <-]. lia.
  - assert (r = an) by lia. subst r.
    rewrite t_poll_uptodate. cbn [fst snd].
    rewrite (upd_id _ _ _ _ El). split.
    + unfold Rt; cbn. repeat split; auto.
    + destruct (nlive m) as [|x]; [lia|]. cbn. rewrite orb_false_r.
      destruct (Nat.eqb h 0); reflexivity.
Qed.

Lemma Rt_drop h c l a m s r q : Rt h c l a m ->
  nth_error l s = Some (Some r) -> nth_error m s = Some (Some q) ->
  Rt h (fst (ch_droprx tokio_impl c r)) (upd l s None) (fst (ch_droprx abs_impl a q)) (upd m s None) /\
  snd (ch_droprx tokio_impl c r) = snd (ch_droprx abs_impl a q).
Proof.
  intros (-> & [Ho Htx] & Hp & Hrx & Hl & Hc & Hsp & Hr & Hv & Hb) El Em.
  rewrite El in Em. injection Em as <-.
  destruct c as [n rx closed [sp rem val] tx], a as [an last arx atx]; prj. subst.
  pose proof (Hb _ _ El) as Lr. pose proof (nlive_pos _ _ _ El) as Lp.
  pose proof (nlive_upd_none _ _ _ El) as Ln.
  assert (Hcl : (if Nat.eqb (nlive m - 1) 0 then true else Nat.eqb h 0 || Nat.eqb (nlive m) 0) =
                (Nat.eqb h 0 || Nat.eqb (nlive m - 1) 0)).
  { destruct (nlive m) as [|x]; [lia|]. cbn [Nat.eqb]. rewrite orb_false_r.
    destruct (Nat.eqb (S x - 1) 0), (Nat.eqb h 0); reflexivity. }
  unfold t_droprx, a_droprx; cbn [tl_rx tl_pos tl_closed tl_slot tl_tx a_n a_last a_rx a_tx].
  destruct (Z.ltb_spec r an) as [L|L].
  - rewrite t_drop_behind by auto. cbn [fst snd]. split; [|reflexivity].
    pose proof (nbehind_upd an m s r None El) as U. cbn [behind1] in U.
    rewrite bit_ltb_true in U by lia.
    unfold Rt, t_release; cbn.
    repeat split; auto; try lia.
    + intros H. destruct (Nat.eqb_spec (nbehind an m) 1) as [E|E]; [lia|]. apply Hv. lia.
    + apply bounded_upd; auto. discriminate.
  - assert (r = an) by lia. subst r.
    pose proof (nbehind_upd an m s an None El) as U. cbn [behind1] in U.
    cbn [t_drain]. assert (Lf : (an <? an) = false) by (apply Z.ltb_ge; lia).
    destruct (Nat.eqb (nlive m - 1) 0) eqn:E0; rewrite Lf; cbn [fst snd]; (split; [|reflexivity]);
      rewrite bit_ltb_false in U by lia; unfold Rt; cbn; rewrite ?E0 in *;
      (repeat split; auto; try lia;
       [ intros H; apply Hv; lia | apply bounded_upd; auto; discriminate ]).
Qed.

Lemma Rt_clone h c l a m : Rt (S h) c l a m ->
  Rt (S (S h)) (ch_clone tokio_impl c) l (ch_clone abs_impl a) m.
Proof.
  intros (-> & [Ho Htx] & Hp & Hrx & Hl & Hc & Hsp & Hr & Hv & Hb).
  unfold Rt; cbn. rewrite Ho, Htx. repeat split; auto.
Qed.

(* dropping a handle closes the channel only when it was the last one *)
Lemma Rt_droptx h c l a m : Rt (S h) c l a m ->
  Rt h (ch_droptx tokio_impl c) l (ch_droptx abs_impl a) m.
Proof.
  intros (-> & [Ho Htx] & Hp & Hrx & Hl & Hc & Hsp & Hr & Hv & Hb).
  unfold Rt; cbn. rewrite Ho, Htx, Hc. cbn [Nat.sub Nat.eqb orb]. rewrite Nat.sub_0_r.
  repeat split; auto.
Qed.

(* one-shot *)
Definition Rot (nf : bool) (t : tonce) (a : aonce) : Prop :=
  match a with
  | AIdle => nf = true /\ t = TOnce None false false
  | AArmed v => nf = false /\ t = TOnce (Some v) true false
  | ADead => nf = false /\ (t = TOnce None true false \/ t = TOnce None true true)
  | AFinished => nf = false /\ t = TOnce None true true
  end.

Lemma Rot_init : Rot true (on_new tokio_impl) (on_new abs_impl).
Proof. cbn. auto. Qed.

Lemma Rot_notify t a v : Rot true t a ->
  Rot false (fst (on_notify tokio_impl t v)) (fst (on_notify abs_impl a v)) /\
  snd (on_notify tokio_impl t v) = snd (on_notify abs_impl a v).
Proof. destruct a; cbn; intros [E H]; try discriminate. subst. cbn. auto. Qed.

Lemma Rot_drop t a : Rot true t a -> Rot false (on_drop tokio_impl t) (on_drop abs_impl a).
Proof. destruct a; cbn; intros [E H]; try discriminate. subst. cbn. auto. Qed.

Lemma Rot_poll nf t a : Rot nf t a ->
  Rot nf (fst (on_poll tokio_impl t)) (fst (on_poll abs_impl a)) /\
  snd (on_poll tokio_impl t) = snd (on_poll abs_impl a).
Proof.
  destruct a; cbn; intros [E H]; subst; cbn; auto.
  destruct H as [->| ->]; cbn; auto.
Qed.

Theorem tokio_refines_abs ops : run tokio_impl ops = run abs_impl ops.
Proof.
  apply (sim_run tokio_impl abs_impl Rt Rot).
  - exact Rt_shape.
  - exact Rt_init.
  - intros; now apply Rt_set.
  - intros; now apply Rt_sub.
  - intros; eapply Rt_poll; eauto.
  - intros; eapply Rt_drop; eauto.
  - intros; now apply Rt_clone.
  - intros; now apply Rt_droptx.
  - exact Rot_init.
  - intros; now apply Rot_notify.
  - intros; now apply Rot_drop.
  - intros; now apply Rot_poll.
Qed.
