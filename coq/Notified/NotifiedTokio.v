(* C20: the tokio model (broadcast::channel(1) under zlink-tokio's adapters) refines the
   latest-value cell absZ_impl *)
From ZV Require Import Notified.Notified Notified.NotifiedBase.
Open Scope Z_scope.

Lemma upd_id A (l : list A) s x : nth_error l s = Some x -> upd l s x = l.
Proof.
  revert s; induction l as [|y l IH]; intros [|s] H; cbn in *; try discriminate.
  - now injection H as ->.
  - now rewrite IH.
Qed.

(* State::new: the receiver returned by broadcast::channel(1) is dropped at once *)
Example t_new_is_fresh_dropped : t_droprx t_fresh 0 = (t_new, ODone).
Proof. reflexivity. Qed.

(* h = number of live State handles (Sender handles: num_tx) *)
Definition Rt (h : nat) (c : tchan) (l : list (option Z)) (a : achan) (m : list (option Z)) : Prop :=
  l = m /\ (a_tx a = h /\ tl_tx c = h) /\ tl_pos c = a_n a /\ tl_rx c = a_rx a /\ a_rx a = nlive l /\
  tl_closed c = (Nat.eqb h 0 || Nat.eqb (a_rx a) 0) /\
  sl_pos (tl_slot c) = a_n a - 1 /\ sl_rem (tl_slot c) = nbehind (a_n a) l /\
  ((1 <= nbehind (a_n a) l)%nat -> sl_val (tl_slot c) = Some (a_last a)) /\
  bounded (a_n a) l.

Lemma recv_ref_hit c k : sl_pos (tl_slot c) = k ->
  t_recv_ref c k = (t_release c, k + 1, ROk (sl_val (tl_slot c))).
Proof. intros E. unfold t_recv_ref. rewrite E, Z.eqb_refl. reflexivity. Qed.

Lemma recv_ref_empty c k : sl_pos (tl_slot c) + 1 = k ->
  t_recv_ref c k = (c, k, if tl_closed c then RClosed else REmpty).
Proof.
  intros E. unfold t_recv_ref.
  assert (E1 : (sl_pos (tl_slot c) =? k) = false) by (apply Z.eqb_neq; lia).
  assert (E2 : (sl_pos (tl_slot c) + 1 =? k) = true) by (apply Z.eqb_eq; lia).
  rewrite E1, E2. reflexivity.
Qed.

Lemma recv_ref_lag c k : sl_pos (tl_slot c) <> k -> sl_pos (tl_slot c) + 1 <> k ->
  tl_pos c - 1 - k <> 0 ->
  t_recv_ref c k = (c, tl_pos c - 1, RLagged (tl_pos c - 1 - k)).
Proof.
  intros N1 N2 N3. unfold t_recv_ref.
  apply Z.eqb_neq in N1, N2, N3. rewrite N1, N2, N3. reflexivity.
Qed.

(* a receiver that is behind gets the latest value (after at most one Lagged notice) *)
Lemma t_poll_behind n rx closed rem last tx ep k :
  k < n ->
  t_stream_poll 3 (TChan n rx closed (TSlot (n - 1) rem (Some last)) tx ep) k =
  (t_release (TChan n rx closed (TSlot (n - 1) rem (Some last)) tx ep), n, OItem last CTrue).
Proof.
  intros L. destruct (Z.eq_dec k (n - 1)) as [->|N].
  - cbn [t_stream_poll]. unfold t_bstream_poll. rewrite recv_ref_hit by reflexivity.
    cbn [tl_slot sl_val]. replace (n - 1 + 1) with n by lia. reflexivity.
  - cbn [t_stream_poll]. unfold t_bstream_poll.
    rewrite recv_ref_lag by (cbn; lia). cbn [tl_pos].
    rewrite recv_ref_hit by reflexivity.
    cbn [tl_slot sl_val]. replace (n - 1 + 1) with n by lia. reflexivity.
Qed.

Lemma t_poll_uptodate n rx closed sl_rem sl_val tx ep :
  t_stream_poll 3 (TChan n rx closed (TSlot (n - 1) sl_rem sl_val) tx ep) n =
  (TChan n rx closed (TSlot (n - 1) sl_rem sl_val) tx ep, n, if closed then OEnd else OPending).
Proof.
  cbn [t_stream_poll]. unfold t_bstream_poll. rewrite recv_ref_empty by (cbn; lia).
  cbn [tl_closed]. destruct closed; reflexivity.
Qed.

Lemma t_drop_behind n rx closed rem val tx ep k :
  k < n ->
  t_drain 3 (TChan n rx closed (TSlot (n - 1) rem val) tx ep) k n =
  (t_release (TChan n rx closed (TSlot (n - 1) rem val) tx ep), ODone).
Proof.
  intros L. assert (Ln : (k <? n) = true) by (apply Z.ltb_lt; lia).
  assert (Lf : (n <? n) = false) by (apply Z.ltb_ge; lia).
  destruct (Z.eq_dec k (n - 1)) as [->|N].
  - cbn [t_drain]. rewrite Ln. rewrite recv_ref_hit by reflexivity.
    replace (n - 1 + 1) with n by lia. cbn [t_drain]. rewrite Lf. reflexivity.
  - cbn [t_drain]. rewrite Ln. rewrite recv_ref_lag by (cbn; lia). cbn [tl_pos].
    cbn [t_drain].
    assert (Ln' : (n - 1 <? n) = true) by (apply Z.ltb_lt; lia). rewrite Ln'.
    rewrite recv_ref_hit by reflexivity.
    replace (n - 1 + 1) with n by lia. cbn [t_drain]. rewrite Lf. reflexivity.
Qed.

Lemma bit_ltb_true k n : k < n -> bit (Z.ltb k n) = 1%nat.
Proof. intros L. apply Z.ltb_lt in L. now rewrite L. Qed.
Lemma bit_ltb_false k n : n <= k -> bit (Z.ltb k n) = 0%nat.
Proof. intros L. apply Z.ltb_ge in L. now rewrite L. Qed.

Ltac prj := cbn [tl_pos tl_rx tl_closed tl_slot tl_tx tl_epoch a_epoch sl_pos sl_rem sl_val a_n a_last a_rx a_tx
  ch_poll ch_set ch_sub ch_droprx ch_clone ch_droptx ch_new chan rx tokioZ_impl absZ_impl fst snd] in *.

Lemma Rt_shape h c l a m : Rt h c l a m -> map livef l = map livef m.
Proof. intros (-> & _). reflexivity. Qed.

Lemma Rt_init : Rt 1 (ch_new tokioZ_impl) [] (ch_new absZ_impl) [].
Proof.
  cbn. unfold Rt; cbn. repeat split; auto; try lia. intros s k H. destruct s; discriminate.
Qed.

Lemma Rt_set h c l a m v : Rt (S h) c l a m ->
  Rt (S h) (fst (ch_set tokioZ_impl c v)) l (fst (ch_set absZ_impl a v)) m /\
  snd (ch_set tokioZ_impl c v) = snd (ch_set absZ_impl a v).
Proof.
  intros (-> & [Ho Htx] & Hp & Hrx & Hl & Hc & Hsp & Hr & Hv & Hb).
  destruct c as [n rx closed [sp rem val] tx ep], a as [an last arx atx aep]; prj. subst.
  unfold t_send, a_set; cbn [tl_rx a_rx]. split; [|reflexivity].
  destruct (Nat.eqb (nlive m) 0) eqn:E; cbn [fst].
  - unfold Rt; cbn. rewrite E. repeat split; auto.
  - unfold Rt; cbn. rewrite E. apply Nat.eqb_neq in E.
    repeat split; auto; try lia.
    + now rewrite nbehind_all.
    + eapply bounded_mono; [|eassumption]. lia.
Qed.

Lemma Rt_sub h c l a m : Rt (S h) c l a m ->
  Rt (S h) (fst (ch_sub tokioZ_impl c)) (l ++ [Some (snd (ch_sub tokioZ_impl c))])
          (fst (ch_sub absZ_impl a)) (m ++ [Some (snd (ch_sub absZ_impl a))]).
Proof.
  intros (-> & [Ho Htx] & Hp & Hrx & Hl & Hc & Hsp & Hr & Hv & Hb).
  destruct c as [n rx closed [sp rem val] tx ep], a as [an last arx atx aep]; prj. subst.
  unfold Rt; cbn. rewrite nlive_app, nbehind_app, bit_ltb_false by lia.
  repeat split; auto; try lia.
  - destruct (nlive m); reflexivity.
  - intros H. apply Hv. lia.
  - apply bounded_app; auto; lia.
Qed.

Lemma Rt_poll h c l a m s r q : Rt h c l a m ->
  nth_error l s = Some (Some r) -> nth_error m s = Some (Some q) ->
  Rt h (fst (fst (ch_poll tokioZ_impl c r))) (upd l s (Some (snd (fst (ch_poll tokioZ_impl c r)))))
       (fst (fst (ch_poll absZ_impl a q))) (upd m s (Some (snd (fst (ch_poll absZ_impl a q))))) /\
  snd (ch_poll tokioZ_impl c r) = snd (ch_poll absZ_impl a q).
Proof.
  intros (-> & [Ho Htx] & Hp & Hrx & Hl & Hc & Hsp & Hr & Hv & Hb) El Em.
  rewrite El in Em. injection Em as <-.
  destruct c as [n rx closed [sp rem val] tx ep], a as [an last arx atx aep]; prj. subst.
  pose proof (Hb _ _ El) as Lr. pose proof (nlive_pos _ _ _ El) as Lp.
  unfold a_poll, a_open; cbn [a_n a_last a_tx].
  destruct (Z.ltb_spec r an) as [L|L].
  - pose proof (nbehind_pos _ _ _ _ El L) as Hn. rewrite (Hv Hn).
    rewrite t_poll_behind by auto. cbn [fst snd]. split; [|reflexivity].
    pose proof (nbehind_upd an m s r (Some an) El) as U. cbn [behind1] in U.
    rewrite bit_ltb_true, bit_ltb_false in U by lia.
    unfold Rt, t_release; cbn.
    repeat split; auto; try lia.
    + symmetry. eapply nlive_upd_some; eauto.
    + intros H. destruct (Nat.eqb_spec (nbehind an m) 1) as [E|E]; [lia|]. auto.
    + apply bounded_upd; auto. intros k [= <-]. lia.
  - assert (r = an) by lia. subst r.
    rewrite t_poll_uptodate. cbn [fst snd].
    rewrite (upd_id _ _ _ _ El). split.
    + unfold Rt; cbn. repeat split; auto.
    + destruct (nlive m) as [|x]; [lia|]. cbn. rewrite orb_false_r.
      destruct (Nat.eqb h 0); reflexivity.
Qed.

Lemma Rt_drop h c l a m s r q : Rt h c l a m ->
  nth_error l s = Some (Some r) -> nth_error m s = Some (Some q) ->
  Rt h (fst (ch_droprx tokioZ_impl c r)) (upd l s None) (fst (ch_droprx absZ_impl a q)) (upd m s None) /\
  snd (ch_droprx tokioZ_impl c r) = snd (ch_droprx absZ_impl a q).
Proof.
  intros (-> & [Ho Htx] & Hp & Hrx & Hl & Hc & Hsp & Hr & Hv & Hb) El Em.
  rewrite El in Em. injection Em as <-.
  destruct c as [n rx closed [sp rem val] tx ep], a as [an last arx atx aep]; prj. subst.
  pose proof (Hb _ _ El) as Lr. pose proof (nlive_pos _ _ _ El) as Lp.
  pose proof (nlive_upd_none _ _ _ El) as Ln.
  assert (Hcl : (if Nat.eqb (nlive m - 1) 0 then true else Nat.eqb h 0 || Nat.eqb (nlive m) 0) =
                (Nat.eqb h 0 || Nat.eqb (nlive m - 1) 0)).
  { destruct (nlive m) as [|x]; [lia|]. cbn [Nat.eqb]. rewrite orb_false_r.
    destruct (Nat.eqb (S x - 1) 0), (Nat.eqb h 0); reflexivity. }
  unfold t_droprx, a_droprx; cbn [tl_rx tl_pos tl_closed tl_slot tl_tx a_n a_last a_rx a_tx].
  destruct (Z.ltb_spec r an) as [L|L].
  - rewrite t_drop_behind by auto. cbn [fst snd]. split; [|reflexivity].
    pose proof (nbehind_upd an m s r None El) as U. cbn [behind1] in U.
    rewrite bit_ltb_true in U by lia.
    unfold Rt, t_release; cbn.
    repeat split; auto; try lia.
    + intros H. destruct (Nat.eqb_spec (nbehind an m) 1) as [E|E]; [lia|]. apply Hv. lia.
    + apply bounded_upd; auto. discriminate.
  - assert (r = an) by lia. subst r.
    pose proof (nbehind_upd an m s an None El) as U. cbn [behind1] in U.
    cbn [t_drain]. assert (Lf : (an <? an) = false) by (apply Z.ltb_ge; lia).
    destruct (Nat.eqb (nlive m - 1) 0) eqn:E0; rewrite Lf; cbn [fst snd]; (split; [|reflexivity]);
      rewrite bit_ltb_false in U by lia; unfold Rt; cbn; rewrite ?E0 in *;
      (repeat split; auto; try lia;
       [ intros H; apply Hv; lia | apply bounded_upd; auto; discriminate ]).
Qed.

Lemma Rt_clone h c l a m : Rt (S h) c l a m ->
  Rt (S (S h)) (ch_clone tokioZ_impl c) l (ch_clone absZ_impl a) m.
Proof.
  intros (-> & [Ho Htx] & Hp & Hrx & Hl & Hc & Hsp & Hr & Hv & Hb).
  unfold Rt; cbn. rewrite Ho, Htx. repeat split; auto.
Qed.

(* dropping a handle closes the channel only when it was the last one *)
Lemma Rt_droptx h c l a m : Rt (S h) c l a m ->
  Rt h (ch_droptx tokioZ_impl c) l (ch_droptx absZ_impl a) m.
Proof.
  intros (-> & [Ho Htx] & Hp & Hrx & Hl & Hc & Hsp & Hr & Hv & Hb).
  unfold Rt; cbn. rewrite Ho, Htx, Hc. cbn [Nat.sub Nat.eqb orb]. rewrite Nat.sub_0_r.
  repeat split; auto.
Qed.

(* one-shot *)
Definition Rot (nf : bool) (t : tonce) (a : aonce) : Prop :=
  match a with
  | AIdle => nf = true /\ t = TOnce None false false
  | AArmed v => nf = false /\ t = TOnce (Some v) true false
  | ADead => nf = false /\ (t = TOnce None true false \/ t = TOnce None true true)
  | AFinished => nf = false /\ t = TOnce None true true
  end.

Lemma Rot_init : Rot true (on_new tokioZ_impl) (on_new absZ_impl).
Proof. cbn. auto. Qed.

Lemma Rot_notify t a v : Rot true t a ->
  Rot false (fst (on_notify tokioZ_impl t v)) (fst (on_notify absZ_impl a v)) /\
  snd (on_notify tokioZ_impl t v) = snd (on_notify absZ_impl a v).
Proof. destruct a; cbn; intros [E H]; try discriminate. subst. cbn. auto. Qed.

Lemma Rot_drop t a : Rot true t a -> Rot false (on_drop tokioZ_impl t) (on_drop absZ_impl a).
Proof. destruct a; cbn; intros [E H]; try discriminate. subst. cbn. auto. Qed.

Lemma Rot_poll nf t a : Rot nf t a ->
  Rot nf (fst (on_poll tokioZ_impl t)) (fst (on_poll absZ_impl a)) /\
  snd (on_poll tokioZ_impl t) = snd (on_poll absZ_impl a).
Proof.
  destruct a; cbn; intros [E H]; subst; cbn; auto.
  destruct H as [->| ->]; cbn; auto.
Qed.

Theorem tokioZ_refines_absZ ops : run tokioZ_impl ops = run absZ_impl ops.
Proof.
  apply (sim_run tokioZ_impl absZ_impl Rt Rot).
  - exact Rt_shape.
  - exact Rt_init.
  - intros; now apply Rt_set.
  - intros; now apply Rt_sub.
  - intros; eapply Rt_poll; eauto.
  - intros; eapply Rt_drop; eauto.
  - intros; now apply Rt_clone.
  - intros; now apply Rt_droptx.
  - exact Rot_init.
  - intros; now apply Rot_notify.
  - intros; now apply Rot_drop.
  - intros; now apply Rot_poll.
Qed.

(* ---------------------------------------------------------------- with the waker *)
(* positions of a list of receivers *)
Definition pos (l : list (option brx)) : list (option Z) := map (option_map r_pos) l.

Lemma pos_app l r : pos (l ++ [Some r]) = pos l ++ [Some (r_pos r)].
Proof. unfold pos. now rewrite map_app. Qed.
Lemma pos_upd l s x : pos (upd l s x) = upd (pos l) s (option_map r_pos x).
Proof. unfold pos. apply map_upd. Qed.
Lemma pos_nth l s r : nth_error l s = Some (Some r) -> nth_error (pos l) s = Some (Some (r_pos r)).
Proof. intros H. unfold pos. erewrite map_nth_error; eauto. reflexivity. Qed.

Lemma upd_inj_same A (l m : list A) s x y z :
  nth_error l s = Some z -> upd l s x = upd m s y -> x = y.
Proof.
  intros H E. pose proof (nth_error_upd_same _ l s x z H) as A1. rewrite E in A1.
  assert (Lm : (s < length m)%nat).
  { assert (length (upd l s x) = length (upd m s y)) by now rewrite E.
    rewrite !length_upd in H0. rewrite <- H0. apply nth_error_Some. congruence. }
  destruct (nth_error m s) as [w|] eqn:Em; [|apply nth_error_None in Em; lia].
  rewrite (nth_error_upd_same _ m s y w Em) in A1. congruence.
Qed.

(* nothing but send and close_channel notifies *)
Lemma release_epoch c : tl_epoch (t_release c) = tl_epoch c.
Proof. reflexivity. Qed.
Lemma recv_ref_epoch c k : tl_epoch (fst (fst (t_recv_ref c k))) = tl_epoch c.
Proof.
  unfold t_recv_ref. destruct (negb (sl_pos (tl_slot c) =? k)); [|reflexivity].
  destruct (sl_pos (tl_slot c) + 1 =? k); [reflexivity|].
  destruct (tl_pos c - 1 - k =? 0); reflexivity.
Qed.
Lemma stream_poll_epoch fuel : forall c k, tl_epoch (fst (fst (t_stream_poll fuel c k))) = tl_epoch c.
Proof.
  induction fuel as [|f IH]; intros c k; [reflexivity|]. cbn [t_stream_poll]. unfold t_bstream_poll.
  pose proof (recv_ref_epoch c k) as E. destruct (t_recv_ref c k) as [[c1 k1] r]. cbn [fst] in E.
  destruct r as [[v|]| |n|]; cbn [fst]; auto. rewrite IH. exact E.
Qed.
Lemma drain_epoch fuel : forall c k u, tl_epoch (fst (t_drain fuel c k u)) = tl_epoch c.
Proof.
  induction fuel as [|f IH]; intros c k u; cbn [t_drain]; destruct (k <? u); try reflexivity.
  pose proof (recv_ref_epoch c k) as E. destruct (t_recv_ref c k) as [[c1 k1] r]. cbn [fst] in E.
  destruct r; cbn [fst]; auto; rewrite IH; exact E.
Qed.
Lemma droprx_epoch c k : tl_epoch (fst (t_droprx c k)) = tl_epoch c.
Proof. unfold t_droprx. now rewrite drain_epoch. Qed.

Definition Rtw (h : nat) (c : tchan) (l : list (option brx)) (a : achan) (m : list (option brx)) : Prop :=
  l = m /\ tl_epoch c = a_epoch a /\ Rt h c (pos l) a (pos m).

Lemma Rtw_shape h c l a m : Rtw h c l a m -> map livef l = map livef m.
Proof. intros (-> & _). reflexivity. Qed.

Lemma Rtw_init : Rtw 1 (ch_new tokio_impl) [] (ch_new abs_impl) [].
Proof. split; [reflexivity|]. split; [reflexivity|]. exact Rt_init. Qed.

Lemma Rtw_set h c l a m v : Rtw (S h) c l a m ->
  Rtw (S h) (fst (ch_set tokio_impl c v)) l (fst (ch_set abs_impl a v)) m /\
  snd (ch_set tokio_impl c v) = snd (ch_set abs_impl a v).
Proof.
  intros (-> & Ee & HR). destruct (Rt_set h c (pos m) a (pos m) v HR) as [HR' Eo].
  split; [|exact Eo]. split; [reflexivity|]. split; [|exact HR'].
  destruct HR as (_ & _ & _ & Hrx & _). cbn. unfold t_send, a_set. rewrite Hrx.
  destruct (Nat.eqb (a_rx a) 0); cbn; congruence.
Qed.

Lemma Rtw_sub h c l a m : Rtw (S h) c l a m ->
  Rtw (S h) (fst (ch_sub tokio_impl c)) (l ++ [Some (snd (ch_sub tokio_impl c))])
            (fst (ch_sub abs_impl a)) (m ++ [Some (snd (ch_sub abs_impl a))]).
Proof.
  intros (-> & Ee & HR). pose proof (Rt_sub h c (pos m) a (pos m) HR) as HR'.
  cbn in HR'. cbn [ch_sub tokio_impl abs_impl t_sub a_subw t_subscribe a_sub fst snd].
  assert (Ep : tl_pos c = a_n a) by (destruct HR as (_ & _ & Hp & _); exact Hp).
  split; [now rewrite Ep|]. split; [exact Ee|]. rewrite !pos_app. cbn [r_pos]. exact HR'.
Qed.

Lemma Rtw_poll h c l a m s r q : Rtw h c l a m ->
  nth_error l s = Some (Some r) -> nth_error m s = Some (Some q) ->
  Rtw h (fst (fst (ch_poll tokio_impl c r))) (upd l s (Some (snd (fst (ch_poll tokio_impl c r)))))
        (fst (fst (ch_poll abs_impl a q))) (upd m s (Some (snd (fst (ch_poll abs_impl a q))))) /\
  snd (ch_poll tokio_impl c r) = snd (ch_poll abs_impl a q).
Proof.
  intros (-> & Ee & HR) El Em. rewrite El in Em. injection Em as <-.
  destruct (Rt_poll h c (pos m) a (pos m) s (r_pos r) (r_pos r) HR (pos_nth _ _ _ El) (pos_nth _ _ _ El))
    as [HR' Eo].
  cbn [ch_poll tokio_impl abs_impl tokioZ_impl absZ_impl] in *. unfold t_poll, a_pollw.
  pose proof (stream_poll_epoch 3 c (r_pos r)) as E1.
  destruct (t_stream_poll 3 c (r_pos r)) as [[c1 p1] o1]. cbn [fst snd] in *.
  assert (E2 : a_epoch (fst (fst (a_poll a (r_pos r)))) = a_epoch a).
  { unfold a_poll. destruct (r_pos r <? a_n a); reflexivity. }
  destruct (a_poll a (r_pos r)) as [[a1 k1] o2]. cbn [fst snd] in *. subst o2.
  assert (Ek : p1 = k1).
  { destruct HR' as (El' & _). apply (upd_inj_same _ _ _ _ _ _ _ (pos_nth _ _ _ El)) in El'. congruence. }
  subst k1. split; [|reflexivity].
  split; [now rewrite E1, E2, Ee|]. split; [congruence|]. rewrite !pos_upd. exact HR'.
Qed.

Lemma Rtw_drop h c l a m s r q : Rtw h c l a m ->
  nth_error l s = Some (Some r) -> nth_error m s = Some (Some q) ->
  Rtw h (fst (ch_droprx tokio_impl c r)) (upd l s None) (fst (ch_droprx abs_impl a q)) (upd m s None) /\
  snd (ch_droprx tokio_impl c r) = snd (ch_droprx abs_impl a q).
Proof.
  intros (-> & Ee & HR) El Em. rewrite El in Em. injection Em as <-.
  destruct (Rt_drop h c (pos m) a (pos m) s (r_pos r) (r_pos r) HR (pos_nth _ _ _ El) (pos_nth _ _ _ El))
    as [HR' Eo].
  cbn [ch_droprx tokio_impl abs_impl tokioZ_impl absZ_impl] in *.
  split; [|exact Eo]. split; [reflexivity|]. split; [|rewrite !pos_upd; exact HR'].
  rewrite droprx_epoch. unfold a_droprx. cbn. exact Ee.
Qed.

Lemma Rtw_clone h c l a m : Rtw (S h) c l a m ->
  Rtw (S (S h)) (ch_clone tokio_impl c) l (ch_clone abs_impl a) m.
Proof.
  intros (-> & Ee & HR). split; [reflexivity|]. split; [exact Ee|]. now apply Rt_clone.
Qed.

Lemma Rtw_droptx h c l a m : Rtw (S h) c l a m ->
  Rtw h (ch_droptx tokio_impl c) l (ch_droptx abs_impl a) m.
Proof.
  intros (-> & Ee & HR). split; [reflexivity|]. split; [|now apply Rt_droptx].
  destruct HR as (_ & [Ha Ht] & _). cbn. rewrite Ha, Ht, Ee. reflexivity.
Qed.

Definition tokio_sim := sim tokio_impl abs_impl Rtw Rot.

Lemma tokio_parked st st' : tokio_sim st st' -> forall s, parked_in tokio_impl st s = parked_in abs_impl st' s.
Proof.
  intros (_ & _ & (El & Ee & _) & _) s. unfold parked_in. rewrite El.
  cbn [rx tokio_impl abs_impl rx_waiting] in *. rewrite Ee. reflexivity.
Qed.

Section TokioWake.
Let S0 := Rtw_shape.
Let S1 := Rtw_init.
Let S2 := fun h c l d m v H => Rtw_set h c l d m v H.
Let S3 := fun h c l d m H => Rtw_sub h c l d m H.
Let S4 := fun h c l d m s r q H A B => Rtw_poll h c l d m s r q H A B.
Let S5 := fun h c l d m s r q H A B => Rtw_drop h c l d m s r q H A B.
Let S6 := fun h c l d m H => Rtw_clone h c l d m H.
Let S7 := fun h c l d m H => Rtw_droptx h c l d m H.
Let S8 := Rot_init.
Let S9 := fun a b v H => Rot_notify a b v H.
Let S10 := fun a b H => Rot_drop a b H.
Let S11 := fun nf a b H => Rot_poll nf a b H.

Theorem tokio_refines_abs ops : run tokio_impl ops = run abs_impl ops.
Proof. exact (sim_run tokio_impl abs_impl Rtw Rot S0 S1 S2 S3 S4 S5 S6 S7 S8 S9 S10 S11 ops). Qed.

Theorem tokio_wakes_abs ops : wakes tokio_impl ops = wakes abs_impl ops.
Proof.
  exact (sim_wakes tokio_impl abs_impl Rtw Rot S0 S1 S2 S3 S4 S5 S6 S7 S8 S9 S10 S11 tokio_parked ops).
Qed.

Theorem tokio_parked_abs ops s : parked tokio_impl ops s = parked abs_impl ops s.
Proof.
  exact (sim_parked tokio_impl abs_impl Rtw Rot S0 S1 S2 S3 S4 S5 S6 S7 S8 S9 S10 S11 tokio_parked ops s).
Qed.

Theorem tokio_woken_abs ops o : woken tokio_impl ops o = woken abs_impl ops o.
Proof.
  exact (sim_woken tokio_impl abs_impl Rtw Rot S0 S1 S2 S3 S4 S5 S6 S7 S8 S9 S10 S11 tokio_parked ops o).
Qed.
End TokioWake.
