(* C20: several handles to one State (State is Clone in both crates).
   1. Which live handle an operation goes through cannot be observed by anybody but get():
      proved on the scenario machine itself, for every channel implementation.
   2. Dropping a handle while another one lives changes nothing for anybody else: proved on the
      latest-value cell and carried over through the refinements. *)
From ZV Require Import Notified.Notified Notified.NotifiedBase Notified.NotifiedTokio
  Notified.NotifiedSmol Notified.NotifiedSpec Notified.NotifiedProofs.
Open Scope Z_scope.

Section Blind.
Variable I : impl.

Lemma trace_split a o b :
  trace I (a ++ o :: b) =
  trace I a ++ (o, next I a o) :: combine b (run_from I (fst (step I (final I a) o)) b).
Proof.
  unfold trace, run, next, final. rewrite run_from_app. cbn [run_from].
  destruct (step I (final_from I (init I) a) o) as [st1 r1] eqn:E. cbn [fst snd].
  rewrite combine_app' by (now rewrite run_from_length). reflexivity.
Qed.

(* the same state up to the values the handles hold *)
Definition hb (st st' : state I) : Prop :=
  map livef (handles st) = map livef (handles st') /\ ch st = ch st' /\ subs st = subs st' /\
  notifier st = notifier st' /\ onc st = onc st'.

Lemma live_both (hs hs' : list (option N)) h : map livef hs = map livef hs' ->
  (exists g g', nth_error hs h = Some (Some g) /\ nth_error hs' h = Some (Some g')) \/
  ((forall g, nth_error hs h <> Some (Some g)) /\ (forall g, nth_error hs' h <> Some (Some g))).
Proof.
  intros E. destruct (nth_error hs h) as [[g|]|] eqn:A.
  - left. destruct (live_some _ _ _ _ _ _ E A) as [g' B]. eauto.
  - right. split; [discriminate|]. intros g B. symmetry in E.
    destruct (live_some _ _ _ _ _ _ E B) as [x C]. congruence.
  - right. split; [discriminate|]. intros g B. symmetry in E.
    destruct (live_some _ _ _ _ _ _ E B) as [x C]. congruence.
Qed.

Lemma hb_step st st' o : hb st st' ->
  hb (fst (step I st o)) (fst (step I st' o)) /\
  (is_get o = false -> snd (step I st o) = snd (step I st' o)).
Proof.
  intros (Eh & Ec & Es & En & Eo).
  destruct st as [hs c l nf oc], st' as [hs' c' l' nf' oc']; cbn [handles ch subs notifier onc] in *.
  subst c' l' nf' oc'.
  assert (Len : length hs = length hs').
  { rewrite <- (map_length livef hs), Eh. apply map_length. }
  destruct o as [h x|h|h|s|s|h|h|x| |]; cbn [step handles ch subs notifier onc is_get];
    try (destruct (live_both hs hs' h Eh) as [(g & g' & A & B)|[A B]];
         [ rewrite A, B
         | destruct (nth_error hs h) as [[g|]|] eqn:A1; try (exfalso; eapply A; reflexivity);
           destruct (nth_error hs' h) as [[g'|]|] eqn:B1; try (exfalso; eapply B; reflexivity);
           (split; [unfold hb; cbn; auto | auto]) ]).
  - (* Set_ *) destruct (ch_set I c x) as [c1 r1]. cbn [fst snd]. split; [|auto].
    unfold hb; cbn [handles ch subs notifier onc]. rewrite !map_upd, Eh. auto.
  - (* Get *) split; [unfold hb; cbn; auto | discriminate].
  - (* Subscribe *) destruct (ch_sub I c) as [c1 r1]. cbn [fst snd]. split; [|auto].
    unfold hb; cbn [handles ch subs notifier onc]. auto.
  - (* Poll *) destruct (nth_error l s) as [[r|]|].
    + destruct (ch_poll I c r) as [[c1 r1] o1]. cbn [fst snd]. split; [unfold hb; cbn; auto | auto].
    + split; [unfold hb; cbn; auto | auto].
    + split; [unfold hb; cbn; auto | auto].
  - (* DropSub *) destruct (nth_error l s) as [[r|]|].
    + destruct (ch_droprx I c r) as [c1 o1]. cbn [fst snd]. split; [unfold hb; cbn; auto | auto].
    + split; [unfold hb; cbn; auto | auto].
    + split; [unfold hb; cbn; auto | auto].
  - (* CloneH *) cbn [fst snd]. split; [|now rewrite Len].
    unfold hb; cbn [handles ch subs notifier onc]. rewrite !map_app, Eh. auto.
  - (* DropH *) cbn [fst snd]. split; [|auto].
    unfold hb; cbn [handles ch subs notifier onc]. rewrite !map_upd, Eh. auto.
  - (* Notify *) destruct nf; [|split; [unfold hb; cbn; auto | auto]].
    destruct (on_notify I oc x) as [n1 o1]. cbn [fst snd]. split; [unfold hb; cbn; auto | auto].
  - (* DropNotifier *) destruct nf; split; try (unfold hb; cbn; auto); auto.
  - (* PollOnce *) destruct (on_poll I oc) as [n1 o1]. cbn [fst snd]. split; [unfold hb; cbn; auto | auto].
Qed.

Lemma hb_view ops : forall st st', hb st st' ->
  view (combine ops (run_from I st ops)) = view (combine ops (run_from I st' ops)).
Proof.
  induction ops as [|o ops IH]; intros st st' H; [reflexivity|].
  destruct (hb_step st st' o H) as [H' E]. cbn [run_from].
  destruct (step I st o) as [st1 r1], (step I st' o) as [st2 r2]; cbn [fst snd] in *.
  unfold view in *. cbn [combine filter fst]. destruct (is_get o) eqn:G; cbn [negb].
  - now apply IH.
  - cbn [map snd]. rewrite (E eq_refl). f_equal. now apply IH.
Qed.

Lemma view_app a b : view (a ++ b) = view a ++ view b.
Proof. unfold view. now rewrite filter_app, map_app. Qed.

Lemma view_cons_nonget o r t : is_get o = false -> view ((o, r) :: t) = r :: view t.
Proof. intros G. unfold view. cbn [filter fst]. rewrite G. reflexivity. Qed.

(* h exists after ops (get() through it answers) *)
Definition answers (ops : list op) (h : nat) : Prop := next I ops (Get h) <> OGone.

Lemma answers_live ops h : answers ops h -> exists g, nth_error (handles (final I ops)) h = Some (Some g).
Proof.
  unfold answers, next. cbn [step]. destruct (nth_error (handles (final I ops)) h) as [[g|]|]; eauto;
    intros X; exfalso; apply X; reflexivity.
Qed.

(* set through either of two live handles: the same for everybody (get() aside) *)
Theorem set_any_handle ops h h' v rest : answers ops h -> answers ops h' ->
  view (trace I (ops ++ Set_ h v :: rest)) = view (trace I (ops ++ Set_ h' v :: rest)).
Proof.
  intros A B. destruct (answers_live _ _ A) as [g Eg], (answers_live _ _ B) as [g' Eg'].
  rewrite !trace_split, !view_app. f_equal.
  unfold next. cbn [step]. rewrite Eg, Eg'.
  destruct (ch_set I (ch (final I ops)) v) as [c1 r1] eqn:Ec. cbn [fst snd].
  rewrite !view_cons_nonget by reflexivity. f_equal.
  apply hb_view. unfold hb; cbn [handles ch subs notifier onc]. rewrite !map_upd.
  repeat split; auto. cbn [livef].
  rewrite (upd_id _ (map livef (handles (final I ops))) h true)
    by (rewrite nth_map_livef, Eg; reflexivity).
  rewrite (upd_id _ (map livef (handles (final I ops))) h' true)
    by (rewrite nth_map_livef, Eg'; reflexivity).
  reflexivity.
Qed.

(* stream() through either of two live handles: the same in every respect *)
Theorem subscribe_any_handle ops h h' rest : answers ops h -> answers ops h' ->
  run I (ops ++ Subscribe h :: rest) = run I (ops ++ Subscribe h' :: rest).
Proof.
  intros A B. destruct (answers_live _ _ A) as [g Eg], (answers_live _ _ B) as [g' Eg'].
  unfold run. rewrite !run_from_app. f_equal. cbn [run_from step].
  fold (final I ops). rewrite Eg, Eg'. reflexivity.
Qed.
End Blind.

(* ---------------------------------------------------------------- dropping a non-last handle *)
(* the cell after ops ++ [DropH h] (left) against the cell after ops (right): the same, except
   that handle h is gone on the left and the handle count is one less — and still positive *)
Definition dn (h : nat) (st1 st0 : state absZ_impl) : Prop :=
  length (handles st1) = length (handles st0) /\
  (forall k, k <> h -> nth_error (handles st1) k = nth_error (handles st0) k) /\
  a_n (ch st1) = a_n (ch st0) /\ a_last (ch st1) = a_last (ch st0) /\ a_rx (ch st1) = a_rx (ch st0) /\
  a_epoch (ch st1) = a_epoch (ch st0) /\
  a_tx (ch st0) = S (a_tx (ch st1)) /\ (1 <= a_tx (ch st1))%nat /\
  subs st1 = subs st0 /\ notifier st1 = notifier st0 /\ onc st1 = onc st0.

Lemma dn_step h st1 st0 o : dn h st1 st0 -> spares h o ->
  dn h (fst (step absZ_impl st1 o)) (fst (step absZ_impl st0 o)) /\
  snd (step absZ_impl st1 o) = snd (step absZ_impl st0 o).
Proof.
  intros (Len & Hk & En & El & Er & Ee & Et & Ep & Es & Enf & Eo) [Sp1 Sp2].
  destruct st1 as [hs1 c1 l1 nf1 oc1], st0 as [hs0 c0 l0 nf0 oc0];
    cbn [handles ch subs notifier onc] in *. subst l1 nf1 oc1.
  assert (Open : a_open c1 = a_open c0).
  { unfold a_open. rewrite Et. destruct (a_tx c1); [lia|reflexivity]. }
  assert (Same : forall out : out, dn h (St hs1 c1 l0 nf0 oc0) (St hs0 c0 l0 nf0 oc0) /\ out = out).
  { intros out. split; [|reflexivity]. unfold dn; cbn [handles ch subs notifier onc]. repeat split; auto. }
  destruct o as [k x|k|k|s|s|k|k|x| |]; cbn [step handles ch subs notifier onc absZ_impl
      ch_set ch_sub ch_poll ch_droprx ch_clone ch_droptx on_notify on_drop on_poll];
    try (assert (Nk : k <> h) by (intros ->; apply Sp1; reflexivity); rewrite (Hk k Nk)).
  - (* Set_ *) destruct (nth_error hs0 k) as [[g|]|] eqn:A; [|apply Same|apply Same].
    unfold a_set. rewrite Er. cbn [fst snd]. split; [|reflexivity].
    unfold dn; cbn [handles ch subs notifier onc]. rewrite !length_upd.
    split; [auto|]. split.
    { intros j Nj. destruct (Nat.eq_dec j k) as [->|Njk].
      - rewrite (nth_error_upd_same _ _ _ _ _ A).
        assert (A1 : nth_error hs1 k = Some (Some g)) by (now rewrite (Hk k Nk)).
        now rewrite (nth_error_upd_same _ _ _ _ _ A1).
      - rewrite !nth_error_upd_other by auto. auto. }
    destruct (Nat.eqb (a_rx c0) 0); cbn [a_n a_last a_rx a_tx a_epoch]; repeat split; auto; lia.
  - (* Get *) destruct (nth_error hs0 k) as [[g|]|]; apply Same.
  - (* Subscribe *) destruct (nth_error hs0 k) as [[g|]|]; [|apply Same|apply Same].
    unfold a_sub. cbn [fst snd]. rewrite En. split; [|reflexivity].
    unfold dn; cbn [handles ch subs notifier onc a_n a_last a_rx a_tx a_epoch]. rewrite Er. repeat split; auto.
  - (* Poll *) destruct (nth_error l0 s) as [[r|]|]; [|apply Same|apply Same].
    unfold a_poll. rewrite En, El, Open. destruct (r <? a_n c0); cbn [fst snd];
      (split; [unfold dn; cbn [handles ch subs notifier onc]; repeat split; auto | reflexivity]).
  - (* DropSub *) destruct (nth_error l0 s) as [[r|]|]; [|apply Same|apply Same].
    unfold a_droprx. cbn [fst snd]. split; [|reflexivity].
    unfold dn; cbn [handles ch subs notifier onc a_n a_last a_rx a_tx a_epoch]. rewrite Er. repeat split; auto.
  - (* CloneH *) destruct (nth_error hs0 k) as [[g|]|] eqn:A; [|apply Same|apply Same].
    cbn [fst snd]. rewrite Len. split; [|reflexivity].
    unfold dn, a_clone; cbn [handles ch subs notifier onc a_n a_last a_rx a_tx a_epoch]. rewrite !app_length, Len.
    split; [auto|]. split.
    { intros j Nj. destruct (Nat.lt_ge_cases j (length hs0)) as [Lt|Ge].
      - rewrite !nth_error_app1 by lia. auto.
      - rewrite !nth_error_app2 by lia. now rewrite Len. }
    repeat split; auto; lia.
  - (* DropH *) destruct Sp2.
  - (* Notify *) destruct nf0; [|apply Same].
    destruct (ao_notify oc0 x) as [n1 o1]. cbn [fst snd]. split; [|reflexivity].
    unfold dn; cbn [handles ch subs notifier onc]. repeat split; auto.
  - (* DropNotifier *) destruct nf0; [|apply Same]. cbn [fst snd]. split; [|reflexivity].
    unfold dn; cbn [handles ch subs notifier onc]. repeat split; auto.
  - (* PollOnce *) destruct (ao_poll oc0) as [n1 o1]. cbn [fst snd]. split; [|reflexivity].
    unfold dn; cbn [handles ch subs notifier onc]. repeat split; auto.
Qed.

Lemma dn_run h rest : forall st1 st0, dn h st1 st0 -> (forall o, In o rest -> spares h o) ->
  run_from absZ_impl st1 rest = run_from absZ_impl st0 rest.
Proof.
  induction rest as [|o rest IH]; intros st1 st0 D Sp; [reflexivity|].
  destruct (dn_step h st1 st0 o D (Sp o (or_introl eq_refl))) as [D' E]. cbn [run_from].
  destruct (step absZ_impl st1 o) as [a r1], (step absZ_impl st0 o) as [b r2]; cbn [fst snd] in *.
  subst r2. f_equal. apply IH; auto. intros x Hx. apply Sp. now right.
Qed.

Lemma nlive_two A (l : list (option A)) i j x y : i <> j ->
  nth_error l i = Some (Some x) -> nth_error l j = Some (Some y) -> (2 <= nlive l)%nat.
Proof.
  revert i j; induction l as [|z l IH]; intros [|i] [|j] N Hi Hj; cbn in *; try discriminate; try lia.
  - injection Hi as ->. pose proof (nlive_pos _ _ _ Hj). lia.
  - injection Hj as ->. pose proof (nlive_pos _ _ _ Hi). lia.
  - assert (i <> j) by lia. specialize (IH _ _ H Hi Hj). destruct z; lia.
Qed.

Lemma cell_drop_nonlast ops h h' rest : h <> h' ->
  handle_live h (trace absZ_impl ops) = true -> handle_live h' (trace absZ_impl ops) = true ->
  (forall o, In o rest -> spares h o) ->
  exists outs, run absZ_impl (ops ++ rest) = run absZ_impl ops ++ outs /\
               run absZ_impl (ops ++ DropH h :: rest) = run absZ_impl ops ++ ODone :: outs.
Proof.
  intros N L L' Sp. destruct (Inv_trace ops) as (_ & HH & HT & _).
  apply (InvH_live _ _ h HH) in L as [g Eg]. apply (InvH_live _ _ h' HH) in L' as [g' Eg'].
  pose proof (nlive_two _ _ _ _ _ _ N Eg Eg') as Two.
  exists (run_from absZ_impl (final absZ_impl ops) rest). unfold run. rewrite !run_from_app. split; [reflexivity|].
  f_equal. cbn [run_from step absZ_impl ch_droptx]. fold (final absZ_impl ops). rewrite Eg. f_equal.
  apply (dn_run h); auto.
  set (st := final absZ_impl ops) in *. destruct st as [hs c l nf oc]; cbn [handles ch] in *.
  unfold dn, a_droptx; cbn [handles ch subs notifier onc a_n a_last a_rx a_tx a_epoch]. rewrite length_upd.
  repeat split; auto; try lia.
  - intros k Nk. apply nth_error_upd_other. auto.
  - destruct (Nat.eqb_spec (a_tx c) 1); [lia|reflexivity].
Qed.

Theorem drop_nonlast I : I = tokio_impl \/ I = smol_impl ->
  forall (ops : list op) (h h' : nat) (rest : list op), h <> h' ->
  handle_live h (trace I ops) = true -> handle_live h' (trace I ops) = true ->
  (forall o, In o rest -> spares h o) ->
  exists outs, run I (ops ++ rest) = run I ops ++ outs /\
               run I (ops ++ DropH h :: rest) = run I ops ++ ODone :: outs.
Proof.
  intros HI ops h h' rest. pose proof (modelled I HI) as R.
  rewrite (trace_eq I absZ_impl R), !R. apply cell_drop_nonlast.
Qed.

Theorem any_handle (I : impl) (ops : list op) (h h' : nat) (v : N) (rest : list op) :
  next I ops (Get h) <> OGone -> next I ops (Get h') <> OGone ->
  view (trace I (ops ++ Set_ h v :: rest)) = view (trace I (ops ++ Set_ h' v :: rest)) /\
  run I (ops ++ Subscribe h :: rest) = run I (ops ++ Subscribe h' :: rest).
Proof. intros A B. split; [now apply set_any_handle | now apply subscribe_any_handle]. Qed.
