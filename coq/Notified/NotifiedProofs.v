(* Proofs about the notified-state models (C20). *)
From ZV Require Import Notified.Notified.
