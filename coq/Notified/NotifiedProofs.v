(* C20: the statements pinned in props/C20.v.  The property is proved on the latest-value cell
   (absZ_impl) from the history invariant of NotifiedSpec.v and carried over to the tokio and smol
   models through the refinements of NotifiedTokio.v / NotifiedSmol.v. *)
From ZV Require Import Notified.Notified Notified.NotifiedBase Notified.NotifiedTokio
  Notified.NotifiedSmol Notified.NotifiedSpec Notified.NotifiedWake.
Open Scope Z_scope.
Set Warnings "-unused-intro-pattern".


(* ---------------------------------------------------------------- both models = the cell *)
Theorem same_outputs ops : run tokio_impl ops = run smol_impl ops.
Proof. now rewrite tokio_refines_abs, smol_refines_abs. Qed.

Definition refines_cell (I : impl) : Prop := forall ops, run I ops = run absZ_impl ops.

Lemma modelled I : I = tokio_impl \/ I = smol_impl -> refines_cell I.
Proof.
  intros [-> | ->] ops; [rewrite tokio_refines_abs | rewrite smol_refines_abs]; apply abs_refines_absZ.
Qed.

Theorem next_is_run I ops o :
  run I (ops ++ [o]) = run I ops ++ [next I ops o] /\
  trace I (ops ++ [o]) = trace I ops ++ [(o, next I ops o)].
Proof. split; [apply run_snoc | apply trace_snoc]. Qed.

(* every event of a history is `next` of the operations before it *)
Theorem event_is_next I ops o r : In (o, r) (trace I ops) ->
  exists ops1 ops2, ops = ops1 ++ o :: ops2 /\ r = next I ops1 o.
Proof.
  induction ops as [|x ops IH] using rev_ind; [intros []|].
  rewrite trace_snoc. intros H. apply in_app_or in H as [H|[H|[]]].
  - destruct (IH H) as (a & b & -> & E). exists a, (b ++ [x]). split; auto.
    now rewrite <- app_assoc.
  - injection H as <- <-. exists ops, []. auto.
Qed.

(* ---------------------------------------------------------------- the cell has the property *)
Lemma subscribed_In s tr : (exists h, In (Subscribe h, OSub s) tr) -> subscribed s tr = true.
Proof.
  intros [h H]. unfold subscribed. apply existsb_exists. eexists; split; eauto. cbn. apply Nat.eqb_refl.
Qed.

Lemma nlive_exists A (l : list (option A)) : nlive l <> 0%nat -> exists s x, nth_error l s = Some (Some x).
Proof.
  induction l as [|[x|] l IH]; cbn; intros H; [lia| |].
  - exists 0%nat, x. reflexivity.
  - destruct (IH H) as (s & x & E). exists (S s), x. exact E.
Qed.

Section Cell.
Variable ops : list op.
Variable s : nat.
Let tr := trace absZ_impl ops.
Let st := final absZ_impl ops.

Lemma cell_inv : Inv tr st.
Proof. apply Inv_trace. Qed.

Lemma cell_sublist : sublist (received s tr) (sets_after s tr).
Proof.
  destruct cell_inv as [(Hrx & Hsub & Hrec & Hdead & Hlive) _].
  destruct (nth_error (subs st) s) as [[k|]|] eqn:E.
  - eapply sub_ok_sublist. eapply Hlive; eauto.
  - now apply Hdead.
  - rewrite Hrec; [apply sublist_nil_l|]. now apply nth_error_None.
Qed.

Lemma cell_poll_cases :
  match nth_error (subs st) s with
  | Some (Some k) =>
      if (k <? a_n (ch st)) then next absZ_impl ops (Poll s) = OItem (a_last (ch st)) CTrue
      else next absZ_impl ops (Poll s) = (if a_open (ch st) then OPending else OEnd)
  | _ => next absZ_impl ops (Poll s) = OGone
  end.
Proof.
  unfold next. fold st. cbn [step absZ_impl ch_poll].
  destruct (nth_error (subs st) s) as [[k|]|]; auto.
  unfold a_poll. destruct (k <? a_n (ch st)); reflexivity.
Qed.

Lemma cell_continues v c : next absZ_impl ops (Poll s) = OItem v c -> c = CTrue.
Proof.
  pose proof cell_poll_cases as H.
  destruct (nth_error (subs st) s) as [[k|]|]; try (rewrite H; discriminate).
  destruct (k <? a_n (ch st)); rewrite H; [congruence|]. destruct (a_open (ch st)); discriminate.
Qed.

(* the cell is open exactly while some handle exists *)
Lemma cell_open_live : a_open (ch st) = true -> exists h, handle_live h tr = true.
Proof.
  destruct cell_inv as (_ & HH & HT & _). fold st in HH, HT.
  unfold a_open. rewrite HT. intros H.
  destruct (nlive_exists _ (handles st)) as (h & g & E).
  { destruct (nlive (handles st)); [discriminate|lia]. }
  exists h. apply (InvH_live _ _ h HH). eauto.
Qed.

Lemma cell_closed_dead : a_open (ch st) = false -> forall h, handle_live h tr = false.
Proof.
  destruct cell_inv as (_ & HH & HT & _). fold st in HH, HT.
  unfold a_open. rewrite HT. intros H h.
  destruct (handle_live h tr) eqn:E; auto.
  apply (InvH_live _ _ h HH) in E as [g E]. pose proof (nlive_pos _ _ _ E).
  destruct (nlive (handles st)); [lia|discriminate].
Qed.

Lemma cell_end : next absZ_impl ops (Poll s) = OEnd -> forall h, handle_live h tr = false.
Proof.
  pose proof cell_poll_cases as H.
  destruct (nth_error (subs st) s) as [[k|]|]; try (rewrite H; discriminate).
  destruct (k <? a_n (ch st)); rewrite H; [discriminate|].
  destruct (a_open (ch st)) eqn:Eo; [discriminate|]. intros _. now apply cell_closed_dead.
Qed.

Lemma cell_pending : next absZ_impl ops (Poll s) = OPending -> exists h, handle_live h tr = true.
Proof.
  pose proof cell_poll_cases as H.
  destruct (nth_error (subs st) s) as [[k|]|]; try (rewrite H; discriminate).
  destruct (k <? a_n (ch st)); rewrite H; [discriminate|].
  destruct (a_open (ch st)) eqn:Eo; [|discriminate]. intros _. now apply cell_open_live.
Qed.

Lemma cell_latest :
  next absZ_impl ops (Poll s) = OPending \/ next absZ_impl ops (Poll s) = OEnd ->
  last_opt (received s tr) = last_opt (sets_after s tr).
Proof.
  pose proof cell_poll_cases as H.
  destruct cell_inv as [(_ & _ & _ & _ & Hlive) _]. fold st in Hlive.
  destruct (nth_error (subs st) s) as [[k|]|] eqn:E; try (rewrite H; intros [X|X]; discriminate).
  destruct (Z.ltb_spec k (a_n (ch st))) as [L|L]; rewrite H; [intros [X|X]; discriminate|].
  intros _. destruct (Hlive _ _ E) as (Le & Hup & _). apply Hup. lia.
Qed.

Lemma cell_gone :
  next absZ_impl ops (Poll s) = OGone ->
  ~ (exists h, In (Subscribe h, OSub s) tr) \/ In (DropSub s, ODone) tr.
Proof.
  pose proof cell_poll_cases as H.
  destruct cell_inv as [(_ & Hsub & _ & Hdead & _) _]. fold st in Hsub, Hdead.
  destruct (nth_error (subs st) s) as [[k|]|] eqn:E.
  - destruct (k <? a_n (ch st)); rewrite H; [discriminate|]. destruct (a_open (ch st)); discriminate.
  - intros _. right. now apply Hdead.
  - intros _. left. intros Hin. apply subscribed_In, Hsub in Hin.
    apply nth_error_None in E. exact (Nat.lt_irrefl _ (Nat.lt_le_trans _ _ _ Hin E)).
Qed.

Lemma cell_settled :
  match next absZ_impl (ops ++ [Poll s]) (Poll s) with OItem _ _ => False | _ => True end.
Proof.
  unfold next. rewrite final_snoc. fold st. cbn [step absZ_impl ch_poll].
  destruct (nth_error (subs st) s) as [[k|]|] eqn:E; cbn [fst snd subs].
  - unfold a_poll at 1 2 3. destruct (Z.ltb_spec k (a_n (ch st))) as [L|L]; cbn [fst snd subs ch].
    + rewrite (nth_error_upd_same _ _ _ _ _ E). unfold a_poll. rewrite Z.ltb_irrefl. cbn.
      destruct (a_open (ch st)); exact I.
    + rewrite (nth_error_upd_same _ _ _ _ _ E). unfold a_poll.
      assert (F : (k <? a_n (ch st)) = false) by (apply Z.ltb_ge; lia). rewrite F. cbn.
      destruct (a_open (ch st)); exact I.
  - rewrite E. exact I.
  - rewrite E. exact I.
Qed.

Lemma cell_no_panic o : next absZ_impl ops o <> OPanic /\ next absZ_impl ops o <> OFuel.
Proof.
  destruct cell_inv as (_ & _ & _ & HN). fold st in HN.
  unfold next. fold st. destruct st as [hs c l nf oc]; cbn [notifier onc] in HN.
  destruct o as [h x|h|h|t|t|h|h|x| |]; cbn [step absZ_impl handles ch subs notifier onc
     ch_set ch_sub ch_poll ch_droprx ch_clone ch_droptx on_notify on_drop on_poll].
  - destruct (nth_error hs h) as [[g|]|]; cbn; split; discriminate.
  - destruct (nth_error hs h) as [[g|]|]; cbn; split; discriminate.
  - destruct (nth_error hs h) as [[g|]|]; cbn; split; discriminate.
  - destruct (nth_error l t) as [[k|]|]; try (cbn; split; discriminate).
    unfold a_poll. destruct (k <? a_n c); cbn; [split; discriminate|].
    destruct (a_open c); split; discriminate.
  - destruct (nth_error l t) as [[k|]|]; cbn; split; discriminate.
  - destruct (nth_error hs h) as [[g|]|]; cbn; split; discriminate.
  - destruct (nth_error hs h) as [[g|]|]; cbn; split; discriminate.
  - destruct nf; [|cbn; split; discriminate]. rewrite (HN eq_refl). cbn. split; discriminate.
  - destruct nf; cbn; split; discriminate.
  - destruct oc; cbn; split; discriminate.
Qed.

(* operations through a handle: gone exactly when the handle does not exist; set stores and
   returns the value; get returns this handle's own copy *)
Lemma handle_op_gone (t : state absZ_impl) o h : handle_of o = Some h ->
  (snd (step absZ_impl t o) = OGone <-> forall g, nth_error (handles t) h <> Some (Some g)).
Proof.
  intros Ho. destruct o; cbn in Ho; try discriminate; injection Ho as ->;
    cbn [step absZ_impl ch_set ch_sub ch_clone ch_droptx a_set a_sub];
    destruct (nth_error (handles t) h) as [[g|]|]; cbn [snd]; split; intros X; try discriminate;
    try reflexivity; try (intros g' Y; discriminate); exfalso; eapply X; reflexivity.
Qed.

Lemma cell_handle h :
  (forall o, handle_of o = Some h ->
             (next absZ_impl ops o = OGone <-> handle_live h tr = false)) /\
  (handle_live h tr = true ->
   (forall v, next absZ_impl ops (Set_ h v) = OSet v) /\
   (exists g, nth_error (hvals tr) h = Some g /\ next absZ_impl ops (Get h) = OGet g)).
Proof.
  destruct cell_inv as (_ & HH & _ & _). fold st in HH.
  pose proof (InvH_live _ _ h HH) as HL. destruct HH as (_ & _ & _ & Hv).
  unfold next. fold st. split.
  - intros o Ho. rewrite (handle_op_gone st o h Ho). split.
    + intros X. destruct (handle_live h tr) eqn:Y; auto. destruct (proj1 HL eq_refl) as [g Yg].
      exfalso. eapply X; eauto.
    + intros X g Y. assert (handle_live h tr = true) by (apply HL; eauto). congruence.
  - intros L. apply HL in L as [g E]. split.
    + intros v. cbn [step absZ_impl ch_set]. rewrite E. reflexivity.
    + exists g. split; [now apply Hv|]. cbn [step]. rewrite E. reflexivity.
Qed.
End Cell.

(* polls do not touch the handles *)
Lemma handle_live_poll h tr s o : handle_live h (tr ++ [(Poll s, o)]) = handle_live h tr.
Proof.
  rewrite !handle_live_eq, created_snoc, hdropped_snoc. cbn. now rewrite !orb_false_r.
Qed.

(* polling until nothing is left takes at most two polls and ends with the last value set *)
Lemma cell_converges ops s :
  (exists h, In (Subscribe h, OSub s) (trace absZ_impl ops)) ->
  ~ In (DropSub s, ODone) (trace absZ_impl ops) ->
  exists o1 o2,
    run absZ_impl (ops ++ [Poll s; Poll s]) = run absZ_impl ops ++ [o1; o2] /\
    ((o2 = OPending /\ exists h, handle_live h (trace absZ_impl ops) = true) \/
     (o2 = OEnd /\ forall h, handle_live h (trace absZ_impl ops) = false)) /\
    last_opt (received s (trace absZ_impl (ops ++ [Poll s; Poll s]))) =
    last_opt (sets_after s (trace absZ_impl ops)).
Proof.
  intros Hsub Hnd.
  set (ops1 := ops ++ [Poll s]).
  set (o1 := next absZ_impl ops (Poll s)). set (o2 := next absZ_impl ops1 (Poll s)).
  assert (Eops : ops ++ [Poll s; Poll s] = ops1 ++ [Poll s]).
  { unfold ops1. now rewrite <- app_assoc. }
  assert (T1 : trace absZ_impl ops1 = trace absZ_impl ops ++ [(Poll s, o1)]) by apply trace_snoc.
  assert (T2 : trace absZ_impl (ops ++ [Poll s; Poll s]) = trace absZ_impl ops1 ++ [(Poll s, o2)]).
  { rewrite Eops. apply trace_snoc. }
  exists o1, o2. split.
  { rewrite Eops, run_snoc. unfold ops1. rewrite run_snoc, <- app_assoc. reflexivity. }
  assert (In1 : forall e, In e (trace absZ_impl ops1) -> In e (trace absZ_impl ops) \/ e = (Poll s, o1)).
  { intros e H. rewrite T1 in H. apply in_app_or in H as [H|[H|[]]]; auto. }
  assert (C : o2 = OPending \/ o2 = OEnd).
  { pose proof (cell_poll_cases ops1 s) as P. pose proof (cell_settled ops s) as S.
    pose proof (cell_gone ops1 s) as G. fold ops1 in S. fold o2 in P, S, G.
    destruct (nth_error (subs (final absZ_impl ops1)) s) as [[k|]|].
    - destruct (k <? a_n (ch (final absZ_impl ops1))).
      + rewrite P in S. destruct S.
      + rewrite P. destruct (a_open (ch (final absZ_impl ops1))); auto.
    - exfalso. destruct (G P) as [X|X].
      + apply X. destruct Hsub as [h Hs]. exists h. rewrite T1. apply in_or_app. now left.
      + apply In1 in X as [X|X]; [auto|discriminate].
    - exfalso. destruct (G P) as [X|X].
      + apply X. destruct Hsub as [h Hs]. exists h. rewrite T1. apply in_or_app. now left.
      + apply In1 in X as [X|X]; [auto|discriminate]. }
  split.
  { destruct C as [C|C]; [left|right]; split; auto.
    - destruct (cell_pending ops1 s C) as [h Hh]. exists h. now rewrite T1, handle_live_poll in Hh.
    - intros h. pose proof (cell_end ops1 s C h) as Hh. now rewrite T1, handle_live_poll in Hh. }
  pose proof (cell_latest ops1 s) as L. fold o2 in L.
  rewrite T2, received_app.
  assert (R0 : received s [(Poll s, o2)] = []) by (destruct C as [-> | ->]; reflexivity).
  rewrite R0, app_nil_r, (L C), T1, sets_after_app, (subscribed_In _ _ Hsub).
  assert (S0 : sets [(Poll s, o1)] = []) by (destruct o1; reflexivity).
  now rewrite S0, app_nil_r.
Qed.

(* ---------------------------------------------------------------- one-shot on the cell *)
Lemma frame_once (st : state absZ_impl) o :
  match o with Notify _ | DropNotifier | PollOnce => True
  | _ => notifier (fst (step absZ_impl st o)) = notifier st /\ onc (fst (step absZ_impl st o)) = onc st
  end.
Proof.
  destruct st as [hs c l nf oc].
  destruct o as [h x|h|h|t|t|h|h|x| |]; cbn [step absZ_impl handles ch subs notifier onc
     ch_set ch_sub ch_poll ch_droprx ch_clone ch_droptx]; auto.
  - destruct (nth_error hs h) as [[g|]|]; cbn; auto.
  - destruct (nth_error hs h) as [[g|]|]; cbn; auto.
  - destruct (nth_error hs h) as [[g|]|]; cbn; auto.
  - destruct (nth_error l t) as [[k|]|]; cbn; auto. destruct (a_poll c k) as [[? ?] ?]. cbn. auto.
  - destruct (nth_error l t) as [[k|]|]; cbn; auto.
  - destruct (nth_error hs h) as [[g|]|]; cbn; auto.
  - destruct (nth_error hs h) as [[g|]|]; cbn; auto.
Qed.

Definition otrace (st : state absZ_impl) (ops : list op) : list out :=
  once_outs (combine ops (run_from absZ_impl st ops)).

Lemma otrace_cons st o ops :
  otrace st (o :: ops) =
  (if is_pollonce o then [snd (step absZ_impl st o)] else []) ++ otrace (fst (step absZ_impl st o)) ops.
Proof.
  unfold otrace. cbn [run_from]. destruct (step absZ_impl st o) as [st1 r1]. cbn [combine once_outs fst snd].
  destruct o; reflexivity.
Qed.

Lemma npolls_cons o ops : npolls (o :: ops) = ((if is_pollonce o then 1 else 0) + npolls ops)%nat.
Proof. unfold npolls. cbn [filter]. destruct (is_pollonce o); reflexivity. Qed.

Lemma once_over ops : forall st : state absZ_impl, notifier st = false -> onc st = ADead \/ onc st = AFinished ->
  otrace st ops = repeat OEnd (npolls ops).
Proof.
  induction ops as [|o ops IH]; intros st Hn Ho; [reflexivity|].
  rewrite otrace_cons, npolls_cons.
  pose proof (frame_once st o) as F.
  destruct st as [hs c l nf oc]; cbn [notifier onc] in *. subst nf.
  destruct o; try (destruct F as [F1 F2]; cbn [is_pollonce app Nat.add]; apply IH; [rewrite F1|rewrite F2]; auto).
  - cbn. apply IH; auto.
  - cbn. apply IH; auto.
  - cbn [is_pollonce step absZ_impl on_poll notifier onc].
    destruct Ho as [-> | ->]; cbn; f_equal; apply IH; cbn; auto.
Qed.

Lemma once_armed ops : forall (st : state absZ_impl) v, notifier st = false -> onc st = AArmed v ->
  otrace st ops = match npolls ops with O => [] | S k => OItem v CFalse :: repeat OEnd k end.
Proof.
  induction ops as [|o ops IH]; intros st v Hn Ho; [reflexivity|].
  rewrite otrace_cons, npolls_cons.
  pose proof (frame_once st o) as F.
  destruct st as [hs c l nf oc]; cbn [notifier onc] in *. subst nf oc.
  destruct o; try (destruct F as [F1 F2]; cbn [is_pollonce app Nat.add]; apply IH; [rewrite F1|rewrite F2]; auto).
  - cbn. apply IH; auto.
  - cbn. apply IH; auto.
  - cbn [is_pollonce step absZ_impl on_poll notifier onc ao_poll fst snd app Nat.add].
    f_equal. apply once_over; cbn; auto.
Qed.

Lemma once_idle ops : forall st : state absZ_impl, notifier st = true -> onc st = AIdle ->
  otrace st ops = once_expect ops.
Proof.
  induction ops as [|o ops IH]; intros st Hn Ho; [reflexivity|].
  rewrite otrace_cons.
  pose proof (frame_once st o) as F.
  destruct st as [hs c l nf oc]; cbn [notifier onc] in *. subst nf oc.
  destruct o; try (destruct F as [F1 F2]; cbn [is_pollonce app once_expect]; apply IH; [rewrite F1|rewrite F2]; auto).
  - cbn [is_pollonce app once_expect step absZ_impl on_notify notifier onc ao_notify fst snd].
    apply once_armed; cbn; auto.
  - cbn [is_pollonce app once_expect step absZ_impl on_drop notifier onc ao_drop fst snd].
    apply once_over; cbn; auto.
  - cbn [is_pollonce step absZ_impl on_poll notifier onc ao_poll fst snd app once_expect].
    f_equal. apply IH; cbn; auto.
Qed.

Lemma cell_once ops : once_outs (trace absZ_impl ops) = once_expect ops.
Proof. apply (once_idle ops (init absZ_impl)); reflexivity. Qed.

(* the closed form, split at the first use of the notifier *)
Lemma expect_unresolved pre : unresolved pre -> once_expect pre = repeat OPending (npolls pre).
Proof.
  induction pre as [|o pre IH]; intros U; [reflexivity|].
  assert (U' : unresolved pre) by (intros x Hx; apply U; now right).
  pose proof (U o (or_introl eq_refl)) as Uo.
  rewrite npolls_cons. destruct o; cbn [once_expect is_pollonce Nat.add]; try (now apply IH); try tauto.
  cbn. f_equal. now apply IH.
Qed.

Lemma expect_split pre rest : unresolved pre ->
  once_expect (pre ++ rest) = repeat OPending (npolls pre) ++ once_expect rest.
Proof.
  induction pre as [|o pre IH]; intros U; [reflexivity|].
  assert (U' : unresolved pre) by (intros x Hx; apply U; now right).
  pose proof (U o (or_introl eq_refl)) as Uo.
  rewrite npolls_cons. destruct o; cbn [app once_expect is_pollonce Nat.add]; try (now apply IH); try tauto.
  cbn. f_equal. now apply IH.
Qed.

(* ---------------------------------------------------------------- carried over to the models *)
Section Models.
Variable I : impl.
Hypothesis HI : refines_cell I.

Lemma m_trace ops : trace I ops = trace absZ_impl ops.
Proof. now apply trace_eq. Qed.
Lemma m_next ops o : next I ops o = next absZ_impl ops o.
Proof. now apply next_eq. Qed.

Theorem subsequence_latest ops s :
  let tr := trace I ops in
  sublist (received s tr) (sets_after s tr) /\
  (forall v c, next I ops (Poll s) = OItem v c -> c = CTrue) /\
  (next I ops (Poll s) = OEnd -> forall h, handle_live h tr = false) /\
  (next I ops (Poll s) = OPending -> exists h, handle_live h tr = true) /\
  (next I ops (Poll s) = OPending \/ next I ops (Poll s) = OEnd ->
   last_opt (received s tr) = last_opt (sets_after s tr)) /\
  match next I (ops ++ [Poll s]) (Poll s) with OItem _ _ => False | _ => True end /\
  (next I ops (Poll s) = OGone ->
   ~ (exists h, In (Subscribe h, OSub s) tr) \/ In (DropSub s, ODone) tr) /\
  (forall o, next I ops o <> OPanic /\ next I ops o <> OFuel).
Proof.
  cbv zeta. rewrite m_trace, !m_next.
  split; [apply cell_sublist|]. split; [apply cell_continues|]. split; [apply cell_end|].
  split; [apply cell_pending|]. split; [apply cell_latest|]. split; [apply cell_settled|].
  split; [apply cell_gone|]. intros o. rewrite m_next. apply cell_no_panic.
Qed.

Theorem handles_any ops h :
  let tr := trace I ops in
  (forall o, handle_of o = Some h -> (next I ops o = OGone <-> handle_live h tr = false)) /\
  (handle_live h tr = true ->
   (forall v, next I ops (Set_ h v) = OSet v) /\
   (exists g, nth_error (hvals tr) h = Some g /\ next I ops (Get h) = OGet g)).
Proof.
  cbv zeta. rewrite m_trace. destruct (cell_handle ops h) as [A B]. split.
  - intros o Ho. rewrite m_next. now apply A.
  - intros L. destruct (B L) as [B1 (g & B2 & B3)]. split.
    + intros v. rewrite m_next. apply B1.
    + exists g. rewrite m_next. auto.
Qed.

Theorem converges ops s :
  (exists h, In (Subscribe h, OSub s) (trace I ops)) -> ~ In (DropSub s, ODone) (trace I ops) ->
  exists o1 o2,
    run I (ops ++ [Poll s; Poll s]) = run I ops ++ [o1; o2] /\
    ((o2 = OPending /\ exists h, handle_live h (trace I ops) = true) \/
     (o2 = OEnd /\ forall h, handle_live h (trace I ops) = false)) /\
    last_opt (received s (trace I (ops ++ [Poll s; Poll s]))) =
    last_opt (sets_after s (trace I ops)).
Proof. rewrite !m_trace, !HI. apply cell_converges. Qed.

Theorem once_exact pre post v : unresolved pre ->
  once_outs (trace I pre) = repeat OPending (npolls pre) /\
  once_outs (trace I (pre ++ Notify v :: post)) =
    repeat OPending (npolls pre) ++
    match npolls post with O => [] | S k => OItem v CFalse :: repeat OEnd k end /\
  once_outs (trace I (pre ++ DropNotifier :: post)) =
    repeat OPending (npolls pre) ++ repeat OEnd (npolls post).
Proof.
  intros U. rewrite !m_trace, !cell_once.
  split; [now apply expect_unresolved|]. split; now rewrite expect_split.
Qed.
End Models.

(* ---------------------------------------------------------------- the pinned forms *)
Theorem latest_value_cell ops :
  run tokio_impl ops = run abs_impl ops /\ run smol_impl ops = run abs_impl ops /\
  run abs_impl ops = run absZ_impl ops.
Proof. split; [apply tokio_refines_abs | split; [apply smol_refines_abs | apply abs_refines_absZ]]. Qed.

(* ---------------------------------------------------------------- wake-ups *)
Lemma model_wake_facts I : I = tokio_impl \/ I = smol_impl ->
  (forall ops, run I ops = run abs_impl ops) /\
  (forall ops s, parked I ops s = parked abs_impl ops s) /\
  (forall ops o, woken I ops o = woken abs_impl ops o).
Proof.
  intros [-> | ->].
  - split; [exact tokio_refines_abs|]. split; [exact tokio_parked_abs | exact tokio_woken_abs].
  - split; [exact smol_refines_abs|]. split; [exact smol_parked_abs | exact smol_woken_abs].
Qed.

Theorem wakeup_models I : I = tokio_impl \/ I = smol_impl ->
  (forall ops s, next I ops (Poll s) = OPending -> parked I (ops ++ [Poll s]) s = true) /\
  (forall ops s, parked I ops s = true -> next I ops (Poll s) = OPending) /\
  (forall ops s o, parked I ops s = true ->
     parked I (ops ++ [o]) s = true \/ In s (woken I ops o) \/ o = DropSub s) /\
  (forall ops s rest,
     next I ops (Poll s) = OPending ->
     (forall o, In o rest -> o <> Poll s /\ o <> DropSub s) ->
     next I (ops ++ Poll s :: rest) (Poll s) <> OPending ->
     exists pre o post, rest = pre ++ o :: post /\ In s (woken I (ops ++ Poll s :: pre) o)).
Proof.
  intros H. destruct (model_wake_facts I H) as (Hr & Hp & Hw).
  assert (W1 : forall ops s, next I ops (Poll s) = OPending -> parked I (ops ++ [Poll s]) s = true).
  { intros ops s. rewrite (next_eq I abs_impl Hr), Hp. apply cell_pending_parked. }
  assert (W3 : forall ops s, parked I ops s = true -> next I ops (Poll s) = OPending).
  { intros ops s. rewrite (next_eq I abs_impl Hr), Hp. apply cell_parked_pending. }
  split; [exact W1|]. split; [exact W3|]. split.
  - intros ops s o. apply parked_or_woken.
  - intros ops s rest. now apply wake_before_ready.
Qed.

Theorem same_wakes ops : wakes tokio_impl ops = wakes smol_impl ops.
Proof. now rewrite tokio_wakes_abs, smol_wakes_abs. Qed.

Theorem subsequence_latest_models I : I = tokio_impl \/ I = smol_impl ->
  forall (ops : list op) (s : nat),
  let tr := trace I ops in
  sublist (received s tr) (sets_after s tr) /\
  (forall v c, next I ops (Poll s) = OItem v c -> c = CTrue) /\
  (next I ops (Poll s) = OEnd -> forall h, handle_live h tr = false) /\
  (next I ops (Poll s) = OPending -> exists h, handle_live h tr = true) /\
  (next I ops (Poll s) = OPending \/ next I ops (Poll s) = OEnd ->
   last_opt (received s tr) = last_opt (sets_after s tr)) /\
  match next I (ops ++ [Poll s]) (Poll s) with OItem _ _ => False | _ => True end /\
  (next I ops (Poll s) = OGone ->
   ~ (exists h, In (Subscribe h, OSub s) tr) \/ In (DropSub s, ODone) tr) /\
  (forall o, next I ops o <> OPanic /\ next I ops o <> OFuel).
Proof. intros H. apply subsequence_latest. now apply modelled. Qed.

Theorem handles_models I : I = tokio_impl \/ I = smol_impl ->
  forall (ops : list op) (h : nat),
  let tr := trace I ops in
  (forall o, handle_of o = Some h -> (next I ops o = OGone <-> handle_live h tr = false)) /\
  (handle_live h tr = true ->
   (forall v, next I ops (Set_ h v) = OSet v) /\
   (exists g, nth_error (hvals tr) h = Some g /\ next I ops (Get h) = OGet g)).
Proof. intros H. apply handles_any. now apply modelled. Qed.

Theorem once_models I : I = tokio_impl \/ I = smol_impl ->
  forall (pre post : list op) (v : N), unresolved pre ->
  once_outs (trace I pre) = repeat OPending (npolls pre) /\
  once_outs (trace I (pre ++ Notify v :: post)) =
    repeat OPending (npolls pre) ++
    match npolls post with O => [] | S k => OItem v CFalse :: repeat OEnd k end /\
  once_outs (trace I (pre ++ DropNotifier :: post)) =
    repeat OPending (npolls pre) ++ repeat OEnd (npolls post).
Proof. intros H. apply once_exact. now apply modelled. Qed.

Theorem converges_models I : I = tokio_impl \/ I = smol_impl ->
  forall (ops : list op) (s : nat),
  (exists h, In (Subscribe h, OSub s) (trace I ops)) -> ~ In (DropSub s, ODone) (trace I ops) ->
  exists o1 o2,
    run I (ops ++ [Poll s; Poll s]) = run I ops ++ [o1; o2] /\
    ((o2 = OPending /\ exists h, handle_live h (trace I ops) = true) \/
     (o2 = OEnd /\ forall h, handle_live h (trace I ops) = false)) /\
    last_opt (received s (trace I (ops ++ [Poll s; Poll s]))) =
    last_opt (sets_after s (trace I ops)).
Proof. intros H. apply converges. now apply modelled. Qed.
