(* C20: the smol model (async-broadcast with overflow, no await_active, inactive keeper, under
   zlink-smol's adapters) refines the latest-value cell absZ_impl *)
From ZV Require Import Notified.Notified Notified.NotifiedBase Notified.NotifiedTokio.
Open Scope Z_scope.

(* State::new: broadcast(1) (one active receiver), rx.deactivate() = inactive += 1, then the
   active receiver is dropped *)
Example b_new_is_deactivated :
  b_droprx (BChan [] 0 1 1 false 0 1) (BRx 0 None) = (b_new, ODone).
Proof. reflexivity. Qed.

Definition lst_ok (b : bool) (n : Z) (epoch : nat) (r : brx) : Prop :=
  match r_lst r with
  | Some e => (e <= epoch)%nat /\ (e = epoch -> r_pos r = n /\ b = true)
  | None => True
  end.

(* h = number of live State handles (each holds a Sender and an InactiveReceiver); b = "some
   handle is alive" *)
Definition alive (h : nat) : bool := negb (Nat.eqb h 0).
Definition Rs (b : bool) (h : nat) (c : bchan) (l : list (option brx)) (a : achan) (m : list (option Z)) : Prop :=
  map (option_map r_pos) l = m /\ a_open a = b /\ b_closed c = negb b /\
  (b = alive h) /\
  b_head c + Z.of_nat (length (b_queue c)) = a_n a /\ b_rx c = a_rx a /\ a_rx a = nlive m /\
  bounded (a_n a) m /\
  (b_queue c = [] /\ nbehind (a_n a) m = 0%nat \/
   b_queue c = [(a_last a, nbehind (a_n a) m)] /\ (1 <= nbehind (a_n a) m)%nat) /\
  (forall s r, nth_error l s = Some (Some r) -> lst_ok b (a_n a) (b_epoch c) r) /\
  (a_tx a = h /\ b_tx c = h /\ b_inactive c = h).

Ltac prjs := cbn [a_epoch b_queue b_head b_rx b_inactive b_closed b_epoch b_tx r_pos r_lst a_n a_last a_rx a_tx
  ch_poll ch_set ch_sub ch_droprx ch_clone ch_droptx ch_new chan rx smol_impl absZ_impl fst snd] in *.

(* ---- try_recv_at in the three situations *)
Lemma recv_at_over c pos : pos < b_head c ->
  b_try_recv_at c pos = (c, b_head c, TOverflowed (b_head c - pos)).
Proof. intros L. unfold b_try_recv_at. apply Z.ltb_lt in L. now rewrite L. Qed.

Lemma recv_at_end c pos : pos = b_head c + Z.of_nat (length (b_queue c)) ->
  b_try_recv_at c pos = (c, pos, if b_closed c then TClosed else TEmpty).
Proof.
  intros E. unfold b_try_recv_at.
  assert (L : (pos <? b_head c) = false) by (apply Z.ltb_ge; lia). rewrite L.
  replace (Z.to_nat (pos - b_head c)) with (length (b_queue c)) by lia.
  assert (N : nth_error (b_queue c) (length (b_queue c)) = None) by (apply nth_error_None; lia).
  now rewrite N.
Qed.

(* the channel after a receiver took the single queued message with w waiters *)
Definition b_taken (c : bchan) (v : N) (w : nat) : bchan :=
  if Nat.eqb (w - 1) 0
  then BChan [] (b_head c + 1) (b_rx c) (b_inactive c) (b_closed c) (b_epoch c) (b_tx c)
  else BChan [(v, (w - 1)%nat)] (b_head c) (b_rx c) (b_inactive c) (b_closed c) (b_epoch c) (b_tx c).

Lemma recv_at_front c v w : b_queue c = [(v, w)] -> (1 <= w)%nat ->
  b_try_recv_at c (b_head c) = (b_taken c v w, b_head c + 1, TOk v).
Proof.
  intros Q W. unfold b_try_recv_at, b_taken.
  assert (L : (b_head c <? b_head c) = false) by (apply Z.ltb_ge; lia). rewrite L.
  replace (Z.to_nat (b_head c - b_head c)) with 0%nat by lia. rewrite Q. cbn [nth_error].
  destruct (Nat.eqb_spec w 0) as [E|E]; [lia|].
  destruct (Nat.eqb (w - 1) 0); reflexivity.
Qed.

(* ---- poll_recv / poll_next *)
Definition waiting (c : bchan) (r : brx) : bool :=
  match r_lst r with Some e => negb (e <? b_epoch c)%nat | None => false end.

Lemma s_poll_waiting c r : waiting c r = true -> b_stream_poll 3 c r = (c, r, OPending).
Proof. intros W. cbn [b_stream_poll]. unfold b_poll_recv. fold (waiting c r). now rewrite W. Qed.

Lemma s_poll_uptodate c r : waiting c r = false ->
  r_pos r = b_head c + Z.of_nat (length (b_queue c)) ->
  b_stream_poll 3 c r =
  if b_closed c then (c, BRx (r_pos r) None, OEnd)
  else (c, BRx (r_pos r) (Some (b_epoch c)), OPending).
Proof.
  intros W E. cbn [b_stream_poll]. unfold b_poll_recv. fold (waiting c r). rewrite W.
  rewrite recv_at_end by auto. destruct (b_closed c); reflexivity.
Qed.

Lemma waiting_none c pos : waiting c (BRx pos None) = false.
Proof. reflexivity. Qed.

Lemma taken_epoch c v w : b_epoch (b_taken c v w) = b_epoch c.
Proof. unfold b_taken. destruct (Nat.eqb (w - 1) 0); reflexivity. Qed.

Lemma s_poll_behind c r v w : waiting c r = false -> b_queue c = [(v, w)] -> (1 <= w)%nat ->
  r_pos r <= b_head c ->
  b_stream_poll 3 c r = (b_taken c v w, BRx (b_head c + 1) None, OItem v CTrue).
Proof.
  intros W Q Hw L. destruct (Z.eq_dec (r_pos r) (b_head c)) as [E|N].
  - cbn [b_stream_poll]. unfold b_poll_recv. fold (waiting c r). rewrite W, E.
    rewrite (recv_at_front _ _ _ Q Hw). reflexivity.
  - cbn [b_stream_poll]. unfold b_poll_recv at 1. fold (waiting c r). rewrite W.
    rewrite recv_at_over by lia.
    unfold b_poll_recv. cbn [r_lst r_pos].
    rewrite (recv_at_front _ _ _ Q Hw). reflexivity.
Qed.

(* ---- Drop for Receiver *)
Lemma s_drain_uptodate c pos fuel : pos = b_head c + Z.of_nat (length (b_queue c)) ->
  b_drain (S fuel) c pos = (c, ODone).
Proof. intros E. cbn [b_drain]. rewrite recv_at_end by auto. destruct (b_closed c); reflexivity. Qed.

Lemma taken_end c v w : b_queue c = [(v, w)] ->
  b_head c + 1 = b_head (b_taken c v w) + Z.of_nat (length (b_queue (b_taken c v w))).
Proof. intros Q. unfold b_taken. destruct (Nat.eqb (w - 1) 0); cbn; lia. Qed.

Lemma s_drain_behind c pos v w : b_queue c = [(v, w)] -> (1 <= w)%nat -> pos <= b_head c ->
  b_drain 4 c pos = (b_taken c v w, ODone).
Proof.
  intros Q Hw L. destruct (Z.eq_dec pos (b_head c)) as [E|N].
  - subst pos. cbn [b_drain]. rewrite (recv_at_front _ _ _ Q Hw).
    change (b_drain 3 (b_taken c v w) (b_head c + 1) = (b_taken c v w, ODone)).
    apply s_drain_uptodate. now apply taken_end.
  - cbn [b_drain]. rewrite recv_at_over by lia. rewrite (recv_at_front _ _ _ Q Hw).
    change (b_drain 2 (b_taken c v w) (b_head c + 1) = (b_taken c v w, ODone)).
    apply s_drain_uptodate. now apply taken_end.
Qed.

(* ---- the relation is preserved *)
Lemma map_livef_optmap A B (f : A -> B) l : map livef (map (option_map f) l) = map livef l.
Proof. induction l as [|[x|] l IH]; cbn; now rewrite ?IH. Qed.

Lemma Rs_shape b h c l a m : Rs b h c l a m -> map livef l = map livef m.
Proof. intros (<- & _). now rewrite map_livef_optmap. Qed.

Lemma Rs_init : Rs true 1 (ch_new smol_impl) [] (ch_new absZ_impl) [].
Proof.
  cbn. unfold Rs; cbn. repeat split; auto; try lia.
  - intros s k H. destruct s; discriminate.
  - intros s r H. destruct s; discriminate.
Qed.

Lemma nth_map_pos l s r : nth_error l s = Some (Some r) ->
  nth_error (map (option_map r_pos) l) s = Some (Some (r_pos r)).
Proof. intros H. erewrite map_nth_error; eauto. reflexivity. Qed.

Lemma Rs_set h c l a m v : Rs true h c l a m ->
  Rs true h (fst (ch_set smol_impl c v)) l (fst (ch_set absZ_impl a v)) m /\
  snd (ch_set smol_impl c v) = snd (ch_set absZ_impl a v).
Proof.
  intros (Hm & Ho & Hc & Hi & Hh & Hrx & Hl & Hb & Hq & Hls & Ha & Ht & Hin).
  destruct c as [q hd rx ina closed ep tx], a as [an last arx atx aep]; prjs. unfold a_open in *; cbn [a_tx] in *. subst.
  unfold b_set, b_try_broadcast, a_set; prjs. cbn [negb].
  destruct (Nat.eqb (nlive (map (option_map r_pos) l)) 0) eqn:E.
  - cbn [b_await_active fst snd]. split; [|reflexivity]. unfold Rs; prjs. repeat split; auto.
  - apply Nat.eqb_neq in E. unfold b_overflow. cbn [negb]. rewrite andb_false_r.
    cbn [fst snd]. split; [|reflexivity].
    unfold Rs; prjs.
    assert (Hq' : length ((if Nat.eqb (length q) b_cap then tl q else q) ++
                          [(v, nlive (map (option_map r_pos) l))]) = 1%nat /\
                  (if Nat.eqb (length q) b_cap && negb (Nat.eqb (length q) 0) then hd + 1 else hd)
                  = hd + Z.of_nat (length q)).
    { destruct Hq as [[-> _]|[-> _]]; cbn; split; auto; lia. }
    destruct Hq' as [Hq1 Hq2].
    repeat split; auto; try lia.
    + eapply bounded_mono; [|eassumption]. lia.
    + right. rewrite nbehind_all by auto. split; [|lia].
      destruct Hq as [[-> _]|[-> _]]; reflexivity.
    + intros s r H. specialize (Hls s r H). unfold lst_ok in *.
      destruct (r_lst r) as [e|]; auto. destruct Hls as [Le _]. split; [lia|]. intros ->. lia.
Qed.

Lemma nth_error_snoc A (l : list A) x s y :
  nth_error (l ++ [x]) s = Some y -> nth_error l s = Some y \/ y = x.
Proof.
  intros H. destruct (Nat.lt_ge_cases s (length l)) as [Lt|Ge].
  - rewrite nth_error_app1 in H by auto. auto.
  - rewrite nth_error_app2 in H by auto. destruct (s - length l)%nat as [|[|?]]; cbn in H; try discriminate.
    injection H as <-. auto.
Qed.

Lemma Rs_sub h c l a m : Rs true h c l a m ->
  Rs true h (fst (ch_sub smol_impl c)) (l ++ [Some (snd (ch_sub smol_impl c))])
          (fst (ch_sub absZ_impl a)) (m ++ [Some (snd (ch_sub absZ_impl a))]).
Proof.
  intros (Hm & Ho & Hc & Hi & Hh & Hrx & Hl & Hb & Hq & Hls & Ha & Ht & Hin).
  destruct c as [q hd rx ina closed ep tx], a as [an last arx atx aep]; prjs. unfold a_open in *; cbn [a_tx] in *. subst.
  unfold b_subscribe, a_sub; prjs.
  unfold Rs; prjs. rewrite map_app, nlive_app, nbehind_app, bit_ltb_false by lia. cbn [map option_map r_pos].
  repeat split; auto; try lia.
  - apply bounded_app; auto; lia.
  - rewrite Nat.add_0_r. exact Hq.
  - intros s r H. apply nth_error_snoc in H as [H|H]; eauto. injection H as ->. exact I.
Qed.

Lemma lst_ok_upd b n ep l s x :
  (forall t r, nth_error l t = Some (Some r) -> lst_ok b n ep r) ->
  (forall r, x = Some r -> lst_ok b n ep r) ->
  forall t r, nth_error (upd l s x) t = Some (Some r) -> lst_ok b n ep r.
Proof. intros H X t r E. apply nth_error_upd_inv in E as [[_ E]|E]; eauto. Qed.

Lemma not_waiting_lst b n c r : lst_ok b n (b_epoch c) r -> waiting c r = true ->
  r_pos r = n /\ b = true.
Proof.
  unfold lst_ok, waiting. destruct (r_lst r) as [e|]; [|discriminate].
  intros [Le H] W. apply H. destruct (Nat.ltb_spec e (b_epoch c)); [discriminate|lia].
Qed.

Lemma Rs_poll b h c l a m s r q : Rs b h c l a m ->
  nth_error l s = Some (Some r) -> nth_error m s = Some (Some q) ->
  Rs b h (fst (fst (ch_poll smol_impl c r))) (upd l s (Some (snd (fst (ch_poll smol_impl c r)))))
       (fst (fst (ch_poll absZ_impl a q))) (upd m s (Some (snd (fst (ch_poll absZ_impl a q))))) /\
  snd (ch_poll smol_impl c r) = snd (ch_poll absZ_impl a q).
Proof.
  intros (Hm & Ho & Hc & Hi & Hh & Hrx & Hl & Hb & Hq & Hls & Ha & Ht & Hin) El Em.
  pose proof (nth_map_pos _ _ _ El) as Ep. rewrite Hm, Em in Ep. injection Ep as ->.
  pose proof (Hls _ _ El) as Lr. pose proof (Hb _ _ Em) as Lb.
  prjs. unfold a_poll.
  destruct (waiting c r) eqn:W.
  - (* a listener that has not been notified: nothing new, by the invariant *)
    destruct (not_waiting_lst _ _ _ _ Lr W) as [E ->].
    rewrite s_poll_waiting by auto. cbn [fst snd].
    assert (Lf : (r_pos r <? a_n a) = false) by (apply Z.ltb_ge; lia). rewrite Lf, Ho. cbn [fst snd].
    split; [|reflexivity]. rewrite (upd_id _ _ _ _ El), (upd_id _ _ _ _ Em).
    unfold Rs. repeat split; auto.
  - destruct (Z.ltb_spec (r_pos r) (a_n a)) as [L|L]; cbn [fst snd].
    + pose proof (nbehind_pos _ _ _ _ Em L) as Hn.
      destruct Hq as [[_ Z0]|[Q _]]; [lia|].
      assert (Hh' : b_head c + 1 = a_n a) by (rewrite Q in Hh; cbn in Hh; lia).
      rewrite (s_poll_behind _ _ _ _ W Q Hn) by lia. cbn [fst snd]. split; [|reflexivity].
      pose proof (nbehind_upd (a_n a) m s (r_pos r) (Some (a_n a)) Em) as U. cbn [behind1] in U.
      rewrite bit_ltb_true, bit_ltb_false in U by lia.
      rewrite Hh'. unfold Rs. rewrite map_upd. cbn [option_map r_pos]. rewrite Hm.
      assert (Hnl := nlive_upd_some m s (r_pos r) (a_n a) Em).
      unfold b_taken. destruct (Nat.eqb_spec (nbehind (a_n a) m - 1) 0) as [E0|E0]; prjs;
        (repeat split; auto; try lia;
         try (apply bounded_upd; auto; intros k [= <-]; lia);
         try (apply lst_ok_upd; auto; intros r' [= <-]; exact I);
         try (rewrite ?Q; cbn; lia)).
      * left. split; auto. lia.
      * right. split; [|lia]. f_equal. f_equal. lia.
    + assert (E : r_pos r = a_n a) by lia.
      rewrite s_poll_uptodate by (auto; lia). rewrite Hc. subst b.
      assert (Um : upd m s (Some (r_pos r)) = m) by (apply upd_id; auto).
      destruct (a_open a) eqn:Eo; cbn [negb fst snd]; (split; [|reflexivity]);
        unfold Rs; rewrite map_upd; cbn [option_map r_pos]; rewrite Hm, Um;
        (repeat split; auto; apply lst_ok_upd; auto; intros r' [= <-]; unfold lst_ok; cbn [r_lst r_pos]; auto).
Qed.

Lemma close_channel_noop b h c : b_closed c = negb b -> b = alive h -> b_inactive c = h ->
  b_close_channel c = c.
Proof.
  intros Hc Hb Hi. unfold b_close_channel, b_close. rewrite Hc, Hi. subst b. unfold alive.
  destruct h; cbn; [|now rewrite andb_false_r]. destruct (Nat.eqb (b_rx c) 0); reflexivity.
Qed.

Lemma Rs_drop b h c l a m s r q : Rs b h c l a m ->
  nth_error l s = Some (Some r) -> nth_error m s = Some (Some q) ->
  Rs b h (fst (ch_droprx smol_impl c r)) (upd l s None) (fst (ch_droprx absZ_impl a q)) (upd m s None) /\
  snd (ch_droprx smol_impl c r) = snd (ch_droprx absZ_impl a q).
Proof.
  intros (Hm & Ho & Hc & Hi & Hh & Hrx & Hl & Hb & Hq & Hls & Ha & Ht & Hin) El Em.
  pose proof (nth_map_pos _ _ _ El) as Ep. rewrite Hm, Em in Ep. injection Ep as ->.
  pose proof (Hb _ _ Em) as Lb. pose proof (nlive_upd_none _ _ _ Em) as Ln.
  prjs. unfold a_droprx, b_droprx.
  assert (Hls' : forall t r', nth_error (upd l s None) t = Some (Some r') ->
                              lst_ok b (a_n a) (b_epoch c) r').
  { apply lst_ok_upd; auto. discriminate. }
  destruct (Z.ltb_spec (r_pos r) (a_n a)) as [L|L].
  - pose proof (nbehind_pos _ _ _ _ Em L) as Hn.
    destruct Hq as [[_ Z0]|[Q _]]; [lia|].
    assert (Hh' : b_head c + 1 = a_n a) by (rewrite Q in Hh; cbn in Hh; lia).
    rewrite (s_drain_behind _ _ _ _ Q Hn) by lia.
    pose proof (nbehind_upd (a_n a) m s (r_pos r) None Em) as U. cbn [behind1] in U.
    rewrite bit_ltb_true in U by lia.
    cbn [fst snd]. split; [|reflexivity].
    unfold b_taken. destruct (Nat.eqb_spec (nbehind (a_n a) m - 1) 0) as [E0|E0]; prjs;
      (rewrite (close_channel_noop b h) by (prjs; auto); unfold Rs; prjs; rewrite map_upd, Hm; cbn [option_map];
       repeat split; auto; try lia;
       try (apply bounded_upd; auto; discriminate);
       try (rewrite ?Q; cbn; lia)).
    + left. split; auto. lia.
    + right. split; [|lia]. f_equal. f_equal. lia.
  - assert (E : r_pos r = a_n a) by lia.
    rewrite s_drain_uptodate by lia. cbn [fst snd]. split; [|reflexivity].
    pose proof (nbehind_upd (a_n a) m s (r_pos r) None Em) as U. cbn [behind1] in U.
    rewrite bit_ltb_false in U by lia.
    rewrite (close_channel_noop b h) by (prjs; auto). unfold Rs; prjs. rewrite map_upd, Hm. cbn [option_map].
    repeat split; auto; try lia.
    + apply bounded_upd; auto; discriminate.
    + replace (nbehind (a_n a) (upd m s None)) with (nbehind (a_n a) m) by lia. exact Hq.
Qed.

Lemma Rs_clone h c l a m : Rs true (S h) c l a m ->
  Rs true (S (S h)) (ch_clone smol_impl c) l (ch_clone absZ_impl a) m.
Proof.
  intros (Hm & Ho & Hc & Hi & Hh & Hrx & Hl & Hb & Hq & Hls & Ha & Ht & Hin).
  unfold Rs; cbn. unfold a_open in *; cbn. rewrite Ha, Ht, Hin. repeat split; auto.
Qed.

Lemma lst_ok_epoch b b' n ep r : lst_ok b n ep r -> lst_ok b' n (S ep) r.
Proof.
  unfold lst_ok. destruct (r_lst r) as [e|]; auto. intros [Le _]. split; [lia|]. intros ->. lia.
Qed.

(* dropping a handle closes the channel only when it was the last one *)
Lemma Rs_droptx h c l a m : Rs true (S h) c l a m ->
  Rs (alive h) h (ch_droptx smol_impl c) l (ch_droptx absZ_impl a) m.
Proof.
  intros (Hm & Ho & Hc & Hi & Hh & Hrx & Hl & Hb & Hq & Hls & Ha & Ht & Hin).
  destruct c as [q hd rx ina closed ep tx], a as [an last arx atx aep]; prjs. unfold a_open in *; cbn [a_tx] in *.
  subst closed tx ina atx. cbn [negb] in *.
  unfold b_drop_state, a_droptx; prjs. cbn [Nat.sub]. rewrite !Nat.sub_0_r.
  destruct h as [|h'].
  - (* the last handle: Sender::drop closes *)
    cbn [Nat.eqb]. unfold b_close at 1; prjs. unfold b_close_channel, b_close; prjs.
    rewrite Tauto.if_same. unfold Rs, alive, a_open; prjs. cbn [Nat.eqb negb].
    repeat split; auto. intros s r H. eapply lst_ok_epoch; eauto.
  - cbn [Nat.eqb]. unfold b_close_channel; prjs. cbn [Nat.eqb]. rewrite andb_false_r.
    unfold Rs, alive, a_open; prjs. cbn [Nat.eqb negb]. repeat split; auto.
Qed.

(* one-shot *)
Definition lst_past (o : sonce) : Prop :=
  match so_lst o with Some e => (e < so_epoch o)%nat | None => True end.

Definition Ros (nf : bool) (s : sonce) (a : aonce) : Prop :=
  match a with
  | AIdle => nf = true /\ so_q s = None /\ so_closed s = false /\ so_term s = false /\
             (so_lst s = None \/ so_lst s = Some (so_epoch s))
  | AArmed v => nf = false /\ so_q s = Some v /\ so_closed s = true /\ so_term s = false /\ lst_past s
  | ADead => nf = false /\ so_q s = None /\ so_closed s = true /\ so_term s = false /\ lst_past s
  | AFinished => nf = false /\ so_term s = true
  end.

Lemma Ros_init : Ros true (on_new smol_impl) (on_new absZ_impl).
Proof. cbn. auto 10. Qed.

Lemma Ros_notify s a v : Ros true s a ->
  Ros false (fst (on_notify smol_impl s v)) (fst (on_notify absZ_impl a v)) /\
  snd (on_notify smol_impl s v) = snd (on_notify absZ_impl a v).
Proof.
  destruct a; cbn; intros (E & H); try discriminate. destruct H as (Q & C & T & L).
  unfold so_notify. rewrite C, Q. cbn. repeat split; auto.
  unfold lst_past; cbn. destruct L as [-> | ->]; auto.
Qed.

Lemma Ros_drop s a : Ros true s a -> Ros false (on_drop smol_impl s) (on_drop absZ_impl a).
Proof.
  destruct a; cbn; intros (E & H); try discriminate. destruct H as (Q & C & T & L).
  unfold so_drop. rewrite C. cbn. repeat split; auto.
  unfold lst_past; cbn. destruct L as [-> | ->]; auto.
Qed.

Lemma Ros_poll nf s a : Ros nf s a ->
  Ros nf (fst (on_poll smol_impl s)) (fst (on_poll absZ_impl a)) /\
  snd (on_poll smol_impl s) = snd (on_poll absZ_impl a).
Proof.
  destruct a; cbn [Ros on_poll smol_impl absZ_impl ao_poll fst snd].
  - intros (E & Q & C & T & L). unfold so_poll. rewrite T.
    destruct L as [L|L]; rewrite L.
    + rewrite Q, C. cbn. auto 10.
    + rewrite Nat.ltb_irrefl. cbn. rewrite L. auto 10.
  - intros (E & Q & C & T & L). unfold so_poll. rewrite T.
    assert (W : match so_lst s with Some e => negb (e <? so_epoch s)%nat | None => false end = false).
    { unfold lst_past in L. destruct (so_lst s) as [e|]; auto.
      apply Nat.ltb_lt in L. now rewrite L. }
    rewrite W, Q. cbn. auto.
  - intros (E & Q & C & T & L). unfold so_poll. rewrite T.
    assert (W : match so_lst s with Some e => negb (e <? so_epoch s)%nat | None => false end = false).
    { unfold lst_past in L. destruct (so_lst s) as [e|]; auto.
      apply Nat.ltb_lt in L. now rewrite L. }
    rewrite W, Q, C. cbn. unfold lst_past; cbn. auto 10.
  - intros (E & T). unfold so_poll. rewrite T. cbn. auto.
Qed.

Theorem smol_refines_absZ ops : run smol_impl ops = run absZ_impl ops.
Proof.
  apply (sim_run smol_impl absZ_impl (fun h => Rs (alive h) h) Ros).
  - intros; eapply Rs_shape; eauto.
  - exact Rs_init.
  - intros; now apply Rs_set.
  - intros; now apply Rs_sub.
  - intros; eapply Rs_poll; eauto.
  - intros; eapply Rs_drop; eauto.
  - intros; now apply Rs_clone.
  - intros; now apply Rs_droptx.
  - exact Ros_init.
  - intros; now apply Ros_notify.
  - intros; now apply Ros_drop.
  - intros; now apply Ros_poll.
Qed.

(* ---------------------------------------------------------------- with the waker *)
(* what a poll leaves in the listener, and that only broadcast and close notify *)
Lemma Rs_poll_shape b h c l a m s r : Rs b h c l a m -> nth_error l s = Some (Some r) ->
  b_epoch (fst (fst (b_stream_poll 3 c r))) = b_epoch c /\
  r_lst (snd (fst (b_stream_poll 3 c r))) =
  match snd (b_stream_poll 3 c r) with OPending => Some (b_epoch c) | _ => None end.
Proof.
  intros (Hm & Ho & Hc & Hi & Hh & Hrx & Hl & Hb & Hq & Hls & Ha & Ht & Hin) El.
  pose proof (nth_map_pos _ _ _ El) as Em. rewrite Hm in Em.
  pose proof (Hls _ _ El) as Lr. pose proof (Hb _ _ Em) as Lb.
  destruct (waiting c r) eqn:W.
  - rewrite s_poll_waiting by auto. cbn [fst snd]. split; auto.
    unfold waiting in W. unfold lst_ok in Lr. destruct (r_lst r) as [e|]; [|discriminate].
    destruct Lr as [Le _]. f_equal. destruct (Nat.ltb_spec e (b_epoch c)); [discriminate|lia].
  - destruct (Z.ltb_spec (r_pos r) (a_n a)) as [L|L].
    + pose proof (nbehind_pos _ _ _ _ Em L) as Hn.
      destruct Hq as [[_ Z0]|[Q _]]; [lia|].
      assert (Hh' : b_head c + 1 = a_n a) by (rewrite Q in Hh; cbn in Hh; lia).
      rewrite (s_poll_behind _ _ _ _ W Q Hn) by lia. cbn [fst snd r_lst].
      split; [apply taken_epoch|reflexivity].
    + rewrite s_poll_uptodate by (auto; lia). destruct (b_closed c); cbn [fst snd r_lst]; auto.
Qed.

Lemma Rs_drop_epoch b h c l a m s r : Rs b h c l a m -> nth_error l s = Some (Some r) ->
  b_epoch (fst (b_droprx c r)) = b_epoch c.
Proof.
  intros (Hm & Ho & Hc & Hi & Hh & Hrx & Hl & Hb & Hq & Hls & Ha & Ht & Hin) El.
  pose proof (nth_map_pos _ _ _ El) as Em. rewrite Hm in Em. pose proof (Hb _ _ Em) as Lb.
  unfold b_droprx.
  destruct (Z.ltb_spec (r_pos r) (a_n a)) as [L|L].
  - pose proof (nbehind_pos _ _ _ _ Em L) as Hn.
    destruct Hq as [[_ Z0]|[Q _]]; [lia|].
    assert (Hh' : b_head c + 1 = a_n a) by (rewrite Q in Hh; cbn in Hh; lia).
    rewrite (s_drain_behind _ _ _ _ Q Hn) by lia. cbn [fst].
    unfold b_taken. destruct (Nat.eqb (nbehind (a_n a) m - 1) 0); prjs;
      rewrite (close_channel_noop b h) by (prjs; auto); reflexivity.
  - rewrite s_drain_uptodate by lia. cbn [fst].
    rewrite (close_channel_noop b h) by (prjs; auto). reflexivity.
Qed.

Lemma Rs_set_epoch h c l a m v : Rs true h c l a m ->
  b_epoch (fst (b_set c v)) = if Nat.eqb (a_rx a) 0 then b_epoch c else S (b_epoch c).
Proof.
  intros (Hm & Ho & Hc & Hi & Hh & Hrx & Hl & Hb & Hq & Hls & Ha & Ht & Hin).
  unfold b_set, b_try_broadcast. rewrite Hc, Hrx. cbn [negb].
  destruct (Nat.eqb (a_rx a) 0); [reflexivity|].
  unfold b_overflow. cbn [negb]. rewrite andb_false_r. reflexivity.
Qed.

Lemma Rs_droptx_epoch h c l a m : Rs true (S h) c l a m ->
  b_epoch (b_drop_state c) = if Nat.eqb (S h) 1 then S (b_epoch c) else b_epoch c.
Proof.
  intros (Hm & Ho & Hc & Hi & Hh & Hrx & Hl & Hb & Hq & Hls & Ha & Ht & Hin).
  destruct c as [q hd rx ina closed ep tx]; prjs. subst closed tx ina. cbn [negb].
  unfold b_drop_state; prjs. cbn [Nat.sub]. rewrite !Nat.sub_0_r.
  destruct h as [|h'].
  - cbn [Nat.eqb]. unfold b_close at 1; prjs. unfold b_close_channel, b_close; prjs.
    rewrite Tauto.if_same. reflexivity.
  - cbn [Nat.eqb]. unfold b_close_channel; prjs. cbn [Nat.eqb]. rewrite andb_false_r. reflexivity.
Qed.

Definition Rsw (h : nat) (c : bchan) (l : list (option brx)) (a : achan) (m : list (option brx)) : Prop :=
  l = m /\ b_epoch c = a_epoch a /\ Rs (alive h) h c l a (pos m).

Lemma Rsw_shape h c l a m : Rsw h c l a m -> map livef l = map livef m.
Proof. intros (-> & _). reflexivity. Qed.

Lemma Rsw_init : Rsw 1 (ch_new smol_impl) [] (ch_new abs_impl) [].
Proof. split; [reflexivity|]. split; [reflexivity|]. exact Rs_init. Qed.

Lemma Rsw_set h c l a m v : Rsw (S h) c l a m ->
  Rsw (S h) (fst (ch_set smol_impl c v)) l (fst (ch_set abs_impl a v)) m /\
  snd (ch_set smol_impl c v) = snd (ch_set abs_impl a v).
Proof.
  intros (-> & Ee & HR). destruct (Rs_set (S h) c m a (pos m) v HR) as [HR' Eo].
  split; [|exact Eo]. split; [reflexivity|]. split; [|exact HR'].
  change (b_epoch (fst (b_set c v)) = a_epoch (fst (a_set a v))).
  rewrite (Rs_set_epoch _ _ _ _ _ v HR). unfold a_set.
  destruct (Nat.eqb (a_rx a) 0); cbn; congruence.
Qed.

Lemma Rsw_sub h c l a m : Rsw (S h) c l a m ->
  Rsw (S h) (fst (ch_sub smol_impl c)) (l ++ [Some (snd (ch_sub smol_impl c))])
            (fst (ch_sub abs_impl a)) (m ++ [Some (snd (ch_sub abs_impl a))]).
Proof.
  intros (-> & Ee & HR). pose proof (Rs_sub (S h) c m a (pos m) HR) as HR'.
  cbn [ch_sub smol_impl abs_impl absZ_impl b_subscribe a_subw a_sub fst snd] in *.
  assert (Ep : b_head c + Z.of_nat (length (b_queue c)) = a_n a).
  { destruct HR as (_ & _ & _ & _ & Hh & _). exact Hh. }
  split; [now rewrite Ep|]. split; [exact Ee|]. rewrite pos_app. cbn [r_pos]. exact HR'.
Qed.

Lemma Rsw_poll h c l a m s r q : Rsw h c l a m ->
  nth_error l s = Some (Some r) -> nth_error m s = Some (Some q) ->
  Rsw h (fst (fst (ch_poll smol_impl c r))) (upd l s (Some (snd (fst (ch_poll smol_impl c r)))))
        (fst (fst (ch_poll abs_impl a q))) (upd m s (Some (snd (fst (ch_poll abs_impl a q))))) /\
  snd (ch_poll smol_impl c r) = snd (ch_poll abs_impl a q).
Proof.
  intros (-> & Ee & HR) El Em. rewrite El in Em. injection Em as <-.
  destruct (Rs_poll _ h c m a (pos m) s r (r_pos r) HR El (pos_nth _ _ _ El)) as [HR' Eo].
  destruct (Rs_poll_shape _ h c m a (pos m) s r HR El) as [E1 E3].
  cbn [ch_poll smol_impl abs_impl absZ_impl] in *. unfold a_pollw.
  assert (E2 : a_epoch (fst (fst (a_poll a (r_pos r)))) = a_epoch a).
  { unfold a_poll. destruct (r_pos r <? a_n a); reflexivity. }
  destruct (b_stream_poll 3 c r) as [[c1 r1] o1]. cbn [fst snd] in *.
  destruct (a_poll a (r_pos r)) as [[a1 k1] o2]. cbn [fst snd] in *. subst o2.
  assert (Ek : r_pos r1 = k1).
  { destruct HR' as (El' & _). rewrite map_upd in El'. cbn [option_map] in El'.
    apply (upd_inj_same _ _ _ _ _ _ _ (pos_nth _ _ _ El)) in El'. congruence. }
  split; [|reflexivity].
  split.
  { f_equal. f_equal. destruct r1 as [p1 l1]. cbn [r_pos r_lst] in *. subst k1. f_equal.
    rewrite E3, E2, <- Ee. reflexivity. }
  split; [congruence|]. rewrite pos_upd. cbn [option_map r_pos]. exact HR'.
Qed.

Lemma Rsw_drop h c l a m s r q : Rsw h c l a m ->
  nth_error l s = Some (Some r) -> nth_error m s = Some (Some q) ->
  Rsw h (fst (ch_droprx smol_impl c r)) (upd l s None) (fst (ch_droprx abs_impl a q)) (upd m s None) /\
  snd (ch_droprx smol_impl c r) = snd (ch_droprx abs_impl a q).
Proof.
  intros (-> & Ee & HR) El Em. rewrite El in Em. injection Em as <-.
  destruct (Rs_drop _ h c m a (pos m) s r (r_pos r) HR El (pos_nth _ _ _ El)) as [HR' Eo].
  pose proof (Rs_drop_epoch _ h c m a (pos m) s r HR El) as E1.
  cbn [ch_droprx smol_impl abs_impl absZ_impl] in *.
  split; [|exact Eo]. split; [reflexivity|]. split; [|rewrite pos_upd; exact HR'].
  change (b_epoch (fst (b_droprx c r)) = a_epoch (fst (a_droprx a (r_pos r)))).
  rewrite E1. unfold a_droprx. cbn. exact Ee.
Qed.

Lemma Rsw_clone h c l a m : Rsw (S h) c l a m ->
  Rsw (S (S h)) (ch_clone smol_impl c) l (ch_clone abs_impl a) m.
Proof.
  intros (-> & Ee & HR). split; [reflexivity|]. split; [exact Ee|]. now apply Rs_clone.
Qed.

Lemma Rsw_droptx h c l a m : Rsw (S h) c l a m ->
  Rsw h (ch_droptx smol_impl c) l (ch_droptx abs_impl a) m.
Proof.
  intros (-> & Ee & HR). split; [reflexivity|]. split; [|now apply Rs_droptx].
  change (b_epoch (b_drop_state c) = a_epoch (a_droptx a)). rewrite (Rs_droptx_epoch _ _ _ _ _ HR).
  destruct HR as (_ & _ & _ & _ & _ & _ & _ & _ & _ & _ & Ha & _). unfold a_droptx. cbn [a_epoch].
  rewrite Ha, Ee. reflexivity.
Qed.

Lemma smol_parked st st' : sim smol_impl abs_impl Rsw Ros st st' ->
  forall s, parked_in smol_impl st s = parked_in abs_impl st' s.
Proof.
  intros (_ & _ & (El & Ee & _) & _) s. unfold parked_in. rewrite El.
  cbn [rx smol_impl abs_impl rx_waiting] in *. rewrite Ee. reflexivity.
Qed.

Section SmolWake.
Let S0 := Rsw_shape.
Let S1 := Rsw_init.
Let S2 := fun h c l d m v H => Rsw_set h c l d m v H.
Let S3 := fun h c l d m H => Rsw_sub h c l d m H.
Let S4 := fun h c l d m s r q H A B => Rsw_poll h c l d m s r q H A B.
Let S5 := fun h c l d m s r q H A B => Rsw_drop h c l d m s r q H A B.
Let S6 := fun h c l d m H => Rsw_clone h c l d m H.
Let S7 := fun h c l d m H => Rsw_droptx h c l d m H.
Let S8 := Ros_init.
Let S9 := fun a b v H => Ros_notify a b v H.
Let S10 := fun a b H => Ros_drop a b H.
Let S11 := fun nf a b H => Ros_poll nf a b H.

Theorem smol_refines_abs ops : run smol_impl ops = run abs_impl ops.
Proof. exact (sim_run smol_impl abs_impl Rsw Ros S0 S1 S2 S3 S4 S5 S6 S7 S8 S9 S10 S11 ops). Qed.

Theorem smol_wakes_abs ops : wakes smol_impl ops = wakes abs_impl ops.
Proof.
  exact (sim_wakes smol_impl abs_impl Rsw Ros S0 S1 S2 S3 S4 S5 S6 S7 S8 S9 S10 S11 smol_parked ops).
Qed.

Theorem smol_parked_abs ops s : parked smol_impl ops s = parked abs_impl ops s.
Proof.
  exact (sim_parked smol_impl abs_impl Rsw Ros S0 S1 S2 S3 S4 S5 S6 S7 S8 S9 S10 S11 smol_parked ops s).
Qed.

Theorem smol_woken_abs ops o : woken smol_impl ops o = woken abs_impl ops o.
Proof.
  exact (sim_woken smol_impl abs_impl Rsw Ros S0 S1 S2 S3 S4 S5 S6 S7 S8 S9 S10 S11 smol_parked ops o).
Qed.
End SmolWake.
