(* Correspondence driver for C20: evaluates both models on an operation list and compares with
   what the two real crates produced (lists of N, see harness/src/bin/notified.rs); evaluates the
   property itself (the vocabulary of Notified.v: received / sets_after / once_expect) directly on
   the implementations' observable histories. *)
From ZV Require Import Common.Exec Notified.Notified.

Definition enc_cont (c : cont) : N := match c with CNone => 0 | CFalse => 1 | CTrue => 2 end%N.
Definition enc_out (o : out) : list N :=
  match o with
  | ODone => [0] | OSet g => [1; g] | OItem v c => [2; 1; v; enc_cont c] | OPending => [3]
  | OEnd => [4] | OGone => [5] | OPanic => [6] | OSub k => [7; N.of_nat k] | OFuel => [8]
  | OGet g => [9; g] | OHandle k => [10; N.of_nat k]
  end%N.

(* implementation result -> out; None for anything the vocabulary has no word for (e.g. a reply
   without parameters) *)
Definition dec_out (l : list N) : option out :=
  match l with
  | [0] => Some ODone
  | [1; g] => Some (OSet g)
  | [2; 1; v; 0] => Some (OItem v CNone)
  | [2; 1; v; 1] => Some (OItem v CFalse)
  | [2; 1; v; 2] => Some (OItem v CTrue)
  | [3] => Some OPending
  | [4] => Some OEnd
  | [5] => Some OGone
  | [6] => Some OPanic
  | [7; k] => Some (OSub (N.to_nat k))
  | [9; g] => Some (OGet g)
  | [10; k] => Some (OHandle (N.to_nat k))
  | _ => None
  end%N.

Fixpoint dec_outs (l : list (list N)) : option (list out) :=
  match l with
  | [] => Some []
  | x :: l' => match dec_out x, dec_outs l' with Some o, Some r => Some (o :: r) | _, _ => None end
  end.

Record ncase := {
  nc_ops : list op;
  nc_tokio : list (list N);     (* zlink_tokio::notified, one result per operation *)
  nc_smol : list (list N)       (* zlink_smol::notified *)
}.

Definition model_outs (I : impl) (c : ncase) : list (list N) := map enc_out (run I (nc_ops c)).

(* ---------------------------------------------------------------- the property, executable *)

Fixpoint sublistb (a b : list N) : bool :=
  match b with
  | [] => match a with [] => true | _ => false end
  | y :: b' => match a with
               | [] => true
               | x :: a' => if (x =? y)%N then sublistb a' b' else sublistb a b'
               end
  end.

Definition optN_eqb (a b : option N) : bool :=
  match a, b with Some x, Some y => (x =? y)%N | None, None => true | _, _ => false end.

(* some / no State handle exists at the end of the history p (handle indices < length p + 1) *)
Definition any_handle (p : list ev) : bool :=
  existsb (fun h => handle_live h p) (seq 0 (S (length p))).

(* event number i (its prefix is firstn (S i) tr) *)
Definition event_ok (tr : list ev) (i : nat) : bool :=
  let p := firstn (S i) tr in
  let before := firstn i tr in
  match nth_error tr i with
  | Some (Poll s, OItem _ c) => match c with CTrue => true | _ => false end
  | Some (Poll s, OPending) =>
      (* nothing to hand out: the subscriber is up to date with the latest value set, and the
         state still exists (some handle is alive) *)
      any_handle p && optN_eqb (last_opt (received s p)) (last_opt (sets_after s p))
  | Some (Poll s, OEnd) =>
      (* end of stream: only when ALL handles are gone, and nothing was lost *)
      negb (any_handle p) && optN_eqb (last_opt (received s p)) (last_opt (sets_after s p))
  | Some (Set_ h v, OSet g) => handle_live h before && (v =? g)%N
  | Some (Set_ h v, OGone) => negb (handle_live h before)
  | Some (Set_ h v, _) => false
  | Some (Get h, OGet g) => handle_live h before && optN_eqb (nth_error (hvals before) h) (Some g)
  | Some (Get h, OGone) => negb (handle_live h before)
  | Some (Get h, _) => false
  | Some (Subscribe h, OSub _) => handle_live h before
  | Some (Subscribe h, OGone) => negb (handle_live h before)
  | Some (Subscribe h, _) => false
  | Some (CloneH h, OHandle _) => handle_live h before
  | Some (CloneH h, OGone) => negb (handle_live h before)
  | Some (CloneH h, _) => false
  | Some (DropH h, ODone) => handle_live h before
  | Some (DropH h, OGone) => negb (handle_live h before)
  | Some (DropH h, _) => false
  | Some (_, OPanic) => false
  | Some (_, OFuel) => false
  | _ => true
  end.

Definition state_okb (tr : list ev) : bool :=
  forallb (event_ok tr) (seq 0 (length tr)) &&
  forallb (fun s => sublistb (received s tr) (sets_after s tr)) (seq 0 (length tr)).

Definition out_eqb (a b : out) : bool := list_eqb N.eqb (enc_out a) (enc_out b).

Definition spec_okb (ops : list op) (outs : list (list N)) : bool :=
  match dec_outs outs with
  | None => false
  | Some os =>
      Nat.eqb (length os) (length ops) &&
      let tr := combine ops os in
      state_okb tr && list_eqb out_eqb (once_outs tr) (once_expect ops)
  end.

(* 0 = both implementations agree with their models and satisfy the property.
   bit 0 (1)  some implementation differs from its model      bit 2 (4)  tokio differs from its model
   bit 1 (2)  the property is violated                        bit 3 (8)  smol differs from its model
   bit 4 (16) tokio's history violates the property           bit 5 (32) smol's history violates it
   bit 6 (64) the two crates differ from each other *)
Definition check (c : ncase) : N :=
  let mt := negb (nn_eqb (model_outs tokio_impl c) (nc_tokio c)) in
  let ms := negb (nn_eqb (model_outs smol_impl c) (nc_smol c)) in
  let st := negb (spec_okb (nc_ops c) (nc_tokio c)) in
  let ss := negb (spec_okb (nc_ops c) (nc_smol c)) in
  let df := negb (nn_eqb (nc_tokio c) (nc_smol c)) in
  ((if mt || ms then 1 else 0) + (if st || ss || df then 2 else 0) +
   (if mt then 4 else 0) + (if ms then 8 else 0) + (if st then 16 else 0) +
   (if ss then 32 else 0) + (if df then 64 else 0))%N.

(* for replay files *)
Definition show (c : ncase) :=
  (model_outs tokio_impl c, model_outs smol_impl c, map enc_out (run abs_impl (nc_ops c))).
