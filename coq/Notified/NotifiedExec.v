(* Correspondence driver for C20: evaluates both models on an operation list and compares with
   what the two real crates produced (lists of N, see harness/src/bin/notified.rs); evaluates the
   property itself (the vocabulary of Notified.v: received / sets_after / once_expect) directly on
   the implementations' observable histories. *)
From ZV Require Import Common.Exec Notified.Notified.

Definition enc_cont (c : cont) : N := match c with CNone => 0 | CFalse => 1 | CTrue => 2 end%N.
Definition enc_out (o : out) : list N :=
  match o with
  | ODone => [0] | OSet g => [1; g] | OItem v c => [2; 1; v; enc_cont c] | OPending => [3]
  | OEnd => [4] | OGone => [5] | OPanic => [6] | OSub k => [7; N.of_nat k] | OFuel => [8]
  | OGet g => [9; g] | OHandle k => [10; N.of_nat k]
  end%N.

(* implementation result -> out; None for anything the vocabulary has no word for (e.g. a reply
   without parameters) *)
Definition dec_out (l : list N) : option out :=
  match l with
  | [0] => Some ODone
  | [1; g] => Some (OSet g)
  | [2; 1; v; 0] => Some (OItem v CNone)
  | [2; 1; v; 1] => Some (OItem v CFalse)
  | [2; 1; v; 2] => Some (OItem v CTrue)
  | [3] => Some OPending
  | [4] => Some OEnd
  | [5] => Some OGone
  | [6] => Some OPanic
  | [7; k] => Some (OSub (N.to_nat k))
  | [9; g] => Some (OGet g)
  | [10; k] => Some (OHandle (N.to_nat k))
  | _ => None
  end%N.

Fixpoint dec_outs (l : list (list N)) : option (list out) :=
  match l with
  | [] => Some []
  | x :: l' => match dec_out x, dec_outs l' with Some o, Some r => Some (o :: r) | _, _ => None end
  end.

Record ncase := {
  nc_ops : list op;
  nc_tokio : list (list N);     (* zlink_tokio::notified, one result per operation *)
  nc_smol : list (list N);      (* zlink_smol::notified *)
  (* per operation: the subscribers whose waker was woken while it ran (ascending), and
     once_id when the one-shot stream's waker was *)
  nc_tokio_w : list (list N);
  nc_smol_w : list (list N)
}.
Definition once_id : N := 1000000%N.

Definition model_outs (I : impl) (c : ncase) : list (list N) := map enc_out (run I (nc_ops c)).
Definition model_wakes (I : impl) (c : ncase) : list (list N) :=
  map (map N.of_nat) (wakes I (nc_ops c)).
(* the implementation's wakes of subscriber streams (the models do not cover the one-shot's) *)
Definition sub_wakes (w : list (list N)) : list (list N) :=
  map (filter (fun x => negb (x =? once_id)%N)) w.

(* ---------------------------------------------------------------- the property, executable *)

Fixpoint sublistb (a b : list N) : bool :=
  match b with
  | [] => match a with [] => true | _ => false end
  | y :: b' => match a with
               | [] => true
               | x :: a' => if (x =? y)%N then sublistb a' b' else sublistb a b'
               end
  end.

Definition optN_eqb (a b : option N) : bool :=
  match a, b with Some x, Some y => (x =? y)%N | None, None => true | _, _ => false end.

(* some / no State handle exists at the end of the history p (handle indices < length p + 1) *)
Definition any_handle (p : list ev) : bool :=
  existsb (fun h => handle_live h p) (seq 0 (S (length p))).

(* event number i (its prefix is firstn (S i) tr) *)
Definition event_ok (tr : list ev) (i : nat) : bool :=
  let p := firstn (S i) tr in
  let before := firstn i tr in
  match nth_error tr i with
  | Some (Poll s, OItem _ c) => match c with CTrue => true | _ => false end
  | Some (Poll s, OPending) =>
      (* nothing to hand out: the subscriber is up to date with the latest value set, and the
         state still exists (some handle is alive) *)
      any_handle p && optN_eqb (last_opt (received s p)) (last_opt (sets_after s p))
  | Some (Poll s, OEnd) =>
      (* end of stream: only when ALL handles are gone, and nothing was lost *)
      negb (any_handle p) && optN_eqb (last_opt (received s p)) (last_opt (sets_after s p))
  | Some (Set_ h v, OSet g) => handle_live h before && (v =? g)%N
  | Some (Set_ h v, OGone) => negb (handle_live h before)
  | Some (Set_ h v, _) => false
  | Some (Get h, OGet g) => handle_live h before && optN_eqb (nth_error (hvals before) h) (Some g)
  | Some (Get h, OGone) => negb (handle_live h before)
  | Some (Get h, _) => false
  | Some (Subscribe h, OSub _) => handle_live h before
  | Some (Subscribe h, OGone) => negb (handle_live h before)
  | Some (Subscribe h, _) => false
  | Some (CloneH h, OHandle _) => handle_live h before
  | Some (CloneH h, OGone) => negb (handle_live h before)
  | Some (CloneH h, _) => false
  | Some (DropH h, ODone) => handle_live h before
  | Some (DropH h, OGone) => negb (handle_live h before)
  | Some (DropH h, _) => false
  | Some (_, OPanic) => false
  | Some (_, OFuel) => false
  | _ => true
  end.

Definition state_okb (tr : list ev) : bool :=
  forallb (event_ok tr) (seq 0 (length tr)) &&
  forallb (fun s => sublistb (received s tr) (sets_after s tr)) (seq 0 (length tr)).

(* ---------------------------------------------------------------- the wake-up obligation, on
   the implementation's own history: a subscriber whose last poll returned Pending is owed a
   wake-up; by the time the first operation after that which gives it something to receive — a
   set that went through, or the drop of the last handle — returns, its waker must have been
   woken (by that operation or, spuriously, before it).  The same for the one-shot stream and
   notify / drop of the notifier.  (Further wakes are allowed.) *)
Definition memN (x : N) (l : list N) : bool := existsb (fun y => (x =? y)%N) l.
Definition subsetN (a b : list N) : bool := forallb (fun x => memN x b) a.
Definition removeN (x : N) (l : list N) : list N := filter (fun y => negb (x =? y)%N) l.

Fixpoint wake_scan (tr : list ev) (i : nat) (rest : list ev) (ws : list (list N))
                   (reg : list N) (reg_once : bool) : bool :=
  match rest, ws with
  | [], _ => true
  | _ :: _, [] => false
  | e :: rest', w :: ws' =>
      let waking :=
        match e with
        | (Set_ _ _, OSet _) => true
        | (DropH _, ODone) => negb (any_handle (firstn (S i) tr))
        | _ => false
        end in
      let once_waking :=
        match e with (Notify _, ODone) | (DropNotifier, ODone) => true | _ => false end in
      (if waking then subsetN reg w else true) &&
      (if once_waking && reg_once then memN once_id w else true) &&
      (* a stream that was woken (for whatever reason) is polled again by its task: it is no
         longer owed a wake-up until it has returned Pending again *)
      let reg1 := if waking then [] else filter (fun x => negb (memN x w)) reg in
      let reg2 :=
        match e with
        | (Poll s, OPending) => N.of_nat s :: removeN (N.of_nat s) reg1
        | (Poll s, _) => removeN (N.of_nat s) reg1
        | (DropSub s, ODone) => removeN (N.of_nat s) reg1
        | _ => reg1
        end in
      let ro :=
        match e with
        | (PollOnce, OPending) => true
        | (PollOnce, _) => false
        | _ => if once_waking then false else reg_once
        end in
      wake_scan tr (S i) rest' ws' reg2 ro
  end.
Definition wake_okb (tr : list ev) (ws : list (list N)) : bool := wake_scan tr 0 tr ws [] false.

(* The implementation's wake-ups against the model's.  tokio: equal.  smol: event-listener
   forwards a notification when a listener that was notified but not polled since is dropped
   (drop of a stream), which wakes one further registered stream early.  Such an early wake-up
   can only come with a DropSub; the woken stream is then not woken again by the notification the
   model expects.  `early` = streams woken since their last poll. *)
Fixpoint smol_wakes_scan (ops : list op) (mw iw : list (list N)) (early : list N) : bool :=
  match ops, mw, iw with
  | [], [], [] => true
  | o :: ops', m :: mw', w :: iw' =>
      subsetN (filter (fun x => negb (memN x early)) m) w &&
      (match o with DropSub _ => true | _ => subsetN w m end) &&
      let early1 := w ++ early in
      let early2 := match o with Poll s => removeN (N.of_nat s) early1 | _ => early1 end in
      smol_wakes_scan ops' mw' iw' early2
  | _, _, _ => false
  end.

Definition out_eqb (a b : out) : bool := list_eqb N.eqb (enc_out a) (enc_out b).

Definition spec_okb (ops : list op) (outs : list (list N)) : bool :=
  match dec_outs outs with
  | None => false
  | Some os =>
      Nat.eqb (length os) (length ops) &&
      let tr := combine ops os in
      state_okb tr && list_eqb out_eqb (once_outs tr) (once_expect ops)
  end.
Definition wakespec_okb (ops : list op) (outs ws : list (list N)) : bool :=
  match dec_outs outs with
  | None => false
  | Some os => wake_okb (combine ops os) ws
  end.

(* 0 = both implementations agree with their models and satisfy the property.
   bit 0 (1)  some implementation differs from its model      bit 2 (4)  tokio differs from its model
   bit 1 (2)  the property is violated                        bit 3 (8)  smol differs from its model
   bit 4 (16) tokio's history violates the property           bit 5 (32) smol's history violates it
   bit 6 (64) the two crates differ from each other (results)
   bit 7 (128) tokio's wakes differ from its model            bit 8 (256) smol's wakes differ
   bit 9 (512) tokio misses a wake-up it owes                 bit 10 (1024) smol misses one *)
Definition check (c : ncase) : N :=
  let mt := negb (nn_eqb (model_outs tokio_impl c) (nc_tokio c)) in
  let ms := negb (nn_eqb (model_outs smol_impl c) (nc_smol c)) in
  let st := negb (spec_okb (nc_ops c) (nc_tokio c)) in
  let ss := negb (spec_okb (nc_ops c) (nc_smol c)) in
  let df := negb (nn_eqb (nc_tokio c) (nc_smol c)) in
  let wt := negb (nn_eqb (model_wakes tokio_impl c) (sub_wakes (nc_tokio_w c))) in
  let ws := negb (smol_wakes_scan (nc_ops c) (model_wakes smol_impl c) (sub_wakes (nc_smol_w c)) []) in
  let ct := negb (wakespec_okb (nc_ops c) (nc_tokio c) (nc_tokio_w c)) in
  let cs := negb (wakespec_okb (nc_ops c) (nc_smol c) (nc_smol_w c)) in
  ((if mt || ms || wt || ws then 1 else 0) + (if st || ss || df || ct || cs then 2 else 0) +
   (if mt then 4 else 0) + (if ms then 8 else 0) + (if st then 16 else 0) +
   (if ss then 32 else 0) + (if df then 64 else 0) + (if wt then 128 else 0) +
   (if ws then 256 else 0) + (if ct then 512 else 0) + (if cs then 1024 else 0))%N.

(* for replay files *)
Definition show (c : ncase) :=
  (model_outs tokio_impl c, model_outs smol_impl c, map enc_out (run abs_impl (nc_ops c)),
   model_wakes abs_impl c).
