(* A generic induction principle over runs of the Server model, and the queue discipline of reply
   streams: what the streams named key yielded, followed by what is still queued for that name, is
   exactly what the environment pushed for it, in order (C10: items are delivered in order). *)
From ZV Require Import Server.Server Server.ServerLists Server.ServerStruct Server.ServerSpec.
From Coq Require Import Lia.

Section Queue.
Variable P : params.

(* an invariant of (state, trace so far, script so far) that every environment event and every
   iteration of the loop preserves holds after every run *)
Lemma exec_invariant (I : sv P -> list (tev P) -> list (eev P) -> Prop) :
  (forall s T E e, e <> Poll -> I s T E -> I (apply_env P e s) T (E ++ [e])) ->
  (forall s T E, I s T E -> I s T (E ++ [Poll])) ->
  (forall s T E st s' t, I s T E -> iteration P s = (st, s', t) -> I s' (T ++ t) E) ->
  (forall s T E r, I s T E -> I (set_stat s r) T E) ->
  forall E2 s T E s' T', I s T E -> exec P E2 s = (s', T') -> I s' (T ++ T') (E ++ E2).
Proof.
  intros Henv Hpoll Hiter Hstat.
  assert (Hloop : forall fuel s T E r s' t, I s T E -> poll_loop P fuel s = (r, s', t) -> I s' (T ++ t) E).
  { induction fuel as [|fuel IH]; intros s T E r s' t H Hl; cbn in Hl.
    - inversion Hl; subst. now rewrite app_nil_r.
    - destruct (iteration P s) as [[ist s1] t1] eqn:Ei. pose proof (Hiter _ _ _ _ _ _ H Ei) as H1.
      destruct ist.
      + destruct (poll_loop P fuel s1) as [[r1 s2] t2] eqn:El. inversion Hl; subst.
        rewrite app_assoc. eapply IH; eauto.
      + inversion Hl; subst; auto.
      + inversion Hl; subst; auto. }
  induction E2 as [|e E2 IH]; intros s T E s' T' H He; cbn in He.
  - inversion He; subst. now rewrite !app_nil_r.
  - destruct (step_env P e s) as [s1 t1] eqn:Es. destruct (exec P E2 s1) as [s2 t2] eqn:Ee.
    inversion He; subst. rewrite app_assoc.
    replace (E ++ e :: E2) with ((E ++ [e]) ++ E2) by (now rewrite <- app_assoc).
    eapply IH; [|exact Ee].
    assert (Hnp : e <> Poll -> I s1 (T ++ t1) (E ++ [e])).
    { intros Hne. assert (Hs' : step_env P e s = (apply_env P e s, [])) by (destruct e; try reflexivity; congruence).
      rewrite Hs' in Es. inversion Es; subst. rewrite app_nil_r. now apply Henv. }
    destruct e; try (apply Hnp; discriminate). clear Hnp. cbn [step_env] in Es.
    destruct (stat s); try (inversion Es; subst; rewrite app_nil_r; now apply Hpoll).
    unfold poll_server in Es. destruct (poll_loop P (S (measure P s)) s) as [[r s3] t3] eqn:El.
    inversion Es; subst. apply Hstat. apply Hpoll in H. eapply Hloop; eauto.
Qed.

(* ---------- queue discipline ---------- *)
Lemma pending_app key q1 q2 : pending P key (q1 ++ q2) = pending P key q1 ++ pending P key q2.
Proof. unfold pending. apply flat_map_app. Qed.

Lemma yields_app key T1 T2 : yields P key (T1 ++ T2) = yields P key T1 ++ yields P key T2.
Proof. unfold yields. apply flat_map_app. Qed.

Lemma pushes_app key E1 E2 : pushes P key (E1 ++ E2) = pushes P key E1 ++ pushes P key E2.
Proof.
  induction E1 as [|e E1 IH]; [reflexivity|]. destruct e; cbn; auto;
    destruct (Nat.eqb _ key); cbn; now rewrite IH.
Qed.

Lemma pop_key_pending k key q e q' : pop_key P k q = Some (e, q') ->
  pending P key q = (if Nat.eqb k key then [e] else []) ++ pending P key q'.
Proof.
  revert e q'. induction q as [|[k0 e0] q IH]; intros e q' H; cbn in H; [discriminate|].
  destruct (Nat.eqb k0 k) eqn:E.
  - inversion H; subst. apply Nat.eqb_eq in E. subst k0. unfold pending. cbn. destruct (Nat.eqb k key); reflexivity.
  - destruct (pop_key P k q) as [[e1 q1]|]; [|discriminate]. inversion H; subst.
    specialize (IH _ _ eq_refl). unfold pending in *. cbn [flat_map fst snd]. rewrite IH.
    destruct (Nat.eqb k0 key) eqn:E0; destruct (Nat.eqb k key) eqn:E1; cbn; auto.
    apply Nat.eqb_eq in E0. apply Nat.eqb_eq in E1. apply Nat.eqb_neq in E. congruence.
Qed.

Lemma pop_key_none_pending k q : pop_key P k q = None -> pending P k q = [].
Proof.
  induction q as [|[k0 e0] q IH]; intros H; [reflexivity|]. cbn in H.
  destruct (Nat.eqb k0 k) eqn:E; [discriminate|].
  destruct (pop_key P k q) as [[e1 q1]|]; [discriminate|]. unfold pending in *. cbn. rewrite E. now apply IH.
Qed.

Lemma handle_call_yields key cl x st h st' t : handle_call P cl x st = (h, st', t) -> yields P key t = [].
Proof.
  unfold handle_call, reply_with, write_conn. destruct (handle P cl st) as [ans s1].
  destruct (oneway P cl); [intros H; inversion H; subst; destruct ans; reflexivity|].
  destruct ans as [p|e|].
  - destruct (existsb _ _); intros H; inversion H; subst; reflexivity.
  - destruct (existsb _ _); intros H; inversion H; subst; reflexivity.
  - intros H; inversion H; subst; reflexivity.
Qed.

Lemma iteration_queue key s st s' t : iteration P s = (st, s', t) ->
  pending P key (squeue s) = yields P key t ++ pending P key (squeue s').
Proof.
  unfold iteration. destruct (accq s) as [|[x|] q].
  - destruct (scan_calls P _ (conns s)) as [[[i r]|] cs].
    + unfold on_call. destruct (nth_error cs i) as [x|]; [|intros H; inversion H; reflexivity].
      destruct r as [[cl|]| | |]; try solve [intros H; inversion H; subst; reflexivity].
      destruct (handle_call P cl x (sst s)) as [[h st'] t'] eqn:Eh.
      pose proof (handle_call_yields key _ _ _ _ _ _ Eh) as Hy.
      destruct h; intros H; inversion H; subst; cbn [squeue set_conns set_streams set_sst set_lastc];
        rewrite ?yields_app, Hy; reflexivity.
    + destruct (scan_streams P _ _ _) as [[[idx e] q']|] eqn:Ess; [|intros H; inversion H; reflexivity].
      destruct (scan_streams_some P _ _ _ _ _ _ Ess) as (k & x & En & Hpop).
      cbn [streams squeue set_conns] in En, Hpop.
      rewrite (pop_key_pending _ key _ _ _ Hpop).
      unfold on_stream. cbn [streams set_conns set_squeue]. rewrite En.
      destruct e as [r|].
      * unfold write_conn. destruct (existsb _ _); intros H; inversion H; subst;
          cbn [squeue set_streams set_lasts set_squeue set_conns]; unfold yields; cbn;
          destruct (Nat.eqb k key); reflexivity.
      * intros H; inversion H; subst. cbn [squeue set_streams set_lasts set_squeue set_conns].
        unfold yields. cbn. destruct (Nat.eqb k key); reflexivity.
  - intros H; inversion H; subst. reflexivity.
  - intros H; inversion H; subst. cbn [squeue set_streams set_conns set_accq].
    assert (Hy : yields P key (exit_trace P s) = []).
    { unfold exit_trace. rewrite !yields_app.
      assert (H1 : yields P key (flat_map (fun x : nat * conn => [TSDrop (cid (snd x)) (fst x); TDrop (cid (snd x))]) (streams s)) = []).
      { induction (streams s) as [|y l IH]; [reflexivity|]. cbn [flat_map]. now rewrite yields_app, IH. }
      assert (H2 : yields P key (map (fun c => TDrop (cid c)) (conns s)) = []).
      { induction (conns s) as [|y l IH]; [reflexivity|]. cbn [map]. change (TDrop (cid y) :: ?l0) with ([@TDrop P (cid y)] ++ l0).
        exact IH. }
      now rewrite H1, H2. }
    now rewrite Hy.
Qed.

(* C10: in every run, for every stream name: yielded ++ still queued = pushed *)
Theorem queue_discipline key E s0 s T : exec P E (init_sv P s0) = (s, T) ->
  yields P key T ++ pending P key (squeue s) = pushes P key E.
Proof.
  intros He.
  apply (exec_invariant (fun s T E => yields P key T ++ pending P key (squeue s) = pushes P key E)
           ) with (E2 := E) (s := init_sv P s0) (T := []) (E := []) (s' := s) (T' := T); auto.
  - intros s1 T1 E1 e Hne H. rewrite pushes_app, <- H.
    destruct e; cbn [apply_env squeue set_squeue set_accq set_known on_conn set_streams set_conns pushes];
      rewrite ?app_nil_r; try reflexivity; try congruence.
    + destruct (existsb _ _); reflexivity.
    + rewrite pending_app, app_assoc. unfold pending at 2. cbn. destruct (Nat.eqb key0 key); reflexivity.
    + rewrite pending_app, app_assoc. unfold pending at 2. cbn. destruct (Nat.eqb key0 key); reflexivity.
  - intros s1 T1 E1 H. rewrite pushes_app. cbn. now rewrite app_nil_r.
  - intros s1 T1 E1 st s1' t H Hit. rewrite yields_app, <- app_assoc, <- (iteration_queue key _ _ _ _ Hit). exact H.
Qed.

End Queue.
