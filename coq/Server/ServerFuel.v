(* The fuel [S (measure s)] that [poll_server] gives to the loop always suffices: every iteration
   that makes progress lowers [measure]; so one poll of the server future makes at most
   [measure s] iterations and the model never reports OutOfFuel.  No hypothesis on the clients. *)
From ZV Require Import Server.Server Server.ServerLists Server.ServerStruct Server.ServerSpec
  Server.ServerSurvive Framing.ReadConnProofs.
From Coq Require Import Lia.

(* ---------- weights of lists ---------- *)
Section Wsum.
Context {A : Type} (w : A -> nat).
Definition wsum (l : list A) : nat := list_sum (map w l).

Lemma wsum_app l1 l2 : wsum (l1 ++ l2) = wsum l1 + wsum l2.
Proof. unfold wsum. now rewrite map_app, list_sum_app. Qed.

Lemma wsum_cons x l : wsum (x :: l) = w x + wsum l.
Proof. reflexivity. Qed.

Lemma wsum_swap_remove l i x : nth_error l i = Some x -> wsum l = w x + wsum (swap_remove i l).
Proof.
  intros H. destruct (swap_remove_cases _ _ _ H) as [(l1 & -> & _ & ->)|(l1 & l2 & z & -> & _ & ->)];
    rewrite ?wsum_app, ?wsum_cons, ?wsum_app, ?wsum_cons; cbn; lia.
Qed.

Lemma wsum_upd_nth l i x x' : nth_error l i = Some x -> wsum (upd_nth i x' l) + w x = wsum l + w x'.
Proof.
  intros H. destruct (upd_nth_cases _ _ _ x' H) as (l1 & l2 & -> & _ & ->).
  rewrite !wsum_app, !wsum_cons. lia.
Qed.
End Wsum.

Section ReadWeight.
Variables (step limit : N) (D : Type) (decode : list byte -> D).

Definition rw (s : st) (tr : list ev) : nat := length tr + 2 * length (payload tr) + length (data s).

Lemma cons_rest_weight space bs tr' : 0 < space -> bs <> [] ->
  length (cons_rest space bs tr') + 2 * length (payload (cons_rest space bs tr')) + length (firstn space bs)
  < S (length tr') + 2 * (length bs + length (payload tr')).
Proof.
  intros Hs Hb. rewrite payload_cons_rest, app_length.
  assert (H1 : length (cons_rest space bs tr') <= S (length tr')).
  { unfold cons_rest. destruct (skipn space bs); cbn; lia. }
  assert (H2 : length (firstn space bs) + length (skipn space bs) = length bs).
  { rewrite <- app_length, firstn_skipn. reflexivity. }
  assert (H3 : 0 < length (firstn space bs)).
  { destruct bs; [congruence|]. destruct space; [lia|]. cbn. lia. }
  lia.
Qed.

Ltac fin := split; [|split; [|split]];
  [try reflexivity; auto | try lia; auto | try (intros X; discriminate X); try lia
  | intros e0 d0 X; inversion X; subst; discriminate].

Lemma read_loop_weight : forall fuel s tr r s' tr',
  read_loop step limit D fuel s tr = (r, s', tr') ->
  mpos s' = mpos s /\ rw s' tr' <= rw s tr /\ (r = LOk D -> rw s' tr' < rw s tr) /\
  (forall e d, r = LErr D e -> e <> Msg d).
Proof.
  induction fuel as [|fuel IH]; intros s tr r s' tr' H; cbn in H.
  - inversion H; subst. fin.
  - destruct tr as [|e tr0].
    + inversion H; subst. fin.
    + destruct e as [bs| | |].
      * destruct bs as [|b bs0].
        { inversion H; subst. fin. }
        set (bs := b :: bs0) in *.
        set (space := N.to_nat (cap s) - length (data s)) in *.
        destruct (Nat.eqb space 0) eqn:Esp.
        { inversion H; subst. fin. }
        apply Nat.eqb_neq in Esp.
        pose proof (cons_rest_weight space bs tr0 ltac:(lia) ltac:(discriminate)) as Hw.
        assert (Hstep : forall c', rw (mk c' (mpos s) (data s ++ firstn space bs)) (cons_rest space bs tr0)
                                   < rw s (Data bs :: tr0)).
        { intros c'. unfold rw. cbn [data payload length]. rewrite !app_length. lia. }
        assert (Hgen : forall c',
                  (if last_is_nul (firstn space bs)
                   then (LOk D, mk c' (mpos s) (data s ++ firstn space bs), cons_rest space bs tr0)
                   else read_loop step limit D fuel (mk c' (mpos s) (data s ++ firstn space bs))
                                  (cons_rest space bs tr0)) = (r, s', tr') ->
                  mpos s' = mpos s /\ rw s' tr' <= rw s (Data bs :: tr0) /\
                  (r = LOk D -> rw s' tr' < rw s (Data bs :: tr0)) /\
                  (forall e d, r = LErr D e -> e <> Msg d)).
        { intros c' Hc. specialize (Hstep c'). destruct (last_is_nul (firstn space bs)).
          - inversion Hc; subst. cbn [mpos]. split; [reflexivity|]. split; [lia|]. split; [intros _; lia|].
            intros e0 d0 X; discriminate X.
          - destruct (IH _ _ _ _ _ Hc) as (Hm & Hle & Hlt & Herr). cbn [mpos] in Hm.
            split; [exact Hm|]. split; [lia|]. split; [|exact Herr]. intros Hr. specialize (Hlt Hr). lia. }
        destruct (N.eqb (N.of_nat (length (data s ++ firstn space bs))) (cap s)).
        -- destruct (N.leb limit (cap s)).
           ++ inversion H; subst. specialize (Hstep (cap s)). cbn [mpos].
              split; [reflexivity|]. split; [lia|]. split; [intros X; discriminate X|].
              intros e0 d0 X; inversion X; subst; discriminate.
           ++ apply (Hgen _ H).
        -- apply (Hgen _ H).
      * inversion H; subst. unfold rw. cbn [length payload]. fin.
      * inversion H; subst. fin.
      * inversion H; subst. unfold rw. cbn [length payload]. fin.
Qed.

(* ---------- delivery ---------- *)
Definition cw (s : st) : nat := (length (data s) - mpos s) + (if Nat.eqb (mpos s) 0 then 0 else 1).

Lemma after_nul_split l b rest : after_nul l = b :: rest -> l = upto_nul l ++ 0%N :: b :: rest.
Proof.
  induction l as [|x l IH]; cbn; [discriminate|]. destruct x as [|p].
  - intros ->. reflexivity.
  - intros H. cbn. f_equal. now apply IH.
Qed.

Lemma deliver_weight s : cw (snd (deliver D decode s)) <= length (data s) - mpos s.
Proof.
  unfold deliver. cbn [snd].
  destruct (after_nul (skipn (mpos s) (data s))) as [|b rest] eqn:Ea; [cbn; lia|].
  destruct b as [|p]; [cbn; lia|].
  apply after_nul_split in Ea.
  assert (Hl : length (skipn (mpos s) (data s)) = length (data s) - mpos s) by apply skipn_length.
  rewrite Ea, app_length in Hl. cbn [length] in Hl.
  unfold cw. cbn [data mpos].
  destruct (Nat.eqb (mpos s + length (upto_nul (skipn (mpos s) (data s))) + 1) 0) eqn:E;
    [apply Nat.eqb_eq in E; lia|]. lia.
Qed.

End ReadWeight.

Section Fuel.
Variable P : params.
Notation D := (option (call P)).

Lemma conn_weight_eq x : conn_weight x = length (ctr x) + 2 * length (payload (ctr x)) + cw (rst x) + 1.
Proof. unfold conn_weight, cw. lia. Qed.

Lemma poll_conn_weight x r x' : poll_conn P x = (r, x') ->
  conn_weight x' <= conn_weight x /\ (forall d, r = Some (Msg d) -> conn_weight x' < conn_weight x).
Proof.
  unfold poll_conn, poll_receive, read_from_socket. rewrite !conn_weight_eq.
  destruct (Nat.eqb (mpos (rst x)) 0) eqn:Em.
  - apply Nat.eqb_eq in Em.
    destruct (read_loop _ _ _ _ _ _) as [[rl s1] tr1] eqn:Er.
    destruct (read_loop_weight _ _ _ _ _ _ _ _ _ Er) as (Hm & Hle & Hlt & Herr).
    unfold rw in *. rewrite Em in Hm.
    assert (Hcw0 : cw (rst x) = length (data (rst x))) by (unfold cw; rewrite Em; cbn; lia).
    destruct rl as [|e|].
    + pose proof (deliver_weight D (decode P) s1) as Hd. rewrite Hm, Nat.sub_0_r in Hd.
      destruct (deliver D (decode P) s1) as [r2 s2]. cbn [snd] in Hd.
      intros H; inversion H; subst. cbn [rst ctr]. specialize (Hlt eq_refl).
      split; [lia|]. intros; lia.
    + intros H; inversion H; subst. cbn [rst ctr].
      assert (cw s1 = length (data s1)) by (unfold cw; rewrite Hm; cbn; lia).
      split; [lia|]. intros d Hd. inversion Hd; subst. exfalso. exact (Herr _ d eq_refl eq_refl).
    + intros H; inversion H; subst. cbn [rst ctr].
      assert (cw s1 = length (data s1)) by (unfold cw; rewrite Hm; cbn; lia).
      split; [lia|]. intros d Hd. discriminate.
  - apply Nat.eqb_neq in Em.
    pose proof (deliver_weight D (decode P) (rst x)) as Hd.
    destruct (deliver D (decode P) (rst x)) as [r2 s2]. cbn [snd] in Hd.
    intros H; inversion H; subst. cbn [rst ctr].
    assert (cw (rst x) = length (data (rst x)) - mpos (rst x) + 1).
    { unfold cw. destruct (Nat.eqb (mpos (rst x)) 0) eqn:E; [apply Nat.eqb_eq in E; lia|lia]. }
    split; [lia|]. intros; lia.
Qed.

Lemma conn_weight_pos x : 0 < conn_weight x.
Proof. unfold conn_weight. lia. Qed.

(* the scan never raises the total weight of the call list, and lowers it when it delivers a call *)
Lemma scan_calls_weight : forall order cs res cs',
  scan_calls P order cs = (res, cs') ->
  wsum conn_weight cs' <= wsum conn_weight cs /\
  (forall i d, res = Some (i, Msg d) -> wsum conn_weight cs' < wsum conn_weight cs).
Proof.
  induction order as [|i o IH]; intros cs res cs' H; cbn in H.
  - inversion H; subst. split; [lia|]. intros; discriminate.
  - destruct (nth_error cs i) as [x|] eqn:E.
    2:{ inversion H; subst. split; [lia|]. intros; discriminate. }
    destruct (poll_conn P x) as [r x'] eqn:Ep.
    destruct (poll_conn_weight _ _ _ Ep) as (Hle & Hlt).
    pose proof (wsum_upd_nth conn_weight cs i x x' E) as Hu.
    destruct r as [r|].
    + inversion H; subst. split; [lia|]. intros i0 d Hd. inversion Hd; subst. specialize (Hlt d eq_refl). lia.
    + destruct (IH _ _ _ H) as (H1 & H2). split; [lia|]. intros i0 d Hd. specialize (H2 _ _ Hd). lia.
Qed.

Definition acc_weight (a : option conn) : nat := match a with Some c => 1 + conn_weight c | None => 1 end.
Definition sweight (kx : nat * conn) : nat := conn_weight (snd kx).

Lemma measure_eq s : measure P s = wsum acc_weight (accq s) + wsum conn_weight (conns s)
                                   + wsum sweight (streams s) + length (squeue s).
Proof. reflexivity. Qed.

Lemma pop_key_length key q e q' : pop_key P key q = Some (e, q') -> length q = S (length q').
Proof.
  revert e q'. induction q as [|[k e0] q IH]; intros e q' H; cbn in H; [discriminate|].
  destruct (Nat.eqb k key).
  - inversion H; subst. reflexivity.
  - destruct (pop_key P key q) as [[e1 q1]|]; [|discriminate]. inversion H; subst.
    cbn. f_equal. eapply IH; eauto.
Qed.

Lemma write_conn_weight x m ok x' t : write_conn P x m = (ok, x', t) -> conn_weight x' = conn_weight x.
Proof. unfold write_conn. destruct (existsb _ _); intros H; inversion H; subst; reflexivity. Qed.

Lemma handle_call_weight cl x st h st' t : handle_call P cl x st = (h, st', t) ->
  match h with HKeep x' | HFail x' => conn_weight x' = conn_weight x | HPark _ => True end.
Proof.
  unfold handle_call, reply_with. destruct (handle P cl st) as [ans s1].
  destruct (oneway P cl); [intros H; inversion H; subst; reflexivity|].
  destruct ans as [p|e|].
  - destruct (write_conn P x (WSingle p)) as [[ok x'] t'] eqn:Ew.
    pose proof (write_conn_weight _ _ _ _ _ Ew). intros H0; inversion H0; subst. destruct ok; auto.
  - destruct (write_conn P x (WError e)) as [[ok x'] t'] eqn:Ew.
    pose proof (write_conn_weight _ _ _ _ _ Ew). intros H0; inversion H0; subst. destruct ok; auto.
  - intros H; inversion H; subst. exact I.
Qed.

(* every iteration that makes progress lowers the measure *)
Theorem iteration_measure s s' t : iteration P s = (Progress, s', t) -> measure P s' < measure P s.
Proof.
  rewrite !measure_eq. unfold iteration. destruct (accq s) as [|[x|] q] eqn:Ea.
  - destruct (scan_calls P (poll_order (lastc s) (length (conns s))) (conns s)) as [res cs] eqn:Es.
    destruct (scan_calls_weight _ _ _ _ Es) as (Hle & Hlt).
    assert (Hall : Forall (fun _ : conn => True) (conns s)) by (apply Forall_forall; intros; exact I).
    pose proof (scan_calls_ind P (fun _ => True) (fun _ _ => True) (fun _ _ _ _ => I) (fun _ _ _ _ _ => I)
                  _ _ _ _ Hall Es) as Hscan.
    destruct res as [[i r]|].
    + destruct Hscan as (l1 & x & l2 & -> & <- & _).
      unfold on_call. rewrite nth_error_mid.
      pose proof (nth_error_mid l1 x l2) as En.
      pose proof (wsum_swap_remove conn_weight _ _ _ En) as Hrem.
      pose proof (conn_weight_pos x) as Hpos.
      destruct r as [[cl|]| | |];
        try (intros H; inversion H; subst; cbn [accq conns streams squeue set_conns set_lastc]; rewrite Ea; lia).
      specialize (Hlt _ _ eq_refl).
      destruct (handle_call P cl x (sst s)) as [[h st'] t'] eqn:Eh.
      pose proof (handle_call_weight _ _ _ _ _ _ Eh) as Hh.
      destruct h as [x'|x'|key]; intros H; inversion H; subst;
        cbn [accq conns streams squeue set_conns set_streams set_sst set_lastc]; rewrite Ea.
      * pose proof (wsum_upd_nth conn_weight _ _ _ x' En). lia.
      * lia.
      * rewrite wsum_app, wsum_cons. change (sweight (key, x)) with (conn_weight x).
        change (wsum sweight []) with 0. lia.
    + destruct (scan_streams P _ _ _) as [[[idx e] q']|] eqn:Ess; [|intros H; inversion H].
      destruct (scan_streams_some P _ _ _ _ _ _ Ess) as (key & x & En & Hpop).
      cbn [streams squeue set_conns] in En, Hpop. apply pop_key_length in Hpop.
      unfold on_stream. cbn [streams set_conns set_squeue]. rewrite En.
      pose proof (wsum_swap_remove sweight _ _ _ En) as Hrem.
      change (sweight (key, x)) with (conn_weight x) in Hrem.
      pose proof (conn_weight_pos x) as Hpos.
      destruct e as [r|].
      * destruct (write_conn P x (WItem r)) as [[ok x'] t'] eqn:Ew.
        pose proof (write_conn_weight _ _ _ _ _ Ew) as Hw.
        destruct ok; intros H; inversion H; subst;
          cbn [accq conns streams squeue set_conns set_streams set_lasts set_squeue]; rewrite Ea.
        -- pose proof (wsum_upd_nth sweight _ _ _ (key, x') En) as Hu.
           change (sweight (key, x)) with (conn_weight x) in Hu.
           change (sweight (key, x')) with (conn_weight x') in Hu. lia.
        -- lia.
      * intros H; inversion H; subst.
        cbn [accq conns streams squeue set_conns set_streams set_lasts set_squeue]. rewrite Ea.
        rewrite wsum_app, wsum_cons. change (wsum conn_weight []) with 0.
        clear - Hle Hrem Hpop Hpos. revert Hle Hrem Hpop Hpos.
        generalize (wsum conn_weight cs) (wsum conn_weight (conns s)) (wsum sweight (streams s))
                   (wsum sweight (swap_remove idx (streams s))) (conn_weight x)
                   (length (squeue s)) (length q') (wsum acc_weight []).
        intros. lia.
  - intros H; inversion H; subst. cbn [accq conns streams squeue set_conns set_accq].
    rewrite wsum_cons, wsum_app, wsum_cons. change (acc_weight (Some x)) with (1 + conn_weight x).
    change (wsum conn_weight []) with 0. lia.
  - intros H; inversion H.
Qed.

Lemma poll_loop_fuel : forall fuel s r s' t, measure P s < fuel -> poll_loop P fuel s = (r, s', t) ->
  r <> OutOfFuel.
Proof.
  induction fuel as [|fuel IH]; intros s r s' t Hm H; [lia|]. cbn in H.
  destruct (iteration P s) as [[ist s1] t1] eqn:Ei.
  destruct (iteration_conserve P _ _ _ _ Ei) as (_ & Hnf & _).
  destruct ist.
  - pose proof (iteration_measure _ _ _ Ei).
    destruct (poll_loop P fuel s1) as [[r1 s2] t2] eqn:El. inversion H; subst.
    eapply IH; [|exact El]. lia.
  - inversion H; subst. discriminate.
  - inversion H; subst. congruence.
Qed.

(* the model never runs out of fuel, for any script *)
Theorem never_out_of_fuel : forall E s0 s T, exec P E (init_sv P s0) = (s, T) -> stat s <> OutOfFuel.
Proof.
  intros E s0 s T He.
  assert (Hgen : forall E s s' T, stat s <> OutOfFuel -> exec P E s = (s', T) -> stat s' <> OutOfFuel).
  { clear. induction E as [|e E IH]; intros s s' T Hs He; cbn in He.
    - inversion He; subst. exact Hs.
    - destruct (step_env P e s) as [s1 t1] eqn:Es. destruct (exec P E s1) as [s2 t2] eqn:Ee.
      inversion He; subst. eapply IH; [|exact Ee].
      destruct e; cbn [step_env] in Es; try (inversion Es; subst; cbn; auto; fail).
      + inversion Es; subst. cbn. destruct (existsb _ _); auto.
      + destruct (stat s) eqn:Est; try (inversion Es; subst; congruence).
        unfold poll_server in Es. destruct (poll_loop P (S (measure P s)) s) as [[r s3] t3] eqn:El.
        inversion Es; subst. cbn. eapply poll_loop_fuel; [|exact El]. lia. }
  apply (Hgen E _ _ _ (fun X : stat (init_sv P s0) = OutOfFuel => ltac:(discriminate X)) He).
Qed.

(* C09: whatever the clients do, the status of the server is Running unless the listener failed *)
Theorem server_survives E s0 s T : exec P E (init_sv P s0) = (s, T) ->
  (~ In ListenerFail E -> stat s = Running) /\
  (stat s = Exited -> has_lfail P E = true) /\
  stat s <> Panicked /\ stat s <> OutOfFuel.
Proof.
  intros He. pose proof (never_out_of_fuel _ _ _ _ He) as Hf.
  destruct (dropped_at_most_once P _ _ _ _ He) as (_ & _ & Hp).
  split; [|split; [apply (exit_only_on_listener_error P _ _ _ _ He)|auto]].
  intros Hn. destruct (survives P E s0 s T Hn He) as (H1 & _).
  destruct (stat s); congruence.
Qed.

End Fuel.
