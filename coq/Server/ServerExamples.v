(* A tiny concrete service for the non-vacuity examples under coq/props: frames are their own
   calls; the first byte selects the answer ('e' error, 's' stream, '!' undecodable, anything else
   a single reply), an 'o' in second position marks the call oneway, the last byte names the client. *)
From ZV Require Import Server.Server.
Local Open Scope N_scope.

Definition ex_decode (f : list byte) : option (list byte) :=
  match f with [] => None | 33 :: _ => None | _ => Some f end.
Definition ex_oneway (f : list byte) : bool :=
  match f with _ :: 111 :: _ => true | _ => false end.
Definition ex_key (f : list byte) : nat := N.to_nat (last f 0).
Definition ex_handle (f : list byte) (s : unit) : answer (list byte) (list byte) * unit :=
  match f with
  | 101 :: _ => (AError f, s)
  | 115 :: _ => (AMulti, s)
  | _ => (ASingle f, s)
  end.
Definition ex_render (m : wmsg (list byte) (list byte) (list byte)) : list byte :=
  match m with WSingle p => 82 :: p | WError e => 69 :: e | WItem r => 73 :: r end.

Definition ex_params : params :=
  mkParams 16 64 (list byte) (list byte) (list byte) (list byte) unit
           ex_decode ex_oneway ex_key ex_handle ex_render.

(* run a script, then n further iterations of the loop *)
Fixpoint iterate (n : nat) (s : sv ex_params) : sv ex_params :=
  match n with O => s | S n => iterate n (snd (fst (iteration ex_params s))) end.
Definition after (evs : list (eev ex_params)) : sv ex_params :=
  fst (exec ex_params evs (init_sv ex_params tt)).

(* the example service keeps no state: it is trivially a service with per-connection state *)
From ZV Require Import Server.ServerLocal.
Definition ex_local : local ex_params.
Proof.
  refine (mkLocal ex_params unit (fun _ _ => tt) (fun cl _ => (fst (ex_handle cl tt), tt)) _ _ _).
  - intros cl []. reflexivity.
  - intros cl s. reflexivity.
  - intros cl s k _. reflexivity.
Defined.
