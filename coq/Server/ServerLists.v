(* List lemmas for the Vec operations of the Server model (upd_nth, swap_remove) and counting of
   connection names. *)
From ZV Require Import Server.Server.
From Coq Require Import Lia.

Lemma nth_error_upd_nth_neq {A} (l : list A) i j x : i <> j -> nth_error (upd_nth i x l) j = nth_error l j.
Proof.
  revert i j. induction l as [|h t IH]; intros i j H; [destruct i; reflexivity|].
  destruct i, j; cbn; try congruence; auto.
Qed.

Lemma nth_error_upd_nth_eq {A} (l : list A) i x : i < length l -> nth_error (upd_nth i x l) i = Some x.
Proof.
  revert i. induction l as [|h t IH]; intros i H; cbn in H; [lia|].
  destruct i; cbn; [reflexivity|]. apply IH. lia.
Qed.

Lemma length_upd_nth {A} (l : list A) i x : length (upd_nth i x l) = length l.
Proof. revert i. induction l as [|h t IH]; intros [|i]; cbn; auto. Qed.

Lemma upd_nth_split {A} (l1 l2 : list A) a x : upd_nth (length l1) x (l1 ++ a :: l2) = l1 ++ x :: l2.
Proof. induction l1 as [|h t IH]; cbn; [reflexivity|]. now rewrite IH. Qed.

Lemma swap_remove_last {A} (l1 : list A) a : swap_remove (length l1) (l1 ++ [a]) = l1.
Proof.
  unfold swap_remove. rewrite nth_error_app2 by lia. rewrite Nat.sub_diag. cbn.
  rewrite removelast_last, Nat.eqb_refl. reflexivity.
Qed.

Lemma swap_remove_mid {A} (l1 l2 : list A) a z :
  swap_remove (length l1) (l1 ++ a :: l2 ++ [z]) = l1 ++ z :: l2.
Proof.
  unfold swap_remove. rewrite nth_error_app2 by lia. rewrite Nat.sub_diag. cbn [nth_error].
  replace (l1 ++ a :: l2 ++ [z]) with ((l1 ++ a :: l2) ++ [z]) by (now rewrite <- app_assoc).
  rewrite removelast_last, last_last.
  destruct (Nat.eqb (length l1) (length (l1 ++ a :: l2))) eqn:E.
  - apply Nat.eqb_eq in E. rewrite app_length in E. cbn in E. lia.
  - apply upd_nth_split.
Qed.

(* the two shapes of a swap_remove *)
Lemma swap_remove_cases {A} (l : list A) i x : nth_error l i = Some x ->
  (exists l1, l = l1 ++ [x] /\ length l1 = i /\ swap_remove i l = l1) \/
  (exists l1 l2 z, l = l1 ++ x :: l2 ++ [z] /\ length l1 = i /\ swap_remove i l = l1 ++ z :: l2).
Proof.
  intros H. destruct (nth_error_split _ _ H) as (l1 & l2 & -> & Hlen). subst i.
  destruct l2 as [|y l2].
  - left. exists l1. repeat split. apply swap_remove_last.
  - right. destruct (@exists_last _ (y :: l2)) as (l2' & z & E); [discriminate|].
    rewrite E. exists l1, l2', z. repeat split. apply swap_remove_mid.
Qed.

Lemma upd_nth_cases {A} (l : list A) i x x' : nth_error l i = Some x ->
  exists l1 l2, l = l1 ++ x :: l2 /\ length l1 = i /\ upd_nth i x' l = l1 ++ x' :: l2.
Proof.
  intros H. destruct (nth_error_split _ _ H) as (l1 & l2 & -> & Hlen). subst i.
  exists l1, l2. repeat split. apply upd_nth_split.
Qed.

Lemma Forall_upd_nth {A} (Q : A -> Prop) l i x : Forall Q l -> Q x -> Forall Q (upd_nth i x l).
Proof.
  intros H Hx. revert i. induction H as [|h t Hh Ht IH]; intros [|i]; cbn; auto.
Qed.

Lemma Forall_swap_remove {A} (Q : A -> Prop) l i : Forall Q l -> Forall Q (swap_remove i l).
Proof.
  intros H. destruct (nth_error l i) as [x|] eqn:E.
  - destruct (swap_remove_cases _ _ _ E) as [(l1 & -> & _ & ->)|(l1 & l2 & z & -> & _ & ->)].
    + apply Forall_app in H. tauto.
    + apply Forall_app in H. destruct H as (H1 & H2). inversion H2 as [|? ? _ H3]; subst.
      apply Forall_app in H3. destruct H3 as (H3 & H4). inversion H4; subst.
      apply Forall_app. split; auto.
  - unfold swap_remove. now rewrite E.
Qed.

(* ---------- counting names ---------- *)
Section Count.
Context {A : Type} (name : A -> nat).

Definition cnt1 (c : nat) (x : A) : nat := if Nat.eqb (name x) c then 1 else 0.
Fixpoint cnt (c : nat) (l : list A) : nat :=
  match l with [] => 0 | x :: l' => cnt1 c x + cnt c l' end.

Lemma cnt_app c l1 l2 : cnt c (l1 ++ l2) = cnt c l1 + cnt c l2.
Proof. induction l1 as [|x l IH]; cbn; [reflexivity|]. rewrite IH. lia. Qed.

Lemma cnt_swap_remove c l i x : nth_error l i = Some x -> cnt c l = cnt1 c x + cnt c (swap_remove i l).
Proof.
  intros H. destruct (swap_remove_cases _ _ _ H) as [(l1 & -> & _ & ->)|(l1 & l2 & z & -> & _ & ->)];
    rewrite ?cnt_app; cbn [cnt]; rewrite ?cnt_app; cbn [cnt]; lia.
Qed.

Lemma cnt_upd_nth c l i x x' : nth_error l i = Some x ->
  cnt c (upd_nth i x' l) + cnt1 c x = cnt c l + cnt1 c x'.
Proof.
  intros H. destruct (upd_nth_cases _ _ _ x' H) as (l1 & l2 & -> & _ & ->).
  rewrite !cnt_app. cbn [cnt]. lia.
Qed.

Lemma cnt_zero c l : cnt c l = 0 -> Forall (fun x => name x <> c) l.
Proof.
  induction l as [|x l IH]; cbn; intros H; constructor.
  - unfold cnt1 in H. destruct (Nat.eqb (name x) c) eqn:E; [lia|]. now apply Nat.eqb_neq.
  - apply IH. lia.
Qed.

Lemma cnt_pos_in c l : 0 < cnt c l -> exists x, In x l /\ name x = c.
Proof.
  induction l as [|x l IH]; cbn; [lia|]. unfold cnt1. destruct (Nat.eqb (name x) c) eqn:E.
  - intros _. exists x. split; [now left|now apply Nat.eqb_eq].
  - intros H. destruct IH as (y & Hy & Hn); [lia|]. exists y. split; [now right|exact Hn].
Qed.

Lemma cnt_in c l x : In x l -> name x = c -> 0 < cnt c l.
Proof.
  induction l as [|y l IH]; cbn; [tauto|]. intros [->|H] Hn.
  - unfold cnt1. rewrite Hn, Nat.eqb_refl. lia.
  - specialize (IH H Hn). lia.
Qed.

(* two different positions holding the same name count twice *)
Lemma cnt_two c l i j x y : i <> j -> nth_error l i = Some x -> nth_error l j = Some y ->
  cnt1 c x + cnt1 c y <= cnt c l.
Proof.
  revert i j. induction l as [|h t IH]; intros i j Hij Hi Hj; [destruct i; discriminate|].
  destruct i as [|i], j as [|j]; cbn in *; try congruence.
  - inversion Hi; subst. assert (In y t) by (eapply nth_error_In; eauto).
    unfold cnt1 at 2. destruct (Nat.eqb (name y) c) eqn:E; [|lia].
    apply Nat.eqb_eq in E. pose proof (cnt_in c t y H E). lia.
  - inversion Hj; subst. assert (In x t) by (eapply nth_error_In; eauto).
    unfold cnt1 at 1. destruct (Nat.eqb (name x) c) eqn:E; [|lia].
    apply Nat.eqb_eq in E. pose proof (cnt_in c t x H E). lia.
  - specialize (IH i j ltac:(lia) Hi Hj). lia.
Qed.

Lemma cnt_map_ext c (f : A -> A) l : (forall x, name (f x) = name x) -> cnt c (map f l) = cnt c l.
Proof. intros H. induction l as [|x l IH]; cbn; [reflexivity|]. unfold cnt1. now rewrite H, IH. Qed.

End Count.

Lemma Forall_swap_remove_split {A} (Q : A -> Prop) l1 x l2 :
  Forall Q l1 -> Forall Q l2 -> Forall Q (swap_remove (length l1) (l1 ++ x :: l2)).
Proof.
  intros H1 H2. destruct l2 as [|y l2].
  - now rewrite swap_remove_last.
  - destruct (@exists_last _ (y :: l2)) as (l2' & z & E); [discriminate|].
    rewrite E in *. rewrite swap_remove_mid. apply Forall_app in H2. destruct H2 as (H2 & H3).
    inversion H3; subst. apply Forall_app. split; auto.
Qed.

Lemma nth_error_mid {A} (l1 : list A) x l2 : nth_error (l1 ++ x :: l2) (length l1) = Some x.
Proof. rewrite nth_error_app2 by lia. now rewrite Nat.sub_diag. Qed.

Lemma swap_remove_keeps {A} (l : list A) i j x y : nth_error l i = Some x -> nth_error l j = Some y ->
  i <> j -> In y (swap_remove i l).
Proof.
  intros Hi Hj Hne.
  destruct (swap_remove_cases _ _ _ Hi) as [(l1 & -> & Hl & ->)|(l1 & l2 & z & -> & Hl & ->)].
  - destruct (Nat.lt_ge_cases j (length l1)) as [H|H].
    + rewrite nth_error_app1 in Hj by exact H. eapply nth_error_In; eauto.
    + rewrite nth_error_app2 in Hj by exact H. destruct (j - length l1) as [|k] eqn:E; [lia|].
      cbn in Hj. destruct k; discriminate.
  - destruct (Nat.lt_ge_cases j (length l1)) as [H|H].
    + rewrite nth_error_app1 in Hj by exact H. apply in_app_iff. left. eapply nth_error_In; eauto.
    + rewrite nth_error_app2 in Hj by exact H. destruct (j - length l1) as [|k] eqn:E; [lia|].
      cbn in Hj. apply nth_error_In in Hj. apply in_app_iff in Hj. apply in_app_iff. right.
      destruct Hj as [Hj|[<-|[]]]; [right; exact Hj|now left].
Qed.
