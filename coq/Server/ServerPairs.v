(* No cross talk: every write the server makes is immediately preceded, in the trace, by the event
   it answers (the invocation of the service for a call read from that same connection, or the
   yield of an item by the stream parked with that same connection); and a method-call iteration
   concerns exactly the connection that sits at the selected index. *)
From ZV Require Import Server.Server Server.ServerLists Server.ServerStruct Server.ServerSpec.
From Coq Require Import Lia.

Section Pairs.
Variable P : params.

Definition answers (prev : option (tev P)) (c : nat) (m : wmsg (reply P) (err P) (item P)) : Prop :=
  match m, prev with
  | WSingle p, Some (TInvoke c' cl (ASingle p')) => c' = c /\ p' = p /\ oneway P cl = false
  | WError e, Some (TInvoke c' cl (AError e')) => c' = c /\ e' = e /\ oneway P cl = false
  | WItem r, Some (TSYield c' _ (SItem r')) => c' = c /\ r' = r
  | _, _ => False
  end.

Fixpoint paired (prev : option (tev P)) (T : list (tev P)) : Prop :=
  match T with
  | [] => True
  | e :: T' =>
      match e with
      | TWrite c m | TWriteFail c m => answers prev c m
      | _ => True
      end /\ paired (Some e) T'
  end.

(* a piece of trace that is paired whatever precedes it *)
Definition closed (t : list (tev P)) : Prop := forall prev, paired prev t.

Lemma paired_app prev t1 t2 : paired prev t1 -> closed t2 -> paired prev (t1 ++ t2).
Proof.
  revert prev. induction t1 as [|e t1 IH]; intros prev H1 H2; cbn; [apply H2|].
  destruct H1 as (Ha & H1). split; [exact Ha|]. now apply IH.
Qed.

Lemma closed_app t1 t2 : closed t1 -> closed t2 -> closed (t1 ++ t2).
Proof. intros H1 H2 prev. apply paired_app; auto. Qed.

Definition nowrite (e : tev P) : Prop :=
  match e with TWrite _ _ | TWriteFail _ _ => False | _ => True end.

Lemma closed_nowrite t : Forall nowrite t -> closed t.
Proof.
  induction 1 as [|e t He Ht IH]; intros prev; cbn; [exact I|]. split; [|apply IH].
  destruct e; cbn in He; auto; contradiction.
Qed.

Lemma closed_nil : closed [].
Proof. intros prev. exact I. Qed.

Lemma handle_call_closed cl x st h st' t : handle_call P cl x st = (h, st', t) -> closed t.
Proof.
  unfold handle_call, reply_with. destruct (handle P cl st) as [ans s']. destruct (oneway P cl) eqn:Eo.
  - intros H; inversion H; subst. apply closed_nowrite.
    constructor; [exact I|]. destruct ans; repeat constructor.
  - destruct ans as [p|e|].
    + unfold write_conn. destruct (existsb _ _); intros H; inversion H; subst; intros prev; cbn; auto.
    + unfold write_conn. destruct (existsb _ _); intros H; inversion H; subst; intros prev; cbn; auto.
    + intros H; inversion H; subst. apply closed_nowrite. repeat constructor.
Qed.

Lemma iteration_closed s st s' t : iteration P s = (st, s', t) -> closed t.
Proof.
  unfold iteration. destruct (accq s) as [|[x|] q].
  - destruct (scan_calls P _ (conns s)) as [[[i r]|] cs].
    + unfold on_call. destruct (nth_error cs i) as [x|]; [|intros H; inversion H; apply closed_nil].
      destruct r as [[cl|]| | |];
        try solve [intros H; inversion H; subst; apply closed_nowrite; repeat constructor].
      destruct (handle_call P cl x (sst s)) as [[h st'] t'] eqn:Eh.
      pose proof (handle_call_closed _ _ _ _ _ _ Eh) as Hc.
      destruct h; intros H; inversion H; subst; auto.
      apply closed_app; auto. apply closed_nowrite. repeat constructor.
    + destruct (scan_streams P _ _ _) as [[[idx e] q']|]; [|intros H; inversion H; apply closed_nil].
      unfold on_stream. destruct (nth_error _ idx) as [[key x]|]; [|intros H; inversion H; apply closed_nil].
      destruct e as [r|].
      * unfold write_conn. destruct (existsb _ _); intros H; inversion H; subst; intros prev; cbn;
          repeat split; auto.
      * intros H; inversion H; subst. apply closed_nowrite. repeat constructor.
  - intros H; inversion H; subst. apply closed_nowrite. repeat constructor.
  - intros H; inversion H; subst. apply closed_nowrite. unfold exit_trace.
    apply Forall_app. split; [|apply Forall_app; split; [|repeat constructor]].
    + induction (streams s) as [|y l IH]; cbn; [constructor|]. repeat constructor; auto.
    + induction (conns s) as [|y l IH]; cbn; [constructor|]. repeat constructor; auto.
Qed.

Lemma poll_loop_closed : forall fuel s r s' t, poll_loop P fuel s = (r, s', t) -> closed t.
Proof.
  induction fuel as [|fuel IH]; intros s r s' t H; cbn in H.
  - inversion H; subst. apply closed_nil.
  - destruct (iteration P s) as [[ist s1] t1] eqn:Ei.
    pose proof (iteration_closed _ _ _ _ Ei) as H1.
    destruct ist.
    + destruct (poll_loop P fuel s1) as [[r1 s2] t2] eqn:El. inversion H; subst.
      apply closed_app; eauto.
    + inversion H; subst; auto.
    + inversion H; subst; auto.
Qed.

Lemma exec_closed : forall E s s' T, exec P E s = (s', T) -> closed T.
Proof.
  induction E as [|e E IH]; intros s s' T H; cbn in H.
  - inversion H; subst. apply closed_nil.
  - destruct (step_env P e s) as [s1 t1] eqn:Es. destruct (exec P E s1) as [s2 t2] eqn:Ee.
    inversion H; subst. apply closed_app; eauto.
    destruct e; cbn [step_env] in Es; try (inversion Es; subst; apply closed_nil).
    destruct (stat s); try (inversion Es; subst; apply closed_nil).
    unfold poll_server in Es. destruct (poll_loop P _ s) as [[r s3] t3] eqn:El.
    inversion Es; subst. eapply poll_loop_closed; eauto.
Qed.

Theorem writes_paired E s0 s T : exec P E (init_sv P s0) = (s, T) -> paired None T.
Proof. intros H. apply (exec_closed _ _ _ _ H). Qed.

(* the method-call branch: the connection that was selected, at the same index of the list as it
   was before the scan, is the one that is invoked for, written to, parked or removed *)
Theorem call_iteration_on_winner s st s' t i r cs :
  accq s = [] ->
  scan_calls P (poll_order (lastc s) (length (conns s))) (conns s) = (Some (i, r), cs) ->
  iteration P s = (st, s', t) ->
  exists x0 x, nth_error (conns s) i = Some x0 /\ nth_error cs i = Some x /\ cid x = cid x0 /\
    (forall e, In e t -> about P e = Some (cid x0)) /\
    (forall cl, r = Msg (Some cl) -> exists ans t', t = TInvoke (cid x0) cl ans :: t').
Proof.
  intros Ha Hs Hit. unfold iteration in Hit. rewrite Ha, Hs in Hit.
  pose proof (scan_calls_cids P (poll_order (lastc s) (length (conns s))) (conns s)) as Hcids.
  rewrite Hs in Hcids. cbn [snd] in Hcids.
  assert (Hall : Forall (fun _ : conn => True) (conns s)) by (apply Forall_forall; intros; exact I).
  destruct (scan_calls_ind P (fun _ => True) (fun _ _ => True) (fun _ _ _ _ => I) (fun _ _ _ _ _ => I)
              _ _ _ _ Hall Hs) as (l1 & x & l2 & -> & <- & _).
  assert (Hx0 : exists x0, nth_error (conns s) (length l1) = Some x0 /\ cid x = cid x0).
  { assert (Hn : nth_error (map cid (conns s)) (length l1) = Some (cid x)).
    { rewrite <- Hcids, map_app. cbn [map]. rewrite <- (map_length cid l1). apply nth_error_mid. }
    rewrite nth_error_map in Hn. destruct (nth_error (conns s) (length l1)) as [x0|]; [|discriminate].
    inversion Hn. eauto. }
  destruct Hx0 as (x0 & Hx0 & Hc). exists x0, x. rewrite nth_error_mid. repeat split; auto.
  - rewrite <- Hc. unfold on_call in Hit. rewrite nth_error_mid in Hit.
    destruct r as [[cl|]| | |]; try solve [inversion Hit; subst; intros e [<-|[]]; reflexivity].
    destruct (handle_call P cl x (sst s)) as [[h st'] t'] eqn:Eh.
    assert (Ha' : forall e, In e t' -> about P e = Some (cid x)).
    { revert Eh. unfold handle_call, reply_with, write_conn. destruct (handle P cl (sst s)) as [ans s1].
      destruct (oneway P cl).
      - intros H; inversion H; subst. intros e [<-|He]; [reflexivity|].
        destruct ans; cbn in He; repeat (destruct He as [<-|He]; [reflexivity|]); contradiction.
      - destruct ans; try destruct (existsb _ _); intros H; inversion H; subst;
          intros e' He; cbn in He; repeat (destruct He as [<-|He]; [reflexivity|]); contradiction. }
    destruct h; inversion Hit; subst; auto.
    intros e He. apply in_app_iff in He. destruct He as [He|[<-|[]]]; auto.
  - intros cl ->. rewrite <- Hc. unfold on_call in Hit. rewrite nth_error_mid in Hit.
    destruct (handle_call P cl x (sst s)) as [[h st'] t'] eqn:Eh.
    assert (Hh : exists ans t'', t' = TInvoke (cid x) cl ans :: t'').
    { revert Eh. unfold handle_call, reply_with. destruct (handle P cl (sst s)) as [ans s1].
      destruct (oneway P cl); [intros H; inversion H; eauto|].
      destruct ans.
      - destruct (write_conn P x (WSingle p)) as [[ok x'] t0]. intros H; inversion H; eauto.
      - destruct (write_conn P x (WError e)) as [[ok x'] t0]. intros H; inversion H; eauto.
      - intros H; inversion H; eauto. }
    destruct Hh as (ans & t'' & ->). destruct h; inversion Hit; subst; eauto.
Qed.

(* C10: a failed write of a stream item drops that subscription (stream and connection) and nothing
   else: the call list, the listener queue and every other parked stream are untouched, and all
   events of the iteration concern the failing connection *)
Theorem stream_write_failure_local (s : sv P) idx key x r :
  nth_error (streams s) idx = Some (key, x) ->
  existsb (Nat.eqb (wcnt x)) (wfail x) = true ->
  exists s', on_stream P s idx (SItem r)
             = (Progress, s', [TSYield (cid x) key (SItem r); TWriteFail (cid x) (WItem r);
                               TSDrop (cid x) key; TDrop (cid x)]) /\
    conns s' = conns s /\ accq s' = accq s /\ sst s' = sst s /\
    streams s' = swap_remove idx (streams s) /\
    (forall j y, j <> idx -> nth_error (streams s) j = Some y -> In y (streams s')).
Proof.
  intros En Hf. unfold on_stream, write_conn. rewrite En, Hf.
  eexists. split; [reflexivity|]. cbn [conns accq sst streams set_streams set_lasts]. repeat split; auto.
  intros j y Hne Hj. eapply swap_remove_keeps; eauto.
Qed.

End Pairs.
