(* C09: the loop only ends on a listener error.  Without a ListenerFail event the status of the
   model stays Running or (if the fuel computed by [measure] did not suffice) OutOfFuel; it never
   panics and never exits.  The fuel is shown sufficient in ServerFuel.v. *)
From ZV Require Import Server.Server Server.ServerLists Server.ServerStruct Server.ServerSpec.
From Coq Require Import Lia.

Section Survive.
Variable P : params.

Definition no_lfail (E : list (eev P)) : Prop := ~ In ListenerFail E.

Definition alive (s : sv P) : Prop :=
  Forall (fun a => a <> None) (accq s) /\ stat s <> Exited /\ stat s <> Panicked.

Lemma accq_iteration s st s' t : iteration P s = (st, s', t) ->
  Forall (fun a => a <> None) (accq s) ->
  Forall (fun a => a <> None) (accq s') /\ st <> Stop Exited /\ st <> Stop Panicked.
Proof.
  intros Hit Hn. destruct (iteration_conserve P _ _ _ _ Hit) as (Hnp & _).
  split; [|split; [|exact Hnp]].
  - unfold iteration in Hit. destruct (accq s) as [|[x|] q] eqn:Ea.
    + destruct (scan_calls P _ (conns s)) as [[[i r]|] cs] eqn:Es.
      * assert (Hall : Forall (fun _ : conn => True) (conns s)) by (apply Forall_forall; intros; exact I).
        destruct (scan_calls_ind P (fun _ => True) (fun _ _ => True) (fun _ _ _ _ => I) (fun _ _ _ _ _ => I)
                    _ _ _ _ Hall Es) as (l1 & x & l2 & -> & <- & _).
        destruct (on_call_conserve P _ _ _ _ _ _ _ _ Hit) as (_ & _ & Ha & _). rewrite Ha, Ea. constructor.
      * destruct (scan_streams P _ _ _) as [[[idx e] q']|] eqn:Ess.
        -- destruct (scan_streams_some P _ _ _ _ _ _ Ess) as (key & x & En & _).
           destruct (on_stream_conserve P (set_squeue (set_conns s cs) q') _ _ _ _ _ _ _ En Hit) as (_ & _ & Ha & _).
           rewrite Ha. cbn. rewrite Ea. constructor.
        -- inversion Hit; subst. cbn. rewrite Ea. constructor.
    + inversion Hit; subst. cbn. now inversion Hn.
    + inversion Hn; congruence.
  - unfold iteration in Hit. destruct (accq s) as [|[x|] q] eqn:Ea.
    + destruct (scan_calls P _ (conns s)) as [[[i r]|] cs] eqn:Es.
      * assert (Hall : Forall (fun _ : conn => True) (conns s)) by (apply Forall_forall; intros; exact I).
        destruct (scan_calls_ind P (fun _ => True) (fun _ _ => True) (fun _ _ _ _ => I) (fun _ _ _ _ _ => I)
                    _ _ _ _ Hall Es) as (l1 & x & l2 & -> & <- & _).
        destruct (on_call_conserve P _ _ _ _ _ _ _ _ Hit) as (-> & _). discriminate.
      * destruct (scan_streams P _ _ _) as [[[idx e] q']|] eqn:Ess.
        -- destruct (scan_streams_some P _ _ _ _ _ _ Ess) as (key & x & En & _).
           destruct (on_stream_conserve P (set_squeue (set_conns s cs) q') _ _ _ _ _ _ _ En Hit) as (-> & _).
           discriminate.
        -- inversion Hit; subst. discriminate.
    + inversion Hit; subst. discriminate.
    + inversion Hn; congruence.
Qed.

Lemma alive_poll_loop : forall fuel s r s' t,
  Forall (fun a => a <> None) (accq s) -> poll_loop P fuel s = (r, s', t) ->
  Forall (fun a => a <> None) (accq s') /\ r <> Exited /\ r <> Panicked.
Proof.
  induction fuel as [|fuel IH]; intros s r s' t Hn Hl; cbn in Hl.
  - inversion Hl; subst. repeat split; auto; discriminate.
  - destruct (iteration P s) as [[ist s1] t1] eqn:Ei.
    destruct (accq_iteration _ _ _ _ Ei Hn) as (Hn1 & He & Hp).
    destruct ist.
    + destruct (poll_loop P fuel s1) as [[r1 s2] t2] eqn:El. inversion Hl; subst. eapply IH; eauto.
    + inversion Hl; subst. repeat split; auto; discriminate.
    + inversion Hl; subst. repeat split; auto; congruence.
Qed.

Lemma alive_env e s : e <> ListenerFail -> e <> Poll -> alive s -> alive (apply_env P e s).
Proof.
  intros H1 H2 (Hn & He & Hp).
  destruct e; cbn [apply_env]; try congruence; unfold alive;
    cbn [accq stat on_conn set_accq set_conns set_streams set_squeue set_known];
    try (repeat split; auto; fail).
  - destruct (existsb _ _); cbn [accq stat set_accq set_known]; repeat split; auto.
    apply Forall_app. split; auto. constructor; [discriminate|constructor].
  - repeat split; auto. apply Forall_map. eapply Forall_impl; [|exact Hn]. intros [x|]; congruence.
  - repeat split; auto. apply Forall_map. eapply Forall_impl; [|exact Hn]. intros [x|]; congruence.
  - repeat split; auto. apply Forall_map. eapply Forall_impl; [|exact Hn]. intros [x|]; congruence.
  - repeat split; auto. apply Forall_map. eapply Forall_impl; [|exact Hn]. intros [x|]; congruence.
Qed.

Lemma alive_step e s s' t : e <> ListenerFail -> alive s -> step_env P e s = (s', t) -> alive s'.
Proof.
  intros Hne Ha Hs.
  assert (Hnp : e <> Poll -> alive s').
  { intros Hp. assert (Hs' : step_env P e s = (apply_env P e s, [])) by (destruct e; try reflexivity; congruence).
    rewrite Hs' in Hs. inversion Hs; subst. now apply alive_env. }
  destruct e; try (apply Hnp; discriminate). clear Hnp. cbn [step_env] in Hs.
  destruct Ha as (Hn & He & Hp).
  destruct (stat s) eqn:Est; try (inversion Hs; subst; unfold alive; rewrite Est; repeat split; auto; discriminate).
  unfold poll_server in Hs. destruct (poll_loop P (S (measure P s)) s) as [[r s1] t1] eqn:El.
  inversion Hs; subst. destruct (alive_poll_loop _ _ _ _ _ Hn El) as (H1 & H2 & H3).
  unfold alive. cbn [accq stat set_stat]. auto.
Qed.

(* without a listener failure the server neither exits nor panics, whatever the clients do *)
Theorem survives : forall E s0 s T, no_lfail E -> exec P E (init_sv P s0) = (s, T) ->
  stat s <> Exited /\ stat s <> Panicked.
Proof.
  intros E s0 s T Hnl He.
  assert (Hgen : forall E s s' T, no_lfail E -> alive s -> exec P E s = (s', T) -> alive s').
  { clear. induction E as [|e E IH]; intros s s' T Hnl Ha He; cbn in He.
    - inversion He; subst. exact Ha.
    - destruct (step_env P e s) as [s1 t1] eqn:Es. destruct (exec P E s1) as [s2 t2] eqn:Ee.
      inversion He; subst. eapply IH; [| |exact Ee].
      + intros H. apply Hnl. now right.
      + eapply alive_step; [|exact Ha|exact Es]. intros ->. apply Hnl. now left. }
  assert (Ha : alive (init_sv P s0)) by (unfold alive; cbn; repeat split; auto; discriminate).
  destruct (Hgen E _ _ _ Hnl Ha He) as (_ & H1 & H2). auto.
Qed.

(* and when it exits, the listener had failed *)
Definition has_lfail (E : list (eev P)) : bool :=
  existsb (fun e => match e with ListenerFail => true | _ => false end) E.

Theorem exit_only_on_listener_error E s0 s T :
  exec P E (init_sv P s0) = (s, T) -> stat s = Exited -> has_lfail E = true.
Proof.
  intros He Hs. destruct (has_lfail E) eqn:Eh; [reflexivity|exfalso].
  assert (Hnl : no_lfail E).
  { intros Hin. assert (has_lfail E = true); [|congruence].
    apply existsb_exists. exists ListenerFail. split; [exact Hin|reflexivity]. }
  destruct (survives E s0 s T Hnl He) as (H1 & _). contradiction.
Qed.

End Survive.
