(* For services with per-connection state and honest use of names: once the executor has polled,
   the view of a well-behaved connection is a function of its own frames, the events pushed for its
   own streams and its own initial state — whatever the other connections do (C09: removing a
   faulty client changes nothing for the others; C08/C10: the sequential reference). *)
From ZV Require Import Server.Server Server.ServerLists Server.ServerStruct Server.ServerSpec
  Server.ServerQueue Server.ServerLocal Server.ServerInv Server.ServerThms.
From Coq Require Import Lia.

Section Nonint.
Variable P : params.
Variable L : local P.

(* ---------- the sequential reference of one connection ---------- *)
Fixpoint take_stream (q : list (sev P)) : list (item P) * list (sev P) * bool :=
  match q with
  | [] => ([], [], false)
  | SEnd :: q' => ([], q', true)
  | SItem r :: q' => let '(a, b, e) := take_stream q' in (r :: a, b, e)
  end.

(* the calls handled one after the other by the local handler; a streaming call takes the queued
   stream events up to the end of the stream; if the stream has not ended nothing further happens *)
Fixpoint ref_hcs (calls : list (call P)) (q : list (sev P)) (l : lstate P L) : list (hcall P) :=
  match calls with
  | [] => []
  | cl :: calls' =>
      let (ans, l') := hl P L cl l in
      match ans with
      | AMulti =>
          if oneway P cl then mkH cl ans [] false :: ref_hcs calls' q l'
          else let '(items, q', ended) := take_stream q in
               mkH cl ans items ended :: (if ended then ref_hcs calls' q' l' else [])
      | _ => mkH cl ans [] false :: ref_hcs calls' q l'
      end
  end.

Definition calls_of (fs : list (list byte)) : list (call P) :=
  flat_map (fun f => match decode P f with Some cl => [cl] | None => [] end) fs.

Definition ref_view (c : nat) (fs : list (list byte)) (q : list (sev P)) (l : lstate P L) : list (tev P) :=
  TAccept c :: flat_map (chunk P c) (ref_hcs (calls_of fs) q l).

(* names are used honestly in a run, as far as c is concerned: the calls and streams named c are
   exactly those of connection c *)
Definition keys_ok (c : nat) (T : list (tev P)) : Prop :=
  (forall c' cl a, In (TInvoke c' cl a) T -> (skey P cl = c <-> c' = c)) /\
  (forall c' key e, In (TSYield c' key e) T -> (key = c <-> c' = c)).

(* an executable check of [keys_ok] *)
Definition keys_okb (c : nat) (T : list (tev P)) : bool :=
  forallb (fun e => match e with
                    | TInvoke c' cl _ => Bool.eqb (Nat.eqb (skey P cl) c) (Nat.eqb c' c)
                    | TSYield c' key _ => Bool.eqb (Nat.eqb key c) (Nat.eqb c' c)
                    | _ => true
                    end) T.

Lemma keys_okb_ok c T : keys_okb c T = true -> keys_ok c T.
Proof.
  unfold keys_okb. rewrite forallb_forall. intros H. split.
  - intros c' cl a Hin. specialize (H _ Hin). cbn in H. apply Bool.eqb_prop in H.
    rewrite <- !Nat.eqb_eq. rewrite H. tauto.
  - intros c' key e Hin. specialize (H _ Hin). cbn in H. apply Bool.eqb_prop in H.
    rewrite <- !Nat.eqb_eq. rewrite H. tauto.
Qed.

(* ---------- answers ---------- *)
Fixpoint chain (l : lstate P L) (hcs : list (hcall P)) : Prop :=
  match hcs with
  | [] => True
  | h :: hcs' => h_ans h = fst (hl P L (h_cl h) l) /\ chain (snd (hl P L (h_cl h) l)) hcs'
  end.

Definition inv_of (c : nat) (h : hcall P) := (c, h_cl h, h_ans h).

Lemma invokes_cons e T :
  invokes P (e :: T) = (match e with TInvoke c cl a => [(c, cl, a)] | _ => [] end) ++ invokes P T.
Proof. reflexivity. Qed.

Lemma invokes_chunk c h : invokes P (chunk P c h) = [inv_of c h].
Proof.
  unfold chunk, inv_of. destruct (oneway P (h_cl h)); destruct (h_ans h); try reflexivity.
  rewrite !invokes_cons, invokes_app. cbn [app]. f_equal.
  assert (H : invokes P (flat_map (fun r => [TSYield c (skey P (h_cl h)) (SItem r); TWrite c (WItem r)]) (h_items h)) = []).
  { induction (h_items h) as [|r l IH]; [reflexivity|]. exact IH. }
  rewrite H. destruct (h_ended h); reflexivity.
Qed.

Lemma invokes_chunks c hcs : invokes P (flat_map (chunk P c) hcs) = map (inv_of c) hcs.
Proof.
  induction hcs as [|h hcs IH]; [reflexivity|]. cbn [flat_map map]. now rewrite invokes_app, invokes_chunk, IH.
Qed.

Definition by_conn (c : nat) (i : nat * call P * answer (reply P) (err P)) : bool := Nat.eqb (fst (fst i)) c.
Definition by_key (c : nat) (i : nat * call P * answer (reply P) (err P)) : bool := Nat.eqb (skey P (snd (fst i))) c.

Lemma invokes_view c T : invokes P (view P c T) = filter (by_conn c) (invokes P T).
Proof.
  induction T as [|e T IH]; [reflexivity|]. cbn [view filter]. fold (view P c T).
  change (e :: T) with ([e] ++ T). rewrite invokes_app, filter_app, <- IH.
  destruct (is_about P c e) eqn:E.
  - change (e :: view P c T) with ([e] ++ view P c T). rewrite invokes_app. f_equal.
    destruct e; try reflexivity. unfold is_about in E. cbn in E. cbn. unfold by_conn. cbn. now rewrite E.
  - destruct e; try reflexivity. unfold is_about in E. cbn in E. cbn. unfold by_conn. cbn. now rewrite E.
Qed.

Lemma lanswers_filter c l inv : lanswers P L c l inv <-> lanswers P L c l (filter (by_key c) inv).
Proof.
  revert l. induction inv as [|[[c' cl] a] inv IH]; intros l; cbn; [tauto|].
  unfold by_key at 1. cbn [fst snd]. destruct (Nat.eqb (skey P cl) c) eqn:E.
  - cbn. rewrite E, IH. tauto.
  - rewrite IH. apply Nat.eqb_neq in E. tauto.
Qed.

Lemma lrun_filter c l inv : lrun P L c l inv = lrun P L c l (filter (by_key c) inv).
Proof.
  revert l. induction inv as [|[[c' cl] a] inv IH]; intros l; cbn; [reflexivity|].
  unfold by_key at 1. cbn [fst snd]. destruct (Nat.eqb (skey P cl) c) eqn:E.
  - cbn. rewrite E. apply IH.
  - apply IH.
Qed.

Lemma filter_ext_in' {A} (f g : A -> bool) l : (forall x, In x l -> f x = g x) -> filter f l = filter g l.
Proof.
  induction l as [|x l IH]; intros H; [reflexivity|]. cbn. rewrite (H x) by now left.
  destruct (g x); [f_equal|]; apply IH; intros y Hy; apply H; now right.
Qed.

Lemma in_invokes c' cl a T : In (c', cl, a) (invokes P T) -> In (TInvoke c' cl a) T.
Proof.
  induction T as [|e T IH]; [intros []|]. change (e :: T) with ([e] ++ T). rewrite invokes_app, in_app_iff.
  intros [H|H]; [left|right; auto]. destruct e; cbn in H; try contradiction.
  destruct H as [H|[]]. inversion H; subst. reflexivity.
Qed.

Lemma chain_lanswers c l hcs : (forall h, In h hcs -> skey P (h_cl h) = c) ->
  lanswers P L c l (map (inv_of c) hcs) -> chain l hcs.
Proof.
  revert l. induction hcs as [|h hcs IH]; intros l Hk H; cbn in *; [exact I|].
  rewrite (Hk h (or_introl eq_refl)), Nat.eqb_refl in H. destruct H as (H1 & H2).
  split; [apply H1; reflexivity|]. apply IH; auto.
Qed.

Lemma lrun_chain c l hcs : (forall h, In h hcs -> skey P (h_cl h) = c) ->
  lrun P L c l (map (inv_of c) hcs) = fold_left (fun l h => snd (hl P L (h_cl h) l)) hcs l.
Proof.
  revert l. induction hcs as [|h hcs IH]; intros l Hk; cbn; [reflexivity|].
  rewrite (Hk h (or_introl eq_refl)), Nat.eqb_refl. apply IH. intros; apply Hk; now right.
Qed.

(* the answers c got are those of the local handler run on c's own calls *)
Lemma answers_determined c E s0 s T hcs :
  exec P E (init_sv P s0) = (s, T) -> keys_ok c T ->
  view P c T = TAccept c :: flat_map (chunk P c) hcs ->
  chain (proj P L c s0) hcs.
Proof.
  intros He (Hk & _) Hv.
  destruct (local_state P L c E s0 s T He) as (_ & Hans).
  apply lanswers_filter in Hans.
  assert (Hf : filter (by_key c) (invokes P T) = filter (by_conn c) (invokes P T)).
  { apply filter_ext_in'. intros [[c' cl] a] Hin. apply in_invokes in Hin.
    unfold by_key, by_conn. cbn. destruct (Hk _ _ _ Hin) as (H1 & H2).
    destruct (Nat.eqb (skey P cl) c) eqn:E1; destruct (Nat.eqb c' c) eqn:E2; auto.
    - apply Nat.eqb_eq in E1. apply Nat.eqb_neq in E2. tauto.
    - apply Nat.eqb_eq in E2. apply Nat.eqb_neq in E1. tauto. }
  rewrite Hf, <- invokes_view, Hv in Hans.
  change (TAccept c :: ?x) with ([@TAccept P c] ++ x) in Hans.
  rewrite invokes_app, invokes_chunks in Hans. cbn [invokes flat_map app] in Hans.
  apply (chain_lanswers c); auto.
  intros h Hh. apply (Hk c (h_cl h) (h_ans h)); [|reflexivity].
  assert (Hin : In (TInvoke c (h_cl h) (h_ans h)) (view P c T)).
  { rewrite Hv. right. apply in_flat_map. exists h. split; [exact Hh|]. unfold chunk. now left. }
  unfold view in Hin. apply filter_In in Hin. tauto.
Qed.

(* ---------- stream events ---------- *)
Definition stream_events (h : hcall P) : list (sev P) :=
  if oneway P (h_cl h) then []
  else match h_ans h with
       | AMulti => map SItem (h_items h) ++ (if h_ended h then [SEnd] else [])
       | _ => []
       end.

Definition ycon (c : nat) (T : list (tev P)) : list (sev P) :=
  flat_map (fun e => match e with TSYield c' _ ev => if Nat.eqb c' c then [ev] else [] | _ => [] end) T.

Lemma ycon_app c T1 T2 : ycon c (T1 ++ T2) = ycon c T1 ++ ycon c T2.
Proof. unfold ycon. apply flat_map_app. Qed.

Lemma ycon_cons c e T :
  ycon c (e :: T) = (match e with TSYield c' _ ev => if Nat.eqb c' c then [ev] else [] | _ => [] end) ++ ycon c T.
Proof. reflexivity. Qed.

Lemma yields_ycon c T : (forall c' key e, In (TSYield c' key e) T -> (key = c <-> c' = c)) ->
  yields P c T = ycon c T.
Proof.
  induction T as [|e T IH]; intros H; [reflexivity|].
  change (e :: T) with ([e] ++ T). rewrite yields_app, ycon_app, IH by (intros; apply (H c' key e0); now right).
  f_equal. destruct e; try reflexivity. cbn. destruct (H c0 key e (or_introl eq_refl)) as (H1 & H2).
  destruct (Nat.eqb key c) eqn:E1; destruct (Nat.eqb c0 c) eqn:E2; auto.
  - apply Nat.eqb_eq in E1. apply Nat.eqb_neq in E2. tauto.
  - apply Nat.eqb_eq in E2. apply Nat.eqb_neq in E1. tauto.
Qed.

Lemma ycon_view c T : ycon c (view P c T) = ycon c T.
Proof.
  induction T as [|e T IH]; [reflexivity|]. cbn [view filter]. fold (view P c T).
  destruct (is_about P c e) eqn:E.
  - now rewrite !ycon_cons, IH.
  - rewrite IH, ycon_cons. destruct e; try reflexivity. unfold is_about in E. cbn in E. now rewrite E.
Qed.

Lemma ycon_chunk c h : ycon c (chunk P c h) = stream_events h.
Proof.
  unfold chunk, stream_events. destruct (oneway P (h_cl h)); destruct (h_ans h); try reflexivity.
  rewrite !ycon_cons, ycon_app. cbn [app].
  assert (H : ycon c (flat_map (fun r => [TSYield c (skey P (h_cl h)) (SItem r); TWrite c (WItem r)]) (h_items h))
              = map SItem (h_items h)).
  { induction (h_items h) as [|r l IH]; [reflexivity|]. cbn [flat_map app map].
    rewrite !ycon_cons, Nat.eqb_refl. cbn [app]. f_equal. exact IH. }
  rewrite H. f_equal. destruct (h_ended h); [|reflexivity].
  rewrite !ycon_cons, Nat.eqb_refl. reflexivity.
Qed.

Lemma ycon_chunks c hcs : ycon c (flat_map (chunk P c) hcs) = flat_map stream_events hcs.
Proof.
  induction hcs as [|h hcs IH]; [reflexivity|]. cbn [flat_map]. now rewrite ycon_app, ycon_chunk, IH.
Qed.

Lemma yields_of_view c T hcs : keys_ok c T -> view P c T = TAccept c :: flat_map (chunk P c) hcs ->
  yields P c T = flat_map stream_events hcs.
Proof.
  intros (_ & Hk) Hv. rewrite (yields_ycon c T Hk), <- ycon_view, Hv, ycon_cons. cbn [app]. apply ycon_chunks.
Qed.

(* ---------- rebuilding the handled calls from the reference ---------- *)
Lemma take_stream_end items rest : take_stream (map SItem items ++ SEnd :: rest) = (items, rest, true).
Proof. induction items as [|r items IH]; cbn; [reflexivity|]. now rewrite IH. Qed.

Lemma take_stream_open items : take_stream (map SItem items) = (items, [], false).
Proof. induction items as [|r items IH]; cbn; [reflexivity|]. now rewrite IH. Qed.

Definition lstep (l : lstate P L) (h : hcall P) : lstate P L := snd (hl P L (h_cl h) l).

Lemma rebuild c : forall hcs l more q2,
  chain l hcs -> Forall (complete P) hcs ->
  flat_map (chunk P c) (ref_hcs (map h_cl hcs ++ more) (flat_map stream_events hcs ++ q2) l)
  = flat_map (chunk P c) hcs ++ flat_map (chunk P c) (ref_hcs more q2 (fold_left lstep hcs l)).
Proof.
  induction hcs as [|h hcs IH]; intros l more q2 Hch Hcomp; [reflexivity|].
  destruct Hch as (Ha & Hch). inversion Hcomp as [|? ? Hc Hcomp']; subst.
  cbn [map app ref_hcs flat_map fold_left]. unfold lstep at 2.
  destruct (hl P L (h_cl h) l) as [ans l'] eqn:Eh. cbn [fst snd] in *.
  assert (Hrec : forall q, q = flat_map stream_events hcs ++ q2 ->
            flat_map (chunk P c) (ref_hcs (map h_cl hcs ++ more) q l')
            = flat_map (chunk P c) hcs ++ flat_map (chunk P c) (ref_hcs more q2 (fold_left lstep hcs l'))).
  { intros q ->. now apply IH. }
  unfold complete in Hc.
  destruct (oneway P (h_cl h)) eqn:Eo.
  - assert (Hse : stream_events h = []) by (unfold stream_events; now rewrite Eo).
    rewrite Hse. cbn [app].
    assert (Hchunk : forall items ended, chunk P c (mkH (h_cl h) ans items ended) = chunk P c h).
    { intros. unfold chunk. cbn [h_cl h_ans]. rewrite Eo, Ha. reflexivity. }
    destruct ans as [p|e|]; cbn [flat_map]; rewrite Hchunk, (Hrec _ eq_refl), app_assoc; reflexivity.
  - rewrite Ha in Hc. destruct ans as [p|e|].
    + assert (Hse : stream_events h = []) by (unfold stream_events; now rewrite Eo, Ha).
      rewrite Hse. cbn [app flat_map]. rewrite (Hrec _ eq_refl), app_assoc. f_equal.
      unfold chunk. cbn [h_cl h_ans]. now rewrite Eo, Ha.
    + assert (Hse : stream_events h = []) by (unfold stream_events; now rewrite Eo, Ha).
      rewrite Hse. cbn [app flat_map]. rewrite (Hrec _ eq_refl), app_assoc. f_equal.
      unfold chunk. cbn [h_cl h_ans]. now rewrite Eo, Ha.
    + destruct Hc as [Hc|Hc]; [congruence|].
      assert (Hse : stream_events h = map SItem (h_items h) ++ [SEnd])
        by (unfold stream_events; rewrite Eo, Ha, Hc; reflexivity).
      rewrite Hse, <- !app_assoc. cbn [app]. rewrite take_stream_end. cbn [flat_map].
      assert (Hck : chunk P c (mkH (h_cl h) AMulti (h_items h) true) = chunk P c h).
      { unfold chunk. cbn [h_cl h_ans h_items h_ended]. rewrite Eo, Ha, Hc. reflexivity. }
      rewrite Hck, (Hrec _ eq_refl), app_assoc. reflexivity.
Qed.

Lemma calls_of_app fs1 fs2 : calls_of (fs1 ++ fs2) = calls_of fs1 ++ calls_of fs2.
Proof. unfold calls_of. apply flat_map_app. Qed.

Lemma calls_of_hcs hcs fs : map (fun h => Some (h_cl h)) hcs = map (decode P) fs -> calls_of fs = map h_cl hcs.
Proof.
  revert hcs. induction fs as [|f fs IH]; intros [|h hcs] H; cbn in H; try discriminate; [reflexivity|].
  inversion H as [[H1 H2]]. cbn. rewrite <- H1. cbn. f_equal. now apply IH.
Qed.

(* ---------- which names exist ---------- *)
Lemma known_iff E s0 s T : exec P E (init_sv P s0) = (s, T) ->
  forall c, In c (known s) <-> In (NewConn c) E.
Proof.
  intros He.
  set (Inv := fun (s : sv P) (_ : list (tev P)) (E : list (eev P)) =>
                forall c, In c (known s) <-> In (@NewConn P c) E).
  assert (H1 : forall s T E e, e <> Poll -> Inv s T E -> Inv (apply_env P e s) T (E ++ [e])).
  { intros s1 T1 E1 e Hne H c. rewrite in_app_iff. specialize (H c).
    destruct e; cbn [apply_env known set_accq set_known set_squeue on_conn set_streams set_conns];
      try (rewrite H; split; [tauto|intros [X|[X|[]]]; [tauto|discriminate X]]); try congruence.
    destruct (existsb (Nat.eqb c0) (known s1)) eqn:Ek.
    - rewrite H. split; [tauto|]. intros [X|[X|[]]]; [tauto|]. inversion X; subst.
      apply existsb_exists in Ek. destruct Ek as (k & Hk & Hkc). apply Nat.eqb_eq in Hkc. subst k.
      now apply H.
    - cbn [known set_accq set_known]. rewrite in_app_iff, H. cbn. split.
      + intros [X|[X|[]]]; [tauto|subst; tauto].
      + intros [X|[X|[]]]; [tauto|inversion X; tauto]. }
  assert (H2 : forall s T E, Inv s T E -> Inv s T (E ++ [Poll])).
  { intros s1 T1 E1 H c. rewrite in_app_iff, (H c). split; [tauto|intros [X|[X|[]]]; [tauto|discriminate X]]. }
  assert (H3 : forall s T E st s' t, Inv s T E -> iteration P s = (st, s', t) -> Inv s' (T ++ t) E).
  { intros s1 T1 E1 st s1' t H Hit c. destruct (iteration_conserve P _ _ _ _ Hit) as (_ & _ & Hk & _).
    rewrite Hk. apply H. }
  assert (H4 : forall s T E r, Inv s T E -> Inv (set_stat s r) T E) by auto.
  assert (H0 : Inv (init_sv P s0) [] []) by (intros c; cbn; tauto).
  exact (exec_invariant P Inv H1 H2 H3 H4 E (init_sv P s0) [] [] s T H0 He).
Qed.

(* ---------- the view of a well-behaved connection is determined by its own events ---------- *)
Theorem view_determined :
  (0 < p_step P)%N ->
  forall (c : nat) (fs : list (list byte)),
  Forall frame_ok fs -> (forall f, In f fs -> decode P f <> None) ->
  (N.of_nat (length (wire fs)) < p_limit P)%N ->
  forall E s0 s T,
  clean P c E -> input_of P false c E = wire fs ->
  exec P (E ++ [Poll]) (init_sv P s0) = (s, T) -> stat s = Running -> keys_ok c T ->
  view P c T = if existsb (fun e => match e with NewConn c' => Nat.eqb c' c | _ => false end) E
               then ref_view c fs (pushes P c E) (proj P L c s0) else [].
Proof.
  intros Hs c fs H1 H2 H3 E s0 s T Hcl Hin He Hst Hkeys.
  assert (Hcl' : clean P c (E ++ [Poll])) by (apply Forall_app; split; [exact Hcl|repeat constructor]).
  assert (Hin' : input_of P false c (E ++ [Poll]) = wire fs).
  { rewrite <- Hin. clear. generalize false. induction E as [|e E IH]; intros k; [reflexivity|].
    destruct e; cbn; auto. destruct (k && Nat.eqb c0 c); cbn; now rewrite ?IH. }
  pose proof (known_iff _ _ _ _ He c) as Hknown.
  destruct (connection_somewhere P Hs c fs H1 H2 H3 _ _ _ _ Hcl' Hin' He) as (Hsome & Hnone).
  pose proof (quiescent_accq P Hs c fs H1 H2 H3 _ _ _ _ Hcl Hin He Hst) as Hacc.
  pose proof (queue_discipline P c _ _ _ _ He) as Hq. rewrite pushes_app in Hq. cbn [pushes] in Hq.
  rewrite app_nil_r in Hq.
  destruct (existsb _ E) eqn:Eex.
  - assert (Hk : In c (known s)).
    { apply Hknown. apply existsb_exists in Eex. destruct Eex as (e & He1 & He2).
      apply in_app_iff. left. destruct e; try discriminate. apply Nat.eqb_eq in He2. now subst. }
    destruct (Hsome Hk) as [Hbad|[Hc|Hp]].
    + rewrite Hacc in Hbad. cbn in Hbad. lia.
    + destruct (connection_view_quiescent P Hs c fs H1 H2 H3 _ _ _ _ Hcl Hin He Hst Hc)
        as (hcs & Hok & Hcomp & Hv).
      pose proof (answers_determined c _ _ _ _ _ He Hkeys Hv) as Hch.
      pose proof (yields_of_view c T hcs Hkeys Hv) as Hy.
      rewrite Hv. unfold ref_view. f_equal.
      rewrite (calls_of_hcs hcs fs Hok), <- Hq, Hy.
      pose proof (rebuild c hcs (proj P L c s0) [] (pending P c (squeue s)) Hch Hcomp) as Hr.
      rewrite app_nil_r in Hr. rewrite Hr. cbn. now rewrite app_nil_r.
    + destruct (connection_view_parked P Hs c fs H1 H2 H3 _ _ _ _ Hcl Hin He Hst Hp)
        as (done & rest & hcs & h & Hfs & Hok & Hcomp & Ha & Ho & Hend & Hpop & Hv).
      pose proof (answers_determined c _ _ _ _ _ He Hkeys Hv) as Hch.
      pose proof (yields_of_view c T _ Hkeys Hv) as Hy.
      assert (Hkey : skey P (h_cl h) = c).
      { destruct Hkeys as (Hk1 & _). apply (Hk1 c (h_cl h) (h_ans h)); [|reflexivity].
        assert (Hi : In (TInvoke c (h_cl h) (h_ans h)) (view P c T)).
        { rewrite Hv. right. apply in_flat_map. exists h. split; [apply in_app_iff; right; now left|].
          unfold chunk. now left. }
        unfold view in Hi. apply filter_In in Hi. tauto. }
      rewrite Hkey in Hpop. apply pop_key_none_pending in Hpop. rewrite Hpop, app_nil_r in Hq.
      rewrite Hv. unfold ref_view. f_equal.
      rewrite Hfs, calls_of_app, (calls_of_hcs _ done Hok), map_app. cbn [map].
      rewrite <- Hq, Hy, !flat_map_app. cbn [flat_map]. rewrite !app_nil_r.
      assert (Hch' : chain (proj P L c s0) hcs /\ h_ans h = fst (hl P L (h_cl h) (fold_left lstep hcs (proj P L c s0)))).
      { clear - Hch. revert Hch. generalize (proj P L c s0). induction hcs as [|h0 hcs IH]; intros l Hch; cbn in *.
        - tauto.
        - destruct Hch as (Ha & Hch). destruct (IH _ Hch) as (H1 & H2). auto. }
      destruct Hch' as (Hch1 & Hlast).
      rewrite <- (app_assoc (map h_cl hcs)). cbn [app].
      rewrite (rebuild c hcs (proj P L c s0) (h_cl h :: calls_of rest) (stream_events h) Hch1 Hcomp).
      f_equal. cbn [ref_hcs flat_map].
      destruct (hl P L (h_cl h) (fold_left lstep hcs (proj P L c s0))) as [ans l'] eqn:Eh.
      cbn [fst] in Hlast. rewrite <- Hlast, Ha, Ho.
      unfold stream_events. rewrite Ho, Ha, Hend, app_nil_r, take_stream_open. cbn [flat_map].
      rewrite app_nil_r. unfold chunk. cbn [h_cl h_ans h_items h_ended]. now rewrite Ho, Ha, Hend.
  - apply Hnone. intros Hk. apply Hknown in Hk. apply in_app_iff in Hk. destruct Hk as [Hk|[Hk|[]]]; [|discriminate].
    assert (existsb (fun e : eev P => match e with NewConn c' => Nat.eqb c' c | _ => false end) E = true); [|congruence].
    apply existsb_exists. exists (NewConn c). split; [exact Hk|apply Nat.eqb_refl].
Qed.

(* ---------- non-interference ---------- *)
Definition concerns (f : nat) (e : eev P) : bool :=
  match e with
  | NewConn c | Arrive c _ | CloseRead c | FailRead c | FailWrite c _ => Nat.eqb c f
  | StreamItem k _ | StreamEnd k => Nat.eqb k f
  | _ => false
  end.
(* the script without everything that concerns connection f *)
Definition without (f : nat) (E : list (eev P)) : list (eev P) := filter (fun e => negb (concerns f e)) E.

Lemma without_app f E1 E2 : without f (E1 ++ E2) = without f E1 ++ without f E2.
Proof. apply filter_app. Qed.

Lemma input_of_without f c : c <> f -> forall E k, input_of P k c (without f E) = input_of P k c E.
Proof.
  intros Hne. assert (Hb : Nat.eqb f c = false) by (apply Nat.eqb_neq; congruence).
  induction E as [|e E IH]; intros k; [reflexivity|]. unfold without in *. cbn [filter].
  destruct e; cbn [concerns negb input_of]; auto.
  - destruct (Nat.eqb c0 f) eqn:E0; cbn [negb input_of]; auto.
    apply Nat.eqb_eq in E0. subst c0. rewrite Hb, Bool.orb_false_r. apply IH.
  - destruct (Nat.eqb c0 f) eqn:E0; cbn [negb input_of]; [|now rewrite IH].
    apply Nat.eqb_eq in E0. subst c0. rewrite Hb, Bool.andb_false_r. apply IH.
  - destruct (Nat.eqb c0 f); cbn [negb input_of]; auto.
  - destruct (Nat.eqb c0 f); cbn [negb input_of]; auto.
  - destruct (Nat.eqb c0 f); cbn [negb input_of]; auto.
  - destruct (Nat.eqb key f); cbn [negb input_of]; auto.
  - destruct (Nat.eqb key f); cbn [negb input_of]; auto.
Qed.

Lemma pushes_without f c : c <> f -> forall E, pushes P c (without f E) = pushes P c E.
Proof.
  intros Hne. assert (Hb : Nat.eqb f c = false) by (apply Nat.eqb_neq; congruence).
  induction E as [|e E IH]; [reflexivity|]. unfold without in *. cbn [filter].
  destruct e; cbn [concerns negb pushes]; auto;
    try (destruct (Nat.eqb c0 f); cbn [negb pushes]; auto).
  - destruct (Nat.eqb key f) eqn:E0; cbn [negb pushes]; [|now rewrite IH].
    apply Nat.eqb_eq in E0. subst key. now rewrite Hb.
  - destruct (Nat.eqb key f) eqn:E0; cbn [negb pushes]; [|now rewrite IH].
    apply Nat.eqb_eq in E0. subst key. now rewrite Hb.
Qed.

Lemma clean_without f c E : clean P c E -> clean P c (without f E).
Proof. intros H. unfold without. apply Forall_forall. intros e He. apply filter_In in He.
  unfold clean in H. rewrite Forall_forall in H. apply H. tauto. Qed.

Lemma connects_without f c : c <> f -> forall E,
  existsb (fun e : eev P => match e with NewConn c' => Nat.eqb c' c | _ => false end) (without f E)
  = existsb (fun e : eev P => match e with NewConn c' => Nat.eqb c' c | _ => false end) E.
Proof.
  intros Hne. induction E as [|e E IH]; [reflexivity|]. unfold without in *. cbn [filter existsb].
  destruct (negb (concerns f e)) eqn:Ec; cbn [existsb]; rewrite IH; [reflexivity|].
  destruct e; cbn in *; auto. destruct (Nat.eqb c0 f) eqn:E0; [|discriminate].
  apply Nat.eqb_eq in E0. subst c0. assert (Nat.eqb f c = false) by (apply Nat.eqb_neq; congruence).
  now rewrite H.
Qed.

(* C09: run the same script with and without everything that concerns connection f: the view (hence
   the output) of every other well-behaved connection c is the same *)
Theorem noninterference :
  (0 < p_step P)%N ->
  forall (f c : nat) (fs : list (list byte)), c <> f ->
  Forall frame_ok fs -> (forall fr, In fr fs -> decode P fr <> None) ->
  (N.of_nat (length (wire fs)) < p_limit P)%N ->
  forall E s0 s T s' T',
  clean P c E -> input_of P false c E = wire fs ->
  exec P (E ++ [Poll]) (init_sv P s0) = (s, T) -> stat s = Running -> keys_ok c T ->
  exec P (without f (E ++ [Poll])) (init_sv P s0) = (s', T') -> stat s' = Running -> keys_ok c T' ->
  view P c T' = view P c T /\ writes P c T' = writes P c T.
Proof.
  intros Hs f c fs Hne H1 H2 H3 E s0 s T s' T' Hcl Hin He Hst Hk He' Hst' Hk'.
  rewrite without_app in He'. change (without f [Poll]) with [@Poll P] in He'.
  assert (Hv : view P c T' = view P c T).
  { rewrite (view_determined Hs c fs H1 H2 H3 E s0 s T Hcl Hin He Hst Hk).
    rewrite (view_determined Hs c fs H1 H2 H3 (without f E) s0 s' T'
               (clean_without f c E Hcl)
               (eq_trans (input_of_without f c Hne E false) Hin) He' Hst' Hk').
    now rewrite connects_without, pushes_without. }
  split; [exact Hv|]. now rewrite <- (writes_view P c T'), Hv, writes_view.
Qed.

End Nonint.
