(* C18 on the Server model: the method-call branch of the loop is the round-robin SelectAll of
   RoundRobin.v; no connection is served twice while another one has a call available. *)
From ZV Require Import Server.Server Server.ServerLists Server.RoundRobin.
From Coq Require Import Lia.

Lemma first_ready_ext r1 r2 o : (forall j, In j o -> r1 j = r2 j) -> first_ready r1 o = first_ready r2 o.
Proof.
  induction o as [|i o IH]; intros H; [reflexivity|]. cbn.
  rewrite (H i) by now left. destruct (r2 i); auto. apply IH. intros; apply H; now right.
Qed.

Lemma first_ready_in r o w : first_ready r o = Some w -> In w o.
Proof.
  induction o as [|i o IH]; cbn; [discriminate|]. destruct (r i); intros H.
  - inversion H. now left.
  - right. auto.
Qed.

Lemma NoDup_app' {A} (l l' : list A) :
  NoDup l -> NoDup l' -> (forall a, In a l -> ~ In a l') -> NoDup (l ++ l').
Proof.
  induction 1 as [|x l Hx Hl IH]; intros Hl' Hd; [exact Hl'|]. cbn. constructor.
  - rewrite in_app_iff. intros [H|H]; [auto|]. apply (Hd x); [now left|exact H].
  - apply IH; auto. intros a Ha. apply Hd. now right.
Qed.

Lemma poll_order_nodup last n : NoDup (poll_order last n).
Proof.
  destruct n as [|n']; [constructor|]. rewrite poll_order_rot by lia. cbv zeta.
  apply NoDup_app'; try apply seq_NoDup.
  intros a Ha Hb. apply in_seq in Ha. apply in_seq in Hb. lia.
Qed.

Lemma poll_order_lt last n i : In i (poll_order last n) -> i < n.
Proof.
  destruct n as [|n']; [intros []|]. rewrite poll_order_rot by lia. cbv zeta.
  pose proof (start_index_lt last (S n') ltac:(lia)).
  rewrite in_app_iff, !in_seq. lia.
Qed.

Lemma poll_order_all last n j : j < n -> In j (poll_order last n).
Proof.
  intros H. rewrite poll_order_rot by lia. cbv zeta.
  pose proof (start_index_lt last n ltac:(lia)).
  rewrite in_app_iff, !in_seq. lia.
Qed.

Section RR.
Variable P : params.

(* the code's own notion of "has a complete call available": a poll of receive_call is Ready *)
Definition conn_ready (c : conn) : bool :=
  match fst (poll_conn P c) with Some _ => true | None => false end.
Definition ready (cs : list conn) (i : nat) : bool :=
  match nth_error cs i with Some c => conn_ready c | None => false end.

Lemma scan_calls_winner : forall order cs,
  NoDup order -> (forall i, In i order -> i < length cs) ->
  length (snd (scan_calls P order cs)) = length cs /\
  match fst (scan_calls P order cs) with
  | Some (i, _) => first_ready (ready cs) order = Some i
  | None => first_ready (ready cs) order = None
  end.
Proof.
  induction order as [|i o IH]; intros cs Hnd Hlt; [cbn; auto|].
  inversion Hnd as [|? ? Hni Hnd']; subst.
  cbn [scan_calls first_ready].
  destruct (nth_error cs i) as [c|] eqn:Ec.
  2:{ apply nth_error_None in Ec. specialize (Hlt i (or_introl eq_refl)). lia. }
  unfold ready at 1 3. rewrite Ec. unfold conn_ready.
  destruct (poll_conn P c) as [r c'] eqn:Ep. cbn [fst].
  destruct r as [res|].
  - cbn [fst snd]. rewrite length_upd_nth. auto.
  - specialize (IH (upd_nth i c' cs) Hnd').
    rewrite length_upd_nth in IH.
    destruct IH as (Hlen & Hw); [intros j Hj; apply Hlt; now right|].
    split; [exact Hlen|].
    rewrite (first_ready_ext (ready cs) (ready (upd_nth i c' cs)) o); [exact Hw|].
    intros j Hj. unfold ready. rewrite nth_error_upd_nth_neq; [reflexivity|].
    intros ->. contradiction.
Qed.

(* the index get_next_call yields in state s, if this iteration gets that far and it is Ready *)
Definition call_winner (s : sv P) : option nat :=
  match accq s with
  | [] => match fst (scan_calls P (poll_order (lastc s) (length (conns s))) (conns s)) with
          | Some (i, _) => Some i
          | None => None
          end
  | _ => None
  end.

Lemma call_winner_select s : accq s = [] ->
  call_winner s = select (lastc s) (length (conns s)) (ready (conns s)).
Proof.
  intros Ha. unfold call_winner, select. rewrite Ha.
  destruct (scan_calls_winner (poll_order (lastc s) (length (conns s))) (conns s)
              (poll_order_nodup _ _) (fun i => poll_order_lt _ _ i)) as (_ & Hw).
  destruct (fst (scan_calls P _ (conns s))) as [[i r]|]; now rewrite Hw.
Qed.

Lemma lastc_on_stream s idx e st s' t : on_stream P s idx e = (st, s', t) -> lastc s' = lastc s.
Proof.
  unfold on_stream. destruct (nth_error (streams s) idx) as [[key c]|]; [|intros H; inversion H; reflexivity].
  destruct e as [r|].
  - destruct (write_conn P c (WItem r)) as [[ok c'] t']. destruct ok; intros H; inversion H; reflexivity.
  - intros H; inversion H; reflexivity.
Qed.

Lemma lastc_on_call s cs idx r st s' t : idx < length cs ->
  on_call P s cs idx r = (st, s', t) -> lastc s' = Some idx.
Proof.
  intros Hlt. unfold on_call. destruct (nth_error cs idx) as [c|] eqn:E.
  2:{ apply nth_error_None in E. lia. }
  destruct r as [[cl|]| | |]; try (intros H; inversion H; reflexivity).
  destruct (handle_call P cl c (sst s)) as [[h st'] t']. destruct h; intros H; inversion H; reflexivity.
Qed.

(* the winner bookkeeping of one iteration (mod.rs:89) *)
Lemma lastc_iteration s st s' t : iteration P s = (st, s', t) ->
  lastc s' = match call_winner s with Some i => Some i | None => lastc s end.
Proof.
  unfold iteration, call_winner. destruct (accq s) as [|[c|] q].
  - pose proof (scan_calls_winner (poll_order (lastc s) (length (conns s))) (conns s)
                  (poll_order_nodup _ _) (fun i => poll_order_lt _ _ i)) as (Hlen & Hw).
    destruct (scan_calls P _ (conns s)) as [[[i r]|] cs] eqn:E; cbn [fst snd] in *.
    + intros H. apply lastc_on_call in H; auto. rewrite Hlen.
      apply first_ready_in in Hw. now apply poll_order_lt in Hw.
    + destruct (scan_streams P _ _ _) as [[[idx e] q']|].
      * intros H. apply lastc_on_stream in H. exact H.
      * intros H. inversion H. reflexivity.
  - intros H. inversion H. reflexivity.
  - intros H. inversion H. reflexivity.
Qed.

Lemma lastc_apply_env e s : lastc (apply_env P e s) = lastc s.
Proof. destruct e; cbn; try reflexivity. destruct (existsb _ _); reflexivity. Qed.

(* A run segment: iterations of the loop interleaved with arbitrary environment events, such that
   in every state the connection list is L (by connection name, in order: nothing accepted, removed,
   parked or resumed) and the connection at index b has a complete call available.  The list
   collects the indices get_next_call yielded. *)
Definition stable (L : list nat) (b : nat) (s : sv P) : Prop :=
  map cid (conns s) = L /\ ready (conns s) b = true.

Inductive segment (L : list nat) (b : nat) : sv P -> list nat -> sv P -> Prop :=
| seg_end s : stable L b s -> segment L b s [] s
| seg_env s e s' ws : stable L b s -> segment L b (apply_env P e s) ws s' -> segment L b s ws s'
| seg_iter s st s1 t s' ws : stable L b s -> iteration P s = (st, s1, t) -> segment L b s1 ws s' ->
    segment L b s (match call_winner s with Some i => [i] | None => [] end ++ ws) s'.

Lemma segment_winners L b s ws s' : segment L b s ws s' ->
  exists rs, (forall r, In r rs -> r b = true) /\ ws = winners (lastc s) (length L) rs.
Proof.
  induction 1 as [s Hs|s e s' ws Hs Hseg IH|s st s1 t s' ws Hs Hit Hseg IH].
  - exists []. split; [intros r []|reflexivity].
  - destruct IH as (rs & Hall & Hw). exists rs. split; auto. now rewrite lastc_apply_env in Hw.
  - destruct IH as (rs & Hall & Hw). destruct Hs as (HL & Hb).
    pose proof (lastc_iteration _ _ _ _ Hit) as Hlast.
    destruct (accq s) as [|a q] eqn:Ea.
    + exists (ready (conns s) :: rs). split.
      * intros r [<-|Hr]; auto.
      * cbn [winners]. rewrite <- HL, map_length, <- call_winner_select by exact Ea.
        destruct (call_winner s) as [i|]; rewrite Hlast in Hw; cbn [app]; [f_equal|];
          rewrite <- HL, map_length in Hw; exact Hw.
    + exists rs. split; auto.
      assert (Hcw : call_winner s = None) by (unfold call_winner; now rewrite Ea).
      rewrite Hcw in *. cbn [app]. now rewrite Hlast in Hw.
Qed.

Theorem no_double_service : forall L b s ws s' a l1 l2 l3,
  segment L b s ws s' -> b < length L -> a <> b ->
  ws = l1 ++ a :: l2 ++ a :: l3 -> In b l2.
Proof.
  intros L b s ws s' a l1 l2 l3 Hseg Hb Hab Hws.
  destruct (segment_winners _ _ _ _ _ Hseg) as (rs & Hall & Hw).
  apply (rr_no_double_service rs (lastc s) (length L) a b l1 l2 l3 Hb Hab Hall). congruence.
Qed.

End RR.

(* ---------- across transitions ---------- *)
Section Bounded.
Variable P : params.

Fixpoint find_pos (c : nat) (l : list nat) : option nat :=
  match l with
  | [] => None
  | x :: l' => if Nat.eqb x c then Some 0 else option_map S (find_pos c l')
  end.

Lemma find_pos_lt c l p : find_pos c l = Some p -> p < length l.
Proof.
  revert p. induction l as [|x l IH]; intros p; cbn; [discriminate|].
  destruct (Nat.eqb x c); [intros H; inversion H; lia|].
  destruct (find_pos c l) as [q|]; cbn; [|discriminate]. intros H; inversion H. specialize (IH q eq_refl). lia.
Qed.

(* connection beta sits in the call list, at position p, with a complete call available, and there
   are at most n connections in the list *)
Definition waiting (beta n p : nat) (s : sv P) : Prop :=
  length (conns s) <= n /\ find_pos beta (map cid (conns s)) = Some p /\ ready P (conns s) p = true.

(* how many connections the next get_next_call polls before beta *)
Definition ahead (s : sv P) (p : nat) : nat := before (lastc s) (length (conns s)) p.

(* A run (iterations and environment events) during which beta waits and is never chosen.
   W counts the calls of other connections that were served, k the iterations after which the
   connection list differed (closures, accepts, stream transitions); iterations counted in k may
   but need not have changed the list, the others must not. *)
Inductive starving (beta n : nat) : sv P -> nat -> nat -> sv P -> Prop :=
| sv_end s p : waiting beta n p s -> starving beta n s 0 0 s
| sv_env s p e s' W k : waiting beta n p s -> starving beta n (apply_env P e s) W k s' ->
    starving beta n s W k s'
| sv_iter s p st s1 t s' W k : waiting beta n p s -> iteration P s = (st, s1, t) ->
    call_winner P s <> Some p ->
    map cid (conns s1) = map cid (conns s) ->
    starving beta n s1 W k s' ->
    starving beta n s ((match call_winner P s with Some _ => 1 | None => 0 end) + W) k s'
| sv_trans s p st s1 t s' W k : waiting beta n p s -> iteration P s = (st, s1, t) ->
    call_winner P s <> Some p ->
    starving beta n s1 W k s' ->
    starving beta n s ((match call_winner P s with Some _ => 1 | None => 0 end) + W) (S k) s'.

Lemma starving_waiting beta n s W k s' : starving beta n s W k s' -> exists p, waiting beta n p s.
Proof. destruct 1; eauto. Qed.

Lemma conns_apply_env_cids e (s : sv P) : map cid (conns (apply_env P e s)) = map cid (conns s).
Proof.
  destruct e; cbn; try reflexivity.
  - destruct (existsb _ _); reflexivity.
  - rewrite map_map. apply map_ext. intros x. unfold upd_if. destruct (Nat.eqb _ _); reflexivity.
  - rewrite map_map. apply map_ext. intros x. unfold upd_if. destruct (Nat.eqb _ _); reflexivity.
  - rewrite map_map. apply map_ext. intros x. unfold upd_if. destruct (Nat.eqb _ _); reflexivity.
  - rewrite map_map. apply map_ext. intros x. unfold upd_if. destruct (Nat.eqb _ _); reflexivity.
Qed.

Lemma ahead_lt beta n p s : waiting beta n p s -> ahead s p < n.
Proof.
  intros (Hn & Hp & _). apply find_pos_lt in Hp. rewrite map_length in Hp.
  unfold ahead. pose proof (before_lt (lastc s) (length (conns s)) p Hp). lia.
Qed.

Lemma starving_bound_aux beta n s W k s' : starving beta n s W k s' ->
  forall p, waiting beta n p s -> W <= ahead s p + n * k.
Proof.
  induction 1 as [s p0 Hw|s p0 e s' W k Hw Hst IH|s p0 st s1 t s' W k Hw Hit Hnw Hsame Hst IH
                 |s p0 st s1 t s' W k Hw Hit Hnw Hst IH]; intros p Hp.
  - lia.
  - destruct (starving_waiting _ _ _ _ _ _ Hst) as (p1 & Hw1).
    specialize (IH p1 Hw1).
    assert (p1 = p).
    { destruct Hw1 as (_ & H1 & _). destruct Hp as (_ & H2 & _).
      rewrite conns_apply_env_cids in H1. congruence. }
    subst p1. unfold ahead in *. rewrite lastc_apply_env in IH.
    rewrite <- (map_length cid), conns_apply_env_cids, map_length in IH. exact IH.
  - assert (p0 = p) by (destruct Hw as (_ & H1 & _); destruct Hp as (_ & H2 & _); congruence). subst p0.
    destruct (starving_waiting _ _ _ _ _ _ Hst) as (p1 & Hw1).
    specialize (IH p1 Hw1).
    assert (p1 = p).
    { destruct Hw1 as (_ & H1 & _). destruct Hp as (_ & H2 & _). rewrite Hsame in H1. congruence. }
    subst p1.
    assert (Hlen : length (conns s1) = length (conns s)).
    { rewrite <- (map_length cid (conns s1)), Hsame. apply map_length. }
    pose proof (lastc_iteration P _ _ _ _ Hit) as Hlast.
    destruct Hp as (Hn & Hpos & Hready).
    apply find_pos_lt in Hpos. rewrite map_length in Hpos.
    destruct (accq s) as [|a q] eqn:Ea.
    + rewrite (call_winner_select P s Ea) in *.
      destruct (select (lastc s) (length (conns s)) (ready P (conns s))) as [w|] eqn:Esel.
      * destruct (select_before _ _ _ _ _ Hpos Hready Esel) as [->|(Hne & Hlt)]; [congruence|].
        unfold ahead in *. rewrite Hlast, Hlen in IH. lia.
      * unfold ahead in *. rewrite Hlast, Hlen in IH. lia.
    + assert (Hcw : call_winner P s = None) by (unfold call_winner; now rewrite Ea).
      rewrite Hcw in *. unfold ahead in *. rewrite Hlast, Hlen in IH. lia.
  - destruct (starving_waiting _ _ _ _ _ _ Hst) as (p1 & Hw1).
    specialize (IH p1 Hw1). pose proof (ahead_lt _ _ _ _ Hw1).
    destruct (call_winner P s); nia.
Qed.

Theorem bounded_across_transitions beta n s W k s' :
  starving beta n s W k s' -> W < n * (k + 1).
Proof.
  intros H. destruct (starving_waiting _ _ _ _ _ _ H) as (p & Hw).
  pose proof (starving_bound_aux _ _ _ _ _ _ H p Hw). pose proof (ahead_lt _ _ _ _ Hw). nia.
Qed.

End Bounded.
