(* Correspondence driver for the Server model: the concrete test service of
   harness/src/bin/server.rs as an instance of [params], evaluation of the model on a script and
   comparison with what the implementation produced (lists of N). *)
From ZV Require Import Common.Exec Server.Server.
Open Scope N_scope.

(* ---------- the test service (harness/src/bin/server.rs: enum M, impl Service for Svc) ---------- *)
Record xcall := mkCall { ck : N; cc : N; ct : N; cv : N; cow : bool; cmore : bool }.
Inductive xreply := RNum (t v : N)         (* {t, v} *)
                  | RNone                  (* no parameters *)
                  | RStr (t sid : N).      (* {t, s}: s = the sid-th echoed string of the case *)
Definition xerr := (N * N)%type.
Definition xitem := (N * N)%type.         (* (v, continues: 0 none, 1 true, 2 false) *)
Definition xstate := (list (N * N) * N)%type.   (* per-client counters, global counter *)

Fixpoint get (k : N) (l : list (N * N)) : N :=
  match l with [] => 0 | (k', v) :: l' => if k =? k' then v else get k l' end.
Fixpoint put (k v : N) (l : list (N * N)) : list (N * N) :=
  match l with
  | [] => [(k, v)]
  | (k', v') :: l' => if k =? k' then (k, v) :: l' else (k', v') :: put k v l'
  end.

Definition xhandle (cl : xcall) (s : xstate) : answer xreply xerr * xstate :=
  match ck cl with
  | 0 => (ASingle (RNum (ct cl) (cv cl)), s)                        (* Echo *)
  | 1 => (ASingle RNone, s)                                          (* Ping *)
  | 2 => let n := get (cc cl) (fst s) + 1 in                        (* Count: per client *)
         (ASingle (RNum (ct cl) n), (put (cc cl) n (fst s), snd s))
  | 3 => let n := snd s + 1 in (ASingle (RNum (ct cl) n), (fst s, n))   (* Total: global *)
  | 4 => (AError (ct cl, cv cl), s)                                 (* Fail *)
  | 5 => (AMulti, s)                                                (* Sub *)
  | _ => (ASingle (RStr (ct cl) (cv cl)), s)                        (* Say: echo a string *)
  end.

(* decimal rendering of a number *)
Fixpoint dec_fuel (fuel : nat) (n : N) (acc : list byte) : list byte :=
  match fuel with
  | O => acc
  | S f => let d := 48 + n mod 10 in
           if n <? 10 then d :: acc else dec_fuel f (n / 10) (d :: acc)
  end.
Definition dec (n : N) : list byte := dec_fuel 30 n [].

(* templates: the reference renderings split at the numbers: single, ping, error, item0..2, say *)
Definition tmpl := list (list (list byte)).
Definition fill (t : list (list byte)) (ns : list N) : list byte :=
  (fix go (t : list (list byte)) (ns : list N) : list byte :=
     match t, ns with
     | p :: t', n :: ns' => p ++ dec n ++ go t' ns'
     | p :: _, [] => p
     | [], _ => []
     end) t ns.

(* strs: the echoed strings as serde_json renders them *)
Definition xrender (tm : tmpl) (strs : list (list byte)) (m : wmsg xreply xerr xitem) : list byte :=
  match m with
  | WSingle (RNum t v) => fill (nth 0 tm []) [t; v]
  | WSingle RNone => fill (nth 1 tm []) []
  | WSingle (RStr t sid) =>
      let tp := nth 6 tm [] in
      nth 0 tp [] ++ dec t ++ nth 1 tp [] ++ nth (N.to_nat sid) strs [] ++ nth 2 tp []
  | WError (t, v) => fill (nth 2 tm []) [t; v]
  | WItem (v, f) => fill (nth (3 + N.to_nat f) tm []) [v]
  end.

(* decode oracle: frame bytes -> [kind; c; t; v; oneway; more] or [] (does not decode) *)
Definition dtab := list (list byte * list N).
Fixpoint xdecode (t : dtab) (f : list byte) : option xcall :=
  match t with
  | [] => None
  | (k, v) :: t' =>
      if bytes_eqb f k then
        match v with
        | [a; b; c; d; e; g] => Some (mkCall a b c d (negb (e =? 0)) (negb (g =? 0)))
        | _ => None
        end
      else xdecode t' f
  end.

Definition xparams (step limit : N) (tab : dtab) (tm : tmpl) (strs : list (list byte)) : params :=
  mkParams step limit xcall xreply xerr xitem xstate
           (xdecode tab) cow (fun cl => N.to_nat (cc cl)) xhandle (xrender tm strs).

(* ---------- scripts ---------- *)
Inductive xev :=
| XNew (c : nat) | XLf | XArr (c : nat) (bs : list byte) | XClose (c : nat) | XFailR (c : nat)
| XFailW (c k : nat) | XItem (key : nat) (v f : N) | XEnd (key : nat) | XPoll.

Definition to_eev (Q : params) (mk : N * N -> item Q) (e : xev) : eev Q :=
  match e with
  | XNew c => NewConn c | XLf => ListenerFail | XArr c bs => Arrive c bs
  | XClose c => CloseRead c | XFailR c => FailRead c | XFailW c k => FailWrite c k
  | XItem key v f => StreamItem key (mk (v, f)) | XEnd key => StreamEnd key | XPoll => Poll
  end.

Record scase := {
  sc_step : N; sc_limit : N; sc_tab : dtab; sc_tmpl : tmpl; sc_strs : list (list byte);
  sc_script : list xev;
  sc_expect : list (list (list N) * list N);   (* implementation, per poll: trace, unread bytes *)
  sc_hyp : list nat                             (* connections the sequential spec applies to *)
}.

Definition sc_params (c : scase) : params :=
  xparams (sc_step c) (sc_limit c) (sc_tab c) (sc_tmpl c) (sc_strs c).

Definition enc_tev (c : scase) (e : tev (sc_params c)) : list N :=
  match e with
  | TAccept k => [1; N.of_nat k]
  | TInvoke _ cl _ => [2; ct cl]
  | TNewStream _ key => [7; N.of_nat key]
  | TWrite k m => 3 :: N.of_nat k :: xrender (sc_tmpl c) (sc_strs c) m ++ [0]
  | TWriteFail k _ => [4; N.of_nat k]
  | TDrop k => [5; N.of_nat k]
  | TSDrop _ key => [6; N.of_nat key]
  | TSYield _ key (SItem (v, f)) => [8; N.of_nat key; 1; v; f]
  | TSYield _ key SEnd => [8; N.of_nat key; 0; 0; 0]
  | TExit => [9]
  end.

Definition model_run (c : scase) : list (list (list N) * list N) :=
  map (fun x => (map (enc_tev c) (fst x), map N.of_nat (snd x)))
      (run (sc_params c) (map (to_eev (sc_params c) (fun x => x)) (sc_script c))
           (init_sv (sc_params c) ([], 0))).

Definition obs_eqb (a b : list (list N) * list N) : bool :=
  nn_eqb (fst a) (fst b) && list_eqb N.eqb (snd a) (snd b).

(* ---------- the sequential reference of one connection (the spec of C08/C10) ---------- *)
(* all bytes that arrive on connection k, the complete frames in them *)
Fixpoint input_of (k : nat) (s : list xev) : list byte :=
  match s with
  | [] => []
  | XArr c bs :: s' => if Nat.eqb c k then bs ++ input_of k s' else input_of k s'
  | _ :: s' => input_of k s'
  end.
Fixpoint frames_acc (cur : list byte) (l : list byte) : list (list byte) :=
  match l with
  | [] => []
  | 0 :: l' => rev cur :: frames_acc [] l'
  | b :: l' => frames_acc (b :: cur) l'
  end.
Definition frames_of (l : list byte) : list (list byte) := frames_acc [] l.
(* the events of the stream(s) named k, in script order *)
Fixpoint sevs_of (k : nat) (s : list xev) : list (option xitem) :=
  match s with
  | [] => []
  | XItem key v f :: s' => if Nat.eqb key k then Some (v, f) :: sevs_of k s' else sevs_of k s'
  | XEnd key :: s' => if Nat.eqb key k then None :: sevs_of k s' else sevs_of k s'
  | _ :: s' => sevs_of k s'
  end.
(* items up to the end of the stream; the rest; whether the stream ended *)
Fixpoint take_stream (q : list (option xitem)) : list xitem * list (option xitem) * bool :=
  match q with
  | [] => ([], [], false)
  | None :: q' => ([], q', true)
  | Some r :: q' => let '(a, b, e) := take_stream q' in (r :: a, b, e)
  end.

(* frames handled one after the other by a service that sees only this connection; the writes *)
Fixpoint ref_out (c : scase) (fs : list (list byte)) (q : list (option xitem)) (s : xstate)
  : list (list byte) :=
  match fs with
  | [] => []
  | f :: fs' =>
      match xdecode (sc_tab c) f with
      | None => []
      | Some cl =>
          let (ans, s') := xhandle cl s in
          match ans with
          | ASingle p => (if cow cl then [] else [xrender (sc_tmpl c) (sc_strs c) (WSingle p) ++ [0]]) ++ ref_out c fs' q s'
          | AError e => (if cow cl then [] else [xrender (sc_tmpl c) (sc_strs c) (WError e) ++ [0]]) ++ ref_out c fs' q s'
          | AMulti =>
              if cow cl then ref_out c fs' q s' else
              let '(items, q', ended) := take_stream q in
              map (fun r => xrender (sc_tmpl c) (sc_strs c) (WItem r) ++ [0]) items
              ++ (if ended then ref_out c fs' q' s' else [])
          end
      end
  end.

Definition spec_out (c : scase) (k : nat) : list (list byte) :=
  ref_out c (frames_of (input_of k (sc_script c))) (sevs_of k (sc_script c)) ([], 0).

(* the writes the implementation made on connection k *)
Definition impl_out (c : scase) (k : nat) : list (list byte) :=
  flat_map (fun e => match e with
                     | 3 :: k' :: bs => if N.of_nat k =? k' then [bs] else []
                     | _ => [] end)
           (flat_map fst (sc_expect c)).

(* 0 = implementation, model and spec agree; bit 0 = implementation differs from the model;
   bit 1 = the output of a connection in sc_hyp differs from its sequential reference *)
Definition check (c : scase) : N :=
  (if list_eqb obs_eqb (model_run c) (sc_expect c) then 0 else 1) +
  (if forallb (fun k => nn_eqb (impl_out c k) (spec_out c k)) (sc_hyp c) then 0 else 2).
