(* Services with per-connection state: the answer to a call depends on the call and on the part of
   the service state named by [skey call], and only that part changes.  For such services the
   per-connection state after a run is determined by the calls made under that name alone. *)
From ZV Require Import Server.Server Server.ServerLists Server.ServerStruct Server.ServerSpec
  Server.ServerQueue.
From Coq Require Import Lia.

Section Local.
Variable P : params.

Record local := mkLocal {
  lstate : Type;
  proj : nat -> sstate P -> lstate;
  hl : call P -> lstate -> answer (reply P) (err P) * lstate;
  hl_ans : forall cl s, fst (handle P cl s) = fst (hl cl (proj (skey P cl) s));
  hl_own : forall cl s, proj (skey P cl) (snd (handle P cl s)) = snd (hl cl (proj (skey P cl) s));
  hl_frame : forall cl s k, k <> skey P cl -> proj k (snd (handle P cl s)) = proj k s
}.
Variable L : local.

(* the service invocations in a trace *)
Definition invokes (T : list (tev P)) : list (nat * call P * answer (reply P) (err P)) :=
  flat_map (fun e => match e with TInvoke c cl a => [(c, cl, a)] | _ => [] end) T.

Lemma invokes_app T1 T2 : invokes (T1 ++ T2) = invokes T1 ++ invokes T2.
Proof. unfold invokes. apply flat_map_app. Qed.

(* the state named k after the given invocations, and whether every answer given under that name
   is the one the local handler gives *)
Fixpoint lrun (k : nat) (l : lstate L) (inv : list (nat * call P * answer (reply P) (err P))) : lstate L :=
  match inv with
  | [] => l
  | (_, cl, _) :: inv' => lrun k (if Nat.eqb (skey P cl) k then snd (hl L cl l) else l) inv'
  end.
Fixpoint lanswers (k : nat) (l : lstate L) (inv : list (nat * call P * answer (reply P) (err P))) : Prop :=
  match inv with
  | [] => True
  | (_, cl, a) :: inv' =>
      (skey P cl = k -> a = fst (hl L cl l)) /\
      lanswers k (if Nat.eqb (skey P cl) k then snd (hl L cl l) else l) inv'
  end.

Lemma lrun_app k l i1 i2 : lrun k l (i1 ++ i2) = lrun k (lrun k l i1) i2.
Proof. revert l. induction i1 as [|[[c cl] a] i1 IH]; intros l; cbn; auto. Qed.

Lemma lanswers_app k l i1 i2 : lanswers k l (i1 ++ i2) <-> lanswers k l i1 /\ lanswers k (lrun k l i1) i2.
Proof.
  revert l. induction i1 as [|[[c cl] a] i1 IH]; intros l; cbn; [tauto|]. rewrite IH. tauto.
Qed.

(* what one iteration does to the service *)
Lemma handle_call_invokes cl x st h st' t : handle_call P cl x st = (h, st', t) ->
  invokes t = [(cid x, cl, fst (handle P cl st))] /\ st' = snd (handle P cl st).
Proof.
  unfold handle_call, reply_with, write_conn. destruct (handle P cl st) as [ans s1]. cbn [fst snd].
  destruct (oneway P cl); [intros H; inversion H; subst; destruct ans; auto|].
  destruct ans as [p|e|].
  - destruct (existsb (Nat.eqb (wcnt x)) (wfail x)); intros H0; inversion H0; subst; auto.
  - destruct (existsb (Nat.eqb (wcnt x)) (wfail x)); intros H0; inversion H0; subst; auto.
  - intros H0; inversion H0; subst; auto.
Qed.

Lemma iteration_invokes s st s' t : iteration P s = (st, s', t) ->
  (invokes t = [] /\ sst s' = sst s) \/
  (exists c cl, invokes t = [(c, cl, fst (handle P cl (sst s)))] /\ sst s' = snd (handle P cl (sst s))).
Proof.
  unfold iteration. destruct (accq s) as [|[x|] q].
  - destruct (scan_calls P _ (conns s)) as [[[i r]|] cs].
    + unfold on_call. destruct (nth_error cs i) as [x|]; [|intros H; inversion H; auto].
      destruct r as [[cl|]| | |]; try solve [intros H; inversion H; subst; auto].
      destruct (handle_call P cl x (sst s)) as [[h st'] t'] eqn:Eh.
      destruct (handle_call_invokes _ _ _ _ _ _ Eh) as (Hi & ->).
      right. exists (cid x), cl.
      destruct h; inversion H; subst; cbn [sst set_conns set_streams set_sst set_lastc];
        rewrite ?invokes_app, Hi; auto.
    + destruct (scan_streams P _ _ _) as [[[idx e] q']|]; [|intros H; inversion H; auto].
      unfold on_stream. destruct (nth_error _ idx) as [[key x]|]; [|intros H; inversion H; auto].
      destruct e as [r|].
      * unfold write_conn. destruct (existsb _ _); intros H; inversion H; subst; auto.
      * intros H; inversion H; subst; auto.
  - intros H; inversion H; subst; auto.
  - intros H; inversion H; subst. left. split; [|reflexivity].
    unfold exit_trace. rewrite !invokes_app.
    assert (H1 : invokes (flat_map (fun x : nat * conn => [TSDrop (cid (snd x)) (fst x); TDrop (cid (snd x))]) (streams s)) = []).
    { induction (streams s) as [|y l IH]; [reflexivity|]. cbn [flat_map]. now rewrite invokes_app, IH. }
    assert (H2 : invokes (map (fun c => TDrop (cid c)) (conns s)) = []).
    { induction (conns s) as [|y l IH]; [reflexivity|]. exact IH. }
    now rewrite H1, H2.
Qed.

(* for every run and every name k: the state named k is the local run of the invocations made
   under that name, and each of them got the local handler's answer *)
Theorem local_state k E s0 s T : exec P E (init_sv P s0) = (s, T) ->
  proj L k (sst s) = lrun k (proj L k s0) (invokes T) /\ lanswers k (proj L k s0) (invokes T).
Proof.
  intros He.
  set (Inv := fun (s : sv P) (T : list (tev P)) (_ : list (eev P)) =>
              proj L k (sst s) = lrun k (proj L k s0) (invokes T) /\
              lanswers k (proj L k s0) (invokes T)).
  assert (H1 : forall s T E e, e <> Poll -> Inv s T E ->  Inv (apply_env P e s) T (E ++ [e])).
  { intros s1 T1 E1 e Hne H. destruct e; cbn; auto. destruct (existsb _ _); auto. }
  assert (H2 : forall s T E, Inv s T E  -> Inv s T (E ++ [Poll])) by auto.
  assert (H3 : forall s T E st s' t, Inv s T E -> iteration P s = (st, s', t) -> Inv s' (T ++ t) E).
  { intros s1 T1 E1 st s1' t (Ha & Hb) Hit. unfold Inv.
    rewrite invokes_app, lrun_app, lanswers_app, <- Ha.
    destruct (iteration_invokes _ _ _ _ Hit) as [(-> & ->)|(c & cl & -> & ->)]; cbn; auto.
    split; [|split; [exact Hb|split; [|exact I]]].
    + destruct (Nat.eqb (skey P cl) k) eqn:E0.
      * apply Nat.eqb_eq in E0. subst k. apply hl_own.
      * apply Nat.eqb_neq in E0. apply hl_frame. congruence.
    + intros <-. apply hl_ans. }
  assert (H4 : forall s T E r, Inv s T E -> Inv (set_stat s r) T E) by auto.
  assert (H0 : Inv (init_sv P s0) [] []) by (unfold Inv; cbn; auto).
  exact (exec_invariant P Inv H1 H2 H3 H4 E (init_sv P s0) [] [] s T H0 He).
Qed.

End Local.
