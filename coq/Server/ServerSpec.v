(* Specification vocabulary for the per-connection theorems about the Server model: the view a
   connection has of the trace, the transcript a handled call must leave there, what a connection
   receives from a script. Definitions only. *)
From ZV Require Import Server.Server.

Section Spec.
Variable P : params.

(* the connection an event concerns *)
Definition about (e : tev P) : option nat :=
  match e with
  | TAccept c | TInvoke c _ _ | TNewStream c _ | TWrite c _ | TWriteFail c _ | TDrop c
  | TSYield c _ _ | TSDrop c _ => Some c
  | TExit => None
  end.
Definition is_about (c : nat) (e : tev P) : bool :=
  match about e with Some c' => Nat.eqb c' c | None => false end.
(* what happens on / for connection c, in order *)
Definition view (c : nat) (T : list (tev P)) : list (tev P) := filter (is_about c) T.

(* a call the server handled for a connection: the call, what the service answered, and for a
   streaming answer the items delivered so far and whether the stream has ended *)
Record hcall := mkH {
  h_cl : call P;
  h_ans : answer (reply P) (err P);
  h_items : list (item P);
  h_ended : bool
}.

(* the transcript of one handled call on connection c: the invocation followed by exactly one reply
   or error, or nothing for a oneway call (a stream made for a oneway call is dropped at once), or
   for a streaming answer every item written in the order the stream yields them *)
Definition chunk (c : nat) (h : hcall) : list (tev P) :=
  TInvoke c (h_cl h) (h_ans h) ::
  if oneway P (h_cl h) then
    match h_ans h with
    | AMulti => [TNewStream c (skey P (h_cl h)); TSDrop c (skey P (h_cl h))]
    | _ => []
    end
  else
    match h_ans h with
    | ASingle p => [TWrite c (WSingle p)]
    | AError e => [TWrite c (WError e)]
    | AMulti =>
        TNewStream c (skey P (h_cl h)) ::
        flat_map (fun r => [TSYield c (skey P (h_cl h)) (SItem r); TWrite c (WItem r)]) (h_items h)
        ++ (if h_ended h then [TSYield c (skey P (h_cl h)) SEnd; TSDrop c (skey P (h_cl h))] else [])
    end.

(* nothing further is owed for this call *)
Definition complete (h : hcall) : Prop :=
  match h_ans h with
  | AMulti => oneway P (h_cl h) = true \/ h_ended h = true
  | _ => True
  end.

(* the writes in a list of events *)
Definition writes (c : nat) (T : list (tev P)) : list (wmsg (reply P) (err P) (item P)) :=
  flat_map (fun e => match e with TWrite c' m => if Nat.eqb c' c then [m] else [] | _ => [] end) T.

(* what is written to the connection for a handled call *)
Definition resp_writes (h : hcall) : list (wmsg (reply P) (err P) (item P)) :=
  if oneway P (h_cl h) then []
  else match h_ans h with
       | ASingle p => [WSingle p]
       | AError e => [WError e]
       | AMulti => map WItem (h_items h)
       end.

(* the bytes connection c receives from a script: arrivals addressed to c after it connected
   (k: whether c has connected already) *)
Fixpoint input_of (k : bool) (c : nat) (E : list (eev P)) : list byte :=
  match E with
  | [] => []
  | NewConn c' :: E' => input_of (k || Nat.eqb c' c) c E'
  | Arrive c' bs :: E' => if k && Nat.eqb c' c then bs ++ input_of k c E' else input_of k c E'
  | _ :: E' => input_of k c E'
  end.

(* the environment is kind to connection c: no transport fault on c (and no empty read, which a
   socket reports as end of stream), and the listener does not fail *)
Definition clean_ev (c : nat) (e : eev P) : Prop :=
  match e with
  | ListenerFail => False
  | CloseRead c' | FailRead c' | FailWrite c' _ => c' <> c
  | Arrive c' bs => c' = c -> bs <> []
  | _ => True
  end.
Definition clean (c : nat) (E : list (eev P)) : Prop := Forall (clean_ev c) E.

(* the events the environment queued for the stream(s) named key *)
Fixpoint pushes (key : nat) (E : list (eev P)) : list (sev P) :=
  match E with
  | [] => []
  | StreamItem k r :: E' => if Nat.eqb k key then SItem r :: pushes key E' else pushes key E'
  | StreamEnd k :: E' => if Nat.eqb k key then SEnd :: pushes key E' else pushes key E'
  | _ :: E' => pushes key E'
  end.
(* ... and what streams named key yielded *)
Definition yields (key : nat) (T : list (tev P)) : list (sev P) :=
  flat_map (fun e => match e with TSYield _ k ev => if Nat.eqb k key then [ev] else [] | _ => [] end) T.
Definition pending (key : nat) (q : list (nat * sev P)) : list (sev P) :=
  flat_map (fun x => if Nat.eqb (fst x) key then [snd x] else []) q.

End Spec.

Arguments h_cl {P} h.
Arguments h_ans {P} h.
Arguments h_items {P} h.
Arguments h_ended {P} h.
Arguments mkH {P}.
