(* Model of zlink-core/src/server/{mod,select_all}.rs: `Server::run`.
   Executable; proofs live in Server/*Proofs.v.

   One poll of the server future = [poll_server]: iterations of the `loop` (mod.rs:67-138) until
   every branch of the biased select is pending.  The environment (listener, client sockets, the
   service's reply streams) is a script of events [eev]; the service is the parameter [handle].
   Every connection's input side is the ReadConnection model (Framing/ReadConn.v).  A write
   (`send_reply`/`send_error` = enqueue + flush = one `write` call on the socket carrying
   `json ++ [0]`) is recorded in the trace as [TWrite cid msg]; its bytes are [render msg ++ [0]]. *)
From ZV Require Export Common.Base Framing.ReadConn.

Inductive answer (reply err : Type) : Type :=
  ASingle (p : reply) | AError (e : err) | AMulti.
Arguments ASingle {reply err} p.
Arguments AError {reply err} e.
Arguments AMulti {reply err}.

(* what is handed to WriteConnection::send_reply / send_error *)
Inductive wmsg (reply err item : Type) : Type :=
  WSingle (p : reply)        (* Reply::new(params).set_continues(Some(false))   mod.rs:177 *)
| WError (e : err)           (* send_error(&err)                                 mod.rs:180 *)
| WItem (r : item).          (* a reply yielded by the service's stream          mod.rs:120-124 *)
Arguments WSingle {reply err item} p.
Arguments WError {reply err item} e.
Arguments WItem {reply err item} r.

(* the environment-independent parameters: buffer constants, the service, (de)serialisation *)
Record params := mkParams {
  p_step : N; p_limit : N;
  call : Type; reply : Type; err : Type; item : Type; sstate : Type;
  decode : list byte -> option call;      (* serde_json::from_slice::<Call<MethodCall>>; None = Err *)
  oneway : call -> bool;                  (* Call::oneway() *)
  skey : call -> nat;                     (* the name under which the environment feeds the stream
                                             the service creates for this call *)
  handle : call -> sstate -> answer reply err * sstate;   (* Service::handle *)
  render : wmsg reply err item -> list byte               (* the JSON text of a message *)
}.

(* ---------- Vec operations ---------- *)
Fixpoint upd_nth {A} (i : nat) (x : A) (l : list A) : list A :=
  match l, i with
  | [], _ => []
  | _ :: t, O => x :: t
  | h :: t, S i => h :: upd_nth i x t
  end.

(* Vec::swap_remove: the element at i is replaced by the last element (out of range: the Rust
   code would panic; callers check [nth_error] first and report [Panicked]) *)
Definition swap_remove {A} (i : nat) (l : list A) : list A :=
  match nth_error l i with
  | None => l
  | Some x => let front := removelast l in
              if Nat.eqb i (length front) then front else upd_nth i (last l x) front
  end.

(* ---------- SelectAll (select_all.rs:57-72) ---------- *)
(* start_index = last winner + 1 (mod.rs:70,86); start_idx = start_index % n; idx = (start_idx+i) % n *)
Definition start_index (last : option nat) (n : nat) : nat :=
  match last with None => 0 | Some i => (i + 1) mod n end.
Definition poll_order (last : option nat) (n : nat) : list nat :=
  map (fun i => (start_index last n + i) mod n) (seq 0 n).

Section Server.
Variable P : params.
Notation D := (option (call P)).
Notation msg := (wmsg (reply P) (err P) (item P)).

Inductive sev := SItem (r : item P) | SEnd.

(* environment events *)
Inductive eev :=
| NewConn (c : nat)                 (* a client connects; c names it (ignored when c was used before) *)
| ListenerFail                      (* the next accept fails *)
| Arrive (c : nat) (bs : list byte) (* bytes become readable on c *)
| CloseRead (c : nat)               (* end of stream on c *)
| FailRead (c : nat)                (* a read error on c *)
| FailWrite (c k : nat)             (* the k-th write call on c (from 0) fails *)
| StreamItem (key : nat) (r : item P)
| StreamEnd (key : nat)
| Poll.                             (* the executor polls the server future once *)

(* observable events, in the order in which they happen *)
Inductive tev :=
| TAccept (c : nat)
| TInvoke (c : nat) (cl : call P) (a : answer (reply P) (err P))
                                    (* the service is invoked with cl, which was read from c, and
                                       answers a *)
| TNewStream (c key : nat)          (* ... a = Multi: the service made a stream named key *)
| TWrite (c : nat) (m : msg)
| TWriteFail (c : nat) (m : msg)
| TDrop (c : nat)                   (* the connection (socket) is dropped *)
| TSYield (c key : nat) (e : sev)   (* the stream named key, parked with c, yields e *)
| TSDrop (c key : nat)              (* the reply stream made for c is dropped *)
| TExit.

(* a connection: ReadConnection state + the socket as the environment left it *)
Record conn := mkConn {
  cid : nat;
  rst : st;              (* ReadConnection: buffer.len(), msg_pos, buffer[..read_pos] *)
  ctr : list ev;         (* transport events not yet consumed *)
  wcnt : nat;            (* write calls so far *)
  wfail : list nat       (* write calls that fail *)
}.

Inductive status := Running | Exited | Panicked | OutOfFuel.
Inductive istatus := Progress | Idle | Stop (s : status).

Record sv := mkSv {
  accq : list (option conn);       (* what the listener will hand out; None = accept error *)
  conns : list conn;               (* `connections`             mod.rs:62 *)
  streams : list (nat * conn);     (* `reply_streams`           mod.rs:63 (stream name, conn) *)
  lastc : option nat;              (* last_method_call_winner   mod.rs:65 *)
  lasts : option nat;              (* last_reply_stream_winner  mod.rs:64 *)
  sst : sstate P;                  (* the service *)
  squeue : list (nat * sev);       (* stream events not yet consumed, tagged with the stream name *)
  known : list nat;                (* connection names used so far *)
  stat : status
}.

Definition init_sv (s0 : sstate P) : sv := mkSv [] [] [] None None s0 [] [] Running.

Definition set_accq s x := mkSv x (conns s) (streams s) (lastc s) (lasts s) (sst s) (squeue s) (known s) (stat s).
Definition set_conns s x := mkSv (accq s) x (streams s) (lastc s) (lasts s) (sst s) (squeue s) (known s) (stat s).
Definition set_streams s x := mkSv (accq s) (conns s) x (lastc s) (lasts s) (sst s) (squeue s) (known s) (stat s).
Definition set_lastc s x := mkSv (accq s) (conns s) (streams s) x (lasts s) (sst s) (squeue s) (known s) (stat s).
Definition set_lasts s x := mkSv (accq s) (conns s) (streams s) (lastc s) x (sst s) (squeue s) (known s) (stat s).
Definition set_sst s x := mkSv (accq s) (conns s) (streams s) (lastc s) (lasts s) x (squeue s) (known s) (stat s).
Definition set_squeue s x := mkSv (accq s) (conns s) (streams s) (lastc s) (lasts s) (sst s) x (known s) (stat s).
Definition set_known s x := mkSv (accq s) (conns s) (streams s) (lastc s) (lasts s) (sst s) (squeue s) x (stat s).
Definition set_stat s x := mkSv (accq s) (conns s) (streams s) (lastc s) (lasts s) (sst s) (squeue s) (known s) x.

(* ---------- reading: one poll of `receive_call` on a connection ---------- *)
Definition conn_fuel (c : conn) : nat := length (payload (ctr c)) + length (ctr c) + 2.

Definition poll_conn (c : conn) : option (rres D) * conn :=
  match poll_receive (p_step P) (p_limit P) D (decode P) (conn_fuel c) (rst c) (ctr c) with
  | (r, s', tr') => (r, mkConn (cid c) s' tr' (wcnt c) (wfail c))
  end.

(* get_next_call (mod.rs:149-167) + SelectAll::poll: the connections are polled in [order]; a
   polled connection keeps what it read; the first Ready one wins *)
Fixpoint scan_calls (order : list nat) (cs : list conn) : option (nat * rres D) * list conn :=
  match order with
  | [] => (None, cs)
  | i :: order' =>
      match nth_error cs i with
      | None => (None, cs)
      | Some c =>
          let (r, c') := poll_conn c in
          let cs' := upd_nth i c' cs in
          match r with
          | Some res => (Some (i, res), cs')
          | None => scan_calls order' cs'
          end
      end
  end.

(* ---------- writing ---------- *)
Definition write_conn (c : conn) (m : msg) : bool * conn * list tev :=
  let c' := mkConn (cid c) (rst c) (ctr c) (S (wcnt c)) (wfail c) in
  if existsb (Nat.eqb (wcnt c)) (wfail c)
  then (false, c', [TWriteFail (cid c) m])
  else (true, c', [TWrite (cid c) m]).

(* handle_call (mod.rs:169-193) *)
Inductive hres := HKeep (c' : conn) | HFail (c' : conn) | HPark (key : nat).

Definition reply_with (c : conn) (m : msg) : hres * list tev :=
  let '(ok, c', t) := write_conn c m in ((if ok then HKeep c' else HFail c'), t).

Definition handle_call (cl : call P) (c : conn) (s : sstate P) : hres * sstate P * list tev :=
  let (ans, s') := handle P cl s in
  if oneway P cl then
    (* `_ if oneway => ()` (mod.rs:178-179): nothing is sent, a stream the service made is dropped *)
    (HKeep c, s',
     TInvoke (cid c) cl ans ::
     match ans with AMulti => [TNewStream (cid c) (skey P cl); TSDrop (cid c) (skey P cl)] | _ => [] end)
  else
  match ans with
  | ASingle p =>
      let (h, t) := reply_with c (WSingle p) in (h, s', TInvoke (cid c) cl ans :: t)
  | AError e =>
      let (h, t) := reply_with c (WError e) in (h, s', TInvoke (cid c) cl ans :: t)
  | AMulti =>
      (HPark (skey P cl), s', [TInvoke (cid c) cl ans; TNewStream (cid c) (skey P cl)])
  end.

(* the body of select branch 2 (mod.rs:87-111); cs = the connections after the scan *)
Definition on_call (s : sv) (cs : list conn) (idx : nat) (r : rres D) : istatus * sv * list tev :=
  match nth_error cs idx with
  | None => (Stop Panicked, s, [])
  | Some c =>
      let s1 := set_lastc s (Some idx) in
      match r with
      | Msg (Some cl) =>
          let '(h, st', t) := handle_call cl c (sst s) in
          let s2 := set_sst s1 st' in
          match h with
          | HKeep c' => (Progress, set_conns s2 (upd_nth idx c' cs), t)
          | HFail c' => (Progress, set_conns s2 (swap_remove idx cs), t ++ [TDrop (cid c)])
          | HPark key =>
              (Progress, set_streams (set_conns s2 (swap_remove idx cs)) (streams s ++ [(key, c)]), t)
          end
      | _ => (Progress, set_conns s1 (swap_remove idx cs), [TDrop (cid c)])
      end
  end.

(* ---------- reply streams ---------- *)
Fixpoint pop_key (key : nat) (q : list (nat * sev)) : option (sev * list (nat * sev)) :=
  match q with
  | [] => None
  | (k, e) :: q' =>
      if Nat.eqb k key then Some (e, q')
      else match pop_key key q' with
           | None => None
           | Some (e', q'') => Some (e', (k, e) :: q'')
           end
  end.

Fixpoint scan_streams (order : list nat) (ss : list (nat * conn)) (q : list (nat * sev))
  : option (nat * sev * list (nat * sev)) :=
  match order with
  | [] => None
  | i :: order' =>
      match nth_error ss i with
      | None => None
      | Some (key, _) =>
          match pop_key key q with
          | Some (e, q') => Some (i, e, q')
          | None => scan_streams order' ss q
          end
      end
  end.

(* the body of select branch 3 (mod.rs:113-136) *)
Definition on_stream (s : sv) (idx : nat) (e : sev) : istatus * sv * list tev :=
  match nth_error (streams s) idx with
  | None => (Stop Panicked, s, [])
  | Some (key, c) =>
      let s1 := set_lasts s (Some idx) in
      match e with
      | SItem r =>
          let '(ok, c', t) := write_conn c (WItem r) in
          if ok then (Progress, set_streams s1 (upd_nth idx (key, c') (streams s)),
                      TSYield (cid c) key e :: t)
          else (Progress, set_streams s1 (swap_remove idx (streams s)),
                TSYield (cid c) key e :: t ++ [TSDrop (cid c) key; TDrop (cid c)])
      | SEnd =>
          (Progress, set_conns (set_streams s1 (swap_remove idx (streams s))) (conns s ++ [c]),
           [TSYield (cid c) key e; TSDrop (cid c) key])
      end
  end.

(* `conn?` (mod.rs:79): an accept error ends `run`; everything owned by the future is dropped
   (reverse declaration order: reply_streams, then connections) *)
Definition exit_trace (s : sv) : list tev :=
  flat_map (fun x => [TSDrop (cid (snd x)) (fst x); TDrop (cid (snd x))]) (streams s)
  ++ map (fun c => TDrop (cid c)) (conns s) ++ [TExit].

(* one iteration of the loop: select_biased! over accept / get_next_call / reply streams *)
Definition iteration (s : sv) : istatus * sv * list tev :=
  match accq s with
  | Some c :: q => (Progress, set_conns (set_accq s q) (conns s ++ [c]), [TAccept (cid c)])
  | None :: q => (Stop Exited, set_streams (set_conns (set_accq s q) []) [], exit_trace s)
  | [] =>
      match scan_calls (poll_order (lastc s) (length (conns s))) (conns s) with
      | (Some (idx, r), cs) => on_call s cs idx r
      | (None, cs) =>
          let s1 := set_conns s cs in
          match scan_streams (poll_order (lasts s1) (length (streams s1))) (streams s1) (squeue s1) with
          | Some (idx, e, q') => on_stream (set_squeue s1 q') idx e
          | None => (Idle, s1, [])
          end
      end
  end.

(* ---------- one poll of the server future ---------- *)
Fixpoint poll_loop (fuel : nat) (s : sv) : status * sv * list tev :=
  match fuel with
  | O => (OutOfFuel, s, [])
  | S fuel =>
      match iteration s with
      | (Progress, s', t) => let '(r, s'', t') := poll_loop fuel s' in (r, s'', t ++ t')
      | (Idle, s', t) => (Running, s', t)
      | (Stop r, s', t) => (r, s', t)
      end
  end.

(* a bound on the number of iterations one poll can make *)
Definition conn_weight (c : conn) : nat :=
  length (ctr c) + 2 * length (payload (ctr c)) + (length (data (rst c)) - mpos (rst c))
  + (if Nat.eqb (mpos (rst c)) 0 then 0 else 1) + 1.
Definition measure (s : sv) : nat :=
  list_sum (map (fun a => match a with Some c => 1 + conn_weight c | None => 1 end) (accq s))
  + list_sum (map conn_weight (conns s))
  + list_sum (map (fun x => conn_weight (snd x)) (streams s))
  + length (squeue s).

Definition poll_server (s : sv) : sv * list tev :=
  let '(r, s', t) := poll_loop (S (measure s)) s in (set_stat s' r, t).

(* ---------- the environment ---------- *)
Definition upd_if (c : nat) (f : conn -> conn) (x : conn) : conn :=
  if Nat.eqb (cid x) c then f x else x.
Definition on_conn (c : nat) (f : conn -> conn) (s : sv) : sv :=
  set_streams
    (set_conns
       (set_accq s (map (fun a => match a with Some x => Some (upd_if c f x) | None => None end) (accq s)))
       (map (upd_if c f) (conns s)))
    (map (fun kx => (fst kx, upd_if c f (snd kx))) (streams s)).

Definition push_ev (e : ev) (x : conn) : conn :=
  mkConn (cid x) (rst x) (ctr x ++ [e]) (wcnt x) (wfail x).
Definition add_wfail (k : nat) (x : conn) : conn :=
  mkConn (cid x) (rst x) (ctr x) (wcnt x) (k :: wfail x).
Definition fresh_conn (c : nat) : conn := mkConn c (init (p_step P)) [] 0 [].

Definition apply_env (e : eev) (s : sv) : sv :=
  match e with
  | NewConn c =>
      if existsb (Nat.eqb c) (known s) then s
      else set_accq (set_known s (known s ++ [c])) (accq s ++ [Some (fresh_conn c)])
  | ListenerFail => set_accq s (accq s ++ [None])
  | Arrive c bs => on_conn c (push_ev (Data bs)) s
  | CloseRead c => on_conn c (push_ev Eof) s
  | FailRead c => on_conn c (push_ev Fail) s
  | FailWrite c k => on_conn c (add_wfail k) s
  | StreamItem key r => set_squeue s (squeue s ++ [(key, SItem r)])
  | StreamEnd key => set_squeue s (squeue s ++ [(key, SEnd)])
  | Poll => s
  end.

Definition step_env (e : eev) (s : sv) : sv * list tev :=
  match e with
  | Poll => match stat s with Running => poll_server s | _ => (s, []) end
  | _ => (apply_env e s, [])
  end.

(* the whole run: final state and the trace *)
Fixpoint exec (evs : list eev) (s : sv) : sv * list tev :=
  match evs with
  | [] => (s, [])
  | e :: evs' => let (s', t) := step_env e s in
                 let (s'', t') := exec evs' s' in (s'', t ++ t')
  end.

(* the same with what is observed after each poll: the new trace events and, per known
   connection name, the number of unread bytes *)
Definition find_conn (c : nat) (s : sv) : option conn :=
  find (fun x => Nat.eqb (cid x) c)
       (flat_map (fun a => match a with Some x => [x] | None => [] end) (accq s)
        ++ conns s ++ map snd (streams s)).
Definition snapshot (s : sv) : list nat :=
  map (fun c => match find_conn c s with Some x => length (payload (ctr x)) | None => 0 end) (known s).

Fixpoint run (evs : list eev) (s : sv) : list (list tev * list nat) :=
  match evs with
  | [] => []
  | Poll :: evs' => let (s', t) := step_env Poll s in (t, snapshot s') :: run evs' s'
  | e :: evs' => run evs' (fst (step_env e s))
  end.

End Server.

Arguments SItem {P} r.
Arguments SEnd {P}.

Arguments NewConn {P} c.
Arguments ListenerFail {P}.
Arguments Arrive {P} c bs.
Arguments CloseRead {P} c.
Arguments FailRead {P} c.
Arguments FailWrite {P} c k.
Arguments StreamItem {P} key r.
Arguments StreamEnd {P} key.
Arguments Poll {P}.
Arguments TAccept {P} c.
Arguments TInvoke {P} c cl a.
Arguments TNewStream {P} c key.
Arguments TWrite {P} c m.
Arguments TWriteFail {P} c m.
Arguments TDrop {P} c.
Arguments TSDrop {P} c key.
Arguments TSYield {P} c key e.
Arguments TExit {P}.
Arguments accq {P} s.
Arguments conns {P} s.
Arguments streams {P} s.
Arguments lastc {P} s.
Arguments lasts {P} s.
Arguments sst {P} s.
Arguments squeue {P} s.
Arguments known {P} s.
Arguments stat {P} s.
Arguments set_accq {P} s x.
Arguments set_conns {P} s x.
Arguments set_streams {P} s x.
Arguments set_lastc {P} s x.
Arguments set_lasts {P} s x.
Arguments set_sst {P} s x.
Arguments set_squeue {P} s x.
Arguments set_known {P} s x.
Arguments set_stat {P} s x.
