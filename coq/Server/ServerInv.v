(* The per-connection invariant of the Server model: a connection whose input is a sequence of
   well-formed, decodable frames and whose transport never fails is never dropped, and its view of
   the trace is, call by call and in frame order, the transcript [chunk] of each handled call.
   Holds for every service, every environment script and any number of other connections. *)
From ZV Require Import Server.Server Server.ServerLists Server.ServerFraming Server.ServerStruct
  Server.ServerSpec Server.RoundRobin Server.ServerRR Framing.ReadConnProofs.
From Coq Require Import Lia.

Section Inv.
Variable P : params.
Hypothesis step_pos : (0 < p_step P)%N.
Variable c : nat.                         (* the connection under consideration *)
Variable fs : list (list byte).           (* the frames it sends *)
Hypothesis fs_ok : Forall frame_ok fs.
Hypothesis fs_dec : forall f, In f fs -> decode P f <> None.
Hypothesis fs_lim : (N.of_nat (length (wire fs)) < p_limit P)%N.

Notation D := (option (call P)).
Notation rinvP := (rinv (length (wire fs))).
Notation viewc := (view P c).
Notation chunkc := (chunk P c).

Inductive place := PAccq | PCalls | PStream (key : nat).

Definition hcs_ok (hcs : list (hcall P)) (done : list (list byte)) : Prop :=
  map (fun h => Some (h_cl h)) hcs = map (decode P) done.

Definition place_ok (pl : place) (T : list (tev P)) (hcs : list (hcall P)) : Prop :=
  match pl with
  | PAccq => hcs = [] /\ viewc T = []
  | PCalls => viewc T = TAccept c :: flat_map chunkc hcs /\ Forall (complete P) hcs
  | PStream key => exists hcs' h, hcs = hcs' ++ [h] /\ Forall (complete P) hcs' /\
       h_ans h = AMulti /\ oneway P (h_cl h) = false /\ h_ended h = false /\ key = skey P (h_cl h) /\
       viewc T = TAccept c :: flat_map chunkc hcs
  end.

Definition cinv (pl : place) (T : list (tev P)) (fut : list byte) (x : conn) : Prop :=
  cid x = c ->
  wfail x = [] /\
  exists done rest hcs,
    fs = done ++ rest /\ rinvP (rst x) (ctr x) rest fut /\ hcs_ok hcs done /\ place_ok pl T hcs.

(* a connection that has just been polled Ready with result r, before the call is handled *)
Definition polled_ok (T : list (tev P)) (fut : list byte) (r : rres D) (x : conn) : Prop :=
  cid x = c ->
  wfail x = [] /\
  exists done f rest hcs,
    fs = done ++ f :: rest /\ r = Msg (decode P f) /\ rinvP (rst x) (ctr x) rest fut /\
    hcs_ok hcs done /\ place_ok PCalls T hcs.

Lemma cinv_view pl T T' fut x : viewc T' = viewc T -> cinv pl T fut x -> cinv pl T' fut x.
Proof.
  intros Hv H Hc. destruct (H Hc) as (Hw & done & rest & hcs & H1 & H2 & H3 & H4).
  split; [exact Hw|]. exists done, rest, hcs. split; [exact H1|]. split; [exact H2|]. split; [exact H3|].
  destruct pl as [| |key]; unfold place_ok in *; rewrite Hv; exact H4.
Qed.

Lemma cinv_other pl T fut x : cid x <> c -> cinv pl T fut x.
Proof. intros H Hc. contradiction. Qed.

Lemma Forall_cinv_step pl T T' fut (l : list conn) :
  (viewc T' = viewc T \/ cnt cid c l = 0) ->
  Forall (cinv pl T fut) l -> Forall (cinv pl T' fut) l.
Proof.
  intros [Hv|H0] H.
  - eapply Forall_impl; [|exact H]. intros x. now apply cinv_view.
  - apply cnt_zero in H0. eapply Forall_impl; [|exact H0]. intros x Hx. now apply cinv_other.
Qed.

Lemma Forall_sinv_step T T' fut (l : list (nat * conn)) :
  (viewc T' = viewc T \/ cnt skx c l = 0) ->
  Forall (fun kx => cinv (PStream (fst kx)) T fut (snd kx)) l ->
  Forall (fun kx => cinv (PStream (fst kx)) T' fut (snd kx)) l.
Proof.
  intros [Hv|H0] H.
  - eapply Forall_impl; [|exact H]. intros x. now apply cinv_view.
  - apply cnt_zero in H0. eapply Forall_impl; [|exact H0]. intros x Hx. now apply cinv_other.
Qed.

Lemma view_app T t : viewc (T ++ t) = viewc T ++ viewc t.
Proof. apply filter_app. Qed.

Lemma view_none t : (forall e, In e t -> about P e <> Some c) -> viewc t = [].
Proof.
  induction t as [|e t IH]; intros H; [reflexivity|]. cbn. unfold is_about.
  destruct (about P e) as [c'|] eqn:E.
  - destruct (Nat.eqb c' c) eqn:E'.
    + apply Nat.eqb_eq in E'. subst. exfalso. apply (H e); [now left|exact E].
    + apply IH. intros e' He'. apply H. now right.
  - apply IH. intros e' He'. apply H. now right.
Qed.

Lemma view_all t : (forall e, In e t -> about P e = Some c) -> viewc t = t.
Proof.
  induction t as [|e t IH]; intros H; [reflexivity|]. cbn. unfold is_about.
  rewrite (H e) by now left. rewrite Nat.eqb_refl. f_equal. apply IH. intros e' He'. apply H. now right.
Qed.

(* ---------- one poll of a connection ---------- *)
Lemma poll_conn_rinv x rest fut : rinvP (rst x) (ctr x) rest fut ->
  match poll_conn P x with
  | (None, x') => ctr x' = [] /\ mpos (rst x') = 0 /\ rinvP (rst x') (ctr x') rest fut
  | (Some r, x') => exists f rest', rest = f :: rest' /\ r = Msg (decode P f) /\
                                    rinvP (rst x') (ctr x') rest' fut
  end.
Proof.
  intros H2. unfold poll_conn.
  pose proof (poll_rinv (p_step P) (p_limit P) D (decode P) step_pos _ _ _ _ _ fs_lim H2) as Hr.
  unfold conn_fuel. unfold rfuel in Hr.
  destruct (poll_receive _ _ _ _ _ _ _) as [[r s1] tr1]. destruct r; cbn [rst ctr]; exact Hr.
Qed.

Lemma poll_none_cinv T fut x x' : cinv PCalls T fut x -> poll_conn P x = (None, x') ->
  cinv PCalls T fut x' /\ (cid x = c -> ctr x' = [] /\ mpos (rst x') = 0).
Proof.
  intros H Hp. destruct (poll_conn_cid _ _ _ _ Hp) as (Hc & Hw & _).
  split.
  - intros Hc'. rewrite Hc in Hc'. destruct (H Hc') as (Hwf & done & rest & hcs & H1 & H2 & H3 & H4).
    split; [congruence|]. exists done, rest, hcs.
    pose proof (poll_conn_rinv _ _ _ H2) as Hr. rewrite Hp in Hr. tauto.
  - intros Hc'. destruct (H Hc') as (Hwf & done & rest & hcs & H1 & H2 & H3 & H4).
    pose proof (poll_conn_rinv _ _ _ H2) as Hr. rewrite Hp in Hr. tauto.
Qed.

Lemma poll_some_cinv T fut x r x' : cinv PCalls T fut x -> poll_conn P x = (Some r, x') ->
  polled_ok T fut r x'.
Proof.
  intros H Hp. destruct (poll_conn_cid _ _ _ _ Hp) as (Hc & Hw & _).
  intros Hc'. rewrite Hc in Hc'. destruct (H Hc') as (Hwf & done & rest & hcs & H1 & H2 & H3 & H4).
  split; [congruence|].
  pose proof (poll_conn_rinv _ _ _ H2) as Hr. rewrite Hp in Hr.
  destruct Hr as (f & rest' & -> & -> & Hr).
  exists done, f, rest', hcs. tauto.
Qed.

(* ---------- handling the call that was read ---------- *)
Lemma write_ok x m : wfail x = [] ->
  write_conn P x m = (true, mkConn (cid x) (rst x) (ctr x) (S (wcnt x)) (wfail x), [TWrite (cid x) m]).
Proof. intros H. unfold write_conn. rewrite H. reflexivity. Qed.

Lemma hcs_ok_snoc hcs done f cl h : hcs_ok hcs done -> decode P f = Some cl -> h_cl h = cl ->
  hcs_ok (hcs ++ [h]) (done ++ [f]).
Proof. intros H Hd Hh. unfold hcs_ok in *. rewrite !map_app, H. cbn. now rewrite Hd, Hh. Qed.

Lemma handle_call_cinv T fut cl x st h st' t :
  cid x = c -> polled_ok T fut (Msg (Some cl)) x -> handle_call P cl x st = (h, st', t) ->
  match h with
  | HKeep x'' => cid x'' = c /\ cinv PCalls (T ++ t) fut x''
  | HPark key => cinv (PStream key) (T ++ t) fut x
  | HFail _ => False
  end.
Proof.
  intros Hc Hp Hh. destruct (Hp Hc) as (Hwf & done & f & rest & hcs & Hfs & Hr & Hrinv & Hok & Hv & Hcomp).
  inversion Hr as [Hdec]. symmetry in Hdec.
  unfold handle_call, reply_with in Hh. destruct (handle P cl st) as [ans s'].
  assert (Hfs' : fs = (done ++ [f]) ++ rest) by (now rewrite <- app_assoc).
  set (h0 := mkH cl ans [] false).
  assert (Hok' : hcs_ok (hcs ++ [h0]) (done ++ [f])) by (apply (hcs_ok_snoc hcs done f cl h0); auto).
  assert (Hview : forall t0, t0 = chunkc h0 -> viewc (T ++ t0) = TAccept c :: flat_map chunkc (hcs ++ [h0])).
  { intros t0 ->. rewrite view_app, Hv, flat_map_app. cbn [flat_map]. rewrite app_nil_r.
    rewrite view_all; [reflexivity|].
    intros e He. unfold chunk in He. cbn [h_cl h_ans h_items h_ended h0] in He.
    destruct He as [<-|He]; [reflexivity|].
    destruct (oneway P cl); destruct ans; cbn in He;
      repeat (destruct He as [<-|He]; [reflexivity|]); contradiction. }
  destruct (oneway P cl) eqn:Eow.
  - inversion Hh; subst h st' t. split; [exact Hc|]. intros _. split; [exact Hwf|].
    exists (done ++ [f]), rest, (hcs ++ [h0]). split; [exact Hfs'|]. split; [exact Hrinv|]. split; [exact Hok'|]. split.
    + apply Hview. unfold chunk. cbn [h_cl h_ans h0]. rewrite Eow, Hc. destruct ans; reflexivity.
    + apply Forall_app. split; [exact Hcomp|]. constructor; [|constructor].
      unfold complete. cbn [h_ans h_cl h0]. destruct ans; auto.
  - destruct ans as [p|e|].
    + rewrite (write_ok x (WSingle p) Hwf) in Hh. inversion Hh; subst h st' t. cbn [cid].
      split; [exact Hc|]. intros _. cbn [wfail rst ctr]. split; [exact Hwf|].
      exists (done ++ [f]), rest, (hcs ++ [h0]). split; [exact Hfs'|]. split; [exact Hrinv|]. split; [exact Hok'|]. split.
      * apply Hview. unfold chunk. cbn [h_cl h_ans h0]. rewrite Eow, Hc. reflexivity.
      * apply Forall_app. split; [exact Hcomp|]. constructor; [exact I|constructor].
    + rewrite (write_ok x (WError e) Hwf) in Hh. inversion Hh; subst h st' t. cbn [cid].
      split; [exact Hc|]. intros _. cbn [wfail rst ctr]. split; [exact Hwf|].
      exists (done ++ [f]), rest, (hcs ++ [h0]). split; [exact Hfs'|]. split; [exact Hrinv|]. split; [exact Hok'|]. split.
      * apply Hview. unfold chunk. cbn [h_cl h_ans h0]. rewrite Eow, Hc. reflexivity.
      * apply Forall_app. split; [exact Hcomp|]. constructor; [exact I|constructor].
    + inversion Hh; subst h st' t. intros _. split; [exact Hwf|].
      exists (done ++ [f]), rest, (hcs ++ [h0]). split; [exact Hfs'|]. split; [exact Hrinv|]. split; [exact Hok'|].
      exists hcs, h0. repeat split; auto.
      apply Hview. unfold chunk. cbn [h_cl h_ans h_items h_ended h0]. rewrite Eow, Hc. reflexivity.
Qed.

(* ---------- a stream yields ---------- *)
Lemma stream_item_cinv T fut key x r : cid x = c -> cinv (PStream key) T fut x ->
  write_conn P x (WItem r)
  = (true, mkConn (cid x) (rst x) (ctr x) (S (wcnt x)) (wfail x), [TWrite c (WItem r)]) /\
  cinv (PStream key) (T ++ TSYield c key (SItem r) :: [TWrite c (WItem r)]) fut
       (mkConn (cid x) (rst x) (ctr x) (S (wcnt x)) (wfail x)).
Proof.
  intros Hc H. destruct (H Hc) as (Hwf & done & rest & hcs & H1 & H2 & H3 & hcs' & h & -> & Hcomp & Ha & Ho & He & Hk & Hv).
  split; [rewrite (write_ok x (WItem r) Hwf), Hc; reflexivity|].
  intros _. cbn [wfail rst ctr]. split; [exact Hwf|].
  set (h' := mkH (h_cl h) (h_ans h) (h_items h ++ [r]) false).
  exists done, rest, (hcs' ++ [h']). split; [exact H1|]. split; [exact H2|]. split.
  { unfold hcs_ok in *. rewrite map_app in *. exact H3. }
  exists hcs', h'. repeat split; auto.
  rewrite view_app, Hv, !flat_map_app. cbn [flat_map]. rewrite !app_nil_r.
  rewrite view_all by (intros e [<-|[<-|[]]]; reflexivity).
  unfold chunk. cbn [h_cl h_ans h_items h_ended h']. rewrite Ha, Ho, He, <- Hk.
  rewrite flat_map_app. cbn [flat_map]. rewrite !app_nil_r. cbn [app].
  rewrite <- !app_assoc. reflexivity.
Qed.

Lemma stream_end_cinv T fut key x : cid x = c -> cinv (PStream key) T fut x ->
  cinv PCalls (T ++ TSYield c key SEnd :: [TSDrop c key]) fut x.
Proof.
  intros Hc H _. destruct (H Hc) as (Hwf & done & rest & hcs & H1 & H2 & H3 & hcs' & h & -> & Hcomp & Ha & Ho & He & Hk & Hv).
  split; [exact Hwf|].
  set (h' := mkH (h_cl h) (h_ans h) (h_items h) true).
  exists done, rest, (hcs' ++ [h']). split; [exact H1|]. split; [exact H2|]. split.
  { unfold hcs_ok in *. rewrite map_app in *. exact H3. }
  split.
  - rewrite view_app, Hv, !flat_map_app. cbn [flat_map]. rewrite !app_nil_r.
    rewrite view_all by (intros e [<-|[<-|[]]]; reflexivity).
    unfold chunk. cbn [h_cl h_ans h_items h_ended h']. rewrite Ha, Ho, He, <- Hk.
    rewrite !app_nil_r. cbn [app]. rewrite <- !app_assoc. reflexivity.
  - apply Forall_app. split; [exact Hcomp|]. constructor; [|constructor].
    unfold complete. cbn [h_ans h_ended h']. rewrite Ha. now right.
Qed.

(* ---------- whom the events of a step concern ---------- *)
Lemma write_conn_about x m ok x' t : write_conn P x m = (ok, x', t) ->
  forall e, In e t -> about P e = Some (cid x).
Proof.
  intros H. destruct (write_conn_facts _ _ _ _ _ _ H) as (_ & _ & _ & _ & _ & -> & _).
  intros e [<-|[]]. destruct ok; reflexivity.
Qed.

Lemma handle_call_about cl x st h st' t : handle_call P cl x st = (h, st', t) ->
  forall e, In e t -> about P e = Some (cid x).
Proof.
  unfold handle_call, reply_with. destruct (handle P cl st) as [ans s']. destruct (oneway P cl).
  - intros H; inversion H; subst. intros e [<-|He]; [reflexivity|].
    destruct ans; cbn in He; repeat (destruct He as [<-|He]; [reflexivity|]); contradiction.
  - destruct ans as [p|e0|].
    + destruct (write_conn P x (WSingle p)) as [[ok x'] t'] eqn:Ew.
      intros H; inversion H; subst. intros e [<-|He]; [reflexivity|]. eapply write_conn_about; eauto.
    + destruct (write_conn P x (WError e0)) as [[ok x'] t'] eqn:Ew.
      intros H; inversion H; subst. intros e [<-|He]; [reflexivity|]. eapply write_conn_about; eauto.
    + intros H; inversion H; subst. intros e [<-|[<-|[]]]; reflexivity.
Qed.

Lemma on_call_about s l1 x l2 r st s' t :
  on_call P s (l1 ++ x :: l2) (length l1) r = (st, s', t) ->
  forall e, In e t -> about P e = Some (cid x).
Proof.
  unfold on_call. rewrite nth_error_mid.
  destruct r as [[cl|]| | |]; try (intros H; inversion H; subst; intros e [<-|[]]; reflexivity).
  destruct (handle_call P cl x (sst s)) as [[h st'] t'] eqn:Eh.
  pose proof (handle_call_about _ _ _ _ _ _ Eh) as Ha.
  destruct h; intros H; inversion H; subst; auto.
  intros e He. apply in_app_iff in He. destruct He as [He|[<-|[]]]; auto.
Qed.

Lemma on_stream_about s idx e key x st s' t :
  nth_error (streams s) idx = Some (key, x) -> on_stream P s idx e = (st, s', t) ->
  forall e', In e' t -> about P e' = Some (cid x).
Proof.
  intros E. unfold on_stream. rewrite E. destruct e as [r|].
  - destruct (write_conn P x (WItem r)) as [[ok x'] t'] eqn:Ew.
    pose proof (write_conn_about _ _ _ _ _ Ew) as Ha.
    destruct ok; intros H; inversion H; subst; intros e' [<-|He]; try reflexivity; auto.
    apply in_app_iff in He. destruct He as [He|[<-|[<-|[]]]]; auto.
  - intros H; inversion H; subst. intros e' [<-|[<-|[]]]; reflexivity.
Qed.

(* ---------- the invariant of the whole server, for connection c ---------- *)
Record ginv (s : sv P) (T : list (tev P)) (E2 : list (eev P)) : Prop := mkG {
  g_acc : Forall (cinv PAccq T (input_of P true c E2)) (acc_conns (accq s));
  g_nofail : Forall (fun a => a <> None) (accq s);
  g_calls : Forall (cinv PCalls T (input_of P true c E2)) (conns s);
  g_streams : Forall (fun kx => cinv (PStream (fst kx)) T (input_of P true c E2) (snd kx)) (streams s);
  g_one : occ P c s <= 1;
  g_known : 0 < occ P c s -> In c (known s);
  g_live : In c (known s) -> occ P c s = 1;      (* c is never dropped *)
  g_nodrop : dcount P c T = 0;
  g_new : ~ In c (known s) -> viewc T = [] /\ input_of P false c E2 = wire fs;
  g_clean : clean P c E2
}.

Lemma cnt1_c x : cid x = c -> cnt1 cid c x = 1.
Proof. intros H. unfold cnt1. now rewrite H, Nat.eqb_refl. Qed.
Lemma cnt1_not_c x : cid x <> c -> cnt1 cid c x = 0.
Proof. intros H. unfold cnt1. apply Nat.eqb_neq in H. now rewrite H. Qed.

Lemma dcount_about t x : (forall e, In e t -> about P e = Some (cid x)) -> cid x <> c -> dcount P c t = 0.
Proof.
  intros Ha Hc. unfold dcount. induction t as [|e t IH]; [reflexivity|]. cbn.
  assert (is_drop P c e = false).
  { specialize (Ha e (or_introl eq_refl)). destruct e; cbn in *; try reflexivity.
    inversion Ha. apply Nat.eqb_neq. congruence. }
  rewrite H. apply IH. intros e' He'. apply Ha. now right.
Qed.

Lemma view_other T t x : (forall e, In e t -> about P e = Some (cid x)) -> cid x <> c ->
  viewc (T ++ t) = viewc T.
Proof.
  intros Ha Hc. rewrite view_app. rewrite (view_none t); [now rewrite app_nil_r|].
  intros e He. rewrite (Ha e He). congruence.
Qed.

(* the method-call branch *)
Lemma on_call_ginv s T fut l1 x l2 r st s' t :
  Forall (cinv PCalls T fut) l1 -> Forall (cinv PCalls T fut) l2 -> polled_ok T fut r x ->
  Forall (fun kx => cinv (PStream (fst kx)) T fut (snd kx)) (streams s) ->
  cnt cid c (l1 ++ x :: l2) + cnt skx c (streams s) <= 1 ->
  on_call P s (l1 ++ x :: l2) (length l1) r = (st, s', t) ->
  Forall (cinv PCalls (T ++ t) fut) (conns s') /\
  Forall (fun kx => cinv (PStream (fst kx)) (T ++ t) fut (snd kx)) (streams s') /\
  dcount P c t = 0 /\ (cid x <> c -> viewc (T ++ t) = viewc T).
Proof.
  intros H1 H2 Hp Hs Hcnt Hon.
  pose proof (on_call_about _ _ _ _ _ _ _ _ Hon) as Habout.
  rewrite cnt_app in Hcnt. cbn [cnt] in Hcnt.
  destruct (Nat.eq_dec (cid x) c) as [Hc|Hc].
  - (* the connection under consideration was read *)
    rewrite (cnt1_c _ Hc) in Hcnt.
    assert (Z1 : cnt cid c l1 = 0) by lia. assert (Z2 : cnt cid c l2 = 0) by lia.
    assert (Z3 : cnt skx c (streams s) = 0) by lia.
    pose proof (Forall_cinv_step PCalls T (T ++ t) fut l1 (or_intror Z1) H1) as H1'.
    pose proof (Forall_cinv_step PCalls T (T ++ t) fut l2 (or_intror Z2) H2) as H2'.
    pose proof (Forall_sinv_step T (T ++ t) fut _ (or_intror Z3) Hs) as Hs'.
    destruct (Hp Hc) as (Hwf & done & f & rest & hcs & Hfs & Hr & _).
    assert (Hin : In f fs) by (rewrite Hfs; apply in_app_iff; right; now left).
    destruct (decode P f) as [cl|] eqn:Ed; [|exfalso; now apply (fs_dec f Hin)].
    subst r. unfold on_call in Hon. rewrite nth_error_mid in Hon.
    destruct (handle_call P cl x (sst s)) as [[h st'] t'] eqn:Eh.
    pose proof (handle_call_cinv T fut cl x (sst s) h st' t' Hc Hp Eh) as Hh.
    destruct (handle_call_facts _ _ _ _ _ _ _ Eh) as (Hd & _).
    destruct h as [x''|x''|key]; [| contradiction |]; inversion Hon; subst st s' t;
      cbn [conns streams set_conns set_streams set_sst set_lastc].
    + rewrite upd_nth_split. destruct Hh as (Hc'' & Hh). repeat split; auto; try tauto.
      apply Forall_app. split; [exact H1'|]. constructor; auto.
    + repeat split; auto; try tauto.
      * apply Forall_swap_remove_split; auto.
      * apply Forall_app. split; [exact Hs'|]. constructor; [exact Hh|constructor].
  - (* another connection was read *)
    pose proof (view_other T t x Habout Hc) as Hv.
    pose proof (Forall_cinv_step PCalls T (T ++ t) fut l1 (or_introl Hv) H1) as H1'.
    pose proof (Forall_cinv_step PCalls T (T ++ t) fut l2 (or_introl Hv) H2) as H2'.
    pose proof (Forall_sinv_step T (T ++ t) fut _ (or_introl Hv) Hs) as Hs'.
    split; [|split; [|split; [eapply dcount_about; eauto|auto]]].
    + unfold on_call in Hon. rewrite nth_error_mid in Hon.
      destruct r as [[cl|]| | |];
        try (inversion Hon; subst; cbn [conns set_conns set_lastc]; apply Forall_swap_remove_split; auto).
      destruct (handle_call P cl x (sst s)) as [[h st'] t'] eqn:Eh.
      destruct (handle_call_facts _ _ _ _ _ _ _ Eh) as (_ & Hh).
      destruct h as [x''|x''|key]; inversion Hon; subst; cbn [conns set_conns set_streams set_sst set_lastc].
      * rewrite upd_nth_split. apply Forall_app. split; [exact H1'|]. constructor; auto.
        apply cinv_other. congruence.
      * apply Forall_swap_remove_split; auto.
      * apply Forall_swap_remove_split; auto.
    + unfold on_call in Hon. rewrite nth_error_mid in Hon.
      destruct r as [[cl|]| | |];
        try (inversion Hon; subst; cbn [streams set_conns set_lastc]; exact Hs').
      destruct (handle_call P cl x (sst s)) as [[h st'] t'] eqn:Eh.
      destruct h as [x''|x''|key]; inversion Hon; subst; cbn [streams set_conns set_streams set_sst set_lastc];
        try exact Hs'.
      apply Forall_app. split; [exact Hs'|]. constructor; [|constructor]. cbn. now apply cinv_other.
Qed.

(* the reply-stream branch *)
Lemma on_stream_ginv s T fut l1 key x l2 e st s' t :
  streams s = l1 ++ (key, x) :: l2 ->
  Forall (fun kx => cinv (PStream (fst kx)) T fut (snd kx)) (streams s) ->
  Forall (cinv PCalls T fut) (conns s) ->
  cnt cid c (conns s) + cnt skx c (streams s) <= 1 ->
  on_stream P s (length l1) e = (st, s', t) ->
  Forall (cinv PCalls (T ++ t) fut) (conns s') /\
  Forall (fun kx => cinv (PStream (fst kx)) (T ++ t) fut (snd kx)) (streams s') /\
  dcount P c t = 0 /\ (cid x <> c -> viewc (T ++ t) = viewc T).
Proof.
  intros Hss Hs Hc0 Hcnt Hon.
  assert (En : nth_error (streams s) (length l1) = Some (key, x)) by (rewrite Hss; apply nth_error_mid).
  pose proof (on_stream_about _ _ _ _ _ _ _ _ En Hon) as Habout.
  rewrite Hss in Hs. apply Forall_app in Hs. destruct Hs as (H1 & Hx). inversion Hx as [|? ? Hx0 H2]; subst.
  cbn [fst snd] in Hx0.
  rewrite Hss, cnt_app in Hcnt. cbn [cnt] in Hcnt.
  unfold on_stream in Hon. rewrite En in Hon.
  destruct (Nat.eq_dec (cid x) c) as [Hc|Hc].
  - assert (Hk : cnt1 skx c (key, x) = 1) by (unfold cnt1, skx; cbn; now rewrite Hc, Nat.eqb_refl).
    assert (Z0 : cnt cid c (conns s) = 0) by lia.
    assert (Z1 : cnt skx c l1 = 0) by lia. assert (Z2 : cnt skx c l2 = 0) by lia.
    pose proof (Forall_cinv_step PCalls T (T ++ t) fut _ (or_intror Z0) Hc0) as Hc0'.
    pose proof (Forall_sinv_step T (T ++ t) fut l1 (or_intror Z1) H1) as H1'.
    pose proof (Forall_sinv_step T (T ++ t) fut l2 (or_intror Z2) H2) as H2'.
    destruct e as [r|].
    + destruct (stream_item_cinv T fut key x r Hc Hx0) as (Hw & Hx').
      rewrite Hc in Hon. rewrite Hw in Hon. inversion Hon; subst st s' t.
      cbn [conns streams set_streams set_lasts]. rewrite Hss, upd_nth_split.
      repeat split; auto; try tauto.
      apply Forall_app. split; [exact H1'|]. constructor; auto.
    + inversion Hon; subst st s' t. rewrite Hc in *.
      cbn [conns streams set_streams set_conns set_lasts]. rewrite Hss.
      repeat split; auto; try tauto.
      * apply Forall_app. split; [exact Hc0'|]. constructor; [|constructor].
        now apply stream_end_cinv.
      * apply Forall_swap_remove_split; auto.
  - pose proof (view_other T t x Habout Hc) as Hv.
    pose proof (Forall_cinv_step PCalls T (T ++ t) fut _ (or_introl Hv) Hc0) as Hc0'.
    pose proof (Forall_sinv_step T (T ++ t) fut l1 (or_introl Hv) H1) as H1'.
    pose proof (Forall_sinv_step T (T ++ t) fut l2 (or_introl Hv) H2) as H2'.
    split; [|split; [|split; [eapply dcount_about; eauto|auto]]].
    + destruct e as [r|].
      * destruct (write_conn P x (WItem r)) as [[ok x'] t'].
        destruct ok; inversion Hon; subst; cbn [conns set_streams set_lasts]; exact Hc0'.
      * inversion Hon; subst. cbn [conns set_streams set_conns set_lasts].
        apply Forall_app. split; [exact Hc0'|]. constructor; [|constructor]. now apply cinv_other.
    + destruct e as [r|].
      * destruct (write_conn P x (WItem r)) as [[ok x'] t'] eqn:Ew.
        destruct (write_conn_facts _ _ _ _ _ _ Ew) as (Hcx & _).
        destruct ok; inversion Hon; subst; cbn [streams set_streams set_lasts]; rewrite Hss.
        -- rewrite upd_nth_split. apply Forall_app. split; [exact H1'|]. constructor; auto.
           cbn. apply cinv_other. congruence.
        -- apply Forall_swap_remove_split; auto.
      * inversion Hon; subst. cbn [streams set_streams set_conns set_lasts]. rewrite Hss.
        apply Forall_swap_remove_split; auto.
Qed.

(* nothing left to do for c in the call list / nothing pending for the parked connections *)
Definition quiet_c (s : sv P) : Prop :=
  forall x, In x (conns s) -> cid x = c -> ctr x = [] /\ mpos (rst x) = 0.
Definition quiet_streams (s : sv P) : Prop :=
  forall key x, In (key, x) (streams s) -> pop_key P key (squeue s) = None.

Lemma dcount_nil : dcount P c [] = 0.
Proof. reflexivity. Qed.

(* one iteration of the loop keeps the invariant *)
Lemma ginv_iter s T E2 st s' t : ginv s T E2 -> iteration P s = (st, s', t) ->
  ginv s' (T ++ t) E2 /\ st <> Stop Exited /\
  (st = Idle -> quiet_c s' /\ quiet_streams s' /\ accq s' = []).
Proof.
  intros G Hit. destruct G as [Gacc Gnf Gcalls Gstr Gone Gknown Glive Gnd Gnew Gclean].
  set (fut := input_of P true c E2) in *.
  destruct (iteration_conserve P _ _ _ _ Hit) as (_ & _ & Hkn & Hocc).
  (* everything except the three lists, the queue and the view follows from conservation *)
  assert (Hfin : forall (Hd : dcount P c t = 0)
                        (Hv : occ P c s = 0 -> viewc (T ++ t) = viewc T)
                        (Ha : Forall (cinv PAccq (T ++ t) fut) (acc_conns (accq s')))
                        (Hn : Forall (fun a => a <> None) (accq s'))
                        (Hc : Forall (cinv PCalls (T ++ t) fut) (conns s'))
                        (Hs : Forall (fun kx => cinv (PStream (fst kx)) (T ++ t) fut (snd kx)) (streams s')),
             ginv s' (T ++ t) E2).
  { intros. specialize (Hocc c). constructor; auto; try (rewrite Hkn); try lia.
    - intros H. apply Gknown. lia.
    - intros H. specialize (Glive H). lia.
    - rewrite dcount_app. lia.
    - intros H. destruct (Gnew H) as (Hv0 & Hin). split; [|exact Hin].
      rewrite Hv; [exact Hv0|].
      destruct (Nat.eq_dec (occ P c s) 0) as [Hz|Hz]; [exact Hz|]. exfalso. apply H, Gknown. lia. }
  unfold iteration in Hit. destruct (accq s) as [|[x|] q] eqn:Ea.
  - (* branches 2 and 3 *)
    pose proof (scan_calls_cids P (poll_order (lastc s) (length (conns s))) (conns s)) as Hcids.
    destruct (scan_calls P (poll_order (lastc s) (length (conns s))) (conns s)) as [res cs] eqn:Es.
    cbn [snd] in Hcids.
    assert (Hcnt : cnt cid c cs = cnt cid c (conns s)) by (apply cnt_names; exact Hcids).
    assert (Hocc0 : occ P c s = cnt cid c (conns s) + cnt skx c (streams s)).
    { unfold occ. rewrite Ea. reflexivity. }
    pose proof (scan_calls_ind P (cinv PCalls T fut) (polled_ok T fut)
                  (fun x x' Hx Hp => proj1 (poll_none_cinv T fut x x' Hx Hp))
                  (fun x r x' Hx Hp => poll_some_cinv T fut x r x' Hx Hp)
                  _ _ _ _ Gcalls Es) as Hscan.
    destruct res as [[i r]|].
    + destruct Hscan as (l1 & x' & l2 & -> & <- & H1 & H2 & Hp).
      destruct (on_call_ginv s T fut l1 x' l2 r st s' t H1 H2 Hp Gstr ltac:(lia) Hit) as (Hc' & Hs' & Hd & Hv).
      assert (Hacc' : accq s' = accq s).
      { destruct (on_call_conserve P _ _ _ _ _ _ _ _ Hit) as (_ & _ & Ha & _). exact Ha. }
      split; [|split].
      * apply Hfin; auto.
        -- intros Hz. apply Hv. intros Hcx. rewrite cnt_app in Hcnt. cbn [cnt] in Hcnt.
           rewrite (cnt1_c _ Hcx) in Hcnt. lia.
        -- rewrite Hacc', Ea. constructor.
        -- rewrite Hacc', Ea. constructor.
      * destruct (on_call_conserve P _ _ _ _ _ _ _ _ Hit) as (-> & _). discriminate.
      * destruct (on_call_conserve P _ _ _ _ _ _ _ _ Hit) as (-> & _). discriminate.
    + destruct (scan_streams P _ _ _) as [[[idx e] q']|] eqn:Ess.
      * destruct (scan_streams_some P _ _ _ _ _ _ Ess) as (key & x & En & _).
        cbn [streams set_conns] in En.
        destruct (nth_error_split _ _ En) as (l1 & l2 & Hss & Hlen). subst idx.
        destruct (on_stream_ginv (set_squeue (set_conns s cs) q') T fut l1 key x l2 e st s' t
                    Hss Gstr Hscan ltac:(cbn [conns streams set_conns set_squeue]; lia) Hit)
          as (Hc' & Hs' & Hd & Hv).
        destruct (on_stream_conserve P (set_squeue (set_conns s cs) q') _ _ _ _ _ _ _ En Hit)
          as (-> & _ & Hacc' & _).
        cbn [accq set_conns set_squeue] in Hacc'.
        split; [|split; discriminate].
        apply Hfin; auto.
        -- intros Hz. apply Hv. intros Hcx.
           assert (0 < cnt skx c (streams s)).
           { apply (cnt_in skx c _ (key, x)); [|exact Hcx]. rewrite Hss. apply in_app_iff. right. now left. }
           lia.
        -- rewrite Hacc', Ea. constructor.
        -- rewrite Hacc', Ea. constructor.
      * inversion Hit; subst st s' t. rewrite app_nil_r.
        split; [|split; [discriminate|]].
        -- rewrite <- (app_nil_r T). apply Hfin; auto; rewrite ?app_nil_r; cbn [accq conns streams set_conns]; auto.
           ++ rewrite Ea. constructor.
           ++ rewrite Ea. constructor.
        -- intros _. split; [|split].
           ++ intros x' Hx' Hcx. cbn [conns set_conns] in Hx'.
              destruct (In_nth_error _ _ Hx') as (j & Hj).
              assert (Hjlt : j < length (conns s)).
              { rewrite <- (map_length cid (conns s)), <- Hcids, map_length. apply nth_error_Some. congruence. }
              destruct (scan_calls_none_elem P _ _ _ (poll_order_nodup _ _)
                          (fun i Hi => poll_order_lt _ _ i Hi) Es j) as (Hin & _).
              destruct (Hin (poll_order_all _ _ _ Hjlt)) as (y & y' & Hy & Hy' & Hpoll).
              rewrite Hj in Hy'. inversion Hy'; subst y'.
              assert (Hyc : cinv PCalls T fut y).
              { rewrite Forall_forall in Gcalls. apply Gcalls. eapply nth_error_In; eauto. }
              destruct (poll_conn_cid P _ _ _ Hpoll) as (Hcy & _).
              apply (proj2 (poll_none_cinv T fut y x' Hyc Hpoll)). congruence.
           ++ intros key x' Hx'. cbn [streams squeue set_conns] in *.
              eapply (scan_streams_none P _ _ _ (fun j Hj => poll_order_all _ _ j Hj)
                        (fun j Hj => poll_order_lt _ _ j Hj) Ess); eauto.
           ++ cbn [accq set_conns]. exact Ea.
  - (* accept *)
    inversion Hit; subst st s' t. cbn [acc_conns flat_map app] in Gacc. inversion Gacc as [|? ? Gx Gq]; subst.
    inversion Gnf as [|? ? _ Gnf']; subst.
    assert (Hocc0 : occ P c s = cnt1 cid c x + cnt cid c (acc_conns q) + cnt cid c (conns s) + cnt skx c (streams s)).
    { unfold occ. rewrite Ea. cbn [acc_conns flat_map app cnt]. fold (acc_conns q). lia. }
    assert (Hstep : viewc (T ++ [TAccept (cid x)]) = viewc T \/
                    (cnt cid c (acc_conns q) = 0 /\ cnt cid c (conns s) = 0 /\ cnt skx c (streams s) = 0)).
    { destruct (Nat.eq_dec (cid x) c) as [Hc|Hc].
      - right. rewrite (cnt1_c _ Hc) in Hocc0. lia.
      - left. apply (view_other T _ x); [|exact Hc]. intros e [<-|[]]. reflexivity. }
    split; [|split; discriminate].
    apply Hfin; cbn [accq conns streams set_conns set_accq]; auto.
    + intros Hz. destruct Hstep as [Hv|_]; [exact Hv|].
      apply (view_other T _ x); [intros e [<-|[]]; reflexivity|].
      intros Hc. rewrite (cnt1_c _ Hc) in Hocc0. lia.
    + apply (Forall_cinv_step PAccq T); [|exact Gq]. tauto.
    + apply Forall_app. split.
      * apply (Forall_cinv_step PCalls T); [|exact Gcalls]. tauto.
      * constructor; [|constructor]. intros Hc. destruct (Gx Hc) as (Hwf & done & rest & hcs & H1 & H2 & H3 & -> & Hv0).
        split; [exact Hwf|]. exists done, rest, []. split; [exact H1|]. split; [exact H2|]. split; [exact H3|].
        split; [|constructor]. rewrite view_app, Hv0, Hc. cbn. unfold is_about. cbn. now rewrite Nat.eqb_refl.
    + apply (Forall_sinv_step T); [|exact Gstr]. tauto.
  - (* the listener never fails here *)
    inversion Gnf as [|? ? Hbad _]; subst. congruence.
Qed.

(* ---------- environment events ---------- *)
Lemma acc_conns_map g (q : list (option conn)) :
  acc_conns (map (fun a => match a with Some x => Some (g x) | None => None end) q) = map g (acc_conns q).
Proof. unfold acc_conns. induction q as [|[x|] q IH]; cbn; [reflexivity| |exact IH]. now rewrite IH. Qed.

Lemma acc_conns_app (q1 q2 : list (option conn)) : acc_conns (q1 ++ q2) = acc_conns q1 ++ acc_conns q2.
Proof. unfold acc_conns. apply flat_map_app. Qed.

Lemma upd_if_cid (c' : nat) (g : conn -> conn) (x : conn) : (forall y, cid (g y) = cid y) -> cid (upd_if c' g x) = cid x.
Proof. intros H. unfold upd_if. destruct (Nat.eqb _ _); auto. Qed.

Lemma occ_on_conn (c' : nat) (g : conn -> conn) (s : sv P) : (forall y, cid (g y) = cid y) -> occ P c (on_conn P c' g s) = occ P c s.
Proof.
  intros Hg. unfold occ, on_conn. cbn [accq conns streams set_accq set_conns set_streams].
  rewrite (acc_conns_map (upd_if c' g)), !cnt_map_ext; auto using upd_if_cid.
  intros kx. unfold skx. cbn. now apply upd_if_cid.
Qed.

Lemma on_conn_ginv (c' : nat) (g : conn -> conn) (s : sv P) T E E2 :
  (forall y, cid (g y) = cid y) ->
  (forall pl x, cid x = c -> cinv pl T (input_of P true c E) x ->
                cinv pl T (input_of P true c E2) (upd_if c' g x)) ->
  (~ In c (known s) -> input_of P false c E = wire fs -> input_of P false c E2 = wire fs) ->
  clean P c E2 ->
  ginv s T E -> ginv (on_conn P c' g s) T E2.
Proof.
  intros Hg Hstep Hnew Hcl [Gacc Gnf Gcalls Gstr Gone Gknown Glive Gnd Gnew Gclean].
  assert (Hel : forall pl x, cinv pl T (input_of P true c E) x ->
                             cinv pl T (input_of P true c E2) (upd_if c' g x)).
  { intros pl x Hx Hc. rewrite upd_if_cid in Hc by exact Hg. exact (Hstep pl x Hc Hx (eq_trans (upd_if_cid c' g x Hg) Hc)). }
  constructor; rewrite ?occ_on_conn by exact Hg; auto;
    unfold on_conn; cbn [accq conns streams known set_accq set_conns set_streams].
  - rewrite (acc_conns_map (upd_if c' g)). apply Forall_map. eapply Forall_impl; [|exact Gacc]. intros x. apply Hel.
  - apply Forall_map. eapply Forall_impl; [|exact Gnf]. intros [x|] H; congruence.
  - apply Forall_map. eapply Forall_impl; [|exact Gcalls]. intros x. apply Hel.
  - apply Forall_map. eapply Forall_impl; [|exact Gstr]. intros kx. cbn [fst snd]. apply Hel.
  - intros H. destruct (Gnew H) as (Hv & Hin). split; auto.
Qed.

Lemma cinv_fut pl T fut x : cinv pl T fut x -> forall fut', fut' = fut -> cinv pl T fut' x.
Proof. intros H fut' ->. exact H. Qed.

Lemma upd_if_other (c' : nat) (g : conn -> conn) (x : conn) : cid x = c -> c' <> c -> upd_if c' g x = x.
Proof. intros Hc Hn. unfold upd_if. rewrite Hc. apply Nat.eqb_neq in Hn. rewrite Nat.eqb_sym. now rewrite Hn. Qed.

Lemma ginv_env s T e E2 : ginv s T (e :: E2) -> e <> Poll -> ginv (apply_env P e s) T E2.
Proof.
  intros G Hne. pose proof (g_clean _ _ _ G) as Hcl. inversion Hcl as [|? ? Hce Hcl']; subst.
  destruct e as [c'| |c' bs|c'|c'|c' k|key r|key| ]; cbn [apply_env clean_ev] in *; try contradiction.
  - (* NewConn *)
    destruct G as [Gacc Gnf Gcalls Gstr Gone Gknown Glive Gnd Gnew Gclean].
    cbn [input_of orb] in *.
    destruct (existsb (Nat.eqb c') (known s)) eqn:Ek.
    + constructor; auto. intros H. destruct (Gnew H) as (Hv & Hin). split; [exact Hv|].
      apply existsb_exists in Ek. destruct Ek as (k & Hk & Hkc). apply Nat.eqb_eq in Hkc. subst k.
      assert (Nat.eqb c' c = false) by (apply Nat.eqb_neq; intros ->; contradiction).
      now rewrite H0 in Hin.
    + assert (Hnk : ~ In c' (known s)).
      { intros Hin. assert (existsb (Nat.eqb c') (known s) = true); [|congruence].
        apply existsb_exists. exists c'. split; [exact Hin|apply Nat.eqb_refl]. }
      assert (Hocc : occ P c (set_accq (set_known s (known s ++ [c'])) (accq s ++ [Some (fresh_conn P c')]))
                     = occ P c s + cnt1 cid c (fresh_conn P c')).
      { unfold occ. cbn [accq conns streams set_accq set_known]. rewrite acc_conns_app, cnt_app. cbn. lia. }
      destruct (Nat.eq_dec c' c) as [->|Hcc].
      * assert (Hz : occ P c s = 0).
        { destruct (Nat.eq_dec (occ P c s) 0); auto. exfalso. apply Hnk, Gknown. lia. }
        destruct (Gnew Hnk) as (Hv & Hin). rewrite Nat.eqb_refl in Hin. cbn [orb] in Hin.
        constructor; rewrite ?Hocc, ?(cnt1_c (fresh_conn P c)) by reflexivity;
          cbn [accq conns streams known set_accq set_known]; auto; try lia.
        -- rewrite acc_conns_app. apply Forall_app. split; [exact Gacc|]. constructor; [|constructor].
           intros _. split; [reflexivity|]. exists [], fs, []. split; [reflexivity|]. split.
           { cbn [rst ctr fresh_conn]. apply (rinv_init (p_step P) step_pos); auto. rewrite Hin. lia. }
           split; [reflexivity|]. split; [reflexivity|exact Hv].
        -- apply Forall_app. split; [exact Gnf|]. constructor; [discriminate|constructor].
        -- intros _. apply in_app_iff. right. now left.
        -- intros H. exfalso. apply H, in_app_iff. right. now left.
      * rewrite (cnt1_not_c (fresh_conn P c')) in Hocc by exact Hcc.
        assert (Hb : Nat.eqb c' c = false) by now apply Nat.eqb_neq.
        constructor; rewrite ?Hocc; cbn [accq conns streams known set_accq set_known]; auto; try lia.
        -- rewrite acc_conns_app. apply Forall_app. split; [exact Gacc|]. constructor; [|constructor].
           apply cinv_other. exact Hcc.
        -- apply Forall_app. split; [exact Gnf|]. constructor; [discriminate|constructor].
        -- intros H. apply in_app_iff. left. apply Gknown. lia.
        -- intros H. apply in_app_iff in H. destruct H as [H|[H|[]]]; [|congruence]. specialize (Glive H). lia.
        -- intros H. assert (H' : ~ In c (known s)) by (intros X; apply H, in_app_iff; now left).
           destruct (Gnew H') as (Hv & Hin). rewrite Hb in Hin. split; auto.
  - (* Arrive *)
    apply (on_conn_ginv c' (push_ev (Data bs)) s T (Arrive c' bs :: E2) E2); auto;
      try (intros _ H; exact H).
    intros pl x Hc Hx. cbn [input_of andb] in Hx.
    destruct (Nat.eqb c' c) eqn:Eb.
    + apply Nat.eqb_eq in Eb. subst c'. unfold upd_if. rewrite Hc, Nat.eqb_refl.
      intros _. destruct (Hx Hc) as (Hwf & done & rest & hcs & H1 & H2 & H3 & H4).
      split; [exact Hwf|]. exists done, rest, hcs. split; [exact H1|]. split; [|split; assumption].
      cbn [rst ctr push_ev]. apply (rinv_arrive (p_step P) step_pos); auto.
    + rewrite (upd_if_other c' _ x Hc) by (now apply Nat.eqb_neq). exact Hx.
  - (* CloseRead *)
    apply (on_conn_ginv c' (push_ev Eof) s T (CloseRead c' :: E2) E2); auto;
      try (intros _ H; exact H).
    intros pl x Hc Hx. rewrite (upd_if_other c' _ x Hc Hce). exact Hx.
  - (* FailRead *)
    apply (on_conn_ginv c' (push_ev Fail) s T (FailRead c' :: E2) E2); auto;
      try (intros _ H; exact H).
    intros pl x Hc Hx. rewrite (upd_if_other c' _ x Hc Hce). exact Hx.
  - (* FailWrite *)
    apply (on_conn_ginv c' (add_wfail k) s T (FailWrite c' k :: E2) E2); auto;
      try (intros _ H; exact H).
    intros pl x Hc Hx. rewrite (upd_if_other c' _ x Hc Hce). exact Hx.
  - destruct G. constructor; auto.
  - destruct G. constructor; auto.
Qed.

(* ---------- polls and whole runs ---------- *)
Lemma ginv_set_stat s T E2 r : ginv s T E2 -> ginv (set_stat s r) T E2.
Proof. intros []. constructor; auto. Qed.

Lemma ginv_poll_loop : forall fuel s T E2 r s' t, ginv s T E2 -> poll_loop P fuel s = (r, s', t) ->
  ginv s' (T ++ t) E2 /\ r <> Exited /\ r <> Panicked /\
  (r = Running -> quiet_c s' /\ quiet_streams s' /\ accq s' = []).
Proof.
  induction fuel as [|fuel IH]; intros s T E2 r s' t G H; cbn in H.
  - inversion H; subst. rewrite app_nil_r. split; [exact G|]. split; [discriminate|]. split; [discriminate|]. intros X; discriminate X.
  - destruct (iteration P s) as [[ist s1] t1] eqn:Ei.
    destruct (ginv_iter _ _ _ _ _ _ G Ei) as (G1 & Hne & Hq).
    destruct (iteration_conserve P _ _ _ _ Ei) as (Hnp & Hnf & _).
    destruct ist as [| |r0].
    + destruct (poll_loop P fuel s1) as [[r1 s2] t2] eqn:El. inversion H; subst.
      rewrite app_assoc. eapply IH; eauto.
    + inversion H; subst. split; [exact G1|]. split; [discriminate|]. split; [discriminate|].
      intros _. apply Hq. reflexivity.
    + inversion H; subst. split; [exact G1|]. split; [congruence|]. split; [congruence|].
      intros ->. exfalso. (* Stop Running is never produced *)
      revert Ei. unfold iteration. destruct (accq s) as [|[x|] q].
      * destruct (scan_calls P _ (conns s)) as [[[i r0]|] cs].
        -- intros Ei. pose proof (scan_calls_cids P (poll_order (lastc s) (length (conns s))) (conns s)).
           unfold on_call in Ei. destruct (nth_error cs i); [|inversion Ei].
           destruct r0 as [[cl|]| | |]; try (inversion Ei; fail).
           destruct (handle_call P cl c0 (sst s)) as [[h st'] t']. destruct h; inversion Ei.
        -- destruct (scan_streams P _ _ _) as [[[idx e] q']|]; [|intros Ei; inversion Ei].
           unfold on_stream. destruct (nth_error _ idx) as [[key x]|]; [|intros Ei; inversion Ei].
           destruct e as [r0|]; [|intros Ei; inversion Ei].
           destruct (write_conn P x (WItem r0)) as [[ok x'] t']. destruct ok; intros Ei; inversion Ei.
      * intros Ei; inversion Ei.
      * intros Ei; inversion Ei.
Qed.

Lemma ginv_poll_event s T E2 : ginv s T (Poll :: E2) -> ginv s T E2.
Proof.
  intros [Gacc Gnf Gcalls Gstr Gone Gknown Glive Gnd Gnew Gclean]. constructor; auto.
  inversion Gclean; auto.
Qed.

Lemma ginv_step_env e s T E2 s' t : ginv s T (e :: E2) -> step_env P e s = (s', t) ->
  ginv s' (T ++ t) E2.
Proof.
  intros G H.
  assert (Hnp : e <> Poll -> ginv s' (T ++ t) E2).
  { intros Hne. assert (Hs : step_env P e s = (apply_env P e s, [])) by (destruct e; try reflexivity; congruence).
    rewrite Hs in H. inversion H; subst. rewrite app_nil_r. now apply ginv_env. }
  destruct e; try (apply Hnp; discriminate). clear Hnp. cbn [step_env] in H.
  apply ginv_poll_event in G. destruct (stat s).
  - unfold poll_server in H. destruct (poll_loop P (S (measure P s)) s) as [[r s1] t1] eqn:El.
    inversion H; subst. apply ginv_set_stat. eapply ginv_poll_loop; eauto.
  - inversion H; subst. now rewrite app_nil_r.
  - inversion H; subst. now rewrite app_nil_r.
  - inversion H; subst. now rewrite app_nil_r.
Qed.

Lemma ginv_exec : forall E s T s' T', ginv s T E -> exec P E s = (s', T') -> ginv s' (T ++ T') [].
Proof.
  induction E as [|e E IH]; intros s T s' T' G H; cbn in H.
  - inversion H; subst. now rewrite app_nil_r.
  - destruct (step_env P e s) as [s1 t1] eqn:Es. destruct (exec P E s1) as [s2 t2] eqn:Ee.
    inversion H; subst. rewrite app_assoc. eapply IH; eauto. eapply ginv_step_env; eauto.
Qed.

Lemma ginv_init s0 E : clean P c E -> input_of P false c E = wire fs -> ginv (init_sv P s0) [] E.
Proof.
  intros Hc Hin. constructor; cbn; auto; try lia; try (intros []).
Qed.

(* where the connection is, if it exists *)
Lemma ginv_find s T : ginv s T [] -> In c (known s) ->
  (exists x, In x (acc_conns (accq s)) /\ cid x = c /\ cinv PAccq T [] x) \/
  (exists x, In x (conns s) /\ cid x = c /\ cinv PCalls T [] x) \/
  (exists key x, In (key, x) (streams s) /\ cid x = c /\ cinv (PStream key) T [] x).
Proof.
  intros G Hk. pose proof (g_live _ _ _ G Hk) as H1. unfold occ in H1.
  destruct (Nat.eq_dec (cnt cid c (acc_conns (accq s))) 0) as [Z1|Z1].
  - destruct (Nat.eq_dec (cnt cid c (conns s)) 0) as [Z2|Z2].
    + right. right. destruct (cnt_pos_in skx c (streams s)) as ([key x] & Hin & Hc); [lia|].
      exists key, x. split; [exact Hin|]. split; [exact Hc|].
      pose proof (g_streams _ _ _ G) as Hs. rewrite Forall_forall in Hs. apply (Hs _ Hin).
    + right. left. destruct (cnt_pos_in cid c (conns s)) as (x & Hin & Hc); [lia|].
      exists x. split; [exact Hin|]. split; [exact Hc|].
      pose proof (g_calls _ _ _ G) as Hs. rewrite Forall_forall in Hs. apply (Hs _ Hin).
  - left. destruct (cnt_pos_in cid c (acc_conns (accq s))) as (x & Hin & Hc); [lia|].
    exists x. split; [exact Hin|]. split; [exact Hc|].
    pose proof (g_acc _ _ _ G) as Hs. rewrite Forall_forall in Hs. apply (Hs _ Hin).
Qed.

(* The main statement: whatever else happens on the server, a connection whose input is the wire
   form of fs and whose transport never fails is never dropped, and its view of the trace consists
   of the accept followed by the transcripts of a prefix of its frames, one call after the other in
   frame order; only the last call can still be streaming. *)
Theorem connection_view E s0 s T :
  clean P c E -> input_of P false c E = wire fs -> exec P E (init_sv P s0) = (s, T) ->
  dcount P c T = 0 /\
  exists done rest hcs,
    fs = done ++ rest /\ hcs_ok hcs done /\
    Forall (complete P) (removelast hcs) /\
    (viewc T = [] /\ hcs = [] \/ viewc T = TAccept c :: flat_map chunkc hcs) /\
    (* in the call list: nothing is owed for any handled call *)
    (In c (map cid (conns s)) -> Forall (complete P) hcs /\ viewc T = TAccept c :: flat_map chunkc hcs).
Proof.
  intros Hc Hin He.
  pose proof (ginv_exec E _ [] _ _ (ginv_init s0 E Hc Hin) He) as G. cbn [app] in G.
  split; [exact (g_nodrop _ _ _ G)|].
  destruct (in_dec Nat.eq_dec c (known s)) as [Hk|Hk].
  - destruct (ginv_find _ _ G Hk) as [(x & Hx & Hcx & Hi)|[(x & Hx & Hcx & Hi)|(key & x & Hx & Hcx & Hi)]];
      destruct (Hi Hcx) as (_ & done & rest & hcs & H1 & _ & H3 & H4); exists done, rest, hcs;
      (split; [exact H1|]); (split; [exact H3|]).
    + destruct H4 as (-> & Hv). split; [constructor|]. split; [now left|].
      intros Hcin. exfalso. (* c would occur twice *)
      apply in_map_iff in Hcin. destruct Hcin as (y & Hy & Hyin).
      pose proof (g_one _ _ _ G) as Hone. unfold occ in Hone.
      pose proof (cnt_in cid c _ x Hx Hcx). pose proof (cnt_in cid c _ y Hyin Hy). lia.
    + destruct H4 as (Hv & Hcomp). split; [|split; [now right|auto]].
      clear - Hcomp. induction Hcomp as [|h l Hh Hl IH]; [constructor|].
      destruct l; [constructor|]. cbn [removelast]. constructor; auto.
    + destruct H4 as (hcs' & h & -> & Hcomp & _ & _ & _ & _ & Hv). rewrite removelast_last.
      split; [exact Hcomp|]. split; [now right|].
      intros Hcin. exfalso.
      apply in_map_iff in Hcin. destruct Hcin as (y & Hy & Hyin).
      pose proof (g_one _ _ _ G) as Hone. unfold occ in Hone.
      pose proof (cnt_in skx c _ (key, x) Hx Hcx). pose proof (cnt_in cid c _ y Hyin Hy). lia.
  - destruct (g_new _ _ _ G Hk) as (Hv & _). exists [], fs, [].
    split; [reflexivity|]. split; [reflexivity|]. split; [constructor|]. split; [now left|].
    intros Hcin. exfalso. apply in_map_iff in Hcin. destruct Hcin as (y & Hy & Hyin).
    apply Hk, (g_known _ _ _ G). unfold occ. pose proof (cnt_in cid c _ y Hyin Hy). lia.
Qed.

Lemma exec_app : forall E1 E2 (s : sv P),
  exec P (E1 ++ E2) s = let (s1, T1) := exec P E1 s in let (s2, T2) := exec P E2 s1 in (s2, T1 ++ T2).
Proof.
  induction E1 as [|e E1 IH]; intros E2 s; cbn.
  - destruct (exec P E2 s). reflexivity.
  - destruct (step_env P e s) as [s1 t1]. rewrite IH.
    destruct (exec P E1 s1) as [s2 t2]. destruct (exec P E2 s2) as [s3 t3]. now rewrite app_assoc.
Qed.

(* ... and once the executor has polled the server after the last event, every frame of a
   connection that sits in the call list has been handled *)
Theorem connection_view_quiescent E s0 s T :
  clean P c E -> input_of P false c E = wire fs ->
  exec P (E ++ [Poll]) (init_sv P s0) = (s, T) -> stat s = Running ->
  In c (map cid (conns s)) ->
  exists hcs, hcs_ok hcs fs /\ Forall (complete P) hcs /\ viewc T = TAccept c :: flat_map chunkc hcs.
Proof.
  intros Hc Hin He Hst Hcin.
  rewrite exec_app in He. destruct (exec P E (init_sv P s0)) as [s1 T1] eqn:E1.
  pose proof (ginv_exec E _ [] _ _ (ginv_init s0 E Hc Hin) E1) as G1. cbn [app] in G1.
  cbn [exec step_env] in He.
  destruct (stat s1) eqn:Es1.
  2-4: inversion He; subst; congruence.
  unfold poll_server in He. destruct (poll_loop P (S (measure P s1)) s1) as [[r s2] t2] eqn:El.
  inversion He; subst s T. cbn [stat set_stat] in Hst. subst r. rewrite app_nil_r.
  destruct (ginv_poll_loop _ _ _ _ _ _ _ G1 El) as (G2 & _ & _ & Hq).
  destruct (Hq eq_refl) as (Hqc & _ & _).
  cbn [conns set_stat] in Hcin. apply in_map_iff in Hcin. destruct Hcin as (x & Hcx & Hx).
  pose proof (g_calls _ _ _ G2) as Hcalls. rewrite Forall_forall in Hcalls.
  destruct (Hcalls x Hx Hcx) as (_ & done & rest & hcs & H1 & H2 & H3 & Hv & Hcomp).
  destruct (Hqc x Hx Hcx) as (Hctr & Hm). cbn [input_of] in H2. rewrite Hctr in H2.
  pose proof (rinv_quiet (p_step P) step_pos _ _ _ H2 Hm) as ->. rewrite app_nil_r in H1. subst done.
  exists hcs. auto.
Qed.

(* ... and a connection that is parked with a reply stream has had every frame up to the streaming
   call handled, and every event queued for its stream delivered *)
Theorem connection_view_parked E s0 s T :
  clean P c E -> input_of P false c E = wire fs ->
  exec P (E ++ [Poll]) (init_sv P s0) = (s, T) -> stat s = Running ->
  In c (map skx (streams s)) ->
  exists done rest hcs h,
    fs = done ++ rest /\ hcs_ok (hcs ++ [h]) done /\ Forall (complete P) hcs /\
    h_ans h = AMulti /\ oneway P (h_cl h) = false /\ h_ended h = false /\
    pop_key P (skey P (h_cl h)) (squeue s) = None /\
    viewc T = TAccept c :: flat_map chunkc (hcs ++ [h]).
Proof.
  intros Hc Hin He Hst Hcin.
  rewrite exec_app in He. destruct (exec P E (init_sv P s0)) as [s1 T1] eqn:E1.
  pose proof (ginv_exec E _ [] _ _ (ginv_init s0 E Hc Hin) E1) as G1. cbn [app] in G1.
  cbn [exec step_env] in He.
  destruct (stat s1) eqn:Es1.
  2-4: inversion He; subst; congruence.
  unfold poll_server in He. destruct (poll_loop P (S (measure P s1)) s1) as [[r s2] t2] eqn:El.
  inversion He; subst s T. cbn [stat set_stat] in Hst. subst r. rewrite app_nil_r.
  destruct (ginv_poll_loop _ _ _ _ _ _ _ G1 El) as (G2 & _ & _ & Hq).
  destruct (Hq eq_refl) as (_ & Hqs & _).
  cbn [streams set_stat] in Hcin. apply in_map_iff in Hcin. destruct Hcin as ([key x] & Hcx & Hx).
  pose proof (g_streams _ _ _ G2) as Hstr. rewrite Forall_forall in Hstr.
  destruct (Hstr _ Hx Hcx) as (_ & done & rest & hcs0 & H1 & H2 & H3 & hcs & h & -> & Hcomp & Ha & Ho & Hend & Hk & Hv).
  exists done, rest, hcs, h. repeat split; auto.
  cbn [squeue set_stat]. rewrite <- Hk. eapply Hqs; eauto.
Qed.

(* when the executor has polled, nothing is left in the listener queue *)
Lemma quiescent_accq E s0 s T :
  clean P c E -> input_of P false c E = wire fs ->
  exec P (E ++ [Poll]) (init_sv P s0) = (s, T) -> stat s = Running -> accq s = [].
Proof.
  intros Hc Hin He Hst.
  rewrite exec_app in He. destruct (exec P E (init_sv P s0)) as [s1 T1] eqn:E1.
  pose proof (ginv_exec E _ [] _ _ (ginv_init s0 E Hc Hin) E1) as G1. cbn [app] in G1.
  cbn [exec step_env] in He.
  destruct (stat s1) eqn:Es1.
  2-4: inversion He; subst; congruence.
  unfold poll_server in He. destruct (poll_loop P (S (measure P s1)) s1) as [[r s2] t2] eqn:El.
  inversion He; subst s T. cbn [stat set_stat] in Hst. subst r.
  destruct (ginv_poll_loop _ _ _ _ _ _ _ G1 El) as (G2 & _ & _ & Hq).
  destruct (Hq eq_refl) as (_ & _ & Ha). exact Ha.
Qed.

(* the connection exists iff it was announced; then it is in exactly one of the three lists *)
Lemma connection_somewhere E s0 s T :
  clean P c E -> input_of P false c E = wire fs ->
  exec P E (init_sv P s0) = (s, T) ->
  (In c (known s) -> 0 < cnt cid c (acc_conns (accq s)) \/ In c (map cid (conns s)) \/ In c (map skx (streams s))) /\
  (~ In c (known s) -> viewc T = []).
Proof.
  intros Hc Hin He.
  pose proof (ginv_exec E _ [] _ _ (ginv_init s0 E Hc Hin) He) as G. cbn [app] in G.
  split.
  - intros Hk. pose proof (g_live _ _ _ G Hk) as H1. unfold occ in H1.
    destruct (Nat.eq_dec (cnt cid c (acc_conns (accq s))) 0) as [Z1|Z1]; [|left; lia].
    destruct (Nat.eq_dec (cnt cid c (conns s)) 0) as [Z2|Z2].
    + right. right. destruct (cnt_pos_in skx c (streams s)) as (kx & Hi & Hn); [lia|].
      apply in_map_iff. eauto.
    + right. left. destruct (cnt_pos_in cid c (conns s)) as (x & Hi & Hn); [lia|].
      apply in_map_iff. eauto.
  - intros Hk. exact (proj1 (g_new _ _ _ G Hk)).
Qed.

End Inv.
