(* The round-robin core of SelectAll (select_all.rs:57-72) with the winner bookkeeping of
   Server::run (mod.rs:86-89), independent of what the futures are.  *)
From ZV Require Import Server.Server.
From Coq Require Import Lia.

Fixpoint first_ready (ready : nat -> bool) (order : list nat) : option nat :=
  match order with
  | [] => None
  | i :: o => if ready i then Some i else first_ready ready o
  end.

(* one poll of SelectAll over n futures *)
Definition select (last : option nat) (n : nat) (ready : nat -> bool) : option nat :=
  first_ready ready (poll_order last n).

(* successive selections; a selection that finds nobody ready leaves the start index alone *)
Fixpoint winners (last : option nat) (n : nat) (rs : list (nat -> bool)) : list nat :=
  match rs with
  | [] => []
  | r :: rs' =>
      match select last n r with
      | Some w => w :: winners (Some w) n rs'
      | None => winners last n rs'
      end
  end.

(* ---------- the poll order is a rotation of 0..n-1 ---------- *)
Lemma start_index_lt last n : 0 < n -> start_index last n < n.
Proof. intros H. destruct last; cbn [start_index]; [apply Nat.mod_upper_bound|]; lia. Qed.

Lemma mod_wrap s i n : s < n -> i < n -> (s + i) mod n = if s + i <? n then s + i else s + i - n.
Proof.
  intros Hs Hi. destruct (s + i <? n) eqn:E.
  - apply Nat.ltb_lt in E. now apply Nat.mod_small.
  - apply Nat.ltb_ge in E.
    symmetry. apply Nat.mod_unique with (q := 1); lia.
Qed.

Lemma map_ext_seq (f g : nat -> nat) a k :
  (forall i, a <= i < a + k -> f i = g i) -> map f (seq a k) = map g (seq a k).
Proof.
  revert a. induction k as [|k IH]; intros a H; [reflexivity|].
  cbn [seq map]. f_equal; [apply H; lia|]. apply IH. intros i Hi. apply H. lia.
Qed.

Lemma map_add_seq s a k : map (fun i => s + i) (seq a k) = seq (s + a) k.
Proof.
  revert a. induction k as [|k IH]; intros a; [reflexivity|].
  cbn [seq map]. f_equal. rewrite IH. f_equal. lia.
Qed.

Lemma poll_order_rot last n : 0 < n ->
  let s := start_index last n in poll_order last n = seq s (n - s) ++ seq 0 s.
Proof.
  intros Hn s. assert (Hs : s < n) by (apply start_index_lt; exact Hn).
  unfold poll_order. fold s.
  replace n with ((n - s) + s) at 1 by lia.
  rewrite seq_app, map_app. f_equal.
  - rewrite (map_ext_seq _ (fun i => s + i)).
    + rewrite map_add_seq. f_equal. lia.
    + intros i Hi. rewrite mod_wrap by lia.
      destruct (s + i <? n) eqn:E; [reflexivity|]. apply Nat.ltb_ge in E. lia.
  - cbn [Nat.add].
    rewrite (map_ext_seq _ (fun i => i - (n - s))).
    + generalize (n - s) as d. intros d.
      replace (seq d s) with (map (fun i => d + i) (seq 0 s)) by (rewrite map_add_seq; f_equal; lia).
      rewrite map_map. rewrite <- (map_id (seq 0 s)) at 2.
      apply map_ext. intros i. lia.
    + intros i Hi. rewrite mod_wrap by lia.
      destruct (s + i <? n) eqn:E; [apply Nat.ltb_lt in E|]; lia.
Qed.

(* position of index x in the poll order that starts at s *)
Definition off (n s x : nat) : nat := if s <=? x then x - s else x + n - s.

Lemma first_ready_app r a b :
  first_ready r (a ++ b) = match first_ready r a with Some w => Some w | None => first_ready r b end.
Proof. induction a as [|i a IH]; cbn; [reflexivity|]. destruct (r i); auto. Qed.

Lemma first_ready_seq_some r a k w : first_ready r (seq a k) = Some w ->
  a <= w < a + k /\ r w = true /\ forall x, a <= x < w -> r x = false.
Proof.
  revert a. induction k as [|k IH]; intros a H; cbn in H; [discriminate|].
  destruct (r a) eqn:E.
  - inversion H; subst. repeat split; try lia; auto.
  - destruct (IH _ H) as (Hw & Hr & Hx). repeat split; try lia; auto.
    intros x Hx'. destruct (Nat.eq_dec x a) as [->|]; [exact E|apply Hx; lia].
Qed.

Lemma first_ready_seq_none r a k : first_ready r (seq a k) = None ->
  forall x, a <= x < a + k -> r x = false.
Proof.
  revert a. induction k as [|k IH]; intros a H x Hx; [lia|]. cbn in H.
  destruct (r a) eqn:E; [discriminate|].
  destruct (Nat.eq_dec x a) as [->|]; [exact E|apply (IH _ H); lia].
Qed.

Lemma select_some last n r w : select last n r = Some w ->
  0 < n /\ w < n /\ r w = true /\
  forall x, x < n -> off n (start_index last n) x < off n (start_index last n) w -> r x = false.
Proof.
  unfold select. intros H.
  destruct n as [|n']; [cbn in H; discriminate|]. set (n := S n') in *.
  assert (Hn : 0 < n) by (subst n; lia).
  pose proof (start_index_lt last n Hn) as Hs.
  rewrite (poll_order_rot last n Hn) in H. cbv zeta in H.
  set (s := start_index last n) in *.
  rewrite first_ready_app in H.
  destruct (first_ready r (seq s (n - s))) as [w1|] eqn:E1.
  - inversion H; subst w1. apply first_ready_seq_some in E1. destruct E1 as (Hw & Hr & Hx).
    repeat split; try lia; auto. intros x Hxn Hoff. unfold off in Hoff.
    destruct (s <=? x) eqn:Ex; destruct (s <=? w) eqn:Ew;
      try apply Nat.leb_le in Ex; try apply Nat.leb_le in Ew;
      try apply Nat.leb_gt in Ex; try apply Nat.leb_gt in Ew; try lia.
    apply Hx. lia.
  - pose proof (first_ready_seq_none _ _ _ E1) as Hnone.
    apply first_ready_seq_some in H. destruct H as (Hw & Hr & Hx).
    repeat split; try lia; auto. intros x Hxn Hoff. unfold off in Hoff.
    destruct (s <=? x) eqn:Ex; destruct (s <=? w) eqn:Ew;
      try apply Nat.leb_le in Ex; try apply Nat.leb_le in Ew;
      try apply Nat.leb_gt in Ex; try apply Nat.leb_gt in Ew; try lia.
    + apply Hnone. lia.
    + apply Hx. lia.
Qed.

Lemma select_none last n r : select last n r = None -> forall x, x < n -> r x = false.
Proof.
  unfold select. intros H x Hx.
  assert (Hn : 0 < n) by lia.
  pose proof (start_index_lt last n Hn) as Hs.
  rewrite (poll_order_rot last n Hn) in H. cbv zeta in H.
  set (s := start_index last n) in *.
  rewrite first_ready_app in H.
  destruct (first_ready r (seq s (n - s))) eqn:E1; [discriminate|].
  destruct (Nat.le_gt_cases s x).
  - apply (first_ready_seq_none _ _ _ E1). lia.
  - apply (first_ready_seq_none _ _ _ H). lia.
Qed.

(* the start index after w won *)
Lemma start_after n w : w < n -> start_index (Some w) n = if S w =? n then 0 else S w.
Proof.
  intros H. cbn [start_index]. replace (w + 1) with (S w) by lia.
  destruct (S w =? n) eqn:E.
  - apply Nat.eqb_eq in E. rewrite E. apply Nat.mod_same. lia.
  - apply Nat.eqb_neq in E. apply Nat.mod_small. lia.
Qed.

(* rotating the start to just after w shifts everything that came after w by the same amount *)
Lemma off_shift n s w x : s < n -> w < n -> x < n -> off n s w < off n s x ->
  off n (start_index (Some w) n) x = off n s x - off n s w - 1.
Proof.
  intros Hs Hw Hx. rewrite start_after by exact Hw. unfold off.
  destruct (S w =? n) eqn:E; [apply Nat.eqb_eq in E|apply Nat.eqb_neq in E];
  repeat match goal with
         | |- context [?a <=? ?b] => let H := fresh in destruct (a <=? b) eqn:H;
             [apply Nat.leb_le in H|apply Nat.leb_gt in H]
         | H : context [?a <=? ?b] |- _ => let H' := fresh in destruct (a <=? b) eqn:H';
             [apply Nat.leb_le in H'|apply Nat.leb_gt in H']
         end; lia.
Qed.

Lemma off_lt n s x : s < n -> x < n -> off n s x < n.
Proof. intros. unfold off. destruct (s <=? x) eqn:E; [apply Nat.leb_le in E|apply Nat.leb_gt in E]; lia. Qed.

Lemma off_inj n s x y : s < n -> x < n -> y < n -> off n s x = off n s y -> x = y.
Proof.
  intros Hs Hx Hy. unfold off.
  destruct (s <=? x) eqn:E; destruct (s <=? y) eqn:E';
    try apply Nat.leb_le in E; try apply Nat.leb_le in E';
    try apply Nat.leb_gt in E; try apply Nat.leb_gt in E'; lia.
Qed.

(* one selection with b ready: either b wins, or somebody polled before b wins and the number of
   futures polled before b shrinks by more than the winner's position *)
Lemma select_step last n r b w : b < n -> r b = true -> select last n r = Some w ->
  let s := start_index last n in let s' := start_index (Some w) n in
  w = b \/ (w <> b /\ off n s w < off n s b /\ off n s' b = off n s b - off n s w - 1).
Proof.
  intros Hb Hr Hsel s s'.
  destruct (select_some _ _ _ _ Hsel) as (Hn & Hw & Hrw & Hbefore).
  fold s in Hbefore.
  assert (Hs : s < n) by (apply start_index_lt; exact Hn).
  destruct (Nat.eq_dec w b) as [->|Hne]; [now left|right].
  assert (Hlt : off n s w < off n s b).
  { destruct (Nat.lt_trichotomy (off n s w) (off n s b)) as [H|[H|H]]; auto.
    - apply off_inj in H; auto. congruence.
    - specialize (Hbefore b Hb H). congruence. }
  repeat split; auto. subst s'. apply off_shift; auto.
Qed.

(* ---------- successive selections ---------- *)
Lemma winners_split : forall rs last n l1 x rest,
  winners last n rs = l1 ++ x :: rest ->
  exists rs2, (forall r, In r rs2 -> In r rs) /\ rest = winners (Some x) n rs2.
Proof.
  induction rs as [|r rs IH]; intros last n l1 x rest H; cbn in H.
  - destruct l1; discriminate.
  - destruct (select last n r) as [w|] eqn:E.
    + destruct l1 as [|y l1]; cbn in H; inversion H; subst.
      * exists rs. split; [intros; now right|reflexivity].
      * destruct (IH _ _ _ _ _ H2) as (rs2 & Hin & Hr). exists rs2. split; [intros; right; auto|exact Hr].
    + destruct (IH _ _ _ _ _ H) as (rs2 & Hin & Hr). exists rs2. split; [intros; right; auto|exact Hr].
Qed.

(* while b does not win, b stays before a in the poll order (a = a connection that has just won) *)
Lemma no_rewin : forall rs last n a b,
  b < n -> a < n -> (forall r, In r rs -> r b = true) ->
  off n (start_index last n) b < off n (start_index last n) a ->
  forall l rest, winners last n rs = l ++ a :: rest -> In b l.
Proof.
  induction rs as [|r rs IH]; intros last n a b Hb Ha Hall Hord l rest H; cbn in H.
  - destruct l; discriminate.
  - assert (Hrb : r b = true) by (apply Hall; now left).
    assert (Hall' : forall r', In r' rs -> r' b = true) by (intros; apply Hall; now right).
    destruct (select last n r) as [w|] eqn:E.
    + destruct (select_step _ _ _ _ _ Hb Hrb E) as [->|(Hne & Hlt & Hshift)].
      * destruct l as [|y l]; cbn in H; inversion H; subst.
        -- lia.
        -- now left.
      * destruct (select_some _ _ _ _ E) as (Hn & Hw & _ & _).
        assert (Hs : start_index last n < n) by (apply start_index_lt; exact Hn).
        destruct l as [|y l]; cbn in H; inversion H; subst.
        -- (* a wins although b is polled before it: impossible *)
           exfalso. destruct (select_some _ _ _ _ E) as (_ & _ & _ & Hbefore).
           specialize (Hbefore b Hb Hord). congruence.
        -- right. apply (IH (Some y) n a b Hb Ha Hall') with (rest := rest); auto.
           rewrite Hshift. rewrite (off_shift n (start_index last n) y a); auto; lia.
    + apply (IH last n a b Hb Ha Hall' Hord l rest H).
Qed.

Lemma winners_lt : forall rs last n l1 a rest, winners last n rs = l1 ++ a :: rest -> a < n.
Proof.
  induction rs as [|r rs IH]; intros last n l1 a rest H; cbn in H.
  - destruct l1; discriminate.
  - destruct (select last n r) as [w|] eqn:E.
    + destruct l1 as [|y l1]; cbn in H; inversion H; subst.
      * now destruct (select_some _ _ _ _ E) as (_ & Hw & _).
      * eapply IH; eauto.
    + eapply IH; eauto.
Qed.

Theorem rr_no_double_service : forall rs last n a b l1 l2 l3,
  b < n -> a <> b -> (forall r, In r rs -> r b = true) ->
  winners last n rs = l1 ++ a :: l2 ++ a :: l3 -> In b l2.
Proof.
  intros rs last n a b l1 l2 l3 Hb Hab Hall H.
  destruct (winners_split _ _ _ _ _ _ H) as (rs2 & Hin & Hrest).
  assert (Ha : a < n) by (eapply winners_lt; eauto).
  apply (no_rewin rs2 (Some a) n a b Hb Ha) with (rest := l3); auto.
  rewrite start_after by exact Ha. unfold off.
  destruct (S a =? n) eqn:E; [apply Nat.eqb_eq in E|apply Nat.eqb_neq in E];
  repeat match goal with
         | |- context [?x <=? ?y] => let H := fresh in destruct (x <=? y) eqn:H;
             [apply Nat.leb_le in H|apply Nat.leb_gt in H]
         end; lia.
Qed.

(* the bound used across transitions: a selection won by somebody else lowers the number of
   futures polled before b by at least one *)
Definition before (last : option nat) (n b : nat) : nat := off n (start_index last n) b.

Lemma before_lt last n b : b < n -> before last n b < n.
Proof. intros H. unfold before. apply off_lt; auto. apply start_index_lt. lia. Qed.

Lemma select_before last n r b w : b < n -> r b = true -> select last n r = Some w ->
  w = b \/ (w <> b /\ before (Some w) n b < before last n b).
Proof.
  intros Hb Hr E. destruct (select_step _ _ _ _ _ Hb Hr E) as [->|(Hne & Hlt & Hs)]; [now left|right].
  split; auto. unfold before. rewrite Hs. lia.
Qed.

Lemma select_ready_some last n r b : b < n -> r b = true -> exists w, select last n r = Some w.
Proof.
  intros Hb Hr. destruct (select last n r) eqn:E; [eauto|].
  pose proof (select_none _ _ _ E b Hb). congruence.
Qed.
