(* Consequences of the per-connection invariant in the form pinned under coq/props. *)
From ZV Require Import Server.Server Server.ServerLists Server.ServerStruct Server.ServerSpec
  Server.ServerInv Server.ServerPairs Server.RoundRobin Server.ServerRR.
From Coq Require Import Lia.

Section Thms.
Variable P : params.

Lemma writes_app c T1 T2 : writes P c (T1 ++ T2) = writes P c T1 ++ writes P c T2.
Proof. unfold writes. apply flat_map_app. Qed.

Lemma writes_view c T : writes P c (view P c T) = writes P c T.
Proof.
  induction T as [|e T IH]; [reflexivity|]. cbn [view filter]. fold (view P c T).
  destruct (is_about P c e) eqn:E.
  - change (e :: view P c T) with ([e] ++ view P c T). change (e :: T) with ([e] ++ T).
    now rewrite !writes_app, IH.
  - rewrite IH. change (e :: T) with ([e] ++ T). rewrite writes_app.
    destruct e; cbn; auto. unfold is_about in E. cbn in E. now rewrite E.
Qed.

Lemma writes_cons c e T :
  writes P c (e :: T) =
  (match e with TWrite c' m => if Nat.eqb c' c then [m] else [] | _ => [] end) ++ writes P c T.
Proof. reflexivity. Qed.

Lemma writes_items c key items tail :
  writes P c (flat_map (fun r => [TSYield c key (SItem r); TWrite c (WItem r)]) items ++ tail)
  = map WItem items ++ writes P c tail.
Proof.
  induction items as [|r items IH]; [reflexivity|]. cbn [flat_map app map].
  rewrite !writes_cons, Nat.eqb_refl. cbn [app]. f_equal. exact IH.
Qed.

Lemma writes_chunk c h : writes P c (chunk P c h) = resp_writes P h.
Proof.
  unfold chunk, resp_writes. destruct (oneway P (h_cl h)).
  - destruct (h_ans h); reflexivity.
  - destruct (h_ans h) as [p|e|].
    + rewrite !writes_cons, Nat.eqb_refl. reflexivity.
    + rewrite !writes_cons, Nat.eqb_refl. reflexivity.
    + rewrite !writes_cons. cbn [app].
      rewrite (writes_items c (skey P (h_cl h)) (h_items h)).
      destruct (h_ended h); cbn; now rewrite app_nil_r.
Qed.

Lemma writes_chunks c hcs : writes P c (flat_map (chunk P c) hcs) = flat_map (resp_writes P) hcs.
Proof.
  induction hcs as [|h hcs IH]; [reflexivity|]. cbn [flat_map]. now rewrite writes_app, writes_chunk, IH.
Qed.

(* the output of a connection whose view is a sequence of transcripts *)
Lemma writes_of_view c T hcs : view P c T = TAccept c :: flat_map (chunk P c) hcs ->
  writes P c T = flat_map (resp_writes P) hcs.
Proof.
  intros H. rewrite <- writes_view, H.
  change (TAccept c :: ?x) with ([@TAccept P c] ++ x). rewrite writes_app, writes_chunks. reflexivity.
Qed.

(* C08 in the pinned form: the per-connection invariant at quiescence plus the output *)
Theorem per_connection_sequential :
  (0 < p_step P)%N ->
  forall (c : nat) (fs : list (list byte)),
  Forall frame_ok fs -> (forall f, In f fs -> decode P f <> None) ->
  (N.of_nat (length (wire fs)) < p_limit P)%N ->
  forall (E : list (eev P)) (s0 : sstate P) (s : sv P) (T : list (tev P)),
  clean P c E -> input_of P false c E = wire fs ->
  exec P (E ++ [Poll]) (init_sv P s0) = (s, T) -> stat s = Running ->
  In c (map cid (conns s)) ->
  exists hcs : list (hcall P),
    map (fun h => Some (h_cl h)) hcs = map (decode P) fs /\
    Forall (complete P) hcs /\
    view P c T = TAccept c :: flat_map (chunk P c) hcs /\
    writes P c T = flat_map (resp_writes P) hcs.
Proof.
  intros Hs c fs H1 H2 H3 E s0 s T H4 H5 H6 H7 H8.
  destruct (connection_view_quiescent P Hs c fs H1 H2 H3 E s0 s T H4 H5 H6 H7 H8) as (hcs & Ha & Hb & Hc).
  exists hcs. repeat split; auto. now apply writes_of_view.
Qed.

(* C09: a connection without a fault of its own is never dropped *)
Theorem healthy_never_dropped :
  (0 < p_step P)%N ->
  forall (c : nat) (fs : list (list byte)),
  Forall frame_ok fs -> (forall f, In f fs -> decode P f <> None) ->
  (N.of_nat (length (wire fs)) < p_limit P)%N ->
  forall (E : list (eev P)) (s0 : sstate P) (s : sv P) (T : list (tev P)),
  clean P c E -> input_of P false c E = wire fs ->
  exec P E (init_sv P s0) = (s, T) -> dcount P c T = 0.
Proof.
  intros Hs c fs H1 H2 H3 E s0 s T H4 H5 H6.
  exact (proj1 (connection_view P Hs c fs H1 H2 H3 E s0 s T H4 H5 H6)).
Qed.

(* C09: a frame that does not decode removes its connection and never reaches the service *)
Theorem undecodable_never_reaches_service (s : sv P) cs idx st s' t :
  on_call P s cs idx (Msg None) = (st, s', t) ->
  sst s' = sst s /\
  flat_map (fun e => match e with TInvoke c cl a => [(c, cl, a)] | _ => [] end) t = [].
Proof.
  intros H. unfold on_call in H.
  destruct (nth_error cs idx); inversion H; subst; split; reflexivity.
Qed.

(* C10: open reply streams never delay the call branch.  Whatever is parked in the stream list and
   whatever is queued for the streams: when nothing waits at the listener and some connection in the
   call list has a complete call available, this very iteration is a get_next_call iteration — it
   yields an index i, handles that connection's call and records i as the last winner; no stream is
   polled.  (Which connection: the round-robin order, C18: a ready connection b is chosen after fewer
   than n other calls.) *)
Theorem others_served_meanwhile (s : sv P) (b : nat) :
  accq s = [] -> b < length (conns s) -> ready P (conns s) b = true ->
  exists i, call_winner P s = Some i /\ i < length (conns s) /\
    forall st s' t, iteration P s = (st, s', t) ->
      st = Progress /\ lastc s' = Some i /\ lasts s' = lasts s /\ squeue s' = squeue s /\
      forall e, In e t -> match e with TSYield _ _ _ => False | _ => True end.
Proof.
  intros Ha Hb Hr.
  destruct (select_ready_some (lastc s) (length (conns s)) (ready P (conns s)) b Hb Hr) as (w & Hw).
  exists w. rewrite (call_winner_select P s Ha). split; [exact Hw|].
  split; [now destruct (select_some _ _ _ _ Hw) as (_ & H & _)|].
  intros st s' t Hit.
  pose proof (lastc_iteration P _ _ _ _ Hit) as Hl. rewrite (call_winner_select P s Ha), Hw in Hl.
  unfold iteration in Hit. rewrite Ha in Hit.
  assert (Hcw : call_winner P s = Some w) by (now rewrite (call_winner_select P s Ha)).
  unfold call_winner in Hcw. rewrite Ha in Hcw.
  destruct (scan_calls P (poll_order (lastc s) (length (conns s))) (conns s)) as [[[i r]|] cs] eqn:Es;
    cbn [fst] in Hcw; [|discriminate]. inversion Hcw; subst i.
  assert (Hall : Forall (fun _ : conn => True) (conns s)) by (apply Forall_forall; intros; exact I).
  destruct (scan_calls_ind P (fun _ => True) (fun _ _ => True) (fun _ _ _ _ => I) (fun _ _ _ _ _ => I)
              _ _ _ _ Hall Es) as (l1 & x & l2 & -> & <- & _).
  destruct (on_call_conserve P _ _ _ _ _ _ _ _ Hit) as (-> & _).
  split; [reflexivity|]. split; [exact Hl|].
  unfold on_call in Hit. rewrite nth_error_mid in Hit.
  destruct r as [[cl|]| | |];
    try solve [inversion Hit; subst; split; [reflexivity|]; split; [reflexivity|];
               intros e [<-|[]]; exact I].
  destruct (handle_call P cl x (sst s)) as [[h st'] t'] eqn:Eh.
  assert (Hny : forall e, In e t' -> match e with TSYield _ _ _ => False | _ => True end).
  { revert Eh. unfold handle_call, reply_with, write_conn. destruct (handle P cl (sst s)) as [ans s1].
    destruct (oneway P cl).
    - intros H; inversion H; subst. intros e [<-|He]; [exact I|].
      destruct ans; cbn in He; repeat (destruct He as [<-|He]; [exact I|]); contradiction.
    - destruct ans as [p|e0|].
      + destruct (existsb (Nat.eqb (wcnt x)) (wfail x)); intros H; inversion H; subst;
          intros e He; cbn in He; repeat (destruct He as [<-|He]; [exact I|]); contradiction.
      + destruct (existsb (Nat.eqb (wcnt x)) (wfail x)); intros H; inversion H; subst;
          intros e He; cbn in He; repeat (destruct He as [<-|He]; [exact I|]); contradiction.
      + intros H; inversion H; subst. intros e He; cbn in He;
          repeat (destruct He as [<-|He]; [exact I|]); contradiction. }
  destruct h; inversion Hit; subst; (split; [reflexivity|]; split; [reflexivity|]); auto.
  intros e He. apply in_app_iff in He. destruct He as [He|[<-|[]]]; [exact (Hny e He)|exact I].
Qed.

End Thms.
