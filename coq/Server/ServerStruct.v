(* Structure of one iteration of the Server model, independent of any particular connection:
   what the scans return, conservation of connection names (a connection is in exactly one of the
   listener queue / call list / stream list, or has been dropped exactly once), no panics. *)
From ZV Require Import Server.Server Server.ServerLists.
From Coq Require Import Lia.

Section Struct.
Variable P : params.
Notation D := (option (call P)).

(* ---------- polls keep the name and the write side ---------- *)
Lemma poll_conn_cid x r x' : poll_conn P x = (r, x') -> cid x' = cid x /\ wfail x' = wfail x /\ wcnt x' = wcnt x.
Proof.
  unfold poll_conn. destruct (poll_receive _ _ _ _ _ _ _) as [[r0 s0] tr0].
  intros H. inversion H; subst. cbn. auto.
Qed.

(* ---------- the call scan, carrying an invariant of the polled connections ---------- *)
Lemma scan_calls_ind (Q : conn -> Prop) (R : rres D -> conn -> Prop) :
  (forall x x', Q x -> poll_conn P x = (None, x') -> Q x') ->
  (forall x r x', Q x -> poll_conn P x = (Some r, x') -> R r x') ->
  forall order cs res cs', Forall Q cs -> scan_calls P order cs = (res, cs') ->
  match res with
  | None => Forall Q cs'
  | Some (i, r) => exists l1 x' l2, cs' = l1 ++ x' :: l2 /\ length l1 = i /\
                                    Forall Q l1 /\ Forall Q l2 /\ R r x'
  end.
Proof.
  intros HQ HR. induction order as [|i o IH]; intros cs res cs' Hall H; cbn in H.
  - inversion H; subst. exact Hall.
  - destruct (nth_error cs i) as [x|] eqn:E.
    2:{ inversion H; subst. exact Hall. }
    destruct (poll_conn P x) as [r x'] eqn:Ep.
    destruct (upd_nth_cases _ _ _ x' E) as (l1 & l2 & Hcs & Hlen & Hupd).
    assert (Hx : Q x) by (rewrite Forall_forall in Hall; apply Hall; eapply nth_error_In; eauto).
    assert (H12 : Forall Q l1 /\ Forall Q l2).
    { rewrite Hcs in Hall. apply Forall_app in Hall. destruct Hall as (H1 & H2). inversion H2; auto. }
    destruct r as [r|].
    + inversion H; subst res cs'. exists l1, x', l2. rewrite Hupd. repeat split; try tauto.
      eapply HR; eauto.
    + apply (IH _ _ _ (Forall_upd_nth Q cs i x' Hall (HQ _ _ Hx Ep)) H).
Qed.

Lemma scan_calls_cids : forall order cs, map cid (snd (scan_calls P order cs)) = map cid cs.
Proof.
  induction order as [|i o IH]; intros cs; cbn; [reflexivity|].
  destruct (nth_error cs i) as [x|] eqn:E; [|reflexivity].
  destruct (poll_conn P x) as [r x'] eqn:Ep.
  destruct (poll_conn_cid _ _ _ Ep) as (Hc & _).
  destruct (upd_nth_cases _ _ _ x' E) as (l1 & l2 & Hcs & Hlen & Hupd).
  assert (Hm : map cid (upd_nth i x' cs) = map cid cs).
  { rewrite Hupd, Hcs, !map_app. cbn. now rewrite Hc. }
  destruct r as [r|]; cbn [snd]; [exact Hm|]. now rewrite IH.
Qed.

(* a scan that finds nobody ready has polled every listed connection exactly once *)
Lemma scan_calls_none_elem : forall order cs cs',
  NoDup order -> (forall i, In i order -> i < length cs) ->
  scan_calls P order cs = (None, cs') ->
  forall j, (In j order -> exists x x', nth_error cs j = Some x /\ nth_error cs' j = Some x' /\
                                        poll_conn P x = (None, x')) /\
            (~ In j order -> nth_error cs' j = nth_error cs j).
Proof.
  induction order as [|i o IH]; intros cs cs' Hnd Hlt H j; cbn in H.
  - inversion H; subst. split; [intros []|reflexivity].
  - inversion Hnd as [|? ? Hni Hnd']; subst.
    destruct (nth_error cs i) as [x|] eqn:E.
    2:{ apply nth_error_None in E. specialize (Hlt i (or_introl eq_refl)). lia. }
    destruct (poll_conn P x) as [r x1] eqn:Ep. destruct r as [r|]; [discriminate|].
    assert (Hlt' : forall k, In k o -> k < length (upd_nth i x1 cs)).
    { intros k Hk. rewrite length_upd_nth. apply Hlt. now right. }
    destruct (IH _ _ Hnd' Hlt' H j) as (Hin & Hout).
    assert (Hi : nth_error cs' i = Some x1).
    { destruct (IH _ _ Hnd' Hlt' H i) as (_ & Hout'). rewrite (Hout' Hni).
      apply nth_error_upd_nth_eq. apply nth_error_Some. congruence. }
    split.
    + intros [<-|Hj].
      * exists x, x1. auto.
      * destruct (Hin Hj) as (y & y' & H1 & H2 & H3). exists y, y'. repeat split; auto.
        rewrite nth_error_upd_nth_neq in H1; auto. intros ->. contradiction.
    + intros Hnj. assert (i <> j) by (intros ->; apply Hnj; now left).
      rewrite Hout by (intros Hj; apply Hnj; now right). now apply nth_error_upd_nth_neq.
Qed.

(* ---------- the stream scan ---------- *)
Lemma scan_streams_some : forall order ss q i e q',
  scan_streams P order ss q = Some (i, e, q') ->
  exists key x, nth_error ss i = Some (key, x) /\ pop_key P key q = Some (e, q').
Proof.
  induction order as [|j o IH]; intros ss q i e q' H; cbn in H; [discriminate|].
  destruct (nth_error ss j) as [[key x]|] eqn:E; [|discriminate].
  destruct (pop_key P key q) as [[e0 q0]|] eqn:Ek.
  - inversion H; subst. eauto.
  - eauto.
Qed.

Lemma scan_streams_none : forall order ss q,
  (forall j, j < length ss -> In j order) -> (forall j, In j order -> j < length ss) ->
  scan_streams P order ss q = None ->
  forall key x, In (key, x) ss -> pop_key P key q = None.
Proof.
  intros order ss q Hcov Hrng Hnone key x Hin.
  destruct (In_nth_error _ _ Hin) as (j & Hj).
  assert (Hlt : j < length ss) by (apply nth_error_Some; congruence).
  specialize (Hcov j Hlt). clear Hlt Hin.
  induction order as [|i o IH]; [contradiction|]. cbn in Hnone.
  destruct (nth_error ss i) as [[key' x']|] eqn:E.
  - destruct (pop_key P key' q) as [[e0 q0]|] eqn:Ek; [discriminate|].
    destruct Hcov as [->|Hin].
    + rewrite Hj in E. inversion E; subst. exact Ek.
    + apply IH; auto. intros j' Hj'. apply Hrng. now right.
  - apply nth_error_None in E. specialize (Hrng i (or_introl eq_refl)). lia.
Qed.

(* ---------- conservation of connection names ---------- *)
Definition acc_conns (q : list (option conn)) : list conn :=
  flat_map (fun a => match a with Some x => [x] | None => [] end) q.
Definition skx (kx : nat * conn) : nat := cid (snd kx).

(* how often the name c occurs among the live connections (listener queue, call list, stream list) *)
Definition occ (c : nat) (s : sv P) : nat :=
  cnt cid c (acc_conns (accq s)) + cnt cid c (conns s) + cnt skx c (streams s).

Definition is_drop (c : nat) (e : tev P) : bool :=
  match e with TDrop c' => Nat.eqb c' c | _ => false end.
(* how often the connection named c was dropped *)
Definition dcount (c : nat) (T : list (tev P)) : nat := length (filter (is_drop c) T).

Lemma dcount_app c T1 T2 : dcount c (T1 ++ T2) = dcount c T1 + dcount c T2.
Proof. unfold dcount. now rewrite filter_app, app_length. Qed.

Lemma dcount_drop c x : dcount c [TDrop (cid x)] = cnt1 cid c x.
Proof. unfold dcount, cnt1. cbn. destruct (Nat.eqb (cid x) c); reflexivity. Qed.

Lemma cnt_names {A} (name : A -> nat) c l l' : map name l = map name l' -> cnt name c l = cnt name c l'.
Proof.
  revert l'. induction l as [|x l IH]; intros [|y l'] H; cbn in H; try discriminate; [reflexivity|].
  inversion H. cbn. unfold cnt1. rewrite H1. f_equal. now apply IH.
Qed.

Lemma dcount_exit_streams c ss :
  dcount c (flat_map (fun x : nat * conn => [TSDrop (cid (snd x)) (fst x); TDrop (cid (snd x))]) ss)
  = cnt skx c ss.
Proof.
  induction ss as [|x ss IH]; [reflexivity|]. cbn [flat_map].
  rewrite dcount_app, IH. cbn [cnt]. f_equal.
  unfold dcount, cnt1, skx. cbn. destruct (Nat.eqb (cid (snd x)) c); reflexivity.
Qed.

Lemma dcount_exit_conns c cs : dcount c (map (fun x => TDrop (cid x)) cs) = cnt cid c cs.
Proof.
  induction cs as [|x cs IH]; [reflexivity|]. cbn [map cnt].
  change (TDrop (cid x) :: map (fun x0 => TDrop (cid x0)) cs)
    with ([@TDrop P (cid x)] ++ map (fun x0 => TDrop (cid x0)) cs).
  rewrite dcount_app, IH, dcount_drop. reflexivity.
Qed.

Lemma write_conn_facts x m ok x' t : write_conn P x m = (ok, x', t) ->
  cid x' = cid x /\ rst x' = rst x /\ ctr x' = ctr x /\ wfail x' = wfail x /\ (forall c, dcount c t = 0) /\ t = [if ok then TWrite (cid x) m else TWriteFail (cid x) m] /\ ok = negb (existsb (Nat.eqb (wcnt x)) (wfail x)).
Proof.
  unfold write_conn. destruct (existsb _ _); intros H; inversion H; subst; cbn; repeat split; auto.
Qed.

Lemma handle_call_facts cl x st h st' t : handle_call P cl x st = (h, st', t) ->
  (forall c, dcount c t = 0) /\ match h with HKeep x' | HFail x' => cid x' = cid x | HPark _ => True end.
Proof.
  unfold handle_call, reply_with. destruct (handle P cl st) as [ans s'].
  destruct (oneway P cl).
  - intros H; inversion H; subst. split; [|reflexivity]. intros c. destruct ans; reflexivity.
  - destruct ans as [p|e|].
    + destruct (write_conn P x (WSingle p)) as [[ok x'] t'] eqn:Ew.
      destruct (write_conn_facts _ _ _ _ _ Ew) as (Hc & _ & _ & _ & Hd & _).
      intros H; inversion H; subst. split.
      * intros c. change (TInvoke (cid x) cl (ASingle p) :: t') with ([TInvoke (cid x) cl (ASingle p)] ++ t').
        rewrite dcount_app, Hd. reflexivity.
      * destruct ok; exact Hc.
    + destruct (write_conn P x (WError e)) as [[ok x'] t'] eqn:Ew.
      destruct (write_conn_facts _ _ _ _ _ Ew) as (Hc & _ & _ & _ & Hd & _).
      intros H; inversion H; subst. split.
      * intros c. change (TInvoke (cid x) cl (AError e) :: t') with ([TInvoke (cid x) cl (AError e)] ++ t').
        rewrite dcount_app, Hd. reflexivity.
      * destruct ok; exact Hc.
    + intros H; inversion H; subst. split; [intros c; reflexivity|exact I].
Qed.

Definition occ_with (c : nat) (s : sv P) (cs : list conn) : nat :=
  cnt cid c (acc_conns (accq s)) + cnt cid c cs + cnt skx c (streams s).

Lemma on_call_conserve s l1 x l2 r st s' t :
  on_call P s (l1 ++ x :: l2) (length l1) r = (st, s', t) ->
  st = Progress /\ known s' = known s /\ accq s' = accq s /\ forall c, occ c s' + dcount c t = occ_with c s (l1 ++ x :: l2).
Proof.
  unfold on_call.
  assert (E : nth_error (l1 ++ x :: l2) (length l1) = Some x).
  { rewrite nth_error_app2 by lia. now rewrite Nat.sub_diag. }
  rewrite E.
  assert (Hrem : forall c (s2 : sv P), accq s2 = accq s -> streams s2 = streams s ->
            occ c (set_conns s2 (swap_remove (length l1) (l1 ++ x :: l2))) + dcount c [TDrop (cid x)]
            = occ_with c s (l1 ++ x :: l2)).
  { intros c s2 Ha Hs. rewrite dcount_drop. unfold occ, occ_with. cbn [accq conns streams set_conns].
    rewrite Ha, Hs. rewrite (cnt_swap_remove cid c _ _ _ E). lia. }
  destruct r as [[cl|]| | |].
  2-5: intros H; inversion H; subst; repeat split; auto; intros c; apply Hrem; reflexivity.
  destruct (handle_call P cl x (sst s)) as [[h st'] t'] eqn:Eh.
  destruct (handle_call_facts _ _ _ _ _ _ Eh) as (Hd & Hh).
  destruct h as [x'|x'|key]; intros H; inversion H; subst; repeat split; auto; intros c.
  - rewrite Hd. unfold occ, occ_with. cbn [accq conns streams set_conns set_sst set_lastc].
    pose proof (cnt_upd_nth cid c _ _ _ x' E) as Hu.
    assert (cnt1 cid c x' = cnt1 cid c x) by (unfold cnt1; now rewrite Hh).
    lia.
  - rewrite dcount_app, Hd. cbn [Nat.add]. apply Hrem; reflexivity.
  - rewrite Hd. unfold occ, occ_with. cbn [accq conns streams known set_conns set_streams set_sst set_lastc set_lasts set_accq set_squeue]. rewrite cnt_app. cbn [cnt].
    rewrite (cnt_swap_remove cid c _ _ _ E).
    assert (cnt1 skx c (key, x) = cnt1 cid c x) by reflexivity. lia.
Qed.

Lemma on_stream_conserve s idx e key x st s' t :
  nth_error (streams s) idx = Some (key, x) ->
  on_stream P s idx e = (st, s', t) ->
  st = Progress /\ known s' = known s /\ accq s' = accq s /\ forall c, occ c s' + dcount c t = occ c s.
Proof.
  intros E. unfold on_stream. rewrite E. destruct e as [r|].
  - destruct (write_conn P x (WItem r)) as [[ok x'] t'] eqn:Ew.
    destruct (write_conn_facts _ _ _ _ _ Ew) as (Hc & _ & _ & _ & Hd & _).
    destruct ok; intros H; inversion H; subst; repeat split; auto; intros c.
    + change (TSYield (cid x) key (SItem r) :: t') with ([TSYield (cid x) key (SItem r)] ++ t').
      rewrite dcount_app, Hd. replace (dcount c [TSYield (cid x) key (SItem r)]) with 0 by reflexivity.
      unfold occ. cbn [accq conns streams known set_conns set_streams set_sst set_lastc set_lasts set_accq set_squeue].
      pose proof (cnt_upd_nth skx c _ _ _ (key, x') E) as Hu.
      assert (cnt1 skx c (key, x') = cnt1 skx c (key, x)) by (unfold cnt1, skx; cbn; now rewrite Hc). lia.
    + change (TSYield (cid x) key (SItem r) :: t' ++ [TSDrop (cid x) key; TDrop (cid x)])
        with ([TSYield (cid x) key (SItem r)] ++ t' ++ [TSDrop (cid x) key] ++ [TDrop (cid x)]).
      rewrite !dcount_app, Hd, dcount_drop.
      replace (dcount c [TSYield (cid x) key (SItem r)]) with 0 by reflexivity.
      replace (dcount c [TSDrop (cid x) key]) with 0 by reflexivity.
      unfold occ. cbn [accq conns streams known set_conns set_streams set_sst set_lastc set_lasts set_accq set_squeue].
      rewrite (cnt_swap_remove skx c _ _ _ E).
      assert (cnt1 skx c (key, x) = cnt1 cid c x) by reflexivity. lia.
  - intros H; inversion H; subst; repeat split; auto; intros c.
    unfold occ. cbn [accq conns streams known set_conns set_streams set_sst set_lastc set_lasts set_accq set_squeue]. rewrite cnt_app. cbn [cnt].
    rewrite (cnt_swap_remove skx c (streams s) _ _ E).
    assert (cnt1 skx c (key, x) = cnt1 cid c x) by reflexivity.
    replace (dcount c [TSYield (cid x) key SEnd; TSDrop (cid x) key]) with 0 by reflexivity. lia.
Qed.

(* one iteration never panics, and every connection name is conserved: live before = live after +
   dropped by this iteration *)
Theorem iteration_conserve s st s' t : iteration P s = (st, s', t) ->
  st <> Stop Panicked /\ st <> Stop OutOfFuel /\ known s' = known s /\ forall c, occ c s' + dcount c t = occ c s.
Proof.
  unfold iteration. destruct (accq s) as [|[x|] q] eqn:Ea.
  - destruct (scan_calls P (poll_order (lastc s) (length (conns s))) (conns s)) as [res cs] eqn:Es.
    pose proof (scan_calls_cids (poll_order (lastc s) (length (conns s))) (conns s)) as Hcids.
    rewrite Es in Hcids. cbn [snd] in Hcids.
    assert (Hocc : forall c, occ_with c s cs = occ c s).
    { intros c. unfold occ_with, occ. now rewrite (cnt_names cid c _ _ Hcids). }
    assert (Hall : Forall (fun _ : conn => True) (conns s)) by (apply Forall_forall; intros; exact I).
    pose proof (scan_calls_ind (fun _ => True) (fun _ _ => True) (fun _ _ _ _ => I) (fun _ _ _ _ _ => I)
                  _ _ _ _ Hall Es) as Hscan.
    destruct res as [[i r]|].
    + destruct Hscan as (l1 & x' & l2 & -> & <- & _).
      intros H. destruct (on_call_conserve _ _ _ _ _ _ _ _ H) as (-> & Hk & _ & Ho).
      repeat split; try discriminate; auto. intros c. now rewrite Ho, Hocc.
    + destruct (scan_streams P _ _ _) as [[[idx e] q']|] eqn:Ess.
      * destruct (scan_streams_some _ _ _ _ _ _ Ess) as (key & x & En & _).
        intros H.
        destruct (on_stream_conserve (set_squeue (set_conns s cs) q') _ _ _ _ _ _ _ En H) as (-> & Hk & _ & Ho).
        repeat split; try discriminate; auto. intros c. rewrite Ho, <- (Hocc c). reflexivity.
      * intros H; inversion H; subst. repeat split; try discriminate; auto.
        intros c. rewrite <- (Hocc c). replace (dcount c []) with 0 by reflexivity.
        unfold occ, occ_with. cbn [accq conns streams set_conns]. lia.
  - intros H; inversion H; subst. repeat split; try discriminate; auto.
    intros c. replace (dcount c [TAccept (cid x)]) with 0 by reflexivity.
    unfold occ. cbn [accq conns streams set_conns set_accq]. rewrite Ea. cbn [acc_conns flat_map app cnt].
    rewrite cnt_app. cbn [cnt]. fold (acc_conns q). lia.
  - intros H; inversion H; subst. repeat split; try discriminate; auto.
    intros c. unfold exit_trace. rewrite !dcount_app, dcount_exit_streams, dcount_exit_conns.
    replace (dcount c [TExit]) with 0 by reflexivity.
    unfold occ. cbn [accq conns streams set_conns set_accq set_streams]. rewrite Ea.
    cbn [acc_conns flat_map app cnt]. fold (acc_conns q). lia.
Qed.

(* ---------- the conservation law over whole runs ---------- *)
(* every name is used by at most one live connection or was dropped at most once, never both *)
Definition sinv (s : sv P) (T : list (tev P)) : Prop :=
  forall c, occ c s + dcount c T <= 1 /\ (0 < occ c s + dcount c T -> In c (known s)).

Lemma acc_conns_map' g (q : list (option conn)) :
  acc_conns (map (fun a => match a with Some x => Some (g x) | None => None end) q) = map g (acc_conns q).
Proof. unfold acc_conns. induction q as [|[x|] q IH]; cbn; [reflexivity| |exact IH]. now rewrite IH. Qed.

Lemma occ_on_conn' c (c' : nat) (g : conn -> conn) (s : sv P) :
  (forall y, cid (g y) = cid y) -> occ c (on_conn P c' g s) = occ c s.
Proof.
  intros Hg. unfold occ, on_conn. cbn [accq conns streams set_accq set_conns set_streams].
  assert (Hu : forall x, cid (upd_if c' g x) = cid x).
  { intros x. unfold upd_if. destruct (Nat.eqb _ _); auto. }
  rewrite (acc_conns_map' (upd_if c' g)), !cnt_map_ext; auto.
  intros kx. unfold skx. cbn. apply Hu.
Qed.

Lemma sinv_env e s T : sinv s T -> sinv (apply_env P e s) T.
Proof.
  intros H. destruct e as [c'| |c' bs|c'|c'|c' k|key r|key| ]; cbn [apply_env]; try exact H.
  - destruct (existsb (Nat.eqb c') (known s)) eqn:Ek; [exact H|].
    assert (Hnk : ~ In c' (known s)).
    { intros Hin. assert (existsb (Nat.eqb c') (known s) = true); [|congruence].
      apply existsb_exists. exists c'. split; [exact Hin|apply Nat.eqb_refl]. }
    intros c. destruct (H c) as (H1 & H2).
    assert (Hocc : occ c (set_accq (set_known s (known s ++ [c'])) (accq s ++ [Some (fresh_conn P c')]))
                   = occ c s + cnt1 cid c (fresh_conn P c')).
    { unfold occ. cbn [accq conns streams set_accq set_known]. unfold acc_conns.
      rewrite flat_map_app, cnt_app. cbn. lia. }
    rewrite Hocc. cbn [known set_accq set_known]. unfold cnt1. cbn [cid fresh_conn].
    destruct (Nat.eqb c' c) eqn:E.
    + apply Nat.eqb_eq in E. subst c'.
      assert (occ c s + dcount c T = 0).
      { destruct (Nat.eq_dec (occ c s + dcount c T) 0); auto. exfalso. apply Hnk, H2. lia. }
      split; [lia|]. intros _. apply in_app_iff. right. now left.
    + split; [lia|]. intros Hp. apply in_app_iff. left. apply H2. lia.
  - intros c. destruct (H c). unfold occ in *. cbn [accq conns streams set_accq known] in *. unfold acc_conns in *.
    rewrite flat_map_app, cnt_app. cbn. split; [lia|]. intros; auto with arith. apply H1. lia.
  - intros c. rewrite occ_on_conn' by reflexivity. apply H.
  - intros c. rewrite occ_on_conn' by reflexivity. apply H.
  - intros c. rewrite occ_on_conn' by reflexivity. apply H.
  - intros c. rewrite occ_on_conn' by reflexivity. apply H.
Qed.

Lemma sinv_iter s T st s' t : sinv s T -> iteration P s = (st, s', t) -> sinv s' (T ++ t).
Proof.
  intros H Hit c. destruct (iteration_conserve _ _ _ _ Hit) as (_ & _ & Hk & Hocc).
  specialize (Hocc c). destruct (H c) as (H1 & H2). rewrite dcount_app, Hk. split; [lia|].
  intros Hp. apply H2. lia.
Qed.

Lemma sinv_poll_loop : forall fuel s T r s' t, sinv s T -> poll_loop P fuel s = (r, s', t) ->
  sinv s' (T ++ t) /\ r <> Panicked.
Proof.
  induction fuel as [|fuel IH]; intros s T r s' t H Hl; cbn in Hl.
  - inversion Hl; subst. rewrite app_nil_r. split; [exact H|discriminate].
  - destruct (iteration P s) as [[ist s1] t1] eqn:Ei.
    pose proof (sinv_iter _ _ _ _ _ H Ei) as H1.
    destruct (iteration_conserve _ _ _ _ Ei) as (Hnp & _).
    destruct ist as [| |r0].
    + destruct (poll_loop P fuel s1) as [[r1 s2] t2] eqn:El. inversion Hl; subst.
      rewrite app_assoc. eapply IH; eauto.
    + inversion Hl; subst. split; [exact H1|discriminate].
    + inversion Hl; subst. split; [exact H1|congruence].
Qed.

Lemma sinv_set_stat s T r : sinv s T -> sinv (set_stat s r) T.
Proof. intros H c. apply H. Qed.

Lemma sinv_step_env e s T s' t : sinv s T -> stat s <> Panicked -> step_env P e s = (s', t) ->
  sinv s' (T ++ t) /\ stat s' <> Panicked.
Proof.
  intros H Hs He.
  assert (Hnp : e <> Poll -> sinv s' (T ++ t) /\ stat s' <> Panicked).
  { intros Hne. assert (Hs' : step_env P e s = (apply_env P e s, [])) by (destruct e; try reflexivity; congruence).
    rewrite Hs' in He. inversion He; subst. rewrite app_nil_r. split; [now apply sinv_env|].
    destruct e; cbn; auto; try congruence. destruct (existsb _ _); auto. }
  destruct e; try (apply Hnp; discriminate). clear Hnp. cbn [step_env] in He.
  destruct (stat s) eqn:Est; try (inversion He; subst; rewrite app_nil_r; split; [exact H|congruence]).
  unfold poll_server in He. destruct (poll_loop P (S (measure P s)) s) as [[r s1] t1] eqn:El.
  inversion He; subst. destruct (sinv_poll_loop _ _ _ _ _ _ H El). split; [now apply sinv_set_stat|exact H1].
Qed.

Lemma sinv_exec : forall E s T s' T', sinv s T -> stat s <> Panicked -> exec P E s = (s', T') ->
  sinv s' (T ++ T') /\ stat s' <> Panicked.
Proof.
  induction E as [|e E IH]; intros s T s' T' H Hs He; cbn in He.
  - inversion He; subst. now rewrite app_nil_r.
  - destruct (step_env P e s) as [s1 t1] eqn:Es. destruct (exec P E s1) as [s2 t2] eqn:Ee.
    inversion He; subst. rewrite app_assoc.
    destruct (sinv_step_env _ _ _ _ _ H Hs Es). eapply IH; eauto.
Qed.

(* no connection is ever dropped twice, whatever the script; and the model never panics *)
Theorem dropped_at_most_once E s0 s T : exec P E (init_sv P s0) = (s, T) ->
  (forall c, dcount c T <= 1) /\ (forall c, 0 < dcount c T -> occ c s = 0) /\ stat s <> Panicked.
Proof.
  intros He. destruct (sinv_exec E (init_sv P s0) [] s T) as (H & Hs); auto.
  - intros c. cbn. split; [lia|]. unfold occ, dcount. cbn. lia.
  - cbn. discriminate.
  - cbn [app] in H. repeat split; auto; intros c; destruct (H c); lia.
Qed.

End Struct.
