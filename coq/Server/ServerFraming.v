(* One poll of receive_call on a connection whose input is well formed: the framing lemma in the
   form the server needs (transport scripts that grow between polls, no end-of-stream marker).
   Builds on Framing/ReadConnProofs.v. *)
From ZV Require Import Framing.ReadConn Framing.ReadConnProofs.
From Coq Require Import Lia.

Definition ok_data (e : ev) : Prop := match e with Data (_ :: _) => True | _ => False end.

Lemma ok_data_ok_ev tr : Forall ok_data tr -> Forall ok_ev tr.
Proof.
  apply Forall_impl. intros [bs| | |] H; cbn in *; try contradiction. exact H.
Qed.

Lemma ok_data_cons_rest space bs tr' : Forall ok_data tr' -> Forall ok_data (cons_rest space bs tr').
Proof.
  intros H. unfold cons_rest. destruct (skipn space bs) eqn:E; [assumption|].
  constructor; [exact I|assumption].
Qed.

Section Framing.
Variables (step limit : N).
Variable D : Type.
Variable decode : list byte -> D.
Hypothesis step_pos : (0 < step)%N.

Notation read_loop := (read_loop step limit D).
Notation poll_receive := (poll_receive step limit D decode).
Notation deliver := (deliver D decode).

(* the read loop on a script of non-empty Data events (no end marker): it either completes a burst
   that ends in NUL, or absorbs the whole script and stays pending; never an error *)
Lemma read_loop_plain : forall fuel (s : st) tr,
  mpos s = 0 -> cap_ok s -> Forall ok_data tr ->
  (N.of_nat (length (data s) + length (payload tr)) < limit)%N ->
  length (payload tr) + length tr < fuel ->
  match read_loop fuel s tr with
  | (ReadConn.LOk _, s', rest) => exists p, p <> []
        /\ data s' = data s ++ p /\ last_is_nul p = true
        /\ payload tr = p ++ payload rest /\ mpos s' = 0 /\ cap_ok s' /\ Forall ok_data rest
  | (ReadConn.LPend _, s', rest) => rest = [] /\ exists p,
        data s' = data s ++ p /\ (p = [] \/ last_is_nul p = false)
        /\ payload tr = p /\ mpos s' = 0 /\ cap_ok s'
  | (ReadConn.LErr _ _, _, _) => False
  end.
Proof.
  induction fuel as [|fuel IH]; intros s tr Hm Hc Hok Hlim Hf; [lia|].
  cbn [ReadConn.read_loop].
  destruct tr as [|e tr'].
  { split; [reflexivity|]. exists []. rewrite app_nil_r. cbn [payload]. repeat split; auto. }
  inversion Hok as [|? ? He Hok']; subst.
  destruct e as [bs| | |]; cbn in He; try contradiction.
  destruct bs as [|b bs]; [contradiction|].
  set (bs' := b :: bs) in *.
  set (space := N.to_nat (cap s) - length (data s)).
  assert (Hsp : 0 < space) by (unfold cap_ok in Hc; subst space; lia).
  destruct (Nat.eqb space 0) eqn:Esp; [apply Nat.eqb_eq in Esp; lia|].
  set (take := firstn space bs').
  set (tr'' := cons_rest space bs' tr').
  assert (Htake : take <> []).
  { subst take bs'. destruct space; [lia|]. cbn. discriminate. }
  assert (Hsplit : bs' = take ++ skipn space bs') by (symmetry; apply firstn_skipn).
  assert (Hpay : payload (Data bs' :: tr') = take ++ payload tr'').
  { cbn [payload]. subst tr''. rewrite payload_cons_rest, app_assoc, <- Hsplit. reflexivity. }
  assert (Hlt : length take <= space) by (subst take; apply firstn_le_length).
  assert (Htl : 0 < length take) by (destruct take; [congruence|cbn; lia]).
  assert (Hlen3 : length tr'' <= S (length tr')) by (apply (length_cons_rest step step_pos)).
  assert (Hlen'' : length (payload tr'') + length tr'' < fuel).
  { rewrite Hpay, app_length in Hf. cbn [length] in Hf. lia. }
  assert (Hok'' : Forall ok_data tr'') by (apply ok_data_cons_rest; assumption).
  rewrite Hpay in Hlim. rewrite app_length in Hlim.
  assert (Hgen : forall c', (N.of_nat (length (data s ++ take)) < c')%N ->
     match (if last_is_nul take then (ReadConn.LOk D, mk c' (mpos s) (data s ++ take), tr'')
            else read_loop fuel (mk c' (mpos s) (data s ++ take)) tr'') with
     | (ReadConn.LOk _, s', rest) => exists p, p <> []
        /\ data s' = data s ++ p /\ last_is_nul p = true
        /\ payload (Data bs' :: tr') = p ++ payload rest /\ mpos s' = 0 /\ cap_ok s' /\ Forall ok_data rest
     | (ReadConn.LPend _, s', rest) => rest = [] /\ exists p,
        data s' = data s ++ p /\ (p = [] \/ last_is_nul p = false)
        /\ payload (Data bs' :: tr') = p /\ mpos s' = 0 /\ cap_ok s'
     | (ReadConn.LErr _ _, _, _) => False
     end).
  { intros c' Hc'. destruct (last_is_nul take) eqn:El.
    - exists take. cbn [data mpos cap]. repeat split; auto.
    - specialize (IH (mk c' (mpos s) (data s ++ take)) tr'').
      cbn [mpos data cap] in IH. unfold cap_ok in IH; cbn [data cap] in IH.
      specialize (IH Hm Hc' Hok'').
      rewrite app_length in IH.
      assert (Hl2 : (N.of_nat (length (data s) + length take + length (payload tr'')) < limit)%N) by lia.
      specialize (IH Hl2 Hlen'').
      destruct (read_loop fuel _ tr'') as [[r s'] rest]. destruct r as [|r|].
      + destruct IH as (p & Hp & Hd & Hn & Hpp & Hm' & Hc0 & Hok0).
        exists (take ++ p). repeat split; auto.
        * intros X. apply app_eq_nil in X. tauto.
        * rewrite Hd. cbn. now rewrite app_assoc.
        * rewrite last_is_nul_app; auto.
        * rewrite Hpay, Hpp. now rewrite app_assoc.
      + contradiction.
      + destruct IH as (Hr & p & Hd & Hn & Hpp & Hm' & Hc0).
        split; [exact Hr|]. exists (take ++ p). repeat split; auto.
        * rewrite Hd. cbn. now rewrite app_assoc.
        * right. destruct Hn as [->|Hn]; [now rewrite app_nil_r|].
          destruct p as [|x p]; [now rewrite app_nil_r|]. rewrite last_is_nul_app; auto. discriminate.
        * rewrite Hpay, Hpp. reflexivity. }
  fold bs'. fold space. fold take. fold tr''.
  destruct (N.of_nat (length (data s ++ take)) =? cap s)%N eqn:Ecap.
  - apply N.eqb_eq in Ecap.
    destruct (limit <=? cap s)%N eqn:Elim.
    + apply N.leb_le in Elim. rewrite app_length in Ecap. lia.
    + apply Hgen. lia.
  - apply N.eqb_neq in Ecap. apply Hgen.
    rewrite app_length in *. unfold cap_ok in Hc. subst space. lia.
Qed.

(* ---------- the invariant of a healthy connection's read side ----------
   [rest]: the frames not yet delivered; [fut]: the bytes that will still arrive; [total]: a bound
   on everything the connection ever receives. *)
Definition rinv (total : nat) (s : st) (tr : list ev) (rest : list (list byte)) (fut : list byte) : Prop :=
  cap_ok s /\ Forall ok_data tr /\ Forall frame_ok rest /\
  length (data s) + length (payload tr) + length fut <= total /\
  ( (mpos s = 0 /\ (data s = [] \/ last_is_nul (data s) = false) /\
     data s ++ payload tr ++ fut = wire rest)
    \/ (exists fsb fsr, fsb <> [] /\ rest = fsb ++ fsr /\ 0 < mpos s /\
        skipn (mpos s) (data s) = wire fsb /\ payload tr ++ fut = wire fsr) ).

Definition rfuel (tr : list ev) : nat := length (payload tr) + length tr + 2.

(* one poll: Pending absorbs the whole script and keeps the invariant; Ready delivers exactly the
   next frame *)
Lemma poll_rinv total s tr rest fut :
  (N.of_nat total < limit)%N -> rinv total s tr rest fut ->
  match poll_receive (rfuel tr) s tr with
  | (None, s', tr') => tr' = [] /\ mpos s' = 0 /\ rinv total s' tr' rest fut
  | (Some r, s', tr') => exists f rest', rest = f :: rest' /\ r = Msg (decode f) /\ rinv total s' tr' rest' fut
  end.
Proof.
  intros Hlim (Hc & Hok & Hfr & Hlen & Hshape).
  unfold ReadConn.poll_receive, ReadConn.read_from_socket.
  destruct Hshape as [(Hm & Hd & Hw)|(fsb & fsr & Hne & Hrest & Hm & Hsk & Hw)].
  - rewrite Hm. cbn [Nat.eqb].
    pose proof (read_loop_plain (rfuel tr) s tr Hm Hc Hok ltac:(lia) ltac:(unfold rfuel; lia)) as Hspec.
    destruct (read_loop (rfuel tr) s tr) as [[r s1] tr1]. destruct r as [|r|]; [| contradiction |].
    + destruct Hspec as (p & Hpne & Hd1 & Hn & Hpp & Hm1 & Hc1 & Hok1).
      assert (Hw' : (data s ++ p) ++ (payload tr1 ++ fut) = wire rest).
      { rewrite <- Hw, Hpp. now rewrite <- !app_assoc. }
      assert (Hne' : data s ++ p <> []) by (intros X; apply app_eq_nil in X; tauto).
      assert (Hl' : last_is_nul (data s ++ p) = true) by (rewrite last_is_nul_app; auto).
      destruct (wire_prefix_nul rest _ _ Hfr Hw' Hne' Hl') as (fs1 & fs2 & Hsplit & Hn1 & Hp1 & Hq2).
      destruct fs1 as [|f fsb]; [congruence|]. cbn in Hsplit.
      assert (Hok1' : Forall frame_ok (f :: fsb)).
      { rewrite Hsplit in Hfr. change (f :: fsb ++ fs2) with ((f :: fsb) ++ fs2) in Hfr.
        apply Forall_app in Hfr. tauto. }
      assert (Hsk : skipn (mpos s1) (data s1) = wire (f :: fsb)).
      { rewrite Hm1. cbn [skipn]. now rewrite Hd1. }
      pose proof (deliver_spec D decode s1 f fsb Hok1' Hsk) as Hdel.
      destruct (deliver_buffered step D decode step_pos s1 f fsb Hok1' Hsk) as (Hb & Hcap & Hlen1).
      rewrite Hdel in Hb, Hcap, Hlen1 |- *. cbn [snd] in Hb, Hcap, Hlen1.
      set (s2 := match fsb with [] => mk (cap s1) 0 [] | _ :: _ => mk (cap s1) (mpos s1 + length f + 1) (data s1) end) in *.
      exists f, (fsb ++ fs2). split; [exact Hsplit|]. split; [reflexivity|].
      assert (Hfr' : Forall frame_ok (fsb ++ fs2)) by (rewrite Hsplit in Hfr; now inversion Hfr).
      assert (Hlen2 : length (data s2) + length (payload tr1) + length fut <= total).
      { rewrite Hd1, app_length in Hlen1. rewrite Hpp, app_length in Hlen. lia. }
      split; [unfold cap_ok in *; rewrite Hcap; lia|].
      split; [exact Hok1|]. split; [exact Hfr'|]. split; [exact Hlen2|].
      destruct fsb as [|g fsb].
      * left. cbn [buffered] in Hb. destruct Hb as (Hb1 & Hb2). rewrite Hb2. cbn [app]. repeat split; auto.
      * right. exists (g :: fsb), fs2. cbn [buffered] in Hb. destruct Hb as (Hb1 & Hb2).
        repeat split; auto; discriminate.
    + destruct Hspec as (-> & p & Hd1 & Hn & Hpp & Hm1 & Hc1).
      split; [reflexivity|]. split; [exact Hm1|].
      split; [exact Hc1|]. split; [constructor|]. split; [exact Hfr|].
      split; [rewrite Hd1, app_length; cbn [payload length]; rewrite Hpp in Hlen; lia|].
      left. split; [exact Hm1|]. split.
      * rewrite Hd1. destruct Hn as [->|Hn]; [rewrite app_nil_r; exact Hd|].
        destruct p as [|x p]; [rewrite app_nil_r; exact Hd|]. right.
        rewrite last_is_nul_app; auto. discriminate.
      * cbn [payload app]. rewrite Hd1, <- Hw, Hpp. now rewrite <- app_assoc.
  - destruct (Nat.eqb (mpos s) 0) eqn:E; [apply Nat.eqb_eq in E; lia|].
    destruct fsb as [|f fsb]; [congruence|].
    assert (Hok1' : Forall frame_ok (f :: fsb)).
    { rewrite Hrest in Hfr. apply Forall_app in Hfr. tauto. }
    pose proof (deliver_spec D decode s f fsb Hok1' Hsk) as Hdel.
    destruct (deliver_buffered step D decode step_pos s f fsb Hok1' Hsk) as (Hb & Hcap & Hlen1).
    rewrite Hdel in Hb, Hcap, Hlen1 |- *. cbn [snd] in Hb, Hcap, Hlen1.
    set (s2 := match fsb with [] => mk (cap s) 0 [] | _ :: _ => mk (cap s) (mpos s + length f + 1) (data s) end) in *.
    exists f, (fsb ++ fsr). split; [now rewrite Hrest|]. split; [reflexivity|].
    assert (Hfr' : Forall frame_ok (fsb ++ fsr)) by (rewrite Hrest in Hfr; now inversion Hfr).
    split; [unfold cap_ok in *; rewrite Hcap; lia|].
    split; [exact Hok|]. split; [exact Hfr'|]. split; [lia|].
    destruct fsb as [|g fsb].
    + left. cbn [buffered] in Hb. destruct Hb as (Hb1 & Hb2). rewrite Hb2. cbn [app]. repeat split; auto.
    + right. exists (g :: fsb), fsr. cbn [buffered] in Hb. destruct Hb as (Hb1 & Hb2).
      repeat split; auto; discriminate.
Qed.

(* the invariant of a freshly accepted connection *)
Lemma rinv_init total fs fut : Forall frame_ok fs -> fut = wire fs -> length fut <= total ->
  rinv total (init step) [] fs fut.
Proof.
  intros Hfr -> Hlen. split; [unfold cap_ok, init; cbn; lia|].
  split; [constructor|]. split; [exact Hfr|]. split; [cbn; lia|].
  left. cbn. auto.
Qed.

(* more bytes become readable *)
Lemma rinv_arrive total s tr rest bs fut : bs <> [] ->
  rinv total s tr rest (bs ++ fut) -> rinv total s (tr ++ [Data bs]) rest fut.
Proof.
  intros Hbs (Hc & Hok & Hfr & Hlen & Hshape).
  assert (Hp : payload (tr ++ [Data bs]) = payload tr ++ bs).
  { rewrite payload_app. cbn. now rewrite app_nil_r. }
  split; [exact Hc|]. split.
  { apply Forall_app. split; [exact Hok|]. constructor; [|constructor]. destruct bs; [congruence|exact I]. }
  split; [exact Hfr|]. split.
  { rewrite Hp, app_length. rewrite app_length in Hlen. lia. }
  rewrite Hp. destruct Hshape as [(Hm & Hd & Hw)|(fsb & fsr & Hne & Hrest & Hm & Hsk & Hw)].
  - left. repeat split; auto. now rewrite <- app_assoc.
  - right. exists fsb, fsr. repeat split; auto. now rewrite <- app_assoc.
Qed.

(* at rest (nothing unread, nothing buffered, nothing more to come) every frame was delivered *)
Lemma rinv_quiet total s rest : rinv total s [] rest [] -> mpos s = 0 -> rest = [].
Proof.
  intros (_ & _ & _ & _ & [(Hm & Hd & Hw)|(fsb & fsr & _ & _ & Hm & _)]) Hm0; [|lia].
  cbn [payload app] in Hw. rewrite app_nil_r in Hw.
  destruct rest as [|f rest]; [reflexivity|exfalso].
  assert (Hl : last_is_nul (data s) = true) by (rewrite Hw; apply last_is_nul_wire; discriminate).
  destruct Hd as [Hd|Hd]; [|congruence].
  rewrite Hd in Hw. symmetry in Hw. apply wire_nil_inv in Hw. discriminate.
Qed.

End Framing.
