(* Common definitions: bytes as N, NUL-terminated framing of byte streams. *)
From Coq Require Export List NArith Lia Bool Arith.
Export ListNotations.

Definition byte := N.

Definition term (f : list byte) : list byte := f ++ [0%N].
Definition wire (fs : list (list byte)) : list byte := concat (map term fs).

Definition nul_free (f : list byte) : Prop := Forall (fun b => b <> 0%N) f.
Definition frame_ok (f : list byte) : Prop := f <> [] /\ nul_free f.

Definition last_is_nul (l : list byte) : bool :=
  match rev l with 0%N :: _ => true | _ => false end.

(* up to the first NUL / what follows it *)
Fixpoint upto_nul (l : list byte) : list byte :=
  match l with [] => [] | 0%N :: _ => [] | b :: l' => b :: upto_nul l' end.
Fixpoint after_nul (l : list byte) : list byte :=
  match l with [] => [] | 0%N :: l' => l' | _ :: l' => after_nul l' end.

Fixpoint repeatn {A} (x : A) (n : nat) : list A :=
  match n with O => [] | S n => x :: repeatn x n end.
