(* Helpers for the correspondence check: evaluating models on concrete cases inside Coq. *)
From ZV Require Import Common.Base.

Fixpoint list_eqb {A} (eqb : A -> A -> bool) (a b : list A) : bool :=
  match a, b with
  | [], [] => true
  | x :: a', y :: b' => eqb x y && list_eqb eqb a' b'
  | _, _ => false
  end.

Definition bytes_eqb := list_eqb N.eqb.
Definition nn_eqb := list_eqb (list_eqb N.eqb).

Definition table := list (list byte * N).
Fixpoint lookup (t : table) (k : list byte) : N :=
  match t with
  | [] => 999999%N
  | (k', v) :: t' => if bytes_eqb k k' then v else lookup t' k
  end.

(* indices (from 0) and codes of the cases whose code is not 0 *)
Fixpoint bad_from {A} (f : A -> N) (i : N) (l : list A) : list (N * N) :=
  match l with
  | [] => []
  | c :: l' => let k := f c in
               if (k =? 0)%N then bad_from f (i + 1)%N l' else (i, k) :: bad_from f (i + 1)%N l'
  end.
Definition bad {A} (f : A -> N) (l : list A) := bad_from f 0%N l.
