(* Soundness: a text the parser accepts is in the grammar's token language, lexes to exactly the
   tokens of the tree it builds (nothing ignored, nothing fabricated), and all names are legal
   (C13_sound). The proof inverts every parser function of the model (what does an Ok result say
   about the consumed text?) and replays the consumed text through a relational lexer. *)
From Coq Require Import Ascii String.
From ZV Require Import Common.Base gen.IdlKeywords Idl.Idl Idl.IdlParse Idl.Utf8 Idl.IdlSafe Idl.IdlExec
  Idl.IdlRoundTrip Idl.IdlComplete.
Local Open Scope N_scope.

(* ------------------------------------------------------------------ a relational lexer *)

Inductive LexR : list byte -> list token -> Prop :=
| LR_nil : LexR [] []
| LR_blank b l ts : is_blank b = true -> LexR l ts -> LexR (b :: l) ts
| LR_comment l ts : LexR (skip_comment l) ts -> LexR (35 :: l) ts
| LR_lparen l ts : LexR l ts -> LexR (40 :: l) (KLParen :: ts)
| LR_rparen l ts : LexR l ts -> LexR (41 :: l) (KRParen :: ts)
| LR_comma l ts : LexR l ts -> LexR (44 :: l) (KComma :: ts)
| LR_colon l ts : LexR l ts -> LexR (58 :: l) (KColon :: ts)
| LR_question l ts : LexR l ts -> LexR (63 :: l) (KQuestion :: ts)
| LR_arrow l ts : LexR l ts -> LexR (45 :: 62 :: l) (KArrow :: ts)
| LR_map l ts : LexR l ts -> LexR (kw_map ++ l) (KMap :: ts)
| LR_array l ts : LexR l ts -> LexR (kw_array ++ l) (KArray :: ts)
| LR_word b l w r ts :
    is_alpha b = true -> span is_wordc l = (w, r) -> LexR r ts -> LexR (b :: l) (KWord (b :: w) :: ts).

Lemma skip_comment_length l : (length (skip_comment l) <= length l)%nat.
Proof.
  induction l as [|b l IH]; cbn [skip_comment length]; [lia|].
  destruct ((b =? 10) || (b =? 13)); lia.
Qed.

Lemma span_snd_length f l w r : span f l = (w, r) -> (length r <= length l)%nat.
Proof. intros H. pose proof (span_length f l) as Hl. rewrite H in Hl. exact Hl. Qed.

Lemma alpha_tests b : is_alpha b = true ->
  is_blank b = false /\ (b =? 35) = false /\ (b =? 40) = false /\ (b =? 41) = false /\ (b =? 44) = false
  /\ (b =? 58) = false /\ (b =? 63) = false /\ (b =? 45) = false /\ (b =? 91) = false.
Proof.
  intros H. unfold is_alpha, is_upper, is_lower in H. unfold is_blank.
  apply orb_true_iff in H. destruct H as [H|H]; nb;
    repeat split; try (repeat (apply orb_false_iff; split)); apply N.eqb_neq; lia.
Qed.

Lemma lex_fuel_map fuel l :
  lex_fuel (S fuel) (kw_map ++ l) = match lex_fuel fuel l with Some ts => Some (KMap :: ts) | None => None end.
Proof. reflexivity. Qed.

Lemma lex_fuel_array fuel l :
  lex_fuel (S fuel) (kw_array ++ l) = match lex_fuel fuel l with Some ts => Some (KArray :: ts) | None => None end.
Proof. reflexivity. Qed.

Lemma LexR_fuel : forall l ts, LexR l ts -> forall fuel, (length l < fuel)%nat -> lex_fuel fuel l = Some ts.
Proof.
  induction 1 as [ | b l ts Hb _ IH | l ts _ IH | l ts _ IH | l ts _ IH | l ts _ IH | l ts _ IH | l ts _ IH
                 | l ts _ IH | l ts _ IH | l ts _ IH | b l w r ts Hb Hs _ IH ];
    intros fuel Hf; (destruct fuel as [|fuel]; [cbn in Hf; lia|]); cbn [length] in Hf.
  - reflexivity.
  - cbn [lex_fuel]. rewrite Hb. apply IH. lia.
  - cbn [lex_fuel]. change (is_blank 35) with false. cbv iota. change (35 =? 35) with true. cbv iota.
    apply IH. pose proof (skip_comment_length l). lia.
  - cbn [lex_fuel]. change (is_blank 40) with false. cbv iota. change (40 =? 35) with false. cbv iota.
    change (40 =? 40) with true. cbv iota. rewrite IH by lia. reflexivity.
  - cbn [lex_fuel]. change (is_blank 41) with false. cbv iota.
    change (41 =? 35) with false. change (41 =? 40) with false. change (41 =? 41) with true. cbv iota.
    rewrite IH by lia. reflexivity.
  - cbn [lex_fuel]. change (is_blank 44) with false. cbv iota.
    change (44 =? 35) with false. change (44 =? 40) with false. change (44 =? 41) with false.
    change (44 =? 44) with true. cbv iota. rewrite IH by lia. reflexivity.
  - cbn [lex_fuel]. change (is_blank 58) with false. cbv iota.
    change (58 =? 35) with false. change (58 =? 40) with false. change (58 =? 41) with false.
    change (58 =? 44) with false. change (58 =? 58) with true. cbv iota. rewrite IH by lia. reflexivity.
  - cbn [lex_fuel]. change (is_blank 63) with false. cbv iota.
    change (63 =? 35) with false. change (63 =? 40) with false. change (63 =? 41) with false.
    change (63 =? 44) with false. change (63 =? 58) with false. change (63 =? 63) with true. cbv iota.
    rewrite IH by lia. reflexivity.
  - cbn [lex_fuel]. change (is_blank 45) with false. cbv iota.
    change (45 =? 35) with false. change (45 =? 40) with false. change (45 =? 41) with false.
    change (45 =? 44) with false. change (45 =? 58) with false. change (45 =? 63) with false.
    change (45 =? 45) with true. cbv iota. change (62 =? 62) with true. cbv iota.
    cbn [length] in Hf. rewrite IH by lia. reflexivity.
  - rewrite lex_fuel_map. unfold kw_map in Hf. cbn [app length] in Hf. rewrite IH by lia. reflexivity.
  - rewrite lex_fuel_array. unfold kw_array in Hf. cbn [app length] in Hf. rewrite IH by lia. reflexivity.
  - cbn [lex_fuel]. destruct (alpha_tests b Hb) as (H0 & H1 & H2 & H3 & H4 & H5 & H6 & H7 & H8).
    rewrite H0, H1, H2, H3, H4, H5, H6, H7, H8, Hb, Hs.
    rewrite IH; [reflexivity|]. pose proof (span_snd_length _ _ _ _ Hs). lia.
Qed.

Theorem LexR_lex l ts : LexR l ts -> lex l = Some ts.
Proof. intros H. unfold lex. apply (LexR_fuel l ts H). lia. Qed.

(* ------------------------------------------------------------------ transparency of gaps *)

(* i' is what remains of i after skipping something the lexer ignores *)
Definition transparent (i i' : list byte) : Prop := forall ts, LexR i' ts -> LexR i ts.

Lemma transparent_refl i : transparent i i.
Proof. intros ts H. exact H. Qed.

Lemma transparent_trans a b c : transparent a b -> transparent b c -> transparent a c.
Proof. intros H1 H2 ts H. apply H1, H2, H. Qed.

Lemma is_ms_blank b : is_ms b = is_blank b.
Proof. reflexivity. Qed.

Lemma transparent_blanks g i : blanks g -> transparent (g ++ i) i.
Proof.
  induction 1 as [|b g Hb _ IH]; [apply transparent_refl|].
  intros ts H. cbn [app]. apply LR_blank; [exact Hb | now apply IH].
Qed.

Lemma skip_ms_split i : exists g, blanks g /\ i = g ++ skip_ms i.
Proof.
  unfold skip_ms.
  assert (Hall : Forall (fun c => is_ms c = true) (fst (span is_ms i))).
  { induction i as [|b i IH]; cbn; [constructor|]. destruct (is_ms b) eqn:E; cbn; [|constructor].
    destruct (span is_ms i). cbn in *. constructor; auto. }
  pose proof (span_app is_ms i) as Ha.
  destruct (span is_ms i) as [g r]. cbn in *. exists g. auto.
Qed.

Lemma transparent_skip_ms i : transparent i (skip_ms i).
Proof.
  destruct (skip_ms_split i) as (g & Hg & E). rewrite E at 1. now apply transparent_blanks.
Qed.

(* the first byte of i is a blank or '#', or nothing was skipped *)
Definition gap_start (i i' : list byte) : Prop :=
  i = i' \/ match i with b :: _ => is_ms b = true \/ b = 35 | [] => False end.

Lemma gap_start_skip_ms i : gap_start i (skip_ms i).
Proof.
  destruct (skip_ms_split i) as (g & Hg & E). destruct g as [|b g].
  - left. exact E.
  - right. rewrite E. cbn. inversion Hg; subst. auto.
Qed.

Lemma gap_start_trans a b c : gap_start a b -> gap_start b c -> gap_start a c.
Proof.
  intros [->|H1] H2; [exact H2|]. right. exact H1.
Qed.

(* ws: comments up to and including their end of line *)
Lemma skip_line_comment : forall r ts, LexR (skip_line r) ts -> LexR (skip_comment r) ts.
Proof.
  induction r as [|b r IH]; intros ts H; cbn [skip_line skip_comment] in *; [exact H|].
  destruct (b =? 10) eqn:E10; cbn [orb]; [exact H|].
  destruct (b =? 13) eqn:E13; cbn [orb].
  - destruct r as [|c r']; [exact H|]. destruct (c =? 10) eqn:Ec; [|exact H].
    nb. subst c. apply LR_blank; [reflexivity | exact H].
  - now apply IH.
Qed.

Lemma ws_step_transparent i : transparent i (ws_step i).
Proof.
  unfold ws_step. eapply transparent_trans; [apply transparent_skip_ms|].
  destruct (skip_ms i) as [|b r]; [apply transparent_refl|].
  destruct (b =? 35) eqn:E; [|apply transparent_refl].
  nb. subst b. intros ts H. apply LR_comment. now apply skip_line_comment.
Qed.

Lemma ws_step_gap_start i : gap_start i (ws_step i).
Proof.
  unfold ws_step. eapply gap_start_trans; [apply gap_start_skip_ms|].
  destruct (skip_ms i) as [|b r]; [left; reflexivity|].
  destruct (b =? 35) eqn:E; [|left; reflexivity]. nb. subst b. right. cbn. auto.
Qed.

Lemma ws_loop_inv : forall fuel i u i', ws_loop fuel i = (Ok u, i') -> transparent i i' /\ gap_start i i'.
Proof.
  induction fuel as [|fuel IH]; intros i u i' H; [discriminate|].
  rewrite ws_loop_unfold in H.
  destruct (Nat.eqb (length (ws_step i)) (length i)).
  - inversion H; subst. split; [apply ws_step_transparent | apply ws_step_gap_start].
  - destruct (IH _ _ _ H) as [H1 H2]. split.
    + eapply transparent_trans; [apply ws_step_transparent | exact H1].
    + eapply gap_start_trans; [apply ws_step_gap_start | exact H2].
Qed.

Lemma ws_inv i u i' : ws i = (Ok u, i') -> transparent i i' /\ gap_start i i'.
Proof. unfold ws. apply ws_loop_inv. Qed.

Lemma whitespace_only_inv i u i' : whitespace_only i = (Ok u, i') ->
  transparent i i' /\ gap_start i i' /\ nhd is_ms i'.
Proof.
  unfold whitespace_only. intros H. inversion H; subst. split; [apply transparent_skip_ms|].
  split; [apply gap_start_skip_ms|].
  unfold skip_ms. pose proof (span_stop is_ms i) as Hs. destruct (snd (span is_ms i)); [exact I | exact Hs].
Qed.

(* ------------------------------------------------------------------ inversion of the monad *)

Lemma bind_inv {A B} (p : parser A) (f : A -> parser B) i b i' :
  bind p f i = (Ok b, i') -> exists a i1, p i = (Ok a, i1) /\ f a i1 = (Ok b, i').
Proof.
  unfold bind. destruct (p i) as [[a| | |] i1]; intros H; try discriminate. eauto.
Qed.

Lemma alt2_inv {A} (p q : parser A) i x i' :
  alt2 p q i = (Ok x, i') -> p i = (Ok x, i') \/ ((exists j, p i = (Back, j)) /\ q i = (Ok x, i')).
Proof.
  unfold alt2. destruct (p i) as [[a| | |] i1]; intros H; try discriminate.
  - left. exact H.
  - right. split; eauto.
Qed.

Lemma pmap_inv {A B} (g : A -> B) (p : parser A) i y i' :
  pmap g p i = (Ok y, i') -> exists x, p i = (Ok x, i') /\ y = g x.
Proof.
  unfold pmap. intros H. apply bind_inv in H. destruct H as (a & i1 & H1 & H2).
  unfold ret in H2. inversion H2; subst. eauto.
Qed.

Lemma ret_inv {A} (a b : A) i i' : ret a i = (Ok b, i') -> b = a /\ i' = i.
Proof. unfold ret. intros H. inversion H. auto. Qed.

Lemma literal_inv p i u i' : literal p i = (Ok u, i') -> i = p ++ i'.
Proof.
  unfold literal. destruct (strip_prefix p i) as [r|] eqn:E; intros H; [|discriminate].
  inversion H; subst. now apply strip_prefix_app.
Qed.

Lemma try_literal_inv p i b i' : try_literal p i = (Ok b, i') ->
  (b = true /\ i = p ++ i') \/ (b = false /\ i' = i).
Proof.
  unfold try_literal. destruct (strip_prefix p i) as [r|] eqn:E; intros H; inversion H; subst.
  - left. split; [reflexivity | now apply strip_prefix_app].
  - right. auto.
Qed.

Tactic Notation "binv" hyp(H) "as" ident(a) ident(i1) ident(H1) :=
  apply bind_inv in H; destruct H as (a & i1 & H1 & H).

(* ------------------------------------------------------------------ names *)

Definition nowordc := nhd is_wordc.

Lemma span_inv f l a r : span f l = (a, r) ->
  l = a ++ r /\ Forall (fun c => f c = true) a /\ nhd f r.
Proof.
  revert a r. induction l as [|b l IH]; intros a r H; cbn in H.
  - inversion H; subst. repeat split; constructor.
  - destruct (f b) eqn:E.
    + destruct (span f l) as [a' r'] eqn:Es. inversion H; subst.
      destruct (IH a' r eq_refl) as (E1 & E2 & E3). subst l. repeat split; auto.
    + inversion H; subst. repeat split; [constructor | exact E].
Qed.

Lemma word_lex b w r ts :
  is_alpha b = true -> Forall (fun c => is_wordc c = true) w -> nowordc r ->
  LexR r ts -> LexR (b :: w ++ r) (KWord (b :: w) :: ts).
Proof.
  intros Hb Hw Hr H. eapply LR_word; [exact Hb | | exact H]. now apply span_all.
Qed.

Lemma alnum_wordc c : is_alnum c = true -> is_wordc c = true.
Proof. intros H. unfold is_wordc. now rewrite H. Qed.

(* type_name *)
Lemma type_name_inv i n i' : type_name i = (Ok n, i') ->
  i = n ++ i' /\ type_name_ok n = true.
Proof.
  unfold type_name. destruct i as [|b r]; [discriminate|]. destruct (is_upper b) eqn:Eb; [|discriminate].
  destruct (span is_alnum r) as [a r'] eqn:Es. unfold bytes_to_str.
  destruct (utf8_valid (b :: a)); intros H; inversion H; subst.
  destruct (span_inv _ _ _ _ Es) as (E1 & E2 & _). subst r. split; [reflexivity|].
  cbn. rewrite Eb. cbn. apply forallb_forall. intros x Hx. rewrite Forall_forall in E2. now apply E2.
Qed.

Lemma type_name_ok_word n : type_name_ok n = true ->
  exists b w, n = b :: w /\ is_alpha b = true /\ Forall (fun c => is_wordc c = true) w.
Proof.
  destruct n as [|b w]; cbn; [discriminate|]. intros H. apply andb_true_iff in H. destruct H as [Hb Hw].
  exists b, w. split; [reflexivity|]. split; [now apply upper_alpha|].
  apply Forall_forall. intros x Hx. rewrite forallb_forall in Hw. now apply alnum_wordc, Hw.
Qed.

(* field_name *)
Lemma field_tail_inv : forall n l a r, (length l <= n)%nat -> field_tail l = (a, r) ->
  l = a ++ r /\ field_tail_ok a = true.
Proof.
  induction n as [|n IH]; intros l a r Hl H.
  - destruct l; [|cbn in Hl; lia]. cbn in H. inversion H; subst. auto.
  - destruct l as [|b l]; [cbn in H; inversion H; subst; auto|].
    cbn [field_tail] in H. cbn [length] in Hl.
    destruct (is_alnum b) eqn:Eb.
    + destruct (field_tail l) as [a' r'] eqn:Et. inversion H; subst.
      destruct (IH l a' r ltac:(lia) Et) as [E1 E2]. subst l. split; [reflexivity|].
      cbn [field_tail_ok]. now rewrite Eb.
    + destruct (b =? 95) eqn:E95; [|inversion H; subst; auto].
      destruct l as [|c l2]; [inversion H; subst; auto|].
      destruct (is_alnum c) eqn:Ec; [|inversion H; subst; auto].
      destruct (field_tail l2) as [a' r'] eqn:Et. inversion H; subst.
      cbn [length] in Hl. destruct (IH l2 a' r ltac:(lia) Et) as [E1 E2]. subst l2. split; [reflexivity|].
      cbn [field_tail_ok]. rewrite Eb, E95, Ec. exact E2.
Qed.

Lemma field_name_inv i n i' : field_name i = (Ok n, i') -> i = n ++ i' /\ field_name_ok n = true.
Proof.
  unfold field_name. destruct i as [|b r]; [discriminate|]. destruct (is_alpha b) eqn:Eb; [|discriminate].
  destruct (field_tail r) as [a r'] eqn:Et. unfold bytes_to_str.
  destruct (utf8_valid (b :: a)); intros H; inversion H; subst.
  destruct (field_tail_inv (length r) r a i' (le_n _) Et) as [E1 E2]. subst r. split; [reflexivity|].
  cbn. now rewrite Eb.
Qed.

Lemma field_tail_ok_wordc : forall n l, (length l <= n)%nat -> field_tail_ok l = true ->
  Forall (fun c => is_wordc c = true) l.
Proof.
  induction n as [|n IH]; intros l Hl H.
  - destruct l; [constructor | cbn in Hl; lia].
  - destruct l as [|b l]; [constructor|]. cbn [field_tail_ok] in H. cbn [length] in Hl.
    destruct (is_alnum b) eqn:Eb.
    + constructor; [now apply alnum_wordc | apply IH; [lia | exact H]].
    + destruct (b =? 95) eqn:E95; [|discriminate]. destruct l as [|c l2]; [discriminate|].
      apply andb_true_iff in H. destruct H as [Hc H]. cbn [length] in Hl.
      constructor; [unfold is_wordc; rewrite E95; now rewrite !orb_true_r || (cbn; now rewrite orb_true_r)|].
      constructor; [now apply alnum_wordc | apply IH; [lia | exact H]].
Qed.

Lemma field_name_ok_word n : field_name_ok n = true ->
  exists b w, n = b :: w /\ is_alpha b = true /\ Forall (fun c => is_wordc c = true) w.
Proof.
  destruct n as [|b w]; cbn; [discriminate|]. intros H. apply andb_true_iff in H. destruct H as [Hb Hw].
  exists b, w. split; [reflexivity|]. split; [exact Hb|]. now apply (field_tail_ok_wordc (length w)).
Qed.

(* a name followed by a non-word byte lexes as one word *)
Lemma name_lex n r ts :
  (exists b w, n = b :: w /\ is_alpha b = true /\ Forall (fun c => is_wordc c = true) w) ->
  nowordc r -> LexR r ts -> LexR (n ++ r) (KWord n :: ts).
Proof. intros (b & w & -> & Hb & Hw) Hr H. cbn [app]. now apply word_lex. Qed.

(* what follows a gap does not continue a word, if something was skipped or the rest does not *)
Lemma gap_start_nowordc i i' : gap_start i i' -> nowordc i' -> nowordc i.
Proof.
  intros [->|H] Hr; [exact Hr|]. destruct i as [|b i]; [exact I|]. cbn.
  destruct H as [H| ->]; [|reflexivity].
  unfold is_ms in H. repeat (apply orb_true_iff in H; destruct H as [H|H]); nb; subst; reflexivity.
Qed.

Lemma nowordc_punct c r : (c = 40 \/ c = 41 \/ c = 44 \/ c = 58) -> nowordc (c :: r).
Proof. intros [H|[H|[H|H]]]; subst; reflexivity. Qed.

(* ------------------------------------------------------------------ comments *)

Definition noeol (c : byte) : bool := negb (c =? 10) && negb (c =? 13).

Lemma skip_comment_prefix p x : Forall (fun c => noeol c = true) p -> skip_comment (p ++ x) = skip_comment x.
Proof.
  induction 1 as [|c p Hc _ IH]; [reflexivity|]. cbn [app skip_comment].
  unfold noeol in Hc. apply andb_true_iff in Hc. destruct Hc as [H1 H2].
  apply negb_true_iff in H1. apply negb_true_iff in H2. now rewrite H1, H2.
Qed.

Lemma sp_tab_noeol c : is_sp_tab c = true -> noeol c = true.
Proof. unfold is_sp_tab. intros H. apply orb_true_iff in H. destruct H as [H|H]; nb; subst; reflexivity. Qed.

Lemma comment_def_inv i c i' : comment_def i = (Ok c, i') ->
  (forall ts, LexR (skip_ms i') ts -> LexR i ts) /\ exists r, i = 35 :: r.
Proof.
  unfold comment_def. intros H. binv H as u0 i0 H0. apply literal_inv in H0. bsnorm_in H0. cbn [app] in H0. subst i.
  binv H as u1 i1 H1. unfold skip_sp_tab in H1. inversion H1; subst u1 i1. clear H1.
  binv H as line i2 H2. unfold take_while0 in H2.
  destruct (span (fun c0 => negb (c0 =? 10) && negb (c0 =? 13)) (snd (span is_sp_tab i0))) as [line' rest] eqn:Es.
  inversion H2; subst line i2. clear H2.
  unfold bytes_to_str in H. destruct (utf8_valid line'); inversion H; subst c i'. clear H.
  destruct (span is_sp_tab i0) as [lead r1] eqn:El. cbn [snd] in Es.
  destruct (span_inv _ _ _ _ El) as (E1 & Hlead & _). destruct (span_inv _ _ _ _ Es) as (E2 & Hline & Hrest).
  subst i0 r1. split; [|eauto].
  rename rest into i'.
  intros ts Hts. apply LR_comment.
  rewrite skip_comment_prefix by (eapply Forall_impl; [|exact Hlead]; intros x Hx; now apply sp_tab_noeol).
  rewrite skip_comment_prefix by exact Hline.
  destruct i' as [|e r2]; [exact Hts|].
  cbn in Hrest. cbn [skip_comment].
  assert (He : (e =? 10) || (e =? 13) = true).
  { apply andb_false_iff in Hrest. destruct Hrest as [H|H]; apply negb_false_iff in H; rewrite H;
      [reflexivity | apply orb_true_r]. }
  rewrite He.
  assert (Hms : is_ms e = true).
  { unfold is_ms. apply orb_true_iff in He. destruct He as [He|He]; rewrite He; now rewrite ?orb_true_r. }
  rewrite skip_ms_cons_blank in Hts by exact Hms. now apply transparent_skip_ms.
Qed.

Lemma ppc_loop_inv : forall fuel i cs i', ppc_loop fuel i = (Ok cs, i') ->
  transparent i i' /\ gap_start i i'.
Proof.
  induction fuel as [|fuel IH]; intros i cs i' H; [discriminate|].
  destruct i as [|b0 i0]; [cbn in H; inversion H; subst; split; [apply transparent_refl | left; reflexivity]|].
  cbn [ppc_loop] in H. remember (b0 :: i0) as i eqn:Ei. clear Ei b0 i0.
  destruct (skip_ms i) as [|b1 i1'] eqn:E1.
  - inversion H; subst. split.
    + rewrite <- E1. apply transparent_skip_ms.
    + rewrite <- E1. apply gap_start_skip_ms.
  - remember (b1 :: i1') as i1 eqn:Ei1.
    destruct (comment_def i1) as [[c| | |] i2] eqn:Ec; try discriminate.
    + destruct (ppc_loop fuel (skip_ms i2)) as [[cs'| | |] i3] eqn:Er; try discriminate.
      inversion H; subst cs i3. clear H.
      destruct (IH _ _ _ Er) as [Ht _]. destruct (comment_def_inv _ _ _ Ec) as [Hc (r & Er1)].
      split.
      * intros ts Hts. apply (transparent_skip_ms i). rewrite E1. apply Hc. now apply Ht.
      * eapply gap_start_trans; [apply gap_start_skip_ms|]. rewrite E1, Er1. right. cbn. auto.
    + inversion H; subst. split; [apply transparent_refl | left; reflexivity].
Qed.

Lemma ppc_inv i cs i' : parse_preceding_comments i = (Ok cs, i') -> transparent i i' /\ gap_start i i'.
Proof. unfold parse_preceding_comments. apply ppc_loop_inv. Qed.

(* ------------------------------------------------------------------ separated lists *)

Lemma sep_loop_step {A B} fuel (elem : parser A) (sep : parser B) i l i' :
  sep_loop (S fuel) elem sep i = (Ok l, i') ->
  (l = [] /\ i' = i)
  \/ exists u i1 x i2 l', sep i = (Ok u, i1) /\ elem i1 = (Ok x, i2)
                          /\ sep_loop fuel elem sep i2 = (Ok l', i') /\ l = x :: l'.
Proof.
  cbn [sep_loop]. destruct (sep i) as [[u| | |] i1] eqn:Es; intros H; try discriminate.
  - destruct (Nat.eqb (length i1) (length i)); [discriminate|].
    destruct (elem i1) as [[x| | |] i2] eqn:Ee; try discriminate.
    + destruct (sep_loop fuel elem sep i2) as [[l'| | |] i3] eqn:Er; try discriminate.
      inversion H; subst. right. exists u, i1, x, i2, l'. auto.
    + inversion H; subst. left. auto.
  - inversion H; subst. left. auto.
Qed.

Lemma comma_sep_inv i u i' : comma_sep i = (Ok u, i') ->
  exists ia ib, transparent i ia /\ gap_start i ia /\ ia = 44 :: ib /\ transparent ib i'.
Proof.
  unfold comma_sep. intros H. binv H as u0 ia H0. destruct (ws_inv _ _ _ H0) as [T1 G1].
  binv H as u1 ib H1. apply literal_inv in H1. bsnorm_in H1. cbn [app] in H1.
  destruct (ws_inv _ _ _ H) as [T2 _]. exists ia, ib. auto.
Qed.

Lemma nowordc_comma_gap i ia ib : gap_start i ia -> ia = 44 :: ib -> nowordc i.
Proof. intros G ->. eapply gap_start_nowordc; [exact G | reflexivity]. Qed.

(* ------------------------------------------------------------------ types *)

Definition ty_sound (vt : parser ty) : Prop :=
  forall i t i', vt i = (Ok t, i') -> nowordc i' ->
    (forall ts, LexR i' ts -> LexR i (tokens_ty t ++ ts))
    /\ ty_names_ok t = true /\ ty_grammar_ok t = true.

Definition field_sound_ok (f : field) : Prop :=
  field_name_ok (fname f) = true /\ ty_names_ok (fty f) = true /\ ty_grammar_ok (fty f) = true.

Section TypeSound.
  Variable vt : parser ty.
  Hypothesis Hvt : ty_sound vt.

  Lemma field_p_inv i f i' : field_p vt i = (Ok f, i') -> nowordc i' ->
    (forall ts, LexR i' ts -> LexR i (tokens_field f ++ ts)) /\ field_sound_ok f.
  Proof.
    unfold field_p. intros H Hn. binv H as cs i0 H0. destruct (ppc_inv _ _ _ H0) as [T0 _].
    binv H as n i1 H1. destruct (field_name_inv _ _ _ H1) as [E1 Hname]. subst i0.
    binv H as u2 i2 H2. destruct (ws_inv _ _ _ H2) as [T2 G2].
    binv H as u3 i3 H3. apply literal_inv in H3. bsnorm_in H3. cbn [app] in H3.
    binv H as u4 i4 H4. destruct (ws_inv _ _ _ H4) as [T4 _].
    binv H as t i5 H5. apply ret_inv in H. destruct H as [-> ->].
    destruct (Hvt _ _ _ H5 Hn) as (L & N1 & N2).
    split; [|repeat split; assumption].
    intros ts Hts. apply T0. unfold tokens_field. cbn [fname fty app].
    apply name_lex; [now apply field_name_ok_word | |].
    - eapply gap_start_nowordc; [exact G2|]. rewrite H3. reflexivity.
    - apply T2. rewrite H3. apply LR_colon. apply T4. now apply L.
  Qed.

  Lemma sep_loop_fields_inv : forall fuel i l i',
    sep_loop fuel (field_p vt) comma_sep i = (Ok l, i') -> nowordc i' ->
    nowordc i
    /\ (forall ts, LexR i' ts -> LexR i (flat_map (fun f => KComma :: tokens_field f) l ++ ts))
    /\ Forall field_sound_ok l.
  Proof.
    induction fuel as [|fuel IH]; intros i l i' H Hn; [discriminate|].
    apply sep_loop_step in H. destruct H as [[-> ->] | (u & i1 & x & i2 & l' & Hs & He & Hr & ->)].
    - repeat split; auto.
    - destruct (IH _ _ _ Hr Hn) as (N2 & L2 & F2).
      destruct (comma_sep_inv _ _ _ Hs) as (ia & ib & Ta & Ga & Ea & Tb).
      destruct (field_p_inv _ _ _ He N2) as (Lx & Fx).
      split; [now apply (nowordc_comma_gap i ia ib)|]. split; [|constructor; assumption].
      intros ts Hts. cbn [flat_map]. rewrite <- app_assoc. cbn [app].
      apply Ta. rewrite Ea. apply LR_comma. apply Tb. apply Lx. now apply L2.
  Qed.

  Lemma sep_tokens_cons (x : list token) l :
    sep_tokens (x :: l) = x ++ flat_map (fun y => KComma :: y) l.
  Proof. reflexivity. Qed.

  Lemma struct_type_inv i t i' : struct_type vt i = (Ok t, i') ->
    (forall ts, LexR i' ts -> LexR i (tokens_ty t ++ ts))
    /\ ty_names_ok t = true /\ ty_grammar_ok t = true /\ is_topt t = false.
  Proof.
    unfold struct_type. intros H. binv H as u0 i0 H0. apply literal_inv in H0. bsnorm_in H0. cbn [app] in H0. subst i.
    binv H as u1 i1 H1. destruct (ws_inv _ _ _ H1) as [T1 _].
    binv H as fs i2 Hsep.
    binv H as u3 i3 H3. destruct (ws_inv _ _ _ H3) as [T3 G3].
    binv H as u4 i4 H2. apply literal_inv in H2. bsnorm_in H2. cbn [app] in H2.
    apply ret_inv in H. destruct H as [-> ->].
    assert (Hn2 : nowordc i2) by (eapply gap_start_nowordc; [exact G3|]; rewrite H2; reflexivity).
    unfold separated0 in Hsep.
    destruct (field_p vt i1) as [[x| | |] ix] eqn:Ef; try discriminate.
    - destruct (sep_loop (S (length ix)) (field_p vt) comma_sep ix) as [[l| | |] iy] eqn:El; try discriminate.
      inversion Hsep; subst fs iy. clear Hsep.
      destruct (sep_loop_fields_inv _ _ _ _ El Hn2) as (Nx & Ll & Fl).
      destruct (field_p_inv _ _ _ Ef Nx) as (Lx & Fx).
      split; [|split; [|split; [|reflexivity]]].
      + intros ts Hts. cbn [tokens_ty List.map]. rewrite sep_tokens_cons. rewrite flat_map_map.
        cbn [app]. apply LR_lparen. apply T1. rewrite <- !app_assoc. apply Lx. apply Ll.
        apply T3. rewrite H2. cbn [app]. now apply LR_rparen.
      + cbn [ty_names_ok]. apply forallb_forall. intros f Hf.
        assert (Hall : Forall field_sound_ok (x :: l)) by (constructor; assumption).
        rewrite Forall_forall in Hall. destruct (Hall f Hf) as (A1 & A2 & _). now rewrite A1, A2.
      + cbn [ty_grammar_ok]. apply forallb_forall. intros f Hf.
        assert (Hall : Forall field_sound_ok (x :: l)) by (constructor; assumption).
        rewrite Forall_forall in Hall. now destruct (Hall f Hf) as (_ & _ & A3).
    - inversion Hsep; subst fs i2. clear Hsep.
      split; [|auto].
      intros ts Hts. cbn [tokens_ty List.map sep_tokens app]. apply LR_lparen. apply T1.
      apply T3. rewrite H2. now apply LR_rparen.
  Qed.

  (* names of an inline enum *)
  Lemma sep_loop_names_inv : forall fuel i l i',
    sep_loop fuel field_name comma_sep i = (Ok l, i') -> nowordc i' ->
    nowordc i
    /\ (forall ts, LexR i' ts -> LexR i (flat_map (fun n => [KComma; W n]) l ++ ts))
    /\ forallb field_name_ok l = true.
  Proof.
    induction fuel as [|fuel IH]; intros i l i' H Hn; [discriminate|].
    apply sep_loop_step in H. destruct H as [[-> ->] | (u & i1 & x & i2 & l' & Hs & He & Hr & ->)].
    - repeat split; auto.
    - destruct (IH _ _ _ Hr Hn) as (N2 & L2 & F2).
      destruct (comma_sep_inv _ _ _ Hs) as (ia & ib & Ta & Ga & Ea & Tb).
      destruct (field_name_inv _ _ _ He) as [E1 Hname]. subst i1.
      split; [now apply (nowordc_comma_gap i ia ib)|]. split; [|cbn [forallb]; now rewrite Hname, F2].
      intros ts Hts. cbn [flat_map app].
      apply Ta. rewrite Ea. apply LR_comma. apply Tb.
      apply name_lex; [now apply field_name_ok_word | exact N2 | now apply L2].
  Qed.

  Lemma enum_type_inv i t i' : enum_type i = (Ok t, i') ->
    (forall ts, LexR i' ts -> LexR i (tokens_ty t ++ ts))
    /\ ty_names_ok t = true /\ ty_grammar_ok t = true /\ is_topt t = false.
  Proof.
    unfold enum_type. intros H. binv H as u0 i0 H0. apply literal_inv in H0. bsnorm_in H0. cbn [app] in H0. subst i.
    binv H as u1 i1 H1. destruct (ws_inv _ _ _ H1) as [T1 _].
    binv H as ns i2 Hsep.
    binv H as u3 i3 H3. destruct (ws_inv _ _ _ H3) as [T3 G3].
    binv H as u4 i4 H2. apply literal_inv in H2. bsnorm_in H2. cbn [app] in H2.
    apply ret_inv in H. destruct H as [-> ->].
    assert (Hn2 : nowordc i2) by (eapply gap_start_nowordc; [exact G3|]; rewrite H2; reflexivity).
    unfold separated1 in Hsep.
    destruct (field_name i1) as [[x| | |] ix] eqn:Ef; try discriminate.
    destruct (sep_loop (S (length ix)) field_name comma_sep ix) as [[l| | |] iy] eqn:El; try discriminate.
    inversion Hsep; subst ns iy. clear Hsep.
    destruct (sep_loop_names_inv _ _ _ _ El Hn2) as (Nx & Ll & Fl).
    destruct (field_name_inv _ _ _ Ef) as [E1 Hname]. subst i1.
    split; [|split; [|split; reflexivity]].
    - intros ts Hts. cbn [tokens_ty List.map]. rewrite List.map_map. cbn [vname List.map].
      rewrite sep_tokens_cons. rewrite flat_map_map. cbn [app]. apply LR_lparen. apply T1.
      apply name_lex; [now apply field_name_ok_word | exact Nx|].
      rewrite <- app_assoc.
      assert (Efm : flat_map (fun x0 : name => KComma :: [W x0]) l = flat_map (fun n => [KComma; W n]) l) by reflexivity.
      rewrite Efm. apply Ll. apply T3. rewrite H2. cbn [app]. now apply LR_rparen.
    - cbn [ty_names_ok]. unfold variant_names_ok. rewrite forallb_map_eq. cbn [vname].
      cbn [forallb]. apply andb_true_iff. split; [exact Hname | exact Fl].
  Qed.

  Lemma inline_type_inv i t i' : inline_type vt i = (Ok t, i') ->
    (forall ts, LexR i' ts -> LexR i (tokens_ty t ++ ts))
    /\ ty_names_ok t = true /\ ty_grammar_ok t = true /\ is_topt t = false.
  Proof.
    unfold inline_type. intros H. apply alt2_inv in H. destruct H as [H | [_ H]].
    - now apply struct_type_inv.
    - now apply enum_type_inv.
  Qed.

  Lemma prim_alt_inv : forall kws i p i', prim_alt kws i = (Ok p, i') ->
    exists k c, In (k, c) kws /\ i = k ++ i' /\ p = prim_of_code c.
  Proof.
    induction kws as [|[k c] kws IH]; intros i p i' H; cbn [prim_alt] in H; [discriminate|].
    assert (Hone : forall j q j', pmap (fun _ : unit => prim_of_code c) (literal k) j = (Ok q, j') ->
                                   j = k ++ j' /\ q = prim_of_code c).
    { intros j q j' Hp. apply pmap_inv in Hp. destruct Hp as (x & Hl & ->). apply literal_inv in Hl. auto. }
    destruct kws as [|kc kws'].
    - destruct (Hone _ _ _ H) as [E1 E2]. exists k, c. split; [left; reflexivity | auto].
    - apply alt2_inv in H. destruct H as [H | [_ H]].
      + destruct (Hone _ _ _ H) as [E1 E2]. exists k, c. split; [left; reflexivity | auto].
      + destruct (IH _ _ _ H) as (k' & c' & Hin & E1 & E2). exists k', c'. split; [right; exact Hin | auto].
  Qed.

  (* every translated primitive keyword is the Display text of its type and a lower-case word *)
  Lemma kw_prims_words : forall k c, In (k, c) kw_prims ->
    k = render_prim (prim_of_code c)
    /\ exists b w, k = b :: w /\ is_alpha b = true /\ Forall (fun x => is_wordc x = true) w.
  Proof.
    intros k c Hin. cbn in Hin.
    repeat (destruct Hin as [Hin|Hin]; [inversion Hin; subst; split; [reflexivity|];
      eexists; eexists; split; [reflexivity|]; split; [reflexivity | repeat constructor]|]).
    destruct Hin.
  Qed.

  Lemma primitive_type_inv i t i' : primitive_type i = (Ok t, i') -> nowordc i' ->
    (forall ts, LexR i' ts -> LexR i (tokens_ty t ++ ts))
    /\ ty_names_ok t = true /\ ty_grammar_ok t = true /\ is_topt t = false.
  Proof.
    unfold primitive_type. intros H Hn. apply pmap_inv in H. destruct H as (p & H & ->).
    destruct (prim_alt_inv _ _ _ _ H) as (k & c & Hin & E1 & E2). subst i p.
    destruct (kw_prims_words k c Hin) as (Ek & Hw).
    split; [|auto]. intros ts Hts. cbn [tokens_ty app]. rewrite <- Ek. unfold W. now apply name_lex.
  Qed.

  Lemma element_type_inv i t i' : element_type vt i = (Ok t, i') -> nowordc i' ->
    (forall ts, LexR i' ts -> LexR i (tokens_ty t ++ ts))
    /\ ty_names_ok t = true /\ ty_grammar_ok t = true /\ is_topt t = false.
  Proof.
    unfold element_type. intros H Hn. apply alt2_inv in H. destruct H as [H | [_ H]].
    - now apply primitive_type_inv.
    - apply alt2_inv in H. destruct H as [H | [_ H]].
      + apply pmap_inv in H. destruct H as (n & H & ->). destruct (type_name_inv _ _ _ H) as [E1 Hname]. subst i.
        split; [|auto]. intros ts Hts. cbn [tokens_ty app]. unfold W.
        apply name_lex; [now apply type_name_ok_word | exact Hn | exact Hts].
      + now apply inline_type_inv.
  Qed.

  Lemma prefixed_inv kw (c : ty -> ty) (tok : token) i t i' :
    (literal kw ;;; t0 <- vt ;; ret (c t0)) i = (Ok t, i') -> nowordc i' ->
    (forall l ts, LexR l ts -> LexR (kw ++ l) (tok :: ts)) ->
    exists t0, t = c t0 /\ (forall ts, LexR i' ts -> LexR i (tok :: tokens_ty t0 ++ ts))
               /\ ty_names_ok t0 = true /\ ty_grammar_ok t0 = true.
  Proof.
    intros H Hn Htok. binv H as u0 i0 H0. apply literal_inv in H0. subst i.
    binv H as t0 i1 H1. apply ret_inv in H. destruct H as [-> ->].
    destruct (Hvt _ _ _ H1 Hn) as (L & N1 & N2). exists t0.
    split; [reflexivity|]. split; [|split; assumption].
    intros ts Hts. apply Htok. now apply L.
  Qed.

  Lemma non_optional_type_inv i t i' : non_optional_type vt i = (Ok t, i') -> nowordc i' ->
    (forall ts, LexR i' ts -> LexR i (tokens_ty t ++ ts))
    /\ ty_names_ok t = true /\ ty_grammar_ok t = true /\ is_topt t = false.
  Proof.
    unfold non_optional_type. intros H Hn. apply alt2_inv in H. destruct H as [H | [_ H]].
    - unfold array_type in H.
      destruct (prefixed_inv kw_array TArr KArray _ _ _ H Hn LR_array) as (t0 & -> & L & N1 & N2). auto.
    - apply alt2_inv in H. destruct H as [H | [_ H]].
      + unfold map_type in H.
        destruct (prefixed_inv kw_map TMap KMap _ _ _ H Hn LR_map) as (t0 & -> & L & N1 & N2). auto.
      + now apply element_type_inv.
  Qed.

  Lemma optional_type_inv i t i' : optional_type vt i = (Ok t, i') -> nowordc i' ->
    (forall ts, LexR i' ts -> LexR i (tokens_ty t ++ ts))
    /\ ty_names_ok t = true /\ ty_grammar_ok t = true.
  Proof.
    unfold optional_type. intros H Hn. binv H as u0 i0 H0. apply literal_inv in H0. subst i.
    binv H as t0 i1 H1. apply ret_inv in H. destruct H as [-> ->].
    destruct (non_optional_type_inv _ _ _ H1 Hn) as (L & N1 & N2 & N3).
    split; [|split; [exact N1|]].
    - intros ts Hts. cbn [tokens_ty]. unfold kw_optional. cbn [app]. apply LR_question. now apply L.
    - cbn [ty_grammar_ok]. destruct t0; try discriminate; exact N2.
  Qed.

  Lemma varlink_type_body_sound : ty_sound (varlink_type_body vt).
  Proof.
    intros i t i' H Hn. unfold varlink_type_body in H.
    apply alt2_inv in H. destruct H as [H | [_ H]]; [now apply optional_type_inv|].
    change (alt2 (array_type vt) (alt2 (map_type vt) (element_type vt))) with (non_optional_type vt) in H.
    destruct (non_optional_type_inv _ _ _ H Hn) as (L & N1 & N2 & _). auto.
  Qed.
End TypeSound.

Lemma V_sound : forall fuel, ty_sound (varlink_type_f fuel).
Proof.
  induction fuel as [|fuel IH]; [intros i t i' H; discriminate|].
  cbn [varlink_type_f]. now apply varlink_type_body_sound.
Qed.

Lemma varlink_type_sound : ty_sound varlink_type.
Proof. intros i t i' H Hn. unfold varlink_type in H. now apply (V_sound _ _ _ _ H). Qed.

(* ------------------------------------------------------------------ entries of members *)

Definition etoks (x : field + variant) : list token :=
  match x with inl f => tokens_field f | inr v => [W (vname v)] end.
Definition eok (x : field + variant) : Prop :=
  match x with inl f => field_sound_ok f | inr v => field_name_ok (vname v) = true end.

Definition entry_sound (one : parser (field + variant)) (P : field + variant -> Prop) : Prop :=
  forall i x i', one i = (Ok x, i') -> nowordc i' ->
    (forall ts, LexR i' ts -> LexR i (etoks x ++ ts)) /\ eok x /\ P x.

Lemma sep_tokens_comma (a : list token) l :
  KComma :: sep_tokens (a :: l) = flat_map (fun y => KComma :: y) (a :: l).
Proof. reflexivity. Qed.

Lemma entries_loop_inv one P : entry_sound one P ->
  forall fuel i l i', entries_loop one fuel i = (Ok l, i') ->
    l <> [] /\ (forall ts, LexR i' ts -> LexR i (sep_tokens (List.map etoks l) ++ KRParen :: ts))
    /\ Forall eok l /\ Forall P l.
Proof.
  intros Hone. induction fuel as [|fuel IH]; intros i l i' H; [discriminate|].
  cbn [entries_loop] in H.
  binv H as x i1 H1. binv H as u2 i2 H2. destruct (whitespace_only_inv _ _ _ H2) as (T2 & G2 & _).
  binv H as comma i3 H3. apply try_literal_inv in H3. bsnorm_in H3.
  destruct H3 as [[-> E3] | [-> ->]].
  - cbn [app] in E3.
    binv H as u4 i4 H4. destruct (whitespace_only_inv _ _ _ H4) as (T4 & _ & _).
    binv H as l' i5 H5. apply ret_inv in H. destruct H as [-> ->].
    destruct (IH _ _ _ H5) as (Hne & L & F & FP).
    assert (Hn1 : nowordc i1) by (eapply gap_start_nowordc; [exact G2|]; rewrite E3; reflexivity).
    destruct (Hone _ _ _ H1 Hn1) as (Lx & Ex & Px).
    split; [discriminate|]. split; [|split; constructor; assumption].
    intros ts Hts. cbn [List.map]. rewrite sep_tokens_cons. rewrite <- app_assoc. apply Lx.
    apply T2. rewrite E3.
    destruct l' as [|y l'']; [congruence|]. cbn [List.map] in *.
    rewrite <- sep_tokens_comma. cbn [app]. apply LR_comma. apply T4. now apply L.
  - binv H as close i4 H4. apply try_literal_inv in H4. bsnorm_in H4.
    destruct H4 as [[-> E4] | [-> ->]]; [|discriminate].
    cbn [app] in E4. apply ret_inv in H. destruct H as [-> ->].
    assert (Hn1 : nowordc i1) by (eapply gap_start_nowordc; [exact G2|]; rewrite E4; reflexivity).
    destruct (Hone _ _ _ H1 Hn1) as (Lx & Ex & Px).
    split; [discriminate|]. split; [|split; repeat constructor; assumption].
    intros ts Hts. cbn [List.map sep_tokens flat_map]. rewrite app_nil_r. apply Lx.
    apply T2. rewrite E4. now apply LR_rparen.
Qed.

Definition is_inl (x : field + variant) : Prop := match x with inl _ => True | inr _ => False end.

Lemma param_entry_sound : entry_sound param_entry is_inl.
Proof.
  intros i x i' H Hn. unfold param_entry in H.
  binv H as cs i0 H0. destruct (ppc_inv _ _ _ H0) as [T0 _].
  binv H as n i1 H1. destruct (field_name_inv _ _ _ H1) as [E1 Hname]. subst i0.
  binv H as u2 i2 H2. destruct (ws_inv _ _ _ H2) as [T2 G2].
  binv H as u3 i3 H3. apply literal_inv in H3. bsnorm_in H3. cbn [app] in H3.
  binv H as u4 i4 H4. destruct (ws_inv _ _ _ H4) as [T4 _].
  binv H as t i5 H5. apply ret_inv in H. destruct H as [-> ->].
  destruct (varlink_type_sound _ _ _ H5 Hn) as (L & N1 & N2).
  split; [|split; [repeat split; assumption | exact I]].
  intros ts Hts. apply T0. cbn [etoks]. unfold tokens_field. cbn [fname fty app].
  apply name_lex; [now apply field_name_ok_word | |].
  - eapply gap_start_nowordc; [exact G2|]. rewrite H3. reflexivity.
  - apply T2. rewrite H3. apply LR_colon. apply T4. now apply L.
Qed.

Lemma typedef_entry_sound : entry_sound typedef_entry (fun _ => True).
Proof.
  intros i x i' H Hn. unfold typedef_entry in H.
  binv H as cs i0 H0. destruct (ppc_inv _ _ _ H0) as [T0 _].
  binv H as n i1 H1. destruct (field_name_inv _ _ _ H1) as [E1 Hname]. subst i0.
  binv H as u2 i2 H2. destruct (whitespace_only_inv _ _ _ H2) as (T2 & G2 & _).
  binv H as colon i3 H3. apply try_literal_inv in H3. bsnorm_in H3.
  destruct H3 as [[-> E3] | [-> ->]].
  - cbn [app] in E3.
    binv H as u4 i4 H4. destruct (whitespace_only_inv _ _ _ H4) as (T4 & _ & _).
    binv H as t i5 H5. apply ret_inv in H. destruct H as [-> ->].
    destruct (varlink_type_sound _ _ _ H5 Hn) as (L & N1 & N2).
    split; [|split; [repeat split; assumption | exact I]].
    intros ts Hts. apply T0. cbn [etoks]. unfold tokens_field. cbn [fname fty app].
    apply name_lex; [now apply field_name_ok_word | |].
    + eapply gap_start_nowordc; [exact G2|]. rewrite E3. reflexivity.
    + apply T2. rewrite E3. apply LR_colon. apply T4. now apply L.
  - apply ret_inv in H. destruct H as [-> ->].
    split; [|split; [exact Hname | exact I]].
    intros ts Hts. apply T0. cbn [etoks vname app]. unfold W.
    apply name_lex; [now apply field_name_ok_word | |].
    + eapply gap_start_nowordc; [exact G2 | exact Hn].
    + now apply T2.
Qed.

Lemma all_inl_map l : Forall is_inl l -> l = List.map inl (lefts l).
Proof.
  induction 1 as [|x l Hx _ IH]; [reflexivity|]. destruct x; [|destruct Hx]. cbn. now rewrite <- IH.
Qed.

Lemma rights_nil_inl {A B} (l : list (A + B)) : rights l = [] -> l = List.map inl (lefts l).
Proof.
  induction l as [|[a|b] l IH]; cbn; intros H; [reflexivity | now rewrite <- IH | discriminate].
Qed.

Lemma lefts_nil_inr {A B} (l : list (A + B)) : lefts l = [] -> l = List.map inr (rights l).
Proof.
  induction l as [|[a|b] l IH]; cbn; intros H; [reflexivity | discriminate | now rewrite <- IH].
Qed.

Lemma Forall_eok_inl fs : Forall eok (List.map inl fs) -> Forall field_sound_ok fs.
Proof. induction fs; intros H; inversion H; subst; constructor; auto. Qed.

Lemma Forall_eok_inr vs : Forall eok (List.map inr vs) -> forallb (fun v => field_name_ok (vname v)) vs = true.
Proof.
  induction vs as [|v vs IH]; intros H; [reflexivity|]. inversion H; subst. cbn in *.
  apply andb_true_iff. split; [assumption | now apply IH].
Qed.

(* parameter_list *)
Lemma parameter_list_inv i fs i' : parameter_list i = (Ok fs, i') ->
  (forall ts, LexR i' ts -> LexR i (tokens_fields fs ++ ts)) /\ Forall field_sound_ok fs
  /\ exists r, i = 40 :: r.
Proof.
  unfold parameter_list. intros H. binv H as u0 i0 H0. apply literal_inv in H0. bsnorm_in H0. cbn [app] in H0. subst i.
  binv H as u1 i1 H1. destruct (whitespace_only_inv _ _ _ H1) as (T1 & _ & _).
  binv H as close i2 H2. apply try_literal_inv in H2. bsnorm_in H2.
  destruct H2 as [[-> E2] | [-> ->]].
  - cbn [app] in E2. apply ret_inv in H. destruct H as [-> ->].
    split; [|split; [constructor | eauto]].
    intros ts Hts. unfold tokens_fields. cbn [List.map sep_tokens app]. apply LR_lparen. apply T1.
    rewrite E2. now apply LR_rparen.
  - unfold with_len in H. binv H as l i3 H3. apply ret_inv in H. destruct H as [-> ->].
    destruct (entries_loop_inv _ _ param_entry_sound _ _ _ _ H3) as (Hne & L & F & FP).
    pose proof (all_inl_map l FP) as El.
    split; [|split; [apply Forall_eok_inl; now rewrite <- El | eauto]].
    intros ts Hts. unfold tokens_fields. cbn [app]. apply LR_lparen. apply T1.
    rewrite <- app_assoc. cbn [app].
    assert (Em : List.map tokens_field (lefts l) = List.map etoks l).
    { rewrite El at 2. rewrite List.map_map. reflexivity. }
    rewrite Em. now apply L.
Qed.

(* take_while1 is_ms *)
Lemma multispace1_inv i a i' : multispace1 i = (Ok a, i') -> i = a ++ i' /\ blanks a /\ a <> [].
Proof.
  unfold multispace1, take_while1. destruct (span is_ms i) as [a0 r] eqn:Es.
  destruct a0 as [|b a0]; intros H; inversion H; subst.
  destruct (span_inv _ _ _ _ Es) as (E1 & E2 & _). repeat split; auto. discriminate.
Qed.

Lemma kw_word k : In k [kw_interface; kw_method; kw_error; kw_type] ->
  exists b w, k = b :: w /\ is_alpha b = true /\ Forall (fun x => is_wordc x = true) w.
Proof.
  intros H. cbn in H.
  repeat (destruct H as [H|H]; [subst; eexists; eexists; split; [reflexivity|]; split;
    [reflexivity | repeat constructor]|]).
  destruct H.
Qed.

Lemma blanks1_nowordc a r : blanks a -> a <> [] -> nowordc (a ++ r).
Proof.
  intros Ha Hne. destruct a as [|b a]; [congruence|]. cbn. inversion Ha as [|? ? Hb _]; subst.
  unfold is_ms in Hb. repeat (apply orb_true_iff in Hb; destruct Hb as [Hb|Hb]); nb; subst; reflexivity.
Qed.

(* keyword, blanks, name: the common head of the three member forms and of the interface *)
Lemma keyword_name_lex kw a n r ts :
  In kw [kw_interface; kw_method; kw_error; kw_type] -> blanks a -> a <> [] ->
  (exists b w, n = b :: w /\ is_alpha b = true /\ Forall (fun c => is_wordc c = true) w) ->
  nowordc r -> LexR r ts -> LexR (kw ++ a ++ n ++ r) (W kw :: W n :: ts).
Proof.
  intros Hkw Ha Hne Hn Hr Hts. unfold W.
  apply name_lex; [now apply kw_word | now apply blanks1_nowordc|].
  apply (transparent_blanks a); [exact Ha|]. now apply name_lex.
Qed.

(* ------------------------------------------------------------------ members *)

Definition custom_gram (c : custom) : bool :=
  match c with
  | CObject _ fs _ => forallb field_enums_ok fs
  | CEnum _ vs _ => match vs with [] => false | _ => true end
  end.
Definition mok (m : member) : bool :=
  match m with
  | MType c => custom_names_ok c && custom_gram c
  | MMethod m => method_names_ok m && (forallb field_enums_ok (minputs m) && forallb field_enums_ok (moutputs m))
  | MError e => error_names_ok e && forallb field_enums_ok (efields e)
  end.

Lemma fields_sound_bools fs : Forall field_sound_ok fs ->
  forallb field_names_ok fs = true /\ forallb field_enums_ok fs = true.
Proof.
  induction 1 as [|f fs (A1 & A2 & A3) _ [IH1 IH2]]; [auto|]. cbn [forallb].
  unfold field_names_ok at 1. unfold field_enums_ok at 1. rewrite A1, A2, A3, IH1, IH2. auto.
Qed.

Lemma method_def_inv i m i' : method_def i = (Ok m, i') ->
  (forall ts, LexR i' ts -> LexR i (tokens_method m ++ ts)) /\ mok (MMethod m) = true.
Proof.
  unfold method_def. intros H.
  binv H as cs i0 H0. destruct (ppc_inv _ _ _ H0) as [T0 _].
  binv H as u1 i1 H1. apply literal_inv in H1. subst i0.
  binv H as a i2 H2. destruct (multispace1_inv _ _ _ H2) as (E2 & Ha & Hane). subst i1.
  binv H as n i3 H3. destruct (type_name_inv _ _ _ H3) as [E3 Hname]. subst i2.
  binv H as u4 i4 H4. destruct (ws_inv _ _ _ H4) as [T4 G4].
  binv H as ins i5 H5. destruct (parameter_list_inv _ _ _ H5) as (L5 & F5 & (r5 & E5)).
  binv H as u6 i6 H6. destruct (ws_inv _ _ _ H6) as [T6 _].
  binv H as u7 i7 H7. apply literal_inv in H7. unfold kw_arrow in H7. cbn [app] in H7.
  binv H as u8 i8 H8. destruct (ws_inv _ _ _ H8) as [T8 _].
  binv H as outs i9 H9. destruct (parameter_list_inv _ _ _ H9) as (L9 & F9 & _).
  apply ret_inv in H. destruct H as [-> ->].
  destruct (fields_sound_bools _ F5) as [B51 B52]. destruct (fields_sound_bools _ F9) as [B91 B92].
  split.
  - intros ts Hts. apply T0. unfold tokens_method. cbn [mname minputs moutputs app].
    apply keyword_name_lex; [cbn; auto | exact Ha | exact Hane | now apply type_name_ok_word | |].
    + eapply gap_start_nowordc; [exact G4|]. rewrite E5. reflexivity.
    + apply T4. rewrite <- app_assoc. apply L5. apply T6. rewrite H7. cbn [app].
      apply LR_arrow. apply T8. now apply L9.
  - cbn [mok]. unfold method_names_ok. cbn [mname minputs moutputs]. now rewrite Hname, B51, B52, B91, B92.
Qed.

Lemma error_def_inv i e i' : error_def i = (Ok e, i') ->
  (forall ts, LexR i' ts -> LexR i (tokens_error e ++ ts)) /\ mok (MError e) = true.
Proof.
  unfold error_def. intros H.
  binv H as cs i0 H0. destruct (ppc_inv _ _ _ H0) as [T0 _].
  binv H as u1 i1 H1. apply literal_inv in H1. subst i0.
  binv H as a i2 H2. destruct (multispace1_inv _ _ _ H2) as (E2 & Ha & Hane). subst i1.
  binv H as n i3 H3. destruct (type_name_inv _ _ _ H3) as [E3 Hname]. subst i2.
  binv H as u4 i4 H4. destruct (ws_inv _ _ _ H4) as [T4 G4].
  binv H as ps i5 H5. destruct (parameter_list_inv _ _ _ H5) as (L5 & F5 & (r5 & E5)).
  apply ret_inv in H. destruct H as [-> ->].
  destruct (fields_sound_bools _ F5) as [B51 B52].
  split.
  - intros ts Hts. apply T0. unfold tokens_error. cbn [ename efields app].
    apply keyword_name_lex; [cbn; auto | exact Ha | exact Hane | now apply type_name_ok_word | |].
    + eapply gap_start_nowordc; [exact G4|]. rewrite E5. reflexivity.
    + apply T4. now apply L5.
  - cbn [mok]. unfold error_names_ok. cbn [ename efields]. now rewrite Hname, B51, B52.
Qed.

Lemma type_def_inv i c i' : type_def i = (Ok c, i') ->
  (forall ts, LexR i' ts -> LexR i (tokens_custom c ++ ts)) /\ mok (MType c) = true.
Proof.
  unfold type_def. intros H.
  binv H as cs i0 H0. destruct (ppc_inv _ _ _ H0) as [T0 _].
  binv H as u1 i1 H1. apply literal_inv in H1. subst i0.
  binv H as a i2 H2. destruct (multispace1_inv _ _ _ H2) as (E2 & Ha & Hane). subst i1.
  binv H as n i3 H3. destruct (type_name_inv _ _ _ H3) as [E3 Hname]. subst i2.
  binv H as u4 i4 H4. destruct (ws_inv _ _ _ H4) as [T4 G4].
  binv H as u5 i5 H5. apply literal_inv in H5. bsnorm_in H5. cbn [app] in H5.
  binv H as u6 i6 H6. destruct (whitespace_only_inv _ _ _ H6) as (T6 & _ & _).
  binv H as close i7 H7. apply try_literal_inv in H7. bsnorm_in H7.
  assert (Hhead : forall toks ts, LexR i5 (toks ++ ts) ->
            LexR i (W kw_type :: W n :: KLParen :: toks ++ ts)).
  { intros toks ts Hl. apply T0.
    apply keyword_name_lex; [cbn; auto | exact Ha | exact Hane | now apply type_name_ok_word | |].
    - eapply gap_start_nowordc; [exact G4|]. rewrite H5. reflexivity.
    - apply T4. rewrite H5. now apply LR_lparen. }
  destruct H7 as [[-> E7] | [-> ->]].
  - cbn [app] in E7. apply ret_inv in H. destruct H as [-> ->]. split.
    + intros ts Hts. cbn [tokens_custom]. unfold tokens_fields. cbn [List.map sep_tokens app].
      apply (Hhead [KRParen] ts). apply T6. rewrite E7. cbn [app]. now apply LR_rparen.
    + cbn [mok custom_names_ok custom_gram forallb]. now rewrite Hname.
  - unfold with_len in H. binv H as l i8 H8.
    destruct (entries_loop_inv _ _ typedef_entry_sound _ _ _ _ H8) as (Hne & L & F & _).
    cbn zeta in H.
    destruct (lefts l) as [|f0 fs0] eqn:Elefts.
    + (* enum *)
      cbn [andb] in H. apply ret_inv in H. destruct H as [-> ->].
      pose proof (lefts_nil_inr l Elefts) as El.
      assert (Hvs : rights l <> []) by (intros E; rewrite E in El; cbn in El; congruence).
      assert (Fv : forallb (fun v => field_name_ok (vname v)) (rights l) = true)
        by (apply Forall_eok_inr; now rewrite <- El).
      split.
      * intros ts Hts. cbn [tokens_custom].
        assert (Em : List.map (fun v : variant => [W (vname v)]) (rights l) = List.map etoks l).
        { rewrite El at 2. rewrite List.map_map. reflexivity. }
        rewrite Em.
        assert (Ea : forall X Y Z : list token, (X ++ Y) ++ Z = X ++ Y ++ Z) by (intros; now rewrite app_assoc).
        change (W kw_type :: W n :: KLParen :: sep_tokens (List.map etoks l) ++ [KRParen])
          with ([W kw_type; W n; KLParen] ++ sep_tokens (List.map etoks l) ++ [KRParen]).
        rewrite <- !app_assoc. cbn [app].
        apply (Hhead (sep_tokens (List.map etoks l)) (KRParen :: ts)).
        apply T6. now apply L.
      * cbn [mok custom_names_ok custom_gram]. unfold variant_names_ok. rewrite Hname, Fv.
        destruct (rights l); [congruence | reflexivity].
    + (* object *)
      destruct (rights l) as [|v0 vs0] eqn:Erights; [|cbn in H; discriminate].
      cbn [andb] in H. apply ret_inv in H. destruct H as [-> ->].
      pose proof (rights_nil_inl l Erights) as El. rewrite Elefts in El.
      assert (Ff : Forall field_sound_ok (f0 :: fs0)) by (apply Forall_eok_inl; now rewrite <- El).
      destruct (fields_sound_bools _ Ff) as [B1 B2].
      split.
      * intros ts Hts. cbn [tokens_custom]. unfold tokens_fields.
        assert (Em : List.map tokens_field (f0 :: fs0) = List.map etoks l).
        { rewrite El. rewrite List.map_map. reflexivity. }
        rewrite Em.
        change (W kw_type :: W n :: KLParen :: sep_tokens (List.map etoks l) ++ [KRParen])
          with ([W kw_type; W n; KLParen] ++ sep_tokens (List.map etoks l) ++ [KRParen]).
        rewrite <- !app_assoc. cbn [app].
        apply (Hhead (sep_tokens (List.map etoks l)) (KRParen :: ts)).
        apply T6. now apply L.
      * cbn [mok custom_names_ok custom_gram]. now rewrite Hname, B1, B2.
Qed.

Lemma member_p_inv i m i' : member_p i = (Ok m, i') ->
  (forall ts, LexR i' ts -> LexR i (tokens_member m ++ ts)) /\ mok m = true.
Proof.
  unfold member_p. intros H. apply alt2_inv in H. destruct H as [H | [_ H]].
  - apply pmap_inv in H. destruct H as (c & H & ->). now apply type_def_inv.
  - apply alt2_inv in H. destruct H as [H | [_ H]].
    + apply pmap_inv in H. destruct H as (x & H & ->). now apply method_def_inv.
    + apply pmap_inv in H. destruct H as (x & H & ->). now apply error_def_inv.
Qed.

(* ------------------------------------------------------------------ interface_name *)

Lemma strip_dashes_rev_inv : forall r back ar d, strip_dashes_rev r back = (ar, d) ->
  rev r ++ back = rev ar ++ d
  /\ (match ar with [] => True | c :: _ => (c =? 45) = false end)
  /\ (exists k, r = k ++ ar)
  /\ (back = [] -> match d with [] => True | c :: _ => c = 45 end).
Proof.
  induction r as [|b r IH]; intros back ar d H; cbn [strip_dashes_rev] in H.
  - inversion H; subst. repeat split; auto. + exists []. reflexivity. + intros ->. exact I.
  - destruct (b =? 45) eqn:E.
    + destruct (IH _ _ _ H) as (E1 & E2 & (k & E3) & E4). repeat split.
      * cbn [rev]. rewrite <- app_assoc. exact E1.
      * exact E2.
      * exists (b :: k). cbn. now rewrite E3.
      * intros _. clear - H E. nb. subst b.
        assert (Hd : forall r back ar d, strip_dashes_rev r back = (ar, d) ->
                       match back with [] => True | c :: _ => c = 45 end ->
                       match d with [] => True | c :: _ => c = 45 end).
        { induction r0 as [|x r0 IHr]; intros back0 ar0 d0 H0 Hb; cbn in H0.
          - inversion H0; subst. exact Hb.
          - destruct (x =? 45) eqn:Ex; [|inversion H0; subst; exact Hb].
            apply (IHr _ _ _ H0). nb. now subst x. }
        apply (Hd _ _ _ _ H). reflexivity.
    + inversion H; subst. repeat split; auto.
      * exists []. reflexivity.
      * intros ->. exact I.
Qed.

Lemma seg_tail_ok_intro : forall a, Forall (fun c => is_seg_char c = true) a ->
  (match rev a with [] => True | c :: _ => (c =? 45) = false end) -> seg_tail_ok a = true.
Proof.
  induction a as [|b a IH]; intros Ha Hl; [reflexivity|].
  inversion Ha as [|? ? Hb Ha']; subst. cbn [seg_tail_ok].
  assert (Hl' : a <> [] -> match rev a with [] => True | c :: _ => (c =? 45) = false end).
  { intros Hne. cbn [rev] in Hl. destruct (rev a) as [|c r] eqn:Er; [exact I|]. exact Hl. }
  destruct (is_alnum b) eqn:Eb.
  - destruct a as [|b2 a2]; [reflexivity|]. apply IH; [exact Ha' | apply Hl'; discriminate].
  - unfold is_seg_char in Hb. rewrite Eb in Hb. cbn [orb] in Hb. rewrite Hb.
    destruct a as [|b2 a2].
    + cbn in Hl. congruence.
    + apply IH; [exact Ha' | apply Hl'; discriminate].
Qed.

Lemma seg_char_not_alnum_dash c : is_seg_char c = false -> is_alnum c = false.
Proof. unfold is_seg_char. intros H. now apply orb_false_iff in H. Qed.

Lemma seg_body_inv l a r : seg_body l = (a, r) ->
  l = a ++ r /\ seg_tail_ok a = true /\ nhd is_alnum r.
Proof.
  unfold seg_body. destruct (span is_seg_char l) as [a0 rest0] eqn:Es.
  destruct (strip_dashes_rev (rev a0) []) as [ar d] eqn:Ed. intros H. inversion H; subst a r. clear H.
  destruct (span_inv _ _ _ _ Es) as (E1 & Hall & Hstop).
  destruct (strip_dashes_rev_inv _ _ _ _ Ed) as (E2 & Hhd & (k & E3) & Hd).
  rewrite rev_involutive, app_nil_r in E2.
  split; [|split].
  - subst l. rewrite E2. now rewrite <- app_assoc.
  - apply seg_tail_ok_intro.
    + apply Forall_rev. assert (Hsub : Forall (fun c => is_seg_char c = true) (rev a0)) by now apply Forall_rev.
      rewrite E3 in Hsub. rewrite Forall_app in Hsub. tauto.
    + rewrite rev_involutive. exact Hhd.
  - destruct d as [|c d].
    + cbn [app]. destruct rest0 as [|x rest0]; [exact I|]. cbn in *. now apply seg_char_not_alnum_dash.
    + specialize (Hd eq_refl). cbn in Hd. subst c. reflexivity.
Qed.

Lemma iname_segments_inv : forall fuel l fd more rest,
  iname_segments fuel l = (fd, more, rest) -> nhd is_alnum l ->
  l = more ++ rest /\ nhd is_alnum rest
  /\ exists ss, more = segs_text ss /\ forallb seg_ok ss = true /\ (fd = true -> ss <> []).
Proof.
  induction fuel as [|fuel IH]; intros l fd more rest H Hl; cbn [iname_segments] in H.
  - inversion H; subst. split; [reflexivity|]. split; [exact Hl|]. exists []. repeat split; auto. discriminate.
  - assert (Hstop : (fd, more, rest) = (false, [], l) ->
              l = more ++ rest /\ nhd is_alnum rest
              /\ exists ss, more = segs_text ss /\ forallb seg_ok ss = true /\ (fd = true -> ss <> [])).
    { intros E. inversion E; subst. split; [reflexivity|]. split; [exact Hl|]. exists []. repeat split; auto. discriminate. }
    destruct l as [|b r]; [apply Hstop; now rewrite H|].
    destruct (b =? 46) eqn:E46; [|apply Hstop; now rewrite H].
    destruct r as [|c r']; [apply Hstop; now rewrite H|].
    destruct (is_alnum c) eqn:Ec; [|apply Hstop; now rewrite H].
    destruct (seg_body r') as [a r''] eqn:Esb.
    destruct (iname_segments fuel r'') as [[fd' more'] rest'] eqn:Er.
    inversion H; subst fd more rest. clear H Hstop.
    destruct (seg_body_inv _ _ _ Esb) as (E1 & Hseg & Hn).
    destruct (IH _ _ _ _ Er Hn) as (E2 & Hn' & ss & Ess & Hss & _).
    nb. subst b. split; [|split; [exact Hn'|]].
    + cbn. rewrite <- app_assoc. now rewrite <- E2, <- E1.
    + exists ((c :: a) :: ss). split; [|split; [|discriminate]].
      * cbn [segs_text flat_map]. fold (segs_text ss). rewrite Ess. cbn [app]. reflexivity.
      * cbn [forallb seg_ok]. now rewrite Ec, Hseg, Hss.
Qed.

Lemma split_dots_nodot : forall s l cur, Forall (fun c => (c =? 46) = false) s ->
  split_dots (s ++ l) cur = split_dots l (rev s ++ cur).
Proof.
  induction s as [|c s IH]; intros l cur H; [reflexivity|]. inversion H as [|? ? Hc Hs]; subst.
  cbn [app split_dots]. rewrite Hc. rewrite IH by exact Hs. cbn [rev]. now rewrite <- app_assoc.
Qed.

Definition nodots (s : list byte) : Prop := Forall (fun c => (c =? 46) = false) s.

Lemma split_dots_segs : forall ss cur, Forall nodots ss ->
  split_dots (segs_text ss) cur = rev cur :: ss.
Proof.
  induction ss as [|s ss IH]; intros cur H; [reflexivity|]. inversion H as [|? ? Hs Hss]; subst.
  cbn [segs_text flat_map]. fold (segs_text ss). cbn [app split_dots]. change (46 =? 46) with true. cbv iota.
  rewrite split_dots_nodot by exact Hs. rewrite IH by exact Hss. rewrite app_nil_r. now rewrite rev_involutive.
Qed.

Lemma seg_chars_nodots a : Forall (fun c => is_seg_char c = true) a -> nodots a.
Proof.
  intros H. eapply Forall_impl; [|exact H]. intros c Hc. apply N.eqb_neq. intros ->. discriminate.
Qed.

Lemma seg_ok_nodots s : seg_ok s = true -> nodots s.
Proof.
  destruct s as [|c l]; [constructor|]. cbn [seg_ok]. intros H. apply andb_true_iff in H. destruct H as [Hc Hl].
  constructor; [apply N.eqb_neq; intros ->; discriminate | apply seg_chars_nodots; now apply seg_tail_chars].
Qed.

Lemma interface_name_ok_intro b a ss :
  is_alpha b = true -> seg_tail_ok a = true -> ss <> [] -> forallb seg_ok ss = true ->
  interface_name_ok ((b :: a) ++ segs_text ss) = true.
Proof.
  intros Hb Ha Hne Hss. unfold interface_name_ok.
  rewrite split_dots_nodot.
  2:{ constructor; [apply N.eqb_neq; intros ->; discriminate | apply seg_chars_nodots; now apply seg_tail_chars]. }
  rewrite split_dots_segs.
  2:{ apply Forall_forall. intros s Hs. rewrite forallb_forall in Hss. now apply seg_ok_nodots, Hss. }
  rewrite app_nil_r, rev_involutive. destruct ss as [|s ss]; [congruence|].
  rewrite Hb, Ha. cbn [andb]. exact Hss.
Qed.

Lemma interface_name_inv i n i' : interface_name i = (Ok n, i') ->
  i = n ++ i' /\ interface_name_ok n = true /\ nhd is_alnum i'.
Proof.
  unfold interface_name. destruct i as [|b r]; [discriminate|]. destruct (is_alpha b) eqn:Eb; [|discriminate].
  destruct (seg_body r) as [a r1] eqn:Esb.
  destruct (iname_segments (S (length r1)) r1) as [[fd more] rest] eqn:Er.
  destruct fd; [|discriminate]. unfold bytes_to_str.
  destruct (utf8_valid (b :: a ++ more)); intros H; inversion H; subst n i'. clear H.
  destruct (seg_body_inv _ _ _ Esb) as (E1 & Hseg & Hn).
  destruct (iname_segments_inv _ _ _ _ _ Er Hn) as (E2 & Hn' & ss & Ess & Hss & Hne).
  split; [|split; [|exact Hn']].
  - subst r r1. cbn. now rewrite <- app_assoc.
  - rewrite Ess. rewrite app_comm_cons. apply interface_name_ok_intro; auto.
Qed.

Lemma interface_name_ok_word n : interface_name_ok n = true ->
  exists b w, n = b :: w /\ is_alpha b = true /\ Forall (fun c => is_wordc c = true) w.
Proof.
  intros H. destruct (interface_name_ok_decomp n H) as (b & l & ss & -> & Hb & Hl & _ & Hss).
  exists b, (l ++ segs_text ss). split; [reflexivity|]. split; [exact Hb|].
  apply Forall_app. split.
  - eapply Forall_impl; [|apply seg_tail_chars; exact Hl]. intros c Hc. unfold is_seg_char in Hc. unfold is_wordc.
    apply orb_true_iff in Hc. destruct Hc as [Hc|Hc]; rewrite Hc; now rewrite ?orb_true_r.
  - clear - Hss. induction ss as [|s ss IH]; [constructor|].
    cbn [forallb] in Hss. apply andb_true_iff in Hss. destruct Hss as [Hs Hss].
    cbn [segs_text flat_map]. fold (segs_text ss). constructor; [reflexivity|].
    apply Forall_app. split; [|now apply IH].
    destruct s as [|c l]; [constructor|]. cbn [seg_ok] in Hs. apply andb_true_iff in Hs. destruct Hs as [Hc Hl].
    constructor; [now apply alnum_wordc|].
    eapply Forall_impl; [|apply seg_tail_chars; exact Hl]. intros x Hx. unfold is_seg_char in Hx. unfold is_wordc.
    apply orb_true_iff in Hx. destruct Hx as [Hx|Hx]; rewrite Hx; now rewrite ?orb_true_r.
Qed.

(* ------------------------------------------------------------------ members loop, interface *)

(* the first byte of a member text: blank, '#' or the keyword's letter *)
Definition hd_class (i : list byte) : Prop :=
  match i with [] => True | b :: _ => is_ms b = true \/ b = 35 \/ is_alpha b = true end.

Lemma gap_start_hd_class i i0 : gap_start i i0 -> hd_class i0 -> hd_class i.
Proof.
  intros [->|H] H0; [exact H0|]. destruct i as [|b i]; [exact I|]. cbn. tauto.
Qed.

Lemma member_head i cs i0 kw i1 u :
  parse_preceding_comments i = (Ok cs, i0) -> literal kw i0 = (Ok u, i1) ->
  In kw [kw_interface; kw_method; kw_error; kw_type] -> hd_class i.
Proof.
  intros Hp Hl Hkw. destruct (ppc_inv _ _ _ Hp) as [_ G]. apply literal_inv in Hl.
  eapply gap_start_hd_class; [exact G|]. subst i0.
  destruct (kw_word kw Hkw) as (b & w & -> & Hb & _). cbn. auto.
Qed.

Lemma member_p_hd i m i' : member_p i = (Ok m, i') -> hd_class i.
Proof.
  unfold member_p. intros H. apply alt2_inv in H. destruct H as [H | [_ H]].
  - apply pmap_inv in H. destruct H as (c & H & _). unfold type_def in H.
    binv H as cs i0 H0. binv H as u1 i1 H1. eapply member_head; eauto. cbn; auto.
  - apply alt2_inv in H. destruct H as [H | [_ H]].
    + apply pmap_inv in H. destruct H as (x & H & _). unfold method_def in H.
      binv H as cs i0 H0. binv H as u1 i1 H1. eapply member_head; eauto. cbn; auto.
    + apply pmap_inv in H. destruct H as (x & H & _). unfold error_def in H.
      binv H as cs i0 H0. binv H as u1 i1 H1. eapply member_head; eauto. cbn; auto.
Qed.

Lemma members_loop_inv : forall fuel i ms i', members_loop fuel i = (Ok ms, i') ->
  (forall ts, LexR i' ts -> LexR i (flat_map tokens_member ms ++ ts))
  /\ forallb mok ms = true
  /\ (hd_class i \/ (ms = [] /\ i' = i)).
Proof.
  induction fuel as [|fuel IH]; intros i ms i' H; [discriminate|].
  destruct i as [|b0 i0]; [cbn in H; inversion H; subst; repeat split; auto; left; exact I|].
  cbn [members_loop] in H. remember (b0 :: i0) as i eqn:Ei.
  destruct (skip_ms i) as [|b1 i1'] eqn:E1.
  - inversion H; subst ms i'. split; [|split; [reflexivity|]].
    + intros ts Hts. cbn [flat_map app]. apply (transparent_skip_ms i). now rewrite E1.
    + left. pose proof (gap_start_skip_ms i) as G. rewrite E1 in G. destruct G as [G|G]; [congruence|].
      rewrite Ei in G |- *. cbn in *. tauto.
  - remember (b1 :: i1') as i1 eqn:Ei1.
    assert (Hhd1 : hd_class i1 -> hd_class i).
    { intros Hc. pose proof (gap_start_skip_ms i) as G. rewrite E1 in G. eapply gap_start_hd_class; eauto. }
    destruct (member_p i1) as [[m| | |] i2] eqn:Em; try discriminate.
    + destruct (members_loop fuel i2) as [[ms'| | |] i3] eqn:Er; try discriminate.
      inversion H; subst ms i3. clear H.
      destruct (IH _ _ _ Er) as (L & F & _). destruct (member_p_inv _ _ _ Em) as (Lm & Fm).
      split; [|split; [cbn [forallb]; now rewrite Fm, F | left; apply Hhd1; eapply member_p_hd; eauto]].
      intros ts Hts. cbn [flat_map]. rewrite <- app_assoc.
      apply (transparent_skip_ms i). rewrite E1. apply Lm. now apply L.
    + inversion H; subst ms i'. clear H. split; [|split; [reflexivity|]].
      * intros ts Hts. cbn [flat_map app]. apply (transparent_skip_ms i). now rewrite E1.
      * pose proof (gap_start_skip_ms i) as G. rewrite E1 in G. destruct G as [G|G].
        -- right. split; [reflexivity | now rewrite G].
        -- left. rewrite Ei in G |- *. cbn in *. tauto.
Qed.

Lemma hd_class_not_alnum_nowordc i : hd_class i -> nhd is_alnum i -> nowordc i.
Proof.
  destruct i as [|b i]; [auto|]. cbn. intros [H|[H|H]] Hn.
  - unfold is_ms in H. repeat (apply orb_true_iff in H; destruct H as [H|H]); nb; subst; reflexivity.
  - subst. reflexivity.
  - unfold is_alnum in Hn. rewrite H in Hn. discriminate.
Qed.

Lemma gap_to_nil_hd_class i : gap_start i [] -> hd_class i.
Proof. intros [->|H]; [exact I|]. destruct i as [|b i]; [exact I|]. cbn. tauto. Qed.

(* names and shapes of the partitioned tree *)
Lemma names_of_members n cs ms :
  interface_name_ok n = true -> forallb mok ms = true ->
  names_ok (interface_of n cs ms) = true /\ enums_ok (interface_of n cs ms) = true.
Proof.
  intros Hn Hms. unfold names_ok, enums_ok, interface_of. cbn [iname itypes imethods ierrors]. rewrite Hn. cbn [andb].
  induction ms as [|m ms IH]; [split; reflexivity|].
  cbn [forallb] in Hms. apply andb_true_iff in Hms. destruct Hms as [Hm Hms].
  destruct (IH Hms) as [IH1 IH2]. clear IH.
  apply andb_true_iff in IH1. destruct IH1 as [IH1 IHe]. apply andb_true_iff in IH1. destruct IH1 as [IHt IHm].
  apply andb_true_iff in IH2. destruct IH2 as [IH2 IHe2]. apply andb_true_iff in IH2. destruct IH2 as [IHt2 IHm2].
  destruct m as [c | m | e]; cbn [mok] in Hm; apply andb_true_iff in Hm; destruct Hm as [Hm1 Hm2];
    cbn [mem_types mem_methods mem_errors forallb].
  - rewrite Hm1, IHt, IHm, IHe. split; [reflexivity|].
    assert (Hc : (match c with
                  | CObject _ fs _ => forallb field_enums_ok fs
                  | CEnum _ vs _ => match vs with [] => false | _ :: _ => true end
                  end) = true) by (destruct c; exact Hm2).
    rewrite Hc, IHt2, IHm2, IHe2. reflexivity.
  - rewrite Hm1, IHt, IHm, IHe. split; [reflexivity|]. rewrite Hm2, IHt2, IHm2, IHe2. reflexivity.
  - rewrite Hm1, IHt, IHm, IHe. split; [reflexivity|]. rewrite Hm2, IHt2, IHm2, IHe2. reflexivity.
Qed.

Lemma interface_def_inv i t i' : interface_def i = (Ok t, i') -> transparent i' [] ->
  gap_start i' [] ->
  exists n cs ms, t = interface_of n cs ms
    /\ LexR i (tokens_of_members n ms)
    /\ interface_name_ok n = true /\ forallb mok ms = true.
Proof.
  unfold interface_def. intros H Tend Gend.
  binv H as cs i0 H0. destruct (ppc_inv _ _ _ H0) as [T0 _].
  binv H as u1 i1 H1. apply literal_inv in H1. subst i0.
  binv H as a i2 H2. destruct (multispace1_inv _ _ _ H2) as (E2 & Ha & Hane). subst i1.
  binv H as n i3 H3. destruct (interface_name_inv _ _ _ H3) as (E3 & Hname & Hnal). subst i2.
  binv H as u4 i4 H4. destruct (whitespace_only_inv _ _ _ H4) as (T4 & G4 & _).
  unfold with_len in H. binv H as ms i5 H5. apply ret_inv in H. destruct H as [-> ->].
  destruct (members_loop_inv _ _ _ _ H5) as (L & F & Hcls).
  exists n, cs, ms. split; [reflexivity|]. split; [|split; assumption].
  assert (Hc4 : hd_class i4).
  { destruct Hcls as [Hc | [-> ->]]; [exact Hc | now apply gap_to_nil_hd_class]. }
  assert (Hn3 : nowordc i3).
  { apply hd_class_not_alnum_nowordc; [|exact Hnal]. eapply gap_start_hd_class; [exact G4 | exact Hc4]. }
  apply T0. unfold tokens_of_members.
  apply keyword_name_lex; [cbn; auto | exact Ha | exact Hane | now apply interface_name_ok_word | exact Hn3|].
  apply T4. rewrite <- (app_nil_r (flat_map tokens_member ms)). apply L. apply Tend. constructor.
Qed.

(* ------------------------------------------------------------------ C13_sound *)

Theorem parse_sound s t : parse_interface s = Accept t ->
  exists ms, t = interface_of (iname t) (icomments t) ms
    /\ lex (trim s) = Some (tokens_of_members (iname t) ms)
    /\ names_ok t = true /\ enums_ok t = true.
Proof.
  unfold parse_interface. destruct (trim s) as [|b0 i0] eqn:Et; [discriminate|].
  remember (b0 :: i0) as i eqn:Ei.
  destruct (interface_def i) as [[t'| | |] i1] eqn:Ed; try discriminate.
  destruct (ws i1) as [[u| | |] i2] eqn:Ew; try discriminate;
    destruct i2; try discriminate; intros H; inversion H; subst t'; clear H.
  - destruct (ws_inv _ _ _ Ew) as [Tend Gend].
    destruct (interface_def_inv _ _ _ Ed Tend Gend) as (n & cs & ms & Et' & Hlex & Hn & Hms).
    exists ms. subst t. cbn [iname icomments interface_of]. split; [reflexivity|].
    split; [now apply LexR_lex|]. now apply names_of_members.
  - (* ws never fails: the Back case does not arise, but it is harmless *)
    exfalso. unfold ws in Ew.
    assert (Hnb : forall fuel j r, ws_loop fuel j <> (Back, r)).
    { induction fuel as [|fuel IHf]; intros j r; [discriminate|]. rewrite ws_loop_unfold.
      destruct (Nat.eqb (length (ws_step j)) (length j)); [discriminate | apply IHf]. }
    exact (Hnb _ _ _ Ew).
Qed.

(* ------------------------------------------------------------------ the executable form used by the check *)

Lemma bytes_beq_refl l : bytes_beq l l = true.
Proof. unfold bytes_beq. induction l as [|b l IH]; cbn; [reflexivity|]. now rewrite N.eqb_refl, IH. Qed.

Lemma token_beq_refl t : token_beq t t = true.
Proof. destruct t; cbn; auto. apply bytes_beq_refl. Qed.

Lemma strip_tokens_app p r : strip_tokens p (p ++ r) = Some r.
Proof. induction p as [|a p IH]; cbn; [reflexivity|]. now rewrite token_beq_refl, IH. Qed.

Lemma tokens_member_length m : (2 <= length (tokens_member m))%nat.
Proof. destruct m as [[n fs cs | n vs cs] | m | e]; cbn; lia. Qed.

Lemma match_members_ok : forall ms fuel,
  (length ms < fuel)%nat ->
  match_members fuel (flat_map tokens_member ms) (mem_types ms) (mem_methods ms) (mem_errors ms) = true.
Proof.
  induction ms as [|m ms IH]; intros fuel Hf; (destruct fuel as [|fuel]; [lia|]).
  - reflexivity.
  - cbn [length] in Hf. cbn [flat_map]. destruct m as [c | m | e]; cbn [mem_types mem_methods mem_errors].
    + destruct c as [n fs cs | n vs cs]; cbn [match_members tokens_member]; unfold tokens_custom at 1; cbn [app];
        unfold W at 1; cbv iota; rewrite bytes_beq_refl; rewrite strip_tokens_app; apply IH; lia.
    + cbn [match_members tokens_member]. unfold tokens_method at 1. cbn [app]. unfold W at 1. cbv iota.
      change (bytes_beq kw_method kw_type) with false. cbv iota. rewrite bytes_beq_refl.
      rewrite strip_tokens_app. apply IH. lia.
    + cbn [match_members tokens_member]. unfold tokens_error at 1. cbn [app]. unfold W at 1. cbv iota.
      change (bytes_beq kw_error kw_type) with false. change (bytes_beq kw_error kw_method) with false. cbv iota.
      rewrite bytes_beq_refl. rewrite strip_tokens_app. apply IH. lia.
Qed.

Lemma flat_map_length_ge ms : (length ms <= length (flat_map tokens_member ms))%nat.
Proof.
  induction ms as [|m ms IH]; cbn [flat_map length]; [lia|]. rewrite app_length.
  pose proof (tokens_member_length m). lia.
Qed.

Theorem parse_sound_exec s t : parse_interface s = Accept t -> sound_accept s t = true.
Proof.
  intros H. destruct (parse_sound s t H) as (ms & Et & Hlex & Hn & He).
  unfold sound_accept, denotes. rewrite Hlex, Hn, He. unfold tokens_of_members.
  unfold W. cbv iota. rewrite !bytes_beq_refl. cbn [andb]. rewrite !andb_true_r.
  rewrite Et. cbn [itypes imethods ierrors interface_of].
  apply match_members_ok. pose proof (flat_map_length_ge ms). lia.
Qed.
