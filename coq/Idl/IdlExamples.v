(* Concrete texts and trees used by the non-vacuity examples of C13 / C14. *)
From Coq Require Import Ascii String.
From ZV Require Import Common.Base gen.IdlKeywords Idl.Idl Idl.IdlParse.
Local Open Scope N_scope.

Definition LF : string := String (ascii_of_nat 10) EmptyString.
Local Open Scope string_scope.

(* the official org.varlink.service description (zlink-core/src/idl/interface.rs tests) *)
Definition org_varlink_service_text : list byte := bs (
  "interface org.varlink.service" ++ LF ++ LF ++
  "method GetInfo() -> (" ++ LF ++
  "  vendor: string," ++ LF ++
  "  product: string," ++ LF ++
  "  version: string," ++ LF ++
  "  url: string," ++ LF ++
  "  interfaces: []string" ++ LF ++
  ")" ++ LF ++ LF ++
  "method GetInterfaceDescription(interface: string) -> (description: string)" ++ LF ++ LF ++
  "error InterfaceNotFound (interface: string)" ++ LF ++ LF ++
  "error MethodNotFound (method: string)" ++ LF ++ LF ++
  "error MethodNotImplemented (method: string)" ++ LF ++ LF ++
  "error InvalidParameter (parameter: string)" ++ LF ++ LF ++
  "error PermissionDenied ()" ++ LF ++ LF ++
  "error ExpectedMore ()" ++ LF).

Definition F (n : string) (t : ty) : field := mkField (bs n) t [].
Definition S_ := TPrim PString.

Definition org_varlink_service : interface :=
  mkInterface (bs "org.varlink.service")
    [ mkMethod (bs "GetInfo") []
        [F "vendor" S_; F "product" S_; F "version" S_; F "url" S_; F "interfaces" (TArr S_)] [];
      mkMethod (bs "GetInterfaceDescription") [F "interface" S_] [F "description" S_] [] ]
    []
    [ mkError (bs "InterfaceNotFound") [F "interface" S_] [];
      mkError (bs "MethodNotFound") [F "method" S_] [];
      mkError (bs "MethodNotImplemented") [F "method" S_] [];
      mkError (bs "InvalidParameter") [F "parameter" S_] [];
      mkError (bs "PermissionDenied") [] [];
      mkError (bs "ExpectedMore") [] [] ]
    [].

(* a description using every type constructor and every comment placement *)
Definition sample_tree : interface :=
  mkInterface (bs "org.example.sample")
    [ mkMethod (bs "Get")
        [mkField (bs "key") (TOpt (TArr (TMap (TCustom (bs "Item"))))) [bs "the key"; bs "second line: with (punctuation), and #"]]
        [F "value" (TStruct [F "a" (TPrim PInt); F "b" (TEnum [mkVariant (bs "x") []; mkVariant (bs "y_z") []]);
                              F "c" (TStruct [])]);
         F "more" (TPrim PBool)]
        [bs "a method"] ]
    [ CObject (bs "Item") [mkField (bs "f_1") (TPrim PFloat) [bs "doc"]; F "o" (TPrim PObject)] [bs "an object"];
      CEnum (bs "Color") [mkVariant (bs "red") []; mkVariant (bs "green") []] [bs "an enum"];
      CEnum (bs "One") [mkVariant (bs "only") [bs "single commented variant"]] [];
      CObject (bs "Empty") [] [] ]
    [ mkError (bs "Failed") [mkField (bs "reason") (TPrim PString) [bs "why"]] [bs "an error"] ]
    [bs "top comment"; bs ""].

(* the smallest member of the open finding C14.commented_enum_variant (custom_enum.rs tests) *)
Definition commented_enum_tree : interface :=
  mkInterface (bs "a.b") []
    [ CEnum (bs "Status") [mkVariant (bs "active") [bs "The active state"]; mkVariant (bs "inactive") []] [] ]
    [] [].

(* comments as the derive macros produce them from doc comments *)
Definition derive_tree : interface :=
  mkInterface (bs "org.example.derived")
    [ mkMethod (bs "Get") [mkField (bs "key") (TPrim PString) [bs " The key."; bs ""; bs "   indented"]] []
        [bs " Gets a value."; bs " "; bs " Second paragraph: with ""quotes"" and a \\ backslash."] ]
    [ CEnum (bs "One") [mkVariant (bs "only") [bs " The only variant."]] [bs " An enum."] ]
    [ mkError (bs "Failed") [] [bs " It failed."] ]
    [bs " Interface docs."].
