(* Safety of the IDL parser model: on every valid UTF-8 input no function panics, none runs out
   of fuel, the remaining input never grows and stays valid UTF-8 (C13_no_panic, C13_terminates). *)
From Coq Require Import Ascii String.
From ZV Require Import Common.Base gen.IdlKeywords Idl.Idl Idl.IdlParse Idl.Utf8.
Local Open Scope N_scope.

Definition valid (i : list byte) : Prop := utf8_valid i = true.

(* postcondition of running a parser on input i: s = true additionally demands progress on Ok *)
Definition post {A} (s : bool) (i : list byte) (r : res A * list byte) : Prop :=
  match r with
  | (Ok _, i') => (if s then (length i' < length i)%nat else (length i' <= length i)%nat) /\ valid i'
  | (Back, i') => (length i' <= length i)%nat /\ valid i'
  | (Panic, _) => False
  | (NoFuel, _) => False
  end.

Definition G {A} (s : bool) (p : parser A) (i : list byte) : Prop := post s i (p i).

Lemma post_weaken {A} i (r : res A * list byte) : post true i r -> post false i r.
Proof. destruct r as [[a| | |] i']; cbn; intuition lia. Qed.

Lemma post_any {A} s i (r : res A * list byte) : post true i r -> post s i r.
Proof. destruct s; [auto | apply post_weaken]. Qed.

Lemma post_trans {A} s i j (r : res A * list byte) :
  post s j r -> (length j <= length i)%nat -> post s i r.
Proof. destruct r as [[a| | |] i']; destruct s; cbn; intuition lia. Qed.

Lemma post_trans_strict {A} s i j (r : res A * list byte) :
  post false j r -> (length j < length i)%nat -> post s i r.
Proof. destruct r as [[a| | |] i']; destruct s; cbn; intuition lia. Qed.

Lemma G_weaken {A} (p : parser A) i : G true p i -> G false p i.
Proof. apply post_weaken. Qed.

Lemma G_any {A} s (p : parser A) i : G true p i -> G s p i.
Proof. apply post_any. Qed.

(* ------------------------------------------------------------------ combinators *)

Lemma G_ret {A} (a : A) i : valid i -> G false (ret a) i.
Proof. intros H. cbn. auto. Qed.

Lemma G_fail {A} s i : valid i -> G s (@fail A) i.
Proof. intros H. cbn. auto. Qed.

Lemma G_bind {A B} s1 s2 (p : parser A) (f : A -> parser B) i :
  G s1 p i ->
  (forall a i', p i = (Ok a, i') -> valid i' ->
                (if s1 then (length i' < length i)%nat else (length i' <= length i)%nat) ->
                G s2 (f a) i') ->
  G (s1 || s2) (bind p f) i.
Proof.
  unfold G, bind. intros Hp Hf. destruct (p i) as [[a| | |] i'] eqn:E; cbn in Hp |- *; try tauto.
  - destruct Hp as [Hl Hv]. specialize (Hf a i' eq_refl Hv Hl).
    destruct (f a i') as [[b| | |] i'']; cbn in Hf |- *; try tauto;
      destruct s1, s2; cbn in *; intuition lia.
Qed.

(* the two common instances *)
Lemma G_bind_ff {A B} (p : parser A) (f : A -> parser B) i :
  G false p i ->
  (forall a i', p i = (Ok a, i') -> valid i' -> (length i' <= length i)%nat -> G false (f a) i') ->
  G false (bind p f) i.
Proof. intros. change false with (false || false). eapply G_bind; eauto. Qed.

Lemma G_bind_tf {A B} (p : parser A) (f : A -> parser B) i :
  G true p i ->
  (forall a i', p i = (Ok a, i') -> valid i' -> (length i' < length i)%nat -> G false (f a) i') ->
  G true (bind p f) i.
Proof. intros. change true with (true || false). eapply G_bind; eauto. Qed.

Lemma G_bind_ft {A B} (p : parser A) (f : A -> parser B) i :
  G false p i ->
  (forall a i', p i = (Ok a, i') -> valid i' -> (length i' <= length i)%nat -> G true (f a) i') ->
  G true (bind p f) i.
Proof. intros. change true with (false || true). eapply G_bind; eauto. Qed.

Lemma G_pmap {A B} s (f : A -> B) (p : parser A) i : G s p i -> G s (pmap f p) i.
Proof.
  unfold G, pmap, bind, ret. destruct (p i) as [[a| | |] i']; cbn; auto.
Qed.

Lemma G_alt2 {A} s (p q : parser A) i : G s p i -> G s q i -> G s (alt2 p q) i.
Proof.
  unfold G, alt2. intros Hp Hq. destruct (p i) as [[a| | |] i']; cbn in *; auto.
Qed.

Lemma G_with_len {A} s (f : nat -> parser A) i : G s (f (S (length i))) i -> G s (with_len f) i.
Proof. exact (fun H => H). Qed.

(* ------------------------------------------------------------------ primitives *)

Lemma strip_prefix_app p i r : strip_prefix p i = Some r -> i = p ++ r.
Proof.
  revert i. induction p as [|a p IH]; intros i H; cbn in H.
  - now inversion H.
  - destruct i as [|b i]; [discriminate|]. destruct (a =? b) eqn:E; [|discriminate].
    apply N.eqb_eq in E. subst. cbn. f_equal. now apply IH.
Qed.

Definition ascii_str (p : list byte) : Prop := Forall ascii p.

Lemma G_literal p i : ascii_str p -> valid i -> G false (literal p) i.
Proof.
  intros Hp Hv. unfold G, literal. destruct (strip_prefix p i) as [r|] eqn:E; cbn; [|auto].
  apply strip_prefix_app in E. subst i. rewrite app_length. split; [lia|].
  unfold valid in *. now rewrite valid_app_ascii in Hv.
Qed.

Lemma G_literal_strict p i : ascii_str p -> p <> [] -> valid i -> G true (literal p) i.
Proof.
  intros Hp Hne Hv. unfold G, literal. destruct (strip_prefix p i) as [r|] eqn:E; cbn; [|auto].
  apply strip_prefix_app in E. subst i. rewrite app_length. split.
  - destruct p; [congruence | cbn; lia].
  - unfold valid in *. now rewrite valid_app_ascii in Hv.
Qed.

Lemma G_try_literal p i : ascii_str p -> valid i -> G false (try_literal p) i.
Proof.
  intros Hp Hv. unfold G, try_literal. destruct (strip_prefix p i) as [r|] eqn:E; cbn; [|auto].
  apply strip_prefix_app in E. subst i. rewrite app_length. split; [lia|].
  unfold valid in *. now rewrite valid_app_ascii in Hv.
Qed.

Ltac ascii_tac := repeat constructor; unfold ascii; reflexivity.

Lemma ascii_bs_lparen : ascii_str (bs "("). Proof. ascii_tac. Qed.
Lemma ascii_bs_rparen : ascii_str (bs ")"). Proof. ascii_tac. Qed.
Lemma ascii_bs_comma : ascii_str (bs ","). Proof. ascii_tac. Qed.
Lemma ascii_bs_colon : ascii_str (bs ":"). Proof. ascii_tac. Qed.
Lemma ascii_bs_hash : ascii_str (bs "#"). Proof. ascii_tac. Qed.
Lemma ascii_kw_array : ascii_str kw_array. Proof. ascii_tac. Qed.
Lemma ascii_kw_map : ascii_str kw_map. Proof. ascii_tac. Qed.
Lemma ascii_kw_optional : ascii_str kw_optional. Proof. ascii_tac. Qed.
Lemma ascii_kw_interface : ascii_str kw_interface. Proof. ascii_tac. Qed.
Lemma ascii_kw_method : ascii_str kw_method. Proof. ascii_tac. Qed.
Lemma ascii_kw_error : ascii_str kw_error. Proof. ascii_tac. Qed.
Lemma ascii_kw_type : ascii_str kw_type. Proof. ascii_tac. Qed.
Lemma ascii_kw_arrow : ascii_str kw_arrow. Proof. ascii_tac. Qed.

(* character classes are ASCII *)
Lemma is_upper_ascii b : is_upper b = true -> b < 128.
Proof. unfold is_upper. intros H. nb. lia. Qed.
Lemma is_lower_ascii b : is_lower b = true -> b < 128.
Proof. unfold is_lower. intros H. nb. lia. Qed.
Lemma is_digit_ascii b : is_digit b = true -> b < 128.
Proof. unfold is_digit. intros H. nb. lia. Qed.
Lemma is_alpha_ascii b : is_alpha b = true -> b < 128.
Proof.
  unfold is_alpha. intros H. apply orb_true_iff in H.
  destruct H; [now apply is_upper_ascii | now apply is_lower_ascii].
Qed.
Lemma is_alnum_ascii b : is_alnum b = true -> b < 128.
Proof.
  unfold is_alnum. intros H. apply orb_true_iff in H.
  destruct H; [now apply is_alpha_ascii | now apply is_digit_ascii].
Qed.
Lemma is_ms_ascii b : is_ms b = true -> b < 128.
Proof.
  unfold is_ms. intros H. repeat (apply orb_true_iff in H; destruct H as [H|H]); nb; subst; reflexivity.
Qed.
Lemma is_sp_tab_ascii b : is_sp_tab b = true -> b < 128.
Proof.
  unfold is_sp_tab. intros H. apply orb_true_iff in H. destruct H as [H|H]; nb; subst; reflexivity.
Qed.
Lemma is_seg_char_ascii b : is_seg_char b = true -> b < 128.
Proof.
  unfold is_seg_char. intros H. apply orb_true_iff in H. destruct H as [H|H].
  - now apply is_alnum_ascii.
  - nb. subst. reflexivity.
Qed.

Lemma span_valid f i :
  (forall b, f b = true -> b < 128) -> valid i ->
  Forall ascii (fst (span f i)) /\ valid (snd (span f i)) /\ (length (snd (span f i)) <= length i)%nat.
Proof.
  intros Hf Hv. destruct (span_ascii f i Hf) as [H1 H2]. repeat split; auto.
  - unfold valid. now rewrite H2.
  - apply span_length.
Qed.

Lemma span_nonempty_shorter f i :
  fst (span f i) <> [] -> (length (snd (span f i)) < length i)%nat.
Proof.
  destruct i as [|b i]; cbn; [congruence|]. destruct (f b); cbn; [|congruence].
  pose proof (span_length f i). destruct (span f i). cbn in *. lia.
Qed.

Lemma G_take_while0 f i : (forall b, f b = true -> b < 128) -> valid i -> G false (take_while0 f) i.
Proof.
  intros Hf Hv. unfold G, take_while0. destruct (span_valid f i Hf Hv) as (_ & H2 & H3).
  destruct (span f i) as [a r]. cbn in *. auto.
Qed.

Lemma G_take_while1 f i : (forall b, f b = true -> b < 128) -> valid i -> G true (take_while1 f) i.
Proof.
  intros Hf Hv. unfold G, take_while1. destruct (span_valid f i Hf Hv) as (_ & H2 & H3).
  pose proof (span_nonempty_shorter f i) as Hs.
  destruct (span f i) as [a r]. cbn in *. destruct a as [|x a]; cbn; [auto|].
  split; [apply Hs; congruence | auto].
Qed.

Lemma G_multispace1 i : valid i -> G true multispace1 i.
Proof. apply G_take_while1. apply is_ms_ascii. Qed.

Lemma skip_ms_ok i : valid i -> valid (skip_ms i) /\ (length (skip_ms i) <= length i)%nat.
Proof. intros Hv. unfold skip_ms. destruct (span_valid is_ms i is_ms_ascii Hv) as (_ & H2 & H3). auto. Qed.

Lemma G_whitespace_only i : valid i -> G false whitespace_only i.
Proof. intros Hv. unfold G, whitespace_only. cbn. destruct (skip_ms_ok i Hv). auto. Qed.

(* 38-53 *)
Lemma skip_line_ok i : valid i -> valid (skip_line i) /\ (length (skip_line i) <= length i)%nat.
Proof.
  assert (Hgen : forall a, valid (a ++ i) -> valid (skip_line i) /\ (length (skip_line i) <= length i)%nat).
  { induction i as [|b i IH]; intros a Hv; cbn [skip_line].
    - split; [reflexivity | cbn; lia].
    - destruct (b =? 10) eqn:E10.
      + nb. subst. split; [|cbn; lia]. eapply valid_after_ascii; [|exact Hv]. reflexivity.
      + destruct (b =? 13) eqn:E13.
        * nb. subst. assert (Hi : valid i) by (eapply valid_after_ascii; [|exact Hv]; reflexivity).
          destruct i as [|c i]; [split; [exact Hi | cbn; lia]|].
          destruct (c =? 10) eqn:Ec; [|split; [exact Hi | cbn; lia]].
          nb. subst. split; [|cbn; lia]. unfold valid in *. now rewrite valid_cons_ascii in Hi.
        * specialize (IH (a ++ [b])). rewrite <- app_assoc in IH. cbn in IH. specialize (IH Hv).
          destruct IH as [IH1 IH2]. split; [exact IH1 | cbn; lia]. }
  intros Hv. apply (Hgen []). exact Hv.
Qed.

(* 23-62 ws *)
Lemma ws_loop_ok : forall fuel i, (length i < fuel)%nat -> valid i -> post false i (ws_loop fuel i).
Proof.
  induction fuel as [|fuel IH]; intros i Hl Hv; [lia|].
  cbn [ws_loop]. destruct (skip_ms_ok i Hv) as [Hv1 Hl1].
  set (i1 := skip_ms i) in *.
  set (i2 := match i1 with b :: r => if b =? 35 then skip_line r else i1 | [] => i1 end).
  assert (H2 : valid i2 /\ (length i2 <= length i1)%nat).
  { subst i2. destruct i1 as [|b r]; [auto|]. destruct (b =? 35) eqn:E; [|auto].
    nb. subst b. assert (Hr : valid r) by (unfold valid in *; now rewrite valid_cons_ascii in Hv1).
    destruct (skip_line_ok r Hr). split; [auto | cbn; lia]. }
  destruct H2 as [Hv2 Hl2].
  destruct (Nat.eqb (length i2) (length i)) eqn:E.
  - cbn. split; [lia | exact Hv2].
  - apply Nat.eqb_neq in E. eapply post_trans; [apply IH; [lia | exact Hv2] | lia].
Qed.

Lemma G_ws i : valid i -> G false ws i.
Proof. intros Hv. unfold G, ws. apply ws_loop_ok; [lia | exact Hv]. Qed.

(* 73-76 *)
Lemma G_bytes_to_str b i : utf8_valid b = true -> valid i -> G false (bytes_to_str b) i.
Proof. intros Hb Hv. unfold G, bytes_to_str. rewrite Hb. cbn. auto. Qed.

(* field_name *)
Lemma field_tail_safe : forall n i, (length i <= n)%nat -> valid i ->
  Forall ascii (fst (field_tail i)) /\ valid (snd (field_tail i))
  /\ (length (snd (field_tail i)) <= length i)%nat.
Proof.
  induction n as [|n IH]; intros i Hl Hv.
  - destruct i; [cbn; repeat split; auto; constructor | cbn in Hl; lia].
  - destruct i as [|b r]; [cbn; repeat split; auto; constructor|].
    cbn [field_tail]. cbn [length] in Hl.
    destruct (is_alnum b) eqn:Ea.
    + assert (Hb : b < 128) by now apply is_alnum_ascii.
      assert (Hr : valid r) by (unfold valid in *; now rewrite valid_cons_ascii in Hv).
      destruct (IH r ltac:(lia) Hr) as (H1 & H2 & H3).
      destruct (field_tail r) as [a r']. cbn in *. repeat split; auto; try lia.
    + destruct (b =? 95) eqn:E95; [|cbn; repeat split; auto; constructor].
      nb. subst b.
      assert (Hr : valid r) by (unfold valid in *; now rewrite valid_cons_ascii in Hv).
      destruct r as [|c r2]; [cbn; repeat split; auto; constructor|].
      destruct (is_alnum c) eqn:Ec; [|cbn; repeat split; auto; constructor].
      assert (Hc : c < 128) by now apply is_alnum_ascii.
      assert (Hr2 : valid r2) by (unfold valid in *; now rewrite valid_cons_ascii in Hr).
      cbn [length] in Hl. destruct (IH r2 ltac:(lia) Hr2) as (H1 & H2 & H3).
      destruct (field_tail r2) as [a r']. cbn in *. repeat split; auto; try lia.
      constructor; [reflexivity|]. constructor; auto.
Qed.

Lemma G_field_name i : valid i -> G true field_name i.
Proof.
  intros Hv. unfold G, field_name. destruct i as [|b r]; [cbn; auto|].
  destruct (is_alpha b) eqn:Ea; [|cbn; auto].
  assert (Hb : b < 128) by now apply is_alpha_ascii.
  assert (Hr : valid r) by (unfold valid in *; now rewrite valid_cons_ascii in Hv).
  destruct (field_tail_safe (length r) r ltac:(lia) Hr) as (H1 & H2 & H3).
  destruct (field_tail r) as [a r']. cbn in H1, H2, H3.
  unfold bytes_to_str. rewrite valid_ascii; [|constructor; auto]. cbn. split; [lia | auto].
Qed.

(* type_name *)
Lemma G_type_name i : valid i -> G true type_name i.
Proof.
  intros Hv. unfold G, type_name. destruct i as [|b r]; [cbn; auto|].
  destruct (is_upper b) eqn:Ea; [|cbn; auto].
  assert (Hb : b < 128) by now apply is_upper_ascii.
  assert (Hr : valid r) by (unfold valid in *; now rewrite valid_cons_ascii in Hv).
  destruct (span_valid is_alnum r is_alnum_ascii Hr) as (H1 & H2 & H3).
  destruct (span is_alnum r) as [a r']. cbn in H1, H2, H3.
  unfold bytes_to_str. rewrite valid_ascii; [|constructor; auto]. cbn. split; [lia | auto].
Qed.

(* primitive_type *)
Lemma G_prim_alt : forall kws i,
  Forall (fun kc => ascii_str (fst kc)) kws -> valid i -> G false (prim_alt kws) i.
Proof.
  induction kws as [|[k c] kws IH]; intros i Hk Hv; cbn [prim_alt].
  - now apply G_fail.
  - inversion Hk as [|? ? Hk1 Hk2]; subst. cbn in Hk1.
    assert (H1 : G false (pmap (fun _ : unit => prim_of_code c) (literal k)) i)
      by (apply G_pmap; now apply G_literal).
    destruct kws as [|kc' kws']; [exact H1|].
    apply G_alt2; [exact H1 | now apply IH].
Qed.

Lemma kw_prims_ascii : Forall (fun kc => ascii_str (fst kc)) kw_prims.
Proof. repeat constructor. Qed.

Lemma G_primitive_type i : valid i -> G false primitive_type i.
Proof. intros Hv. unfold primitive_type. apply G_pmap. apply G_prim_alt; [apply kw_prims_ascii | exact Hv]. Qed.

(* comment_def *)
Lemma G_comment_def i : valid i -> G true comment_def i.
Proof.
  intros Hv. unfold comment_def.
  apply G_bind_tf; [apply G_literal_strict; [apply ascii_bs_hash | discriminate | exact Hv]|].
  intros _ i1 _ Hv1 _.
  apply G_bind_ff.
  { unfold G, skip_sp_tab. cbn. destruct (span_valid is_sp_tab i1 is_sp_tab_ascii Hv1) as (_ & H2 & H3). auto. }
  intros _ i2 _ Hv2 _.
  unfold G, bind, take_while0.
  assert (Hf : forall b, negb (b =? 10) && negb (b =? 13) = false -> b < 128).
  { intros b H. apply andb_false_iff in H. destruct H as [H|H]; nb; subst; reflexivity. }
  set (f := fun c : byte => negb (c =? 10) && negb (c =? 13)) in *.
  destruct (span_until_ascii f i2 Hf Hv2) as [Ha Hr].
  pose proof (span_length f i2) as Hl.
  destruct (span f i2) as [a r] eqn:Es. cbn in Ha, Hr, Hl.
  unfold bytes_to_str. rewrite Ha. cbn. auto.
Qed.

(* parse_preceding_comments *)
Lemma ppc_loop_ok : forall fuel i, (length i < fuel)%nat -> valid i -> post false i (ppc_loop fuel i).
Proof.
  induction fuel as [|fuel IH]; intros i Hl Hv; [lia|].
  destruct i as [|b0 i0]; [cbn; auto|].
  cbn [ppc_loop]. remember (b0 :: i0) as i eqn:Ei. clear Ei b0 i0.
  destruct (skip_ms_ok i Hv) as [Hv1 Hl1].
  destruct (skip_ms i) as [|b1 i1'] eqn:E1; [cbn; split; [lia | reflexivity]|].
  remember (b1 :: i1') as i1 eqn:Ei1. clear Ei1 b1 i1'.
  pose proof (G_comment_def i1 Hv1) as Hc. unfold G, post in Hc.
  destruct (comment_def i1) as [[c| | |] i2]; try tauto.
  - destruct Hc as [Hl2 Hv2]. destruct (skip_ms_ok i2 Hv2) as [Hv3 Hl3].
    assert (Hr : post false (skip_ms i2) (ppc_loop fuel (skip_ms i2))) by (apply IH; [lia | exact Hv3]).
    unfold post in Hr |- *.
    destruct (ppc_loop fuel (skip_ms i2)) as [[cs| | |] i3]; try tauto.
    + destruct Hr. split; [lia | auto].
    + destruct Hr. split; [lia | auto].
  - unfold post. split; [lia | exact Hv].
Qed.

Lemma G_ppc i : valid i -> G false parse_preceding_comments i.
Proof. intros Hv. unfold G, parse_preceding_comments. apply ppc_loop_ok; [lia | exact Hv]. Qed.

(* ------------------------------------------------------------------ separated *)

Section Separated.
  Context {A B : Type} (elem : parser A) (sep : parser B) (m : nat).
  Hypothesis Helem : forall j, (length j <= m)%nat -> valid j -> G false elem j.
  Hypothesis Hsep : forall j, (length j <= m)%nat -> valid j -> G true sep j.

  Lemma sep_loop_ok : forall fuel i, (length i < fuel)%nat -> (length i <= m)%nat -> valid i ->
    post false i (sep_loop fuel elem sep i).
  Proof.
    induction fuel as [|fuel IH]; intros i Hf Hm Hv; [lia|].
    cbn [sep_loop]. pose proof (Hsep i Hm Hv) as Hs. unfold G, post in Hs.
    destruct (sep i) as [[x| | |] i1]; try tauto.
    - destruct Hs as [Hl1 Hv1].
      destruct (Nat.eqb (length i1) (length i)) eqn:E; [apply Nat.eqb_eq in E; lia|].
      pose proof (Helem i1 ltac:(lia) Hv1) as He. unfold G, post in He.
      destruct (elem i1) as [[y| | |] i2]; try tauto.
      + destruct He as [Hl2 Hv2].
        pose proof (IH i2 ltac:(lia) ltac:(lia) Hv2) as Hr. unfold post in Hr |- *.
        destruct (sep_loop fuel elem sep i2) as [[l| | |] i3]; try tauto; destruct Hr; split; auto; lia.
      + unfold post. split; [lia | exact Hv].
    - unfold post. split; [lia | exact Hv].
  Qed.

  Lemma G_separated0 i : (length i <= m)%nat -> valid i -> G false (separated0 elem sep) i.
  Proof.
    intros Hm Hv. unfold G, separated0. pose proof (Helem i Hm Hv) as He. unfold G, post in He.
    destruct (elem i) as [[y| | |] i1]; try tauto.
    - destruct He as [Hl1 Hv1].
      pose proof (sep_loop_ok (S (length i1)) i1 ltac:(lia) ltac:(lia) Hv1) as Hr. unfold post in Hr |- *.
      destruct (sep_loop (S (length i1)) elem sep i1) as [[l| | |] i2]; try tauto; destruct Hr; split; auto; lia.
    - unfold post. split; [lia | exact Hv].
  Qed.

  Lemma G_separated1 s i :
    (length i <= m)%nat -> valid i -> G s elem i -> G s (separated1 elem sep) i.
  Proof.
    intros Hm Hv He. unfold G, separated1. unfold G, post in He.
    destruct (elem i) as [[y| | |] i1]; try tauto.
    - destruct He as [Hl1 Hv1].
      assert (Hl1' : (length i1 <= length i)%nat) by (destruct s; lia).
      pose proof (sep_loop_ok (S (length i1)) i1 ltac:(lia) ltac:(lia) Hv1) as Hr. unfold post in Hr |- *.
      destruct (sep_loop (S (length i1)) elem sep i1) as [[l| | |] i2]; try tauto; destruct Hr; split; auto;
        destruct s; lia.
    - exact He.
  Qed.
End Separated.

(* ------------------------------------------------------------------ types *)

Lemma G_comma_sep i : valid i -> G true comma_sep i.
Proof.
  intros Hv. unfold comma_sep.
  apply G_bind_ft; [now apply G_ws|]. intros _ i1 _ Hv1 _.
  apply G_bind_tf; [apply G_literal_strict; [apply ascii_bs_comma | discriminate | exact Hv1]|].
  intros _ i2 _ Hv2 _. now apply G_ws.
Qed.

Lemma G_enum_type i : valid i -> G false enum_type i.
Proof.
  intros Hv. unfold enum_type.
  apply G_bind_ff; [apply G_literal; [apply ascii_bs_lparen | exact Hv]|]. intros _ i1 _ Hv1 _.
  apply G_bind_ff; [now apply G_ws|]. intros _ i2 _ Hv2 _.
  apply G_bind_ff.
  { apply (G_separated1 field_name comma_sep (length i2)); auto.
    - intros j _ Hj. apply G_weaken. now apply G_field_name.
    - intros j _ Hj. now apply G_comma_sep.
    - apply G_weaken. now apply G_field_name. }
  intros ns i3 _ Hv3 _.
  apply G_bind_ff; [now apply G_ws|]. intros _ i4 _ Hv4 _.
  apply G_bind_ff; [apply G_literal; [apply ascii_bs_rparen | exact Hv4]|]. intros _ i5 _ Hv5 _.
  now apply G_ret.
Qed.

Section TypeSafe.
  Variable vt : parser ty.
  Variable n : nat.
  Hypothesis Hvt : forall j, (length j < n)%nat -> valid j -> G false vt j.

  Lemma G_field_p j : (length j < n)%nat -> valid j -> G true (field_p vt) j.
  Proof.
    intros Hl Hv. unfold field_p.
    apply G_bind_ft; [now apply G_ppc|]. intros cs i1 _ Hv1 Hl1.
    apply G_bind_tf; [now apply G_field_name|]. intros nm i2 _ Hv2 Hl2.
    apply G_bind_ff; [now apply G_ws|]. intros _ i3 _ Hv3 Hl3.
    apply G_bind_ff; [apply G_literal; [apply ascii_bs_colon | exact Hv3]|]. intros _ i4 _ Hv4 Hl4.
    apply G_bind_ff; [now apply G_ws|]. intros _ i5 _ Hv5 Hl5.
    apply G_bind_ff; [apply Hvt; [lia | exact Hv5]|]. intros t i6 _ Hv6 _.
    now apply G_ret.
  Qed.

  Lemma G_struct_type i : (length i <= n)%nat -> valid i -> G false (struct_type vt) i.
  Proof.
    intros Hl Hv. unfold struct_type. apply G_weaken.
    apply G_bind_tf; [apply G_literal_strict; [apply ascii_bs_lparen | discriminate | exact Hv]|].
    intros _ i1 _ Hv1 Hl1.
    apply G_bind_ff; [now apply G_ws|]. intros _ i2 _ Hv2 Hl2.
    apply G_bind_ff.
    { apply (G_separated0 (field_p vt) comma_sep (length i2)); auto.
      - intros j Hj Hvj. apply G_weaken. apply G_field_p; [lia | exact Hvj].
      - intros j _ Hvj. now apply G_comma_sep. }
    intros fs i3 _ Hv3 _.
    apply G_bind_ff; [now apply G_ws|]. intros _ i4 _ Hv4 _.
    apply G_bind_ff; [apply G_literal; [apply ascii_bs_rparen | exact Hv4]|]. intros _ i5 _ Hv5 _.
    now apply G_ret.
  Qed.

  Lemma G_inline_type i : (length i <= n)%nat -> valid i -> G false (inline_type vt) i.
  Proof. intros Hl Hv. unfold inline_type. apply G_alt2; [now apply G_struct_type | now apply G_enum_type]. Qed.

  Lemma G_element_type i : (length i <= n)%nat -> valid i -> G false (element_type vt) i.
  Proof.
    intros Hl Hv. unfold element_type. apply G_alt2; [now apply G_primitive_type|].
    apply G_alt2; [apply G_pmap, G_weaken; now apply G_type_name | now apply G_inline_type].
  Qed.

  Lemma G_prefixed kw (c : ty -> ty) i :
    ascii_str kw -> kw <> [] -> (length i <= n)%nat -> valid i ->
    G false (literal kw ;;; t <- vt ;; ret (c t)) i.
  Proof.
    intros Hk Hne Hl Hv. apply G_weaken.
    apply G_bind_tf; [now apply G_literal_strict|]. intros _ i1 _ Hv1 Hl1.
    apply G_bind_ff; [apply Hvt; [lia | exact Hv1]|]. intros t i2 _ Hv2 _. now apply G_ret.
  Qed.

  Lemma G_array_type i : (length i <= n)%nat -> valid i -> G false (array_type vt) i.
  Proof. apply G_prefixed; [apply ascii_kw_array | discriminate]. Qed.
  Lemma G_map_type i : (length i <= n)%nat -> valid i -> G false (map_type vt) i.
  Proof. apply G_prefixed; [apply ascii_kw_map | discriminate]. Qed.

  Lemma G_non_optional_type i : (length i <= n)%nat -> valid i -> G false (non_optional_type vt) i.
  Proof.
    intros Hl Hv. unfold non_optional_type. apply G_alt2; [now apply G_array_type|].
    apply G_alt2; [now apply G_map_type | now apply G_element_type].
  Qed.

  Lemma G_optional_type i : (length i <= n)%nat -> valid i -> G false (optional_type vt) i.
  Proof.
    intros Hl Hv. unfold optional_type.
    apply G_bind_ff; [apply G_literal; [apply ascii_kw_optional | exact Hv]|]. intros _ i1 _ Hv1 Hl1.
    apply G_bind_ff; [apply G_non_optional_type; [lia | exact Hv1]|]. intros t i2 _ Hv2 _. now apply G_ret.
  Qed.

  Lemma G_varlink_type_body i : (length i <= n)%nat -> valid i -> G false (varlink_type_body vt) i.
  Proof.
    intros Hl Hv. unfold varlink_type_body. apply G_alt2; [now apply G_optional_type|].
    apply G_alt2; [now apply G_array_type|].
    apply G_alt2; [now apply G_map_type | now apply G_element_type].
  Qed.
End TypeSafe.

Lemma G_varlink_type_f : forall fuel i, (length i < fuel)%nat -> valid i -> G false (varlink_type_f fuel) i.
Proof.
  induction fuel as [|fuel IH]; intros i Hl Hv; [lia|].
  cbn [varlink_type_f]. apply (G_varlink_type_body (varlink_type_f fuel) fuel IH); [lia | exact Hv].
Qed.

Lemma G_varlink_type i : valid i -> G false varlink_type i.
Proof. intros Hv. unfold G, varlink_type. apply G_varlink_type_f; [lia | exact Hv]. Qed.

(* ------------------------------------------------------------------ interface_name *)

Lemma strip_dashes_rev_spec : forall r back,
  let (ar, d) := strip_dashes_rev r back in rev r ++ back = rev ar ++ d.
Proof.
  induction r as [|b r IH]; intros back; cbn [strip_dashes_rev]; [reflexivity|].
  destruct (b =? 45); [|reflexivity].
  specialize (IH (b :: back)). destruct (strip_dashes_rev r (b :: back)) as [ar d].
  cbn [rev]. rewrite <- app_assoc. exact IH.
Qed.

Lemma strip_dashes_rev_sub : forall r back,
  Forall ascii r -> Forall ascii (fst (strip_dashes_rev r back)).
Proof.
  induction r as [|b r IH]; intros back H; cbn [strip_dashes_rev]; [constructor|].
  inversion H; subst. destruct (b =? 45); [now apply IH | exact H].
Qed.

Lemma Forall_rev {X} (P : X -> Prop) l : Forall P l -> Forall P (rev l).
Proof. intros H. apply Forall_forall. intros x Hx. apply in_rev in Hx. eapply Forall_forall in H; eauto. Qed.

(* seg_body splits the input: i = taken ++ rest, the taken part is ASCII *)
Lemma seg_body_spec i : let (a, r) := seg_body i in i = a ++ r /\ Forall ascii a.
Proof.
  unfold seg_body. pose proof (span_app is_seg_char i) as Hs.
  pose proof (span_ascii is_seg_char i is_seg_char_ascii) as [Ha _].
  destruct (span is_seg_char i) as [a rest]. cbn in Ha.
  pose proof (strip_dashes_rev_spec (rev a) []) as Hd.
  pose proof (strip_dashes_rev_sub (rev a) [] (Forall_rev _ _ Ha)) as Hsub.
  destruct (strip_dashes_rev (rev a) []) as [ar d]. cbn in Hsub.
  rewrite rev_involutive, app_nil_r in Hd. split.
  - rewrite app_assoc, <- Hd. exact Hs.
  - now apply Forall_rev.
Qed.

Lemma valid_drop_ascii a r : Forall ascii a -> valid (a ++ r) -> valid r.
Proof. unfold valid. intros Ha H. now rewrite valid_app_ascii in H. Qed.

Lemma iname_segments_spec : forall fuel i,
  let '(_, more, rest) := iname_segments fuel i in i = more ++ rest /\ Forall ascii more.
Proof.
  induction fuel as [|fuel IH]; intros i; cbn [iname_segments]; [split; [reflexivity | constructor]|].
  destruct i as [|b r]; [split; [reflexivity | constructor]|].
  destruct (b =? 46) eqn:E; [|split; [reflexivity | constructor]].
  destruct r as [|c r']; [split; [reflexivity | constructor]|].
  destruct (is_alnum c) eqn:Ec; [|split; [reflexivity | constructor]].
  pose proof (seg_body_spec r') as Hs. destruct (seg_body r') as [a r''].
  destruct Hs as [Hs1 Hs2]. specialize (IH r'').
  destruct (iname_segments fuel r'') as [[fd more] rest]. destruct IH as [IH1 IH2]. split.
  - cbn. rewrite <- app_assoc. now rewrite <- IH1, <- Hs1.
  - nb. subst b. constructor; [reflexivity|]. constructor; [now apply is_alnum_ascii|].
    apply Forall_app. split; assumption.
Qed.

Lemma G_interface_name i : valid i -> G true interface_name i.
Proof.
  intros Hv. unfold G, interface_name. destruct i as [|b r]; [cbn; auto|].
  destruct (is_alpha b) eqn:Ea; [|cbn; auto].
  assert (Hb : b < 128) by now apply is_alpha_ascii.
  pose proof (seg_body_spec r) as Hs. destruct (seg_body r) as [a r1]. destruct Hs as [Hs1 Hs2].
  pose proof (iname_segments_spec (S (length r1)) r1) as Hi.
  destruct (iname_segments (S (length r1)) r1) as [[fd more] rest]. destruct Hi as [Hi1 Hi2].
  destruct fd; [|cbn; auto].
  unfold bytes_to_str. rewrite valid_ascii.
  2:{ constructor; [exact Hb|]. apply Forall_app. split; assumption. }
  cbn. subst r r1. split.
  - rewrite !app_length. lia.
  - assert (Hr : valid (a ++ more ++ rest)) by (unfold valid in *; now rewrite valid_cons_ascii in Hv).
    apply valid_drop_ascii in Hr; [|exact Hs2]. now apply valid_drop_ascii in Hr.
Qed.

(* ------------------------------------------------------------------ members *)

Section Entries.
  Variable one : parser (field + variant).
  Hypothesis Hone : forall j, valid j -> G true one j.

  Lemma G_entries_loop : forall fuel i, (length i < fuel)%nat -> valid i -> G true (entries_loop one fuel) i.
  Proof.
    induction fuel as [|fuel IH]; intros i Hl Hv; [lia|].
    cbn [entries_loop].
    apply G_bind_tf; [now apply Hone|]. intros x i1 _ Hv1 Hl1.
    apply G_bind_ff; [now apply G_whitespace_only|]. intros _ i2 _ Hv2 Hl2.
    apply G_bind_ff; [apply G_try_literal; [apply ascii_bs_comma | exact Hv2]|]. intros comma i3 _ Hv3 Hl3.
    destruct comma.
    - apply G_bind_ff; [now apply G_whitespace_only|]. intros _ i4 _ Hv4 Hl4.
      apply G_bind_ff; [apply G_weaken, IH; [lia | exact Hv4]|]. intros l i5 _ Hv5 _. now apply G_ret.
    - apply G_bind_ff; [apply G_try_literal; [apply ascii_bs_rparen | exact Hv3]|]. intros close i4 _ Hv4 _.
      destruct close; [now apply G_ret | now apply G_fail].
  Qed.
End Entries.

Lemma G_param_entry i : valid i -> G true param_entry i.
Proof.
  intros Hv. unfold param_entry.
  apply G_bind_ft; [now apply G_ppc|]. intros cs i1 _ Hv1 _.
  apply G_bind_tf; [now apply G_field_name|]. intros nm i2 _ Hv2 _.
  apply G_bind_ff; [now apply G_ws|]. intros _ i3 _ Hv3 _.
  apply G_bind_ff; [apply G_literal; [apply ascii_bs_colon | exact Hv3]|]. intros _ i4 _ Hv4 _.
  apply G_bind_ff; [now apply G_ws|]. intros _ i5 _ Hv5 _.
  apply G_bind_ff; [now apply G_varlink_type|]. intros t i6 _ Hv6 _. now apply G_ret.
Qed.

Lemma G_typedef_entry i : valid i -> G true typedef_entry i.
Proof.
  intros Hv. unfold typedef_entry.
  apply G_bind_ft; [now apply G_ppc|]. intros cs i1 _ Hv1 _.
  apply G_bind_tf; [now apply G_field_name|]. intros nm i2 _ Hv2 _.
  apply G_bind_ff; [now apply G_whitespace_only|]. intros _ i3 _ Hv3 _.
  apply G_bind_ff; [apply G_try_literal; [apply ascii_bs_colon | exact Hv3]|]. intros colon i4 _ Hv4 _.
  destruct colon; [|now apply G_ret].
  apply G_bind_ff; [now apply G_whitespace_only|]. intros _ i5 _ Hv5 _.
  apply G_bind_ff; [now apply G_varlink_type|]. intros t i6 _ Hv6 _. now apply G_ret.
Qed.

Lemma G_parameter_list i : valid i -> G true parameter_list i.
Proof.
  intros Hv. unfold parameter_list.
  apply G_bind_tf; [apply G_literal_strict; [apply ascii_bs_lparen | discriminate | exact Hv]|].
  intros _ i1 _ Hv1 _.
  apply G_bind_ff; [now apply G_whitespace_only|]. intros _ i2 _ Hv2 _.
  apply G_bind_ff; [apply G_try_literal; [apply ascii_bs_rparen | exact Hv2]|]. intros close i3 _ Hv3 _.
  destruct close; [now apply G_ret|].
  apply G_with_len.
  apply G_bind_ff; [apply G_weaken, G_entries_loop; [apply G_param_entry | lia | exact Hv3]|].
  intros l i4 _ Hv4 _. now apply G_ret.
Qed.

Lemma G_method_def i : valid i -> G true method_def i.
Proof.
  intros Hv. unfold method_def.
  apply G_bind_ft; [now apply G_ppc|]. intros cs i1 _ Hv1 _.
  apply G_bind_tf; [apply G_literal_strict; [apply ascii_kw_method | discriminate | exact Hv1]|].
  intros _ i2 _ Hv2 _.
  apply G_bind_ff; [apply G_weaken; now apply G_multispace1|]. intros _ i3 _ Hv3 _.
  apply G_bind_ff; [apply G_weaken; now apply G_type_name|]. intros nm i4 _ Hv4 _.
  apply G_bind_ff; [now apply G_ws|]. intros _ i5 _ Hv5 _.
  apply G_bind_ff; [apply G_weaken; now apply G_parameter_list|]. intros ins i6 _ Hv6 _.
  apply G_bind_ff; [now apply G_ws|]. intros _ i7 _ Hv7 _.
  apply G_bind_ff; [apply G_literal; [apply ascii_kw_arrow | exact Hv7]|]. intros _ i8 _ Hv8 _.
  apply G_bind_ff; [now apply G_ws|]. intros _ i9 _ Hv9 _.
  apply G_bind_ff; [apply G_weaken; now apply G_parameter_list|]. intros outs i10 _ Hv10 _.
  now apply G_ret.
Qed.

Lemma G_error_def i : valid i -> G true error_def i.
Proof.
  intros Hv. unfold error_def.
  apply G_bind_ft; [now apply G_ppc|]. intros cs i1 _ Hv1 _.
  apply G_bind_tf; [apply G_literal_strict; [apply ascii_kw_error | discriminate | exact Hv1]|].
  intros _ i2 _ Hv2 _.
  apply G_bind_ff; [apply G_weaken; now apply G_multispace1|]. intros _ i3 _ Hv3 _.
  apply G_bind_ff; [apply G_weaken; now apply G_type_name|]. intros nm i4 _ Hv4 _.
  apply G_bind_ff; [now apply G_ws|]. intros _ i5 _ Hv5 _.
  apply G_bind_ff; [apply G_weaken; now apply G_parameter_list|]. intros ps i6 _ Hv6 _.
  now apply G_ret.
Qed.

Lemma G_type_def i : valid i -> G true type_def i.
Proof.
  intros Hv. unfold type_def.
  apply G_bind_ft; [now apply G_ppc|]. intros cs i1 _ Hv1 _.
  apply G_bind_tf; [apply G_literal_strict; [apply ascii_kw_type | discriminate | exact Hv1]|].
  intros _ i2 _ Hv2 _.
  apply G_bind_ff; [apply G_weaken; now apply G_multispace1|]. intros _ i3 _ Hv3 _.
  apply G_bind_ff; [apply G_weaken; now apply G_type_name|]. intros nm i4 _ Hv4 _.
  apply G_bind_ff; [now apply G_ws|]. intros _ i5 _ Hv5 _.
  apply G_bind_ff; [apply G_literal; [apply ascii_bs_lparen | exact Hv5]|]. intros _ i6 _ Hv6 _.
  apply G_bind_ff; [now apply G_whitespace_only|]. intros _ i7 _ Hv7 _.
  apply G_bind_ff; [apply G_try_literal; [apply ascii_bs_rparen | exact Hv7]|]. intros close i8 _ Hv8 _.
  destruct close; [now apply G_ret|].
  apply G_with_len.
  apply G_bind_ff; [apply G_weaken, G_entries_loop; [apply G_typedef_entry | lia | exact Hv8]|].
  intros l i9 _ Hv9 _.
  destruct (match lefts l with [] => false | _ => true end && match rights l with [] => false | _ => true end);
    [now apply G_fail|].
  destruct (match lefts l with [] => false | _ => true end); now apply G_ret.
Qed.

Lemma G_member_p i : valid i -> G true member_p i.
Proof.
  intros Hv. unfold member_p.
  apply G_alt2; [apply G_pmap; now apply G_type_def|].
  apply G_alt2; apply G_pmap; [now apply G_method_def | now apply G_error_def].
Qed.

Lemma members_loop_ok : forall fuel i, (length i < fuel)%nat -> valid i -> post false i (members_loop fuel i).
Proof.
  induction fuel as [|fuel IH]; intros i Hl Hv; [lia|].
  destruct i as [|b0 i0]; [cbn; auto|].
  cbn [members_loop]. remember (b0 :: i0) as i eqn:Ei. clear Ei b0 i0.
  destruct (skip_ms_ok i Hv) as [Hv1 Hl1].
  destruct (skip_ms i) as [|b1 i1'] eqn:E1; [cbn; split; [lia | reflexivity]|].
  remember (b1 :: i1') as i1 eqn:Ei1. clear Ei1 b1 i1'.
  pose proof (G_member_p i1 Hv1) as Hc. unfold G, post in Hc.
  destruct (member_p i1) as [[c| | |] i2]; try tauto.
  - destruct Hc as [Hl2 Hv2].
    assert (Hr : post false i2 (members_loop fuel i2)) by (apply IH; [lia | exact Hv2]).
    unfold post in Hr |- *.
    destruct (members_loop fuel i2) as [[ms| | |] i3]; try tauto; destruct Hr; split; auto; lia.
  - unfold post. split; [lia | exact Hv1].
Qed.

Lemma G_interface_def i : valid i -> G true interface_def i.
Proof.
  intros Hv. unfold interface_def.
  apply G_bind_ft; [now apply G_ppc|]. intros cs i1 _ Hv1 _.
  apply G_bind_tf; [apply G_literal_strict; [apply ascii_kw_interface | discriminate | exact Hv1]|].
  intros _ i2 _ Hv2 _.
  apply G_bind_ff; [apply G_weaken; now apply G_multispace1|]. intros _ i3 _ Hv3 _.
  apply G_bind_ff; [apply G_weaken; now apply G_interface_name|]. intros nm i4 _ Hv4 _.
  apply G_bind_ff; [now apply G_whitespace_only|]. intros _ i5 _ Hv5 _.
  apply G_bind_ff.
  { apply G_with_len. unfold G. apply members_loop_ok; [lia | exact Hv5]. }
  intros ms i6 _ Hv6 _. now apply G_ret.
Qed.

(* ------------------------------------------------------------------ trim *)

Lemma valid_skip_ws_char l :
  valid l -> ws_char_len l <> O -> valid (skipn (ws_char_len l) l).
Proof.
  unfold valid. intros Hv Hn. destruct l as [|b0 r]; [cbn in Hn; congruence|].
  unfold ws_char_len in *.
  destruct (((9 <=? b0) && (b0 <=? 13)) || (b0 =? 32)) eqn:E1.
  { cbn [skipn]. rewrite valid_cons_ascii in Hv; auto.
    apply orb_true_iff in E1. destruct E1 as [E1|E1]; nb; lia. }
  destruct (b0 =? 194) eqn:E2.
  { nb. subst b0. destruct r as [|b1 r]; [congruence|].
    destruct ((b1 =? 133) || (b1 =? 160)) eqn:E; [|congruence].
    cbn [skipn]. cbn [utf8_valid] in Hv. cbn in Hv. nb. assumption. }
  destruct (b0 =? 225) eqn:E3.
  { nb. subst b0. destruct r as [|b1 [|b2 r]]; try congruence.
    destruct ((b1 =? 154) && (b2 =? 128)) eqn:E; [|congruence].
    cbn [skipn]. cbn [utf8_valid] in Hv. cbn in Hv. nb. assumption. }
  destruct (b0 =? 226) eqn:E4.
  { nb. subst b0. destruct r as [|b1 [|b2 r]]; try congruence.
    cbn [utf8_valid] in Hv. cbn in Hv. nb.
    destruct ((b1 =? 128) && (((128 <=? b2) && (b2 <=? 138)) || (b2 =? 168) || (b2 =? 169) || (b2 =? 175)));
      [cbn [skipn]; assumption|].
    destruct ((b1 =? 129) && (b2 =? 159)); [cbn [skipn]; assumption | congruence]. }
  destruct (b0 =? 227) eqn:E5; [|congruence].
  nb. subst b0. destruct r as [|b1 [|b2 r]]; try congruence.
  destruct ((b1 =? 128) && (b2 =? 128)) eqn:E; [|congruence].
  cbn [skipn]. cbn [utf8_valid] in Hv. cbn in Hv. nb. assumption.
Qed.

Lemma valid_trim_start l : valid l -> valid (trim_start l).
Proof.
  unfold trim_start. generalize (length l) as fuel. intros fuel. revert l.
  induction fuel as [|fuel IH]; intros l Hv; cbn [strip_while]; [exact Hv|].
  destruct (ws_char_len l) eqn:E; [exact Hv|]. apply IH. rewrite <- E.
  apply valid_skip_ws_char; [exact Hv | congruence].
Qed.

(* on the reversed text: dropping a complete character from the end *)
Lemma valid_skip_ws_char_rev l :
  valid (rev l) -> ws_char_len_rev l <> O -> valid (rev (skipn (ws_char_len_rev l) l)).
Proof.
  intros Hv Hn. destruct l as [|c r]; [cbn in Hn; congruence|].
  unfold ws_char_len_rev in *.
  assert (Hcut : forall k, (k <= length (c :: r))%nat ->
            boundary (rev (firstn k (c :: r))) -> valid (rev (skipn k (c :: r)))).
  { intros k Hk Hb. rewrite <- (firstn_skipn k (c :: r)) in Hv. rewrite rev_app_distr in Hv.
    apply valid_split in Hv; [tauto | exact Hb]. }
  destruct (((9 <=? c) && (c <=? 13)) || (c =? 32)) eqn:E1.
  { apply (Hcut 1%nat); [cbn; lia|]. cbn [firstn rev app]. apply ascii_boundary.
    apply orb_true_iff in E1. destruct E1 as [E1|E1]; nb; lia. }
  destruct r as [|b r']; [congruence|].
  destruct ((b =? 194) && ((c =? 133) || (c =? 160))) eqn:E2.
  { apply (Hcut 2%nat); [cbn; lia|]. cbn [firstn rev app]. nb. subst b. reflexivity. }
  destruct r' as [|a r'']; [congruence|].
  assert (H3 : forall x, (x =? 225) || (x =? 226) || (x =? 227) = true -> boundary (rev (firstn 3 (c :: b :: x :: r'')))).
  { intros x Hx. cbn [firstn rev app].
    apply orb_true_iff in Hx. destruct Hx as [Hx|Hx]; [apply orb_true_iff in Hx; destruct Hx as [Hx|Hx]|];
      nb; subst x; reflexivity. }
  destruct ((a =? 225) && (b =? 154) && (c =? 128)) eqn:E3.
  { apply (Hcut 3%nat); [cbn; lia|]. apply H3. nb. subst a. reflexivity. }
  destruct ((a =? 226) && (b =? 128) && (((128 <=? c) && (c <=? 138)) || (c =? 168) || (c =? 169) || (c =? 175))) eqn:E4.
  { apply (Hcut 3%nat); [cbn; lia|]. apply H3.
    apply andb_true_iff in E4. destruct E4 as [E4 _]. apply andb_true_iff in E4. destruct E4 as [E4 _].
    nb. subst a. reflexivity. }
  destruct ((a =? 226) && (b =? 129) && (c =? 159)) eqn:E5.
  { apply (Hcut 3%nat); [cbn; lia|]. apply H3. nb. subst a. reflexivity. }
  destruct ((a =? 227) && (b =? 128) && (c =? 128)) eqn:E6; [|congruence].
  apply (Hcut 3%nat); [cbn; lia|]. apply H3. nb. subst a. reflexivity.
Qed.

Lemma strip_rev_valid : forall fuel l,
  valid (rev l) -> valid (rev (strip_while ws_char_len_rev fuel l)).
Proof.
  induction fuel as [|fuel IH]; intros l Hv; cbn [strip_while]; [exact Hv|].
  destruct (ws_char_len_rev l) eqn:E; [exact Hv|]. apply IH. rewrite <- E.
  apply valid_skip_ws_char_rev; [exact Hv | congruence].
Qed.

Lemma valid_trim_end l : valid l -> valid (trim_end l).
Proof. intros Hv. unfold trim_end. apply strip_rev_valid. now rewrite rev_involutive. Qed.

Lemma valid_trim l : valid l -> valid (trim l).
Proof. intros H. unfold trim. now apply valid_trim_end, valid_trim_start. Qed.

(* ------------------------------------------------------------------ the two theorems *)

Theorem parse_interface_safe s :
  utf8_valid s = true -> parse_interface s <> OPanic /\ parse_interface s <> OFuel.
Proof.
  intros Hv. unfold parse_interface. pose proof (valid_trim s Hv) as Ht.
  destruct (trim s) as [|b0 i0]; [split; discriminate|].
  remember (b0 :: i0) as i eqn:Ei. clear Ei b0 i0.
  pose proof (G_interface_def i Ht) as Hd. unfold G, post in Hd.
  destruct (interface_def i) as [[t| | |] i1]; try tauto; [|split; discriminate].
  destruct Hd as [_ Hv1]. pose proof (G_ws i1 Hv1) as Hw. unfold G, post in Hw.
  destruct (ws i1) as [[u| | |] i2]; try tauto; destruct i2; split; discriminate.
Qed.
