(* A concrete text in a non-canonical layout (leading blank, indented comment line, doubled blanks,
   blanks around ':' and inside the parentheses, a comment line inside an inline type, no blank
   around "->", trailing newline) that satisfies the layout relation of C13_complete. *)
From Coq Require Import Ascii String.
From ZV Require Import Common.Base gen.IdlKeywords Idl.Idl Idl.IdlParse Idl.IdlExec Idl.IdlRoundTrip
  Idl.IdlComplete.
Local Open Scope N_scope.

Definition SP : list byte := [32].
Definition LFb : list byte := [10].

(* " # c\ninterface  a.b\n\nmethod M( x : (# inl\n p, q) )->()\n" *)
Definition ex_text : list byte :=
  SP ++ bs "# c" ++ LFb ++ bs "interface  a.b" ++ LFb ++ LFb
  ++ bs "method M( x : (# inl" ++ LFb ++ bs " p, q) )->()" ++ LFb.

Definition ex_members : list member :=
  [MMethod (mkMethod (bs "M")
     [mkField (bs "x") (TEnum [mkVariant (bs "p") []; mkVariant (bs "q") []]) []] [] [])].

Lemma blanks_sp : blanks [32]. Proof. repeat constructor. Qed.
Lemma blanks_nil : blanks []. Proof. constructor. Qed.

Definition ex_name : name := bs "a.b".
Definition ex_comments : list comment := [bs "c"].

Lemma ex_layout : Linterface ex_name ex_comments ex_members ex_text.
Proof.
  split; [reflexivity|].
  exists [32], (35 :: [32] ++ bs "c" ++ 10 :: [] ++ []), [32; 32],
    ([10; 10] ++ (bs "method M( x : (# inl" ++ LFb ++ bs " p, q) )->()") ++ []), [10].
  split; [apply blanks_sp|]. split; [repeat constructor|].
  split; [apply cl_cons; [repeat constructor | reflexivity | auto | constructor | constructor]|].
  split; [split; [repeat constructor | discriminate]|].
  split; [|reflexivity].
  (* the member *)
  exists [10; 10], (bs "method M( x : (# inl" ++ LFb ++ bs " p, q) )->()"), [].
  split; [split; [repeat constructor | discriminate]|]. split; [|split; reflexivity].
  cbn [Lmember]. split; [reflexivity|].
  exists [], [32], [], (40 :: [32] ++ (bs "x : (# inl" ++ LFb ++ bs " p, q)") ++ [] ++ [32] ++ [41]), [], [],
    (40 :: [] ++ [41]).
  split; [constructor|]. split; [split; [apply blanks_sp | discriminate]|].
  split; [constructor|]. split; [constructor|]. split; [constructor|].
  split; [|split; [exists []; split; [constructor | reflexivity] | reflexivity]].
  (* the input parameter list *)
  cbn [Lplist Llist].
  exists [32], (bs "x : (# inl" ++ LFb ++ bs " p, q)"), [], [32].
  split; [apply blanks_sp|]. split; [apply blanks_sp|]. split; [|split; reflexivity].
  (* the parameter x with its inline enum; the comment inside the enum is layout *)
  split; [reflexivity|].
  exists [], [32], [32], (40 :: (bs "# inl" ++ LFb ++ [32]) ++ bs "p" ++ ([] ++ 44 :: [32] ++ bs "q" ++ []) ++ [] ++ [41]).
  split; [constructor|]. split; [apply blanks_sp|]. split; [apply blanks_sp|]. split; [|reflexivity].
  cbn [Lty]. split; [reflexivity|]. split; [reflexivity|].
  exists (bs "# inl" ++ LFb ++ [32]), ([] ++ 44 :: [32] ++ bs "q" ++ []), [].
  split.
  { change (bs "# inl" ++ LFb ++ [32]) with (35 :: bs " inl" ++ 10 :: [32]).
    apply wsg_comment; [repeat constructor | reflexivity | repeat constructor]. }
  split; [constructor|]. split; [|reflexivity].
  cbn. exists [], [32], (bs "q"), []. repeat split; try reflexivity; repeat constructor.
Qed.
